(* Proofs/RecurExact3.v — exactness of the REVERSE fetch of Model/Recur.v against
   Spec/RecurSpec.v, and totality of the safe anchor.
   1-2. the reverse pager, relative to the windows it asks
     reverse_go_pager_partial    an Ok result of reverse_go is the result of the abstract pager over
                                 any fwd that agrees with the Ok answers of the chunk fetches asked
     C08_reverse_exact           fetch_reverse r a b = Ok l -> l = rev (spec_occurrences r a b)
                                 (the whole window: the reverse fetch restricts nothing further)
     C08_reverse_is_rev_forward_exact   Ok lf forward, Ok lr reverse -> lr = rev lf
     C08_reverse_chunks_ok       an Ok reverse fetch means every chunk fetch asked was Ok
     C08_reverse_total_chunks / _subwindows   every chunk fetch asked Ok -> the reverse fetch is
                                 Ok (rev (spec_occurrences r a b)): the fuel nchunks suffices
   3. _get_safe_anchor
     safe_anchor_monthly_iff / _yearly_iff   it answers iff some step-back lands on a month / year
                                 >= 1 that has the anchor's day
     safe_anchor_total_all       it answers for EVERY rule (days 29-31, 29 February included) when the
                                 look-back date is not before the anchor's month / year, or its
                                 year leaves room for back_steps + 1 intervals; back_steps = 0
                                 (day <= 28), 1 (29th, 30th), 5 (31st; attained), 399 (29 February
                                 with an interval of whole years)
     safe_anchor_none_genuine_*  a None is always the year < 1 ValueError, never the model's fuel
     safe_anchor_total_refuted, C08_answers_every_window_refuted(_interval_1)
                                 ... and the year < 1 ValueError IS reachable: the fetch raises on
                                 a window whose correct answer is the empty list
   4. every window answered
     C08_forward_answers, C08_answers_every_window(_after_anchor)
   occurrences of positive length: occ_positive_wf (any well-formed zone table, duration > 0);
     C08_reverse_exact_zero_duration_refuted: with duration = 0 (accepted by recurring()) the
     reverse fetch loses the occurrences lying on chunk edges *)
From CG Require Import Model.Recur Spec.RecurSpec Proofs.CivilP Proofs.CdateP Proofs.RecurP
  Proofs.RecurExact Proofs.RecurExact2.
From Coq Require Import Lia ZifyBool Sorting.Sorted.
Ltac Zify.zify_post_hook ::= Z.to_euclidean_division_equations.

(* ------------------------------------------------------------------------------------------ *)
(* 1. the reverse pager relative to the windows it asks                                        *)

(* what a window sees of a list of occurrences *)
Definition winf (a b : Z) (i : ivl) : bool := (a <? fend i) && (fstart i <=? b).

(* partial correctness: if the Ok answers of the chunk fetches inside [eff, end_] agree with fwd,
   an Ok answer of reverse_go is the answer of the abstract pager over fwd.  (A chunk fetch that
   raises or runs out of fuel makes reverse_go do the same: nothing to prove then.) *)
Lemma reverse_go_pager_partial (r : rule) (fwd : Z -> Z -> list ivl) eff end_ :
  (forall a' b' l, eff <= a' -> a' < b' -> b' <= end_ ->
                   fetch_forward r a' b' = Ok l -> l = fwd a' b') ->
  forall fuel cur l, cur <= end_ ->
    reverse_go fuel r eff (Some eff) end_ cur = Ok l ->
    pager fwd (chunk_size (r_freq r)) fuel eff end_ cur = Some l.
Proof.
  intros Hf. pose proof (chunk_size_pos (r_freq r)) as Hc.
  induction fuel as [|f IH]; intros cur l Hcur H; cbn [reverse_go pager] in *.
  - destruct (cur <=? eff); [congruence|discriminate].
  - destruct (cur <=? eff) eqn:Ece; [congruence|].
    set (cs := Z.max eff (cur - chunk_size (r_freq r))) in *.
    assert (Hcs : eff <= cs /\ cs < cur) by (unfold cs; lia).
    destruct (fetch_forward r cs cur) as [l0| |] eqn:Ef; try discriminate.
    rewrite <- (Hf cs cur l0 ltac:(lia) ltac:(lia) Hcur Ef).
    destruct (cs <=? eff); [congruence|].
    destruct (reverse_go f r eff (Some eff) end_ cs) as [l'| |] eqn:Er; try discriminate.
    rewrite (IH cs l' ltac:(lia) Er). congruence.
Qed.

(* an Ok answer of reverse_go means every chunk fetch asked was Ok *)
Lemma reverse_go_chunks_ok (r : rule) eff end_ :
  let c := chunk_size (r_freq r) in
  forall fuel cur l,
    reverse_go fuel r eff (Some eff) end_ cur = Ok l ->
    forall j, 0 <= j -> eff < cur - j * c ->
      exists l', fetch_forward r (Z.max eff (cur - j * c - c)) (cur - j * c) = Ok l'.
Proof.
  intros c. pose proof (chunk_size_pos (r_freq r)) as Hc. fold c in Hc.
  induction fuel as [|f IH]; intros cur l H j Hj Hlt; cbn [reverse_go] in H.
  - assert (0 <= j * c) by nia.
    replace (cur <=? eff) with false in H by lia. discriminate.
  - assert (0 <= j * c) by nia.
    replace (cur <=? eff) with false in H by lia. fold c in H.
    destruct (fetch_forward r (Z.max eff (cur - c)) cur) as [l0| |] eqn:Ef; try discriminate.
    destruct (Z.eq_dec j 0) as [->|Hj0].
    + rewrite Z.mul_0_l, Z.sub_0_r. eexists; exact Ef.
    + assert (Hcs : Z.max eff (cur - c) = cur - c) by nia.
      rewrite Hcs in H.
      replace (cur - c <=? eff) with false in H by nia.
      destruct (reverse_go f r eff (Some eff) end_ (cur - c)) as [l'| |] eqn:Er; try discriminate.
      destruct (IH (cur - c) l' Er (j - 1) ltac:(lia) ltac:(nia)) as [l1 Hl1].
      exists l1. rewrite <- Hl1. f_equal; nia.
Qed.

(* totality: if every chunk fetch asked is Ok, reverse_go is Ok once the fuel covers the range *)
Lemma reverse_go_total (r : rule) eff end_ :
  let c := chunk_size (r_freq r) in
  forall fuel cur,
    cur - eff <= Z.of_nat fuel * c ->
    (forall j, 0 <= j -> eff < cur - j * c ->
       exists l', fetch_forward r (Z.max eff (cur - j * c - c)) (cur - j * c) = Ok l') ->
    exists l, reverse_go fuel r eff (Some eff) end_ cur = Ok l.
Proof.
  intros c. pose proof (chunk_size_pos (r_freq r)) as Hc. fold c in Hc.
  induction fuel as [|f IH]; intros cur Hfuel Hall; cbn [reverse_go].
  - replace (cur <=? eff) with true by lia. eexists; reflexivity.
  - destruct (cur <=? eff) eqn:Ece; [eexists; reflexivity|]. fold c.
    destruct (Hall 0 ltac:(lia) ltac:(lia)) as [l0 Hl0].
    rewrite Z.mul_0_l, Z.sub_0_r in Hl0. rewrite Hl0.
    destruct (Z.max eff (cur - c) <=? eff) eqn:Es; [eexists; reflexivity|].
    assert (Hcs : Z.max eff (cur - c) = cur - c) by lia. rewrite Hcs.
    destruct (IH (cur - c)) as [l' Hl'].
    + rewrite Nat2Z.inj_succ in Hfuel. lia.
    + intros j Hj Hlt. destruct (Hall (j + 1) ltac:(lia) ltac:(nia)) as [l1 Hl1].
      exists l1. rewrite <- Hl1. f_equal; nia.
    + rewrite Hl'. eexists; reflexivity.
Qed.

Lemma sorted_lt_le l :
  StronglySorted (fun x y : ivl => fstart x < fstart y) l ->
  StronglySorted (fun x y : ivl => fstart x <= fstart y) l.
Proof.
  induction 1 as [|x l Hs IH Hx]; constructor; [exact IH|].
  eapply Forall_impl; [|exact Hx]. cbv beta. intros; lia.
Qed.

(* the fuel nchunks of fetch_reverse_opt covers the range *)
Lemma nchunks_enough c a b : 0 < c -> a < b ->
  b - a <= Z.of_nat (Z.to_nat (Z.max 0 (b - a) / c + 2)) * c.
Proof.
  intros Hc Hab.
  rewrite Z2Nat.id by (apply Z.add_nonneg_nonneg; [apply Z.div_pos; lia|lia]).
  replace (Z.max 0 (b - a)) with (b - a) by lia.
  pose proof (Z.mod_pos_bound (b - a) c Hc). pose proof (Z.div_mod (b - a) c). nia.
Qed.

(* Exactness of the reverse fetch (partial correctness): whenever the model answers, the answer
   is the specification's list for the whole window [a, b], newest first — every occurrence once,
   whatever the chunk size and however the occurrences straddle the chunk edges.  The reverse
   fetch does not restrict the window further: it returns exactly what the forward fetch of
   [a, b] returns, reversed.
   Beyond the hypotheses of C07_forward_exact: a < b (the loop is not entered otherwise: see
   C08_reverse_empty) and occurrences of positive length (an empty occurrence lying exactly on a
   chunk edge is seen by neither chunk: see the remark at the end of the section). *)
Theorem C08_reverse_exact : forall r a b l,
  lists_ok r -> 0 < r_interval r -> rule_accepted r ->
  zone_spread_ok (r_zone r) = true ->
  Forall (fun i => fstart i < fend i) (spec_occurrences r a b) ->
  a < b ->
  fetch_reverse r a b = Ok l -> l = rev (spec_occurrences r a b).
Proof.
  intros r a b l Hok Hk Hacc Hz Hpos Hab H.
  unfold fetch_reverse, fetch_reverse_opt in H.
  set (fwd := fun a' b' => filter (winf a' b') (spec_occurrences r a b)).
  apply (reverse_go_pager_partial r fwd a b) in H; [|clear H|lia].
  - pose proof (chunk_size_pos (r_freq r)) as Hc.
    rewrite (pager_exactly_once fwd (chunk_size (r_freq r)) (spec_occurrences r a b)
               (fun _ _ => eq_refl)
               (sorted_lt_le _ (spec_occurrences_sorted r a b Hz)) Hpos Hc) in H;
      [|exact Hab|apply nchunks_enough; assumption].
    injection H as <-. f_equal. unfold fwd. symmetry.
    apply (spec_window_restrict r a b a b Hacc Hz); lia.
  - intros a' b' l0 Ha' Hab' Hb' Hf.
    rewrite (C07_forward_exact r a' b' l0 Hok Hk Hacc Hz Hf). unfold fwd.
    apply (spec_window_restrict r a' b' a b Hacc Hz); lia.
Qed.
Print Assumptions C08_reverse_exact.

(* an empty or inverted window: the loop is not entered *)
Lemma C08_reverse_empty r a b : b <= a -> fetch_reverse r a b = Ok [].
Proof.
  intros Hab. unfold fetch_reverse, fetch_reverse_opt.
  destruct (Z.to_nat _); cbn [reverse_go]; replace (b <=? a) with true by lia; reflexivity.
Qed.

(* 2. both directions answered: the reverse answer is the forward answer reversed *)
Corollary C08_reverse_is_rev_forward_exact : forall r a b lf lr,
  lists_ok r -> 0 < r_interval r -> rule_accepted r ->
  zone_spread_ok (r_zone r) = true ->
  Forall (fun i => fstart i < fend i) lf ->
  a < b ->
  fetch_forward r a b = Ok lf -> fetch_reverse r a b = Ok lr -> lr = rev lf.
Proof.
  intros r a b lf lr Hok Hk Hacc Hz Hpos Hab Hf Hr.
  pose proof (C07_forward_exact r a b lf Hok Hk Hacc Hz Hf) as ->.
  apply (C08_reverse_exact r a b lr Hok Hk Hacc Hz Hpos Hab Hr).
Qed.
Print Assumptions C08_reverse_is_rev_forward_exact.

(* an Ok reverse fetch means every chunk fetch the pager asked was Ok: a chunk fetch that raises
   or runs out of fuel makes the reverse fetch do the same *)
Theorem C08_reverse_chunks_ok : forall r a b l,
  fetch_reverse r a b = Ok l ->
  let c := chunk_size (r_freq r) in
  forall j, 0 <= j -> a < b - j * c ->
    exists l', fetch_forward r (Z.max a (b - j * c - c)) (b - j * c) = Ok l'.
Proof.
  intros r a b l H. unfold fetch_reverse, fetch_reverse_opt in H.
  exact (reverse_go_chunks_ok r a b _ b l H).
Qed.
Print Assumptions C08_reverse_chunks_ok.

(* Total correctness of the reverse fetch relative to the chunk fetches: if each of the windows
   the pager asks — [max a (b - (j+1) c), b - j c] for j = 0, 1, ... while a < b - j c, c the chunk
   size — is answered by the forward fetch, the reverse fetch answers, and exactly: the fuel
   nchunks of reverse_go never runs out. *)
Theorem C08_reverse_total_chunks : forall r a b,
  lists_ok r -> 0 < r_interval r -> rule_accepted r ->
  zone_spread_ok (r_zone r) = true ->
  Forall (fun i => fstart i < fend i) (spec_occurrences r a b) ->
  a < b ->
  (let c := chunk_size (r_freq r) in
   forall j, 0 <= j -> a < b - j * c ->
     exists l', fetch_forward r (Z.max a (b - j * c - c)) (b - j * c) = Ok l') ->
  fetch_reverse r a b = Ok (rev (spec_occurrences r a b)).
Proof.
  intros r a b Hok Hk Hacc Hz Hpos Hab Hall.
  destruct (reverse_go_total r a b (Z.to_nat (Z.max 0 (b - a) / chunk_size (r_freq r) + 2)) b
              (nchunks_enough _ a b (chunk_size_pos (r_freq r)) Hab) Hall) as [l Hl].
  assert (H : fetch_reverse r a b = Ok l) by exact Hl.
  rewrite H. f_equal. exact (C08_reverse_exact r a b l Hok Hk Hacc Hz Hpos Hab H).
Qed.
Print Assumptions C08_reverse_total_chunks.

(* in particular when every sub-window of [a, b] is answered *)
Corollary C08_reverse_total_subwindows : forall r a b,
  lists_ok r -> 0 < r_interval r -> rule_accepted r ->
  zone_spread_ok (r_zone r) = true ->
  Forall (fun i => fstart i < fend i) (spec_occurrences r a b) ->
  a < b ->
  (forall a' b', a <= a' -> a' < b' -> b' <= b -> exists l', fetch_forward r a' b' = Ok l') ->
  fetch_reverse r a b = Ok (rev (spec_occurrences r a b)).
Proof.
  intros r a b Hok Hk Hacc Hz Hpos Hab Hall.
  apply C08_reverse_total_chunks; try assumption.
  intros c j Hj Hlt. pose proof (chunk_size_pos (r_freq r)) as Hc. fold c in Hc.
  apply Hall; nia.
Qed.
Print Assumptions C08_reverse_total_subwindows.

(* ------------------------------------------------------------------------------------------ *)
(* 3. totality of _get_safe_anchor                                                             *)

(* the anchor's day of the month exists in the month of index abs = year*12 + month-1 *)
Definition mday_ok (bd abs : Z) : Prop := bd <= dim (abs / 12) (abs mod 12 + 1).

(* the step-back loop answers as soon as some step (within the fuel) lands on a month of a year
   >= 1 that has the day: every earlier step is in a year >= 1 too, so the loop goes on *)
Lemma month_back_hit k bd : 0 <= k -> forall fuel abs j,
  0 <= j <= Z.of_nat fuel -> 1 <= (abs - j * k) / 12 -> mday_ok bd (abs - j * k) ->
  exists a, month_back fuel k bd abs = Some a.
Proof.
  intros Hk. unfold mday_ok.
  induction fuel as [|f IH]; intros abs j Hj Hy Hd; cbn [month_back];
    destruct ((1 <=? abs / 12) && (bd <=? dim (abs / 12) (abs mod 12 + 1))) eqn:E;
    try (eexists; reflexivity).
  - assert (j = 0) by lia. subst j. rewrite Z.mul_0_l, Z.sub_0_r in *. lia.
  - assert (Hjk : 0 <= j * k) by nia.
    replace (abs / 12 <? 1) with false by lia.
    destruct (Z.eq_dec j 0) as [->|Hj0].
    { rewrite Z.mul_0_l, Z.sub_0_r in *. lia. }
    apply (IH (abs - k) (j - 1)); [lia| |];
      replace (abs - k - (j - 1) * k) with (abs - j * k) by ring; assumption.
Qed.

Lemma year_back_hit k bm bd : 0 <= k -> forall fuel yr j,
  0 <= j <= Z.of_nat fuel -> 1 <= yr - j * k -> bd <= dim (yr - j * k) bm ->
  exists a, year_back fuel k bm bd yr = Some a.
Proof.
  intros Hk.
  induction fuel as [|f IH]; intros yr j Hj Hy Hd; cbn [year_back];
    destruct ((1 <=? yr) && (bd <=? dim yr bm)) eqn:E; try (eexists; reflexivity).
  - assert (j = 0) by lia. subst j. rewrite Z.mul_0_l, Z.sub_0_r in *. lia.
  - assert (Hjk : 0 <= j * k) by nia.
    replace (yr <? 1) with false by lia.
    destruct (Z.eq_dec j 0) as [->|Hj0].
    { rewrite Z.mul_0_l, Z.sub_0_r in *. lia. }
    apply (IH (yr - k) (j - 1)); [lia| |];
      replace (yr - k - (j - 1) * k) with (yr - j * k) by ring; assumption.
Qed.

(* conversely an answer is such a step, within the fuel *)
Lemma month_back_step fuel k bd : forall abs a,
  month_back fuel k bd abs = Some a ->
  exists j, 0 <= j <= Z.of_nat fuel /\ 1 <= (abs - j * k) / 12 /\ mday_ok bd (abs - j * k).
Proof.
  unfold mday_ok.
  induction fuel as [|f IH]; intros abs a H; cbn [month_back] in H;
    destruct ((1 <=? abs / 12) && (bd <=? dim (abs / 12) (abs mod 12 + 1))) eqn:E.
  - exists 0. rewrite Z.mul_0_l, Z.sub_0_r. lia.
  - destruct (abs / 12 <? 1); discriminate.
  - exists 0. rewrite Z.mul_0_l, Z.sub_0_r. lia.
  - destruct (abs / 12 <? 1); [discriminate|].
    apply IH in H. destruct H as (j & Hj & H). exists (j + 1).
    replace (abs - (j + 1) * k) with (abs - k - j * k) by ring. split; [lia|exact H].
Qed.

Lemma year_back_step fuel k bm bd : forall yr a,
  year_back fuel k bm bd yr = Some a ->
  exists j, 0 <= j <= Z.of_nat fuel /\ 1 <= yr - j * k /\ bd <= dim (yr - j * k) bm.
Proof.
  induction fuel as [|f IH]; intros yr a H; cbn [year_back] in H;
    destruct ((1 <=? yr) && (bd <=? dim yr bm)) eqn:E.
  - exists 0. rewrite Z.mul_0_l, Z.sub_0_r. lia.
  - destruct (yr <? 1); discriminate.
  - exists 0. rewrite Z.mul_0_l, Z.sub_0_r. lia.
  - destruct (yr <? 1); [discriminate|].
    apply IH in H. destruct H as (j & Hj & H). exists (j + 1).
    replace (yr - (j + 1) * k) with (yr - k - j * k) by ring. split; [lia|exact H].
Qed.

(* ---- calendar facts ---- *)
Lemma dim_not_feb y m : m <> 2 -> 30 <= dim y m.
Proof.
  intros Hm. unfold dim. replace (m =? 2) with false by lia.
  destruct ((m =? 4) || (m =? 6) || (m =? 9) || (m =? 11)); lia.
Qed.

Lemma dim_feb_le y : dim y 2 <= 29.
Proof. unfold dim. cbn. destruct (is_leap y); lia. Qed.

Lemma dim_year_indep y y' m : m <> 2 -> dim y m = dim y' m.
Proof. intros Hm. unfold dim. replace (m =? 2) with false by lia. reflexivity. Qed.

(* a day that is not 29 February exists in its month whatever the year *)
Lemma dim_any_year y y' m bd : bd <= dim y m -> ~ (m = 2 /\ bd = 29) -> bd <= dim y' m.
Proof.
  intros Hd Hn. destruct (Z.eq_dec m 2) as [->|Hm].
  - pose proof (dim_bounds y' 2). pose proof (dim_bounds y 2).
    assert (dim y 2 <= 29) by (unfold dim; cbn; destruct (is_leap y); lia). lia.
  - rewrite (dim_year_indep y' y m Hm). exact Hd.
Qed.

(* among the candidate steps: taking the step that lands on the anchor's own period when that
   comes first keeps the result at or after the anchor *)
Lemma pick_step (D : Z -> Prop) B q k jc :
  0 < k -> 0 <= jc -> D B -> D (B + q * k - jc * k) ->
  exists j, 0 <= j <= jc /\ D (B + q * k - j * k) /\ (0 <= q -> B <= B + q * k - j * k).
Proof.
  intros Hk Hjc HB Hc.
  destruct (Z_le_gt_dec 0 q) as [Hq|Hq].
  - destruct (Z_lt_ge_dec q jc) as [Hlt|Hge].
    + exists q. split; [lia|]. replace (B + q * k - q * k) with B by ring. split; [exact HB|lia].
    + exists jc. split; [lia|]. split; [exact Hc|]. intros _. nia.
  - exists jc. split; [lia|]. split; [exact Hc|]. lia.
Qed.

(* ---- the number of step-backs ---- *)
(* MONTHLY: none for a day <= 28; for 29 February with an interval of whole years, up to 399 (the
   leap years of the anchor's progression recur every 400 years at the latest); for the 29th and
   30th otherwise, one (the step leaves February); for the 31st up to 5 (reached by the intervals
   congruent to 5 or 7 modulo 12: June <- November <- April <- September <- February <- July) *)
Definition msteps (bm bd k : Z) : Z :=
  if bd <=? 28 then 0
  else if (bm =? 2) && (k mod 12 =? 0) then 399
  else if bd <=? 30 then 1
  else 5.
(* YEARLY: none unless the anchor is 29 February *)
Definition ysteps (bm bd : Z) : Z := if (bm =? 2) && (bd =? 29) then 399 else 0.

(* the month of index m (0 = January) has 31 days *)
Definition long_idx (m : Z) : bool :=
  negb ((m =? 1) || (m =? 3) || (m =? 5) || (m =? 8) || (m =? 10)).

Lemma dim_long y m : 0 <= m < 12 -> long_idx m = true -> dim y (m + 1) = 31.
Proof.
  unfold long_idx, dim. intros Hm H.
  destruct (m + 1 =? 2) eqn:E1; [lia|].
  destruct ((m + 1 =? 4) || (m + 1 =? 6) || (m + 1 =? 9) || (m + 1 =? 11)) eqn:E2; lia.
Qed.

Lemma long_of_31 y m : 1 <= m <= 12 -> 31 <= dim y m -> long_idx (m - 1) = true.
Proof.
  unfold long_idx, dim. intros Hm H.
  destruct (m =? 2) eqn:E1; [destruct (is_leap y); lia|].
  destruct ((m =? 4) || (m =? 6) || (m =? 9) || (m =? 11)) eqn:E2; lia.
Qed.

(* stepping back by kk months (mod 12) from any month of the progression of a 31-day month
   reaches a 31-day month within 5 steps: all 12 * 12 * 7 cases *)
Definition chk5 (kk qq mb : Z) : bool :=
  existsb (fun j => long_idx ((mb + qq * kk - j * kk) mod 12)) [0; 1; 2; 3; 4; 5].

Lemma chk5_all :
  forallb (fun kk => forallb (fun qq => forallb (fun mb => negb (long_idx mb) || chk5 kk qq mb)
                                               (zseq 0 12)) (zseq 0 12)) (zseq 0 12) = true.
Proof. vm_compute. reflexivity. Qed.

Lemma chk5_spec kk qq mb :
  0 <= kk < 12 -> 0 <= qq < 12 -> 0 <= mb < 12 -> long_idx mb = true ->
  exists j, 0 <= j <= 5 /\ long_idx ((mb + qq * kk - j * kk) mod 12) = true.
Proof.
  intros Hkk Hqq Hmb Hl. pose proof chk5_all as H.
  rewrite forallb_forall in H. specialize (H kk ltac:(apply zseq_In; lia)).
  rewrite forallb_forall in H. specialize (H qq ltac:(apply zseq_In; lia)).
  rewrite forallb_forall in H. specialize (H mb ltac:(apply zseq_In; lia)).
  rewrite Hl in H. cbn [negb orb] in H. unfold chk5 in H.
  apply existsb_exists in H. destruct H as (j & Hin & Hj).
  exists j. split; [|exact Hj]. cbn [In] in Hin. lia.
Qed.

(* the month of the year of a step only depends on the residues modulo 12 *)
Lemma step_month_mod by_ mb q k j :
  (by_ * 12 + mb + q * k - j * k) mod 12 = (mb + (q mod 12) * (k mod 12) - j * (k mod 12)) mod 12.
Proof.
  set (q1 := q / 12). set (qq := q mod 12). set (k1 := k / 12). set (kk := k mod 12).
  assert (Hq : q = 12 * q1 + qq) by (unfold q1, qq; lia).
  assert (Hk : k = 12 * k1 + kk) by (unfold k1, kk; lia).
  clearbody q1 qq k1 kk. subst q k.
  replace (by_ * 12 + mb + (12 * q1 + qq) * (12 * k1 + kk) - j * (12 * k1 + kk))
    with (mb + qq * kk - j * kk + (by_ + 12 * q1 * k1 + q1 * kk + qq * k1 - j * k1) * 12) by ring.
  apply Z_mod_plus_full.
Qed.

Lemma monthly_candidate k by_ bm bd q :
  0 < k -> 1 <= bm <= 12 -> 1 <= bd <= dim by_ bm ->
  exists jc, 0 <= jc <= msteps bm bd k /\ mday_ok bd (by_ * 12 + bm - 1 + q * k - jc * k).
Proof.
  intros Hk Hbm Hbd. unfold msteps, mday_ok.
  destruct (bd <=? 28) eqn:E28.
  { exists 0. split; [lia|]. pose proof (dim_bounds ((by_ * 12 + bm - 1 + q * k - 0 * k) / 12)
                                                  ((by_ * 12 + bm - 1 + q * k - 0 * k) mod 12 + 1)). lia. }
  destruct ((bm =? 2) && (k mod 12 =? 0)) eqn:Efeb.
  - (* 29 February, whole years: the same month, 400 m years earlier *)
    assert (bm = 2) by lia. subst bm.
    exists (q mod 400). split; [lia|].
    set (m := k / 12). assert (Hkm : k = 12 * m) by (unfold m; lia).
    set (t := (q / 400) * m).
    assert (Heq : by_ * 12 + 2 - 1 + q * k - (q mod 400) * k = by_ * 12 + 1 + 12 * (400 * t)).
    { unfold t. rewrite (Z.mod_eq q 400) by lia. rewrite Hkm. ring. }
    rewrite Heq.
    replace ((by_ * 12 + 1 + 12 * (400 * t)) / 12) with (by_ + 400 * t) by lia.
    replace ((by_ * 12 + 1 + 12 * (400 * t)) mod 12 + 1) with 2 by lia.
    rewrite dim_shift. lia.
  - destruct (bd <=? 30) eqn:E30.
    + (* the 29th or 30th: any month but February will do, and one step leaves February *)
      set (A := by_ * 12 + bm - 1 + q * k).
      destruct (Z.eq_dec (A mod 12) 1) as [HA|HA].
      * exists 1. split; [lia|]. rewrite Z.mul_1_l.
        assert (Hk12 : k mod 12 <> 0).
        { intros Hk0. pose proof (step_month_mod by_ (bm - 1) q k 0) as Hs.
          rewrite Hk0, Z.mul_0_r, !Z.mul_0_l, !Z.sub_0_r, Z.add_0_r in Hs.
          replace (by_ * 12 + (bm - 1) + q * k) with A in Hs by (unfold A; ring). lia. }
        pose proof (dim_not_feb ((A - k) / 12) ((A - k) mod 12 + 1) ltac:(lia)). lia.
      * exists 0. split; [lia|]. rewrite Z.mul_0_l, Z.sub_0_r.
        pose proof (dim_not_feb (A / 12) (A mod 12 + 1) ltac:(lia)). lia.
    + (* the 31st *)
      pose proof (dim_bounds by_ bm) as Hdb. assert (bd = 31) by lia. subst bd.
      pose proof (long_of_31 by_ bm Hbm ltac:(lia)) as Hlong.
      destruct (chk5_spec (k mod 12) (q mod 12) (bm - 1) ltac:(lia) ltac:(lia) ltac:(lia) Hlong)
        as (j & Hj & Hlj).
      exists j. split; [lia|].
      rewrite <- (step_month_mod by_ (bm - 1) q k j) in Hlj.
      replace (by_ * 12 + (bm - 1) + q * k - j * k) with (by_ * 12 + bm - 1 + q * k - j * k) in Hlj by ring.
      set (X := by_ * 12 + bm - 1 + q * k - j * k) in *.
      rewrite (dim_long (X / 12) (X mod 12) ltac:(lia) Hlj). lia.
Qed.

Lemma yearly_candidate k by_ bm bd q :
  0 < k -> 1 <= bd <= dim by_ bm ->
  exists jc, 0 <= jc <= ysteps bm bd /\ bd <= dim (by_ + q * k - jc * k) bm.
Proof.
  intros Hk Hbd. unfold ysteps.
  destruct ((bm =? 2) && (bd =? 29)) eqn:E.
  - exists (q mod 400). split; [lia|].
    replace (by_ + q * k - (q mod 400) * k) with (by_ + 400 * ((q / 400) * k))
      by (rewrite (Z.mod_eq q 400) by lia; ring).
    rewrite dim_shift. lia.
  - exists 0. split; [lia|]. apply (dim_any_year by_); lia.
Qed.

(* the bound on the number of step-backs of a rule *)
Definition back_steps (r : rule) : Z :=
  let bm := month_of (base_day r) in
  let bd := day_of (base_day r) in
  match r_freq r with
  | Daily | Weekly => 0
  | Monthly => msteps bm bd (r_interval r)
  | Yearly => ysteps bm bd
  end.

(* the look-back date is not before the anchor's month / year (and the anchor is in year >= 1):
   then the steps cannot go beyond the anchor itself *)
Definition after_anchor (r : rule) (sd : Z) : Prop :=
  match r_freq r with
  | Daily | Weekly => True
  | Monthly => 1 <= year_of (base_day r) /\ midx (base_day r) <= midx sd
  | Yearly => 1 <= year_of (base_day r) /\ year_of (base_day r) <= year_of sd
  end.

(* the look-back date is far enough from year 1 for (back_steps + 1) intervals *)
Definition anchor_room (r : rule) (sd : Z) : Prop :=
  match r_freq r with
  | Daily | Weekly => True
  | Monthly => (back_steps r + 1) * r_interval r <= 12 * (year_of sd - 1)
  | Yearly => (back_steps r + 1) * r_interval r <= year_of sd
  end.

(* _get_safe_anchor answers for EVERY rule (days 29-31, 29 February included), for every
   look-back date at or after the anchor's period, and for every earlier one whose year leaves
   room for back_steps + 1 intervals *)
Theorem safe_anchor_total_all : forall r sd,
  0 < r_interval r ->
  after_anchor r sd \/ anchor_room r sd ->
  exists a0, safe_anchor r sd = Some a0.
Proof.
  intros r sd Hk H. unfold safe_anchor.
  unfold after_anchor, anchor_room, back_steps, midx, year_of, month_of, day_of in H.
  destruct (r_freq r) eqn:Ef; try (eexists; reflexivity).
  - (* monthly *)
    destruct (civil_from_days (base_day r)) as [[by_ bm] bd] eqn:Eb.
    destruct (civil_from_days sd) as [[sy sm] sdd] eqn:Es. cbn [fst snd] in H.
    destruct (civil_fields_valid _ _ _ _ Eb) as [Hvb _]. apply valid_date_elim in Hvb.
    destruct (civil_fields_valid _ _ _ _ Es) as [Hvs _]. apply valid_date_elim in Hvs.
    set (k := r_interval r) in *.
    set (total := (sy - by_) * 12 + (sm - bm)).
    set (B := by_ * 12 + bm - 1).
    set (q := total / k).
    assert (Habs : B + (total - total mod k) = B + q * k).
    { unfold q. rewrite (Z.mod_eq total k) by lia. ring. }
    rewrite Habs.
    destruct (monthly_candidate k by_ bm bd q Hk ltac:(lia) ltac:(lia)) as (jc & Hjc & Hdc).
    fold B in Hdc.
    destruct (pick_step (mday_ok bd) B q k jc Hk ltac:(lia)) as (j & Hj & Hd & Hq).
    { unfold mday_ok, B. replace ((by_ * 12 + bm - 1) / 12) with by_ by lia.
      replace ((by_ * 12 + bm - 1) mod 12 + 1) with bm by lia. lia. }
    { exact Hdc. }
    apply (month_back_hit k bd ltac:(lia) BACK_FUEL (B + q * k) j).
    + unfold BACK_FUEL. assert (msteps bm bd k <= 399) by (unfold msteps;
        destruct (bd <=? 28); [lia|]; destruct ((bm =? 2) && (k mod 12 =? 0)); [lia|];
        destruct (bd <=? 30); lia). lia.
    + assert (Hqk : q * k <= total < q * k + k).
      { unfold q. pose proof (Z.mod_pos_bound total k Hk). rewrite (Z.mod_eq total k) in * by lia. lia. }
      destruct H as [[Hby Hafter]|Hroom].
      * assert (0 <= q) by (unfold total in *; nia). specialize (Hq ltac:(lia)). unfold B in *. lia.
      * assert (j * k <= msteps bm bd k * k) by nia. unfold B, total in *. lia.
    + exact Hd.
  - (* yearly *)
    destruct (civil_from_days (base_day r)) as [[by_ bm] bd] eqn:Eb.
    destruct (civil_from_days sd) as [[sy sm] sdd] eqn:Es. cbn [fst snd] in H.
    destruct (civil_fields_valid _ _ _ _ Eb) as [Hvb _]. apply valid_date_elim in Hvb.
    set (k := r_interval r) in *.
    set (q := (sy - by_) / k).
    assert (Hy0 : sy - (sy - by_) mod k = by_ + q * k).
    { unfold q. rewrite (Z.mod_eq (sy - by_) k) by lia. ring. }
    rewrite Hy0.
    destruct (yearly_candidate k by_ bm bd q Hk ltac:(lia)) as (jc & Hjc & Hdc).
    destruct (pick_step (fun y => bd <= dim y bm) by_ q k jc Hk ltac:(lia) ltac:(cbv beta; lia) Hdc)
      as (j & Hj & Hd & Hq).
    apply (year_back_hit k bm bd ltac:(lia) BACK_FUEL (by_ + q * k) j).
    + unfold BACK_FUEL. assert (ysteps bm bd <= 399) by (unfold ysteps;
        destruct ((bm =? 2) && (bd =? 29)); lia). lia.
    + assert (Hqk : q * k <= sy - by_ < q * k + k).
      { unfold q. pose proof (Z.mod_pos_bound (sy - by_) k Hk).
        rewrite (Z.mod_eq (sy - by_) k) in * by lia. lia. }
      destruct H as [[Hby Hafter]|Hroom].
      * assert (0 <= q) by nia. specialize (Hq ltac:(lia)). lia.
      * assert (j * k <= ysteps bm bd * k) by nia. lia.
    + exact Hd.
Qed.
Print Assumptions safe_anchor_total_all.

(* the exact condition: _get_safe_anchor answers iff some step-back, within the fuel of the model
   (BACK_FUEL = 2000; the Python loop has no bound other than year >= 1), lands on a month / a year
   >= 1 that has the anchor's day *)
Theorem safe_anchor_monthly_iff : forall r sd,
  r_freq r = Monthly -> 0 < r_interval r ->
  let k := r_interval r in
  let abs0 := midx sd - (midx sd - midx (base_day r)) mod k in
  (exists a0, safe_anchor r sd = Some a0) <->
  (exists j, 0 <= j <= Z.of_nat BACK_FUEL /\ 1 <= (abs0 - j * k) / 12 /\
             mday_ok (day_of (base_day r)) (abs0 - j * k)).
Proof.
  intros r sd Ef Hk k abs0. unfold safe_anchor. rewrite Ef.
  unfold abs0, midx, year_of, month_of, day_of. clear abs0.
  destruct (civil_from_days (base_day r)) as [[by_ bm] bd] eqn:Eb.
  destruct (civil_from_days sd) as [[sy sm] sdd] eqn:Es. cbn [fst snd]. fold k.
  replace (by_ * 12 + bm - 1 + ((sy - by_) * 12 + (sm - bm) - ((sy - by_) * 12 + (sm - bm)) mod k))
    with (sy * 12 + sm - 1 - (sy * 12 + sm - 1 - (by_ * 12 + bm - 1)) mod k).
  2:{ replace (sy * 12 + sm - 1 - (by_ * 12 + bm - 1)) with ((sy - by_) * 12 + (sm - bm)) by ring. ring. }
  split.
  - intros [a0 H]. exact (month_back_step _ _ _ _ _ H).
  - intros (j & Hj & Hy & Hd). exact (month_back_hit k bd ltac:(lia) _ _ j Hj Hy Hd).
Qed.
Print Assumptions safe_anchor_monthly_iff.

Theorem safe_anchor_yearly_iff : forall r sd,
  r_freq r = Yearly -> 0 < r_interval r ->
  let k := r_interval r in
  let y0 := year_of sd - (year_of sd - year_of (base_day r)) mod k in
  (exists a0, safe_anchor r sd = Some a0) <->
  (exists j, 0 <= j <= Z.of_nat BACK_FUEL /\ 1 <= y0 - j * k /\
             day_of (base_day r) <= dim (y0 - j * k) (month_of (base_day r))).
Proof.
  intros r sd Ef Hk k y0. unfold safe_anchor. rewrite Ef.
  unfold y0, year_of, month_of, day_of. clear y0.
  destruct (civil_from_days (base_day r)) as [[by_ bm] bd] eqn:Eb.
  destruct (civil_from_days sd) as [[sy sm] sdd] eqn:Es. cbn [fst snd]. fold k.
  split.
  - intros [a0 H]. exact (year_back_step _ _ _ _ _ _ H).
  - intros (j & Hj & Hy & Hd). exact (year_back_hit k bm bd ltac:(lia) _ _ j Hj Hy Hd).
Qed.
Print Assumptions safe_anchor_yearly_iff.

(* safe_anchor_total_all subsumes safe_anchor_total of RecurExact2.v (days <= 28: no step) *)
Corollary safe_anchor_total_le28 r sd :
  0 < r_interval r ->
  r_freq r = Daily \/ r_freq r = Weekly \/
  (day_of (base_day r) <= 28 /\ r_interval r < year_of sd) ->
  exists a0, safe_anchor r sd = Some a0.
Proof.
  intros Hk H. apply safe_anchor_total_all; [exact Hk|]. right.
  unfold anchor_room, back_steps, msteps, ysteps.
  destruct (r_freq r); try exact I; destruct H as [H|[H|[Hbd Hy]]]; try discriminate.
  - replace (day_of (base_day r) <=? 28) with true by lia. lia.
  - replace ((month_of (base_day r) =? 2) && (day_of (base_day r) =? 29)) with false by lia. lia.
Qed.

(* ---- instances ---- *)
(* every 5 months on the 31st, anchored on 2024-01-31 (UTC) *)
Definition ex_m5 : rule := mkRule Monthly 5 [] [] [] [] [] (Some 1706659200) 0 3600 utc_zone.
(* every year on 29 February, anchored on 2024-02-29 *)
Definition ex_feb29 : rule := mkRule Yearly 1 [] [] [] [] [] (Some 1709164800) 0 3600 utc_zone.
(* every 300 years on 29 February, anchored on 2000-02-29 *)
Definition ex_y300 : rule := mkRule Yearly 300 [] [] [] [] [] (Some 951782400) 0 3600 utc_zone.

(* the bound 5 of msteps is attained: a look-back date in March 2026 (day 20527) aligns to
   February 2026, and the loop steps February 2026 -> September 2025 -> April 2025 -> November
   2024 -> June 2024 -> January 2024 (day 19753 = 2024-01-31) *)
Example msteps_5_attained :
  back_steps ex_m5 = 5 /\
  safe_anchor ex_m5 20527 = Some 19753 /\
  (forall j, In j [0; 1; 2; 3; 4] ->
     ~ mday_ok 31 (2026 * 12 + 1 - j * 5)) /\ mday_ok 31 (2026 * 12 + 1 - 5 * 5).
Proof.
  split; [vm_compute; reflexivity|]. split; [vm_compute; reflexivity|]. split.
  - intros j Hj. cbn [In] in Hj. unfold mday_ok.
    destruct Hj as [<-|[<-|[<-|[<-|[<-|[]]]]]]; vm_compute; intros H; apply H; reflexivity.
  - vm_compute. discriminate.
Qed.

(* non-vacuity of safe_anchor_total_all: both disjuncts, on days 31 and 29 February *)
Example safe_anchor_total_all_instances :
  (0 < r_interval ex_m5 /\ after_anchor ex_m5 20527) /\
  (0 < r_interval ex_m5 /\ ~ after_anchor ex_m5 0 /\ anchor_room ex_m5 0) /\
  (0 < r_interval ex_feb29 /\ after_anchor ex_feb29 20527) /\
  (0 < r_interval ex_feb29 /\ ~ after_anchor ex_feb29 0 /\ anchor_room ex_feb29 0).
Proof.
  repeat split; try (vm_compute; congruence);
    intros [_ H]; vm_compute in H; apply H; reflexivity.
Qed.

(* The fuel BACK_FUEL of the model is never what stops the loop: when _get_safe_anchor does not
   answer, a step within back_steps (<= 399 < BACK_FUEL) has reached a year < 1 — the ValueError
   the Python loop re-raises.  So the model's None is exactly Python's exception. *)
Lemma back_steps_le r : back_steps r <= 399.
Proof.
  unfold back_steps, msteps, ysteps. destruct (r_freq r); try lia.
  - destruct (day_of (base_day r) <=? 28); [lia|].
    destruct ((month_of (base_day r) =? 2) && (r_interval r mod 12 =? 0)); [lia|].
    destruct (day_of (base_day r) <=? 30); lia.
  - destruct ((month_of (base_day r) =? 2) && (day_of (base_day r) =? 29)); lia.
Qed.

Theorem safe_anchor_none_genuine_monthly : forall r sd,
  r_freq r = Monthly -> 0 < r_interval r ->
  safe_anchor r sd = None ->
  let k := r_interval r in
  let abs0 := midx sd - (midx sd - midx (base_day r)) mod k in
  exists j, 0 <= j <= back_steps r /\ (abs0 - j * k) / 12 < 1.
Proof.
  intros r sd Ef Hk Hnone k abs0.
  assert (Hhit : exists jc, 0 <= jc <= back_steps r /\ mday_ok (day_of (base_day r)) (abs0 - jc * k)).
  { unfold abs0, back_steps, midx, year_of, month_of, day_of. rewrite Ef.
    destruct (civil_from_days (base_day r)) as [[by_ bm] bd] eqn:Eb. cbn [fst snd].
    destruct (civil_fields_valid _ _ _ _ Eb) as [Hvb _]. apply valid_date_elim in Hvb.
    set (S := fst (fst (civil_from_days sd)) * 12 + snd (fst (civil_from_days sd)) - 1).
    set (q := (S - (by_ * 12 + bm - 1)) / k).
    replace (S - (S - (by_ * 12 + bm - 1)) mod k) with (by_ * 12 + bm - 1 + q * k)
      by (unfold q; rewrite (Z.mod_eq (S - (by_ * 12 + bm - 1)) k) by lia; ring).
    fold k. apply monthly_candidate; lia. }
  destruct Hhit as (jc & Hjc & Hd).
  destruct (Z_lt_ge_dec ((abs0 - jc * k) / 12) 1) as [Hlt|Hge]; [exists jc; split; assumption|].
  exfalso.
  destruct (proj2 (safe_anchor_monthly_iff r sd Ef Hk)) as [a0 Ha0]; [|congruence].
  exists jc. fold k abs0. pose proof (back_steps_le r). unfold BACK_FUEL. repeat split; try lia; exact Hd.
Qed.
Print Assumptions safe_anchor_none_genuine_monthly.

Theorem safe_anchor_none_genuine_yearly : forall r sd,
  r_freq r = Yearly -> 0 < r_interval r ->
  safe_anchor r sd = None ->
  let k := r_interval r in
  let y0 := year_of sd - (year_of sd - year_of (base_day r)) mod k in
  exists j, 0 <= j <= back_steps r /\ y0 - j * k < 1.
Proof.
  intros r sd Ef Hk Hnone k y0.
  assert (Hhit : exists jc, 0 <= jc <= back_steps r /\
                   day_of (base_day r) <= dim (y0 - jc * k) (month_of (base_day r))).
  { unfold y0, back_steps, year_of, month_of, day_of. rewrite Ef.
    destruct (civil_from_days (base_day r)) as [[by_ bm] bd] eqn:Eb. cbn [fst snd].
    destruct (civil_fields_valid _ _ _ _ Eb) as [Hvb _]. apply valid_date_elim in Hvb.
    set (sy := fst (fst (civil_from_days sd))).
    set (q := (sy - by_) / k).
    replace (sy - (sy - by_) mod k) with (by_ + q * k)
      by (unfold q; rewrite (Z.mod_eq (sy - by_) k) by lia; ring).
    fold k. apply yearly_candidate; lia. }
  destruct Hhit as (jc & Hjc & Hd).
  destruct (Z_lt_ge_dec (y0 - jc * k) 1) as [Hlt|Hge]; [exists jc; split; assumption|].
  exfalso.
  destruct (proj2 (safe_anchor_yearly_iff r sd Ef Hk)) as [a0 Ha0]; [|congruence].
  exists jc. fold k y0. pose proof (back_steps_le r). unfold BACK_FUEL. repeat split; try lia; exact Hd.
Qed.
Print Assumptions safe_anchor_none_genuine_yearly.

(* ---- the hypothesis cannot be dropped: the ValueError of year < 1 is reachable ---- *)
(* (i) yearly on 29 February from 2024: a look-back date in year 3 (day -718432 = 0003-01-01)
       steps 3 -> 2 -> 1 -> 0;
   (ii) every 300 years on 29 February from 2000: a look-back date in year 699 aligns to year
       500 (not a leap year), steps to 200 (not one either), then to -100 *)
Theorem safe_anchor_total_refuted :
  exists r sd, 0 < r_interval r /\ rule_accepted r /\ 1 <= year_of sd /\ safe_anchor r sd = None.
Proof.
  exists ex_feb29, (-718432).
  split; [cbn; lia|]. split; [unfold rule_accepted; cbn; unfold DAY; lia|].
  split; [vm_compute; discriminate|]. vm_compute. reflexivity.
Qed.
Print Assumptions safe_anchor_total_refuted.

Lemma simple_lists_ok r :
  r_bymonth r = [] -> r_bymonthday r = [] -> r_byweekday r = [] -> lists_ok r.
Proof.
  intros H1 H2 H3. constructor; [rewrite H1; constructor|rewrite H2; constructor|rewrite H3; constructor|].
  left. unfold byday_plain_only. rewrite H3. reflexivity.
Qed.

(* "Answers every finite window" is FALSE of the model (and of calgebra) at full strength: for
   the rule "every 300 years on 29 February, anchored on 2000-02-29 00:00 UTC, one hour" and the
   window 0700-01-01 .. 0720-01-01 the specification's answer is the empty list (the series is
   ..., 0800-02-29, 1100 (no), 1400 (no), 1700 (no), 2000-02-29, ...), but both fetches raise:
   _get_safe_anchor aligns the look-back date (year 698) to year 500, steps back to 200 and then
   to -100 < 1, where the ValueError of datetime.replace is re-raised.
   Python: recurring(freq="yearly", interval=300, start=datetime(2000, 2, 29, tzinfo=UTC),
                     duration=3600, tz="UTC")[ts(700,1,1):ts(720,1,1)]
           -> ValueError: year -100 is out of range   (observed on /repo)
   Likewise interval=1, start=datetime(2024, 2, 29), window 0004-06-01 .. 0005-06-01 (year 0). *)
Theorem C08_answers_every_window_refuted :
  exists r a b,
    lists_ok r /\ 0 < r_interval r /\ rule_accepted r /\ zone_spread_ok (r_zone r) = true /\
    0 < r_dur r /\ a < b /\ 1 <= year_of (local_day (r_zone r) (a - lookback_buffer r)) /\
    spec_occurrences r a b = [] /\
    fetch_forward r a b = Raised /\ fetch_reverse r a b = Raised.
Proof.
  exists ex_y300, (-40077331200), (-39446265600).
  split; [apply simple_lists_ok; reflexivity|]. split; [cbn; lia|].
  split; [unfold rule_accepted; cbn; unfold DAY; lia|]. split; [reflexivity|].
  split; [cbn; lia|]. split; [lia|]. split; [vm_compute; discriminate|].
  split; [vm_compute; reflexivity|]. split; vm_compute; reflexivity.
Qed.
Print Assumptions C08_answers_every_window_refuted.

Theorem C08_answers_every_window_refuted_interval_1 :
  exists r a b,
    lists_ok r /\ r_interval r = 1 /\ rule_accepted r /\ zone_spread_ok (r_zone r) = true /\
    0 < r_dur r /\ a < b /\ 1 <= year_of (local_day (r_zone r) (a - lookback_buffer r)) /\
    spec_occurrences r a b = [] /\
    fetch_forward r a b = Raised /\ fetch_reverse r a b = Raised.
Proof.
  exists ex_feb29, (-62027856000), (-61996320000).
  split; [apply simple_lists_ok; reflexivity|]. split; [reflexivity|].
  split; [unfold rule_accepted; cbn; unfold DAY; lia|]. split; [reflexivity|].
  split; [cbn; lia|]. split; [lia|]. split; [vm_compute; discriminate|].
  split; [vm_compute; reflexivity|]. split; vm_compute; reflexivity.
Qed.
Print Assumptions C08_answers_every_window_refuted_interval_1.

(* ------------------------------------------------------------------------------------------ *)
(* occurrences of positive length                                                              *)

Definition occ_positive (r : rule) : Prop :=
  forall d, fstart (occurrence r d) < fend (occurrence r d).

Lemma spec_pos_of_occ_pos r a b :
  occ_positive r -> Forall (fun i => fstart i < fend i) (spec_occurrences r a b).
Proof.
  intros H. rewrite spec_occurrences_eq. apply Forall_forall. intros i Hi.
  apply in_map_iff in Hi. destruct Hi as (d & <- & _). apply H.
Qed.

(* a fixed-offset zone (UTC, ...) and a positive duration *)
Lemma occ_positive_fixed_offset r :
  trans (r_zone r) = [] -> 0 < r_dur r -> occ_positive r.
Proof.
  intros Ht Hd d. rewrite occ_fstart, occ_fend. cbv zeta.
  unfold wall_offset, offset_at. rewrite Ht. cbn [wall_offset_go offset_at_go]. lia.
Qed.

(* a well-formed transition table: instants ascending, and the next transition not before the
   end of the wall-clock gap a forward jump opens (T' >= T + (o - cur)) *)
Fixpoint zone_wf_go (cur : Z) (tr : list (Z * Z)) : bool :=
  match tr with
  | [] => true
  | (T, o) :: rest =>
    match rest with
    | [] => true
    | (T', _) :: _ => (T <=? T') && (T + (o - cur) <=? T')
    end && zone_wf_go o rest
  end.
Definition head_ge (T0 : Z) (tr : list (Z * Z)) : Prop :=
  match tr with [] => True | (T, _) :: _ => T0 <= T end.

Lemma wf_head c T o rest : zone_wf_go c ((T, o) :: rest) = true ->
  head_ge T rest /\ head_ge (T + (o - c)) rest /\ zone_wf_go o rest = true.
Proof.
  cbn [zone_wf_go]. destruct rest as [|[T' o'] rest']; cbn [head_ge]; intros H; [tauto|].
  apply andb_true_iff in H. destruct H as [H1 H2]. split; [lia|]. split; [lia|exact H2].
Qed.

(* the instant a wall-clock reading denotes is not before the last transition it is past *)
Lemma wall_lb : forall tr c w T0,
  zone_wf_go c tr = true -> head_ge T0 tr -> T0 + c <= w ->
  T0 <= w - wall_offset_go c tr w false.
Proof.
  induction tr as [|[T o] rest IH]; intros c w T0 Hwf Hh Hw; cbn [wall_offset_go]; [lia|].
  destruct (wf_head _ _ _ _ Hwf) as (Hh1 & _ & Hwf'). cbn [head_ge] in Hh.
  destruct (T + Z.max c o <=? w) eqn:E; [|lia].
  pose proof (IH o w T Hwf' Hh1 ltac:(lia)). lia.
Qed.

Lemma wall_lb2 c tr w : zone_wf_go c tr = true ->
  wall_offset_go c tr w false = c \/
  exists T o rest, tr = (T, o) :: rest /\ T <= w - wall_offset_go c tr w false.
Proof.
  intros Hwf. destruct tr as [|[T o] rest]; [left; reflexivity|].
  destruct (wf_head _ _ _ _ Hwf) as (Hh1 & _ & Hwf'). cbn [wall_offset_go].
  destruct (T + Z.max c o <=? w) eqn:E; [|left; reflexivity].
  right. exists T, o, rest. split; [reflexivity|].
  apply (wall_lb rest o w T Hwf' Hh1). lia.
Qed.

Lemma offset_at_stop o rest s :
  (match rest with [] => True | (T', _) :: _ => s < T' end) -> offset_at_go o rest s = o.
Proof.
  destruct rest as [|[T' o'] rest']; [reflexivity|]. intros H. cbn [offset_at_go].
  replace (T' <=? s) with false by lia. reflexivity.
Qed.

Lemma zone_pos_go : forall tr c ws dur, 0 < dur -> zone_wf_go c tr = true ->
  wall_offset_go c tr ws false <= offset_at_go c tr (ws - wall_offset_go c tr ws false) /\
  ws - wall_offset_go c tr ws false <
  (ws - wall_offset_go c tr ws false + offset_at_go c tr (ws - wall_offset_go c tr ws false) + dur)
  - wall_offset_go c tr (ws - wall_offset_go c tr ws false
                         + offset_at_go c tr (ws - wall_offset_go c tr ws false) + dur) false.
Proof.
  induction tr as [|[T o] rest IH]; intros c ws dur Hdur Hwf.
  { cbn [wall_offset_go offset_at_go]. lia. }
  destruct (wf_head _ _ _ _ Hwf) as (Hh1 & Hh2 & Hwf').
  cbn [wall_offset_go].
  destruct (T + Z.max c o <=? ws) eqn:E1.
  - (* past this transition on the wall clock *)
    set (o3 := wall_offset_go o rest ws false).
    pose proof (wall_lb rest o ws T Hwf' Hh1 ltac:(lia)) as Hs. fold o3 in Hs.
    cbn [offset_at_go]. replace (T <=? ws - o3) with true by lia.
    destruct (IH o ws dur Hdur Hwf') as [IH1 IH2]. fold o3 in IH1, IH2.
    set (o2 := offset_at_go o rest (ws - o3)) in *.
    replace (T + Z.max c o <=? ws - o3 + o2 + dur) with true by lia.
    split; assumption.
  - cbn [offset_at_go].
    destruct (T <=? ws - c) eqn:E2.
    + (* the reading is inside the gap of this transition *)
      assert (Ho2 : offset_at_go o rest (ws - c) = o).
      { apply offset_at_stop. destruct rest as [|[T' o'] rest']; [exact I|]. cbn [head_ge] in Hh2. lia. }
      rewrite Ho2. replace (T + Z.max c o <=? ws - c + o + dur) with true by lia.
      split; [lia|].
      destruct (wall_lb2 o rest (ws - c + o + dur) Hwf') as [->|(T' & o' & rest' & -> & Hge)]; [lia|].
      cbn [head_ge] in Hh2. lia.
    + (* before it *)
      split; [lia|].
      destruct (T + Z.max c o <=? ws - c + c + dur) eqn:E3; [|lia].
      pose proof (wall_lb rest o (ws - c + c + dur) T Hwf' Hh1 ltac:(lia)). lia.
Qed.

Definition zone_wf (z : zone) : bool := zone_wf_go (off0 z) (trans z).

(* any well-formed zone table and a positive duration: adding the duration on the local clock
   never ends at or before the start (the start is normalised out of a DST gap first — the repair
   in _occurrence_to_interval; an ambiguous end reading takes the first of its two instants,
   which is still after the start) *)
Theorem occ_positive_wf r :
  zone_wf (r_zone r) = true -> 0 < r_dur r -> occ_positive r.
Proof.
  intros Hwf Hd d. rewrite occ_fstart, occ_fend. cbv zeta.
  unfold wall_offset, offset_at.
  exact (proj2 (zone_pos_go (trans (r_zone r)) (off0 (r_zone r)) (mk_wall d (r_sod r)) (r_dur r) Hd Hwf)).
Qed.
Print Assumptions occ_positive_wf.

(* any zone of bounded spread and a duration beyond the spread *)
Lemma occ_positive_long r :
  zone_spread_ok (r_zone r) = true -> DAY / 2 < r_dur r -> occ_positive r.
Proof.
  intros Hz Hd d. apply zone_spread_ok_le in Hz. rewrite occ_fstart, occ_fend. cbv zeta.
  set (z := r_zone r) in *. set (ws := mk_wall d (r_sod r)).
  set (o3 := wall_offset z ws false).
  set (o2 := offset_at z (ws - o3)).
  set (o1 := wall_offset z (ws - o3 + o2 + r_dur r) false).
  assert (H12 : o1 - o2 <= DAY / 2) by (apply Hz; [apply wall_offset_in|apply offset_at_in]).
  lia.
Qed.

(* ------------------------------------------------------------------------------------------ *)
(* 4. every window is answered                                                                 *)

Definition anchor_ok (r : rule) (sd : Z) : Prop := after_anchor r sd \/ anchor_room r sd.

(* an occurrence that is not excluded follows the window end within SLACK_DAYS (what the fuel of
   the model pays for; the Python loop simply runs until it meets one) *)
Definition dense_after (r : rule) (b : Z) : Prop :=
  exists dstar, matches r dstar = true /\
    local_day (r_zone r) b + 2 <= dstar <= local_day (r_zone r) b + SLACK_DAYS /\
    zmem (fstart (occurrence r dstar)) (r_exdates r) = false.

(* C07_forward_total without its hypothesis on safe_anchor *)
Theorem C08_forward_answers : forall r a b,
  lists_ok r -> 0 < r_interval r -> rule_accepted r ->
  zone_spread_ok (r_zone r) = true -> 0 <= r_dur r -> a <= b ->
  anchor_ok r (local_day (r_zone r) (a - lookback_buffer r)) ->
  dense_after r b ->
  fetch_forward r a b = Ok (spec_occurrences r a b).
Proof.
  intros r a b Hok Hk Hacc Hz Hdur Hab Hanch (dstar & Hm & Hd & Hex).
  apply (C07_forward_total r a b dstar); try assumption.
  destruct (safe_anchor_total_all r _ Hk Hanch) as [a0 ->]. discriminate.
Qed.
Print Assumptions C08_forward_answers.

(* the forward and the reverse fetch answer the window [a, b], exactly, provided the anchor is
   reachable from the look-back date of every sub-window start and the series goes on after
   every sub-window end *)
Theorem C08_answers_every_window : forall r a b,
  lists_ok r -> 0 < r_interval r -> rule_accepted r ->
  zone_spread_ok (r_zone r) = true -> 0 <= r_dur r ->
  Forall (fun i => fstart i < fend i) (spec_occurrences r a b) ->
  a < b ->
  (forall a', a <= a' <= b -> anchor_ok r (local_day (r_zone r) (a' - lookback_buffer r))) ->
  (forall b', a <= b' <= b -> dense_after r b') ->
  fetch_forward r a b = Ok (spec_occurrences r a b) /\
  fetch_reverse r a b = Ok (rev (spec_occurrences r a b)).
Proof.
  intros r a b Hok Hk Hacc Hz Hdur Hpos Hab Hanch Hdense. split.
  - apply C08_forward_answers; try assumption; [lia|apply Hanch; lia|apply Hdense; lia].
  - apply C08_reverse_total_subwindows; try assumption.
    intros a' b' Ha' Hab' Hb'. eexists.
    apply C08_forward_answers; try assumption; [lia|apply Hanch; lia|apply Hdense; lia].
Qed.
Print Assumptions C08_answers_every_window.

(* the local date does not go back by more than a day when the instant advances *)
Lemma local_day_mono1 z t t' :
  zone_spread_le z (DAY / 2) -> t <= t' -> local_day z t - 1 <= local_day z t'.
Proof.
  intros Hz Ht. unfold local_day, wall_day, utc_to_wall.
  assert (H : offset_at z t - offset_at z t' <= DAY / 2) by (apply Hz; apply offset_at_in).
  unfold DAY in *. lia.
Qed.

Lemma after_anchor_of_day r sd :
  1 <= year_of (base_day r) -> base_day r <= sd -> after_anchor r sd.
Proof.
  intros Hy Hd. unfold after_anchor. destruct (r_freq r); try exact I; split; try exact Hy.
  - apply midx_mono. exact Hd.
  - apply year_mono. exact Hd.
Qed.

(* the usual case — the window starts more than the look-back buffer (duration + one interval of
   32-day months / 366-day years) and a day after the anchor's date: no condition on the calendar
   at all; daily and weekly rules: no condition on the anchor either *)
Corollary C08_answers_every_window_after_anchor : forall r a b,
  lists_ok r -> 0 < r_interval r -> rule_accepted r ->
  zone_spread_ok (r_zone r) = true -> 0 <= r_dur r ->
  Forall (fun i => fstart i < fend i) (spec_occurrences r a b) ->
  a < b ->
  r_freq r = Daily \/ r_freq r = Weekly \/
  (1 <= year_of (base_day r) /\ base_day r < local_day (r_zone r) (a - lookback_buffer r)) ->
  (forall b', a <= b' <= b -> dense_after r b') ->
  fetch_forward r a b = Ok (spec_occurrences r a b) /\
  fetch_reverse r a b = Ok (rev (spec_occurrences r a b)).
Proof.
  intros r a b Hok Hk Hacc Hz Hdur Hpos Hab Hcase Hdense.
  apply C08_answers_every_window; try assumption.
  intros a' Ha'. left.
  destruct Hcase as [Ef|[Ef|[Hy Hd]]]; [unfold after_anchor; rewrite Ef; exact I..|].
  apply after_anchor_of_day; [exact Hy|].
  pose proof (local_day_mono1 (r_zone r) (a - lookback_buffer r) (a' - lookback_buffer r)
                (zone_spread_ok_le _ Hz) ltac:(lia)). lia.
Qed.
Print Assumptions C08_answers_every_window_after_anchor.

(* ------------------------------------------------------------------------------------------ *)
(* the hypotheses are satisfiable; the positive length cannot be dropped                       *)
From CG Require Spec.ZoneTables.

Example zone_wf_satisfiable :
  forallb zone_wf
          [CG.Spec.ZoneTables.la; CG.Spec.ZoneTables.havana; CG.Spec.ZoneTables.chatham; CG.Spec.ZoneTables.troll;
           CG.Spec.ZoneTables.st_johns_2005; utc_zone] = true.
Proof. vm_compute. reflexivity. Qed.

(* C08_reverse_exact / C08_reverse_is_rev_forward_exact are not vacuous: the every-other-week rule
   of RecurExact2.v (Los Angeles, one excluded start) over the first half of 2024 — three chunks
   of twelve weeks; the reverse answer is the specification's list reversed, 26 occurrences *)
Example C08_reverse_exact_instance :
  let r := ex_weekly in
  lists_ok r /\ 0 < r_interval r /\ rule_accepted r /\ zone_spread_ok (r_zone r) = true /\
  Forall (fun i => fstart i < fend i) (spec_occurrences r 1704000000 1720000000) /\
  1704000000 < 1720000000 /\
  exists lf lr, fetch_forward r 1704000000 1720000000 = Ok lf /\
                fetch_reverse r 1704000000 1720000000 = Ok lr /\
                lr = rev lf /\ length lr = 26%nat.
Proof.
  cbv zeta. destruct ex_weekly_ok as (Hok & _ & Hk & Hacc & Hz & Hdur).
  repeat (split; [assumption|]).
  split; [apply spec_pos_of_occ_pos, occ_positive_wf; [vm_compute; reflexivity|cbn; lia]|].
  split; [lia|]. do 2 eexists.
  split; [vm_compute; reflexivity|]. split; [vm_compute; reflexivity|].
  split; reflexivity.
Qed.

(* a daily rule at 09:00 Los Angeles time for one hour, no anchor *)
Definition ex_daily : rule := mkRule Daily 1 [] [] [] [] [] None 32400 3600 CG.Spec.ZoneTables.la.

Lemma ex_daily_matches d : matches ex_daily d = true.
Proof.
  unfold matches, matches_s, cdate_of. destruct (civil_from_days d) as [[y m] dd].
  unfold in_phase. cbn [series_of series_from ex_daily r_freq r_interval e_freq e_interval
                         e_base_period period_of].
  rewrite Z.mod_1_r. reflexivity.
Qed.

(* C08_answers_every_window_after_anchor is not vacuous: this rule answers EVERY window a < b,
   in both directions, exactly *)
Example C08_answers_every_window_instance : forall a b, a < b ->
  fetch_forward ex_daily a b = Ok (spec_occurrences ex_daily a b) /\
  fetch_reverse ex_daily a b = Ok (rev (spec_occurrences ex_daily a b)).
Proof.
  intros a b Hab.
  apply C08_answers_every_window_after_anchor.
  - apply simple_lists_ok; reflexivity.
  - cbn; lia.
  - unfold rule_accepted; cbn; unfold DAY; lia.
  - vm_compute; reflexivity.
  - cbn; lia.
  - apply spec_pos_of_occ_pos, occ_positive_wf; [vm_compute; reflexivity|cbn; lia].
  - exact Hab.
  - left; reflexivity.
  - intros b' _. exists (local_day (r_zone ex_daily) b' + 2).
    split; [apply ex_daily_matches|]. split; [unfold SLACK_DAYS; lia|reflexivity].
Qed.

(* C08_forward_answers is not vacuous on a 31st: every 5 months on the 31st from 2024-01-31, the
   window 2026-03-15 .. 2026-04-15: the look-back date (October 2025) aligns to September 2025 and
   the loop steps back four times to 2024-01-31; the next occurrence is 2026-07-31 (day 20665) *)
Example C08_forward_answers_instance :
  fetch_forward ex_m5 1773532800 1776211200 = Ok (spec_occurrences ex_m5 1773532800 1776211200) /\
  safe_anchor ex_m5 (local_day (r_zone ex_m5) (1773532800 - lookback_buffer ex_m5)) = Some 19753.
Proof.
  split; [|vm_compute; reflexivity].
  apply C08_forward_answers.
  - apply simple_lists_ok; reflexivity.
  - cbn; lia.
  - unfold rule_accepted; cbn; unfold DAY; lia.
  - reflexivity.
  - cbn; lia.
  - lia.
  - left. vm_compute. split; discriminate.
  - exists 20665. split; [vm_compute; reflexivity|]. split; [vm_compute; split; discriminate|].
    vm_compute. reflexivity.
Qed.

(* The positive length cannot be dropped.  RecurringPattern.__init__ / recurring() do not check
   duration > 0 (only time_of_day() does): with duration = 0 the occurrence lying exactly on a
   chunk edge is skipped by the newer chunk's forward fetch (end <= chunk start) and dropped from
   the older chunk by the per-chunk filter (start < current_end fails), so the reverse fetch
   loses it.  Daily at 00:00 UTC, duration 0, window 2023-12-31T23:43:20Z .. 2024-03-01T00:00Z:
   61 occurrences forward, 59 in reverse (those of 2024-01-31 and 2024-01-01 are lost).
   Python (observed on /repo):
     p = recurring(freq="daily", duration=0, tz="UTC"); a, b = 1704066200, 1709251200
     len(list(p.fetch(a, b))) == 61, len(list(p.fetch(a, b, reverse=True))) == 59
   (slicing p[a:b] drops empty intervals in both directions, so only fetch() shows it). *)
Theorem C08_reverse_exact_zero_duration_refuted :
  exists r a b lf lr,
    lists_ok r /\ 0 < r_interval r /\ rule_accepted r /\ zone_spread_ok (r_zone r) = true /\
    r_dur r = 0 /\ a < b /\
    fetch_forward r a b = Ok lf /\ fetch_reverse r a b = Ok lr /\
    length lf = 61%nat /\ length lr = 59%nat /\ lr <> rev lf.
Proof.
  exists (mkRule Daily 1 [] [] [] [] [] None 0 0 utc_zone), 1704066200, 1709251200.
  do 2 eexists.
  split; [apply simple_lists_ok; reflexivity|]. split; [cbn; lia|].
  split; [unfold rule_accepted; cbn; unfold DAY; lia|]. split; [reflexivity|].
  split; [reflexivity|]. split; [lia|].
  split; [vm_compute; reflexivity|]. split; [vm_compute; reflexivity|].
  split; [reflexivity|]. split; [reflexivity|].
  intros H. apply (f_equal (@length ivl)) in H. rewrite rev_length in H. vm_compute in H. discriminate.
Qed.
Print Assumptions C08_reverse_exact_zero_duration_refuted.
