(* Proofs/CacheStale.v — the staleness half of C10 for Model/Cache.v, keyed (non-mask) caches,
   across stitches and with a source that changes between fetches.

   C10: "Every instant of a cached result reflects a source fetch made less than ttl seconds
   earlier, so a change in the source becomes visible at most ttl after the covering segment
   was fetched."

   Proofs/CacheInv.v proves that the surviving cover segments are younger than ttl;
   Proofs/CacheInv2.v proves what the sink holds for a STATIC source.  Here: which version of
   the non-time fields a stored fragment carries when the source changes between fetches and
   fragments are stitched across segment edges (_stitch_at(point, fresh_side)).

   Part 1: a sink invariant that does not mention the source ([sink_wf]) and the stamp
           invariant [stamp_inv R]: every stored fragment f and every cover segment c that
           overlap in positive length satisfy R (pl f) (cv_t c), for an arbitrary relation R
           "the fields p were those of the source when the clock read tau", downward closed in tau.
   Part 2: preservation by _purge_sink, the clipping loop, _stitch_at, _fill_gap, the eviction
           pass, a whole query (any source, a different answer at every fetch).
   Part 3: the generic staleness theorems (one query from a state satisfying the invariants).
   Part 4: instance "the payload carries the clock reading of its fetch" (exact stamps, with an
           optional slack delta for the duration of the fetch); [reach]: every history of
           queries and clock advances; C10_staleness, C10_staleness_output.
   Part 5: instance [crun_all] (histories with CMutate): the version of every returned event
           was still the current one less than ttl before the eviction reading
           (C10_stale_version_segment, C10_staleness_versions, C10_change_visible); the
           clock-stamping source exists for every query (stamping_src_query).
   Part 6: examples (the old D14 scenario, non-vacuity, sensitivity to the fresh side, sanity
           tests of the candidate invariant by computation).

   Order of "read clock / fetch source": _fill_gap first iterates source.fetch(gap), then reads
   created = monotonic().  The model's clock only moves at readings, so in the model the fetch
   is made "at" the [created] reading and the bound is exactly  t < stamp + ttl  (t the eviction
   reading of the query, no tick slack).  In the code the answer of the source is older than
   [created] by the duration of the fetch: the bound is then ttl + that duration (the delta of
   Part 4); the model cannot see it. *)
From CG Require Import Proofs.Defs Proofs.Stored Proofs.Diff Proofs.Merge Proofs.RefSpec Model.Cache
     Proofs.CacheInv Proofs.CacheInv2.
From Coq Require Import Lia ZifyBool.

(* ==================================== Part 1 ==================================== *)

(* positive-length overlap of a stored fragment and a cover segment *)
Definition ovl (f : ivl) (c : cov) : Prop := Z.max (fstart f) (cv_s c) < Z.min (fend f) (cv_e c).

(* the part of CacheInv2.sink_sem that does not mention the source: fragments are finite,
   non-empty and keyed; they lie inside the covers; fragments of one key never overlap and
   touch only at the points X *)
Record sink_wf (X : Z -> Prop) (sk : list ivl) (cv : list cov) : Prop := mkSW {
  sw_frag : forall f, In f sk -> frag_ok f;
  sw_in : forall f x, In f sk -> inside f x = true -> covers (map cov_ivl cv) x = true;
  sw_sep : sep_list X sk
}.

(* R p tau: "the fields p were (still) those of the source when the clock read tau" *)
Definition stamp_inv (R : payload -> Z -> Prop) (sk : list ivl) (cv : list cov) : Prop :=
  forall f c, In f sk -> In c cv -> ovl f c -> R (pl f) (cv_t c).

Definition R_down (R : payload -> Z -> Prop) : Prop :=
  forall p t t', R p t -> t' <= t -> R p t'.

(* decoding of a payload id *)
Definition pl_ver (p : payload) : N := match p with Rich id => N.modulo id KEYMOD | Plain => 0%N end.

(* boolean checkers, used for the sanity tests below *)
Definition ovlb (f : ivl) (c : cov) : bool := Z.max (fstart f) (cv_s c) <? Z.min (fend f) (cv_e c).
Definition stamp_chk (Rb : payload -> Z -> bool) (sk : list ivl) (cv : list cov) : bool :=
  forallb (fun f => forallb (fun c => if ovlb f c then Rb (pl f) (cv_t c) else true) cv) sk.

Local Notation flat2 := (fun lr : ivl * ivl => [fst lr; snd lr]).

Lemma sink_wf_perm X sk sk' cv : Permutation sk sk' -> sink_wf X sk cv -> sink_wf X sk' cv.
Proof.
  intros P [A B C]. pose proof (Permutation_sym P) as P'. constructor.
  - intros f Hf. apply A. eapply Permutation_in; eauto.
  - intros f x Hf. apply B. eapply Permutation_in; eauto.
  - eapply sep_list_perm; eauto.
Qed.

Lemma sink_wf_cover_perm X sk cv cv' : Permutation cv cv' -> sink_wf X sk cv -> sink_wf X sk cv'.
Proof.
  intros P [A B C]. constructor; auto.
  intros f x Hf Hi. rewrite <- (covers_perm _ _ x (Permutation_map cov_ivl P)). eauto.
Qed.

Lemma sink_wf_mono (X Y : Z -> Prop) sk cv :
  (forall q, X q -> Y q) -> sink_wf X sk cv -> sink_wf Y sk cv.
Proof. intros H [A B C]. constructor; auto. eapply sep_list_mono; eauto. Qed.

Lemma stamp_inv_perm (R : payload -> Z -> Prop) sk sk' cv cv' :
  Permutation sk sk' -> Permutation cv cv' -> stamp_inv R sk cv -> stamp_inv R sk' cv'.
Proof.
  intros P Q S f c Hf Hc. apply S.
  - eapply Permutation_in; [apply Permutation_sym, P|exact Hf].
  - eapply Permutation_in; [apply Permutation_sym, Q|exact Hc].
Qed.

(* every stored fragment overlaps some cover segment *)
Lemma frag_has_cover X sk cv f : sink_wf X sk cv -> In f sk -> exists c, In c cv /\ ovl f c.
Proof.
  intros [A B _] Hf. destruct (A f Hf) as (_ & _ & Lt & _).
  assert (Hx : inside f (fstart f) = true) by (apply inside_iff; lia).
  apply (B f _ Hf) in Hx. apply covers_cov in Hx as (c & Hc & Hx).
  exists c. split; [exact Hc|]. unfold ovl. lia.
Qed.

(* a stored fragment lies on one side of a range that meets no cover *)
Lemma old_side X sk cv gs ge : sink_wf X sk cv -> gs < ge ->
  (forall c, In c cv -> cv_e c <= gs \/ ge <= cv_s c) ->
  forall f, In f sk -> fend f <= gs \/ ge <= fstart f.
Proof.
  intros [A B _] Hg Hdis f Hf. destruct (A f Hf) as (_ & _ & Lt & _).
  destruct (Z_le_gt_dec (fend f) gs) as [L|L]; [left; exact L|].
  destruct (Z_le_gt_dec ge (fstart f)) as [Rr|Rr]; [right; exact Rr|]. exfalso.
  assert (Hx : inside f (Z.max (fstart f) gs) = true) by (apply inside_iff; lia).
  apply (B f _ Hf) in Hx. apply covers_cov in Hx as (c & Hc & Hx).
  destruct (Hdis c Hc); lia.
Qed.

(* ==================================== Part 2 ==================================== *)
(* ---------- _purge_sink ---------- *)
Lemma purge_wf sk cv cv' c :
  sink_wf noX sk cv -> Permutation cv (c :: cv') -> cv_s c < cv_e c ->
  (forall c', In c' cv' -> cv_e c' <= cv_s c \/ cv_e c <= cv_s c') ->
  sink_wf noX (flat_map (purge_parts (cv_s c) (cv_e c)) sk) cv'.
Proof.
  intros [A B C] HP Hse Hdis.
  set (s := cv_s c) in *. set (e := cv_e c) in *.
  assert (E : forall x, covers (map cov_ivl cv) x =
                        inside (cov_ivl c) x || covers (map cov_ivl cv') x).
  { intro x. rewrite (covers_perm _ _ x (Permutation_map cov_ivl HP)). reflexivity. }
  constructor.
  - intros g Hg. apply in_flat_map in Hg as (f & Hf & Hg).
    destruct (purge_char s e f g Hse (A f Hf) Hg) as (Go & _). exact Go.
  - intros g x Hg Hx. apply in_flat_map in Hg as (f & Hf & Hg).
    destruct (purge_char s e f g Hse (A f Hf) Hg) as (Go & Pg & Sg & Eg & Out).
    apply inside_iff in Hx.
    assert (Hfx : inside f x = true) by (apply inside_iff; lia).
    pose proof (B f x Hf Hfx) as Hc. rewrite E in Hc.
    destruct (inside (cov_ivl c) x) eqn:Ic; [|exact Hc].
    apply inside_cov in Ic. fold s e in Ic. lia.
  - apply sep_flat_map; [exact C| |].
    + intros f Hf. apply purge_self_sep; [exact Hse|apply (A f Hf)].
    + intros f f' g g' Hf Hf' Hs Hg Hg'.
      destruct (purge_char s e f g Hse (A f Hf) Hg) as (_ & Pg & Sg & Eg & _).
      destruct (purge_char s e f' g' Hse (A f' Hf') Hg') as (_ & Pg' & Sg' & Eg' & _).
      apply (sepR_sub f f' g g'); assumption.
Qed.

(* (b) purging only shrinks fragments and keeps their payloads *)
Lemma purge_stamp (R : payload -> Z -> Prop) sk cv cv' c :
  (forall f, In f sk -> frag_ok f) -> stamp_inv R sk cv ->
  Permutation cv (c :: cv') -> cv_s c < cv_e c ->
  stamp_inv R (flat_map (purge_parts (cv_s c) (cv_e c)) sk) cv'.
Proof.
  intros A S HP Hse g c' Hg Hc' Ho. apply in_flat_map in Hg as (f & Hf & Hg).
  destruct (purge_char _ _ f g Hse (A f Hf) Hg) as (_ & Pg & Sg & Eg & _).
  rewrite Pg. apply (S f c' Hf).
  - apply (Permutation_in _ (Permutation_sym HP)). right; exact Hc'.
  - unfold ovl in *. lia.
Qed.

(* ---------- the clipping loop of _fill_gap ---------- *)
(* what one source fetch must satisfy: keyed events, one per key, whose fields are those of the
   source at the reading t *)
Definition src_good (R : payload -> Z -> Prop) (t : Z) (evs : list ivl) : Prop :=
  (forall e, In e evs -> key_of e <> None) /\ NoDup (map key_of evs) /\
  (forall e, In e evs -> R (pl e) t).

Lemma clip_wf evs sk cv gs ge t :
  (forall e, In e evs -> key_of e <> None) -> NoDup (map key_of evs) ->
  sink_wf noX sk cv ->
  NEG_INF < gs -> gs < ge -> ge < POS_INF ->
  (forall c, In c cv -> cv_e c <= gs \/ ge <= cv_s c) ->
  sink_wf (fun q => q = gs \/ q = ge) (sk ++ flat_map (clip_list gs ge) evs) (mkCov gs ge t :: cv).
Proof.
  intros Hk Hnd W Hn Hg Hp Hdis.
  pose proof (old_side _ _ _ gs ge W Hg Hdis) as Hside. destruct W as [A B C].
  assert (H1 : NEG_INF <= gs) by lia. assert (H2 : ge <= POS_INF) by lia.
  assert (E : forall x, covers (map cov_ivl (mkCov gs ge t :: cv)) x =
                        ((gs <=? x) && (x <? ge)) || covers (map cov_ivl cv) x).
  { intro x. reflexivity. }
  constructor.
  - intros f Hf. apply in_app_or in Hf as [Hf|Hf]; [apply A, Hf|].
    apply in_flat_map in Hf as (e0 & He0 & Hf).
    destruct (clip_char gs ge e0 f H1 H2 Hf) as [-> Lt].
    apply frag_ok_mk; [exact Lt|apply (Hk e0 He0)].
  - intros f x Hf Hx. rewrite E. apply in_app_or in Hf as [Hf|Hf].
    + rewrite (B f x Hf Hx). apply orb_true_r.
    + apply in_flat_map in Hf as (e0 & He0 & Hf).
      destruct (clip_char gs ge e0 f H1 H2 Hf) as [-> Lt].
      apply inside_iff in Hx. smk.
      apply orb_true_iff. left. lia.
  - apply sep_list_app. split; [|split].
    + apply (sep_list_mono noX); [intros q []|exact C].
    + apply sep_clip; [exact H1|exact H2|exact Hnd].
    + intros f n Hf Hn' K. apply in_flat_map in Hn' as (e0 & He0 & Hn').
      destruct (clip_char gs ge e0 n H1 H2 Hn') as [-> Lt]. smk.
      destruct (Hside f Hf) as [L|Rr].
      * destruct (Z.eq_dec (fend f) (Z.max (fstart e0) gs)) as [Q|Q].
        -- right; right; left. split; [exact Q|left; lia].
        -- left. lia.
      * destruct (Z.eq_dec (Z.min (fend e0) ge) (fstart f)) as [Q|Q].
        -- right; right; right. split; [exact Q|right; lia].
        -- right; left. lia.
Qed.

(* (c) the fragments added by a fill carry the fields of this fetch; the old ones do not meet
   the new segment, the new ones meet no old segment *)
Lemma clip_stamp (R : payload -> Z -> Prop) evs sk cv gs ge t :
  sink_wf noX sk cv -> stamp_inv R sk cv ->
  NEG_INF < gs -> gs < ge -> ge < POS_INF ->
  (forall c, In c cv -> cv_e c <= gs \/ ge <= cv_s c) ->
  (forall e, In e evs -> R (pl e) t) ->
  stamp_inv R (sk ++ flat_map (clip_list gs ge) evs) (mkCov gs ge t :: cv).
Proof.
  intros W S Hn Hg Hp Hdis HR f c Hf Hc Ho.
  assert (H1 : NEG_INF <= gs) by lia. assert (H2 : ge <= POS_INF) by lia.
  apply in_app_or in Hf as [Hf|Hf].
  - destruct Hc as [<-|Hc]; [|apply (S f c Hf Hc Ho)].
    exfalso. destruct (old_side _ _ _ gs ge W Hg Hdis f Hf); unfold ovl in Ho; simpl in Ho; lia.
  - apply in_flat_map in Hf as (e0 & He0 & Hf).
    destruct (clip_char gs ge e0 f H1 H2 Hf) as [-> Lt]. unfold ovl in Ho. smk.
    destruct Hc as [<-|Hc]; [apply HR, He0|].
    exfalso. destruct (Hdis c Hc); lia.
Qed.

(* every fragment that meets [gs,ge) carries fields read at t *)
Definition gapfresh (R : payload -> Z -> Prop) (gs ge t : Z) (sk : list ivl) : Prop :=
  forall f, In f sk -> fend f <= gs \/ ge <= fstart f \/ R (pl f) t.

Lemma clip_gapfresh (R : payload -> Z -> Prop) evs X sk cv gs ge t :
  sink_wf X sk cv -> NEG_INF < gs -> gs < ge -> ge < POS_INF ->
  (forall c, In c cv -> cv_e c <= gs \/ ge <= cv_s c) ->
  (forall e, In e evs -> R (pl e) t) ->
  gapfresh R gs ge t (sk ++ flat_map (clip_list gs ge) evs).
Proof.
  intros W Hn Hg Hp Hdis HR f Hf. apply in_app_or in Hf as [Hf|Hf].
  - destruct (old_side _ _ _ gs ge W Hg Hdis f Hf); [left|right; left]; assumption.
  - apply in_flat_map in Hf as (e0 & He0 & Hf).
    destruct (clip_char gs ge e0 f ltac:(lia) ltac:(lia) Hf) as [-> _].
    right; right. cbn [pl]. apply HR. exact He0.
Qed.

(* ---------- _stitch_at ---------- *)
(* (a) the merged fragment spans l and r and takes the payload of the fresh side; with a source
   that changes, l and r share their key but not their payload *)
Lemma merged_key' fl l r : key_of l = key_of r ->
  key_of (merged_of fl (l, r)) = key_of l /\ key_of (merged_of fl (l, r)) = key_of r.
Proof.
  intro K. unfold merged_of, key_of in *. cbn [fst snd pl]. destruct fl; split; congruence.
Qed.

Lemma merged_ok' fl l r :
  frag_ok l -> frag_ok r -> fend l = fstart r -> key_of l = key_of r ->
  frag_ok (merged_of fl (l, r)).
Proof.
  intros (S1 & E1 & L1 & K1) (S2 & E2 & L2 & K2) E K.
  unfold frag_ok. rewrite merged_fstart, merged_fend, merged_st, merged_en. cbn [fst snd].
  split; [exact S1|]. split; [exact E2|]. split; [lia|].
  rewrite (proj1 (merged_key' fl l r K)). exact K1.
Qed.

Lemma merged_pl' fl l r : pl (merged_of fl (l, r)) = pl (if fl then l else r).
Proof. reflexivity. Qed.

(* CacheInv2.sep_merge without the hypothesis that l and r carry the same payload *)
Lemma sep_merge' (X : Z -> Prop) p fl pairs rest :
  sep_list X (flat_map flat2 pairs ++ rest) ->
  (forall f, In f (flat_map flat2 pairs ++ rest) -> fstart f < fend f) ->
  (forall l r, In (l, r) pairs -> fend l = p /\ fstart r = p /\ key_of l = key_of r) ->
  (forall f g, In f rest -> In g rest -> key_of f = key_of g ->
     fend f = p -> fstart g = p -> False) ->
  sep_list (fun q => X q /\ q <> p) (map (merged_of fl) pairs ++ rest).
Proof.
  intros Hsep Hpos Hpairs Hrest.
  induction pairs as [|[l r] ps IH].
  - simpl in *. apply (sep_list_strengthen X); [exact Hsep|].
    intros f g Hf Hg S K. specialize (S K).
    pose proof (Hpos f Hf) as Lf. pose proof (Hpos g Hg) as Lg.
    destruct S as [S|[S|[[S1 S2]|[S1 S2]]]].
    + left. exact S.
    + right; left. exact S.
    + right; right; left. split; [exact S1|]. split; [exact S2|].
      intro Ep. apply (Hrest f g Hf Hg K); lia.
    + right; right; right. split; [exact S1|]. split; [exact S2|].
      intro Ep. apply (Hrest g f Hg Hf (eq_sym K)); lia.
  - cbn [flat_map map fst snd app] in *.
    destruct Hsep as [Hl [Hr Hsep']].
    destruct (Hpairs l r (or_introl eq_refl)) as (El & Er & Klr).
    pose proof (Hpos l (or_introl eq_refl)) as Ll.
    pose proof (Hpos r (or_intror (or_introl eq_refl))) as Lr.
    destruct (merged_key' fl l r Klr) as [Km1 Km2].
    split.
    + intros y Hy. apply in_app_or in Hy as [Hy|Hy].
      * apply in_map_iff in Hy as [[l' r'] [<- Hin]].
        destruct (Hpairs l' r' (or_intror Hin)) as (El' & Er' & Klr').
        destruct (merged_key' fl l' r' Klr') as [Km1' _].
        assert (Hl'in : In l' (r :: flat_map flat2 ps ++ rest)).
        { right. apply in_or_app. left. apply in_flat_map. exists (l', r').
          split; [exact Hin|left; reflexivity]. }
        pose proof (Hpos l' (or_intror Hl'in)) as Ll'.
        intro K. exfalso.
        assert (K' : key_of l = key_of l') by congruence.
        pose proof (Hl l' Hl'in K') as S.
        destruct S as [S|[S|[[S1 S2]|[S1 S2]]]]; lia.
      * assert (Hyin : In y (r :: flat_map flat2 ps ++ rest)).
        { right. apply in_or_app. right. exact Hy. }
        pose proof (Hpos y (or_intror Hyin)) as Ly.
        intro K.
        assert (K1 : key_of l = key_of y) by congruence.
        assert (K2 : key_of r = key_of y) by congruence.
        pose proof (Hl y Hyin K1) as S1.
        assert (Hyin' : In y (flat_map flat2 ps ++ rest)).
        { apply in_or_app. right. exact Hy. }
        pose proof (Hr y Hyin' K2) as S2.
        rewrite merged_fstart, merged_fend. cbn [fst snd].
        destruct S1 as [S1|[S1|[[S1 X1]|[S1 X1]]]];
          destruct S2 as [S2|[S2|[[S2 X2]|[S2 X2]]]];
          first [ left; lia
                | right; left; lia
                | right; right; left; split; [lia|split; [assumption|lia]]
                | right; right; right; split; [lia|split; [assumption|lia]]
                | exfalso; lia ].
    + apply IH.
      * exact Hsep'.
      * intros f Hf. apply Hpos. right. right. exact Hf.
      * intros l' r' Hin. apply Hpairs. right. exact Hin.
Qed.

(* the pairs that a stitch merges *)
Lemma stitch_decomp (X : Z -> Prop) p fl sk cv :
  sorted_key sk = true -> sink_wf X sk cv ->
  exists pairs rest,
    Permutation sk (flat_map flat2 pairs ++ rest) /\
    Permutation (stitch_at false p fl sk) (map (merged_of fl) pairs ++ rest) /\
    (forall l r, In (l, r) pairs -> In l sk /\ In r sk /\ fend l = p /\ fstart r = p /\ key_of l = key_of r) /\
    (forall l r, In l sk -> In r sk -> fend l = p -> fstart r = p -> key_of l = key_of r -> In (l, r) pairs) /\
    sorted_key (stitch_at false p fl sk) = true.
Proof.
  intros Hsorted [A B C].
  assert (UL : forall f g, In f sk -> In g sk -> key_of f = key_of g ->
                 fend f = p -> fend g = p -> f = g).
  { intros f g Hf Hg K Ef Eg.
    destruct (sep_list_in X sk f g C Hf Hg) as [H|H]; [exact H|exfalso].
    destruct (A f Hf) as (_ & _ & Lf & _). destruct (A g Hg) as (_ & _ & Lg & _).
    destruct (H K) as [H1|[H1|[[H1 _]|[H1 _]]]]; lia. }
  assert (UR : forall f g, In f sk -> In g sk -> key_of f = key_of g ->
                 fstart f = p -> fstart g = p -> f = g).
  { intros f g Hf Hg K Ef Eg.
    destruct (sep_list_in X sk f g C Hf Hg) as [H|H]; [exact H|exfalso].
    destruct (A f Hf) as (_ & _ & Lf & _). destruct (A g Hg) as (_ & _ & Lg & _).
    destruct (H K) as [H1|[H1|[[H1 _]|[H1 _]]]]; lia. }
  exact (stitch_at_perm p fl sk Hsorted A UL UR).
Qed.

(* the gap-independent part: the sink invariant through a stitch *)
Theorem stitch_wf (X : Z -> Prop) p fl sk cv :
  sorted_key sk = true -> sink_wf X sk cv ->
  sink_wf (fun q => X q /\ q <> p) (stitch_at false p fl sk) cv /\
  sorted_key (stitch_at false p fl sk) = true.
Proof.
  intros Hsorted W.
  destruct (stitch_decomp X p fl sk cv Hsorted W) as (pairs & rest & P1 & P2 & H3 & H4 & H5).
  split; [|exact H5].
  apply (sink_wf_perm _ _ _ cv (Permutation_sym P2)).
  pose proof W as [A B C].
  pose proof (sink_wf_perm X _ _ cv P1 W) as [A' B' C'].
  assert (InL : forall l r, In (l, r) pairs -> In l (flat_map flat2 pairs ++ rest)).
  { intros l r H. apply in_or_app. left. apply in_flat_map. exists (l, r).
    split; [exact H|left; reflexivity]. }
  assert (InR : forall l r, In (l, r) pairs -> In r (flat_map flat2 pairs ++ rest)).
  { intros l r H. apply in_or_app. left. apply in_flat_map. exists (l, r).
    split; [exact H|right; left; reflexivity]. }
  assert (InRest : forall f, In f rest -> In f (flat_map flat2 pairs ++ rest)).
  { intros f H. apply in_or_app. right. exact H. }
  assert (MI : forall l r x, In (l, r) pairs ->
            (inside (merged_of fl (l, r)) x = true <-> inside l x = true \/ inside r x = true)).
  { intros l r x H. destruct (H3 l r H) as (Hl & Hr & El & Er & _).
    destruct (A l Hl) as (_ & _ & Ll & _). destruct (A r Hr) as (_ & _ & Lr & _).
    apply merged_inside; cbn [fst snd]; lia. }
  constructor.
  - intros f Hf. apply in_app_or in Hf as [Hf|Hf].
    + apply in_map_iff in Hf as [[l r] [<- Hin]].
      destruct (H3 l r Hin) as (Hl & Hr & El & Er & K).
      apply merged_ok'; [apply A, Hl|apply A, Hr|lia|exact K].
    + apply A', InRest, Hf.
  - intros f x Hf Hi. apply in_app_or in Hf as [Hf|Hf].
    + apply in_map_iff in Hf as [[l r] [<- Hin]].
      apply (MI l r x Hin) in Hi as [Hi|Hi].
      * apply (B' l x (InL l r Hin) Hi).
      * apply (B' r x (InR l r Hin) Hi).
    + apply (B' f x (InRest f Hf) Hi).
  - apply sep_merge'.
    + exact C'.
    + intros f Hf. destruct (A' f Hf) as (_ & _ & L & _). exact L.
    + intros l r Hin. destruct (H3 l r Hin) as (_ & _ & El & Er & K).
      repeat split; assumption.
    + intros f g Hf Hg K Ef Eg.
      assert (Hf' : In f sk).
      { apply (Permutation_in _ (Permutation_sym P1)), InRest, Hf. }
      assert (Hg' : In g sk).
      { apply (Permutation_in _ (Permutation_sym P1)), InRest, Hg. }
      pose proof (H4 f g Hf' Hg' Ef Eg K) as Hin.
      apply sep_list_app in C' as (_ & _ & Cross).
      assert (Hff : In f (flat_map flat2 pairs)).
      { apply in_flat_map. exists (f, g). split; [exact Hin|left; reflexivity]. }
      pose proof (Cross f f Hff Hf eq_refl) as Sff.
      destruct (A f Hf') as (_ & _ & Lf & _).
      destruct Sff as [Sff|[Sff|[[Sff _]|[Sff _]]]]; lia.
Qed.

(* the stamps through a stitch at p whose fresh side carries fields read at t, t being at least
   as late as every segment *)
Theorem stitch_stamp (R : payload -> Z -> Prop) (X : Z -> Prop) p (fl : bool) sk cv gs ge t :
  R_down R -> sorted_key sk = true -> sink_wf X sk cv -> stamp_inv R sk cv ->
  gapfresh R gs ge t sk -> (forall c, In c cv -> cv_t c <= t) ->
  (forall f, In f sk -> (if fl then fend f = p else fstart f = p) -> R (pl f) t) ->
  stamp_inv R (stitch_at false p fl sk) cv /\ gapfresh R gs ge t (stitch_at false p fl sk).
Proof.
  intros Hd Hsorted W S G Ht Hfresh.
  destruct (stitch_decomp X p fl sk cv Hsorted W) as (pairs & rest & P1 & P2 & H3 & _ & _).
  assert (Hm : forall l r, In (l, r) pairs -> R (pl (merged_of fl (l, r))) t).
  { intros l r Hin. destruct (H3 l r Hin) as (Hl & Hr & El & Er & _).
    rewrite merged_pl'. destruct fl; [apply (Hfresh l Hl El)|apply (Hfresh r Hr Er)]. }
  assert (Hrest : forall f, In f rest -> In f sk).
  { intros f Hf. apply (Permutation_in _ (Permutation_sym P1)). apply in_or_app. right. exact Hf. }
  split.
  - intros f c Hf Hc Ho. apply (Permutation_in _ P2) in Hf. apply in_app_or in Hf as [Hf|Hf].
    + apply in_map_iff in Hf as [[l r] [<- Hin]].
      apply (Hd _ t); [apply Hm, Hin|apply Ht, Hc].
    + apply (S f c (Hrest f Hf) Hc Ho).
  - intros f Hf. apply (Permutation_in _ P2) in Hf. apply in_app_or in Hf as [Hf|Hf].
    + apply in_map_iff in Hf as [[l r] [<- Hin]]. right; right. apply Hm, Hin.
    + apply G, Hrest, Hf.
Qed.

(* ---------- states ---------- *)
Record cache_inv (R : payload -> Z -> Prop) (s : cstate) : Prop := mkCI {
  ci_sorted : sorted_key (sink s) = true;
  ci_wf : sink_wf noX (sink s) (cover s);
  ci_stamp : stamp_inv R (sink s) (cover s)
}.

Lemma cache_inv_init R t0 : cache_inv R (cinit t0).
Proof.
  constructor; [reflexivity| |intros f c []].
  constructor; simpl; [intros f []|intros f x []|exact I].
Qed.

(* _fill_gap: the clipping loop, then the two stitches; the fresh side of each stitch is the
   side of the gap *)
Lemma fill_gap_cinv R evs ttl tick gs ge s :
  R_down R -> heap_inv ttl s -> cache_inv R s ->
  NEG_INF < gs -> gs < ge -> ge < POS_INF ->
  (forall c, In c (cover s) -> cv_e c <= gs \/ ge <= cv_s c) ->
  src_good R (now s) evs ->
  cache_inv R (fill_gap false ttl tick evs gs ge s).
Proof.
  intros Hd H [Hs W S] Hlo Hlt Hhi Hdis (Hk & Hnd & HR). unfold fill_gap.
  set (sk1 := fold_left _ evs (sink s)).
  destruct (fill_fold_perm gs ge evs (sink s) Hs) as [Hp1 Hs1]. fold sk1 in Hp1, Hs1.
  set (c := mkCov gs ge (now s)).
  pose proof (Permutation_sym Hp1) as Hp1'.
  assert (W1 : sink_wf (fun q => q = gs \/ q = ge) sk1 (c :: cover s)).
  { eapply sink_wf_perm; [exact Hp1'|]. apply clip_wf; auto. }
  assert (S1 : stamp_inv R sk1 (c :: cover s)).
  { eapply stamp_inv_perm; [exact Hp1'|apply Permutation_refl|]. apply clip_stamp; auto. }
  assert (G1 : gapfresh R gs ge (now s) sk1).
  { intros f Hf. apply (Permutation_in _ Hp1) in Hf. revert f Hf.
    apply (clip_gapfresh R evs noX (sink s) (cover s)); auto. }
  assert (Ht : forall c', In c' (c :: cover s) -> cv_t c' <= now s).
  { intros c' [<-|Hc']; [simpl; lia|apply (hi_time _ _ H), Hc']. }
  (* the stitch at gap_start: the fresh side is the right one *)
  assert (F1 : forall f, In f sk1 -> fstart f = gs -> R (pl f) (now s)).
  { intros f Hf Ef. destruct (sw_frag _ _ _ W1 f Hf) as (_ & _ & Lt & _).
    destruct (G1 f Hf) as [G|[G|G]]; [lia|lia|exact G]. }
  destruct (stitch_wf _ gs false sk1 _ Hs1 W1) as [W2 Hs2].
  destruct (stitch_stamp R _ gs false sk1 _ gs ge (now s) Hd Hs1 W1 S1 G1 Ht F1) as [S2 G2].
  (* the stitch at gap_end: the fresh side is the left one *)
  set (sk2 := stitch_at false gs false sk1) in *.
  assert (F2 : forall f, In f sk2 -> fend f = ge -> R (pl f) (now s)).
  { intros f Hf Ef. destruct (sw_frag _ _ _ W2 f Hf) as (_ & _ & Lt & _).
    destruct (G2 f Hf) as [G|[G|G]]; [lia|lia|exact G]. }
  destruct (stitch_wf _ ge true sk2 _ Hs2 W2) as [W3 Hs3].
  destruct (stitch_stamp R _ ge true sk2 _ gs ge (now s) Hd Hs2 W2 S2 G2 Ht F2) as [S3 _].
  assert (Pc : Permutation (c :: cover s) (cov_add c (cover s))) by apply Permutation_sym, cov_add_perm.
  constructor; simpl; [exact Hs3| |].
  - eapply sink_wf_cover_perm; [exact Pc|]. fold c.
    eapply sink_wf_mono; [|exact W3]. unfold noX. intros q Hq. simpl in Hq. lia.
  - eapply stamp_inv_perm; [apply Permutation_refl|exact Pc|exact S3].
Qed.

(* _evict_expired *)
Lemma evict_go_cinv R t : forall h cv sk h1 cv1 sk1,
  Permutation (map h_cov h) cv -> cov_chain cv -> cov_span_ok cv ->
  sorted_key sk = true -> sink_wf noX sk cv -> stamp_inv R sk cv ->
  evict_go t h cv sk = (h1, cv1, sk1) ->
  sorted_key sk1 = true /\ sink_wf noX sk1 cv1 /\ stamp_inv R sk1 cv1.
Proof.
  induction h as [|[[ex sq] c] r IH]; intros cv sk h1 cv1 sk1 Hp Hch Hok Hs W S He; simpl in He.
  - inversion He; subst. split; [|split]; assumption.
  - destruct (ex <=? t) eqn:E; [|inversion He; subst; split; [|split]; assumption].
    simpl in Hp. assert (Hin : In c cv) by (eapply Permutation_in; [exact Hp|left; reflexivity]).
    pose proof (cov_remove_perm c cv Hin) as Hrm.
    assert (Hp' : Permutation (map h_cov r) (cov_remove c cv)).
    { eapply Permutation_cons_inv. eapply Permutation_trans; [exact Hp|exact Hrm]. }
    assert (Hpos : forall y, In y cv -> cv_s y < cv_e y).
    { intros y Hy. destruct (Hok y Hy) as (_ & ? & _). assumption. }
    assert (Hnd : NoDup (c :: cov_remove c cv)).
    { eapply Permutation_NoDup; [exact Hrm|]. apply cov_chain_nodup; assumption. }
    assert (Hdis : forall c', In c' (cov_remove c cv) -> cv_e c' <= cv_s c \/ cv_e c <= cv_s c').
    { intros c' Hc'. pose proof (cov_remove_in _ _ _ Hc') as Hc'in.
      destruct (cov_chain_disjoint cv Hch Hpos c' c Hc'in Hin) as [->|Hd]; [|exact Hd].
      inversion Hnd; contradiction. }
    destruct (purge_sink_perm sk (cv_s c) (cv_e c) Hs) as [Hpp Hps].
    assert (W' : sink_wf noX (purge_sink sk (cv_s c) (cv_e c)) (cov_remove c cv)).
    { eapply sink_wf_perm; [apply Permutation_sym, Hpp|].
      eapply purge_wf; eauto. }
    assert (S' : stamp_inv R (purge_sink sk (cv_s c) (cv_e c)) (cov_remove c cv)).
    { eapply stamp_inv_perm; [apply Permutation_sym, Hpp|apply Permutation_refl|].
      eapply purge_stamp; eauto. apply (sw_frag _ _ _ W). }
    eapply IH; try exact He; auto.
    + apply cov_chain_remove; assumption.
    + intros y Hy. apply Hok. eapply cov_remove_in; eauto.
Qed.

(* the loop over the gaps; the source may answer every fetch differently *)
Lemma fill_fold_cinv R ttl tick src : R_down R -> tick >= 0 -> forall gaps s0 lg0 s2 lg2,
  fold_left (fill_step false ttl tick src) gaps (s0, lg0) = (s2, lg2) ->
  heap_inv ttl s0 -> cache_inv R s0 ->
  (forall g, In g gaps -> gap_ok g) -> disjoint_sorted gaps ->
  (forall g c, In g gaps -> In c (cover s0) -> cv_e c <= fstart g \/ fend g <= cv_s c) ->
  (forall t gs ge, In (t, gs, ge) (log_of tick (now s0) gaps) -> src_good R t (src gs ge)) ->
  cache_inv R s2.
Proof.
  intros Hd Htick. induction gaps as [|g r IH]; intros s0 lg0 s2 lg2 Hf H Hci Hok Hds Hdis Hsrc; simpl in Hf.
  - inversion Hf; subst. exact Hci.
  - simpl in Hds. destruct Hds as [Hg Hr].
    destruct (Hok g (or_introl eq_refl)) as (Hlo & Hlt & Hhi).
    set (s1 := fill_gap false ttl tick (src (fstart g) (fend g)) (fstart g) (fend g) s0) in *.
    assert (Hd0 : forall c, In c (cover s0) -> cv_e c <= fstart g \/ fend g <= cv_s c).
    { intros c Hc. apply Hdis; [left; reflexivity|exact Hc]. }
    assert (H1 : heap_inv ttl s1) by (apply fill_gap_inv; auto).
    assert (Hci1 : cache_inv R s1).
    { apply fill_gap_cinv; auto. apply Hsrc. simpl. left. reflexivity. }
    eapply IH; try exact Hf; auto.
    + intros g' Hg'. apply Hok. right; exact Hg'.
    + intros g' c Hg' Hc. apply fill_gap_cover in Hc as [->|Hc].
      * simpl. left. apply Hg; exact Hg'.
      * apply Hdis; [right; exact Hg'|exact Hc].
    + intros t gs ge Hin. apply Hsrc. simpl. right. exact Hin.
Qed.

(* one query: [log] is the list of the source fetches it makes, with the reading stored as
   [created] in the new segment *)
Theorem cquery_cinv R ttl tick src s a b rv s' out log :
  R_down R -> ttl > 0 -> tick >= 0 -> NEG_INF < a -> a < b -> b < POS_INF ->
  heap_inv ttl s -> cache_inv R s ->
  cquery false ttl tick src s a b rv = (s', out, log) ->
  (forall t gs ge, In (t, gs, ge) log -> src_good R t (src gs ge)) ->
  cache_inv R s'.
Proof.
  intros Hd Httl Htick Ha Hab Hb H [Hs W S] Hq Hsrc.
  destruct (evict_go (now s) (heap s) (cover s) (sink s)) as [[h1 cv1] sk1] eqn:He.
  set (s1 := mkC sk1 cv1 h1 (hseq s) (now s + tick)).
  destruct (fold_left (fill_step false ttl tick src) (gaps_of cv1 a b) (s1, [])) as [s2 lg] eqn:Hf.
  rewrite (cquery_unfold _ _ _ _ _ _ _ _ _ _ _ _ _ He Hf) in Hq. inversion Hq; subst s' out log. clear Hq.
  pose proof (evict_inv ttl tick s h1 cv1 sk1 Htick H He) as H1. fold s1 in H1.
  destruct (evict_go_cinv R _ _ _ _ _ _ _ (hi_bij _ _ H) (hi_chain _ _ H) (hi_span _ _ H) Hs W S He)
    as (Hs1 & W1 & S1).
  assert (Hci1 : cache_inv R s1) by (constructor; assumption).
  assert (Hok : cov_span_ok cv1) by (exact (hi_span _ _ H1)).
  assert (Hch : cov_chain cv1) by (exact (hi_chain _ _ H1)).
  destruct (gaps_spec cv1 a b Ha Hab Hb Hok Hch) as (Hin & Hsep & Hcov).
  assert (Hgok : forall g, In g (gaps_of cv1 a b) -> gap_ok g).
  { intros g Hg. destruct (Hin g Hg) as (? & ? & ?). unfold gap_ok. lia. }
  assert (Hds : disjoint_sorted (gaps_of cv1 a b)).
  { apply Diff.separatedP_disjoint; [|exact Hsep]. intros f Hf'. destruct (Hin f Hf') as (_ & ? & _). assumption. }
  assert (Hdis : forall g c, In g (gaps_of cv1 a b) -> In c (cover s1) -> cv_e c <= fstart g \/ fend g <= cv_s c).
  { intros g c Hg Hc. eapply gaps_disjoint_cover; eauto. }
  destruct (fill_fold_spec false ttl tick src Htick _ _ _ _ _ Hf H1 Hgok Hds Hdis) as (_ & Hlg & _).
  simpl in Hlg.
  eapply fill_fold_cinv; try exact Hf; auto.
  intros t gs ge Hl. apply Hsrc. rewrite Hlg. exact Hl.
Qed.

(* ==================================== Part 3 ==================================== *)
(* the generic staleness theorems: R is any downward-closed relation "the fields p were those
   of the source when the clock read tau" *)

(* after the eviction pass that read the clock as [now s]: every stored fragment overlaps a
   surviving segment, created less than ttl before that reading, at whose creation the fields
   of the fragment were (still) those of the source *)
Theorem staleness_after_evict R ttl s h1 cv1 sk1 :
  heap_inv ttl s -> cache_inv R s ->
  evict_go (now s) (heap s) (cover s) (sink s) = (h1, cv1, sk1) ->
  forall f, In f sk1 ->
  exists c, In c cv1 /\ ovl f c /\ now s < cv_t c + ttl /\ R (pl f) (cv_t c).
Proof.
  intros H [Hs W S] He f Hf.
  destruct (evict_go_cinv R _ _ _ _ _ _ _ (hi_bij _ _ H) (hi_chain _ _ H) (hi_span _ _ H) Hs W S He)
    as (Hs1 & W1 & S1).
  destruct (fresh_covers_only ttl (now s) s h1 cv1 sk1 H He) as (Hfresh & _ & _).
  destruct (frag_has_cover _ _ _ f W1 Hf) as (c & Hc & Ho).
  exists c. split; [exact Hc|]. split; [exact Ho|]. split; [apply Hfresh, Hc|apply (S1 f c Hf Hc Ho)].
Qed.

(* the same for every event that the query returns *)
Theorem staleness_of_output R ttl tick src s a b rv s' out log :
  R_down R -> ttl > 0 -> tick >= 0 -> NEG_INF < a -> a < b -> b < POS_INF ->
  heap_inv ttl s -> cache_inv R s ->
  cquery false ttl tick src s a b rv = (s', out, log) ->
  (forall t gs ge, In (t, gs, ge) log -> src_good R t (src gs ge)) ->
  heap_inv ttl s' /\ cache_inv R s' /\
  forall f, In f out ->
  exists c, In c (cover s') /\ ovl f c /\ now s < cv_t c + ttl /\ R (pl f) (cv_t c).
Proof.
  intros Hd Httl Htick Ha Hab Hb H Hci Hq Hsrc.
  pose proof (cquery_cinv R ttl tick src s a b rv s' out log Hd Httl Htick Ha Hab Hb H Hci Hq Hsrc) as Hci'.
  destruct (economy _ _ _ _ _ _ _ _ _ _ _ Httl Htick Ha Hab Hb H Hq)
    as (h1 & cv1 & sk1 & _ & _ & _ & _ & _ & H' & Hout & _ & Hfr & _).
  split; [exact H'|]. split; [exact Hci'|].
  intros f Hf. destruct Hci' as [Hs' W' S'].
  rewrite Hout in Hf. apply fetch_static_in in Hf; [|exact Hs']. destruct Hf as [Hf _].
  destruct (frag_has_cover _ _ _ f W' Hf) as (c & Hc & Ho).
  exists c. split; [exact Hc|]. split; [exact Ho|]. split; [apply Hfr, Hc|apply (S' f c Hf Hc Ho)].
Qed.

(* ==================================== Part 4 ==================================== *)
(* Instance: exact stamps.  [sp p] is the clock reading that the payload p carries.  The model
   reads the clock for [created] when the source fetch has returned (cache.py: the loop over
   source.fetch comes first, created=monotonic() after it) and its clock only moves at readings,
   so in the model the reading of the fetch IS [created]: delta = 0 below.  For a source whose
   answer is up to delta older than the [created] reading that follows it (the duration of the
   fetch), the bound is ttl + delta. *)
Definition R_stamp (sp : payload -> Z) (delta : Z) : payload -> Z -> Prop :=
  fun p tau => tau <= sp p + delta.

Lemma R_stamp_down sp delta : R_down (R_stamp sp delta).
Proof. unfold R_down, R_stamp. intros. lia. Qed.

(* the invariant, in the form asked for: stamp(f) + delta >= created(c) whenever f and c overlap *)
Lemma stamp_inv_stamp sp delta sk cv :
  stamp_inv (R_stamp sp delta) sk cv <->
  forall f c, In f sk -> In c cv -> ovl f c -> cv_t c <= sp (pl f) + delta.
Proof. reflexivity. Qed.

Theorem C10_staleness_stamped sp delta ttl s h1 cv1 sk1 :
  heap_inv ttl s -> cache_inv (R_stamp sp delta) s ->
  evict_go (now s) (heap s) (cover s) (sink s) = (h1, cv1, sk1) ->
  forall f, In f sk1 -> now s < sp (pl f) + delta + ttl.
Proof.
  intros H Hci He f Hf.
  destruct (staleness_after_evict _ ttl s h1 cv1 sk1 H Hci He f Hf) as (c & _ & _ & Hlt & Hr).
  unfold R_stamp in Hr. lia.
Qed.

Theorem C10_staleness_stamped_output sp delta ttl tick src s a b rv s' out log :
  ttl > 0 -> tick >= 0 -> NEG_INF < a -> a < b -> b < POS_INF ->
  heap_inv ttl s -> cache_inv (R_stamp sp delta) s ->
  cquery false ttl tick src s a b rv = (s', out, log) ->
  (forall t gs ge, In (t, gs, ge) log -> src_good (R_stamp sp delta) t (src gs ge)) ->
  heap_inv ttl s' /\ cache_inv (R_stamp sp delta) s' /\
  forall f, In f out -> now s < sp (pl f) + delta + ttl.
Proof.
  intros Httl Htick Ha Hab Hb H Hci Hq Hsrc.
  destruct (staleness_of_output _ ttl tick src s a b rv s' out log (R_stamp_down sp delta)
              Httl Htick Ha Hab Hb H Hci Hq Hsrc) as (H' & Hci' & Hout).
  split; [exact H'|]. split; [exact Hci'|]. intros f Hf.
  destruct (Hout f Hf) as (c & _ & _ & Hlt & Hr). unfold R_stamp in Hr. lia.
Qed.

(* ---------- every history ---------- *)
(* The states reachable by queries, each fetch of which may be answered by a different source
   (a source that changes with time: the list of the fetches of a query and their readings does
   not depend on the source, see CacheInv.economy), and by clock advances. *)
Inductive reach (R : payload -> Z -> Prop) (ttl tick : Z) : cstate -> Prop :=
| reach_init t0 : reach R ttl tick (cinit t0)
| reach_adv s d : reach R ttl tick s -> 0 <= d ->
    reach R ttl tick (mkC (sink s) (cover s) (heap s) (hseq s) (now s + d))
| reach_query s src a b rv s' out log : reach R ttl tick s ->
    NEG_INF < a -> a < b -> b < POS_INF ->
    cquery false ttl tick src s a b rv = (s', out, log) ->
    (forall t gs ge, In (t, gs, ge) log -> src_good R t (src gs ge)) ->
    reach R ttl tick s'.

Theorem reach_inv R ttl tick s : R_down R -> ttl > 0 -> tick >= 0 ->
  reach R ttl tick s -> heap_inv ttl s /\ cache_inv R s.
Proof.
  intros Hd Httl Htick Hr. induction Hr as [t0|s d Hr [H Hci] Hd0|s src a b rv s' out log Hr [H Hci] Ha Hab Hb Hq Hsrc].
  - split; [apply heap_inv_init|apply cache_inv_init].
  - split.
    + destruct H as [A B C D E F G]. constructor; simpl; auto. intros c Hc. specialize (G c Hc). lia.
    + destruct Hci as [A B C]. constructor; simpl; assumption.
  - destruct (staleness_of_output R ttl tick src s a b rv s' out log Hd Httl Htick Ha Hab Hb H Hci Hq Hsrc)
      as (H' & Hci' & _). split; assumption.
Qed.

(* the invariant in the form of the task: in every reachable state, a stored fragment carries a
   stamp at least as late as the [created] reading of every segment it overlaps *)
Theorem stamp_inv_reachable sp delta ttl tick s : ttl > 0 -> tick >= 0 ->
  reach (R_stamp sp delta) ttl tick s ->
  forall f c, In f (sink s) -> In c (cover s) -> ovl f c -> cv_t c <= sp (pl f) + delta.
Proof.
  intros Httl Htick Hr.
  destruct (reach_inv _ ttl tick s (R_stamp_down sp delta) Httl Htick Hr) as [_ [_ _ S]]. exact S.
Qed.

(* C10, staleness: in every reachable state, after the eviction pass of a query that read the
   clock as t = now s, every stored fragment has t < stamp + ttl (delta = 0: the stamp is the
   [created] reading of the fetch; see Part 4 for delta) ... *)
Theorem C10_staleness sp delta ttl tick s h1 cv1 sk1 : ttl > 0 -> tick >= 0 ->
  reach (R_stamp sp delta) ttl tick s ->
  evict_go (now s) (heap s) (cover s) (sink s) = (h1, cv1, sk1) ->
  forall f, In f sk1 -> now s < sp (pl f) + delta + ttl.
Proof.
  intros Httl Htick Hr.
  destruct (reach_inv _ ttl tick s (R_stamp_down sp delta) Httl Htick Hr) as [H Hci].
  apply C10_staleness_stamped; assumption.
Qed.

(* ... hence every event that the query returns *)
Theorem C10_staleness_output sp delta ttl tick src s a b rv s' out log : ttl > 0 -> tick >= 0 ->
  reach (R_stamp sp delta) ttl tick s ->
  NEG_INF < a -> a < b -> b < POS_INF ->
  cquery false ttl tick src s a b rv = (s', out, log) ->
  (forall t gs ge, In (t, gs, ge) log -> src_good (R_stamp sp delta) t (src gs ge)) ->
  forall f, In f out -> now s < sp (pl f) + delta + ttl.
Proof.
  intros Httl Htick Hr Ha Hab Hb Hq Hsrc.
  destruct (reach_inv _ ttl tick s (R_stamp_down sp delta) Httl Htick Hr) as [H Hci].
  apply (C10_staleness_stamped_output sp delta ttl tick src s a b rv s' out log
           Httl Htick Ha Hab Hb H Hci Hq Hsrc).
Qed.

(* ==================================== Part 5 ==================================== *)
(* Instance: the histories of Model/Cache.v.  The source has a current version, CMutate moves it
   to the next one (between two queries); a payload id encodes (key, version).  The ghost list
   [mut_times] records the clock at each CMutate: entry w-1 is the value of the clock when
   version w replaced version w-1 (every reading made before is <= it, every later one >= it). *)

Definition keyed_src (evs : list ivl) : Prop :=
  (forall e, In e evs -> key_of e <> None) /\ NoDup (map key_of evs).

Lemma src_ok_keyed evs : src_ok evs -> keyed_src evs.
Proof. intros H. split; [intros e He; apply (src_key_some evs e H He)|apply H]. Qed.

Definition is_mut (o : cop) : bool := match o with CMutate => true | _ => false end.
Definition count_mut (ops : list cop) : nat := length (filter is_mut ops).

Definition vstep (masked : bool) (ttl tick : Z) (evs : list ivl) (g : crun * list Z) (o : cop)
  : crun * list Z :=
  (cstep masked ttl tick evs (fst g) o,
   match o with CMutate => snd g ++ [now (r_state (fst g))] | _ => snd g end).
Definition vinit (t0 : Z) : crun * list Z := (mkR (cinit t0) 0%N [] [] [] [], []).
Definition vrun (masked : bool) (ttl tick t0 : Z) (evs : list ivl) (ops : list cop) : crun * list Z :=
  fold_left (vstep masked ttl tick evs) ops (vinit t0).
Definition mut_times (masked : bool) (ttl tick t0 : Z) (evs : list ivl) (ops : list cop) : list Z :=
  snd (vrun masked ttl tick t0 evs ops).

Lemma vfold_fst masked ttl tick evs ops : forall g,
  fst (fold_left (vstep masked ttl tick evs) ops g) = fold_left (cstep masked ttl tick evs) ops (fst g).
Proof. induction ops as [|o ops IH]; intro g; simpl; [reflexivity|]. rewrite IH. reflexivity. Qed.

(* the ghost does not change the run *)
Lemma vrun_fst masked ttl tick t0 evs ops :
  fst (vrun masked ttl tick t0 evs ops) = crun_all masked ttl tick t0 evs ops.
Proof. unfold vrun, crun_all. rewrite vfold_fst. reflexivity. Qed.

Lemma vfold_snd masked ttl tick evs ops : forall g,
  exists l, snd (fold_left (vstep masked ttl tick evs) ops g) = snd g ++ l /\ length l = count_mut ops.
Proof.
  induction ops as [|o ops IH]; intro g; simpl.
  - exists []. rewrite app_nil_r. split; reflexivity.
  - destruct (IH (vstep masked ttl tick evs g o)) as (l & E & L). rewrite E.
    destruct o; simpl; try (exists l; split; [reflexivity|exact L]).
    exists (now (r_state (fst g)) :: l). rewrite <- app_assoc. split; [reflexivity|].
    unfold count_mut in *. simpl. rewrite L. reflexivity.
Qed.

Lemma mut_times_length masked ttl tick t0 evs ops :
  length (mut_times masked ttl tick t0 evs ops) = count_mut ops.
Proof.
  unfold mut_times, vrun. destruct (vfold_snd masked ttl tick evs ops (vinit t0)) as (l & E & L).
  rewrite E. simpl. exact L.
Qed.

(* the entry of a CMutate is the value of the clock at that point of the history *)
Lemma mut_times_at masked ttl tick t0 evs ops1 ops2 :
  nth (count_mut ops1) (mut_times masked ttl tick t0 evs (ops1 ++ CMutate :: ops2)) 0 =
  now (r_state (crun_all masked ttl tick t0 evs ops1)).
Proof.
  unfold mut_times, vrun. rewrite fold_left_app. simpl.
  fold (vrun masked ttl tick t0 evs ops1).
  destruct (vfold_snd masked ttl tick evs ops2 (vstep masked ttl tick evs (vrun masked ttl tick t0 evs ops1) CMutate))
    as (l & E & _).
  rewrite E. simpl. rewrite <- app_assoc.
  fold (mut_times masked ttl tick t0 evs ops1).
  rewrite app_nth2; rewrite mut_times_length; [|lia]. rewrite Nat.sub_diag. simpl.
  rewrite vrun_fst. reflexivity.
Qed.

Lemma count_mut_app ops1 ops2 : count_mut (ops1 ++ ops2) = (count_mut ops1 + count_mut ops2)%nat.
Proof. unfold count_mut. rewrite filter_app, app_length. reflexivity. Qed.

(* "the fields p were those of the source when the clock read tau", by versions: p is not from
   the future, and every mutation w that p does not reflect happened when the clock was >= tau *)
Definition R_ver (mt : list Z) : payload -> Z -> Prop :=
  fun p tau => (N.to_nat (pl_ver p) <= length mt)%nat /\
               forall w : nat, (N.to_nat (pl_ver p) < w <= length mt)%nat -> tau <= nth (w - 1) mt 0.

Lemma R_ver_down mt : R_down (R_ver mt).
Proof.
  intros p t t' [H1 H2] Hle. split; [exact H1|]. intros w Hw. specialize (H2 w Hw). lia.
Qed.

Lemma R_ver_snoc mt m p tau : R_ver mt p tau -> tau <= m -> R_ver (mt ++ [m]) p tau.
Proof.
  intros [H1 H2] Hm. unfold R_ver. rewrite app_length. simpl. split; [lia|]. intros w Hw.
  destruct (Nat.eq_dec w (length mt + 1)) as [->|Hne].
  - replace (length mt + 1 - 1)%nat with (length mt) by lia.
    rewrite app_nth2 by lia. rewrite Nat.sub_diag. simpl. exact Hm.
  - rewrite app_nth1 by lia. apply H2. lia.
Qed.

(* the versioned source *)
Lemma KEYMOD_nz : KEYMOD <> 0%N.
Proof. unfold KEYMOD. discriminate. Qed.

Lemma retag_key v e : (v < KEYMOD)%N -> key_of e <> None -> key_of (retag v e) = key_of e.
Proof.
  intros Hv Hk. unfold key_of, retag in *. destruct (pl e) as [|id] eqn:E; [contradiction Hk; reflexivity|].
  cbn [pl]. f_equal. rewrite N.div_add_l by exact KEYMOD_nz.
  rewrite (N.div_small v KEYMOD Hv). apply N.add_0_r.
Qed.

Lemma retag_ver v e : (v < KEYMOD)%N -> key_of e <> None -> pl_ver (pl (retag v e)) = v.
Proof.
  intros Hv Hk. unfold key_of, retag in *. destruct (pl e) as [|id] eqn:E; [contradiction Hk; reflexivity|].
  cbn [pl pl_ver]. rewrite N.add_comm, N.mod_add by exact KEYMOD_nz.
  apply N.mod_small, Hv.
Qed.

Lemma NoDup_map_filter {A B} (f : A -> B) (P : A -> bool) l :
  NoDup (map f l) -> NoDup (map f (filter P l)).
Proof.
  induction l as [|x r IH]; simpl; intro H; [constructor|].
  inversion H as [|? ? Hx Hr]; subst. destruct (P x); simpl; [|auto].
  constructor; [|auto]. intro Hin. apply Hx. apply in_map_iff in Hin as (y & Ey & Hy).
  apply filter_In in Hy as [Hy _]. apply in_map_iff. exists y. split; assumption.
Qed.

Lemma src_of_good_gen (R : payload -> Z -> Prop) evs v t gs ge :
  keyed_src evs -> (v < KEYMOD)%N -> (forall p, pl_ver p = v -> R p t) ->
  src_good R t (src_of evs v gs ge).
Proof.
  intros [Hk Hnd] Hv HR. unfold src_of.
  set (L := map (retag v) evs).
  pose proof (sl_build_sorted L) as Hs. pose proof (sl_build_perm L) as Hp.
  assert (Hin : forall e, In e (fetch_static (sl_build L) (Some gs) (Some ge) false) ->
                          exists e0, In e0 evs /\ e = retag v e0).
  { intros e He. apply fetch_static_in in He; [|exact Hs]. destruct He as [He _].
    apply (Permutation_in _ Hp) in He. apply in_map_iff in He as (e0 & <- & He0).
    exists e0. split; [exact He0|reflexivity]. }
  split; [|split].
  - intros e He. destruct (Hin e He) as (e0 & He0 & ->).
    rewrite retag_key; [apply Hk, He0|exact Hv|apply Hk, He0].
  - rewrite (proj1 (fetch_static_spec (sl_build L) (Some gs) (Some ge) Hs)).
    apply NoDup_map_filter.
    eapply Permutation_NoDup; [apply Permutation_map, Permutation_sym, Hp|].
    unfold L. rewrite map_map.
    rewrite (map_ext_in (fun x => key_of (retag v x)) key_of); [exact Hnd|].
    intros e0 He0. apply retag_key; [exact Hv|apply Hk, He0].
  - intros e He. destruct (Hin e He) as (e0 & He0 & ->).
    apply HR. apply (retag_ver v e0 Hv (Hk e0 He0)).
Qed.

Lemma src_of_good evs mt v t gs ge :
  keyed_src evs -> (v < KEYMOD)%N -> v = N.of_nat (length mt) ->
  src_good (R_ver mt) t (src_of evs v gs ge).
Proof.
  intros Hsrc Hv Ev. apply src_of_good_gen; [exact Hsrc|exact Hv|].
  intros p Hp. unfold R_ver. rewrite Hp. subst v. rewrite Nnat.Nat2N.id.
  split; [lia|]. intros w Hw. lia.
Qed.

(* the invariant of the ghost run *)
Record vinv (ttl : Z) (g : crun * list Z) : Prop := mkVI {
  vi_ver : r_ver (fst g) = N.of_nat (length (snd g));
  vi_heap : heap_inv ttl (r_state (fst g));
  vi_cache : cache_inv (R_ver (snd g)) (r_state (fst g))
}.

Lemma vinv_init ttl t0 : vinv ttl (vinit t0).
Proof. constructor; simpl; [reflexivity|apply heap_inv_init|apply cache_inv_init]. Qed.

Lemma vstep_vinv evs ttl tick g o :
  keyed_src evs -> ttl > 0 -> tick >= 0 -> op_ok o ->
  (length (snd g) + (if is_mut o then 1 else 0) < N.to_nat KEYMOD)%nat ->
  vinv ttl g -> vinv ttl (vstep false ttl tick evs g o).
Proof.
  intros Hsrc Httl Htick Ho Hlen [Hv H Hci].
  pose proof (cstep_inv false ttl tick evs (fst g) o Httl Htick Ho H) as H'.
  destruct g as [r mt]. cbn [fst snd] in *.
  destruct o as [a b rv|d|]; unfold vstep; cbn [fst snd].
  - constructor; cbn [fst snd]; [| exact H' |].
    + simpl. destruct (cquery false ttl tick (src_of evs (r_ver r)) (r_state r) a b rv) as [[s' out] lg].
      simpl. exact Hv.
    + simpl in Ho, H' |- *. destruct Ho as (Ha & Hab & Hb).
      destruct (cquery false ttl tick (src_of evs (r_ver r)) (r_state r) a b rv) as [[s' out] lg] eqn:Hq.
      simpl.
      eapply (cquery_cinv (R_ver mt)); try exact Hq; auto; [apply R_ver_down|].
      intros t gs ge _. apply src_of_good; [exact Hsrc| |exact Hv].
      rewrite Hv. cbn [is_mut] in Hlen. unfold KEYMOD in *. lia.
  - constructor; cbn [fst snd]; [exact Hv|exact H'|].
    destruct Hci as [A B C]. constructor; simpl; assumption.
  - constructor; cbn [fst snd]; [| exact H' |].
    + simpl. rewrite Hv, app_length. simpl. lia.
    + simpl. destruct Hci as [A B C]. constructor; [exact A|exact B|].
      intros f c Hf Hc Ho'. apply R_ver_snoc; [apply (C f c Hf Hc Ho')|apply (hi_time _ _ H), Hc].
Qed.

Lemma count_mut_cons o ops : count_mut (o :: ops) = ((if is_mut o then 1 else 0) + count_mut ops)%nat.
Proof. unfold count_mut. simpl. destruct (is_mut o); reflexivity. Qed.

Lemma vstep_snd_length masked ttl tick evs g o :
  length (snd (vstep masked ttl tick evs g o)) = (length (snd g) + (if is_mut o then 1 else 0))%nat.
Proof. destruct o; simpl; rewrite ?app_length; simpl; lia. Qed.

Lemma vfold_vinv evs ttl tick : keyed_src evs -> ttl > 0 -> tick >= 0 -> forall ops g,
  Forall op_ok ops -> (length (snd g) + count_mut ops < N.to_nat KEYMOD)%nat ->
  vinv ttl g -> vinv ttl (fold_left (vstep false ttl tick evs) ops g).
Proof.
  intros Hsrc Httl Htick. induction ops as [|o ops IH]; intros g Hops Hlen Hg; simpl; [exact Hg|].
  inversion Hops; subst. rewrite count_mut_cons in Hlen. apply IH; [assumption| |].
  - rewrite vstep_snd_length. lia.
  - apply vstep_vinv; auto. lia.
Qed.

(* the invariant in every reachable state *)
Theorem vinv_reachable evs ttl tick t0 ops :
  keyed_src evs -> ttl > 0 -> tick >= 0 -> Forall op_ok ops ->
  (count_mut ops < N.to_nat KEYMOD)%nat ->
  let r := crun_all false ttl tick t0 evs ops in
  let mt := mut_times false ttl tick t0 evs ops in
  r_ver r = N.of_nat (length mt) /\ length mt = count_mut ops /\
  heap_inv ttl (r_state r) /\ cache_inv (R_ver mt) (r_state r).
Proof.
  intros Hsrc Httl Htick Hops Hlen r mt.
  pose proof (vfold_vinv evs ttl tick Hsrc Httl Htick ops (vinit t0) Hops Hlen (vinv_init ttl t0)) as [A B C].
  fold (vrun false ttl tick t0 evs ops) in A, B, C.
  rewrite vrun_fst in A, B, C. fold r in A, B, C. fold (mut_times false ttl tick t0 evs ops) in A, C. fold mt in A, C.
  split; [exact A|]. split; [apply mut_times_length|]. split; assumption.
Qed.

(* C10, staleness, for a query made in any reachable state of a history with source mutations.
   For every event f that the query returns:
   - its version is one the source has had (not from the future);
   - for every mutation w that f does not reflect, f overlaps a segment c of the final cover
     that was created BEFORE that mutation (its [created] reading is <= the clock at the
     mutation) and is younger than ttl at the eviction reading of the query.
   Read contrapositively: once every segment fetched before mutation w and meeting the event is
   ttl old, the query returns the fields of mutation w or later: "a change in the source
   becomes visible at most ttl after the covering segment was fetched". *)
Theorem C10_stale_version_segment evs ttl tick t0 ops a b rv s' out log :
  keyed_src evs -> ttl > 0 -> tick >= 0 -> Forall op_ok ops ->
  (count_mut ops < N.to_nat KEYMOD)%nat ->
  NEG_INF < a -> a < b -> b < POS_INF ->
  let r := crun_all false ttl tick t0 evs ops in
  let mt := mut_times false ttl tick t0 evs ops in
  cquery false ttl tick (src_of evs (r_ver r)) (r_state r) a b rv = (s', out, log) ->
  forall f, In f out ->
    (pl_ver (pl f) <= r_ver r)%N /\
    forall w : nat, (N.to_nat (pl_ver (pl f)) < w <= length mt)%nat ->
    exists c, In c (cover s') /\ ovl f c /\
              cv_t c <= nth (w - 1) mt 0 /\ now (r_state r) < cv_t c + ttl.
Proof.
  intros Hsrc Httl Htick Hops Hlen Ha Hab Hb r mt Hq f Hf.
  destruct (vinv_reachable evs ttl tick t0 ops Hsrc Httl Htick Hops Hlen) as (Hv & Hl & H & Hci).
  fold r in Hv, H, Hci. fold mt in Hv, Hl, Hci.
  destruct (staleness_of_output (R_ver mt) ttl tick _ _ a b rv s' out log (R_ver_down mt)
              Httl Htick Ha Hab Hb H Hci Hq) as (_ & _ & Hout).
  { intros t gs ge _. apply src_of_good; [exact Hsrc| |exact Hv].
    rewrite Hv, Hl. unfold KEYMOD in *. lia. }
  destruct (Hout f Hf) as (c & Hc & Ho & Hlt & [R1 R2]).
  split; [rewrite Hv; lia|].
  intros w Hw. exists c. split; [exact Hc|]. split; [exact Ho|]. split; [apply R2, Hw|exact Hlt].
Qed.

(* the bound in time: a mutation that a returned event does not reflect happened less than ttl
   before the eviction reading of the query; so the returned fields were those of the source at
   some moment of the last ttl *)
Theorem C10_staleness_versions evs ttl tick t0 ops a b rv s' out log :
  keyed_src evs -> ttl > 0 -> tick >= 0 -> Forall op_ok ops ->
  (count_mut ops < N.to_nat KEYMOD)%nat ->
  NEG_INF < a -> a < b -> b < POS_INF ->
  let r := crun_all false ttl tick t0 evs ops in
  let mt := mut_times false ttl tick t0 evs ops in
  cquery false ttl tick (src_of evs (r_ver r)) (r_state r) a b rv = (s', out, log) ->
  forall f, In f out ->
    forall w : nat, (N.to_nat (pl_ver (pl f)) < w <= length mt)%nat ->
    now (r_state r) < nth (w - 1) mt 0 + ttl.
Proof.
  intros Hsrc Httl Htick Hops Hlen Ha Hab Hb r mt Hq f Hf w Hw.
  destruct (C10_stale_version_segment evs ttl tick t0 ops a b rv s' out log
              Hsrc Httl Htick Hops Hlen Ha Hab Hb Hq f Hf) as [_ Hs].
  destruct (Hs w Hw) as (c & _ & _ & H1 & H2). subst r mt. lia.
Qed.

(* the same for the sink right after the eviction pass (before the gaps are filled) *)
Theorem C10_staleness_versions_evicted evs ttl tick t0 ops h1 cv1 sk1 :
  keyed_src evs -> ttl > 0 -> tick >= 0 -> Forall op_ok ops ->
  (count_mut ops < N.to_nat KEYMOD)%nat ->
  let r := crun_all false ttl tick t0 evs ops in
  let mt := mut_times false ttl tick t0 evs ops in
  let s := r_state r in
  evict_go (now s) (heap s) (cover s) (sink s) = (h1, cv1, sk1) ->
  forall f, In f sk1 ->
    forall w : nat, (N.to_nat (pl_ver (pl f)) < w <= length mt)%nat ->
    exists c, In c cv1 /\ ovl f c /\ cv_t c <= nth (w - 1) mt 0 /\ now s < cv_t c + ttl.
Proof.
  intros Hsrc Httl Htick Hops Hlen r mt s He f Hf w Hw.
  destruct (vinv_reachable evs ttl tick t0 ops Hsrc Httl Htick Hops Hlen) as (Hv & Hl & H & Hci).
  fold r in Hv, H, Hci. fold mt in Hv, Hl, Hci. fold s in H, Hci.
  destruct (staleness_after_evict (R_ver mt) ttl s h1 cv1 sk1 H Hci He f Hf) as (c & Hc & Ho & Hlt & [_ R2]).
  exists c. split; [exact Hc|]. split; [exact Ho|]. split; [apply R2, Hw|exact Hlt].
Qed.

(* a change in the source becomes visible at most ttl later: if the source changed when the
   clock was m, every query whose eviction reading is >= m + ttl returns only fields at least as
   new as that change (exactly the new ones if there was no later change) *)
Theorem C10_change_visible evs ttl tick t0 ops1 ops2 a b rv s' out log :
  keyed_src evs -> ttl > 0 -> tick >= 0 ->
  let ops := ops1 ++ CMutate :: ops2 in
  Forall op_ok ops -> (count_mut ops < N.to_nat KEYMOD)%nat ->
  NEG_INF < a -> a < b -> b < POS_INF ->
  let m := now (r_state (crun_all false ttl tick t0 evs ops1)) in
  let r := crun_all false ttl tick t0 evs ops in
  cquery false ttl tick (src_of evs (r_ver r)) (r_state r) a b rv = (s', out, log) ->
  m + ttl <= now (r_state r) ->
  forall f, In f out ->
    (N.of_nat (count_mut ops1) < pl_ver (pl f) <= N.of_nat (count_mut ops))%N.
Proof.
  intros Hsrc Httl Htick ops Hops Hlen Ha Hab Hb m r Hq Hlate f Hf.
  destruct (C10_stale_version_segment evs ttl tick t0 ops a b rv s' out log
              Hsrc Httl Htick Hops Hlen Ha Hab Hb Hq f Hf) as [Hle Hs].
  fold r in Hle.
  destruct (vinv_reachable evs ttl tick t0 ops Hsrc Httl Htick Hops Hlen) as (Hv & Hl & _ & _).
  fold r in Hv. split; [|rewrite <- Hl, <- Hv; exact Hle].
  destruct (N.lt_ge_cases (N.of_nat (count_mut ops1)) (pl_ver (pl f))) as [Hlt|Hge]; [exact Hlt|exfalso].
  assert (Hc : count_mut ops = (count_mut ops1 + 1 + count_mut ops2)%nat).
  { unfold ops. rewrite count_mut_app, count_mut_cons. simpl. lia. }
  destruct (Hs (count_mut ops1 + 1)%nat) as (c & _ & _ & H1 & H2).
  { rewrite Hl. lia. }
  replace (count_mut ops1 + 1 - 1)%nat with (count_mut ops1) in H1 by lia.
  unfold ops in H1. rewrite mut_times_at in H1. subst m r. lia.
Qed.

(* ---------- the clock-stamping source ---------- *)
(* Non-vacuity of the generic theorems for every query in every state: a source that stamps the
   events it returns with the [created] reading of the fetch.  The readings of the fetches of a
   query do not depend on the source (CacheInv.economy), so they can be computed first. *)
Definition sp_ver (p : payload) : Z := Z.of_N (pl_ver p).

Definition log_reading (lg : list (Z * Z * Z)) (gs : Z) : Z :=
  match find (fun e => snd (fst e) =? gs) lg with Some e => fst (fst e) | None => 0 end.
Definition stamping_src (evs : list ivl) (lg : list (Z * Z * Z)) : Z -> Z -> list ivl :=
  fun gs ge => src_of evs (Z.to_N (log_reading lg gs)) gs ge.

Lemma log_reading_in lg t gs ge :
  log_sep lg -> (forall t' gs' ge', In (t', gs', ge') lg -> gs' < ge') ->
  In (t, gs, ge) lg -> log_reading lg gs = t.
Proof.
  induction lg as [|[[t0 g0] e0] r IH]; simpl; [intros _ _ []|].
  intros [Hx Hr] Hpos [E|Hin].
  - inversion E; subst. unfold log_reading. simpl. rewrite Z.eqb_refl. reflexivity.
  - unfold log_reading. simpl. destruct (g0 =? gs) eqn:Eq.
    + exfalso. specialize (Hx _ Hin). simpl in Hx.
      pose proof (Hpos t0 g0 e0 (or_introl eq_refl)). lia.
    + apply IH; [exact Hr| |exact Hin]. intros t' gs' ge' H'. apply (Hpos t' gs' ge'). right; exact H'.
Qed.

Theorem stamping_src_query evs ttl tick s a b rv :
  keyed_src evs -> ttl > 0 -> tick >= 0 -> NEG_INF < a -> a < b -> b < POS_INF ->
  heap_inv ttl s ->
  let lg := snd (cquery false ttl tick (fun _ _ => []) s a b rv) in
  (forall t gs ge, In (t, gs, ge) lg -> 0 <= t /\ (Z.to_N t < KEYMOD)%N) ->
  let src := stamping_src evs lg in
  exists s' out, cquery false ttl tick src s a b rv = (s', out, lg) /\
    forall t gs ge, In (t, gs, ge) lg -> src_good (R_stamp sp_ver 0) t (src gs ge).
Proof.
  intros Hsrc Httl Htick Ha Hab Hb H lg Hrng src.
  destruct (cquery false ttl tick (fun _ _ => []) s a b rv) as [[s0 out0] lg0] eqn:Hq0.
  destruct (cquery false ttl tick src s a b rv) as [[s' out] lg1] eqn:Hq1.
  destruct (economy _ _ _ _ _ _ _ _ _ _ _ Httl Htick Ha Hab Hb H Hq0)
    as (h1 & cv1 & sk1 & He0 & Hl0 & Hin0 & Hsep0 & _).
  destruct (economy _ _ _ _ _ _ _ _ _ _ _ Httl Htick Ha Hab Hb H Hq1)
    as (h1' & cv1' & sk1' & He1 & Hl1 & _).
  rewrite He0 in He1. inversion He1; subst h1' cv1' sk1'.
  assert (E : lg1 = lg) by (unfold lg; simpl; congruence).
  exists s', out. split; [rewrite E; reflexivity|].
  intros t gs ge Hl. unfold src, stamping_src.
  assert (Er : log_reading lg gs = t).
  { apply (log_reading_in lg t gs ge); [exact Hsep0| |exact Hl].
    intros t' gs' ge' H'. destruct (Hin0 t' gs' ge' H') as (_ & ? & _). assumption. }
  rewrite Er. destruct (Hrng t gs ge Hl) as [H0 Hk].
  apply src_of_good_gen; [exact Hsrc|exact Hk|].
  intros p Hp. unfold R_stamp, sp_ver. rewrite Hp. rewrite Z2N.id by exact H0. lia.
Qed.

(* so the reachable states are closed under queries answered by the clock-stamping source *)
Corollary reach_stamping evs ttl tick s a b rv :
  keyed_src evs -> ttl > 0 -> tick >= 0 -> NEG_INF < a -> a < b -> b < POS_INF ->
  reach (R_stamp sp_ver 0) ttl tick s ->
  let lg := snd (cquery false ttl tick (fun _ _ => []) s a b rv) in
  (forall t gs ge, In (t, gs, ge) lg -> 0 <= t /\ (Z.to_N t < KEYMOD)%N) ->
  reach (R_stamp sp_ver 0) ttl tick (fst (fst (cquery false ttl tick (stamping_src evs lg) s a b rv))).
Proof.
  intros Hsrc Httl Htick Ha Hab Hb Hr lg Hrng.
  destruct (reach_inv _ ttl tick s (R_stamp_down sp_ver 0) Httl Htick Hr) as [H _].
  destruct (stamping_src_query evs ttl tick s a b rv Hsrc Httl Htick Ha Hab Hb H Hrng) as (s' & out & Hq & Hg).
  fold lg in Hq, Hg. rewrite Hq. simpl.
  eapply reach_query; [exact Hr|exact Ha|exact Hab|exact Hb|exact Hq|exact Hg].
Qed.

(* ==================================== Part 6 ==================================== *)
(* Examples.  The old D14 scenario: ttl 10, tick 1, clock from 0; an event of key 1 over [5,15)
   and one of key 2 over [2,30).  Query [0,10) (eviction reading 0, fetch at 1), the source
   changes (clock 2), query [10,20) (eviction reading 5, fetch at 6: the fragments [5,10) and
   [2,10) of version 0 are stitched with [10,15) and [10,20) of version 1; the fresh side is the
   right one), then the clock reaches 12: the segment [0,10) created at 1 has expired, the
   segment [10,20) created at 6 has not. *)
Definition d14_evs : list ivl :=
  [mkI (Some 5) (Some 15) (Rich 1000); mkI (Some 2) (Some 30) (Rich 2000)].
Definition d14_ops1 : list cop := [CQuery 0 10 false].
Definition d14_ops2 : list cop := [CAdvance 3; CQuery 10 20 false; CAdvance 5].
Definition d14_ops : list cop := d14_ops1 ++ CMutate :: d14_ops2.

Example d14_keyed : keyed_src d14_evs.
Proof.
  split.
  - intros e [<-|[<-|[]]]; discriminate.
  - assert (E : map key_of d14_evs = [Some 1%N; Some 2%N]) by (vm_compute; reflexivity).
    rewrite E. repeat constructor; simpl; intuition discriminate.
Qed.

Example d14_ops_ok : Forall op_ok d14_ops.
Proof. unfold d14_ops, d14_ops1, d14_ops2, op_ok, NEG_INF, POS_INF. simpl. repeat constructor; lia. Qed.

Example d14_count : (count_mut d14_ops < N.to_nat KEYMOD)%nat.
Proof. vm_compute. lia. Qed.

Definition Iv (a b : Z) (id : N) : ivl := mkI (Some a) (Some b) (Rich id).

Example d14_run :
  let r := crun_all false 10 1 0 d14_evs d14_ops in
  r_outs r = [ [Iv 2 10 2000; Iv 5 10 1000]; [Iv 2 20 2001; Iv 5 15 1001] ] /\
  r_logs r = [ [(1, 0, 10)]; [(6, 10, 20)] ] /\ r_evt r = [0; 5] /\ r_ver r = 1%N /\
  sink (r_state r) = [Iv 2 20 2001; Iv 5 15 1001] /\
  cover (r_state r) = [mkCov 0 10 1; mkCov 10 20 6] /\ now (r_state r) = 12 /\
  mut_times false 10 1 0 d14_evs d14_ops = [2].
Proof. vm_compute. repeat split; reflexivity. Qed.

(* the third query, at eviction reading 12, returns the fields of version 1 (the defect D14
   returned those of version 0 for [10,15) and [10,20)) *)
Example d14_third :
  let r := crun_all false 10 1 0 d14_evs d14_ops in
  cquery false 10 1 (src_of d14_evs (r_ver r)) (r_state r) 10 20 false =
  (mkC [Iv 10 15 1001; Iv 10 20 2001] [mkCov 10 20 6] [(16, 2%N, mkCov 10 20 6)] 2%N 13,
   [Iv 10 15 1001; Iv 10 20 2001], []).
Proof. vm_compute. reflexivity. Qed.

(* C10_change_visible applies: the change was made at clock 2, 12 >= 2 + 10 *)
Example d14_change_visible :
  forall f, In f [Iv 10 15 1001; Iv 10 20 2001] -> (0 < pl_ver (pl f) <= 1)%N.
Proof.
  intros f Hf.
  apply (C10_change_visible d14_evs 10 1 0 d14_ops1 d14_ops2 10 20 false _ _ _
           d14_keyed ltac:(lia) ltac:(lia) d14_ops_ok d14_count
           ltac:(unfold NEG_INF; lia) ltac:(lia) ltac:(unfold POS_INF; lia) d14_third).
  - vm_compute. discriminate.
  - exact Hf.
Qed.

(* non-vacuity of the staleness bound: at eviction reading 5 the query [0,10) is served from
   the cache with the fields of version 0 although the source changed at clock 2; the bound
   says 5 < 2 + 10 *)
Definition d14_pre : list cop := [CQuery 0 10 false; CMutate; CAdvance 3].

Example d14_stale_but_young :
  let r := crun_all false 10 1 0 d14_evs d14_pre in
  cquery false 10 1 (src_of d14_evs (r_ver r)) (r_state r) 0 10 false =
  (mkC [Iv 2 10 2000; Iv 5 10 1000] [mkCov 0 10 1] [(11, 1%N, mkCov 0 10 1)] 1%N 6,
   [Iv 2 10 2000; Iv 5 10 1000], []) /\
  mut_times false 10 1 0 d14_evs d14_pre = [2] /\ now (r_state r) = 5 /\
  (forall f, In f [Iv 2 10 2000; Iv 5 10 1000] ->
     forall w : nat, (N.to_nat (pl_ver (pl f)) < w <= 1)%nat ->
     5 < nth (w - 1) [2] 0 + 10).
Proof.
  split; [vm_compute; reflexivity|]. split; [vm_compute; reflexivity|]. split; [vm_compute; reflexivity|].
  assert (Hq : let r := crun_all false 10 1 0 d14_evs d14_pre in
               cquery false 10 1 (src_of d14_evs (r_ver r)) (r_state r) 0 10 false =
               (mkC [Iv 2 10 2000; Iv 5 10 1000] [mkCov 0 10 1] [(11, 1%N, mkCov 0 10 1)] 1%N 6,
                [Iv 2 10 2000; Iv 5 10 1000], [])) by (vm_compute; reflexivity).
  assert (Hok : Forall op_ok d14_pre).
  { unfold d14_pre, op_ok, NEG_INF, POS_INF. repeat constructor; lia. }
  assert (Hcn : (count_mut d14_pre < N.to_nat KEYMOD)%nat) by (vm_compute; lia).
  pose proof (C10_staleness_versions d14_evs 10 1 0 d14_pre 0 10 false _ _ _
                d14_keyed ltac:(lia) ltac:(lia) Hok Hcn
                ltac:(unfold NEG_INF; lia) ltac:(lia) ltac:(unfold POS_INF; lia) Hq) as H.
  intros f Hf w Hw. specialize (H f Hf w).
  change (mut_times false 10 1 0 d14_evs d14_pre) with [2] in H.
  change (now (r_state (crun_all false 10 1 0 d14_evs d14_pre))) with 5 in H.
  apply H. exact Hw.
Qed.

(* sensitivity: the invariant sees the side from which _stitch_at takes the fields.  The sink
   after the clipping loop of the second query, stitched at 10 with the fresh side on the left
   (what the code did before commit ea8f0d8), violates it; with the fresh side on the right it
   is the sink of d14_run. *)
Definition d14_clipped : list ivl := [Iv 2 10 2000; Iv 5 10 1000; Iv 10 15 1001; Iv 10 20 2001].

Example d14_wrong_side :
  stitch_at false 10 true d14_clipped = [Iv 2 20 2000; Iv 5 15 1000] /\
  stitch_at false 10 false d14_clipped = [Iv 2 20 2001; Iv 5 15 1001] /\
  ~ stamp_inv (R_ver [2]) (stitch_at false 10 true d14_clipped) [mkCov 0 10 1; mkCov 10 20 6] /\
  stamp_chk (fun p tau => if (N.to_nat (pl_ver p) <? 1)%nat then tau <=? 2 else true)
            (stitch_at false 10 false d14_clipped) [mkCov 0 10 1; mkCov 10 20 6] = true.
Proof.
  split; [vm_compute; reflexivity|]. split; [vm_compute; reflexivity|]. split; [|vm_compute; reflexivity].
  intro S.
  assert (E : stitch_at false 10 true d14_clipped = [Iv 2 20 2000; Iv 5 15 1000]) by (vm_compute; reflexivity).
  rewrite E in S.
  destruct (S (Iv 5 15 1000) (mkCov 10 20 6)) as [_ H2].
  - right; left; reflexivity.
  - right; left; reflexivity.
  - unfold ovl. vm_compute. reflexivity.
  - specialize (H2 1%nat). simpl in H2. assert (6 <= 2) by (apply H2; vm_compute; lia). lia.
Qed.

(* exact stamps: a source that returns, at the fetch whose [created] reading is t, the events
   re-tagged with version t; the stamp of a payload is its version.  (One gap per query, so
   the reading of the fetch is now + tick.) *)
Definition st_adv (s : cstate) (d : Z) : cstate := mkC (sink s) (cover s) (heap s) (hseq s) (now s + d).
Definition stamped_query (ttl tick : Z) (evs : list ivl) (s : cstate) (a b : Z) :=
  cquery false ttl tick (src_of evs (Z.to_N (now s + tick))) s a b false.

Lemma st_adv_inv R ttl s d : 0 <= d -> heap_inv ttl s -> cache_inv R s ->
  heap_inv ttl (st_adv s d) /\ cache_inv R (st_adv s d).
Proof.
  intros Hd [A B C D E F G] [Hs W S]. split.
  - constructor; simpl; auto. intros c Hc. specialize (G c Hc). lia.
  - constructor; simpl; assumption.
Qed.

Lemma stamped_query_step ttl tick evs s a b s' out log :
  keyed_src evs -> ttl > 0 -> tick >= 0 -> NEG_INF < a -> a < b -> b < POS_INF ->
  heap_inv ttl s -> cache_inv (R_stamp sp_ver 0) s ->
  0 <= now s + tick -> (Z.to_N (now s + tick) < KEYMOD)%N ->
  stamped_query ttl tick evs s a b = (s', out, log) ->
  (forall t gs ge, In (t, gs, ge) log -> t <= now s + tick) ->
  heap_inv ttl s' /\ cache_inv (R_stamp sp_ver 0) s' /\
  forall f, In f out -> now s < sp_ver (pl f) + ttl.
Proof.
  intros Hsrc Httl Htick Ha Hab Hb H Hci H0 Hk Hq Hlog.
  destruct (C10_staleness_stamped_output sp_ver 0 ttl tick _ s a b false s' out log
              Httl Htick Ha Hab Hb H Hci Hq) as (H' & Hci' & Hout).
  - intros t gs ge Hl. apply src_of_good_gen; [exact Hsrc|exact Hk|].
    intros p Hp. unfold R_stamp, sp_ver. rewrite Hp. specialize (Hlog t gs ge Hl). lia.
  - split; [exact H'|]. split; [exact Hci'|]. intros f Hf. specialize (Hout f Hf). lia.
Qed.

Definition d14_x1 := stamped_query 10 1 d14_evs (cinit 0) 0 10.
Definition d14_x2 := stamped_query 10 1 d14_evs (st_adv (fst (fst d14_x1)) 3) 10 20.
Definition d14_x3 := stamped_query 10 1 d14_evs (st_adv (fst (fst d14_x2)) 5) 10 20.

Example d14_exact_stamps :
  snd (fst d14_x1) = [Iv 2 10 2001; Iv 5 10 1001] /\ snd d14_x1 = [(1, 0, 10)] /\
  snd (fst d14_x2) = [Iv 2 20 2006; Iv 5 15 1006] /\ snd d14_x2 = [(6, 10, 20)] /\
  snd (fst d14_x3) = [Iv 10 15 1006; Iv 10 20 2006] /\ snd d14_x3 = [] /\
  now (st_adv (fst (fst d14_x2)) 5) = 12 /\
  cover (fst (fst d14_x2)) = [mkCov 0 10 1; mkCov 10 20 6] /\
  (* the invariant in the state before the third query: stamp >= created on every overlap *)
  (forall f c, In f (sink (fst (fst d14_x2))) -> In c (cover (fst (fst d14_x2))) -> ovl f c ->
               cv_t c <= sp_ver (pl f)) /\
  (* the staleness bound for the third query: 12 < stamp + 10 *)
  (forall f, In f (snd (fst d14_x3)) -> 12 < sp_ver (pl f) + 10).
Proof.
  assert (B : forall x : Z, (-100 < x -> NEG_INF < x) /\ (x < 100 -> x < POS_INF)).
  { intro x. unfold NEG_INF, POS_INF. lia. }
  destruct (stamped_query_step 10 1 d14_evs (cinit 0) 0 10 (fst (fst d14_x1)) (snd (fst d14_x1)) (snd d14_x1)
              d14_keyed ltac:(lia) ltac:(lia) ltac:(apply B; lia) ltac:(lia) ltac:(apply B; lia)
              (heap_inv_init 10 0) (cache_inv_init _ 0)) as (H1 & C1 & _).
  { vm_compute. discriminate. } { vm_compute. reflexivity. }
  { unfold d14_x1. destruct (stamped_query 10 1 d14_evs (cinit 0) 0 10) as [[? ?] ?]. reflexivity. }
  { intros t gs ge Hl. vm_compute in Hl. destruct Hl as [E|[]]. inversion E. vm_compute. discriminate. }
  destruct (st_adv_inv _ 10 (fst (fst d14_x1)) 3 ltac:(lia) H1 C1) as [H1' C1'].
  destruct (stamped_query_step 10 1 d14_evs (st_adv (fst (fst d14_x1)) 3) 10 20 (fst (fst d14_x2)) (snd (fst d14_x2)) (snd d14_x2)
              d14_keyed ltac:(lia) ltac:(lia) ltac:(apply B; lia) ltac:(lia) ltac:(apply B; lia)
              H1' C1') as (H2 & C2 & _).
  { vm_compute. discriminate. } { vm_compute. reflexivity. }
  { unfold d14_x2. destruct (stamped_query 10 1 d14_evs (st_adv (fst (fst d14_x1)) 3) 10 20) as [[? ?] ?]. reflexivity. }
  { intros t gs ge Hl. vm_compute in Hl. destruct Hl as [E|[]]. inversion E. vm_compute. discriminate. }
  destruct (st_adv_inv _ 10 (fst (fst d14_x2)) 5 ltac:(lia) H2 C2) as [H2' C2'].
  destruct (stamped_query_step 10 1 d14_evs (st_adv (fst (fst d14_x2)) 5) 10 20 (fst (fst d14_x3)) (snd (fst d14_x3)) (snd d14_x3)
              d14_keyed ltac:(lia) ltac:(lia) ltac:(apply B; lia) ltac:(lia) ltac:(apply B; lia)
              H2' C2') as (_ & _ & Hout).
  { vm_compute. discriminate. } { vm_compute. reflexivity. }
  { unfold d14_x3. destruct (stamped_query 10 1 d14_evs (st_adv (fst (fst d14_x2)) 5) 10 20) as [[? ?] ?]. reflexivity. }
  { intros t gs ge Hl. vm_compute in Hl. destruct Hl. }
  repeat (split; [vm_compute; reflexivity|]).
  split.
  - intros f c Hf Hc Ho. pose proof (ci_stamp _ _ C2 f c Hf Hc Ho) as Hr. unfold R_stamp in Hr. lia.
  - intros f Hf. specialize (Hout f Hf).
    change (now (st_adv (fst (fst d14_x2)) 5)) with 12 in Hout. exact Hout.
Qed.

(* C10_staleness_versions_evicted on the state of d14_stale_but_young: the eviction pass at
   reading 5 keeps the fragments of version 0, inside the segment created at 1 <= 2, 5 < 1 + 10 *)
Example d14_evicted :
  let s := r_state (crun_all false 10 1 0 d14_evs d14_pre) in
  evict_go (now s) (heap s) (cover s) (sink s) =
    ([(11, 1%N, mkCov 0 10 1)], [mkCov 0 10 1], [Iv 2 10 2000; Iv 5 10 1000]) /\
  forall f, In f [Iv 2 10 2000; Iv 5 10 1000] ->
    exists c, In c [mkCov 0 10 1] /\ ovl f c /\ cv_t c <= 2 /\ 5 < cv_t c + 10.
Proof.
  assert (He : let s := r_state (crun_all false 10 1 0 d14_evs d14_pre) in
               evict_go (now s) (heap s) (cover s) (sink s) =
               ([(11, 1%N, mkCov 0 10 1)], [mkCov 0 10 1], [Iv 2 10 2000; Iv 5 10 1000]))
    by (vm_compute; reflexivity).
  split; [exact He|]. intros f Hf.
  assert (Hok : Forall op_ok d14_pre).
  { unfold d14_pre, op_ok, NEG_INF, POS_INF. repeat constructor; lia. }
  assert (Hcn : (count_mut d14_pre < N.to_nat KEYMOD)%nat) by (vm_compute; lia).
  pose proof (C10_staleness_versions_evicted d14_evs 10 1 0 d14_pre _ _ _
                d14_keyed ltac:(lia) ltac:(lia) Hok Hcn He f Hf 1%nat) as H.
  change (mut_times false 10 1 0 d14_evs d14_pre) with [2] in H.
  change (now (r_state (crun_all false 10 1 0 d14_evs d14_pre))) with 5 in H.
  apply H. destruct Hf as [<-|[<-|[]]]; vm_compute; lia.
Qed.

(* sanity tests of the candidate invariant (made before proving it): the boolean version of
   stamp_inv (R_ver mt) holds after every prefix of histories with several gaps per query,
   unbounded events, evictions that cut stitched fragments, tick 0 (equal readings) *)
Definition R_ver_b (mt : list Z) (p : payload) (tau : Z) : bool :=
  (N.to_nat (pl_ver p) <=? length mt)%nat &&
  forallb (fun w => if (N.to_nat (pl_ver p) <? w)%nat then tau <=? nth (w - 1) mt 0 else true)
          (seq 1 (length mt)).
Fixpoint prefixes {A} (l : list A) : list (list A) :=
  match l with [] => [[]] | x :: r => [] :: map (cons x) (prefixes r) end.
Definition chk_history (ttl tick t0 : Z) (evs : list ivl) (ops : list cop) : bool :=
  forallb (fun pre => let g := vrun false ttl tick t0 evs pre in
                      stamp_chk (R_ver_b (snd g)) (sink (r_state (fst g))) (cover (r_state (fst g))))
          (prefixes ops).
Definition chk_evs : list ivl :=
  [mkI (Some 5) (Some 15) (Rich 1000); mkI (Some 2) (Some 30) (Rich 2000);
   mkI None (Some 8) (Rich 3000); mkI (Some 18) None (Rich 4000)].
Definition chk_ops : list cop :=
  [CQuery 0 10 false; CMutate; CQuery 20 30 false; CMutate; CAdvance 2; CQuery 5 25 true; CMutate;
   CAdvance 7; CQuery 0 40 false; CMutate; CAdvance 3; CQuery (-5) 50 false; CMutate; CAdvance 9;
   CQuery (-5) 50 false].

Example sanity_histories :
  chk_history 10 1 0 chk_evs chk_ops = true /\ chk_history 10 0 0 chk_evs chk_ops = true /\
  chk_history 5 1 0 chk_evs chk_ops = true /\ chk_history 3 2 0 chk_evs chk_ops = true /\
  chk_history 10 1 0 d14_evs (d14_ops ++ [CQuery 10 20 false; CMutate; CQuery 0 30 false]) = true.
Proof. vm_compute. repeat split; reflexivity. Qed.

(* the clock-stamping source on a query with two gaps (tick 1: the two fetches have different
   readings, 3 and 4): the event of key 2 is stitched across the three segments and ends with
   the stamp of the last fetch; the event of key 1 keeps the stamp 3 of the fetch of [0,10) *)
Definition stamping_cquery (ttl tick : Z) (evs : list ivl) (s : cstate) (a b : Z) (rv : bool) :=
  cquery false ttl tick
         (stamping_src evs (snd (cquery false ttl tick (fun _ _ => []) s a b rv))) s a b rv.
Definition two_evs : list ivl := d14_evs ++ [mkI (Some 22) (Some 28) (Rich 3000)].
Definition two_y1 := stamping_cquery 10 1 two_evs (cinit 0) 10 20 false.
Definition two_y2 := stamping_cquery 10 1 two_evs (fst (fst two_y1)) 0 30 false.

Example two_keyed : keyed_src two_evs.
Proof.
  split.
  - intros e [<-|[<-|[<-|[]]]]; discriminate.
  - assert (E : map key_of two_evs = [Some 1%N; Some 2%N; Some 3%N]) by (vm_compute; reflexivity).
    rewrite E. repeat constructor; simpl; intuition discriminate.
Qed.

Example stamping_two_gaps :
  snd two_y2 = [(3, 0, 10); (4, 20, 30)] /\
  snd (fst two_y2) = [Iv 2 30 2004; Iv 5 15 1003; Iv 22 28 3004] /\
  cover (fst (fst two_y2)) = [mkCov 0 10 3; mkCov 10 20 1; mkCov 20 30 4] /\
  reach (R_stamp sp_ver 0) 10 1 (fst (fst two_y2)) /\
  (forall f c, In f (sink (fst (fst two_y2))) -> In c (cover (fst (fst two_y2))) -> ovl f c ->
               cv_t c <= sp_ver (pl f) + 0).
Proof.
  assert (B : forall x : Z, (-100 < x -> NEG_INF < x) /\ (x < 100 -> x < POS_INF)).
  { intro x. unfold NEG_INF, POS_INF. lia. }
  assert (R1 : reach (R_stamp sp_ver 0) 10 1 (fst (fst two_y1))).
  { apply (reach_stamping two_evs 10 1 (cinit 0) 10 20 false two_keyed); try lia; try (apply B; lia).
    - apply reach_init.
    - intros t gs ge Hl. vm_compute in Hl. destruct Hl as [E|[]]. inversion E. split; [lia|reflexivity]. }
  assert (R2 : reach (R_stamp sp_ver 0) 10 1 (fst (fst two_y2))).
  { apply (reach_stamping two_evs 10 1 (fst (fst two_y1)) 0 30 false two_keyed); try lia; try (apply B; lia).
    - exact R1.
    - intros t gs ge Hl. vm_compute in Hl. destruct Hl as [E|[E|[]]]; inversion E; split; try lia; reflexivity. }
  repeat (split; [vm_compute; reflexivity|]). split; [exact R2|].
  apply (stamp_inv_reachable sp_ver 0 10 1); [lia|lia|exact R2].
Qed.

Print Assumptions stitch_wf.
Print Assumptions stitch_stamp.
Print Assumptions cquery_cinv.
Print Assumptions staleness_after_evict.
Print Assumptions staleness_of_output.
Print Assumptions C10_staleness_stamped.
Print Assumptions C10_staleness_stamped_output.
Print Assumptions vinv_reachable.
Print Assumptions C10_stale_version_segment.
Print Assumptions C10_staleness_versions.
Print Assumptions C10_staleness_versions_evicted.
Print Assumptions C10_change_visible.
Print Assumptions d14_change_visible.
Print Assumptions d14_stale_but_young.
Print Assumptions d14_wrong_side.
Print Assumptions d14_exact_stamps.
Print Assumptions d14_evicted.
Print Assumptions reach_inv.
Print Assumptions stamp_inv_reachable.
Print Assumptions C10_staleness.
Print Assumptions C10_staleness_output.
Print Assumptions stamping_src_query.
Print Assumptions reach_stamping.
Print Assumptions stamping_two_gaps.
