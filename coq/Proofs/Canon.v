(* Proofs/Canon.v — canonical masks are unique, and the consequences for the complement sweep:
   complementing a canonical mask twice gives it back, triple complement = complement, and
   flatten (= complement twice) is idempotent.
   Instants are integers: two lists of positive-length intervals with the same coverage need not
   have the same spans when intervals may touch ([0,5),[5,9) vs [0,9)); strict separation
   (fend x < fstart y) is exactly what makes the representation unique. *)
From CG Require Import Proofs.Defs Proofs.Compl.

Definition spans (l : list ivl) : list (Z * Z) := map (fun i => (fstart i, fend i)) l.

Definition pos_all (l : list ivl) : Prop := forall x, In x l -> fstart x < fend x.

Lemma pos_all_tail x l : pos_all (x :: l) -> pos_all l.
Proof. intros H y Hy. apply H. right; exact Hy. Qed.

(* nothing after x (strictly separated from x) covers an instant <= fend x *)
Lemma sep_not_cover x r t :
  (forall y, In y r -> fend x < fstart y) -> t <= fend x -> covers r t = false.
Proof.
  intros H Ht. apply covers_false_iff. intros y Hy. specialize (H y Hy). unfold inside. lia.
Qed.

(* ---------- uniqueness of the spans ---------- *)
Theorem canonical_unique_spans : forall l1 l2,
  pos_all l1 -> pos_all l2 -> separatedP l1 -> separatedP l2 ->
  (forall t, covers l1 t = covers l2 t) ->
  spans l1 = spans l2.
Proof.
  induction l1 as [|x r1 IH]; intros [|y r2] P1 P2 S1 S2 HC.
  - reflexivity.
  - exfalso. specialize (HC (fstart y)). rewrite covers_nil, covers_cons in HC.
    specialize (P2 y (or_introl eq_refl)). unfold inside in HC. lia.
  - exfalso. specialize (HC (fstart x)). rewrite covers_nil, covers_cons in HC.
    specialize (P1 x (or_introl eq_refl)). unfold inside in HC. lia.
  - destruct S1 as [S1h S1t]. destruct S2 as [S2h S2t].
    assert (Px : fstart x < fend x) by (apply P1; left; reflexivity).
    assert (Py : fstart y < fend y) by (apply P2; left; reflexivity).
    assert (Es : fstart x = fstart y).
    { destruct (Z.lt_trichotomy (fstart x) (fstart y)) as [L|[E|L]]; [exfalso|exact E|exfalso].
      - specialize (HC (fstart x)). rewrite !covers_cons in HC.
        rewrite (sep_not_cover y r2 (fstart x)) in HC by (auto; lia). unfold inside in HC. lia.
      - specialize (HC (fstart y)). rewrite !covers_cons in HC.
        rewrite (sep_not_cover x r1 (fstart y)) in HC by (auto; lia). unfold inside in HC. lia. }
    assert (Ee : fend x = fend y).
    { destruct (Z.lt_trichotomy (fend x) (fend y)) as [L|[E|L]]; [exfalso|exact E|exfalso].
      - specialize (HC (fend x)). rewrite !covers_cons in HC.
        rewrite (sep_not_cover x r1 (fend x)) in HC by (auto; lia). unfold inside in HC. lia.
      - specialize (HC (fend y)). rewrite !covers_cons in HC.
        rewrite (sep_not_cover y r2 (fend y)) in HC by (auto; lia). unfold inside in HC. lia. }
    unfold spans. cbn [map]. f_equal; [rewrite Es, Ee; reflexivity|].
    apply IH; [eapply pos_all_tail, P1|eapply pos_all_tail, P2|exact S1t|exact S2t|].
    intros t. specialize (HC t). rewrite !covers_cons in HC.
    destruct (Z_le_gt_dec t (fend x)) as [Ht|Ht].
    + rewrite (sep_not_cover x r1 t), (sep_not_cover y r2 t); auto; lia.
    + unfold inside in HC. lia.
Qed.

(* the counterexample that strict separation excludes *)
Example touching_not_unique :
  let l1 := [mkI (Some 0) (Some 5) Plain; mkI (Some 5) (Some 9) Plain] in
  let l2 := [mkI (Some 0) (Some 9) Plain] in
  (forall t, covers l1 t = covers l2 t) /\ disjoint_sorted l1 /\ spans l1 <> spans l2.
Proof.
  cbv zeta. split; [|split].
  - intro t. unfold covers, inside, fstart, fend; simpl. lia.
  - simpl. split; [|split; [intros ? []|exact I]]. intros y [<-|[]]. unfold fstart, fend; simpl. lia.
  - discriminate.
Qed.

(* the same inside a window: coverage only has to agree on the window *)
Definition in_win (lo hi : Z) (l : list ivl) : Prop :=
  forall x, In x l -> lo <= fstart x /\ fstart x < fend x /\ fend x <= hi.

Lemma in_win_outside lo hi l t : in_win lo hi l -> ~ (lo <= t < hi) -> covers l t = false.
Proof.
  intros H Ht. apply covers_false_iff. intros x Hx. specialize (H x Hx). unfold inside. lia.
Qed.

Theorem canonical_unique_win lo hi l1 l2 :
  in_win lo hi l1 -> in_win lo hi l2 -> separatedP l1 -> separatedP l2 ->
  (forall t, lo <= t < hi -> covers l1 t = covers l2 t) ->
  spans l1 = spans l2.
Proof.
  intros W1 W2 S1 S2 HC. apply canonical_unique_spans; auto.
  - intros x Hx. apply W1 in Hx. lia.
  - intros x Hx. apply W2 in Hx. lia.
  - intros t. destruct (Z_le_gt_dec lo t) as [A|A]; [destruct (Z_lt_ge_dec t hi) as [B|B]|].
    + apply HC. lia.
    + rewrite (in_win_outside lo hi l1 t), (in_win_outside lo hi l2 t); auto; lia.
    + rewrite (in_win_outside lo hi l1 t), (in_win_outside lo hi l2 t); auto; lia.
Qed.

(* ---------- from spans to the lists themselves ---------- *)
(* plain, and None exactly on an unbounded side *)
Definition enc_ok (i : ivl) : Prop :=
  pl i = Plain /\ (st i = None <-> fstart i = NEG_INF) /\ (en i = None <-> fend i = POS_INF).

Lemma enc_ok_ext x y :
  enc_ok x -> enc_ok y -> fstart x = fstart y -> fend x = fend y -> x = y.
Proof.
  destruct x as [s1 e1 p1], y as [s2 e2 p2]. unfold enc_ok, fstart, fend. cbn [st en pl].
  intros (-> & [A1 A2] & [A3 A4]) (-> & [B1 B2] & [B3 B4]) Hs He. f_equal.
  - destruct s1 as [z1|], s2 as [z2|]; try reflexivity.
    + subst. reflexivity.
    + exfalso. specialize (A2 Hs). discriminate.
    + exfalso. symmetry in Hs. specialize (B2 Hs). discriminate.
  - destruct e1 as [z1|], e2 as [z2|]; try reflexivity.
    + subst. reflexivity.
    + exfalso. specialize (A4 He). discriminate.
    + exfalso. symmetry in He. specialize (B4 He). discriminate.
Qed.

Lemma spans_eq_list : forall l1 l2,
  (forall x, In x l1 -> enc_ok x) -> (forall x, In x l2 -> enc_ok x) ->
  spans l1 = spans l2 -> l1 = l2.
Proof.
  induction l1 as [|x r1 IH]; intros [|y r2] E1 E2 H; try discriminate; [reflexivity|].
  unfold spans in H. cbn [map] in H. injection H as Hs He Hr. f_equal.
  - apply enc_ok_ext; auto; [apply E1|apply E2]; left; reflexivity.
  - apply IH; auto; intros z Hz; [apply E1|apply E2]; right; exact Hz.
Qed.

(* Prop-level canonical: every element a good_gap of the window, strictly separated *)
Definition canonP (lo hi : Z) (l : list ivl) : Prop :=
  (forall g, In g l -> good_gap lo hi g) /\ separatedP l.

Lemma good_gap_enc lo hi g : good_gap lo hi g -> enc_ok g.
Proof. intros (Hp & _ & _ & _ & Hs & He). unfold enc_ok. auto. Qed.

Lemma canonP_in_win lo hi l : canonP lo hi l -> in_win lo hi l.
Proof. intros [H _] x Hx. destruct (H x Hx) as (_ & A & B & C & _). auto. Qed.

Theorem canonical_unique lo hi l1 l2 :
  canonP lo hi l1 -> canonP lo hi l2 ->
  (forall t, lo <= t < hi -> covers l1 t = covers l2 t) ->
  l1 = l2.
Proof.
  intros C1 C2 HC. apply spans_eq_list.
  - intros x Hx. eapply good_gap_enc, (proj1 C1), Hx.
  - intros x Hx. eapply good_gap_enc, (proj1 C2), Hx.
  - apply (canonical_unique_win lo hi); auto using canonP_in_win; [apply C1|apply C2].
Qed.

(* ---------- the boolean oracle of Spec/Sets.v says the same ---------- *)
Lemma separated_P l : pos_all l -> separated l = true -> separatedP l.
Proof.
  induction l as [|x r IH]; [simpl; tauto|]. intros Hp Hs.
  destruct r as [|y r']; [simpl; split; [intros ? []|exact I]|].
  change (separated (x :: y :: r')) with ((fend x <? fstart y) && separated (y :: r')) in Hs.
  apply andb_true_iff in Hs as [H1 H2].
  assert (IH' := IH (pos_all_tail _ _ Hp) H2).
  split; [|exact IH']. intros z [<-|Hz]; [lia|].
  destruct IH' as [H3 _]. specialize (H3 z Hz).
  assert (fstart y < fend y) by (apply Hp; right; left; reflexivity). lia.
Qed.

Theorem canonical_canonP a b l :
  canonical a b l = true -> canonP (bnd_lo a) (bnd_hi b) l.
Proof.
  unfold canonical. rewrite andb_true_iff, forallb_forall. intros [HF HS].
  assert (G : forall g, In g l -> good_gap (bnd_lo a) (bnd_hi b) g).
  { intros g Hg. specialize (HF g Hg).
    unfold is_plain, pos_len, in_window, no_sentinel in HF.
    rewrite !andb_true_iff in HF. destruct HF as [[[Hp Hl] [Hw1 Hw2]] [[[N1 N2] _] _]].
    unfold good_gap. split; [destruct (pl g); [reflexivity|discriminate]|].
    split; [lia|]. split; [lia|]. split; [lia|]. split; split.
    - intro E. unfold fstart. rewrite E. reflexivity.
    - intro E. destruct (st g) as [z|] eqn:Es; [|reflexivity]. exfalso.
      unfold fstart in E. rewrite Es in E. subst z. cbn [oZ_eqb] in N1. rewrite Z.eqb_refl in N1. discriminate.
    - intro E. unfold fend. rewrite E. reflexivity.
    - intro E. destruct (en g) as [z|] eqn:Es; [|reflexivity]. exfalso.
      unfold fend in E. rewrite Es in E. subst z. cbn [oZ_eqb] in N2. rewrite Z.eqb_refl in N2. discriminate. }
  split; [exact G|]. apply separated_P; [|exact HS].
  intros x Hx. destruct (G x Hx) as (_ & _ & H & _). exact H.
Qed.

Theorem canonP_canonical a b l :
  NEG_INF <= bnd_lo a -> bnd_hi b <= POS_INF ->
  canonP (bnd_lo a) (bnd_hi b) l -> canonical a b l = true.
Proof.
  intros B1 B2 [G S]. unfold canonical. rewrite (separatedP_separated _ S), andb_true_r.
  apply forallb_forall. intros g Hg. apply good_gap_oracle; auto.
Qed.

(* two canonical masks (in the sense of the executable oracle) with the same coverage on the
   window are the same list *)
Corollary canonical_unique_oracle a b l1 l2 :
  canonical a b l1 = true -> canonical a b l2 = true ->
  (forall t, bnd_lo a <= t < bnd_hi b -> covers l1 t = covers l2 t) ->
  l1 = l2.
Proof.
  intros C1 C2. apply canonical_unique; apply canonical_canonP; assumption.
Qed.

(* ---------- consequences for the complement sweep ---------- *)
Lemma canonP_wf_sorted a b l :
  wf_win a b -> canonP (bnd_lo a) (bnd_hi b) l -> Forall wf_ivl l /\ sorted_start l.
Proof.
  intros Hw [G S]. pose proof (wf_win_bounds a b Hw) as [B1 B2]. split.
  - apply Forall_forall. intros g Hg. destruct (G g Hg) as (_ & A & B & C & _).
    unfold wf_ivl. lia.
  - assert (P : pos_all l) by (intros g Hg; destruct (G g Hg) as (_ & _ & B & _); exact B).
    clear G. induction l as [|x r IH]; simpl; [exact I|]. destruct S as [S1 S2]. split.
    + intros y Hy. specialize (S1 y Hy). specialize (P x (or_introl eq_refl)). lia.
    + apply IH; [exact S2|]. eapply pos_all_tail, P.
Qed.

Lemma compl_canonP xs a b :
  wf_win a b -> Forall wf_ivl xs -> sorted_start xs ->
  canonP (bnd_lo a) (bnd_hi b) (compl_sweep xs a b).
Proof.
  intros Hw Hwf Hs. destruct (compl_sweep_spec xs a b Hw Hwf Hs) as (G & S & _). split; assumption.
Qed.

(* the output of the complement sweep can be fed to another sweep *)
Theorem compl_out_wf_sorted xs a b :
  wf_win a b -> Forall wf_ivl xs -> sorted_start xs ->
  Forall wf_ivl (compl_sweep xs a b) /\ sorted_start (compl_sweep xs a b).
Proof.
  intros Hw Hwf Hs. apply (canonP_wf_sorted a b); [exact Hw|]. apply compl_canonP; assumption.
Qed.

Lemma compl_cover xs a b t :
  wf_win a b -> Forall wf_ivl xs -> sorted_start xs -> bnd_lo a <= t < bnd_hi b ->
  covers (compl_sweep xs a b) t = negb (covers xs t).
Proof.
  intros Hw Hwf Hs Ht. destruct (compl_sweep_spec xs a b Hw Hwf Hs) as (_ & _ & C). apply C, Ht.
Qed.

(* flatten (complement twice) preserves coverage on the window *)
Theorem flatten_cover xs a b t :
  wf_win a b -> Forall wf_ivl xs -> sorted_start xs -> bnd_lo a <= t < bnd_hi b ->
  covers (compl_sweep (compl_sweep xs a b) a b) t = covers xs t.
Proof.
  intros Hw Hwf Hs Ht. destruct (compl_out_wf_sorted xs a b Hw Hwf Hs) as [W1 S1].
  rewrite compl_cover, compl_cover, negb_involutive; auto.
Qed.

(* complementing a canonical mask twice gives it back *)
Theorem compl_compl_canonical ys a b :
  wf_win a b -> canonP (bnd_lo a) (bnd_hi b) ys ->
  compl_sweep (compl_sweep ys a b) a b = ys.
Proof.
  intros Hw Hc. destruct (canonP_wf_sorted a b ys Hw Hc) as [W0 S0].
  destruct (compl_out_wf_sorted ys a b Hw W0 S0) as [W1 S1].
  apply (canonical_unique (bnd_lo a) (bnd_hi b)).
  - apply compl_canonP; assumption.
  - exact Hc.
  - intros t Ht. apply flatten_cover; assumption.
Qed.

Corollary compl_compl_canonical_oracle ys a b :
  wf_win a b -> canonical a b ys = true ->
  compl_sweep (compl_sweep ys a b) a b = ys.
Proof. intros Hw Hc. apply compl_compl_canonical; [exact Hw|]. apply canonical_canonP, Hc. Qed.

(* triple complement = complement *)
Theorem compl_triple xs a b :
  wf_win a b -> Forall wf_ivl xs -> sorted_start xs ->
  compl_sweep (compl_sweep (compl_sweep xs a b) a b) a b = compl_sweep xs a b.
Proof.
  intros Hw Hwf Hs. apply compl_compl_canonical; [exact Hw|]. apply compl_canonP; assumption.
Qed.

(* flatten is idempotent *)
Theorem flatten_idempotent xs a b :
  wf_win a b -> Forall wf_ivl xs -> sorted_start xs ->
  let flat l := compl_sweep (compl_sweep l a b) a b in
  flat (flat xs) = flat xs.
Proof.
  intros Hw Hwf Hs. cbv beta zeta. rewrite (compl_triple xs a b) by assumption. reflexivity.
Qed.

(* flatten of an already canonical mask is the mask; flatten's output is canonical *)
Theorem flatten_canonical xs a b :
  wf_win a b -> Forall wf_ivl xs -> sorted_start xs ->
  canonical a b (compl_sweep (compl_sweep xs a b) a b) = true.
Proof.
  intros Hw Hwf Hs. destruct (compl_out_wf_sorted xs a b Hw Hwf Hs) as [W1 S1].
  apply compl_sweep_canonical; assumption.
Qed.

(* the flattened stream is THE canonical mask of the source's coverage: any canonical list with the
   source's coverage on the window equals it *)
Theorem flatten_characterised xs ys a b :
  wf_win a b -> Forall wf_ivl xs -> sorted_start xs ->
  canonical a b ys = true ->
  (forall t, bnd_lo a <= t < bnd_hi b -> covers ys t = covers xs t) ->
  compl_sweep (compl_sweep xs a b) a b = ys.
Proof.
  intros Hw Hwf Hs Hc HC. destruct (compl_out_wf_sorted xs a b Hw Hwf Hs) as [W1 S1].
  apply (canonical_unique (bnd_lo a) (bnd_hi b)).
  - apply compl_canonP; assumption.
  - apply canonical_canonP, Hc.
  - intros t Ht. rewrite flatten_cover by assumption. symmetry. apply HC, Ht.
Qed.

Print Assumptions canonical_unique_spans.
Print Assumptions canonical_unique_win.
Print Assumptions canonical_unique.
Print Assumptions canonical_unique_oracle.
Print Assumptions canonical_canonP.
Print Assumptions compl_out_wf_sorted.
Print Assumptions compl_compl_canonical.
Print Assumptions compl_compl_canonical_oracle.
Print Assumptions compl_triple.
Print Assumptions flatten_idempotent.
Print Assumptions flatten_cover.
Print Assumptions flatten_characterised.
Print Assumptions touching_not_unique.
