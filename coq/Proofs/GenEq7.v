(* Proofs/GenEq7.v — tie C for calgebra/core.py Timeline._coerce_bound and Timeline.__getitem__ (the
   definitions generated from their source text, Gen/Source.v: a `match` on the kind of bound / step
   whose arms keep the branch of the source that runs for that kind) against Model/Slice.v
   (coerce_bound, check_step, getitem) and Model/Expr.v (norm_bounds, slice).
   The timeline's own fetch and the fetch of the clipped timeline `self & solid` are function
   parameters; the theorems instantiate them with the model's fetch of e and of and_ e Solid. *)
From CG Require Import Model.Slice Model.Loop Model.Recur Gen.Source.
From Coq Require Import Lia.

(* the error type of Model/Slice.v inside the result type of the generated definitions *)
Definition lift_err {A : Type} (x : pyerr + A) : res A :=
  match x with
  | inl Slice.TypeError => RRaise Loop.TypeError
  | inl Slice.ValueError => RRaise Loop.ValueError
  | inr a => RDone a
  end.

Theorem g_coerce_bound_eq : forall b, g_coerce_bound b = lift_err (coerce_bound b).
Proof. intros []; reflexivity. Qed.
Print Assumptions g_coerce_bound_eq.

Lemma res_bind_lift {A B : Type} (x : pyerr + A) (k : A -> res B) :
  res_bind (lift_err x) k = match x with inl e => lift_err (inl e) | inr a => k a end.
Proof. destruct x as [[]|a]; reflexivity. Qed.

(* the swap of the bounds in the source = norm_bounds *)
Lemma swap_is_norm (a b : option Z) :
  (if negb (is_none a) && negb (is_none b) && (ozd a >? ozd b) then (b, a) else (a, b)) = norm_bounds a b.
Proof.
  unfold norm_bounds. destruct a as [x|], b as [y|]; cbn [is_none negb andb ozd]; try reflexivity.
Qed.

(* HEADLINE *)
Theorem g_getitem_eq : forall self_fetch clipped_fetch a b s,
  g_getitem self_fetch clipped_fetch a b s =
  match coerce_bound a with
  | inl x => lift_err (inl x)
  | inr a' =>
    match coerce_bound b with
    | inl x => lift_err (inl x)
    | inr b' =>
      match check_step s with
      | inl x => lift_err (inl x)
      | inr rv =>
        let '(a2, b2) := norm_bounds a' b' in
        RDone (match a2, b2 with
               | None, None => self_fetch None None rv
               | _, _ => clipped_fetch a2 b2 rv
               end)
      end
    end
  end.
Proof.
  intros sf cf a b s. unfold g_getitem.
  rewrite !g_coerce_bound_eq, res_bind_lift.
  destruct (coerce_bound a) as [ea|a']; [reflexivity|].
  rewrite res_bind_lift.
  destruct (coerce_bound b) as [eb|b']; [reflexivity|].
  cbv zeta.
  destruct s as [|z|]; cbn [check_step].
  - (* step None *)
    rewrite swap_is_norm.
    destruct (norm_bounds a' b') as [a2 b2]. destruct a2, b2; reflexivity.
  - (* an int step *)
    unfold zmem. cbn [existsb orb].
    destruct (z =? 1) eqn:E1.
    + apply Z.eqb_eq in E1. subst z. cbn [negb orb Z.eqb].
      rewrite swap_is_norm.
      destruct (norm_bounds a' b') as [a2 b2]. destruct a2, b2; reflexivity.
    + destruct (z =? -1) eqn:E2; cbn [negb orb]; [|reflexivity].
      rewrite swap_is_norm.
      destruct (norm_bounds a' b') as [a2 b2]. destruct a2, b2; reflexivity.
  - reflexivity.
Qed.
Print Assumptions g_getitem_eq.

(* the same, as an equation with the model's getitem *)
Theorem g_getitem_is_model : forall env e a b s,
  g_getitem (fetch env e) (fetch env (and_ e Solid)) a b s = lift_err (getitem env e a b s).
Proof.
  intros env e a b s. rewrite g_getitem_eq. unfold getitem.
  destruct (coerce_bound a) as [ea|a']; [reflexivity|].
  destruct (coerce_bound b) as [eb|b']; [reflexivity|].
  destruct (check_step s) as [es|rv]; [reflexivity|].
  unfold slice, lift_err. destruct (norm_bounds a' b') as [a2 b2]. destruct a2, b2; reflexivity.
Qed.
Print Assumptions g_getitem_is_model.

(* concrete runs: a naive datetime is a TypeError, step 2 a ValueError, swapped bounds are normalised
   and clipped, the fully open slice is not clipped *)
Example g_getitem_examples :
  let sf := fun (_ _ : option Z) (_ : bool) => [mkI None None (Rich 1)] in
  let cf := fun (a b : option Z) (rv : bool) => [mkI a b (if rv then Rich 2 else Rich 3)] in
  g_getitem sf cf BNaive BNone SNone = RRaise Loop.TypeError /\
  g_getitem sf cf BNone BOther SNone = RRaise Loop.TypeError /\
  g_getitem sf cf BNone BNone (SInt 2) = RRaise Loop.ValueError /\
  g_getitem sf cf BNone BNone SOther = RRaise Loop.ValueError /\
  g_getitem sf cf (BInt 9) (BAware 3 0) (SInt (-1)) = RDone [mkI (Some 3) (Some 9) (Rich 2)] /\
  g_getitem sf cf (BInt 0) BNone SNone = RDone [mkI (Some 0) None (Rich 3)] /\
  g_getitem sf cf BNone BNone (SInt 1) = RDone [mkI None None (Rich 1)].
Proof. vm_compute. repeat split. Qed.
