(* Proofs/RefSpec.v — facts about the reference semantics of Spec/Sets.v (no sweeps involved):
   coverage of sub1 / minus_runs, shape of the fragments of minus_runs, coverage and locality of
   window clipping (C05 at spec level), and soundness/completeness of the multiset comparison. *)
From CG Require Import Proofs.Defs.

(* ---------- set_span bookkeeping ---------- *)
Lemma fstart_span_st i b : fstart (set_span i (st i) b) = fstart i.
Proof. reflexivity. Qed.
Lemma fstart_span_some i z b : fstart (set_span i (Some z) b) = z.
Proof. reflexivity. Qed.
Lemma fend_span_en i a : fend (set_span i a (en i)) = fend i.
Proof. reflexivity. Qed.
Lemma fend_span_some i a z : fend (set_span i a (Some z)) = z.
Proof. reflexivity. Qed.
Lemma pl_span i a b : pl (set_span i a b) = pl i.
Proof. reflexivity. Qed.

(* ---------- one hole ---------- *)
(* no hypothesis on f or h at all: zero-length and inverted holes are ignored by sub1 *)
Theorem sub1_cover f h t :
  covers (sub1 f h) t = inside f t && negb (inside h t && pos_len h).
Proof.
  unfold sub1.
  destruct ((fend h <=? fstart f) || (fend f <=? fstart h) || negb (pos_len h)) eqn:E.
  - rewrite covers_cons, covers_nil. unfold inside, pos_len in *. lia.
  - destruct (fstart f <? fstart h) eqn:E1; destruct (fend h <? fend f) eqn:E2; cbn [app];
      rewrite ?covers_cons, ?covers_nil; unfold inside, pos_len in *;
      rewrite ?fstart_span_st, ?fstart_span_some, ?fend_span_en, ?fend_span_some; lia.
Qed.

Corollary sub1_cover_pos f h t : pos_len h = true ->
  covers (sub1 f h) t = inside f t && negb (inside h t).
Proof. intro H. rewrite sub1_cover, H, andb_true_r. reflexivity. Qed.

(* ---------- all holes ---------- *)
Lemma covers_flat_map (g : ivl -> list ivl) l t :
  covers (flat_map g l) t = existsb (fun f => covers (g f) t) l.
Proof.
  induction l as [|x r IH]; [reflexivity|]. cbn [flat_map existsb]. rewrite covers_app, IH. reflexivity.
Qed.

Lemma covers_sub1_all frs h t :
  existsb (fun f => covers (sub1 f h) t) frs = covers frs t && negb (inside h t && pos_len h).
Proof.
  induction frs as [|f r IH]; [reflexivity|]. cbn [existsb]. rewrite IH, sub1_cover, covers_cons.
  destruct (inside f t), (covers r t), (inside h t && pos_len h); reflexivity.
Qed.

(* t lies in a hole of positive length *)
Definition in_hole (holes : list ivl) (t : Z) : bool :=
  existsb (fun h => inside h t && pos_len h) holes.

Lemma minus_fold_cover holes frs t :
  covers (fold_left (fun frs h => flat_map (fun f => sub1 f h) frs) holes frs) t =
  covers frs t && negb (in_hole holes t).
Proof.
  revert frs. induction holes as [|h r IH]; intros frs; cbn [fold_left in_hole existsb].
  - rewrite andb_true_r. reflexivity.
  - rewrite IH, covers_flat_map, covers_sub1_all. unfold in_hole.
    destruct (covers frs t), (inside h t && pos_len h), (existsb (fun h0 => inside h0 t && pos_len h0) r);
      reflexivity.
Qed.

Theorem minus_runs_cover_gen x holes t :
  covers (minus_runs x holes) t = inside x t && negb (in_hole holes t).
Proof.
  unfold minus_runs. rewrite minus_fold_cover, covers_cons, covers_nil, orb_false_r. reflexivity.
Qed.

Lemma in_hole_filter holes t : in_hole holes t = covers (filter pos_len holes) t.
Proof.
  induction holes as [|h r IH]; [reflexivity|]. cbn [in_hole existsb filter]. fold (in_hole r t).
  destruct (pos_len h); [rewrite covers_cons, IH, andb_true_r|rewrite IH, andb_false_r]; reflexivity.
Qed.

Lemma in_hole_pos holes t : forallb pos_len holes = true -> in_hole holes t = covers holes t.
Proof.
  induction holes as [|h r IH]; [reflexivity|]. cbn [forallb in_hole existsb]. fold (in_hole r t).
  intro H. apply andb_true_iff in H as [H1 H2]. rewrite covers_cons, IH, H1, andb_true_r by exact H2.
  reflexivity.
Qed.

Theorem minus_runs_cover_filter x holes t :
  covers (minus_runs x holes) t = inside x t && negb (covers (filter pos_len holes) t).
Proof. rewrite minus_runs_cover_gen, in_hole_filter. reflexivity. Qed.

Theorem minus_runs_cover x holes t : forallb pos_len holes = true ->
  covers (minus_runs x holes) t = inside x t && negb (covers holes t).
Proof. intro H. rewrite minus_runs_cover_gen, in_hole_pos by exact H. reflexivity. Qed.

(* the reference semantics filters stored events by pos_len, so Compl/Diff holes qualify *)
Corollary compl_ref_cover holes t : forallb pos_len holes = true ->
  covers (minus_runs full_line holes) t =
  (NEG_INF <=? t) && (t <? POS_INF) && negb (covers holes t).
Proof. intro H. rewrite minus_runs_cover by exact H. reflexivity. Qed.

(* ---------- shape of the fragments ---------- *)
(* g is a piece of f: same payload, inside f's span, positive length if f has *)
Definition within (f g : ivl) : Prop :=
  pl g = pl f /\ fstart f <= fstart g /\ fend g <= fend f /\ (pos_len f = true -> pos_len g = true).

Lemma within_refl f : within f f.
Proof. unfold within. repeat split; auto; lia. Qed.

Lemma within_trans f g k : within f g -> within g k -> within f k.
Proof.
  unfold within. intros (A1 & A2 & A3 & A4) (B1 & B2 & B3 & B4).
  repeat split; [congruence|lia|lia|auto].
Qed.

Lemma sub1_within f h g : In g (sub1 f h) -> within f g.
Proof.
  unfold sub1.
  destruct ((fend h <=? fstart f) || (fend f <=? fstart h) || negb (pos_len h)) eqn:E.
  - intros [<-|[]]. apply within_refl.
  - intro H. apply in_app_or in H as [H|H].
    + destruct (fstart f <? fstart h) eqn:E1; [|destruct H]. destruct H as [<-|[]].
      unfold within, pos_len in *.
      rewrite fstart_span_st, fend_span_some, pl_span. repeat split; lia.
    + destruct (fend h <? fend f) eqn:E2; [|destruct H]. destruct H as [<-|[]].
      unfold within, pos_len in *.
      rewrite fstart_span_some, fend_span_en, pl_span. repeat split; lia.
Qed.

Lemma sub1_separated f h : separatedP (sub1 f h).
Proof.
  unfold sub1.
  destruct ((fend h <=? fstart f) || (fend f <=? fstart h) || negb (pos_len h)) eqn:E.
  - simpl. split; [intros ? []|exact I].
  - destruct (fstart f <? fstart h) eqn:E1; destruct (fend h <? fend f) eqn:E2; cbn [app separatedP];
      try exact I; try (split; [intros ? []|exact I]).
    split; [|split; [intros ? []|exact I]].
    intros y [<-|[]]. rewrite fend_span_some, fstart_span_some. unfold pos_len in E. lia.
Qed.

Lemma separatedP_app l1 l2 :
  separatedP (l1 ++ l2) <->
  separatedP l1 /\ separatedP l2 /\ (forall x y, In x l1 -> In y l2 -> fend x < fstart y).
Proof.
  induction l1 as [|a l1 IH]; simpl.
  - split; [intro H; repeat split; auto; intros ? ? []|tauto].
  - rewrite IH. split.
    + intros (H1 & H2 & H3 & H4). repeat split; auto.
      * intros y Hy. apply H1, in_or_app. auto.
      * intros x y [<-|Hx] Hy; [apply H1, in_or_app; auto|apply H4; auto].
    + intros ((H1 & H2) & H3 & H4). repeat split; auto.
      intros y Hy. apply in_app_or in Hy as [Hy|Hy]; [apply H1|apply H4]; auto.
Qed.

Lemma flat_map_separated (k : ivl -> list ivl) frs :
  separatedP frs ->
  (forall f g, In g (k f) -> fstart f <= fstart g /\ fend g <= fend f) ->
  (forall f, separatedP (k f)) ->
  separatedP (flat_map k frs).
Proof.
  intros Hs Hin Hk. induction frs as [|f r IH]; simpl; [exact I|].
  destruct Hs as [H1 H2]. apply separatedP_app. split; [apply Hk|]. split; [apply IH, H2|].
  intros x y Hx Hy. apply in_flat_map in Hy as [f2 [Hf2 Hy]].
  destruct (Hin f x Hx) as [_ A]. destruct (Hin f2 y Hy) as [B _]. specialize (H1 f2 Hf2). lia.
Qed.

Lemma minus_fold_shape x holes : forall frs,
  (forall f, In f frs -> within x f) -> separatedP frs ->
  let out := fold_left (fun frs h => flat_map (fun f => sub1 f h) frs) holes frs in
  (forall f, In f out -> within x f) /\ separatedP out.
Proof.
  induction holes as [|h r IH]; intros frs Hw Hs; cbn [fold_left]; [split; assumption|].
  apply IH.
  - intros g Hg. apply in_flat_map in Hg as [f [Hf Hg]].
    eapply within_trans; [apply Hw, Hf|apply (sub1_within f h), Hg].
  - apply flat_map_separated; [exact Hs| |intro f; apply sub1_separated].
    intros f g Hg. apply sub1_within in Hg. destruct Hg as (_ & A & B & _). split; assumption.
Qed.

(* fragments of x minus the holes: x's payload, inside x, and strictly separated — for every x and
   every list of holes (unsorted, overlapping, degenerate) *)
Theorem minus_runs_shape x holes :
  (forall f, In f (minus_runs x holes) -> within x f) /\ separatedP (minus_runs x holes).
Proof.
  unfold minus_runs. apply minus_fold_shape.
  - intros f [<-|[]]. apply within_refl.
  - simpl. split; [intros ? []|exact I].
Qed.

Corollary minus_runs_payload x holes f : In f (minus_runs x holes) -> pl f = pl x.
Proof. intro H. apply (proj1 (minus_runs_shape x holes)) in H. apply H. Qed.

Lemma separatedP_disjoint l : separatedP l -> disjoint_sorted l.
Proof.
  induction l as [|x r IH]; simpl; [tauto|]. intros [H1 H2]. split; [|auto].
  intros y Hy. specialize (H1 y Hy). lia.
Qed.

Lemma separatedP_sorted l :
  (forall x, In x l -> pos_len x = true) -> separatedP l -> sorted_start l.
Proof.
  induction l as [|x r IH]; simpl; [tauto|]. intros Hp [H1 H2]. split.
  - intros y Hy. specialize (H1 y Hy). specialize (Hp x (or_introl eq_refl)). unfold pos_len in Hp. lia.
  - apply IH; [|exact H2]. intros y Hy. apply Hp. right; exact Hy.
Qed.

Corollary minus_runs_disjoint x holes : disjoint_sorted (minus_runs x holes).
Proof. apply separatedP_disjoint, minus_runs_shape. Qed.

Corollary minus_runs_sorted x holes : pos_len x = true -> sorted_start (minus_runs x holes).
Proof.
  intro Hx. destruct (minus_runs_shape x holes) as [H1 H2]. apply separatedP_sorted; [|exact H2].
  intros f Hf. apply H1 in Hf. destruct Hf as (_ & _ & _ & H). apply H, Hx.
Qed.

Corollary minus_runs_pos_len x holes f :
  pos_len x = true -> In f (minus_runs x holes) -> pos_len f = true.
Proof. intros Hx Hf. apply (proj1 (minus_runs_shape x holes)) in Hf. apply Hf, Hx. Qed.

(* ---------- clipping ---------- *)
(* coverage of a clipped event: any window, any event *)
Theorem clipW_cover a b i t : covers (clipW a b i) t = inside i t && inw a b t.
Proof.
  unfold clipW. cbv zeta.
  destruct (Z.max (fstart i) (bnd_lo a) <? Z.min (fend i) (bnd_hi b)) eqn:E.
  - rewrite covers_cons, covers_nil. unfold inside, inw, set_span. rewrite fstart_unS, fend_unE. lia.
  - rewrite covers_nil. unfold inside, inw. lia.
Qed.

Corollary clip_all_cover a b l t : covers (flat_map (clipW a b) l) t = covers l t && inw a b t.
Proof.
  induction l as [|x r IH]; [reflexivity|]. cbn [flat_map]. rewrite covers_app, IH, clipW_cover, covers_cons.
  destruct (inside x t), (covers r t), (inw a b t); reflexivity.
Qed.

Corollary expected_cover env e a b t :
  covers (expected env e a b) t = covers (ref env e) t && inw a b t.
Proof. apply clip_all_cover. Qed.

Lemma clipW_shape a b i g : In g (clipW a b i) ->
  pl g = pl i /\ fstart g = Z.max (fstart i) (bnd_lo a) /\ fend g = Z.min (fend i) (bnd_hi b) /\
  fstart g < fend g /\ g = mkI (unS (fstart g)) (unE (fend g)) (pl i).
Proof.
  unfold clipW. cbv zeta.
  destruct (Z.max (fstart i) (bnd_lo a) <? Z.min (fend i) (bnd_hi b)) eqn:E; [|intros []].
  intros [<-|[]]. unfold set_span. rewrite fstart_unS, fend_unE. cbn [pl]. repeat split; lia.
Qed.

(* clipping to an inner window after clipping to an outer one = clipping to the inner one.
   No hypothesis on the encoding of the event is needed: clipW re-encodes both bounds from
   finite_start / finite_end (unS / unE), so it only depends on those and on the payload. *)
Theorem clipW_local a1 b1 a2 b2 i :
  bnd_lo a1 <= bnd_lo a2 -> bnd_hi b2 <= bnd_hi b1 ->
  flat_map (clipW a2 b2) (clipW a1 b1 i) = clipW a2 b2 i.
Proof.
  intros Hlo Hhi. unfold clipW at 2. cbv zeta.
  destruct (Z.max (fstart i) (bnd_lo a1) <? Z.min (fend i) (bnd_hi b1)) eqn:E1.
  - cbn [flat_map]. rewrite app_nil_r.
    set (i1 := set_span i (unS (Z.max (fstart i) (bnd_lo a1))) (unE (Z.min (fend i) (bnd_hi b1)))).
    assert (F1 : fstart i1 = Z.max (fstart i) (bnd_lo a1)) by apply fstart_unS.
    assert (F2 : fend i1 = Z.min (fend i) (bnd_hi b1)) by apply fend_unE.
    unfold clipW. cbv zeta. rewrite F1, F2. unfold set_span. change (pl i1) with (pl i).
    replace (Z.max (Z.max (fstart i) (bnd_lo a1)) (bnd_lo a2)) with (Z.max (fstart i) (bnd_lo a2)) by lia.
    replace (Z.min (Z.min (fend i) (bnd_hi b1)) (bnd_hi b2)) with (Z.min (fend i) (bnd_hi b2)) by lia.
    reflexivity.
  - cbn [flat_map]. unfold clipW. cbv zeta.
    destruct (Z.max (fstart i) (bnd_lo a2) <? Z.min (fend i) (bnd_hi b2)) eqn:E2; [lia|reflexivity].
Qed.

Lemma flat_map_flat_map {A B C} (f : A -> list B) (g : B -> list C) l :
  flat_map g (flat_map f l) = flat_map (fun x => flat_map g (f x)) l.
Proof.
  induction l as [|x r IH]; [reflexivity|]. cbn [flat_map]. rewrite flat_map_app, IH. reflexivity.
Qed.

Theorem clip_all_local a1 b1 a2 b2 l :
  bnd_lo a1 <= bnd_lo a2 -> bnd_hi b2 <= bnd_hi b1 ->
  flat_map (clipW a2 b2) (flat_map (clipW a1 b1) l) = flat_map (clipW a2 b2) l.
Proof.
  intros Hlo Hhi. rewrite flat_map_flat_map. apply flat_map_ext. intro i. apply clipW_local; assumption.
Qed.

(* C05 at spec level: the expected answer on a sub-window is the clipped expected answer on the
   enclosing window, as lists (same order, same multiplicities, same payloads) *)
Theorem expected_local env e a1 b1 a2 b2 :
  bnd_lo a1 <= bnd_lo a2 -> bnd_hi b2 <= bnd_hi b1 ->
  expected env e a2 b2 = flat_map (clipW a2 b2) (expected env e a1 b1).
Proof. intros Hlo Hhi. unfold expected. symmetry. apply clip_all_local; assumption. Qed.

(* clipping is idempotent *)
Corollary clip_all_idem a b l :
  flat_map (clipW a b) (flat_map (clipW a b) l) = flat_map (clipW a b) l.
Proof. apply clip_all_local; lia. Qed.

(* ---------- multiset comparison ---------- *)
Lemma oZ_eqb_eq a b : oZ_eqb a b = true <-> a = b.
Proof.
  destruct a as [x|], b as [y|]; simpl; split; intro H; try discriminate; try reflexivity.
  - apply Z.eqb_eq in H. subst. reflexivity.
  - injection H as ->. apply Z.eqb_refl.
Qed.

Lemma pl_eqb_eq a b : pl_eqb a b = true <-> a = b.
Proof.
  destruct a as [|x], b as [|y]; simpl; split; intro H; try discriminate; try reflexivity.
  - apply N.eqb_eq in H. subst. reflexivity.
  - injection H as ->. apply N.eqb_refl.
Qed.

Theorem ivl_eqb_eq a b : ivl_eqb a b = true <-> a = b.
Proof.
  destruct a as [s1 e1 p1], b as [s2 e2 p2]. unfold ivl_eqb. cbn [st en pl].
  rewrite !andb_true_iff, !oZ_eqb_eq, pl_eqb_eq. split.
  - intros [[-> ->] ->]. reflexivity.
  - intro H. injection H as -> -> ->. auto.
Qed.

Lemma ivl_eqb_refl a : ivl_eqb a a = true.
Proof. apply ivl_eqb_eq. reflexivity. Qed.

Lemma ivl_eqb_neq a b : ivl_eqb a b = false <-> a <> b.
Proof.
  split.
  - intros H E. apply ivl_eqb_eq in E. congruence.
  - intro H. destruct (ivl_eqb a b) eqn:E; [|reflexivity]. apply ivl_eqb_eq in E. contradiction.
Qed.

Lemma count_cons x y l :
  count_ivl x (y :: l) = ((if ivl_eqb x y then 1 else 0) + count_ivl x l)%nat.
Proof. unfold count_ivl. simpl. destruct (ivl_eqb x y); reflexivity. Qed.

Lemma count_app x l1 l2 : count_ivl x (l1 ++ l2) = (count_ivl x l1 + count_ivl x l2)%nat.
Proof. unfold count_ivl. rewrite filter_app, app_length. reflexivity. Qed.

Lemma count_pos_in x l : (0 < count_ivl x l)%nat -> In x l.
Proof.
  induction l as [|y r IH]; [unfold count_ivl; simpl; lia|]. rewrite count_cons.
  destruct (ivl_eqb x y) eqn:E.
  - apply ivl_eqb_eq in E. intros _. left. auto.
  - intro H. right. apply IH. lia.
Qed.

Lemma count_perm x l1 l2 : Permutation l1 l2 -> count_ivl x l1 = count_ivl x l2.
Proof.
  induction 1 as [|y l l' _ IH|y z l|l l' l'' _ IH1 _ IH2].
  - reflexivity.
  - rewrite !count_cons, IH. reflexivity.
  - rewrite !count_cons. lia.
  - congruence.
Qed.

Theorem mset_eqb_refl l : mset_eqb l l = true.
Proof.
  unfold mset_eqb. rewrite Nat.eqb_refl. simpl. apply forallb_forall. intros x _. apply Nat.eqb_refl.
Qed.

Lemma mset_perm_P : forall l1 l2,
  length l1 = length l2 ->
  (forall x, In x l1 -> count_ivl x l1 = count_ivl x l2) ->
  Permutation l1 l2.
Proof.
  induction l1 as [|x r IH]; intros l2 HL HC.
  - destruct l2; [constructor|discriminate].
  - assert (Hin : In x l2).
    { apply count_pos_in. rewrite <- HC by (left; reflexivity). rewrite count_cons, ivl_eqb_refl. lia. }
    apply in_split in Hin as (p & q & ->). apply Permutation_cons_app. apply IH.
    + rewrite app_length in *. simpl in HL. lia.
    + intros y Hy. specialize (HC y (or_intror Hy)).
      rewrite count_cons, !count_app, count_cons in HC. rewrite count_app. lia.
Qed.

Theorem mset_eqb_perm l1 l2 : mset_eqb l1 l2 = true -> Permutation l1 l2.
Proof.
  unfold mset_eqb. rewrite andb_true_iff, Nat.eqb_eq, forallb_forall. intros [HL HC].
  apply mset_perm_P; [exact HL|]. intros x Hx. apply Nat.eqb_eq, HC, Hx.
Qed.

Theorem perm_mset_eqb l1 l2 : Permutation l1 l2 -> mset_eqb l1 l2 = true.
Proof.
  intro P. unfold mset_eqb. rewrite andb_true_iff, Nat.eqb_eq, forallb_forall. split.
  - apply Permutation_length, P.
  - intros x _. apply Nat.eqb_eq, count_perm, P.
Qed.

Corollary mset_eqb_iff l1 l2 : mset_eqb l1 l2 = true <-> Permutation l1 l2.
Proof. split; [apply mset_eqb_perm|apply perm_mset_eqb]. Qed.

Print Assumptions sub1_cover.
Print Assumptions minus_runs_cover_gen.
Print Assumptions minus_runs_cover_filter.
Print Assumptions minus_runs_cover.
Print Assumptions minus_runs_shape.
Print Assumptions minus_runs_disjoint.
Print Assumptions minus_runs_sorted.
Print Assumptions clipW_cover.
Print Assumptions clipW_local.
Print Assumptions clip_all_local.
Print Assumptions expected_local.
Print Assumptions expected_cover.
Print Assumptions ivl_eqb_eq.
Print Assumptions mset_eqb_refl.
Print Assumptions mset_eqb_perm.
Print Assumptions mset_eqb_iff.
