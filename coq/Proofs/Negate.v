(* Proofs/Negate.v — time negation (core._neg / _negate_interval / _negate_stream), the device every
   reverse sweep uses: fetch reversed, negate, run the forward sweep, negate back.
   Results: negation is an involution; it swaps and negates the finite bounds for every interval
   (the sentinels are opposite); on instants it is the reflection t |-> -t-1 (NOT t |-> -t: the
   half-open [s,e) becomes [-e,-s), i.e. the set {-e,...,-s-1}); and the exact condition under which
   the negation of a descending stream is sorted by start: the ends must be non-increasing
   (no event may be nested in / outlasted by a later one). *)
From CG Require Import Proofs.Defs.

(* ---------- involution ---------- *)
Lemma sentinels_opp : NEG_INF = - POS_INF.
Proof. reflexivity. Qed.

Lemma sentinels_opp' : POS_INF = - NEG_INF.
Proof. reflexivity. Qed.

Lemma negO_involutive v : negO (negO v) = v.
Proof. destruct v; simpl; [rewrite Z.opp_involutive|]; reflexivity. Qed.

Theorem neg_ivl_involutive i : neg_ivl (neg_ivl i) = i.
Proof. destruct i as [s e p]. unfold neg_ivl; simpl. rewrite !negO_involutive. reflexivity. Qed.

Theorem neg_stream_involutive l : neg_stream (neg_stream l) = l.
Proof.
  unfold neg_stream. rewrite map_map. rewrite <- (map_id l) at 2.
  apply map_ext. intro i. apply neg_ivl_involutive.
Qed.

Lemma neg_stream_length l : length (neg_stream l) = length l.
Proof. apply map_length. Qed.

Lemma neg_stream_app l1 l2 : neg_stream (l1 ++ l2) = neg_stream l1 ++ neg_stream l2.
Proof. apply map_app. Qed.

Lemma neg_stream_rev l : neg_stream (rev l) = rev (neg_stream l).
Proof. apply map_rev. Qed.

Lemma pl_neg i : pl (neg_ivl i) = pl i.
Proof. reflexivity. Qed.

(* ---------- bounds ---------- *)
(* finite bounds *)
Lemma fstart_neg_finite i e : en i = Some e -> fstart (neg_ivl i) = - e.
Proof. intro H. unfold fstart, neg_ivl; simpl. rewrite H. reflexivity. Qed.

Lemma fend_neg_finite i s : st i = Some s -> fend (neg_ivl i) = - s.
Proof. intro H. unfold fend, neg_ivl; simpl. rewrite H. reflexivity. Qed.

(* all intervals: None goes through the sentinels, and NEG_INF = - POS_INF *)
Theorem fstart_neg i : fstart (neg_ivl i) = - fend i.
Proof. unfold fstart, fend, neg_ivl; simpl. destruct (en i); reflexivity. Qed.

Theorem fend_neg i : fend (neg_ivl i) = - fstart i.
Proof. unfold fstart, fend, neg_ivl; simpl. destruct (st i); reflexivity. Qed.

Lemma neg_length i : fend (neg_ivl i) - fstart (neg_ivl i) = fend i - fstart i.
Proof. rewrite fstart_neg, fend_neg. lia. Qed.

Lemma pos_len_neg i : pos_len (neg_ivl i) = pos_len i.
Proof. unfold pos_len. rewrite fstart_neg, fend_neg. lia. Qed.

Lemma wf_ivl_neg i : wf_ivl i -> wf_ivl (neg_ivl i).
Proof.
  unfold wf_ivl. rewrite fstart_neg, fend_neg. rewrite sentinels_opp. lia.
Qed.

Lemma wf_ivl_neg_iff i : wf_ivl (neg_ivl i) <-> wf_ivl i.
Proof.
  split; [|apply wf_ivl_neg]. intro H. apply wf_ivl_neg in H. rewrite neg_ivl_involutive in H. exact H.
Qed.

Lemma canon_ivl_neg i : canon_ivl i -> canon_ivl (neg_ivl i).
Proof.
  unfold canon_ivl, neg_ivl; simpl. intros [H1 H2]. split.
  - destruct (en i) as [e|]; simpl; [|discriminate]. intro H. apply H2. f_equal.
    injection H as H. rewrite sentinels_opp in H. lia.
  - destruct (st i) as [s|]; simpl; [|discriminate]. intro H. apply H1. f_equal.
    injection H as H. rewrite sentinels_opp. lia.
Qed.

(* ---------- covered instants ---------- *)
(* [s,e) becomes [-e,-s): the image of the closed-open interval under t |-> -t is open-closed,
   so membership of t in the negated interval is membership of -t in (s,e], not in [s,e). *)
Theorem inside_neg i t : inside (neg_ivl i) t = (fstart i <? - t) && (- t <=? fend i).
Proof. unfold inside. rewrite fstart_neg, fend_neg. lia. Qed.

(* on integer instants that is exactly the reflection t |-> -t-1 *)
Theorem inside_neg_reflect i t : inside (neg_ivl i) t = inside i (- t - 1).
Proof. unfold inside. rewrite fstart_neg, fend_neg. lia. Qed.

Corollary inside_neg_reflect' i t : inside i t = inside (neg_ivl i) (- t - 1).
Proof. rewrite inside_neg_reflect. f_equal. lia. Qed.

(* boundary behaviour: the mirror image of the first covered instant is NOT covered, the mirror
   image of the first uncovered instant IS (for positive length) *)
Lemma inside_neg_at_start i : inside (neg_ivl i) (- fstart i) = false.
Proof. rewrite inside_neg. lia. Qed.

Lemma inside_neg_at_end i : inside (neg_ivl i) (- fend i) = pos_len i.
Proof. rewrite inside_neg. unfold pos_len. lia. Qed.

Lemma inside_at_start i : inside i (fstart i) = pos_len i.
Proof. unfold inside, pos_len. lia. Qed.

Lemma inside_at_end i : inside i (fend i) = false.
Proof. unfold inside. lia. Qed.

(* so t |-> -t does not commute with "covered", one instant off at each end *)
Lemma inside_neg_opp_differs i : pos_len i = true ->
  inside i (fstart i) = true /\ inside (neg_ivl i) (- fstart i) = false.
Proof. intro H. rewrite inside_at_start, inside_neg_at_start. auto. Qed.

Theorem covers_neg_stream l t : covers (neg_stream l) t = covers l (- t - 1).
Proof.
  induction l as [|x r IH]; [reflexivity|].
  change (neg_stream (x :: r)) with (neg_ivl x :: neg_stream r).
  rewrite !covers_cons, inside_neg_reflect, IH. reflexivity.
Qed.

(* ---------- order: a generic pairwise predicate ---------- *)
Fixpoint pairwiseP (R : ivl -> ivl -> Prop) (l : list ivl) : Prop :=
  match l with
  | [] => True
  | x :: r => (forall y, In y r -> R x y) /\ pairwiseP R r
  end.

Lemma sorted_start_pw l : sorted_start l <-> pairwiseP (fun x y => fstart x <= fstart y) l.
Proof. induction l as [|x r IH]; simpl; [tauto|]. rewrite IH. tauto. Qed.

Lemma disjoint_sorted_pw l : disjoint_sorted l <-> pairwiseP (fun x y => fend x <= fstart y) l.
Proof. induction l as [|x r IH]; simpl; [tauto|]. rewrite IH. tauto. Qed.

Lemma pairwiseP_impl (R Q : ivl -> ivl -> Prop) l :
  (forall x y, In x l -> In y l -> R x y -> Q x y) -> pairwiseP R l -> pairwiseP Q l.
Proof.
  induction l as [|x r IH]; simpl; [tauto|]. intros H [H1 H2]. split.
  - intros y Hy. apply H; auto.
  - apply IH; [|exact H2]. intros a b Ha Hb. apply H; auto.
Qed.

Lemma pairwiseP_iff (R Q : ivl -> ivl -> Prop) l :
  (forall x y, In x l -> In y l -> (R x y <-> Q x y)) -> (pairwiseP R l <-> pairwiseP Q l).
Proof.
  intro H. split; apply pairwiseP_impl; intros x y Hx Hy; apply H; auto.
Qed.

Lemma pairwiseP_and (R Q : ivl -> ivl -> Prop) l :
  pairwiseP R l -> pairwiseP Q l -> pairwiseP (fun x y => R x y /\ Q x y) l.
Proof.
  induction l as [|x r IH]; simpl; [tauto|]. intros [H1 H2] [H3 H4]. split; auto.
Qed.

Lemma pairwiseP_app R l1 l2 :
  pairwiseP R (l1 ++ l2) <->
  pairwiseP R l1 /\ pairwiseP R l2 /\ (forall x y, In x l1 -> In y l2 -> R x y).
Proof.
  induction l1 as [|a l1 IH]; simpl.
  - split; [intro H; repeat split; auto; intros ? ? []|tauto].
  - rewrite IH. split.
    + intros (H1 & H2 & H3 & H4). repeat split; auto.
      * intros y Hy. apply H1, in_or_app. auto.
      * intros x y [<-|Hx] Hy; [apply H1, in_or_app; auto|apply H4; auto].
    + intros ((H1 & H2) & H3 & H4). repeat split; auto.
      intros y Hy. apply in_app_or in Hy as [Hy|Hy]; [apply H1|apply H4]; auto.
Qed.

Lemma pairwiseP_rev R l : pairwiseP R (rev l) <-> pairwiseP (fun x y => R y x) l.
Proof.
  induction l as [|a l IH]; simpl; [tauto|]. rewrite pairwiseP_app, IH. simpl. split.
  - intros (H1 & _ & H3). split; [|exact H1]. intros y Hy. apply H3; [apply in_rev in Hy; exact Hy|auto].
  - intros (H1 & H2). split; [exact H2|]. split; [split; [intros ? []|exact I]|].
    intros x y Hx [<-|[]]. apply H1. apply in_rev. exact Hx.
Qed.

Lemma pairwiseP_map R (f : ivl -> ivl) l :
  pairwiseP R (map f l) <-> pairwiseP (fun x y => R (f x) (f y)) l.
Proof.
  induction l as [|a l IH]; simpl; [tauto|]. rewrite IH. split; intros [H1 H2]; split; auto.
  - intros y Hy. apply H1, in_map, Hy.
  - intros y' Hy'. apply in_map_iff in Hy' as [y [<- Hy]]. apply H1, Hy.
Qed.

(* ---------- the boundary of the negation trick ---------- *)
(* what a reverse fetch returns: descending by (finite_start, finite_end) *)
Definition desc_key (l : list ivl) : Prop := pairwiseP (fun x y => key_le y x = true) l.
(* ends non-increasing along the list *)
Definition mono_ends_desc (l : list ivl) : Prop := pairwiseP (fun x y => fend y <= fend x) l.
(* the same, checked on neighbours only *)
Fixpoint mono_ends_adj (l : list ivl) : Prop :=
  match l with
  | [] => True
  | x :: r => match r with [] => True | y :: _ => fend y <= fend x /\ mono_ends_adj r end
  end.
(* y extends beyond x to the right although it does not start after it: in a descending stream
   (x before y) this is "x is nested in y, or they start together and y is longer" *)
Definition outlasts (y x : ivl) : Prop := fstart y <= fstart x /\ fend x < fend y.

Lemma mono_ends_adj_iff l : mono_ends_desc l <-> mono_ends_adj l.
Proof.
  unfold mono_ends_desc. induction l as [|x r IH]; [simpl; tauto|].
  destruct r as [|y r'].
  - simpl. split; [tauto|]. intros _. split; [intros ? []|exact I].
  - change (mono_ends_adj (x :: y :: r')) with (fend y <= fend x /\ mono_ends_adj (y :: r')).
    rewrite <- IH. cbn [pairwiseP]. split.
    + intros [H1 H2]. split; [apply H1; left; reflexivity|exact H2].
    + intros [H1 [H2 H3]]. split; [|split; assumption].
      intros z [<-|Hz]; [exact H1|]. specialize (H2 z Hz). lia.
Qed.

(* for every stream: negation is sorted by start exactly when the ends never increase *)
Theorem negate_sorted_iff_monotone_ends_gen l :
  sorted_start (neg_stream l) <-> mono_ends_desc l.
Proof.
  unfold mono_ends_desc, neg_stream. rewrite sorted_start_pw, pairwiseP_map.
  apply pairwiseP_iff. intros x y _ _. rewrite !fstart_neg. lia.
Qed.

(* as stated for the streams reverse fetches return *)
Theorem negate_sorted_iff_monotone_ends l :
  desc_key l -> (sorted_start (neg_stream l) <-> mono_ends_desc l).
Proof. intros _. apply negate_sorted_iff_monotone_ends_gen. Qed.

(* for a descending stream the condition says: no event is outlasted by a later one *)
Theorem desc_mono_ends_iff_no_outlast l :
  desc_key l -> (mono_ends_desc l <-> pairwiseP (fun x y => ~ outlasts y x) l).
Proof.
  unfold desc_key, mono_ends_desc. induction l as [|x r IH]; simpl; [tauto|].
  intros [H1 H2]. rewrite (IH H2). split; intros [H3 H4]; (split; [|exact H4]); intros y Hy;
    specialize (H1 y Hy); specialize (H3 y Hy); unfold outlasts, key_le in *; lia.
Qed.

Corollary negate_sorted_iff_no_outlast l :
  desc_key l -> (sorted_start (neg_stream l) <-> pairwiseP (fun x y => ~ outlasts y x) l).
Proof.
  intro H. rewrite (negate_sorted_iff_monotone_ends l H). apply desc_mono_ends_iff_no_outlast, H.
Qed.

(* negation of a descending stream with monotone ends is even ascending by the full key *)
Theorem negate_desc_key l :
  desc_key l -> mono_ends_desc l ->
  pairwiseP (fun x y => key_le x y = true) (neg_stream l).
Proof.
  unfold desc_key, mono_ends_desc, neg_stream. intros H1 H2. rewrite pairwiseP_map.
  apply (pairwiseP_impl (fun x y => key_le y x = true /\ fend y <= fend x)).
  - intros x y _ _ [K E]. unfold key_le in *. rewrite !fstart_neg, !fend_neg. lia.
  - apply pairwiseP_and; assumption.
Qed.

(* ---------- the good case: reversed disjoint streams ---------- *)
Lemma rev_disjoint_desc_key d :
  Forall wf_ivl d -> disjoint_sorted d -> desc_key (rev d).
Proof.
  intros Hwf Hd. unfold desc_key. rewrite pairwiseP_rev. apply disjoint_sorted_pw in Hd.
  revert Hd. apply pairwiseP_impl. intros x y Hx _ H.
  rewrite Forall_forall in Hwf. destruct (Hwf x Hx) as (_ & W & _). unfold key_le. lia.
Qed.

Lemma rev_disjoint_mono_ends d :
  Forall wf_ivl d -> disjoint_sorted d -> mono_ends_desc (rev d).
Proof.
  intros Hwf Hd. unfold mono_ends_desc. rewrite pairwiseP_rev. apply disjoint_sorted_pw in Hd.
  revert Hd. apply pairwiseP_impl. intros x y _ Hy H.
  rewrite Forall_forall in Hwf. destruct (Hwf y Hy) as (_ & W & _). lia.
Qed.

Lemma neg_stream_wf l : Forall wf_ivl l -> Forall wf_ivl (neg_stream l).
Proof.
  rewrite !Forall_forall. intros H x Hx. apply in_map_iff in Hx as [y [<- Hy]].
  apply wf_ivl_neg, H, Hy.
Qed.

Theorem neg_rev_disjoint_sorted l d :
  l = rev d -> Forall wf_ivl d -> disjoint_sorted d ->
  disjoint_sorted (neg_stream l) /\ Forall wf_ivl (neg_stream l) /\ sorted_start (neg_stream l).
Proof.
  intros -> Hwf Hd.
  assert (D : disjoint_sorted (neg_stream (rev d))).
  { unfold neg_stream. rewrite disjoint_sorted_pw, pairwiseP_map, pairwiseP_rev.
    apply disjoint_sorted_pw in Hd. revert Hd. apply pairwiseP_impl.
    intros x y _ _ H. rewrite fstart_neg, fend_neg. lia. }
  assert (W : Forall wf_ivl (neg_stream (rev d))).
  { apply neg_stream_wf. rewrite Forall_forall in *. intros x Hx. apply Hwf, in_rev, Hx. }
  split; [exact D|]. split; [exact W|].
  apply negate_sorted_iff_monotone_ends.
  - apply rev_disjoint_desc_key; assumption.
  - apply rev_disjoint_mono_ends; assumption.
Qed.

(* and negating back the (forward, disjoint) output of a sweep gives a descending stream *)
Theorem neg_disjoint_desc d :
  disjoint_sorted d -> pairwiseP (fun x y => fend y <= fstart x) (neg_stream d).
Proof.
  intro Hd. unfold neg_stream. rewrite pairwiseP_map. apply disjoint_sorted_pw in Hd.
  revert Hd. apply pairwiseP_impl. intros x y _ _ H. rewrite fstart_neg, fend_neg. lia.
Qed.

(* ---------- the refuted general claim, kept as a witness ---------- *)
(* reverse fetch order of the nested pair [0,10) ⊃ [2,4) is [2,4), [0,10); negated: [-4,-2), [-10,0) *)
Example neg_nested_desc : desc_key [mkI (Some 2) (Some 4) Plain; mkI (Some 0) (Some 10) Plain].
Proof.
  unfold desc_key. simpl. split; [|split; [intros ? []|exact I]].
  intros y [<-|[]]. reflexivity.
Qed.

Example neg_nested_unsorted :
  ~ sorted_start (neg_stream [mkI (Some 2) (Some 4) Plain; mkI (Some 0) (Some 10) Plain]).
Proof.
  intros [H _]. specialize (H _ (or_introl eq_refl)). unfold fstart in H. simpl in H. lia.
Qed.

Print Assumptions neg_ivl_involutive.
Print Assumptions neg_stream_involutive.
Print Assumptions fstart_neg.
Print Assumptions fend_neg.
Print Assumptions inside_neg.
Print Assumptions inside_neg_reflect.
Print Assumptions covers_neg_stream.
Print Assumptions negate_sorted_iff_monotone_ends.
Print Assumptions negate_sorted_iff_monotone_ends_gen.
Print Assumptions negate_sorted_iff_no_outlast.
Print Assumptions negate_desc_key.
Print Assumptions neg_rev_disjoint_sorted.
Print Assumptions neg_nested_unsorted.
