(* Proofs/GenEq_met.v — tie C, third extension: the rest of calgebra/metrics.py.
   Each generated definition of Gen/Source.v (the translation of the function's source text, redone on
   every run) is proved equal to the model function the C13 theorems are about, for ALL inputs:

     _total_duration                 g_total_duration_eq       = Metrics.total_duration_
     _extremum_duration              g_extremum_duration_eq    = Metrics.extremum_duration
     max_duration._agg / min_duration._agg                     g_max_agg_eq / g_min_agg_eq
     count_intervals._agg            g_count_agg_eq            = Metrics.count_
     coverage_ratio._agg             g_cov_agg_eq              = Metrics.ratio_win
     coverage_ratio._agg_tuple       g_cov_agg_tuple_eq        = Metrics.ratio_tuple
     coverage_ratio._combine_ratios  g_cov_combine_ratios_eq   = Metrics.combine_ratios
                                     g_cov_agg_den_pos / g_cov_combine_den_pos (no division by zero)
     _extract_group_key              g_extract_group_key_eq    = RDone (Metrics.group_key ..)
     _validate_period_group_by       g_validate_eq             = MetricsSrc.validate_m (Metrics.valid_group_by)
     _coerce_bound                   g_met_coerce_bound_eq     = MetricsSrc.coerce_mbound (Metrics.coerce_bound)
     _period_windows                 g_period_windows_eq       = MetricsSrc.period_windows (Metrics.label_of)
     _windowed_agg                   g_windowed_agg_eq         = MetricsSrc.windowed_agg_m (Metrics.windowed_agg)
     _grouped_agg                    g_grouped_agg_eq          = MetricsSrc.grouped_agg_m (Metrics.grouped_agg)
     total_duration, count_intervals, coverage_ratio, max_duration, min_duration
                                     g_pub_*_eq  = MetricsSrc.*_m   and   g_pub_*_is_model = Metrics.*
   The only hypothesis anywhere is fuel for the stepping loops of _period_windows_with_dt (at least the
   model's own loop_fuel: GenEq10.windows_fuel); timelines are the expression model (tslice, flatten_,
   Stored), datetimes the zone model (as in GenEq10.v). *)
From CG Require Import Model.Metrics.
From CG Require Import Model.Loop Model.LoopMet Model.MetricsSrc Gen.Source.
From CG Require Proofs.MetricsP Proofs.MetricsP2.
From CG Require Import Proofs.GenEq10.
From Coq Require Import ZArith List Bool Lia ZifyBool.
Import ListNotations.
Local Open Scope Z_scope.

(* ========================================================================================== *)
(* 1. the per-window aggregations (any timeline type, any slice / flatten functions)           *)

Theorem g_total_duration_fold {TL : Type} (fl : TL -> TL) (sl : TL -> Z -> Z -> list ivl) (tl : TL) (ws we : Z) :
  g_total_duration fl sl tl ws we = fold_left (total_step ws we) (sl (fl tl) ws we) 0.
Proof.
  unfold g_total_duration. cbv zeta. generalize 0.
  induction (sl (fl tl) ws we) as [|i l IH]; intros acc; [reflexivity|].
  cbn [iter_for fold_left]. unfold total_step at 2.
  destruct (st i) as [s|]; destruct (en i) as [e|]; cbn [is_none orb ozd]; try apply IH.
  destruct (Z.max s ws <? Z.min e we); apply IH.
Qed.

Theorem g_total_duration_eq (tl : expr) (ws we : Z) :
  g_total_duration flatten_ tslice tl ws we = total_duration_ tl ws we.
Proof. apply g_total_duration_fold. Qed.
Print Assumptions g_total_duration_eq.

Theorem g_extremum_duration_fold {TL : Type} (sl : TL -> Z -> Z -> list ivl) (tl : TL) (ws we : Z) (fm : bool) :
  g_extremum_duration sl tl ws we fm = fst (fold_left (ext_step fm) (sl tl ws we) (None, None)).
Proof.
  unfold g_extremum_duration. cbv zeta. generalize (@None ivl, @None Z).
  induction (sl tl ws we) as [|i l IH]; intros [x xl]; [reflexivity|].
  cbn [iter_for fold_left]. unfold ext_step at 2. cbn [snd].
  destruct (st i) as [s|]; destruct (en i) as [e|]; cbn [is_none orb ozd]; try apply IH.
  destruct xl as [len|]; [|apply IH].
  destruct (fm && (e - s >? len)); [apply IH|].
  destruct (negb fm && (e - s <? len)); apply IH.
Qed.

Theorem g_extremum_duration_eq (tl : expr) (ws we : Z) (fm : bool) :
  g_extremum_duration tslice tl ws we fm = extremum_duration tl ws we fm.
Proof. apply g_extremum_duration_fold. Qed.
Print Assumptions g_extremum_duration_eq.

(* the closures of max_duration / min_duration *)
Theorem g_max_agg_eq (tl : expr) (ws we : Z) : g_max_agg tslice tl ws we = extremum_duration tl ws we true.
Proof. apply g_extremum_duration_eq. Qed.
Print Assumptions g_max_agg_eq.
Theorem g_min_agg_eq (tl : expr) (ws we : Z) : g_min_agg tslice tl ws we = extremum_duration tl ws we false.
Proof. apply g_extremum_duration_eq. Qed.
Print Assumptions g_min_agg_eq.

(* count_intervals._agg: sum(1 for _ in tl[a:b]) *)
Lemma sum_ones {A : Type} (l : list A) : forall acc,
  fold_left Z.add (map (fun _ => 1) l) acc = acc + Z.of_nat (length l).
Proof.
  induction l as [|x l IH]; intros acc; cbn [map fold_left length]; [lia|]. rewrite IH. lia.
Qed.

Theorem g_count_agg_eq (tl : expr) (ws we : Z) : g_count_agg tslice tl ws we = count_ tl ws we.
Proof. unfold g_count_agg, count_. rewrite sum_ones. lia. Qed.
Print Assumptions g_count_agg_eq.

(* the closures of coverage_ratio *)
Theorem g_cov_agg_eq (tl : expr) (ws we : Z) : g_cov_agg flatten_ tslice tl ws we = ratio_win tl ws we.
Proof. unfold g_cov_agg, ratio_win. cbv zeta. rewrite g_total_duration_eq. reflexivity. Qed.
Print Assumptions g_cov_agg_eq.

Theorem g_cov_agg_tuple_eq (tl : expr) (ws we : Z) : g_cov_agg_tuple flatten_ tslice tl ws we = ratio_tuple tl ws we.
Proof. unfold g_cov_agg_tuple, ratio_tuple. cbv zeta. rewrite g_total_duration_eq. reflexivity. Qed.
Print Assumptions g_cov_agg_tuple_eq.

Theorem g_cov_combine_ratios_eq (ts : list (Z * Z)) : g_cov_combine_ratios ts = combine_ratios ts.
Proof. reflexivity. Qed.
Print Assumptions g_cov_combine_ratios_eq.

(* `total / span` and `total_num / total_denom` are read as exact pairs (TRUSTED reading R5); a pair is
   only ever built with a positive denominator, so Python's ZeroDivisionError cannot occur there —
   proved of the generated text, for every timeline type and every slice function *)
Theorem g_cov_agg_den_pos {TL : Type} (fl : TL -> TL) (sl : TL -> Z -> Z -> list ivl) (tl : TL) (ws we : Z) :
  0 < snd (g_cov_agg fl sl tl ws we).
Proof. unfold g_cov_agg. cbv zeta. destruct (we - ws <=? 0) eqn:E; cbn [snd]; lia. Qed.
Print Assumptions g_cov_agg_den_pos.

Theorem g_cov_combine_den_pos (ts : list (Z * Z)) : 0 < snd (g_cov_combine_ratios ts).
Proof.
  unfold g_cov_combine_ratios. cbv zeta.
  destruct (fold_left Z.add (map (fun t => snd t) ts) 0 >? 0) eqn:E; cbn [snd]; lia.
Qed.
Print Assumptions g_cov_combine_den_pos.

(* ========================================================================================== *)
(* 2. keys, validation, bounds                                                                 *)

(* the datetime fields _extract_group_key reads, in the zone model (a datetime = its wall clock) *)
Definition k_weekday_m (w : Z) : Z := weekday (wall_day w).
Definition k_isoweek_m (w : Z) : Z := iso_week (wall_day w).

Theorem g_extract_group_key_eq (w : Z) (g : groupby) :
  g_extract_group_key w_hour k_weekday_m w_day k_isoweek_m w_month w g = RDone (group_key g w).
Proof. destruct g; reflexivity. Qed.
Print Assumptions g_extract_group_key_eq.

Theorem g_validate_eq (p : period) (g : option groupby) :
  g_validate_period_group_by p g = validate_m p g.
Proof. destruct g as [g|]; destruct p; try destruct g; reflexivity. Qed.
Print Assumptions g_validate_eq.

Theorem g_met_coerce_bound_eq (z : zone) (b : mbound) :
  g_met_coerce_bound dt_ymd (ts0 z) b = coerce_mbound z b.
Proof. destruct b; reflexivity. Qed.
Print Assumptions g_met_coerce_bound_eq.

(* on the bounds Model/Metrics.v has (ints and dates) it is Metrics.coerce_bound and never raises *)
Lemma coerce_mbound_model (z : zone) (b : bound) : coerce_mbound z (mb_of_bound b) = RDone (coerce_bound z b).
Proof. destruct b; reflexivity. Qed.

Corollary g_met_coerce_bound_is_model (z : zone) (b : bound) :
  g_met_coerce_bound dt_ymd (ts0 z) (mb_of_bound b) = RDone (coerce_bound z b).
Proof. rewrite g_met_coerce_bound_eq. apply coerce_mbound_model. Qed.
Print Assumptions g_met_coerce_bound_is_model.

Example g_met_coerce_bound_raises (z : zone) :
  g_met_coerce_bound dt_ymd (ts0 z) MBNaive = RRaise TypeError /\
  g_met_coerce_bound dt_ymd (ts0 z) MBOther = RRaise TypeError /\
  g_met_coerce_bound dt_ymd (ts0 z) (MBAware 17) = RDone 17.
Proof. repeat split. Qed.

(* ========================================================================================== *)
(* 3. _period_windows                                                                          *)

Definition res_map {A B} (f : A -> B) (r : res A) : res B := res_bind r (fun a => RDone (f a)).

(* the generated _period_windows under the zone model: labels are wall-clock seconds (hourly) or day
   numbers (dt.date()), as in Metrics.label_of *)
Definition gm_period_windows (fuel : nat) (z : zone) (a b : Z) (p : period) : res (list win) :=
  g_period_windows (DT := Z) (TD := Z) (LBL := Z) fuel
    (utc_to_wall z) dt_ymd dt_ymdh
    (fun h => h * 3600) (fun d => d * DAY) (fun w => w * 7 * DAY)
    Z.add Z.sub Z.ltb (ts0 z) (fun w => weekday (wall_day w))
    w_year w_month w_day w_hour wall_day (fun w => w) a b p.

(* exact, for every fuel: the windows of _period_windows_with_dt, relabelled *)
Theorem g_period_windows_exact (fuel : nat) (z : zone) (a b : Z) (p : period) :
  gm_period_windows fuel z a b p = res_map (map (relabel p)) (g_windows_of fuel z a b p).
Proof.
  unfold gm_period_windows, g_period_windows, res_map, g_windows_of.
  destruct p; cbv zeta;
    (match goal with |- res_bind ?X _ = _ => destruct X end); cbn [res_bind]; try reflexivity;
    f_equal; apply map_ext; intros [[l s] e]; reflexivity.
Qed.
Print Assumptions g_period_windows_exact.

Theorem g_period_windows_eq (z : zone) (a b : Z) (p : period) (fuel : nat) :
  (windows_fuel z a b p <= fuel)%nat ->
  gm_period_windows fuel z a b p = opt_res (period_windows z a b p).
Proof.
  intros Hf. rewrite g_period_windows_exact.
  destruct (g_period_windows_dt_total z a b p fuel Hf) as [l [Hl Hg]].
  rewrite Hg. unfold period_windows. rewrite Hl. reflexivity.
Qed.
Print Assumptions g_period_windows_eq.

Example g_period_windows_eq_inst :
  gm_period_windows 10 utc_zone 0 100000 PDay = RDone [(0, 0, 86400); (1, 86400, 172800)] /\
  gm_period_windows 40 utc_zone 0 7200 PHour = RDone [(0, 0, 3600); (3600, 3600, 7200)] /\
  (windows_fuel utc_zone 0 100000 PDay <= 10)%nat.
Proof. vm_compute. repeat split; lia. Qed.

(* ========================================================================================== *)
(* 4. _windowed_agg                                                                            *)

Definition gm_windowed_agg {A : Type} (fuel : nat) (z : zone) (tl : expr) (s e : mbound) (p : period)
           (agg : expr -> Z -> Z -> A) : res (list (Z * A)) :=
  g_windowed_agg (TL := expr) (DT := Z) (TD := Z) (LBL := Z) fuel tslice Stored
    (utc_to_wall z) dt_ymd dt_ymdh
    (fun h => h * 3600) (fun d => d * DAY) (fun w => w * 7 * DAY)
    Z.add Z.sub Z.ltb (ts0 z) (fun w => weekday (wall_day w))
    w_year w_month w_day w_hour wall_day (fun w => w) tl s e p agg.

(* the fuel hypothesis: at least what the model gives its own stepping loop, for the coerced range *)
Definition fuel_ok (z : zone) (s e : mbound) (p : period) (fuel : nat) : Prop :=
  forall a b, coerce_mbound z s = RDone a -> coerce_mbound z e = RDone b -> (windows_fuel z a b p <= fuel)%nat.

Theorem g_windowed_agg_eq {A : Type} (fuel : nat) (z : zone) (tl : expr) (s e : mbound) (p : period)
        (agg : expr -> Z -> Z -> A) :
  fuel_ok z s e p fuel ->
  gm_windowed_agg fuel z tl s e p agg = windowed_agg_m z tl s e p agg.
Proof.
  intros Hf. unfold gm_windowed_agg, g_windowed_agg, windowed_agg_m.
  rewrite !g_met_coerce_bound_eq.
  destruct (coerce_mbound z s) as [a| | |] eqn:Ea; cbn [res_bind]; try reflexivity.
  destruct (coerce_mbound z e) as [b| | |] eqn:Eb; cbn [res_bind]; try reflexivity.
  cbv zeta. fold (gm_period_windows fuel z a b p).
  rewrite (g_period_windows_eq z a b p fuel (Hf a b Ea Eb)).
  unfold cached_timeline. destruct (period_windows z a b p) as [ws|]; cbn [opt_res res_bind]; [|reflexivity].
  f_equal; try (apply map_ext; intros [[l x] y]; reflexivity).
Qed.
Print Assumptions g_windowed_agg_eq.

(* ... and on the bounds of Model/Metrics.v that is Metrics.windowed_agg *)
Lemma windowed_agg_m_model {A : Type} (z : zone) (tl : expr) (s e : bound) (p : period) (agg : expr -> Z -> Z -> A) :
  windowed_agg_m z tl (mb_of_bound s) (mb_of_bound e) p agg = opt_res (windowed_agg z tl s e p agg).
Proof.
  unfold windowed_agg_m, windowed_agg. rewrite !coerce_mbound_model. cbn [res_bind]. cbv zeta.
  unfold period_windows.
  destruct (period_windows_dt z (coerce_bound z s) (coerce_bound z e) p) as [ws|]; cbn [opt_res res_bind]; [|reflexivity].
  f_equal. rewrite map_map. apply map_ext. intros [[l a] b]. reflexivity.
Qed.

Lemma fuel_ok_model (z : zone) (s e : bound) (p : period) (fuel : nat) :
  (windows_fuel z (coerce_bound z s) (coerce_bound z e) p <= fuel)%nat ->
  fuel_ok z (mb_of_bound s) (mb_of_bound e) p fuel.
Proof.
  intros H a b Ha Hb. rewrite coerce_mbound_model in Ha, Hb. injection Ha as <-. injection Hb as <-. exact H.
Qed.

Corollary g_windowed_agg_is_model {A : Type} (fuel : nat) (z : zone) (tl : expr) (s e : bound) (p : period)
          (agg : expr -> Z -> Z -> A) :
  (windows_fuel z (coerce_bound z s) (coerce_bound z e) p <= fuel)%nat ->
  gm_windowed_agg fuel z tl (mb_of_bound s) (mb_of_bound e) p agg = opt_res (windowed_agg z tl s e p agg).
Proof.
  intros H. rewrite (g_windowed_agg_eq _ _ _ _ _ _ _ (fuel_ok_model _ _ _ _ _ H)). apply windowed_agg_m_model.
Qed.
Print Assumptions g_windowed_agg_is_model.

(* ========================================================================================== *)
(* 5. _grouped_agg                                                                             *)
(* The code keeps the buckets in a defaultdict(list) (insertion order) and sorts the (key, combined)
   pairs at the end; the model keeps them sorted by key all along (bucket_add).  Same result. *)

Lemma in_ins_fst {X : Type} (x y : Z * X) (l : list (Z * X)) : In y (pym_ins_fst x l) <-> y = x \/ In y l.
Proof.
  induction l as [|h r IH]; cbn [pym_ins_fst In]; [intuition|].
  destruct (fst x <? fst h); cbn [In]; [intuition|]. rewrite IH. intuition.
Qed.

Lemma sort_snoc {X : Type} (l : list (Z * X)) (x : Z * X) : pym_sort_fst (l ++ [x]) = pym_ins_fst x (pym_sort_fst l).
Proof. unfold pym_sort_fst. rewrite fold_left_app. reflexivity. Qed.

Lemma in_sort_fst {X : Type} (y : Z * X) (l : list (Z * X)) : In y (pym_sort_fst l) <-> In y l.
Proof.
  induction l as [|x l IH] using rev_ind; [reflexivity|].
  rewrite sort_snoc, in_ins_fst, IH, in_app_iff. cbn [In]. intuition.
Qed.

(* a map that keeps first components commutes with the sort *)
Lemma ins_fst_map {X Y : Type} (f : Z * X -> Z * Y) (Hf : forall x, fst (f x) = fst x) (x : Z * X) (l : list (Z * X)) :
  pym_ins_fst (f x) (map f l) = map f (pym_ins_fst x l).
Proof.
  induction l as [|h r IH]; cbn [pym_ins_fst map]; [reflexivity|].
  rewrite !Hf. destruct (fst x <? fst h); cbn [map]; [reflexivity|]. rewrite IH. reflexivity.
Qed.

Lemma sort_fst_map {X Y : Type} (f : Z * X -> Z * Y) (Hf : forall x, fst (f x) = fst x) (l : list (Z * X)) :
  pym_sort_fst (map f l) = map f (pym_sort_fst l).
Proof.
  induction l as [|x l IH] using rev_ind; [reflexivity|].
  rewrite map_app. cbn [map]. rewrite !sort_snoc, IH. apply ins_fst_map. exact Hf.
Qed.

Lemma NoDup_snoc {T : Type} (l : list T) (x : T) : NoDup (l ++ [x]) <-> NoDup l /\ ~ In x l.
Proof.
  induction l as [|h r IH]; cbn [app].
  - split; [intros _; split; [constructor|intros []]|intros _; constructor; [intros []|constructor]].
  - rewrite !NoDup_cons_iff, IH, in_app_iff. cbn [In]. intuition.
Qed.

Section Buckets.
  Context {A : Type}.
  Notation dict := (list (Z * list A)).

  Definition bkeys (l : dict) : list Z := map fst l.
  Definition memk (k : Z) (l : dict) : bool := existsb (fun kv => Z.eqb k (fst kv)) l.
  (* append v to the bucket(s) of k *)
  Definition updf (k : Z) (v : A) (l : dict) : dict :=
    map (fun kv => if Z.eqb k (fst kv) then (fst kv, snd kv ++ [v]) else kv) l.
  (* strictly ascending keys *)
  Fixpoint ssorted (l : dict) : Prop :=
    match l with
    | [] => True
    | x :: r => (forall y, In y r -> fst x < fst y) /\ ssorted r
    end.

  Lemma memk_false (k : Z) (l : dict) : memk k l = false <-> ~ In k (bkeys l).
  Proof.
    induction l as [|[k' vs] r IH]; cbn [memk existsb bkeys map In fst]; [intuition|].
    fold (memk k r). fold (bkeys r). rewrite orb_false_iff, IH, Z.eqb_neq. intuition.
  Qed.

  Lemma memk_true (k : Z) (l : dict) : memk k l = true <-> In k (bkeys l).
  Proof.
    destruct (memk k l) eqn:E.
    - split; [intros _|reflexivity]. destruct (in_dec Z.eq_dec k (bkeys l)) as [H|H]; [exact H|].
      apply memk_false in H. congruence.
    - apply memk_false in E. split; [discriminate|intros H; contradiction].
  Qed.

  Lemma updf_absent (k : Z) (v : A) (l : dict) : memk k l = false -> updf k v l = l.
  Proof.
    induction l as [|[k' vs] r IH]; cbn [memk existsb updf map fst]; [reflexivity|].
    fold (memk k r). fold (updf k v r). rewrite orb_false_iff. intros [-> H]. rewrite (IH H). reflexivity.
  Qed.

  Lemma bkeys_updf (k : Z) (v : A) (l : dict) : bkeys (updf k v l) = bkeys l.
  Proof.
    unfold bkeys, updf. rewrite map_map. apply map_ext. intros [k' vs]. cbn [fst].
    destruct (k =? k'); reflexivity.
  Qed.

  (* d[k].append(v) on the insertion-ordered dictionary *)
  Lemma dd_append_spec (k : Z) (v : A) (d : dict) : NoDup (bkeys d) ->
    pym_dd_append Z.eqb k v d = if memk k d then updf k v d else d ++ [(k, [v])].
  Proof.
    unfold pym_dd_append.
    induction d as [|[k' vs] r IH]; intros Hnd; [reflexivity|].
    cbn [bkeys map fst] in Hnd. fold (bkeys r) in Hnd. apply NoDup_cons_iff in Hnd. destruct Hnd as [Hk' Hnd].
    cbn [dict_get dict_set memk existsb updf map fst snd]. fold (memk k r). fold (updf k v r).
    destruct (k =? k') eqn:E.
    - apply Z.eqb_eq in E. subst k'. cbn [orb]. rewrite updf_absent by (apply memk_false; exact Hk'). reflexivity.
    - cbn [orb]. rewrite (IH Hnd). destruct (memk k r); reflexivity.
  Qed.

  (* the model's sorted insertion *)
  Lemma bucket_add_spec (k : Z) (v : A) (bs : dict) : ssorted bs ->
    bucket_add k v bs = if memk k bs then updf k v bs else pym_ins_fst (k, [v]) bs.
  Proof.
    induction bs as [|[k' vs] r IH]; intros Hs; [reflexivity|].
    cbn [ssorted fst] in Hs. destruct Hs as [Hlt Hs].
    cbn [bucket_add memk existsb updf map pym_ins_fst fst snd]. fold (memk k r). fold (updf k v r).
    assert (Hr : k <= k' -> memk k r = false).
    { intros Hle. apply memk_false. intros Hin. unfold bkeys in Hin. apply in_map_iff in Hin.
      destruct Hin as [y [Hy Hiny]]. specialize (Hlt y Hiny). lia. }
    destruct (k =? k') eqn:E.
    - apply Z.eqb_eq in E. subst k'. cbn [orb]. rewrite updf_absent by (apply Hr; lia). reflexivity.
    - cbn [orb]. apply Z.eqb_neq in E. destruct (k <? k') eqn:El.
      + rewrite Hr by lia. reflexivity.
      + rewrite (IH Hs). destruct (memk k r); reflexivity.
  Qed.

  Lemma ins_ssorted (k : Z) (vs : list A) (l : dict) : ssorted l -> ~ In k (bkeys l) ->
    ssorted (pym_ins_fst (k, vs) l).
  Proof.
    induction l as [|[k' vs'] r IH]; intros Hs Hni; cbn [pym_ins_fst fst].
    - cbn. split; [intros y []|exact I].
    - cbn [ssorted fst] in Hs. destruct Hs as [Hlt Hs].
      cbn [bkeys map fst In] in Hni. fold (bkeys r) in Hni.
      destruct (k <? k') eqn:El.
      + cbn [ssorted fst]. split; [|split; assumption].
        intros y [<-|Hy]; cbn [fst]; [lia|]. specialize (Hlt y Hy). lia.
      + cbn [ssorted fst]. split.
        * intros y Hy. apply in_ins_fst in Hy. destruct Hy as [->|Hy]; cbn [fst]; [lia|]. exact (Hlt y Hy).
        * apply IH; [exact Hs|]. intros Hin. apply Hni. right. exact Hin.
  Qed.

  Lemma bkeys_sort (k : Z) (l : dict) : In k (bkeys (pym_sort_fst l)) <-> In k (bkeys l).
  Proof.
    unfold bkeys. rewrite !in_map_iff.
    split; intros [y [Hy Hin]]; exists y; (split; [exact Hy|]); apply in_sort_fst; exact Hin.
  Qed.

  Lemma memk_sort (k : Z) (l : dict) : memk k (pym_sort_fst l) = memk k l.
  Proof.
    destruct (memk k l) eqn:E.
    - apply memk_true. apply bkeys_sort. apply memk_true. exact E.
    - apply memk_false. rewrite bkeys_sort. apply memk_false. exact E.
  Qed.

  Lemma sort_ssorted (l : dict) : NoDup (bkeys l) -> ssorted (pym_sort_fst l).
  Proof.
    induction l as [|[k vs] l IH] using rev_ind; intros Hnd; [exact I|].
    unfold bkeys in Hnd. rewrite map_app in Hnd. cbn [map fst] in Hnd. apply NoDup_snoc in Hnd.
    destruct Hnd as [Hnd Hk]. rewrite sort_snoc. apply ins_ssorted; [apply IH; exact Hnd|].
    rewrite bkeys_sort. exact Hk.
  Qed.

  (* one step: the dictionary of the code, sorted, is the model's bucket list *)
  Lemma bucket_step (k : Z) (v : A) (d : dict) : NoDup (bkeys d) ->
    pym_sort_fst (pym_dd_append Z.eqb k v d) = bucket_add k v (pym_sort_fst d) /\
    NoDup (bkeys (pym_dd_append Z.eqb k v d)).
  Proof.
    intros Hnd. rewrite (dd_append_spec k v d Hnd), (bucket_add_spec k v _ (sort_ssorted d Hnd)), memk_sort.
    destruct (memk k d) eqn:E.
    - split; [|rewrite bkeys_updf; exact Hnd].
      unfold updf. apply sort_fst_map. intros [k' vs]. cbn [fst]. destruct (k =? k'); reflexivity.
    - split; [apply sort_snoc|].
      unfold bkeys. rewrite map_app. cbn [map fst]. apply NoDup_snoc. split; [exact Hnd|].
      apply memk_false. exact E.
  Qed.

  Lemma bucket_steps {W : Type} (key : W -> Z) (val : W -> A) (ws : list W) : forall d, NoDup (bkeys d) ->
    pym_sort_fst (fold_left (fun d w => pym_dd_append Z.eqb (key w) (val w) d) ws d) =
    fold_left (fun bs w => bucket_add (key w) (val w) bs) ws (pym_sort_fst d).
  Proof.
    induction ws as [|w ws IH]; intros d Hnd; [reflexivity|]. cbn [fold_left].
    destruct (bucket_step (key w) (val w) d Hnd) as [Hs Hnd']. rewrite (IH _ Hnd'), Hs. reflexivity.
  Qed.
End Buckets.

(* the loop of _grouped_agg: no iteration leaves early or raises *)
Lemma iter_for_r_cont {S W R : Type} (body : S -> W -> res (step S (res R))) (post : S -> res R) (f : S -> W -> S) :
  (forall s w, body s w = RDone (SCont (f s w))) ->
  forall ws s, pym_iter_for_r body post s ws = post (fold_left f ws s).
Proof.
  intros Hb. induction ws as [|w ws IH]; intros s; [reflexivity|].
  cbn [pym_iter_for_r fold_left]. rewrite Hb. apply IH.
Qed.

Definition gm_grouped_agg {A B : Type} (fuel : nat) (z : zone) (tl : expr) (s e : mbound) (p : period) (g : groupby)
           (agg : expr -> Z -> Z -> A) (combiner : list A -> B) : res (list (Z * B)) :=
  g_grouped_agg (TL := expr) (DT := Z) (TD := Z) fuel tslice Stored
    (utc_to_wall z) dt_ymd dt_ymdh
    (fun h => h * 3600) (fun d => d * DAY) (fun w => w * 7 * DAY)
    Z.add Z.sub Z.ltb (ts0 z) (fun w => weekday (wall_day w))
    w_year w_month w_day w_hour
    w_hour k_weekday_m w_day k_isoweek_m w_month tl s e p g agg combiner.

Theorem g_grouped_agg_eq {A B : Type} (fuel : nat) (z : zone) (tl : expr) (s e : mbound) (p : period) (g : groupby)
        (agg : expr -> Z -> Z -> A) (combiner : list A -> B) :
  fuel_ok z s e p fuel ->
  gm_grouped_agg fuel z tl s e p g agg combiner = grouped_agg_m z tl s e p g agg combiner.
Proof.
  intros Hf. unfold gm_grouped_agg, g_grouped_agg, grouped_agg_m.
  rewrite !g_met_coerce_bound_eq.
  destruct (coerce_mbound z s) as [a| | |] eqn:Ea; cbn [res_bind]; try reflexivity.
  destruct (coerce_mbound z e) as [b| | |] eqn:Eb; cbn [res_bind]; try reflexivity.
  cbv zeta. fold (g_windows_of fuel z a b p).
  destruct (g_period_windows_dt_total z a b p fuel (Hf a b Ea Eb)) as [l [Hl Hg]].
  rewrite Hg, Hl. cbn [opt_res res_bind].
  set (c := cached_timeline tl a b). change (Stored (tslice tl a b)) with c.
  rewrite (iter_for_r_cont _ _
             (fun d (w : win) => pym_dd_append Z.eqb (group_key g (fst (fst w))) (agg c (snd (fst w)) (snd w)) d)).
  2:{ intros d [[lb x] y]. cbv beta iota. rewrite g_extract_group_key_eq. reflexivity. }
  f_equal.
  rewrite (map_ext (fun '((k, vs) : Z * list A) => (k, combiner vs)) (fun kv => (fst kv, combiner (snd kv))))
    by (intros [k vs]; reflexivity).
  rewrite (sort_fst_map (fun kv : Z * list A => (fst kv, combiner (snd kv)))) by (intros [k vs]; reflexivity).
  rewrite (bucket_steps (fun w : win => group_key g (fst (fst w))) (fun w : win => agg c (snd (fst w)) (snd w)) l [])
    by constructor.
  f_equal. cbn [pym_sort_fst fold_left].
  clear. generalize (@nil (Z * list A)). induction l as [|[[lb x] y] l IH]; intros bs; [reflexivity|].
  cbn [fold_left fst snd]. apply IH.
Qed.
Print Assumptions g_grouped_agg_eq.

Lemma grouped_agg_m_model {A B : Type} (z : zone) (tl : expr) (s e : bound) (p : period) (g : groupby)
      (agg : expr -> Z -> Z -> A) (combiner : list A -> B) :
  grouped_agg_m z tl (mb_of_bound s) (mb_of_bound e) p g agg combiner = opt_res (grouped_agg z tl s e p g agg combiner).
Proof.
  unfold grouped_agg_m, grouped_agg. rewrite !coerce_mbound_model. cbn [res_bind]. cbv zeta.
  destruct (period_windows_dt z (coerce_bound z s) (coerce_bound z e) p) as [ws|]; reflexivity.
Qed.

Corollary g_grouped_agg_is_model {A B : Type} (fuel : nat) (z : zone) (tl : expr) (s e : bound) (p : period) (g : groupby)
          (agg : expr -> Z -> Z -> A) (combiner : list A -> B) :
  (windows_fuel z (coerce_bound z s) (coerce_bound z e) p <= fuel)%nat ->
  gm_grouped_agg fuel z tl (mb_of_bound s) (mb_of_bound e) p g agg combiner =
  opt_res (grouped_agg z tl s e p g agg combiner).
Proof.
  intros H. rewrite (g_grouped_agg_eq _ _ _ _ _ _ _ _ _ (fuel_ok_model _ _ _ _ _ H)). apply grouped_agg_m_model.
Qed.
Print Assumptions g_grouped_agg_is_model.

(* ========================================================================================== *)
(* 6. the public functions: which helper runs with which arguments                             *)

(* the drivers only ever apply their callbacks: pointwise-equal callbacks give equal results *)
Lemma windowed_agg_m_ext {A : Type} (z : zone) (tl : expr) (s e : mbound) (p : period) (agg1 agg2 : expr -> Z -> Z -> A) :
  (forall c a b, agg1 c a b = agg2 c a b) ->
  windowed_agg_m z tl s e p agg1 = windowed_agg_m z tl s e p agg2.
Proof.
  intros H. unfold windowed_agg_m.
  destruct (coerce_mbound z s) as [a| | |]; cbn [res_bind]; try reflexivity.
  destruct (coerce_mbound z e) as [b| | |]; cbn [res_bind]; try reflexivity. cbv zeta.
  destruct (period_windows z a b p) as [ws|]; cbn [opt_res res_bind]; [|reflexivity].
  f_equal. apply map_ext. intros [[l x] y]. rewrite H. reflexivity.
Qed.

Lemma fold_left_ext {S W : Type} (f1 f2 : S -> W -> S) : (forall s w, f1 s w = f2 s w) ->
  forall l s, fold_left f1 l s = fold_left f2 l s.
Proof. intros H. induction l as [|w l IH]; intros s; [reflexivity|]. cbn [fold_left]. rewrite H. apply IH. Qed.

Lemma grouped_agg_m_ext {A B : Type} (z : zone) (tl : expr) (s e : mbound) (p : period) (g : groupby)
      (agg1 agg2 : expr -> Z -> Z -> A) (comb1 comb2 : list A -> B) :
  (forall c a b, agg1 c a b = agg2 c a b) -> (forall l, comb1 l = comb2 l) ->
  grouped_agg_m z tl s e p g agg1 comb1 = grouped_agg_m z tl s e p g agg2 comb2.
Proof.
  intros Ha Hc. unfold grouped_agg_m.
  destruct (coerce_mbound z s) as [a| | |]; cbn [res_bind]; try reflexivity.
  destruct (coerce_mbound z e) as [b| | |]; cbn [res_bind]; try reflexivity. cbv zeta.
  destruct (period_windows_dt z a b p) as [ws|]; cbn [opt_res res_bind]; [|reflexivity].
  f_equal. rewrite (fold_left_ext _ (fun bs (w : win) => let '(l, x, y) := w in
                                      bucket_add (group_key g l) (agg2 (cached_timeline tl a b) x y) bs)).
  2:{ intros bs [[l x] y]. rewrite Ha. reflexivity. }
  apply map_ext. intros kv. rewrite Hc. reflexivity.
Qed.

Definition gm_pub_total_duration (fuel : nat) (z : zone) (tl : expr) (s e : mbound) (p : period) (g : option groupby) :=
  g_pub_total_duration (TL := expr) (DT := Z) (TD := Z) (LBL := Z) fuel flatten_ tslice Stored
    (utc_to_wall z) dt_ymd dt_ymdh (fun h => h * 3600) (fun d => d * DAY) (fun w => w * 7 * DAY)
    Z.add Z.sub Z.ltb (ts0 z) (fun w => weekday (wall_day w)) w_year w_month w_day w_hour
    w_hour k_weekday_m w_day k_isoweek_m w_month wall_day (fun w => w) tl s e p g.

Definition gm_pub_count_intervals (fuel : nat) (z : zone) (tl : expr) (s e : mbound) (p : period) (g : option groupby) :=
  g_pub_count_intervals (TL := expr) (DT := Z) (TD := Z) (LBL := Z) fuel tslice Stored
    (utc_to_wall z) dt_ymd dt_ymdh (fun h => h * 3600) (fun d => d * DAY) (fun w => w * 7 * DAY)
    Z.add Z.sub Z.ltb (ts0 z) (fun w => weekday (wall_day w)) w_year w_month w_day w_hour
    w_hour k_weekday_m w_day k_isoweek_m w_month wall_day (fun w => w) tl s e p g.

Definition gm_pub_coverage_ratio (fuel : nat) (z : zone) (tl : expr) (s e : mbound) (p : period) (g : option groupby) :=
  g_pub_coverage_ratio (TL := expr) (DT := Z) (TD := Z) (LBL := Z) fuel flatten_ tslice Stored
    (utc_to_wall z) dt_ymd dt_ymdh (fun h => h * 3600) (fun d => d * DAY) (fun w => w * 7 * DAY)
    Z.add Z.sub Z.ltb (ts0 z) (fun w => weekday (wall_day w)) w_year w_month w_day w_hour
    w_hour k_weekday_m w_day k_isoweek_m w_month wall_day (fun w => w) tl s e p g.

Definition gm_pub_max_duration (fuel : nat) (z : zone) (tl : expr) (s e : mbound) (p : period) :=
  g_pub_max_duration (TL := expr) (DT := Z) (TD := Z) (LBL := Z) fuel tslice Stored
    (utc_to_wall z) dt_ymd dt_ymdh (fun h => h * 3600) (fun d => d * DAY) (fun w => w * 7 * DAY)
    Z.add Z.sub Z.ltb (ts0 z) (fun w => weekday (wall_day w)) w_year w_month w_day w_hour
    wall_day (fun w => w) tl s e p.

Definition gm_pub_min_duration (fuel : nat) (z : zone) (tl : expr) (s e : mbound) (p : period) :=
  g_pub_min_duration (TL := expr) (DT := Z) (TD := Z) (LBL := Z) fuel tslice Stored
    (utc_to_wall z) dt_ymd dt_ymdh (fun h => h * 3600) (fun d => d * DAY) (fun w => w * 7 * DAY)
    Z.add Z.sub Z.ltb (ts0 z) (fun w => weekday (wall_day w)) w_year w_month w_day w_hour
    wall_day (fun w => w) tl s e p.

Theorem g_pub_total_duration_eq (fuel : nat) (z : zone) (tl : expr) (s e : mbound) (p : period) (g : option groupby) :
  fuel_ok z s e p fuel ->
  gm_pub_total_duration fuel z tl s e p g = total_duration_m z tl s e p g.
Proof.
  intros Hf. unfold gm_pub_total_duration, g_pub_total_duration, total_duration_m, by_group.
  rewrite g_validate_eq. destruct (validate_m p g); cbn [res_bind]; try reflexivity.
  destruct g as [g'|].
  - fold (gm_grouped_agg fuel z tl s e p g' (g_total_duration flatten_ tslice) (fun l_ => fold_left Z.add l_ 0)).
    rewrite (g_grouped_agg_eq _ _ _ _ _ _ _ _ _ Hf).
    rewrite (grouped_agg_m_ext z tl s e p g' _ total_duration_ _ zsum)
      by (intros; try apply g_total_duration_eq; reflexivity).
    reflexivity.
  - fold (gm_windowed_agg fuel z tl s e p (g_total_duration flatten_ tslice)).
    rewrite (g_windowed_agg_eq _ _ _ _ _ _ _ Hf).
    rewrite (windowed_agg_m_ext z tl s e p _ total_duration_) by (intros; apply g_total_duration_eq).
    reflexivity.
Qed.
Print Assumptions g_pub_total_duration_eq.

Theorem g_pub_count_intervals_eq (fuel : nat) (z : zone) (tl : expr) (s e : mbound) (p : period) (g : option groupby) :
  fuel_ok z s e p fuel ->
  gm_pub_count_intervals fuel z tl s e p g = count_intervals_m z tl s e p g.
Proof.
  intros Hf. unfold gm_pub_count_intervals, g_pub_count_intervals, count_intervals_m, by_group.
  rewrite g_validate_eq. destruct (validate_m p g); cbn [res_bind]; try reflexivity.
  destruct g as [g'|].
  - fold (gm_grouped_agg fuel z tl s e p g' (g_count_agg tslice) (fun l_ => fold_left Z.add l_ 0)).
    rewrite (g_grouped_agg_eq _ _ _ _ _ _ _ _ _ Hf).
    rewrite (grouped_agg_m_ext z tl s e p g' _ count_ _ zsum)
      by (intros; try apply g_count_agg_eq; reflexivity).
    reflexivity.
  - fold (gm_windowed_agg fuel z tl s e p (g_count_agg tslice)).
    rewrite (g_windowed_agg_eq _ _ _ _ _ _ _ Hf).
    rewrite (windowed_agg_m_ext z tl s e p _ count_) by (intros; apply g_count_agg_eq).
    reflexivity.
Qed.
Print Assumptions g_pub_count_intervals_eq.

Theorem g_pub_coverage_ratio_eq (fuel : nat) (z : zone) (tl : expr) (s e : mbound) (p : period) (g : option groupby) :
  fuel_ok z s e p fuel ->
  gm_pub_coverage_ratio fuel z tl s e p g = coverage_ratio_m z tl s e p g.
Proof.
  intros Hf. unfold gm_pub_coverage_ratio, g_pub_coverage_ratio, coverage_ratio_m, by_group.
  rewrite g_validate_eq. destruct (validate_m p g); cbn [res_bind]; try reflexivity.
  destruct g as [g'|].
  - fold (gm_grouped_agg fuel z tl s e p g' (g_cov_agg_tuple flatten_ tslice) g_cov_combine_ratios).
    rewrite (g_grouped_agg_eq _ _ _ _ _ _ _ _ _ Hf).
    rewrite (grouped_agg_m_ext z tl s e p g' _ ratio_tuple _ combine_ratios)
      by (intros; try apply g_cov_agg_tuple_eq; reflexivity).
    reflexivity.
  - fold (gm_windowed_agg fuel z tl s e p (g_cov_agg flatten_ tslice)).
    rewrite (g_windowed_agg_eq _ _ _ _ _ _ _ Hf).
    rewrite (windowed_agg_m_ext z tl s e p _ ratio_win) by (intros; apply g_cov_agg_eq).
    reflexivity.
Qed.
Print Assumptions g_pub_coverage_ratio_eq.

Theorem g_pub_max_duration_eq (fuel : nat) (z : zone) (tl : expr) (s e : mbound) (p : period) :
  fuel_ok z s e p fuel ->
  gm_pub_max_duration fuel z tl s e p = max_duration_m z tl s e p.
Proof.
  intros Hf. unfold gm_pub_max_duration, g_pub_max_duration, max_duration_m.
  fold (gm_windowed_agg fuel z tl s e p (g_max_agg tslice)).
  rewrite (g_windowed_agg_eq _ _ _ _ _ _ _ Hf).
  rewrite (windowed_agg_m_ext z tl s e p _ (fun c a b => extremum_duration c a b true)) by (intros; apply g_max_agg_eq).
  destruct (windowed_agg_m z tl s e p (fun c a b => extremum_duration c a b true)); reflexivity.
Qed.
Print Assumptions g_pub_max_duration_eq.

Theorem g_pub_min_duration_eq (fuel : nat) (z : zone) (tl : expr) (s e : mbound) (p : period) :
  fuel_ok z s e p fuel ->
  gm_pub_min_duration fuel z tl s e p = min_duration_m z tl s e p.
Proof.
  intros Hf. unfold gm_pub_min_duration, g_pub_min_duration, min_duration_m.
  fold (gm_windowed_agg fuel z tl s e p (g_min_agg tslice)).
  rewrite (g_windowed_agg_eq _ _ _ _ _ _ _ Hf).
  rewrite (windowed_agg_m_ext z tl s e p _ (fun c a b => extremum_duration c a b false)) by (intros; apply g_min_agg_eq).
  destruct (windowed_agg_m z tl s e p (fun c a b => extremum_duration c a b false)); reflexivity.
Qed.
Print Assumptions g_pub_min_duration_eq.

(* ---- ... and on the bounds of Model/Metrics.v they are the public functions of Model/Metrics.v ---- *)
Lemma total_duration_m_model z tl s e p g :
  total_duration_m z tl (mb_of_bound s) (mb_of_bound e) p g = res_of_ints g (Metrics.total_duration z tl s e p g).
Proof.
  unfold total_duration_m, by_group, validate_m, Metrics.total_duration.
  destruct (valid_group_by p g); cbn [negb res_bind]; [|reflexivity].
  destruct g as [g'|]; [rewrite grouped_agg_m_model|rewrite windowed_agg_m_model];
    match goal with |- context [opt_res ?X] => destruct X end; reflexivity.
Qed.

Lemma count_intervals_m_model z tl s e p g :
  count_intervals_m z tl (mb_of_bound s) (mb_of_bound e) p g = res_of_ints g (Metrics.count_intervals z tl s e p g).
Proof.
  unfold count_intervals_m, by_group, validate_m, Metrics.count_intervals.
  destruct (valid_group_by p g); cbn [negb res_bind]; [|reflexivity].
  destruct g as [g'|]; [rewrite grouped_agg_m_model|rewrite windowed_agg_m_model];
    match goal with |- context [opt_res ?X] => destruct X end; reflexivity.
Qed.

Lemma coverage_ratio_m_model z tl s e p g :
  coverage_ratio_m z tl (mb_of_bound s) (mb_of_bound e) p g = res_of_rats g (Metrics.coverage_ratio z tl s e p g).
Proof.
  unfold coverage_ratio_m, by_group, validate_m, Metrics.coverage_ratio.
  destruct (valid_group_by p g); cbn [negb res_bind]; [|reflexivity].
  destruct g as [g'|]; [rewrite grouped_agg_m_model|rewrite windowed_agg_m_model];
    match goal with |- context [opt_res ?X] => destruct X end; reflexivity.
Qed.

Lemma max_duration_m_model z tl s e p :
  max_duration_m z tl (mb_of_bound s) (mb_of_bound e) p = res_of_ivls (Metrics.max_duration z tl s e p).
Proof.
  unfold max_duration_m, Metrics.max_duration. rewrite windowed_agg_m_model.
  match goal with |- context [opt_res ?X] => destruct X end; reflexivity.
Qed.

Lemma min_duration_m_model z tl s e p :
  min_duration_m z tl (mb_of_bound s) (mb_of_bound e) p = res_of_ivls (Metrics.min_duration z tl s e p).
Proof.
  unfold min_duration_m, Metrics.min_duration. rewrite windowed_agg_m_model.
  match goal with |- context [opt_res ?X] => destruct X end; reflexivity.
Qed.

(* HEADLINES: the generated public functions, run on the model's bounds with the model's fuel, return
   what the public functions of Model/Metrics.v return (per-period rows inl, per-group rows inr) *)
Theorem g_pub_total_duration_is_model fuel z tl s e p g :
  (windows_fuel z (coerce_bound z s) (coerce_bound z e) p <= fuel)%nat ->
  gm_pub_total_duration fuel z tl (mb_of_bound s) (mb_of_bound e) p g = res_of_ints g (Metrics.total_duration z tl s e p g).
Proof. intros H. rewrite (g_pub_total_duration_eq _ _ _ _ _ _ _ (fuel_ok_model _ _ _ _ _ H)). apply total_duration_m_model. Qed.
Print Assumptions g_pub_total_duration_is_model.

Theorem g_pub_count_intervals_is_model fuel z tl s e p g :
  (windows_fuel z (coerce_bound z s) (coerce_bound z e) p <= fuel)%nat ->
  gm_pub_count_intervals fuel z tl (mb_of_bound s) (mb_of_bound e) p g = res_of_ints g (Metrics.count_intervals z tl s e p g).
Proof. intros H. rewrite (g_pub_count_intervals_eq _ _ _ _ _ _ _ (fuel_ok_model _ _ _ _ _ H)). apply count_intervals_m_model. Qed.
Print Assumptions g_pub_count_intervals_is_model.

Theorem g_pub_coverage_ratio_is_model fuel z tl s e p g :
  (windows_fuel z (coerce_bound z s) (coerce_bound z e) p <= fuel)%nat ->
  gm_pub_coverage_ratio fuel z tl (mb_of_bound s) (mb_of_bound e) p g = res_of_rats g (Metrics.coverage_ratio z tl s e p g).
Proof. intros H. rewrite (g_pub_coverage_ratio_eq _ _ _ _ _ _ _ (fuel_ok_model _ _ _ _ _ H)). apply coverage_ratio_m_model. Qed.
Print Assumptions g_pub_coverage_ratio_is_model.

Theorem g_pub_max_duration_is_model fuel z tl s e p :
  (windows_fuel z (coerce_bound z s) (coerce_bound z e) p <= fuel)%nat ->
  gm_pub_max_duration fuel z tl (mb_of_bound s) (mb_of_bound e) p = res_of_ivls (Metrics.max_duration z tl s e p).
Proof. intros H. rewrite (g_pub_max_duration_eq _ _ _ _ _ _ (fuel_ok_model _ _ _ _ _ H)). apply max_duration_m_model. Qed.
Print Assumptions g_pub_max_duration_is_model.

Theorem g_pub_min_duration_is_model fuel z tl s e p :
  (windows_fuel z (coerce_bound z s) (coerce_bound z e) p <= fuel)%nat ->
  gm_pub_min_duration fuel z tl (mb_of_bound s) (mb_of_bound e) p = res_of_ivls (Metrics.min_duration z tl s e p).
Proof. intros H. rewrite (g_pub_min_duration_eq _ _ _ _ _ _ (fuel_ok_model _ _ _ _ _ H)). apply min_duration_m_model. Qed.
Print Assumptions g_pub_min_duration_is_model.

(* ========================================================================================== *)
(* 7. non-vacuity: concrete runs meet the hypotheses, and every kind of outcome occurs          *)

Definition gm_tl0 : expr :=
  Stored [mkI (Some 1000) (Some 90000) Plain; mkI (Some 50000) (Some 120000) (Rich 7);
          mkI (Some 700000) (Some 700600) Plain].

Example g_pub_inst_fuel :
  (windows_fuel utc_zone (coerce_bound utc_zone (BInt 0)) (coerce_bound utc_zone (BInt 1000000)) PDay <= 20)%nat /\
  fuel_ok utc_zone (MBInt 0) (MBInt 1000000) PDay 20 /\
  fuel_ok utc_zone MBNaive (MBInt 1000000) PDay 0.
Proof.
  split; [vm_compute; lia|]. split.
  - apply (fuel_ok_model utc_zone (BInt 0) (BInt 1000000)). vm_compute. lia.
  - intros a b Ha. discriminate.
Qed.

Example g_pub_total_duration_inst :
  gm_pub_total_duration 20 utc_zone gm_tl0 (MBInt 0) (MBInt 1000000) PDay None =
    RDone (inl [(0, 85400); (1, 33600); (2, 0); (3, 0); (4, 0); (5, 0); (6, 0); (7, 0); (8, 600); (9, 0); (10, 0); (11, 0)]) /\
  gm_pub_total_duration 20 utc_zone gm_tl0 (MBInt 0) (MBInt 1000000) PDay (Some GDayOfWeek) =
    RDone (inr [(0, 0); (1, 0); (2, 0); (3, 85400); (4, 34200); (5, 0); (6, 0)]) /\
  Metrics.total_duration utc_zone gm_tl0 (BInt 0) (BInt 1000000) PDay (Some GDayOfWeek) =
    RInts [(0, 0); (1, 0); (2, 0); (3, 85400); (4, 34200); (5, 0); (6, 0)] /\
  gm_pub_total_duration 20 utc_zone gm_tl0 (MBInt 0) (MBInt 1000000) PDay (Some GHourOfDay) = RRaise ValueError /\
  gm_pub_total_duration 20 utc_zone gm_tl0 MBNaive (MBInt 1000000) PDay None = RRaise TypeError /\
  gm_pub_total_duration 3 utc_zone gm_tl0 (MBInt 0) (MBInt 1000000) PDay None = RFuel.
Proof. vm_compute. repeat split. Qed.

Example g_pub_others_inst :
  gm_pub_coverage_ratio 20 utc_zone gm_tl0 (MBDate 1970 1 1) (MBDate 1970 1 9) PWeek (Some GWeekOfYear) =
    RDone (inr [(1, (119000, 604800)); (2, (0, 604800))]) /\
  gm_pub_coverage_ratio 20 utc_zone gm_tl0 (MBDate 1970 1 1) (MBDate 1970 1 9) PWeek None =
    RDone (inl [(-3, (119000, 604800)); (4, (0, 604800))]) /\
  gm_pub_count_intervals 20 utc_zone gm_tl0 (MBInt 0) (MBAware 1000000) PDay (Some GDayOfMonth) =
    RDone (inr [(1, 2); (2, 2); (3, 0); (4, 0); (5, 0); (6, 0); (7, 0); (8, 0); (9, 1); (10, 0); (11, 0); (12, 0)]) /\
  gm_pub_max_duration 20 utc_zone gm_tl0 (MBInt 0) (MBInt 1000000) PFull =
    RDone [(0, Some (mkI (Some 1000) (Some 90000) Plain))] /\
  gm_pub_min_duration 20 utc_zone gm_tl0 (MBInt 0) (MBInt 1000000) PMonth =
    RDone [(0, Some (mkI (Some 700000) (Some 700600) Plain))].
Proof. vm_compute. repeat split. Qed.

(* ========================================================================================== *)
(* 8. headline facts of C13 stated of the generated definitions (what the code says now)        *)
From CG Require Proofs.Defs Spec.MetricsSpec.

(* _total_duration of a stored timeline over a window is the measure of its coverage there *)
Theorem src_total_is_measure evs ws we :
  Forall Defs.wf_ivl evs -> NEG_INF < ws -> ws < we -> we < POS_INF ->
  g_total_duration flatten_ tslice (Stored evs) ws we = MetricsSpec.measure evs ws we.
Proof. intros. rewrite g_total_duration_eq. apply MetricsP.total_is_measure; assumption. Qed.
Print Assumptions src_total_is_measure.

(* ... and through make_timeline( *tl[A:B] ) as _windowed_agg / _grouped_agg build it *)
Theorem src_total_is_measure_per_period evs A B s e :
  Forall Defs.wf_ivl evs -> NEG_INF < A -> A < B -> B < POS_INF -> NEG_INF < s -> s < e -> e < POS_INF ->
  g_total_duration flatten_ tslice (Stored (tslice (Stored evs) A B)) s e = MetricsSpec.measure evs (Z.max A s) (Z.min B e).
Proof.
  intros. rewrite g_total_duration_eq.
  exact (MetricsP.total_is_measure_cached evs A B s e ltac:(assumption) ltac:(assumption) ltac:(assumption)
           ltac:(assumption) ltac:(assumption) ltac:(assumption) ltac:(assumption)).
Qed.
Print Assumptions src_total_is_measure_per_period.

(* _extremum_duration returns a bounded interval of the slice that is longest / shortest among the
   bounded ones, and None exactly when there is none *)
Theorem src_extremum_spec tl ws we fm :
  match g_extremum_duration tslice tl ws we fm with
  | None => forall y, In y (tslice tl ws we) -> MetricsP.blen y = None
  | Some x => In x (tslice tl ws we) /\
              exists l, MetricsP.blen x = Some l /\
                        forall y d, In y (tslice tl ws we) -> MetricsP.blen y = Some d -> if fm then d <= l else l <= d
  end.
Proof. rewrite g_extremum_duration_eq. apply MetricsP.extremum_spec. Qed.
Print Assumptions src_extremum_spec.

(* count_intervals._agg on a stored timeline counts the events with an instant inside the window *)
Theorem src_count_is_hits evs ws we :
  ws <= we -> g_count_agg tslice (Stored evs) ws we = Z.of_nat (length (filter (MetricsSpec.hits ws we) evs)).
Proof. intros. rewrite g_count_agg_eq. apply MetricsP.count_is_hits. assumption. Qed.
Print Assumptions src_count_is_hits.

(* with the model's fuel no public function runs out of fuel *)
Theorem src_metrics_never_out_of_fuel fuel z tl s e p g :
  (windows_fuel z (coerce_bound z s) (coerce_bound z e) p <= fuel)%nat ->
  gm_pub_total_duration fuel z tl (mb_of_bound s) (mb_of_bound e) p g <> RFuel /\
  gm_pub_count_intervals fuel z tl (mb_of_bound s) (mb_of_bound e) p g <> RFuel /\
  gm_pub_coverage_ratio fuel z tl (mb_of_bound s) (mb_of_bound e) p g <> RFuel /\
  gm_pub_max_duration fuel z tl (mb_of_bound s) (mb_of_bound e) p <> RFuel /\
  gm_pub_min_duration fuel z tl (mb_of_bound s) (mb_of_bound e) p <> RFuel.
Proof.
  intros H.
  rewrite (g_pub_total_duration_is_model _ _ _ _ _ _ _ H), (g_pub_count_intervals_is_model _ _ _ _ _ _ _ H),
    (g_pub_coverage_ratio_is_model _ _ _ _ _ _ _ H), (g_pub_max_duration_is_model _ _ _ _ _ _ H),
    (g_pub_min_duration_is_model _ _ _ _ _ _ H).
  pose proof (MetricsP2.metrics_never_out_of_fuel z tl FTotal s e p g) as H1.
  pose proof (MetricsP2.metrics_never_out_of_fuel z tl FCount s e p g) as H2.
  pose proof (MetricsP2.metrics_never_out_of_fuel z tl FRatio s e p g) as H3.
  pose proof (MetricsP2.metrics_never_out_of_fuel z tl FMax s e p g) as H4.
  pose proof (MetricsP2.metrics_never_out_of_fuel z tl FMin s e p g) as H5.
  cbn [metrics_run] in H1, H2, H3, H4, H5.
  repeat split.
  - destruct (Metrics.total_duration z tl s e p g); cbn [res_of_ints]; try discriminate. congruence.
  - destruct (Metrics.count_intervals z tl s e p g); cbn [res_of_ints]; try discriminate. congruence.
  - destruct (Metrics.coverage_ratio z tl s e p g); cbn [res_of_rats]; try discriminate. congruence.
  - destruct (Metrics.max_duration z tl s e p); cbn [res_of_ivls]; try discriminate. congruence.
  - destruct (Metrics.min_duration z tl s e p); cbn [res_of_ivls]; try discriminate. congruence.
Qed.
Print Assumptions src_metrics_never_out_of_fuel.
