(* Proofs/MetricsIso.v — the model's ISO week number (Thursday rule, Model/Metrics.v iso_week, what
   date.isocalendar() computes) equals the spec's (4-January rule, Spec/MetricsSpec.v iso_week_jan4)
   for every day: one 400-year era by computation, the rest by periodicity (146097 days = 20871 weeks). *)
From Coq Require Import ZArith List Bool Lia ZifyBool.
From CG Require Import Model.Civil Model.Metrics Spec.MetricsSpec Proofs.MetricsCivil.
Open Scope Z_scope.
Ltac Zify.zify_post_hook ::= Z.to_euclidean_division_equations.

Definition iso_chk (d : Z) : bool :=
  (iso_week d =? iso_week_jan4 d) && (1 <=? iso_week d) && (iso_week d <=? 53).

Lemma iso_era_checked : era_check_for iso_chk = true.
Proof. vm_compute. reflexivity. Qed.

Lemma weekday_shift d k : weekday (d + 146097 * k) = weekday d.
Proof. unfold weekday. lia. Qed.

Lemma year_of_shift d k : year_of (d + 146097 * k) = year_of d + 400 * k.
Proof. unfold year_of. rewrite cfd_shift. destruct (civil_from_days d) as [[y m] dd]. reflexivity. Qed.

Lemma monday_shift d k : monday_of (d + 146097 * k) = monday_of d + 146097 * k.
Proof. unfold monday_of. rewrite weekday_shift. lia. Qed.

Lemma week1_shift y k : week1 (y + 400 * k) = week1 y + 146097 * k.
Proof. unfold week1. rewrite dfc_shift, monday_shift. reflexivity. Qed.

Lemma iso_week_shift d k : iso_week (d + 146097 * k) = iso_week d.
Proof.
  unfold iso_week. rewrite weekday_shift. cbv zeta.
  replace (d + 146097 * k - weekday d + 3) with (d - weekday d + 3 + 146097 * k) by lia.
  rewrite year_of_shift, dfc_shift. f_equal. f_equal. lia.
Qed.

Lemma iso_week_jan4_shift d k : iso_week_jan4 (d + 146097 * k) = iso_week_jan4 d.
Proof.
  unfold iso_week_jan4. cbv zeta. rewrite year_of_shift, monday_shift.
  replace (year_of d + 400 * k - 1) with (year_of d - 1 + 400 * k) by lia.
  replace (year_of d + 400 * k + 1) with (year_of d + 1 + 400 * k) by lia.
  rewrite !week1_shift.
  replace (monday_of d + 146097 * k <? week1 (year_of d) + 146097 * k) with (monday_of d <? week1 (year_of d)) by lia.
  replace (week1 (year_of d + 1) + 146097 * k <=? monday_of d + 146097 * k)
    with (week1 (year_of d + 1) <=? monday_of d) by lia.
  destruct (monday_of d <? week1 (year_of d)); [f_equal; f_equal; lia|].
  destruct (week1 (year_of d + 1) <=? monday_of d); f_equal; f_equal; lia.
Qed.

Theorem iso_week_agrees d : iso_week d = iso_week_jan4 d /\ 1 <= iso_week d <= 53.
Proof.
  set (k := (d - ERA0) / ERA). set (d0 := d - 146097 * k).
  assert (Hr : ERA0 <= d0 < ERA0 + ERA) by (unfold d0, k, ERA, ERA0; lia).
  pose proof (era_day_ok_for iso_chk d0 iso_era_checked Hr) as C. unfold iso_chk in C.
  replace d with (d0 + 146097 * k) by (unfold d0; lia).
  rewrite iso_week_shift, iso_week_jan4_shift. lia.
Qed.

Print Assumptions iso_week_agrees.
