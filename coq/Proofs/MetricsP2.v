(* Proofs/MetricsP2.v — property C13, the parts that rested on testing only.
   1. group_by.  _grouped_agg returns one row per distinct group key of the period windows, keys
      strictly ascending, the row of key k being the combiner applied to the values of the windows with
      key k in window order; every per-window value is used exactly once          grouped_agg_char
      Hence the buckets of total_duration / count_intervals are the per-key sums of the per-period
      rows and add up to the same total        grouped_total_adds_up, grouped_count_adds_up
      a coverage_ratio bucket is (sum of covered seconds, sum of window seconds)  grouped_ratio_char
      and for a stored timeline under the hypotheses of C13_total_duration_rows the buckets pass the
      oracle's checks (Spec buckets_int_ok, additive_ok, buckets_rat_ok) and add up to the measure of
      the range                               grouped_stored_correct, count_stored_correct
   2. fuel.  The stepping loops never run out of fuel, for every zone table, range and period; no
      public function returns RFuel            win_loop_fuel_enough, metrics_never_out_of_fuel
   3. alignment.  Every window of the hour/day/week/month/year loops begins when the local clock
      reaches its label, a period boundary in the sense of Spec is_boundary (Monday 00:00, the 1st
      00:00, 1 January 00:00, ...), ends when the clock reaches the boundary exactly one period
      length (plen: 7 days, dim days, diy days) later, and labels are consecutive
                                              windows_calendar_aligned  (zone hypothesis only)
      With the range-end hypotheses the windows pass the oracle's whole check     model_windows_ok
      The extra hypothesis end_not_on_gap is needed: finding M4                   day_range_end_on_gap_refuted
   4. rows without group_by against the oracle: total_rows_correct, ratio_rows_correct *)
From CG Require Import Proofs.Defs Proofs.MetricsP Proofs.MetricsCivil Proofs.MetricsIso Spec.MetricsSpec.
From CG Require Proofs.CivilP.
Ltac Zify.zify_post_hook ::= Z.to_euclidean_division_equations.

(* ------------------------------------------------------------------------------------ *)
(* 1. buckets *)

(* strictly ascending *)
Fixpoint asc (l : list Z) : Prop :=
  match l with
  | [] => True
  | x :: r => Forall (Z.lt x) r /\ asc r
  end.

Lemma asc_strictly_asc l : asc l -> strictly_asc l = true.
Proof.
  induction l as [|x r IH]; intros H; [reflexivity|].
  destruct H as [Hx Hr]. cbn [strictly_asc]. destruct r as [|y r']; [reflexivity|].
  inversion Hx; subst. rewrite (IH Hr). lia.
Qed.

Lemma asc_NoDup l : asc l -> NoDup l.
Proof.
  induction l as [|x r IH]; intros H; [constructor|]. destruct H as [Hx Hr].
  constructor; [|apply IH, Hr]. intros Hin. rewrite Forall_forall in Hx. specialize (Hx x Hin). lia.
Qed.

Section Buckets.
  Context {A : Type}.
  Implicit Types (bs : list (Z * list A)) (kvs : list (Z * A)).

  (* buckets[k], [] when there is no such key *)
  Fixpoint bget (k : Z) bs : list A :=
    match bs with
    | [] => []
    | (k', vs) :: r => if k =? k' then vs else bget k r
    end.

  Lemma bucket_add_keys k v bs k' :
    In k' (map fst (bucket_add k v bs)) <-> k' = k \/ In k' (map fst bs).
  Proof.
    induction bs as [|[k0 vs] r IH]; cbn [bucket_add map fst In].
    - intuition.
    - destruct (k =? k0) eqn:E1; [|destruct (k <? k0) eqn:E2]; cbn [map fst In].
      + assert (k = k0) by lia. subst. intuition.
      + intuition.
      + rewrite IH. intuition.
  Qed.

  Lemma bucket_add_asc k v bs : asc (map fst bs) -> asc (map fst (bucket_add k v bs)).
  Proof.
    induction bs as [|[k0 vs] r IH]; intros H; cbn [bucket_add map fst].
    - cbn. auto.
    - cbn [map fst asc] in H. destruct H as [H0 Hr].
      destruct (k =? k0) eqn:E1; [|destruct (k <? k0) eqn:E2]; cbn [map fst asc].
      + split; assumption.
      + split; [|split; assumption]. constructor; [lia|].
        rewrite Forall_forall in *. intros y Hy. specialize (H0 y Hy). lia.
      + split; [|apply IH, Hr]. rewrite Forall_forall in *. intros y Hy.
        apply bucket_add_keys in Hy as [->|Hy]; [lia|apply H0, Hy].
  Qed.

  Lemma bget_absent k bs : ~ In k (map fst bs) -> bget k bs = [].
  Proof.
    induction bs as [|[k0 vs] r IH]; intros H; [reflexivity|]. cbn [bget map fst In] in *.
    destruct (k =? k0) eqn:E; [exfalso; apply H; left; lia|]. apply IH. tauto.
  Qed.

  Lemma bget_bucket_add k v bs k' :
    asc (map fst bs) ->
    bget k' (bucket_add k v bs) = if k' =? k then bget k bs ++ [v] else bget k' bs.
  Proof.
    induction bs as [|[k0 vs] r IH]; intros H; cbn [bucket_add bget].
    - destruct (k' =? k); reflexivity.
    - cbn [map fst asc] in H. destruct H as [H0 Hr]. rewrite Forall_forall in H0.
      destruct (k =? k0) eqn:E1; [|destruct (k <? k0) eqn:E2]; cbn [bget].
      + assert (k = k0) by lia. subst k0.
        destruct (k' =? k); reflexivity.
      + rewrite (bget_absent k r) by (intros Hin; specialize (H0 k Hin); lia).
        destruct (k' =? k) eqn:E3; [reflexivity|].
        destruct (k' =? k0); reflexivity.
      + rewrite (IH Hr).
        destruct (k' =? k0) eqn:E3; [|reflexivity].
        replace (k' =? k) with false by lia. reflexivity.
  Qed.

  Lemma bucket_add_nonempty k v bs :
    Forall (fun kv => snd kv <> []) bs -> Forall (fun kv => snd kv <> []) (bucket_add k v bs).
  Proof.
    induction bs as [|[k0 vs] r IH]; intros H; cbn [bucket_add].
    - constructor; [discriminate|constructor].
    - inversion H as [|? ? H1 H2]; subst.
      destruct (k =? k0); [|destruct (k <? k0)].
      + constructor; [|exact H2]. cbn [snd]. destruct vs; discriminate.
      + constructor; [discriminate|exact H].
      + constructor; [exact H1|apply IH, H2].
  Qed.

  (* all values of all buckets *)
  Lemma bucket_add_perm k v bs :
    Permutation (concat (map snd (bucket_add k v bs))) (concat (map snd bs) ++ [v]).
  Proof.
    induction bs as [|[k0 vs] r IH]; cbn [bucket_add].
    - reflexivity.
    - destruct (k =? k0); [|destruct (k <? k0)]; cbn [map snd concat].
      + rewrite <- !app_assoc. apply Permutation_app_head, Permutation_app_comm.
      + cbn [app]. change (v :: vs ++ concat (map snd r)) with ([v] ++ (vs ++ concat (map snd r))).
        apply Permutation_app_comm.
      + rewrite <- app_assoc. apply Permutation_app_head, IH.
  Qed.

  (* the buckets of an association list with unique keys are read back by bget *)
  Lemma bget_all bs : asc (map fst bs) -> map (fun k => (k, bget k bs)) (map fst bs) = bs.
  Proof.
    induction bs as [|[k0 vs] r IH]; intros H; [reflexivity|].
    cbn [map fst asc] in *. destruct H as [H0 Hr]. cbn [bget]. rewrite Z.eqb_refl. f_equal.
    rewrite <- (IH Hr) at 2. apply map_ext_in. intros k Hk. rewrite Forall_forall in H0.
    specialize (H0 k Hk). replace (k =? k0) with false by lia. reflexivity.
  Qed.

  (* the loop "for key, value: buckets[key].append(value)" *)
  Definition bfold kvs bs : list (Z * list A) :=
    fold_left (fun acc (kv : Z * A) => bucket_add (fst kv) (snd kv) acc) kvs bs.

  (* values with key k, in order *)
  Definition sel (k : Z) kvs : list A := map snd (filter (fun kv : Z * A => fst kv =? k) kvs).

  Lemma bfold_asc kvs : forall bs, asc (map fst bs) -> asc (map fst (bfold kvs bs)).
  Proof.
    induction kvs as [|[k v] r IH]; intros bs H; [exact H|]. cbn [bfold fold_left fst snd].
    apply IH, bucket_add_asc, H.
  Qed.

  Lemma bfold_keys kvs k' : forall bs,
    In k' (map fst (bfold kvs bs)) <-> In k' (map fst bs) \/ In k' (map fst kvs).
  Proof.
    induction kvs as [|[k v] r IH]; intros bs; cbn [bfold fold_left fst snd map In].
    - tauto.
    - unfold bfold in IH. rewrite IH, bucket_add_keys. intuition.
  Qed.

  Lemma bfold_get kvs k' : forall bs, asc (map fst bs) ->
    bget k' (bfold kvs bs) = bget k' bs ++ sel k' kvs.
  Proof.
    induction kvs as [|[k v] r IH]; intros bs H; cbn [bfold fold_left fst snd].
    - unfold sel. cbn. rewrite app_nil_r. reflexivity.
    - unfold bfold in IH. rewrite (IH _ (bucket_add_asc k v bs H)), bget_bucket_add by exact H.
      unfold sel. cbn [filter fst]. rewrite (Z.eqb_sym k k').
      destruct (k' =? k) eqn:E; cbn [map snd].
      + assert (k' = k) by lia. subst. rewrite <- app_assoc. reflexivity.
      + reflexivity.
  Qed.

  Lemma bfold_nonempty kvs : forall bs,
    Forall (fun kv => snd kv <> []) bs -> Forall (fun kv => snd kv <> []) (bfold kvs bs).
  Proof.
    induction kvs as [|[k v] r IH]; intros bs H; [exact H|]. cbn [bfold fold_left fst snd].
    apply IH, bucket_add_nonempty, H.
  Qed.

  Lemma bfold_perm kvs : forall bs,
    Permutation (concat (map snd (bfold kvs bs))) (concat (map snd bs) ++ map snd kvs).
  Proof.
    induction kvs as [|[k v] r IH]; intros bs; cbn [bfold fold_left fst snd map].
    - rewrite app_nil_r. reflexivity.
    - unfold bfold in IH. rewrite IH, bucket_add_perm, <- app_assoc. reflexivity.
  Qed.

  (* The buckets built from nothing: one per distinct key, keys strictly ascending, each holding the
     values with that key in the order they came, none empty; together a permutation of all values *)
  Theorem bfold_char kvs :
    let bs := bfold kvs [] in
    asc (map fst bs) /\
    (forall k, In k (map fst bs) <-> In k (map fst kvs)) /\
    bs = map (fun k => (k, sel k kvs)) (map fst bs) /\
    Forall (fun kv => snd kv <> []) bs /\
    Permutation (concat (map snd bs)) (map snd kvs).
  Proof.
    cbv zeta. assert (H0 : asc (map fst (@nil (Z * list A)))) by exact I.
    pose proof (bfold_asc kvs [] H0) as Ha. split; [exact Ha|]. split; [|split; [|split]].
    - intros k. rewrite bfold_keys. cbn. tauto.
    - rewrite <- (bget_all _ Ha) at 1. apply map_ext. intros k. rewrite bfold_get by exact H0. reflexivity.
    - apply bfold_nonempty. constructor.
    - apply (bfold_perm kvs []).
  Qed.
End Buckets.

(* ------------------------------------------------------------------------------------ *)
(* 2. calendar: lengths of months and years, fields of the first of a month *)

(* yd y + k is the day number of day k (from 0) of the March-based year y: 1 March y .. end of February y+1 *)
Definition yd (y : Z) : Z :=
  let era := y / 400 in let yoe := y - era * 400 in
  era * 146097 + (yoe * 365 + yoe / 4 - yoe / 100) - 719468.

Lemma dfc_alt y m d :
  days_from_civil y m d =
  if m <=? 2 then yd (y - 1) + (153 * (m + 9) + 2) / 5 + d - 1 else yd y + (153 * (m - 3) + 2) / 5 + d - 1.
Proof.
  unfold days_from_civil, yd. cbv zeta. destruct (m <=? 2) eqn:E1; destruct (m >? 2) eqn:E2; try lia.
Qed.

Lemma yd_step y : yd y = yd (y - 1) + (if is_leap y then 366 else 365).
Proof.
  unfold yd, is_leap. cbv zeta.
  destruct ((y mod 4 =? 0) && negb (y mod 100 =? 0) || (y mod 400 =? 0)) eqn:E; lia.
Qed.

(* the first of the next month comes dim days after the first of this month *)
Lemma month_len y m : 1 <= m <= 12 -> next_month_start y m = days_from_civil y m 1 + dim y m.
Proof.
  intros Hm. unfold next_month_start.
  assert (C : m = 1 \/ m = 2 \/ m = 3 \/ m = 4 \/ m = 5 \/ m = 6 \/ m = 7 \/ m = 8 \/ m = 9 \/ m = 10 \/
              m = 11 \/ m = 12) by lia.
  rewrite !dfc_alt. unfold dim. replace (y + 1 - 1) with y by lia. rewrite (yd_step y).
  generalize (yd (y - 1)). intros Y.
  destruct C as [E|[E|[E|[E|[E|[E|[E|[E|[E|[E|[E|E]]]]]]]]]]]; subst m;
    cbn [Z.eqb Pos.eqb Z.leb Z.compare Pos.compare Pos.compare_cont orb Z.add Pos.add Pos.succ];
    destruct (is_leap y); lia.
Qed.

Lemma year_len y : days_from_civil (y + 1) 1 1 = days_from_civil y 1 1 + diy y.
Proof.
  rewrite !dfc_alt. cbn [Z.leb Z.compare Pos.compare Pos.compare_cont]. replace (y + 1 - 1) with y by lia.
  rewrite (yd_step y). unfold diy. destruct (is_leap y); lia.
Qed.

Lemma wall_day_dt y m d : wall_day (dt_ymd y m d) = days_from_civil y m d.
Proof. unfold dt_ymd, mk_wall, wall_day, DAY. lia. Qed.

Lemma dt_ymd_mod y m d : dt_ymd y m d mod DAY = 0.
Proof. unfold dt_ymd, mk_wall, DAY. lia. Qed.

(* datetime(y, m, 1): its fields *)
Lemma first_fields y m : 1 <= m <= 12 ->
  civil_from_days (days_from_civil y m 1) = (y, m, 1).
Proof.
  intros Hm. apply CivilP.civil_from_days_from_civil. unfold valid_date.
  pose proof (CivilP.dim_bounds y m). lia.
Qed.

Lemma w_fields_first y m : 1 <= m <= 12 ->
  w_year (dt_ymd y m 1) = y /\ w_month (dt_ymd y m 1) = m /\ w_day (dt_ymd y m 1) = 1.
Proof.
  intros Hm. unfold w_year, w_month, w_day, year_of, month_of, day_of.
  rewrite wall_day_dt, (first_fields y m Hm). auto.
Qed.

Lemma w_month_range w : 1 <= w_month w <= 12.
Proof.
  unfold w_month, month_of. pose proof (civil_facts (wall_day w)) as F.
  destruct (civil_from_days (wall_day w)) as [[y m] dd]. cbn [fst snd]. tauto.
Qed.

(* the values [current] takes in the month loop / year loop *)
Definition month_start (c : Z) : Prop := exists y m, 1 <= m <= 12 /\ c = dt_ymd y m 1.
Definition year_start (c : Z) : Prop := exists y, c = dt_ymd y 1 1.

Lemma next_month_exact c : month_start c ->
  month_start (next_month c) /\ next_month c = c + dim (w_year c) (w_month c) * DAY.
Proof.
  intros (y & m & Hm & ->). destruct (w_fields_first y m Hm) as (Ey & Em & _).
  unfold next_month. rewrite Ey, Em.
  pose proof (month_len y m Hm) as L. unfold next_month_start in L.
  destruct (m =? 12) eqn:E.
  - split; [exists (y + 1), 1; split; [lia|reflexivity]|]. unfold dt_ymd, mk_wall in *. lia.
  - split; [exists y, (m + 1); split; [lia|reflexivity]|]. unfold dt_ymd, mk_wall in *. lia.
Qed.

Lemma next_year_exact c : year_start c ->
  year_start (next_year c) /\ next_year c = c + diy (w_year c) * DAY.
Proof.
  intros (y & ->). destruct (w_fields_first y 1 ltac:(lia)) as (Ey & _ & _).
  unfold next_year. rewrite Ey. split; [exists (y + 1); reflexivity|].
  pose proof (year_len y). unfold dt_ymd, mk_wall in *. lia.
Qed.

Lemma month_start_snap w : month_start (dt_ymd (w_year w) (w_month w) 1).
Proof. exists (w_year w), (w_month w). split; [apply w_month_range|reflexivity]. Qed.

Lemma year_start_snap w : year_start (dt_ymd (w_year w) 1 1).
Proof. exists (w_year w). reflexivity. Qed.

(* ------------------------------------------------------------------------------------ *)
(* 3. fuel *)

Lemma win_loop_enough z next (P : Z -> Prop) u ew :
  0 < u -> (forall c, P c -> P (next c) /\ c + u <= next c) ->
  forall fuel c, P c -> ew <= c + u * Z.of_nat fuel -> win_loop fuel z next c ew <> None.
Proof.
  intros Hu Hstep. induction fuel as [|f IH]; intros c Hc Hle; cbn [win_loop].
  - replace (c <? ew) with false by lia. discriminate.
  - destruct (c <? ew) eqn:E; [|discriminate].
    destruct (Hstep c Hc) as [Hn Hadv].
    specialize (IH (next c) Hn). 
    destruct (win_loop f z next (next c) ew); [discriminate|].
    exfalso. apply IH; [|reflexivity]. 
    replace (Z.of_nat (S f)) with (Z.of_nat f + 1) in Hle by lia.
    rewrite Z.mul_add_distr_l in Hle. lia.
Qed.

Lemma loop_fuel_covers u c ew : 0 < u -> ew <= c + u * Z.of_nat (loop_fuel u c ew).
Proof.
  intros Hu. unfold loop_fuel.
  pose proof (Z.div_mod (ew - c) u ltac:(lia)) as D. pose proof (Z.mod_pos_bound (ew - c) u Hu) as B.
  destruct (Z_le_gt_dec 0 ((ew - c) / u + 3)) as [Hge|Hlt].
  - rewrite Z2Nat.id by exact Hge. rewrite Z.mul_add_distr_l.
    generalize dependent ((ew - c) mod u). generalize dependent (u * ((ew - c) / u)). intros. lia.
  - replace (Z.to_nat ((ew - c) / u + 3)) with O by lia. 
    assert (u * ((ew - c) / u) <= u * (-3)) by (apply Z.mul_le_mono_nonneg_l; lia).
    generalize dependent ((ew - c) mod u). generalize dependent (u * ((ew - c) / u)). intros. lia.
Qed.

Lemma loop_never_starves z next (P : Z -> Prop) u c ew :
  0 < u -> (forall c, P c -> P (next c) /\ c + u <= next c) -> P c ->
  win_loop (loop_fuel u c ew) z next c ew <> None.
Proof. intros Hu Hs Hc. apply (win_loop_enough z next P u ew Hu Hs _ c Hc), loop_fuel_covers, Hu. Qed.

(* The stepping loops never run out of fuel: every zone table, range and period (no hypothesis: the
   loop test and the steps only look at wall clock values). *)
Theorem win_loop_fuel_enough z a b p : period_windows_dt z a b p <> None.
Proof.
  unfold period_windows_dt. destruct (a >=? b); [discriminate|].
  destruct p; try discriminate.
  - apply (loop_never_starves z next_hour (fun _ => True)); [lia| |exact I].
    intros c _. unfold next_hour. split; [exact I|lia].
  - apply (loop_never_starves z next_day (fun _ => True)); [unfold DAY; lia| |exact I].
    intros c _. unfold next_day. split; [exact I|lia].
  - apply (loop_never_starves z next_week (fun _ => True)); [unfold DAY; lia| |exact I].
    intros c _. unfold next_week. split; [exact I|lia].
  - apply (loop_never_starves z next_month month_start); [unfold DAY; lia| |apply month_start_snap].
    intros c Hc. destruct (next_month_exact c Hc) as [Hn E]. split; [exact Hn|]. rewrite E.
    pose proof (CivilP.dim_bounds (w_year c) (w_month c)). unfold DAY in *. lia.
  - apply (loop_never_starves z next_year year_start); [unfold DAY; lia| |apply year_start_snap].
    intros c Hc. destruct (next_year_exact c Hc) as [Hn E]. split; [exact Hn|]. rewrite E.
    pose proof (CivilP.diy_bounds (w_year c)). unfold DAY in *. lia.
Qed.
Print Assumptions win_loop_fuel_enough.

Corollary period_windows_total z a b p : exists ws, period_windows_dt z a b p = Some ws.
Proof.
  destruct (period_windows_dt z a b p) as [ws|] eqn:E; [exists ws; reflexivity|].
  exfalso. exact (win_loop_fuel_enough z a b p E).
Qed.
Print Assumptions period_windows_total.

(* ------------------------------------------------------------------------------------ *)
(* 4. _grouped_agg and _windowed_agg *)

Definition wkey (g : groupby) (w : win) : Z := group_key g (wlabel w).
Definition wval {A} (agg : expr -> Z -> Z -> A) (c : expr) (w : win) : A := let '(_, a, b) := w in agg c a b.
(* the windows whose key is k, in order *)
Definition members (g : groupby) (k : Z) (ws : list win) : list win := filter (fun w => wkey g w =? k) ws.

Lemma grouped_fold_bfold {A} g (agg : expr -> Z -> Z -> A) c ws : forall bs,
  fold_left (fun bs (w : win) => let '(l, a, b) := w in bucket_add (group_key g l) (agg c a b) bs) ws bs
  = bfold (map (fun w => (wkey g w, wval agg c w)) ws) bs.
Proof.
  unfold bfold. induction ws as [|[[l a] b] r IH]; intros bs; [reflexivity|].
  cbn [fold_left map]. rewrite IH. reflexivity.
Qed.

Lemma sel_members {A} g (f : win -> A) k ws :
  sel k (map (fun w => (wkey g w, f w)) ws) = map f (members g k ws).
Proof.
  unfold sel, members. induction ws as [|w r IH]; [reflexivity|]. cbn [map filter fst].
  destruct (wkey g w =? k); cbn [map snd]; rewrite IH; reflexivity.
Qed.

(* The result of _grouped_agg: one row per distinct group key of the period windows, keys strictly
   ascending, the row of key k being the combiner applied to the per-window values of the windows with
   key k, in window order; all per-window values are used, each exactly once.  (And never out of fuel.) *)
Theorem grouped_agg_char {A B} z tl s e p g (agg : expr -> Z -> Z -> A) (comb : list A -> B) :
  let a := coerce_bound z s in let b := coerce_bound z e in let c := cached_timeline tl a b in
  exists ws keys,
    period_windows_dt z a b p = Some ws /\
    asc keys /\ (forall k, In k keys <-> In k (map (wkey g) ws)) /\
    Forall (fun k => members g k ws <> []) keys /\
    Permutation (concat (map (fun k => map (wval agg c) (members g k ws)) keys)) (map (wval agg c) ws) /\
    grouped_agg z tl s e p g agg comb
      = Some (map (fun k => (k, comb (map (wval agg c) (members g k ws)))) keys) /\
    windowed_agg z tl s e p agg = Some (map (fun w => (label_of p (wlabel w), wval agg c w)) ws).
Proof.
  cbv zeta. destruct (period_windows_total z (coerce_bound z s) (coerce_bound z e) p) as [ws Hws].
  set (c := cached_timeline tl (coerce_bound z s) (coerce_bound z e)).
  set (kvs := map (fun w => (wkey g w, wval agg c w)) ws).
  destruct (bfold_char kvs) as (Ha & Hk & Hb & Hn & Hp).
  exists ws, (map fst (bfold kvs [])).
  split; [exact Hws|]. split; [exact Ha|]. split; [|split; [|split; [|split]]].
  - intros k. rewrite Hk. unfold kvs. rewrite map_map. cbn [fst]. tauto.
  - rewrite Hb in Hn. rewrite Forall_map in Hn. rewrite Forall_forall in *. intros k Hin.
    specialize (Hn k Hin). cbn [snd] in Hn. unfold kvs in Hn. rewrite sel_members in Hn.
    intros E. rewrite E in Hn. apply Hn. reflexivity.
  - assert (E1 : map snd (bfold kvs []) =
                 map (fun k => map (wval agg c) (members g k ws)) (map fst (bfold kvs []))).
    { rewrite Hb at 1. rewrite map_map. apply map_ext. intros k. cbn [snd]. apply sel_members. }
    assert (E2 : map snd kvs = map (wval agg c) ws) by (unfold kvs; rewrite map_map; reflexivity).
    rewrite <- E1, <- E2. exact Hp.
  - unfold grouped_agg. fold c. rewrite Hws, grouped_fold_bfold. fold kvs. f_equal.
    rewrite Hb at 1. rewrite !map_map. apply map_ext. intros k. cbn [fst snd]. unfold kvs.
    rewrite sel_members. reflexivity.
  - unfold windowed_agg. fold c. rewrite Hws. f_equal. apply map_ext. intros [[l a'] b']. reflexivity.
Qed.
Print Assumptions grouped_agg_char.

(* ------------------------------------------------------------------------------------ *)
(* 5. group_by results of the public functions against Spec/MetricsSpec.v *)

Lemma group_key_spec g L : group_key g L = spec_key g L.
Proof.
  destruct g; cbn [group_key spec_key]; try reflexivity.
  unfold wall_day. apply (proj1 (iso_week_agrees (L / DAY))).
Qed.

Lemma label_of_spec p L : label_of p L = spec_label p L.
Proof. destruct p; reflexivity. Qed.

Lemma sumZ_app l1 l2 : sumZ (l1 ++ l2) = sumZ l1 + sumZ l2.
Proof. unfold sumZ. induction l1 as [|x r IH]; cbn [app fold_right]; lia. Qed.

Lemma sumZ_concat ls : sumZ (concat ls) = sumZ (map sumZ ls).
Proof.
  induction ls as [|l r IH]; [reflexivity|]. cbn [concat map]. rewrite sumZ_app, IH. reflexivity.
Qed.

Lemma sumZ_perm l1 l2 : Permutation l1 l2 -> sumZ l1 = sumZ l2.
Proof.
  unfold sumZ. induction 1 as [|x l l' _ IH|x y l|l l' l'' _ IH1 _ IH2]; cbn [fold_right] in *; lia.
Qed.

Lemma zsum_sumZ l : zsum l = sumZ l.
Proof. unfold zsum. rewrite zsum_fold. lia. Qed.

Lemma members_filter g k ws : filter (fun w => spec_key g (wlabel w) =? k) ws = members g k ws.
Proof. unfold members, wkey. apply filter_ext. intros w. rewrite group_key_spec. reflexivity. Qed.

Lemma bucket_sum_members g val ws k : bucket_sum g val ws k = sumZ (map val (members g k ws)).
Proof. unfold bucket_sum. rewrite members_filter. reflexivity. Qed.

Lemma keys_ok_of g ws keys :
  asc keys -> (forall k, In k keys <-> In k (map (wkey g) ws)) -> keys_ok g ws keys = true.
Proof.
  intros Ha Hk. unfold keys_ok. rewrite (asc_strictly_asc keys Ha). cbn [andb].
  apply andb_true_intro. split.
  - apply forallb_forall. intros w Hw. apply existsb_exists. exists (wkey g w). split.
    + apply Hk, in_map, Hw.
    + unfold wkey. rewrite group_key_spec. apply Z.eqb_refl.
  - apply forallb_forall. intros k Hin. apply existsb_exists.
    apply Hk in Hin. apply in_map_iff in Hin as (w & E & Hw). exists w. split; [exact Hw|].
    unfold wkey in E. rewrite group_key_spec in E. lia.
Qed.

(* integer-valued aggregates (total_duration, count_intervals) grouped with sum() *)
Theorem grouped_ints_char z tl s e p g (agg : expr -> Z -> Z -> Z) :
  let a := coerce_bound z s in let b := coerce_bound z e in let c := cached_timeline tl a b in
  exists ws out,
    period_windows_dt z a b p = Some ws /\
    grouped_agg z tl s e p g agg zsum = Some out /\
    windowed_agg z tl s e p agg = Some (map (fun w => (label_of p (wlabel w), wval agg c w)) ws) /\
    buckets_int_ok g (wval agg c) ws out = true /\
    sumZ (map snd out) = sumZ (map (wval agg c) ws).
Proof.
  cbv zeta. destruct (grouped_agg_char z tl s e p g agg zsum) as (ws & keys & Hws & Ha & Hk & _ & Hp & Hg & Hw).
  cbv zeta in *. set (c := cached_timeline tl (coerce_bound z s) (coerce_bound z e)) in *.
  exists ws. eexists. split; [exact Hws|]. split; [exact Hg|]. split; [exact Hw|]. split.
  - unfold buckets_int_ok. rewrite map_map. cbn [fst]. rewrite map_id.
    rewrite (keys_ok_of g ws keys Ha Hk). cbn [andb].
    apply forallb_forall. intros o Ho. apply in_map_iff in Ho as (k & <- & _). cbn [fst snd].
    rewrite bucket_sum_members, zsum_sumZ. apply Z.eqb_refl.
  - rewrite map_map. cbn [snd]. rewrite <- (sumZ_perm _ _ Hp), sumZ_concat, map_map.
    f_equal. apply map_ext. intros k. apply zsum_sumZ.
Qed.

Lemma valid_group_by_none p : valid_group_by p None = true.
Proof. reflexivity. Qed.

(* total_duration(..., group_by=g): the buckets are the per-key sums of the per-period rows of
   total_duration(..., group_by=None), and add up to the same total *)
Theorem grouped_total_adds_up z tl s e p g :
  valid_group_by p (Some g) = true ->
  let a := coerce_bound z s in let b := coerce_bound z e in let c := cached_timeline tl a b in
  exists ws out,
    period_windows_dt z a b p = Some ws /\
    total_duration z tl s e p (Some g) = RInts out /\
    total_duration z tl s e p None
      = RInts (map (fun w => (label_of p (wlabel w), wval total_duration_ c w)) ws) /\
    buckets_int_ok g (wval total_duration_ c) ws out = true /\
    sumZ (map snd out) = sumZ (map (wval total_duration_ c) ws).
Proof.
  intros Hv. cbv zeta.
  destruct (grouped_ints_char z tl s e p g total_duration_) as (ws & out & Hws & Hg & Hw & Hb & Hs).
  exists ws, out. unfold total_duration. rewrite Hv, valid_group_by_none. cbn [negb].
  rewrite Hg, Hw. cbn [lift]. auto.
Qed.
Print Assumptions grouped_total_adds_up.

Theorem grouped_count_adds_up z tl s e p g :
  valid_group_by p (Some g) = true ->
  let a := coerce_bound z s in let b := coerce_bound z e in let c := cached_timeline tl a b in
  exists ws out,
    period_windows_dt z a b p = Some ws /\
    count_intervals z tl s e p (Some g) = RInts out /\
    count_intervals z tl s e p None = RInts (map (fun w => (label_of p (wlabel w), wval count_ c w)) ws) /\
    buckets_int_ok g (wval count_ c) ws out = true /\
    sumZ (map snd out) = sumZ (map (wval count_ c) ws).
Proof.
  intros Hv. cbv zeta.
  destruct (grouped_ints_char z tl s e p g count_) as (ws & out & Hws & Hg & Hw & Hb & Hs).
  exists ws, out. unfold count_intervals. rewrite Hv, valid_group_by_none. cbn [negb].
  rewrite Hg, Hw. cbn [lift]. auto.
Qed.
Print Assumptions grouped_count_adds_up.

(* ---- coverage_ratio(..., group_by=g): each bucket is (covered seconds, window seconds) summed over
        the bucket's windows, 0.0 when the window seconds are not positive ---- *)
Definition bucket_ratio (g : groupby) (val : win -> Z) (ws : list win) (k : Z) : Z * Z :=
  let n := bucket_sum g val ws k in
  let d := bucket_sum g wspan ws k in
  if 0 <? d then (n, d) else (0, 1).

Lemma combine_ratio_tuples c l :
  combine_ratios (map (wval ratio_tuple c) l) =
  let n := sumZ (map (wval total_duration_ c) l) in let d := sumZ (map wspan l) in
  if 0 <? d then (n, d) else (0, 1).
Proof.
  unfold combine_ratios. rewrite !zsum_sumZ, !map_map. cbv zeta.
  replace (map (fun x : win => fst (wval ratio_tuple c x)) l) with (map (wval total_duration_ c) l)
    by (apply map_ext; intros [[L a] b]; reflexivity).
  replace (map (fun x : win => snd (wval ratio_tuple c x)) l) with (map wspan l)
    by (apply map_ext; intros [[L a] b]; reflexivity).
  rewrite Z.gtb_ltb. reflexivity.
Qed.

Theorem grouped_ratio_char z tl s e p g :
  valid_group_by p (Some g) = true ->
  let a := coerce_bound z s in let b := coerce_bound z e in let c := cached_timeline tl a b in
  exists ws out,
    period_windows_dt z a b p = Some ws /\
    coverage_ratio z tl s e p (Some g) = RRats out /\
    keys_ok g ws (map fst out) = true /\
    Forall (fun o => snd o = bucket_ratio g (wval total_duration_ c) ws (fst o)) out.
Proof.
  intros Hv. cbv zeta.
  destruct (grouped_agg_char z tl s e p g ratio_tuple combine_ratios)
    as (ws & keys & Hws & Ha & Hk & _ & _ & Hg & _).
  cbv zeta in *. set (c := cached_timeline tl (coerce_bound z s) (coerce_bound z e)) in *.
  exists ws. eexists. split; [exact Hws|]. split; [|split].
  - unfold coverage_ratio. rewrite Hv. cbn [negb]. rewrite Hg. cbn [lift]. reflexivity.
  - rewrite map_map. cbn [fst]. rewrite map_id. apply keys_ok_of; assumption.
  - apply Forall_forall. intros o Ho. apply in_map_iff in Ho as (k & <- & _). cbn [fst snd].
    rewrite combine_ratio_tuples. unfold bucket_ratio. rewrite !bucket_sum_members. reflexivity.
Qed.
Print Assumptions grouped_ratio_char.

(* ---- for a stored timeline, under the hypotheses of C13_total_duration_rows: the grouped results
        satisfy the oracle's checks and the buckets add up to the measure of the range ---- *)
Lemma forallb_ext_all {X} (f h : X -> bool) l : (forall x, In x l -> f x = h x) -> forallb f l = forallb h l.
Proof.
  induction l as [|x r IH]; intros H; [reflexivity|]. cbn [forallb].
  rewrite (H x (or_introl eq_refl)), IH; [reflexivity|]. intros y Hy. apply H. right; exact Hy.
Qed.

Lemma bucket_sum_ext g v1 v2 ws k :
  (forall w, In w ws -> v1 w = v2 w) -> bucket_sum g v1 ws k = bucket_sum g v2 ws k.
Proof.
  intros H. unfold bucket_sum. f_equal. apply map_ext_in. intros w Hw. apply H.
  apply filter_In in Hw. tauto.
Qed.

Lemma chain_spans ws : forall s0, chain ws s0 -> Forall (fun w => 0 <= wspan w) ws.
Proof.
  induction ws as [|[[L s] e] r IH]; intros s0 H; [constructor|]. destruct H as (_ & Hse & Hr).
  constructor; [cbn; lia|apply (IH e Hr)].
Qed.

Lemma spec_total_bounds evs a b w : 0 <= wspan w -> 0 <= spec_total evs a b w <= wspan w.
Proof.
  destruct w as [[L s] e]. unfold wspan, spec_total, wlo, whi. intros H.
  destruct (Z_le_gt_dec (Z.max a s) (Z.min b e)) as [Hle|Hgt].
  - pose proof (measure_bounds evs _ _ Hle). lia.
  - rewrite measure_empty by lia. lia.
Qed.

Lemma sum_bounds {X} (f h : X -> Z) l :
  (forall x, In x l -> 0 <= f x <= h x) -> 0 <= sumZ (map f l) <= sumZ (map h l).
Proof.
  unfold sumZ. induction l as [|x r IH]; intros H; cbn [map fold_right]; [lia|].
  pose proof (H x (or_introl eq_refl)). specialize (IH (fun y Hy => H y (or_intror Hy))). lia.
Qed.

Theorem grouped_stored_correct z evs s e p g :
  valid_group_by p (Some g) = true ->
  let a := coerce_bound z s in let b := coerce_bound z e in
  Forall wf_ivl evs -> NEG_INF < a -> a < b -> b < POS_INF ->
  zone_wf (unit_of_period p) z = true ->
  (utc_to_wall z b mod unit_of_period p = 0 -> fold_of z b = false) ->
  exists ws outT outR,
    period_windows_dt z a b p = Some ws /\
    total_duration z (Stored evs) s e p (Some g) = RInts outT /\
    coverage_ratio z (Stored evs) s e p (Some g) = RRats outR /\
    (Forall win_bounded ws ->
       buckets_int_ok g (spec_total evs a b) ws outT = true /\
       additive_ok evs a b outT = true /\
       sumZ (map snd outT) = measure evs a b /\
       buckets_rat_ok g evs a b ws outR = true /\
       Forall (fun o => snd o = bucket_ratio g (spec_total evs a b) ws (fst o) /\
                        0 <= fst (snd o) <= snd (snd o) /\ 0 < snd (snd o)) outR).
Proof.
  intros Hv a b Hwf A1 A2 A3 Hz Hend. subst a b.
  destruct (grouped_total_adds_up z (Stored evs) s e p g Hv) as (ws & outT & Hws & HT & _ & HbT & HsT).
  destruct (grouped_ratio_char z (Stored evs) s e p g Hv) as (ws' & outR & Hws' & HR & HkR & HfR).
  cbv zeta in *. rewrite Hws in Hws'. inversion Hws'; subst ws'. clear Hws'.
  set (a := coerce_bound z s) in *. set (b := coerce_bound z e) in *.
  exists ws, outT, outR. split; [exact Hws|]. split; [exact HT|]. split; [exact HR|]. intros Hbd.
  destruct (C13_total_duration_rows z evs a b p ws Hwf A1 A2 A3 Hz Hend Hws Hbd) as [Ev Esum].
  destruct (windows_cover_range z a b p ws Hz A2 Hend Hws) as (s0 & Hch & _ & _).
  pose proof (chain_spans ws s0 Hch) as Hsp. rewrite Forall_forall in Hsp.
  assert (Ew : forall w, In w ws ->
                 wval total_duration_ (cached_timeline (Stored evs) a b) w = spec_total evs a b w).
  { intros w Hw. revert w Hw. apply ext_in_map. exact Ev. }
  assert (Ebs : forall k, bucket_sum g (wval total_duration_ (cached_timeline (Stored evs) a b)) ws k
                          = bucket_sum g (spec_total evs a b) ws k)
    by (intros k; apply bucket_sum_ext, Ew).
  assert (Sum : sumZ (map snd outT) = measure evs a b).
  { rewrite HsT. rewrite <- Esum. reflexivity. }
  split; [|split; [|split; [exact Sum|]]].
  - unfold buckets_int_ok in *. apply andb_prop in HbT as [H1 H2]. rewrite H1. cbn [andb].
    rewrite <- H2. apply forallb_ext_all. intros o _. rewrite Ebs. reflexivity.
  - unfold additive_ok. rewrite Sum. replace (a <? b) with true by lia. apply Z.eqb_refl.
  - assert (Q : forall o, In o outR ->
                  snd o = bucket_ratio g (spec_total evs a b) ws (fst o) /\
                  0 <= fst (snd o) <= snd (snd o) /\ 0 < snd (snd o)).
    { intros o Ho. rewrite Forall_forall in HfR. specialize (HfR o Ho).
      unfold bucket_ratio in *. rewrite Ebs in HfR. split; [exact HfR|]. rewrite HfR.
      rewrite !bucket_sum_members.
      pose proof (sum_bounds (spec_total evs a b) wspan (members g (fst o) ws)) as SB.
      assert (forall x, In x (members g (fst o) ws) -> 0 <= spec_total evs a b x <= wspan x).
      { intros x Hx. apply spec_total_bounds, Hsp. unfold members in Hx. apply filter_In in Hx. tauto. }
      specialize (SB H).
      destruct (0 <? sumZ (map wspan (members g (fst o) ws))) eqn:E; cbn [fst snd]; lia. }
    split; [|apply Forall_forall; exact Q].
    unfold buckets_rat_ok. rewrite HkR. cbn [andb]. apply forallb_forall. intros o Ho.
    destruct (Q o Ho) as (E & B1 & B2). cbv zeta. unfold bucket_ratio in E. cbv zeta in E. rewrite <- E.
    unfold rat_in_unit, rat_close.
    assert (0 <= fst (snd o) * snd (snd o)) by (apply Z.mul_nonneg_nonneg; lia).
    replace (fst (snd o) * snd (snd o) - fst (snd o) * snd (snd o)) with 0 by lia.
    cbn [Z.abs Z.mul]. lia.
Qed.
Print Assumptions grouped_stored_correct.

(* ------------------------------------------------------------------------------------ *)
(* 6. no public function ever reports out-of-fuel *)

Lemma windowed_agg_some {A} z tl s e p (agg : expr -> Z -> Z -> A) : windowed_agg z tl s e p agg <> None.
Proof.
  unfold windowed_agg.
  destruct (period_windows_total z (coerce_bound z s) (coerce_bound z e) p) as [ws ->]. discriminate.
Qed.

Lemma grouped_agg_some {A B} z tl s e p g (agg : expr -> Z -> Z -> A) (comb : list A -> B) :
  grouped_agg z tl s e p g agg comb <> None.
Proof.
  unfold grouped_agg.
  destruct (period_windows_total z (coerce_bound z s) (coerce_bound z e) p) as [ws ->]. discriminate.
Qed.

Lemma lift_not_fuel {A} (f : list (Z * A) -> mres) o :
  (forall l, f l <> RFuel) -> o <> None -> lift f o <> RFuel.
Proof. intros Hf Ho. destruct o as [l|]; [apply Hf|congruence]. Qed.

Theorem metrics_never_out_of_fuel z tl f s e p g : metrics_run z tl f s e p g <> RFuel.
Proof.
  destruct f; cbn [metrics_run];
    unfold total_duration, count_intervals, coverage_ratio, max_duration, min_duration.
  - destruct (negb (valid_group_by p g)); [discriminate|].
    destruct g; apply lift_not_fuel; try discriminate; [apply grouped_agg_some|apply windowed_agg_some].
  - destruct (negb (valid_group_by p g)); [discriminate|].
    destruct g; apply lift_not_fuel; try discriminate; [apply grouped_agg_some|apply windowed_agg_some].
  - destruct (negb (valid_group_by p g)); [discriminate|].
    destruct g; apply lift_not_fuel; try discriminate; [apply grouped_agg_some|apply windowed_agg_some].
  - apply lift_not_fuel; [discriminate|apply windowed_agg_some].
  - apply lift_not_fuel; [discriminate|apply windowed_agg_some].
Qed.
Print Assumptions metrics_never_out_of_fuel.


(* ------------------------------------------------------------------------------------ *)
(* 7. calendar alignment of the windows: the values of [current] are local period boundaries in the
      sense of Spec/MetricsSpec.v is_boundary (hour: mm:ss = 00:00; day: midnight; week: Monday
      midnight; month: the 1st, midnight; year: 1 January, midnight), each step adds exactly the
      length of the period beginning there (plen), and the first one is the period containing the
      wall clock of the range start *)

Definition bdy (p : period) (c : Z) : Prop :=
  match p with
  | PHour => c mod 3600 = 0
  | PDay => c mod DAY = 0
  | PWeek => c mod DAY = 0 /\ weekday (c / DAY) = 0
  | PMonth => month_start c
  | PYear => year_start c
  | PFull => True
  end.

Definition step (p : period) : Z -> Z :=
  match p with
  | PHour => next_hour | PDay => next_day | PWeek => next_week | PMonth => next_month | PYear => next_year
  | PFull => fun c => c
  end.

Definition snap (p : period) (w : Z) : Z :=
  match p with
  | PHour => dt_ymdh (w_year w) (w_month w) (w_day w) (w_hour w)
  | PDay => dt_ymd (w_year w) (w_month w) (w_day w)
  | PWeek => dt_ymd (w_year w) (w_month w) (w_day w) - weekday (wall_day w) * DAY
  | PMonth => dt_ymd (w_year w) (w_month w) 1
  | PYear => dt_ymd (w_year w) 1 1
  | PFull => w
  end.

Definition fuel_unit (p : period) : Z :=
  match p with
  | PHour => 3600 | PDay => DAY | PWeek => 7 * DAY | PMonth => 28 * DAY | PYear => 365 * DAY | PFull => 1
  end.

Lemma pwd_unfold z a b p : a < b -> p <> PFull ->
  period_windows_dt z a b p =
  win_loop (loop_fuel (fuel_unit p) (snap p (utc_to_wall z a)) (utc_to_wall z b)) z (step p)
           (snap p (utc_to_wall z a)) (utc_to_wall z b).
Proof.
  intros Hab Hp. unfold period_windows_dt. replace (a >=? b) with false by lia.
  destruct p; cbn [snap step fuel_unit]; [reflexivity..|exfalso; apply Hp; reflexivity].
Qed.

Lemma month_start_boundary c : month_start c -> c mod DAY = 0 /\ w_day c = 1.
Proof.
  intros (y & m & Hm & E). rewrite E. split; [apply dt_ymd_mod|apply (w_fields_first y m Hm)].
Qed.

Lemma year_start_boundary c : year_start c -> c mod DAY = 0 /\ w_day c = 1 /\ w_month c = 1.
Proof.
  intros (y & E). rewrite E. destruct (w_fields_first y 1 ltac:(lia)) as (_ & Em & Ed).
  split; [apply dt_ymd_mod|]. split; assumption.
Qed.

Lemma bdy_facts p c : p <> PFull -> bdy p c ->
  is_boundary p c = true /\ c mod unit_of_period p = 0 /\ step p c = c + plen p c /\
  c < step p c /\ bdy p (step p c).
Proof.
  intros Hp H. destruct p; cbn [bdy is_boundary unit_of_period step plen] in *; try congruence.
  - unfold next_hour. repeat split; lia.
  - unfold next_day, DAY in *. repeat split; lia.
  - destruct H as [H1 H2]. split; [apply andb_true_intro; split; apply Z.eqb_eq; assumption|].
    unfold next_week, weekday, DAY in *. repeat split; lia.
  - destruct (month_start_boundary c H) as (B1 & B2).
    destruct (next_month_exact c H) as [Hn E]. unfold w_year, w_month, wall_day in E.
    split; [apply andb_true_intro; split; apply Z.eqb_eq; assumption|].
    split; [exact B1|]. split; [exact E|]. split; [|exact Hn].
    rewrite E. pose proof (CivilP.dim_bounds (year_of (c / DAY)) (month_of (c / DAY))) as Db.
    set (dm := dim _ _) in *. clearbody dm. clear - Db. unfold DAY. lia.
  - destruct (year_start_boundary c H) as (B1 & B2 & B3).
    destruct (next_year_exact c H) as [Hn E]. unfold w_year, wall_day in E.
    split; [apply andb_true_intro; split; [apply andb_true_intro; split|]; apply Z.eqb_eq; assumption|].
    split; [exact B1|]. split; [exact E|]. split; [|exact Hn].
    rewrite E. pose proof (CivilP.diy_bounds (year_of (c / DAY))) as Db.
    set (dy := diy _) in *. clearbody dy. clear - Db. unfold DAY. lia.
Qed.

(* the first boundary: the period containing wall clock value w *)
Lemma snap_facts p w : p <> PFull -> bdy p (snap p w) /\ snap p w <= w < step p (snap p w).
Proof.
  intros Hp. destruct p; cbn [bdy snap step]; try congruence.
  - unfold next_hour, dt_ymdh, w_year, w_month, w_day, w_hour, mk_wall. rewrite civil_roundtrip.
    unfold wall_day, wall_sod, DAY. lia.
  - unfold next_day. rewrite dt_ymd_wall. unfold wall_day, DAY. lia.
  - unfold next_week. rewrite dt_ymd_wall. unfold weekday, wall_day, DAY. lia.
  - split; [apply month_start_snap|]. split; [apply snap_month|].
    destruct (w_fields_first (w_year w) (w_month w) (w_month_range w)) as (Ey & Em & _).
    unfold next_month. rewrite Ey, Em. clear Ey Em.
    unfold dt_ymd, w_year, w_month, year_of, month_of, mk_wall.
    pose proof (civil_facts (wall_day w)) as F. destruct (civil_from_days (wall_day w)) as [[y m] dd].
    cbn [fst snd]. destruct F as (_ & _ & _ & F & _). unfold next_month_start in F.
    destruct (m =? 12); unfold wall_day, DAY in *; lia.
  - split; [apply year_start_snap|]. split; [apply snap_year|].
    destruct (w_fields_first (w_year w) 1 ltac:(lia)) as (Ey & _ & _).
    unfold next_year. rewrite Ey. clear Ey.
    unfold dt_ymd, w_year, year_of, mk_wall.
    pose proof (civil_facts (wall_day w)) as F. destruct (civil_from_days (wall_day w)) as [[y m] dd].
    cbn [fst snd]. destruct F as (_ & _ & _ & _ & F & _). unfold wall_day, DAY in *. lia.
Qed.

(* ------------------------------------------------------------------------------------ *)
(* 8. the windows of the model pass the oracle's window check (Spec/MetricsSpec.v windows_ok) *)

(* every window is a local calendar period: begins when the clock reaches its label, a period
   boundary; ends when the clock reaches the next boundary, exactly one period length later; is not
   reversed; and the labels are consecutive.  Zone hypothesis only. *)
Lemma loop_window_ok z p : p <> PFull -> zone_wf (unit_of_period p) z = true ->
  forall ew ws fuel c, bdy p c -> win_loop fuel z (step p) c ew = Some ws ->
  forallb (window_ok z p) ws = true /\ contiguous p ws = true.
Proof.
  intros Hp Hz ew. set (u := unit_of_period p) in *.
  induction ws as [|[[L s] e] r IH]; intros fuel c Hc H; [split; reflexivity|].
  apply win_loop_head in H. destruct H as (-> & -> & -> & Hlt & fuel' & Hr).
  destruct (bdy_facts p c Hp Hc) as (Bd & Md & Ln & Gt & Nx). fold u in Md.
  destruct (bdy_facts p (step p c) Hp Nx) as (_ & Mn & _). fold u in Mn.
  destruct (IH fuel' (step p c) Nx Hr) as [IH1 IH2].
  pose proof (reaches_ts0 u z c Hz Md) as R1.
  pose proof (reaches_ts0 u z (step p c) Hz Mn) as R2.
  pose proof (zone_wf_G3 u z (step p c) Hz Mn) as G3n.
  pose proof (zone_wf_G1 u z c (ts0 z (step p c)) Hz Md ltac:(lia)) as Hle.
  split.
  - cbn [forallb]. rewrite IH1, andb_true_r. unfold window_ok. rewrite <- Ln, Bd, R1, R2. cbn [andb].
    replace (ts0 z c <=? ts0 z (step p c)) with true by lia. cbn [andb].
    destruct (ts0 z c <? ts0 z (step p c)) eqn:E.
    + destruct (Z_lt_le_dec (utc_to_wall z (ts0 z c)) (step p c)) as [Hl|Hg]; [lia|].
      pose proof (zone_wf_G1 u z (step p c) (ts0 z c) Hz Mn Hg). lia.
    + assert (E2 : ts0 z c = ts0 z (step p c)) by lia. rewrite E2. lia.
  - cbn [contiguous]. destruct r as [|[[L' s'] e'] r']; [reflexivity|].
    pose proof Hr as Hr'. apply win_loop_head in Hr'. destruct Hr' as (-> & -> & _).
    rewrite IH2, andb_true_r. rewrite <- Ln. rewrite !Z.eqb_refl. reflexivity.
Qed.

Theorem windows_calendar_aligned z a b p ws :
  zone_wf (unit_of_period p) z = true -> p <> PFull ->
  period_windows_dt z a b p = Some ws ->
  forallb (window_ok z p) ws = true /\ contiguous p ws = true.
Proof.
  intros Hz Hp H. destruct (Z_lt_le_dec a b) as [Hab|Hge].
  - rewrite (pwd_unfold z a b p Hab Hp) in H.
    apply (loop_window_ok z p Hp Hz _ ws _ _ (proj1 (snap_facts p (utc_to_wall z a) Hp)) H).
  - unfold period_windows_dt in H. replace (a >=? b) with true in H by lia. inversion H. split; reflexivity.
Qed.
Print Assumptions windows_calendar_aligned.

(* the same, readable: *)
Corollary windows_calendar_aligned_prop z a b p ws :
  zone_wf (unit_of_period p) z = true -> p <> PFull ->
  period_windows_dt z a b p = Some ws ->
  Forall (fun w : win => let '(L, s, e) := w in
            is_boundary p L = true /\ reaches z L s = true /\ reaches z (L + plen p L) e = true /\ s <= e) ws.
Proof.
  intros Hz Hp H. destruct (windows_calendar_aligned z a b p ws Hz Hp H) as [H1 _].
  rewrite forallb_forall in H1. apply Forall_forall. intros [[L s] e] Hw. specialize (H1 _ Hw).
  unfold window_ok in H1.
  apply andb_prop in H1 as [H1 _]. apply andb_prop in H1 as [H1 H4].
  apply andb_prop in H1 as [H1 H3]. apply andb_prop in H1 as [H1 H2]. repeat split; try assumption. lia.
Qed.
Print Assumptions windows_calendar_aligned_prop.

(* the range end is not an instant at which the local clock jumps forward off or over a period boundary *)
Definition end_not_on_gap (u : Z) (z : zone) (b : Z) : Prop :=
  forall L, L mod u = 0 -> L < utc_to_wall z b -> L <= utc_to_wall z (b - 1).

Lemma no_jump_not_on_gap u z b : utc_to_wall z b <= utc_to_wall z (b - 1) + 1 -> end_not_on_gap u z b.
Proof. intros H L _ HL. lia. Qed.

Lemma loop_meets z p a b : p <> PFull -> zone_wf (unit_of_period p) z = true ->
  end_not_on_gap (unit_of_period p) z b ->
  forall ws fuel c, bdy p c -> utc_to_wall z a < step p c ->
    win_loop fuel z (step p) c (utc_to_wall z b) = Some ws -> forallb (meets a b) ws = true.
Proof.
  intros Hp Hz Hgap. set (u := unit_of_period p) in *.
  induction ws as [|[[L s] e] r IH]; intros fuel c Hc Ha H; [reflexivity|].
  apply win_loop_head in H. destruct H as (-> & -> & -> & Hlt & fuel' & Hr).
  destruct (bdy_facts p c Hp Hc) as (Bd & Md & Ln & Gt & Nx). fold u in Md.
  destruct (bdy_facts p (step p c) Hp Nx) as (_ & Mn & _ & Gt2 & _). fold u in Mn.
  cbn [forallb]. rewrite (IH fuel' (step p c) Nx ltac:(lia) Hr), andb_true_r.
  unfold meets.
  pose proof (zone_wf_G1 u z c (b - 1) Hz Md (Hgap c Md Hlt)).
  pose proof (zone_wf_G2 u z (step p c) a Hz Mn Ha). lia.
Qed.

Lemma windows_ok_nonfull z p a b ws : p <> PFull -> a < b ->
  windows_ok z p a b ws =
  match ws with
  | [] => false
  | _ => forallb (window_ok z p) ws && contiguous p ws &&
         (first_start ws <=? a) && (b <=? last_end ws) && forallb (meets a b) ws
  end.
Proof.
  intros Hp Hab. unfold windows_ok. replace (a >=? b) with false by lia.
  destruct p; try reflexivity. congruence.
Qed.

(* The windows the model computes are accepted by the oracle's check: contiguous local calendar
   periods of the zone that together reach over the query range, each meeting the range.
   Hypotheses: the zone table is well formed for the stepping unit; the range end is neither the
   second showing of a period boundary (M3) nor the instant the clock jumps forward off a period
   boundary (M4, day_range_end_on_gap_refuted below). *)
Theorem model_windows_ok z a b p ws :
  zone_wf (unit_of_period p) z = true -> a < b ->
  (utc_to_wall z b mod unit_of_period p = 0 -> fold_of z b = false) ->
  end_not_on_gap (unit_of_period p) z b ->
  period_windows_dt z a b p = Some ws -> windows_ok z p a b ws = true.
Proof.
  intros Hz Hab Hfold Hgap H.
  assert (D : p = PFull \/ p <> PFull) by (destruct p; [right; discriminate..|left; reflexivity]).
  destruct D as [->|Hp].
  - unfold period_windows_dt in H. replace (a >=? b) with false in H by lia. inversion H.
    unfold windows_ok. replace (a >=? b) with false by lia. rewrite !Z.eqb_refl. reflexivity.
  - destruct (windows_cover_range z a b p ws Hz Hab Hfold H) as (s0 & Hch & H1 & H2).
    destruct (windows_calendar_aligned z a b p ws Hz Hp H) as [W1 W2].
    rewrite (pwd_unfold z a b p Hab Hp) in H.
    destruct (snap_facts p (utc_to_wall z a) Hp) as (S1 & S2 & S3).
    pose proof (loop_meets z p a b Hp Hz Hgap ws _ _ S1 S3 H) as W3.
    rewrite (windows_ok_nonfull z p a b ws Hp Hab).
    destruct ws as [|w r]; [cbn [chain_end] in H2; lia|].
    rewrite W1, W2, W3. cbn [andb]. rewrite andb_true_r.
    rewrite (chain_end_last (w :: r) ltac:(discriminate) s0) in H2.
    destruct w as [[L s] e]. destruct Hch as (-> & _). cbn [first_start]. lia.
Qed.
Print Assumptions model_windows_ok.

(* ------------------------------------------------------------------------------------ *)
(* 9. the hypotheses are satisfiable; the new one cannot be dropped (finding M4) *)

(* transitions 2020-2025 (the tables of Props/C13.v, repeated here so that Props may import this file) *)
Definition la_tab : zone := mkZone (-28800)
  [(1583661600, -25200); (1604221200, -28800); (1615716000, -25200); (1636275600, -28800);
   (1647165600, -25200); (1667725200, -28800); (1678615200, -25200); (1699174800, -28800);
   (1710064800, -25200); (1730624400, -28800); (1741514400, -25200); (1762074000, -28800)].
Definition havana_tab : zone := mkZone (-18000)
  [(1583643600, -14400); (1604206800, -18000); (1615698000, -14400); (1636261200, -18000);
   (1647147600, -14400); (1667710800, -18000); (1678597200, -14400); (1699160400, -18000);
   (1710046800, -14400); (1730610000, -18000); (1741496400, -14400); (1762059600, -18000)].

(* two weeks in Los Angeles around the 23-hour day 2024-03-10, daily windows grouped by weekday: all
   hypotheses of grouped_stored_correct hold; the buckets add up to the measure of the range, 60000 s;
   the Sunday bucket (key 6) is 10400 s of 86400 + 82800 s *)
Example grouped_hypotheses_satisfiable :
  let evs := [mkI (Some 1710000000) (Some 1710040000) (Rich 1); mkI (Some 1710010000) (Some 1710020000) (Rich 2);
              mkI (Some 1710130000) None (Rich 3)] in
  let s := BInt 1709000000 in let e := BInt 1710150000 in
  let a := coerce_bound la_tab s in let b := coerce_bound la_tab e in
  valid_group_by PDay (Some GDayOfWeek) = true /\
  Forall wf_ivl evs /\ NEG_INF < a /\ a < b /\ b < POS_INF /\
  zone_wf (unit_of_period PDay) la_tab = true /\
  (utc_to_wall la_tab b mod unit_of_period PDay = 0 -> fold_of la_tab b = false) /\
  (exists ws, period_windows_dt la_tab a b PDay = Some ws /\ Forall win_bounded ws) /\
  total_duration la_tab (Stored evs) s e PDay (Some GDayOfWeek)
    = RInts [(0, 9600); (1, 0); (2, 0); (3, 0); (4, 0); (5, 40000); (6, 10400)] /\
  coverage_ratio la_tab (Stored evs) s e PDay (Some GDayOfWeek)
    = RRats [(0, (9600, 259200)); (1, (0, 172800)); (2, (0, 172800)); (3, (0, 172800)); (4, (0, 172800));
             (5, (40000, 172800)); (6, (10400, 169200))] /\
  count_intervals la_tab (Stored evs) s e PDay (Some GDayOfWeek)
    = RInts [(0, 1); (1, 0); (2, 0); (3, 0); (4, 0); (5, 2); (6, 1)] /\
  measure evs a b = 60000.
Proof.
  cbv zeta. split; [reflexivity|]. split.
  { repeat constructor; unfold wf_ivl, fstart, fend, NEG_INF, POS_INF; simpl; lia. }
  split; [unfold NEG_INF; cbn; lia|]. split; [cbn; lia|]. split; [unfold POS_INF; cbn; lia|].
  split; [vm_compute; reflexivity|].
  split; [vm_compute; intros H; first [reflexivity | discriminate H]|].
  split.
  { eexists. split; [vm_compute; reflexivity|].
    repeat constructor; unfold NEG_INF, POS_INF; lia. }
  vm_compute. repeat split; reflexivity.
Qed.

(* month windows in Los Angeles, November 2023 to July 2024, across two transitions: the hypotheses
   of model_windows_ok hold; the labels are the firsts of the months *)
Example windows_hypotheses_satisfiable :
  let a := 1700000000 in let b := 1720000000 in
  zone_wf (unit_of_period PMonth) la_tab = true /\ a < b /\
  (utc_to_wall la_tab b mod unit_of_period PMonth = 0 -> fold_of la_tab b = false) /\
  end_not_on_gap (unit_of_period PMonth) la_tab b /\
  exists ws, period_windows_dt la_tab a b PMonth = Some ws /\
             map (fun w : win => civil_from_days (wlabel w / DAY)) ws =
             [(2023, 11, 1); (2023, 12, 1); (2024, 1, 1); (2024, 2, 1); (2024, 3, 1); (2024, 4, 1);
              (2024, 5, 1); (2024, 6, 1); (2024, 7, 1)] /\
             map wspan ws = [30 * 86400 + 3600; 31 * 86400; 31 * 86400; 29 * 86400; 31 * 86400 - 3600;
                             30 * 86400; 31 * 86400; 30 * 86400; 31 * 86400].
Proof.
  cbv zeta. split; [vm_compute; reflexivity|]. split; [lia|].
  split; [vm_compute; intros H; first [reflexivity | discriminate H]|].
  split; [apply no_jump_not_on_gap, Z.leb_le; vm_compute; reflexivity|].
  eexists. split; [vm_compute; reflexivity|]. vm_compute. split; reflexivity.
Qed.

(* M4.  America/Havana sets its clocks forward at local midnight (2024-03-10 00:00 -> 01:00).  The zone
   table is well formed for daily stepping and the range end b = date(2024,3,10) (the instant of the
   transition) is no second showing, so all earlier hypotheses hold and the totals add up; but the
   clock at b reads 01:00 > 00:00, so the loop test "current < end_dt" lets a window for 2024-03-10
   through although it begins exactly at b: total_duration(t, date(2024,3,9), date(2024,3,10),
   period="day", tz="America/Havana") has a second row (2024-03-10, 0), group_by a second bucket
   (6, 0), coverage_ratio a row 0/82800; the oracle's windows_ok rejects the windows.  (With any zone
   whose transitions are not at midnight the same call returns one row.) *)
Theorem day_range_end_on_gap_refuted :
  let s := BDate 2024 3 9 in let e := BDate 2024 3 10 in
  let a := coerce_bound havana_tab s in let b := coerce_bound havana_tab e in
  let evs := [mkI (Some 1709900000) (Some 1710040000) (Rich 1)] in
  zone_wf (unit_of_period PDay) havana_tab = true /\ a < b /\ fold_of havana_tab b = false /\
  utc_to_wall havana_tab (b - 1) = 19792 * 86400 - 1 /\ utc_to_wall havana_tab b = 19792 * 86400 + 3600 /\
  ~ end_not_on_gap (unit_of_period PDay) havana_tab b /\
  total_duration havana_tab (Stored evs) s e PDay None = RInts [(19791, 79600); (19792, 0)] /\
  total_duration havana_tab (Stored evs) s e PDay (Some GDayOfWeek) = RInts [(5, 79600); (6, 0)] /\
  coverage_ratio havana_tab (Stored evs) s e PDay None = RRats [(19791, (79600, 86400)); (19792, (0, 82800))] /\
  measure evs a b = 79600 /\
  exists ws, period_windows_dt havana_tab a b PDay = Some ws /\ windows_ok havana_tab PDay a b ws = false.
Proof.
  cbv zeta. split; [vm_compute; reflexivity|]. split; [vm_compute; reflexivity|].
  split; [vm_compute; reflexivity|]. split; [vm_compute; reflexivity|]. split; [vm_compute; reflexivity|].
  split.
  { intros H. specialize (H (19792 * 86400) eq_refl eq_refl). vm_compute in H. apply H. reflexivity. }
  split; [vm_compute; reflexivity|]. split; [vm_compute; reflexivity|]. split; [vm_compute; reflexivity|].
  split; [vm_compute; reflexivity|].
  eexists. split; [vm_compute; reflexivity|]. vm_compute. reflexivity.
Qed.
Print Assumptions day_range_end_on_gap_refuted.

(* ------------------------------------------------------------------------------------ *)
(* 10. total_duration(..., group_by=None) of a stored timeline against the oracle's checks *)

Lemma zip_ok_map {X Y} (f : X -> Y -> bool) (h : X -> Y) l :
  (forall x, In x l -> f x (h x) = true) -> zip_ok f l (map h l) = true.
Proof.
  induction l as [|x r IH]; intros H; [reflexivity|]. cbn [map zip_ok].
  rewrite (H x (or_introl eq_refl)), IH; [reflexivity|]. intros y Hy. apply H. right; exact Hy.
Qed.

Theorem total_rows_correct z evs s e p :
  let a := coerce_bound z s in let b := coerce_bound z e in
  Forall wf_ivl evs -> NEG_INF < a -> a < b -> b < POS_INF ->
  zone_wf (unit_of_period p) z = true ->
  (utc_to_wall z b mod unit_of_period p = 0 -> fold_of z b = false) ->
  exists ws rows,
    period_windows_dt z a b p = Some ws /\
    total_duration z (Stored evs) s e p None = RInts rows /\
    (Forall win_bounded ws ->
       rows_int_ok p (spec_total evs a b) ws rows = true /\ additive_ok evs a b rows = true) /\
    (end_not_on_gap (unit_of_period p) z b -> windows_ok z p a b ws = true).
Proof.
  intros a b Hwf A1 A2 A3 Hz Hend. subst a b.
  destruct (grouped_agg_char z (Stored evs) s e p GHourOfDay total_duration_ zsum)
    as (ws & _ & Hws & _ & _ & _ & _ & _ & Hw).
  cbv zeta in *. set (a := coerce_bound z s) in *. set (b := coerce_bound z e) in *.
  exists ws. eexists. split; [exact Hws|]. split.
  { unfold total_duration. rewrite valid_group_by_none. cbn [negb]. fold a b. rewrite Hw. reflexivity. }
  split.
  - intros Hbd.
    destruct (C13_total_duration_rows z evs a b p ws Hwf A1 A2 A3 Hz Hend Hws Hbd) as [Ev Esum].
    split.
    + unfold rows_int_ok. apply zip_ok_map. intros w Hw'. cbn [fst snd].
      rewrite label_of_spec, Z.eqb_refl. cbn [andb]. apply Z.eqb_eq.
      revert w Hw'. apply ext_in_map. exact Ev.
    + unfold additive_ok. rewrite map_map. cbn [snd]. replace (a <? b) with true by lia.
      apply Z.eqb_eq. rewrite <- Esum. reflexivity.
  - intros Hgap. apply (model_windows_ok z a b p ws Hz A2 Hend Hgap Hws).
Qed.
Print Assumptions total_rows_correct.

From CG Require Import Proofs.Stored Proofs.Clip Proofs.RefSpec.
(* ------------------------------------------------------------------------------------ *)
(* 11. count_intervals through _windowed_agg / _grouped_agg: the per-window count on the
       materialised slice tl[A:B] is the number of events with an instant inside the period clipped
       to the range (Spec spec_count) *)

Lemma hits_clip_length A B s e : forall l,
  length (filter (hits s e) (flat_map (clipW (Some A) (Some B)) l)) =
  length (filter (hits (Z.max A s) (Z.min B e)) l).
Proof.
  induction l as [|x r IH]; [reflexivity|]. cbn [flat_map filter]. rewrite filter_app, app_length, IH.
  destruct (clipW (Some A) (Some B) x) as [|g l'] eqn:Ec.
  - unfold clipW in Ec. cbv zeta in Ec. cbn [bnd_lo bnd_hi] in Ec.
    destruct (Z.max (fstart x) A <? Z.min (fend x) B) eqn:C; [discriminate|].
    replace (hits (Z.max A s) (Z.min B e) x) with false by (unfold hits; lia). reflexivity.
  - assert (Hin : In g (clipW (Some A) (Some B) x)) by (rewrite Ec; left; reflexivity).
    apply clipW_shape in Hin as (_ & F1 & F2 & _). cbn [bnd_lo bnd_hi] in F1, F2.
    assert (l' = []).
    { unfold clipW in Ec. cbv zeta in Ec. destruct (_ <? _) in Ec; [|discriminate]. inversion Ec. reflexivity. }
    subst l'. cbn [filter].
    assert (E : hits s e g = hits (Z.max A s) (Z.min B e) x) by (unfold hits; rewrite F1, F2; lia).
    rewrite E. destruct (hits (Z.max A s) (Z.min B e) x); reflexivity.
Qed.

Theorem count_is_hits_cached evs A B s e :
  A <= B -> s <= e ->
  count_ (cached_timeline (Stored evs) A B) s e =
  Z.of_nat (length (filter (hits (Z.max A s) (Z.min B e)) evs)).
Proof.
  intros HAB Hse. unfold cached_timeline. rewrite count_is_hits by exact Hse. f_equal.
  rewrite tslice_stored by exact HAB.
  rewrite (clip_sweep_masks false _ (Some A) (Some B)) by apply fetch_static_sorted_start.
  rewrite hits_clip_length.
  rewrite (proj1 (fetch_static_spec _ (Some A) (Some B) (sl_build_sorted evs))).
  rewrite filter_filter.
  rewrite (filter_length_perm _ _ _ (sl_build_perm evs)).
  f_equal. apply filter_ext. intros i. unfold hits, in_range. lia.
Qed.
Print Assumptions count_is_hits_cached.

Theorem count_stored_correct z evs s e p g :
  valid_group_by p (Some g) = true ->
  let a := coerce_bound z s in let b := coerce_bound z e in
  a < b -> zone_wf (unit_of_period p) z = true ->
  (utc_to_wall z b mod unit_of_period p = 0 -> fold_of z b = false) ->
  exists ws out rows,
    period_windows_dt z a b p = Some ws /\
    count_intervals z (Stored evs) s e p (Some g) = RInts out /\
    count_intervals z (Stored evs) s e p None = RInts rows /\
    buckets_int_ok g (spec_count evs a b) ws out = true /\
    rows_int_ok p (spec_count evs a b) ws rows = true.
Proof.
  intros Hv a b Hab Hz Hend. subst a b.
  destruct (grouped_count_adds_up z (Stored evs) s e p g Hv) as (ws & out & Hws & HG & HN & Hb & _).
  cbv zeta in *. set (a := coerce_bound z s) in *. set (b := coerce_bound z e) in *.
  exists ws, out. eexists. split; [exact Hws|]. split; [exact HG|]. split; [exact HN|].
  destruct (windows_cover_range z a b p ws Hz Hab Hend Hws) as (s0 & Hch & _ & _).
  pose proof (chain_spans ws s0 Hch) as Hsp. rewrite Forall_forall in Hsp.
  assert (Ew : forall w, In w ws ->
                 wval count_ (cached_timeline (Stored evs) a b) w = spec_count evs a b w).
  { intros [[L s'] e'] Hw. specialize (Hsp _ Hw). cbn in Hsp. unfold wval, spec_count, wlo, whi.
    apply count_is_hits_cached; lia. }
  split.
  - unfold buckets_int_ok in *. apply andb_prop in Hb as [H1 H2]. rewrite H1. cbn [andb].
    rewrite <- H2. apply forallb_ext_all. intros o _.
    rewrite (bucket_sum_ext g _ _ ws (fst o) Ew). reflexivity.
  - unfold rows_int_ok. apply zip_ok_map. intros w Hw. cbn [fst snd].
    rewrite label_of_spec, Z.eqb_refl, (Ew w Hw), Z.eqb_refl. reflexivity.
Qed.
Print Assumptions count_stored_correct.

(* ------------------------------------------------------------------------------------ *)
(* 12. coverage_ratio(..., group_by=None) of a stored timeline: each row is exactly the spec's ratio
       (covered seconds of the period inside the range) / (length of the period), in [0,1] *)

Lemma rat_close_self n d : 0 <= n -> 0 < d -> rat_close n d n d = true.
Proof.
  intros Hn Hd. unfold rat_close. assert (0 <= n * d) by (apply Z.mul_nonneg_nonneg; lia).
  replace (n * d - n * d) with 0 by lia. cbn [Z.abs Z.mul]. lia.
Qed.

Theorem ratio_rows_correct z evs s e p :
  let a := coerce_bound z s in let b := coerce_bound z e in
  Forall wf_ivl evs -> NEG_INF < a -> a < b -> b < POS_INF ->
  zone_wf (unit_of_period p) z = true ->
  (utc_to_wall z b mod unit_of_period p = 0 -> fold_of z b = false) ->
  exists ws rows,
    period_windows_dt z a b p = Some ws /\
    coverage_ratio z (Stored evs) s e p None = RRats rows /\
    (Forall win_bounded ws ->
       rows = map (fun w => (spec_label p (wlabel w), ratio_of evs a b w)) ws /\
       rows_rat_ok p evs a b ws rows = true).
Proof.
  intros a b Hwf A1 A2 A3 Hz Hend. subst a b.
  destruct (grouped_agg_char z (Stored evs) s e p GHourOfDay ratio_win combine_ratios)
    as (ws & _ & Hws & _ & _ & _ & _ & _ & Hw).
  cbv zeta in *. set (a := coerce_bound z s) in *. set (b := coerce_bound z e) in *.
  exists ws. eexists. split; [exact Hws|]. split.
  { unfold coverage_ratio. rewrite valid_group_by_none. cbn [negb]. fold a b. rewrite Hw. reflexivity. }
  intros Hbd.
  destruct (C13_total_duration_rows z evs a b p ws Hwf A1 A2 A3 Hz Hend Hws Hbd) as [Ev _].
  assert (E : map (fun w => (label_of p (wlabel w), wval ratio_win (cached_timeline (Stored evs) a b) w)) ws
              = map (fun w => (spec_label p (wlabel w), ratio_of evs a b w)) ws).
  { apply map_ext_in. intros w Hin. rewrite label_of_spec. f_equal.
    pose proof (ext_in_map Ev w Hin) as Et. destruct w as [[L s'] e']. cbv beta iota in Et.
    unfold wval, ratio_win, ratio_of, wspan. rewrite Et. reflexivity. }
  split; [exact E|]. rewrite E. unfold rows_rat_ok. apply zip_ok_map. intros w _. cbn [fst snd]. cbv zeta.
  rewrite Z.eqb_refl. cbn [andb].
  pose proof (ratio_in_unit evs a b w ltac:(lia)) as U. rewrite U. cbn [andb].
  unfold rat_in_unit in U. rewrite rat_close_self by lia. lia.
Qed.
Print Assumptions ratio_rows_correct.
