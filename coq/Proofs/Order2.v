(* Proofs/Order2.v — property C03, continued: ordering of the streams produced by the
   transforms buffer and merge_within (calgebra/transform.py), and whole expression trees that
   contain them.

   (A) buffer: shifting every start by the same amount keeps the order of the starts, None
       starts staying first; with the option order (None below every integer) this needs no
       side condition at all ([buffer_sorted_opt]); with the finite_start order the code sorts by
       ([sorted_start], NEG_INF standing for None) it needs that no shifted start falls below
       the sentinel ([no_underflow]); the boundary witness is [buffer_underflow_refuted].
       Forward and reverse fetch: [buffer_fetch_sorted], [buffer_fetch_sorted_rev].
   (B) merge_within: the forward fetch is STRICTLY increasing in start (and in end: outputs
       are more than g apart), the reverse fetch is its reversal, hence strictly decreasing
       ([mw_fetch_sorted]).
   (C) the class [good2]: every operator, with Buf and MergeW nodes anywhere (above [good]
       sub-expressions of Proofs/Assembly.v in particular); [fetch_ok2]: the stream invariant
       (well formed, canonically encoded, sorted by start) for every window that stays
       between the sentinels after the widening done by the buffers below it ([wins]);
       [C03_forward_wf2]: every forward slice is a well-formed stream.
   (D) reverse slices of towers of buffer / filter over merge_within or over a [good']
       expression of Proofs/Reverse2.v: [C03_reverse_wf2]. *)
From CG Require Import Proofs.Defs.
From CG Require Import Spec.TransformSpec Proofs.Stored Proofs.RefSpec Proofs.Merge Proofs.Compl
     Proofs.Canon Proofs.Diff Proofs.InterDisjoint Proofs.Clip Proofs.Negate Proofs.Transform
     Proofs.Reverse Proofs.Assembly Proofs.Assembly2 Proofs.Reverse2.

(* ------------------------------------------------------------------------------------ *)
(* (A) buffer *)

(* the order on optional starts: None (unbounded) below every integer *)
Definition ostart_le (a b : option Z) : Prop :=
  match a, b with
  | None, _ => True
  | Some _, None => False
  | Some x, Some y => x <= y
  end.

Lemma addO_ostart_le d a b : ostart_le a b -> ostart_le (addO a d) (addO b d).
Proof. destruct a as [x|], b as [y|]; cbn [addO ostart_le]; try tauto. lia. Qed.

(* unconditional: any amounts (even negative), any events *)
Theorem buffer_sorted_opt before after l :
  pairwiseP (fun x y => ostart_le (st x) (st y)) l ->
  pairwiseP (fun x y => ostart_le (st x) (st y)) (map (buf_shift before after) l).
Proof.
  intro H. apply pairwiseP_map. revert H. apply pairwiseP_impl.
  intros x y _ _ Hxy. rewrite !buf_shift_st. apply addO_ostart_le. exact Hxy.
Qed.

Theorem buffer_sorted_opt_rev before after l :
  pairwiseP (fun x y => ostart_le (st y) (st x)) l ->
  pairwiseP (fun x y => ostart_le (st y) (st x)) (map (buf_shift before after) l).
Proof.
  intro H. apply pairwiseP_map. revert H. apply pairwiseP_impl.
  intros x y _ _ Hxy. rewrite !buf_shift_st. apply addO_ostart_le. exact Hxy.
Qed.

(* for canonically encoded well-formed events the option order IS the finite_start order *)
Lemma ostart_le_fstart x y :
  NEG_INF <= fstart y -> st x <> Some NEG_INF -> NEG_INF <= fstart x ->
  (ostart_le (st x) (st y) <-> fstart x <= fstart y).
Proof.
  intros Hy Cx Hx. unfold fstart in *. destruct (st x) as [a|], (st y) as [b|]; cbn [ostart_le]; try tauto.
  split; [intros []|]. intro H. assert (a = NEG_INF) by lia. subst a. exfalso. apply Cx. reflexivity.
Qed.

(* the finite_start order: a shifted start must not fall below the sentinel *)
Definition no_underflow (before : Z) (x : ivl) : Prop :=
  forall z, st x = Some z -> NEG_INF <= z - before.

Lemma buf_shift_fstart_mono before after x y :
  0 <= before -> no_underflow before y ->
  fstart x <= fstart y -> fstart (buf_shift before after x) <= fstart (buf_shift before after y).
Proof.
  intros Hb Hy H. unfold fstart in *. rewrite !buf_shift_st.
  destruct (st x) as [a|] eqn:Ex, (st y) as [b|] eqn:Ey; cbn [addO]; try lia.
  specialize (Hy b Ey). lia.
Qed.

Theorem buffer_sorted_start before after l :
  0 <= before -> Forall (no_underflow before) l ->
  sorted_start l -> sorted_start (map (buf_shift before after) l).
Proof.
  intros Hb Hn H. apply sorted_start_pw, pairwiseP_map. apply sorted_start_pw in H.
  revert H. apply pairwiseP_impl. intros x y _ Hy Hxy.
  apply buf_shift_fstart_mono; [exact Hb| |exact Hxy]. exact (proj1 (Forall_forall _ _) Hn y Hy).
Qed.

Theorem buffer_desc_start before after l :
  0 <= before -> Forall (no_underflow before) l ->
  desc_start l -> desc_start (map (buf_shift before after) l).
Proof.
  intros Hb Hn H. unfold desc_start in *. apply pairwiseP_map. revert H. apply pairwiseP_impl.
  intros x y Hx _ Hxy.
  apply buf_shift_fstart_mono; [exact Hb| |exact Hxy]. exact (proj1 (Forall_forall _ _) Hn x Hx).
Qed.

(* GOAL 4a: the Buf case of fetch, both directions.  The source is queried on the widened
   window; whatever order its result has is kept. *)
Theorem buffer_fetch_sorted env s before after a b :
  0 <= before ->
  Forall (no_underflow before) (fetch env s (addO a (- after)) (addO b before) false) ->
  sorted_start (fetch env s (addO a (- after)) (addO b before) false) ->
  sorted_start (fetch env (Buf s before after) a b false).
Proof. intros Hb Hn H. cbn [fetch]. apply buffer_sorted_start; assumption. Qed.

Theorem buffer_fetch_sorted_rev env s before after a b :
  0 <= before ->
  Forall (no_underflow before) (fetch env s (addO a (- after)) (addO b before) true) ->
  desc_start (fetch env s (addO a (- after)) (addO b before) true) ->
  desc_start (fetch env (Buf s before after) a b true).
Proof. intros Hb Hn H. cbn [fetch]. apply buffer_desc_start; assumption. Qed.

(* unconditional, in the option order *)
Theorem buffer_fetch_sorted_opt env s before after a b :
  pairwiseP (fun x y => ostart_le (st x) (st y)) (fetch env s (addO a (- after)) (addO b before) false) ->
  pairwiseP (fun x y => ostart_le (st x) (st y)) (fetch env (Buf s before after) a b false).
Proof. intro H. cbn [fetch]. apply buffer_sorted_opt. exact H. Qed.

Theorem buffer_fetch_sorted_opt_rev env s before after a b :
  pairwiseP (fun x y => ostart_le (st y) (st x)) (fetch env s (addO a (- after)) (addO b before) true) ->
  pairwiseP (fun x y => ostart_le (st y) (st x)) (fetch env (Buf s before after) a b true).
Proof. intro H. cbn [fetch]. apply buffer_sorted_opt_rev. exact H. Qed.

(* [no_underflow] is necessary for the finite_start order: an event starting within [before] of
   the sentinel overtakes an unbounded one.  (Academic: NEG_INF = -(2^63 - 2).) *)
Theorem buffer_underflow_refuted :
  exists l before,
    Forall wf_ivl l /\ Forall canon_ivl l /\ sorted_start l /\ 0 <= before /\
    ~ sorted_start (map (buf_shift before 0) l).
Proof.
  exists [mkI None (Some 0) Plain; mkI (Some (NEG_INF + 1)) (Some 0) Plain], 2.
  split; [|split; [|split; [|split]]].
  - repeat constructor; unfold fstart, fend, NEG_INF, POS_INF; cbn [st en]; lia.
  - repeat constructor; cbn [st en]; unfold NEG_INF, POS_INF; discriminate.
  - cbn [sorted_start]. split; [|split; [intros ? []|exact I]].
    intros z [<-|[]]. unfold fstart, NEG_INF. cbn [st]. lia.
  - lia.
  - intros [H _]. specialize (H _ (or_introl eq_refl)). unfold fstart, NEG_INF in H. cbn in H. lia.
Qed.

(* ------------------------------------------------------------------------------------ *)
(* (B) merge_within *)

Definition strict_start (l : list ivl) : Prop := pairwiseP (fun x y => fstart x < fstart y) l.
Definition strict_desc_start (l : list ivl) : Prop := pairwiseP (fun x y => fstart y < fstart x) l.

Lemma separated_strict l : Forall wf_ivl l -> separatedP l -> strict_start l.
Proof.
  intros Hw Hs. unfold strict_start. apply separatedP_pw in Hs. revert Hs. apply pairwiseP_impl.
  intros x y Hx _ H. destruct (proj1 (Forall_forall _ _) Hw x Hx) as (_ & W & _). lia.
Qed.

Lemma separated_rev_mono l : Forall wf_ivl l -> separatedP l -> mono_ends_desc (rev l).
Proof.
  intros Hw Hs. unfold mono_ends_desc. apply pairwiseP_rev. apply separatedP_pw in Hs.
  revert Hs. apply pairwiseP_impl. intros x y _ Hy H.
  destruct (proj1 (Forall_forall _ _) Hw y Hy) as (_ & W & _). lia.
Qed.

(* GOAL 4b *)
Theorem mw_fetch_sorted env s g a b :
  0 <= g ->
  Forall wf_ivl (fetch env s a b false) -> Forall canon_ivl (fetch env s a b false) ->
  sorted_start (fetch env s a b false) ->
  strict_start (fetch env (MergeW s g) a b false) /\
  sorted_start (fetch env (MergeW s g) a b false) /\
  fetch env (MergeW s g) a b true = rev (fetch env (MergeW s g) a b false) /\
  strict_desc_start (fetch env (MergeW s g) a b true) /\
  far_apartP g (fetch env (MergeW s g) a b false).
Proof.
  intros Hg Hw Hc Hs. destruct (fetch_mergew env s g a b) as [E1 E2]. rewrite E2, E1.
  destruct (mw_sorted g _ Hg Hw Hc Hs) as [S1 S2]. destruct (mw_out_wf g _ Hg Hw Hc) as [W _].
  pose proof (separated_strict _ W S2) as St.
  split; [exact St|]. split; [exact S1|]. split; [reflexivity|]. split.
  - unfold strict_desc_start. apply pairwiseP_rev. exact St.
  - apply mw_far_apart; assumption.
Qed.

(* ------------------------------------------------------------------------------------ *)
(* (C) expression trees with Buf and MergeW nodes *)

(* the stream invariant (the order / well-formedness part of Assembly.stream_ok) *)
Definition sok (xs : list ivl) : Prop := Forall wf_ivl xs /\ Forall canon_ivl xs /\ sorted_start xs.

(* the windows an expression hands down to its operands: a buffer widens them; all of them must
   stay well formed (strictly between the sentinels) *)
Fixpoint wins (e : expr) (a b : option Z) {struct e} : Prop :=
  wf_win a b /\
  match e with
  | Stored _ => True
  | Solid => True
  | Union es => (fix go (l : list expr) : Prop :=
                   match l with [] => True | x :: r => wins x a b /\ go r end) es
  | Inter es => (fix go (l : list expr) : Prop :=
                   match l with [] => True | x :: r => wins x a b /\ go r end) es
  | Diff s subs => wins s a b /\
                   (fix go (l : list expr) : Prop :=
                      match l with [] => True | x :: r => wins x a b /\ go r end) subs
  | Compl s => wins s a b
  | Filt s _ => wins s a b
  | Buf s before after => wins s (addO a (- after)) (addO b before)
  | MergeW s _ => wins s a b
  end.

Lemma wins_wf_win e a b : wins e a b -> wf_win a b.
Proof. destruct e; cbn [wins]; tauto. Qed.

Lemma wins_go_Forall (es : list expr) a b :
  (fix go (l : list expr) : Prop := match l with [] => True | x :: r => wins x a b /\ go r end) es
  <-> Forall (fun s => wins s a b) es.
Proof.
  induction es as [|x r IH]; [split; [constructor|exact (fun _ => I)]|].
  rewrite IH. split; [intros [A B]; constructor; assumption|intro H; inversion H; subst; split; assumption].
Qed.

Lemma wins_union es a b : wins (Union es) a b <-> wf_win a b /\ Forall (fun s => wins s a b) es.
Proof. cbn [wins]. rewrite wins_go_Forall. tauto. Qed.
Lemma wins_inter es a b : wins (Inter es) a b <-> wf_win a b /\ Forall (fun s => wins s a b) es.
Proof. cbn [wins]. rewrite wins_go_Forall. tauto. Qed.
Lemma wins_diff s subs a b :
  wins (Diff s subs) a b <-> wf_win a b /\ wins s a b /\ Forall (fun u => wins u a b) subs.
Proof. cbn [wins]. rewrite wins_go_Forall. tauto. Qed.
Lemma wins_buf s before after a b :
  wins (Buf s before after) a b <-> wf_win a b /\ wins s (addO a (- after)) (addO b before).
Proof. cbn [wins]. tauto. Qed.

(* without buffers every well-formed window will do *)
Fixpoint nobuf (e : expr) : bool :=
  match e with
  | Stored _ => true
  | Solid => true
  | Union es => forallb nobuf es
  | Inter es => forallb nobuf es
  | Diff s subs => nobuf s && forallb nobuf subs
  | Compl s => nobuf s
  | Filt s _ => nobuf s
  | Buf _ _ _ => false
  | MergeW s _ => nobuf s
  end.

Lemma nobuf_wins e : nobuf e = true -> forall a b, wf_win a b -> wins e a b.
Proof.
  induction e as [evs| |es IH|es IH|s subs IHs IHsubs|s IHs|s f IHs|s x y IHs|s g IHs] using expr_ind';
    intros H a b Hw; cbn [nobuf] in H; try discriminate H.
  - cbn [wins]. tauto.
  - cbn [wins]. tauto.
  - apply wins_union. split; [exact Hw|]. apply Forall_forall. intros s Hs.
    exact (proj1 (Forall_forall _ _) IH s Hs (proj1 (forallb_forall _ _) H s Hs) a b Hw).
  - apply wins_inter. split; [exact Hw|]. apply Forall_forall. intros s Hs.
    exact (proj1 (Forall_forall _ _) IH s Hs (proj1 (forallb_forall _ _) H s Hs) a b Hw).
  - apply andb_true_iff in H as [H1 H2]. apply wins_diff. split; [exact Hw|]. split; [exact (IHs H1 a b Hw)|].
    apply Forall_forall. intros u Hu.
    exact (proj1 (Forall_forall _ _) IHsubs u Hu (proj1 (forallb_forall _ _) H2 u Hu) a b Hw).
  - cbn [wins]. split; [exact Hw|exact (IHs H a b Hw)].
  - cbn [wins]. split; [exact Hw|exact (IHs H a b Hw)].
  - cbn [wins]. split; [exact Hw|exact (IHs H a b Hw)].
Qed.

Lemma good_nobuf env e : Assembly.good env e -> nobuf e = true.
Proof.
  induction e as [evs| |es IH|es IH|s subs IHs IHsubs|s IHs|s f IHs|s x y IHs|s g IHs] using expr_ind';
    intro Hg; inv_good Hg; cbn [nobuf]; try reflexivity.
  - apply forallb_forall. intros s Hs. rewrite Forall_forall in IH, Hgs. auto.
  - apply forallb_forall. intros s Hs. rewrite Forall_forall in IH, Hgs. auto.
  - rewrite (IHs Hgs). cbn [andb]. apply forallb_forall. intros u Hu. rewrite Forall_forall in IHsubs, Hgsubs. auto.
  - exact (IHs Hgs).
Qed.

(* internally non-overlapping streams, on the windows that can reach the operand *)
Definition dj2 (env : fenv) (s : expr) : Prop :=
  forall a b, wins s a b -> disjoint_sorted (fetch env s a b false).

(* a buffered event must stay strictly between the sentinels *)
Definition shift_safe (before after : Z) (x : ivl) : Prop :=
  (forall z, st x = Some z -> NEG_INF < z - before) /\ (forall z, en x = Some z -> z + after < POS_INF).
Definition buf_safe (env : fenv) (s : expr) (before after : Z) : Prop :=
  forall a b, wins s a b -> Forall (shift_safe before after) (fetch env s a b false).

(* the class: [good] (Proofs/Assembly.v) at the leaves, every operator above, buffer and
   merge_within anywhere *)
Inductive good2 (env : fenv) : expr -> Prop :=
| g2_good e : Assembly.good env e -> good2 env e
| g2_union es : Forall (good2 env) es -> good2 env (Union es)
| g2_filt s f : good2 env s -> good2 env (Filt s f)
| g2_compl s : good2 env s -> good2 env (Compl s)
| g2_inter es : es <> [] -> Forall (good2 env) es -> Forall (dj2 env) es -> good2 env (Inter es)
| g2_diff s subs : good2 env s -> Forall (good2 env) subs -> dj2 env s -> good2 env (Diff s subs)
| g2_buf s before after : good2 env s -> 0 <= before -> 0 <= after -> buf_safe env s before after ->
                          good2 env (Buf s before after)
| g2_mw s g : good2 env s -> 0 <= g -> good2 env (MergeW s g).

Lemma good_sok env e a b : Assembly.good env e -> wf_win a b -> sok (fetch env e a b false).
Proof. intros Hg Hw. destruct (fetch_ok env e Hg a b Hw) as (S1 & S2 & S3 & _). repeat split; assumption. Qed.

(* a shifted event *)
Lemma buf_shift_ok before after x :
  0 <= before -> 0 <= after -> wf_ivl x -> shift_safe before after x ->
  wf_ivl (buf_shift before after x) /\ canon_ivl (buf_shift before after x) /\ no_underflow before x.
Proof.
  intros Hb Ha Hw [S1 S2]. pose proof (buf_shift_pos_len before after x Hb Ha Hw) as Hp.
  destruct Hw as (W1 & W2 & W3 & W4 & W5). split; [|split].
  - unfold wf_ivl. split; [|split; [exact Hp|split; [|split]]].
    + destruct (st x) as [z|] eqn:Es.
      * rewrite fstart_buf_shift by congruence. rewrite (fstart_some x z Es). specialize (S1 z eq_refl). lia.
      * rewrite fstart_buf_shift_none by exact Es. lia.
    + destruct (en x) as [z|] eqn:Ee.
      * rewrite fend_buf_shift by congruence. rewrite (fend_some x z Ee). specialize (S2 z eq_refl). lia.
      * rewrite fend_buf_shift_none by exact Ee. lia.
    + destruct (st x) as [z|] eqn:Es.
      * rewrite fstart_buf_shift by congruence. lia.
      * rewrite fstart_buf_shift_none by exact Es. unfold NEG_INF, POS_INF. lia.
    + destruct (en x) as [z|] eqn:Ee.
      * rewrite fend_buf_shift by congruence. lia.
      * rewrite fend_buf_shift_none by exact Ee. unfold NEG_INF, POS_INF. lia.
  - split; [rewrite buf_shift_st|rewrite buf_shift_en].
    + destruct (st x) as [z|]; cbn [addO]; [|discriminate]. specialize (S1 z eq_refl).
      intro H. injection H as H. lia.
    + destruct (en x) as [z|]; cbn [addO]; [|discriminate]. specialize (S2 z eq_refl).
      intro H. injection H as H. lia.
  - intros z Hz. specialize (S1 z Hz). lia.
Qed.

Lemma buf_map_sok before after xs :
  0 <= before -> 0 <= after -> sok xs -> Forall (shift_safe before after) xs ->
  sok (map (buf_shift before after) xs).
Proof.
  intros Hb Ha (W & C & S) Hs. rewrite Forall_forall in W, Hs.
  assert (H : forall x, In x xs -> wf_ivl (buf_shift before after x) /\ canon_ivl (buf_shift before after x) /\
                                   no_underflow before x).
  { intros x Hx. apply buf_shift_ok; auto. }
  split; [|split].
  - apply Forall_map_intro, Forall_forall. intros x Hx. apply (H x Hx).
  - apply Forall_map_intro, Forall_forall. intros x Hx. apply (H x Hx).
  - apply buffer_sorted_start; [exact Hb| |exact S]. apply Forall_forall. intros x Hx. apply (H x Hx).
Qed.

(* the stream invariant for the whole class, every reachable window *)
Theorem fetch_ok2 env e :
  good2 env e -> forall a b, wins e a b -> sok (fetch env e a b false).
Proof.
  induction e as [evs| |es IH|es IH|s subs IHs IHsubs|s IHs|s f IHs|s x y IHs|s g IHs] using expr_ind';
    intros Hg a b Hw; pose proof (wins_wf_win _ a b Hw) as Hwin;
    inversion Hg as [e0 Hgd|es0 Hall|s0 f0 Hs|s0 Hs|es0 Hne Hall Hdj|s0 subs0 Hs Hsubs Hdj
                     |s0 bf af Hs Hb Ha Hsafe|s0 g0 Hs Hg0]; subst;
    try (apply good_sok; assumption).
  - (* Union *)
    apply wins_union in Hw as [_ Hws].
    assert (Hok : forall s, In s es -> sok (fetch env s a b false)).
    { intros s Hs. rewrite Forall_forall in IH, Hall, Hws. exact (IH s Hs (Hall s Hs) a b (Hws s Hs)). }
    rewrite fetch_union. split; [|split].
    + apply Forall_merge, Forall_map_intro, Forall_forall. intros s Hs. apply (Hok s Hs).
    + apply Forall_merge, Forall_map_intro, Forall_forall. intros s Hs. apply (Hok s Hs).
    + apply merge_key_sorted_start, Forall_map_intro, Forall_forall. intros s Hs. apply (Hok s Hs).
  - (* Inter *)
    apply wins_inter in Hw as [_ Hws].
    assert (Hok : forall s, In s es -> sok (fetch env s a b false) /\ disjoint_sorted (fetch env s a b false)).
    { intros s Hs. rewrite Forall_forall in IH, Hall, Hws, Hdj.
      split; [exact (IH s Hs (Hall s Hs) a b (Hws s Hs))|exact (Hdj s Hs a b (Hws s Hs))]. }
    destruct es as [|e0 es]; [congruence|]. rewrite fetch_inter.
    set (ES := e0 :: es) in *. set (streams := map (fun s => fetch env s a b false) ES).
    destruct (inter_streams_ok streams (emit_sel (map is_mask ES))) as (R1 & R2 & R3 & _).
    + unfold streams, ES. cbn [map]. discriminate.
    + unfold streams. rewrite map_length, <- (map_length is_mask). apply emit_sel_has.
      unfold ES. cbn [map]. discriminate.
    + apply Forall_map_intro, Forall_forall. intros s Hs. apply (Hok s Hs).
    + apply Forall_map_intro, Forall_forall. intros s Hs. apply (Hok s Hs).
    + apply Forall_map_intro, Forall_forall. intros s Hs. apply (Hok s Hs).
    + apply Forall_map_intro, Forall_forall. intros s Hs. apply (Hok s Hs).
    + repeat split; assumption.
  - (* Diff *)
    apply wins_diff in Hw as (_ & Hw1 & Hws).
    destruct (IHs Hs a b Hw1) as (S1 & S2 & S3). pose proof (Hdj a b Hw1) as Hd.
    destruct subs as [|u us]; [rewrite fetch_diff_nil; repeat split; assumption|].
    rewrite fetch_diff. set (US := u :: us) in *.
    assert (Hok : forall v, In v US -> sok (fetch env v a b false)).
    { intros v Hv. rewrite Forall_forall in IHsubs, Hsubs, Hws. exact (IHsubs v Hv (Hsubs v Hv) a b (Hws v Hv)). }
    set (ss := map (fun v => fetch env v a b false) US).
    assert (Hm : merged_ok ss).
    { apply merged_ok_intro; unfold ss; apply Forall_map_intro, Forall_forall; intros v Hv; apply (Hok v Hv). }
    assert (Hfr : forall f, In f (diff_sweep (fetch env s a b false) ss) -> wf_ivl f /\ canon_ivl f).
    { intros f Hf. destruct (diff_sweep_fragments _ _ S1 S2 Hm f Hf) as (x & Hx & Hfx).
      eapply frag_of_wf; [|exact Hfx]. exact (proj1 (Forall_forall _ _) S1 x Hx). }
    split; [apply Forall_forall; intros f Hf; exact (proj1 (Hfr f Hf))|].
    split; [apply Forall_forall; intros f Hf; exact (proj2 (Hfr f Hf))|].
    apply diff_sweep_sorted; assumption.
  - (* Compl *)
    cbn [wins] in Hw. destruct Hw as [_ Hw1]. destruct (IHs Hs a b Hw1) as (S1 & S2 & S3).
    rewrite fetch_compl.
    destruct (compl_sweep_spec _ a b Hwin S1 S3) as (C1 & _ & _).
    destruct (compl_out_wf_sorted _ a b Hwin S1 S3) as (C4 & C5).
    pose proof (wf_win_bounds a b Hwin) as [Ba Bb].
    split; [exact C4|]. split; [|exact C5].
    apply Forall_forall. intros k Hk. exact (proj2 (good_gap_wf _ _ k Ba Bb (C1 k Hk))).
  - (* Filt *)
    cbn [wins] in Hw. destruct Hw as [_ Hw1]. destruct (IHs Hs a b Hw1) as (S1 & S2 & S3).
    rewrite fetch_filt. split; [apply Forall_filter; exact S1|].
    split; [apply Forall_filter; exact S2|apply sorted_start_filter; exact S3].
  - (* Buf *)
    apply wins_buf in Hw as [_ Hw1]. cbn [fetch].
    apply buf_map_sok; [exact Hb|exact Ha|exact (IHs Hs _ _ Hw1)|exact (Hsafe _ _ Hw1)].
  - (* MergeW *)
    cbn [wins] in Hw. destruct Hw as [_ Hw1]. destruct (IHs Hs a b Hw1) as (S1 & S2 & S3).
    destruct (fetch_mergew env s g a b) as [E _]. rewrite E.
    destruct (mw_out_wf g _ Hg0 S1 S2) as [W C]. destruct (mw_sorted g _ Hg0 S1 S2 S3) as [So _].
    repeat split; assumption.
Qed.

(* ---------- sufficient conditions for [dj2] and [buf_safe] ---------- *)

Lemma dj_dj2 env s : dj env s -> dj2 env s.
Proof. intros H a b Hw. apply H. exact (wins_wf_win s a b Hw). Qed.

(* merge_within always produces a non-overlapping (indeed separated) stream *)
Lemma dj2_mw env s g : good2 env s -> 0 <= g -> dj2 env (MergeW s g).
Proof.
  intros Hs Hg a b Hw. cbn [wins] in Hw. destruct Hw as [_ Hw1].
  destruct (fetch_ok2 env s Hs a b Hw1) as (S1 & S2 & S3).
  destruct (fetch_mergew env s g a b) as [E _]. rewrite E.
  apply RefSpec.separatedP_disjoint. exact (proj2 (mw_sorted g _ Hg S1 S2 S3)).
Qed.

Lemma dj2_compl env s : good2 env s -> dj2 env (Compl s).
Proof.
  intros Hs a b Hw. pose proof (wins_wf_win _ a b Hw) as Hwin. cbn [wins] in Hw. destruct Hw as [_ Hw1].
  destruct (fetch_ok2 env s Hs a b Hw1) as (S1 & _ & S3). rewrite fetch_compl.
  apply RefSpec.separatedP_disjoint. exact (proj1 (proj2 (compl_sweep_spec _ a b Hwin S1 S3))).
Qed.

Lemma dj2_filt env s f : dj2 env s -> dj2 env (Filt s f).
Proof.
  intros Hd a b Hw. cbn [wins] in Hw. destruct Hw as [_ Hw1]. rewrite fetch_filt.
  apply Assembly.disjoint_sorted_filter. exact (Hd a b Hw1).
Qed.

Lemma dj2_diff env s subs : good2 env s -> Forall (good2 env) subs -> dj2 env s -> dj2 env (Diff s subs).
Proof.
  intros Hs Hsubs Hd a b Hw. apply wins_diff in Hw as (_ & Hw1 & Hws).
  destruct subs as [|u us]; [rewrite fetch_diff_nil; exact (Hd a b Hw1)|].
  rewrite fetch_diff. destruct (fetch_ok2 env s Hs a b Hw1) as (S1 & _ & _).
  apply diff_sweep_disjoint_sorted; [exact S1|exact (Hd a b Hw1)|].
  apply merged_ok_intro; apply Forall_map_intro, Forall_forall; intros v Hv;
    rewrite Forall_forall in Hsubs, Hws;
    destruct (fetch_ok2 env v (Hsubs v Hv) a b (Hws v Hv)) as (V1 & _ & V3); assumption.
Qed.

(* a stored source: every stored event stays between the sentinels after the shift *)
Lemma buf_safe_stored env evs before after :
  Forall (shift_safe before after) evs -> buf_safe env (Stored evs) before after.
Proof.
  intros H a b _. rewrite fetch_stored. apply Forall_filter. apply Forall_forall. intros x Hx.
  apply (proj1 (sl_build_in _ _)) in Hx. exact (proj1 (Forall_forall _ _) H x Hx).
Qed.

Lemma buf_safe_filt env s f before after : buf_safe env s before after -> buf_safe env (Filt s f) before after.
Proof.
  intros H a b Hw. cbn [wins] in Hw. destruct Hw as [_ Hw1]. rewrite fetch_filt.
  apply Forall_filter. exact (H a b Hw1).
Qed.

(* ---------- slices ---------- *)

Lemma dj2_solid env : dj2 env Solid.
Proof. apply dj_dj2, dj_solid. Qed.

Lemma good2_inter_solid env es : good2 env (Inter es) -> good2 env (Inter (es ++ [Solid])).
Proof.
  intro Hg. inversion Hg as [e0 Hgd| | | |es0 Hne Hall Hdj| | |]; subst.
  - apply g2_good, good_inter_solid, Hgd.
  - apply g2_inter.
    + destruct es; discriminate.
    + apply Forall_app. split; [exact Hall|]. constructor; [apply g2_good, g_solid|constructor].
    + apply Forall_app. split; [exact Hdj|]. constructor; [apply dj2_solid|constructor].
Qed.

Lemma wins_inter_solid es a b : wins (Inter es) a b -> wins (Inter (es ++ [Solid])) a b.
Proof.
  intro H. apply wins_inter in H as [Hw Hs]. apply wins_inter. split; [exact Hw|].
  apply Forall_app. split; [exact Hs|]. constructor; [|constructor]. cbn [wins]. tauto.
Qed.

Lemma good2_inter_nonempty env es : good2 env (Inter es) -> es <> [].
Proof.
  intro Hg. inversion Hg as [e0 Hgd| | | |es0 Hne Hall Hdj| | |]; subst; [|exact Hne].
  inv_good Hgd. assumption.
Qed.

(* the normalised slice: stream invariant + inside the window.  The final "& solid" of
   Timeline.__getitem__ is per-event clipping because the stream is sorted by start
   (Clip.clip_sweep_iff through clip_sweep_masks). *)
Theorem slice_n_ok2 env e a b :
  good2 env e -> wins e a b -> sok (slice_n env e a b) /\ in_win_all a b (slice_n env e a b).
Proof.
  intros Hg Hw. pose proof (wins_wf_win _ a b Hw) as Hwin.
  assert (Hcl : sok (fetch env (and_ e Solid) a b false) /\
                in_win_all a b (fetch env (and_ e Solid) a b false)).
  { destruct (and_solid_cases e) as [(es & -> & ->)| -> ].
    - split; [apply fetch_ok2; [apply good2_inter_solid, Hg|apply wins_inter_solid, Hw]|].
      intros x Hx. pose proof (good2_inter_nonempty env es Hg) as Hne.
      destruct es as [|e0 es]; [congruence|].
      cbn [app] in Hx. rewrite fetch_inter in Hx.
      apply inter_sweep_out in Hx as (_ & _ & Hin).
      + destruct (Hin [mkI a b Plain]) as (c & Hc & B1 & B2);
          [|destruct Hc as [<- | []]; exact (conj B1 B2)].
        change (e0 :: es ++ [Solid]) with ((e0 :: es) ++ [Solid]). rewrite map_app.
        apply in_or_app. right. left. reflexivity.
      + rewrite map_length. cbn [length]. rewrite app_length. cbn [length]. lia.
    - rewrite fetch_clip. destruct (fetch_ok2 env e Hg a b Hw) as (S1 & S2 & S3).
      rewrite (clip_sweep_masks _ _ a b S3).
      destruct (clip_stream_ok a b (fetch env e a b false) Hwin) as (C1 & C2 & C3).
      split; [|exact C3]. split; [exact C1|]. split; [exact C2|apply sorted_start_clip; exact S3]. }
  unfold slice_n. destruct a as [x|], b as [y|]; try exact Hcl.
  pose proof (fetch_ok2 env e Hg None None Hw) as Hs. split; [exact Hs|].
  apply in_win_open. exact (proj1 Hs).
Qed.

(* GOAL 4c: C03 (forward) for every operator including buffer and merge_within *)
Theorem C03_forward_wf2 env e a b :
  good2 env e -> wins e (fst (norm_bounds a b)) (snd (norm_bounds a b)) ->
  stream_wf (fst (norm_bounds a b)) (snd (norm_bounds a b)) false (slice env e a b false) = true.
Proof.
  intros Hg Hw. rewrite slice_unfold.
  destruct (slice_n_ok2 env e _ _ Hg Hw) as ((S1 & S2 & S3) & Hin).
  apply stream_wf_intro; assumption.
Qed.

(* the theorem of Proofs/Assembly.v is the buffer-free instance *)
Corollary C03_forward_wf_good env e a b :
  Assembly.good env e -> wf_win' a b ->
  stream_wf (fst (norm_bounds a b)) (snd (norm_bounds a b)) false (slice env e a b false) = true.
Proof.
  intros Hg Hw. apply C03_forward_wf2; [apply g2_good, Hg|].
  apply nobuf_wins; [eapply good_nobuf; exact Hg|exact Hw].
Qed.

(* ---------- a numeric sufficient condition for [wins]: stay [margin e] away from the
   sentinels, where [margin] adds up the buffers along the deepest path ---------- *)

Definition wide (m : Z) (a b : option Z) : Prop :=
  wf_win a b /\ (forall z, a = Some z -> NEG_INF + m < z) /\ (forall z, b = Some z -> z + m < POS_INF).

Fixpoint margin (e : expr) : Z :=
  match e with
  | Stored _ => 0
  | Solid => 0
  | Union es => fold_right (fun s m => Z.max (margin s) m) 0 es
  | Inter es => fold_right (fun s m => Z.max (margin s) m) 0 es
  | Diff s subs => Z.max (margin s) (fold_right (fun s m => Z.max (margin s) m) 0 subs)
  | Compl s => margin s
  | Filt s _ => margin s
  | Buf s before after => margin s + Z.max (Z.max before after) 0
  | MergeW s _ => margin s
  end.

Lemma fold_max_nonneg (f : expr -> Z) es : 0 <= fold_right (fun s m => Z.max (f s) m) 0 es.
Proof. induction es as [|x r IH]; cbn [fold_right]; lia. Qed.

Lemma fold_max_in (f : expr -> Z) es s : In s es -> f s <= fold_right (fun s m => Z.max (f s) m) 0 es.
Proof. induction es as [|x r IH]; intros []; cbn [fold_right]; [subst; lia|specialize (IH H); lia]. Qed.

Lemma margin_nonneg e : 0 <= margin e.
Proof.
  induction e as [evs| |es IH|es IH|s subs IHs IHsubs|s IHs|s f IHs|s x y IHs|s g IHs] using expr_ind';
    cbn [margin]; try lia; try apply fold_max_nonneg.
Qed.

Lemma wide_weaken m m' a b : wide m a b -> m' <= m -> wide m' a b.
Proof.
  intros (W & A & B) H. split; [exact W|]. split; intros z E; [specialize (A z E)|specialize (B z E)]; lia.
Qed.

Lemma wide_buf m before after a b :
  0 <= m -> 0 <= before -> 0 <= after -> wide (m + Z.max (Z.max before after) 0) a b ->
  wide m (addO a (- after)) (addO b before).
Proof.
  intros Hm Hb Ha ((W1 & W2 & W3) & A & B).
  assert (La : forall z, addO a (- after) = Some z -> NEG_INF + m < z).
  { intros z E. destruct a as [x|]; cbn [addO] in E; [|discriminate E]. injection E as <-.
    specialize (A x eq_refl). lia. }
  assert (Lb : forall z, addO b before = Some z -> z + m < POS_INF).
  { intros z E. destruct b as [y|]; cbn [addO] in E; [|discriminate E]. injection E as <-.
    specialize (B y eq_refl). lia. }
  assert (Lo : bnd_lo (addO a (- after)) <= bnd_lo a) by (destruct a; cbn [addO bnd_lo]; lia).
  assert (Hi : bnd_hi b <= bnd_hi (addO b before)) by (destruct b; cbn [addO bnd_hi]; lia).
  split; [split; [|split]|split].
  - intros z E. specialize (La z E). lia.
  - intros z E. specialize (Lb z E). lia.
  - lia.
  - exact La.
  - exact Lb.
Qed.

Theorem wide_wins env e : good2 env e -> forall a b, wide (margin e) a b -> wins e a b.
Proof.
  induction e as [evs| |es IH|es IH|s subs IHs IHsubs|s IHs|s f IHs|s x y IHs|s g IHs] using expr_ind';
    intros Hg a b Hw; pose proof (proj1 Hw) as Hwin;
    inversion Hg as [e0 Hgd|es0 Hall|s0 f0 Hs|s0 Hs|es0 Hne Hall Hdj|s0 subs0 Hs Hsubs Hdj
                     |s0 bf af Hs Hb Ha Hsafe|s0 g0 Hs Hg0]; subst;
    try (apply nobuf_wins; [eapply good_nobuf; eassumption|exact Hwin]).
  - apply wins_union. split; [exact Hwin|]. apply Forall_forall. intros s Hs.
    rewrite Forall_forall in IH, Hall. apply (IH s Hs (Hall s Hs)).
    eapply wide_weaken; [exact Hw|]. cbn [margin]. apply (fold_max_in margin). exact Hs.
  - apply wins_inter. split; [exact Hwin|]. apply Forall_forall. intros s Hs.
    rewrite Forall_forall in IH, Hall. apply (IH s Hs (Hall s Hs)).
    eapply wide_weaken; [exact Hw|]. cbn [margin]. apply (fold_max_in margin). exact Hs.
  - apply wins_diff. split; [exact Hwin|]. split.
    + apply (IHs Hs). eapply wide_weaken; [exact Hw|]. cbn [margin]. lia.
    + apply Forall_forall. intros u Hu. rewrite Forall_forall in IHsubs, Hsubs.
      apply (IHsubs u Hu (Hsubs u Hu)). eapply wide_weaken; [exact Hw|]. cbn [margin].
      pose proof (fold_max_in margin subs u Hu). lia.
  - cbn [wins]. split; [exact Hwin|]. apply (IHs Hs). exact Hw.
  - cbn [wins]. split; [exact Hwin|]. apply (IHs Hs). exact Hw.
  - apply wins_buf. split; [exact Hwin|]. apply (IHs Hs). cbn [margin] in Hw.
    apply wide_buf; [apply margin_nonneg|exact Hb|exact Ha|exact Hw].
  - cbn [wins]. split; [exact Hwin|]. apply (IHs Hs). exact Hw.
Qed.

Corollary C03_forward_wf2_margin env e a b :
  good2 env e -> wide (margin e) (fst (norm_bounds a b)) (snd (norm_bounds a b)) ->
  stream_wf (fst (norm_bounds a b)) (snd (norm_bounds a b)) false (slice env e a b false) = true.
Proof. intros Hg Hw. apply C03_forward_wf2; [exact Hg|apply (wide_wins env); assumption]. Qed.

(* ------------------------------------------------------------------------------------ *)
(* (D) reverse slices: towers of buffer / filter over merge_within (of anything in [good2]) or
   over an expression of the reverse-iteration domain [good'] of Proofs/Reverse2.v *)

Inductive rtower (env : fenv) : expr -> Prop :=
| rt_base e : good' env e -> rtower env e
| rt_mw s g : good2 env s -> 0 <= g -> rtower env (MergeW s g)
| rt_buf s before after : rtower env s -> 0 <= before -> 0 <= after -> buf_safe env s before after ->
                          rtower env (Buf s before after)
| rt_filt s f : rtower env s -> rtower env (Filt s f).

Lemma rtower_good2 env e : rtower env e -> good2 env e.
Proof.
  induction 1 as [e [Hr _]|s g Hs Hg|s before after Hs IH Hb Ha Hsafe|s f Hs IH].
  - apply g2_good, rgood_good, Hr.
  - apply g2_mw; assumption.
  - apply g2_buf; assumption.
  - apply g2_filt; assumption.
Qed.

(* the invariant of the reverse fetch: the forward multiset, newest first, and either ends never
   increase or no event ends at or before the window start (what the final clip needs) *)
Definition rsok (env : fenv) (e : expr) (a b : option Z) : Prop :=
  Permutation (fetch env e a b true) (fetch env e a b false) /\
  desc_start (fetch env e a b true) /\
  (mono_ends_desc (fetch env e a b true) \/ forall x, In x (fetch env e a b true) -> bnd_lo a < fend x).

Lemma pairwiseP_filter R (p : ivl -> bool) l : pairwiseP R l -> pairwiseP R (filter p l).
Proof.
  induction l as [|x r IH]; [auto|]. intros [Hx Hr]. cbn [filter].
  destruct (p x); [|auto]. split; [|auto]. intros y Hy. apply filter_In in Hy as [Hy _]. auto.
Qed.

Lemma buf_shift_fend_mono before after x y :
  0 <= after -> (forall z, en x = Some z -> z + after <= POS_INF) ->
  fend x <= fend y -> fend (buf_shift before after x) <= fend (buf_shift before after y).
Proof.
  intros Ha Hx H. unfold fend in *. rewrite !buf_shift_en.
  destruct (en x) as [e1|] eqn:Ex, (en y) as [e2|] eqn:Ey; cbn [addO]; try lia.
  specialize (Hx e1 eq_refl). lia.
Qed.

Theorem rtower_rsok env e : rtower env e -> forall a b, wins e a b -> rsok env e a b.
Proof.
  induction 1 as [e [Hr Htop]|s g Hs Hg|s before after Hs IH Hb Ha Hsafe|s f Hs IH];
    intros a b Hw; pose proof (wins_wf_win _ a b Hw) as Hwin.
  - (* base *)
    destruct (fetch_rev_ok env e Hr a b Hwin) as [P K].
    split; [exact P|]. split; [apply desc_key_starts, K|].
    destruct Htop as [C|L].
    + left. apply rev_ok_mono; [split; assumption|exact (C a b Hwin)].
    + right. intros x Hx. apply (L a b Hwin). eapply Permutation_in; [exact P|exact Hx].
  - (* MergeW: the reversal of a separated forward stream *)
    cbn [wins] in Hw. destruct Hw as [_ Hw1]. destruct (fetch_ok2 env s Hs a b Hw1) as (S1 & S2 & S3).
    destruct (fetch_mergew env s g a b) as [E1 E2]. unfold rsok. rewrite E2, E1.
    destruct (mw_sorted g _ Hg S1 S2 S3) as [So Sep]. destruct (mw_out_wf g _ Hg S1 S2) as [W _].
    split; [apply Permutation_sym, Permutation_rev|]. split.
    + unfold desc_start. apply pairwiseP_rev. apply sorted_start_pw in So. exact So.
    + left. apply separated_rev_mono; assumption.
  - (* Buf *)
    apply wins_buf in Hw as [_ Hw1]. destruct (IH _ _ Hw1) as (P & D & T).
    pose proof (fetch_ok2 env s (rtower_good2 env s Hs) _ _ Hw1) as (S1 & _ & _).
    pose proof (Hsafe _ _ Hw1) as Sf.
    assert (Hel : forall x, In x (fetch env s (addO a (- after)) (addO b before) true) ->
                            wf_ivl x /\ shift_safe before after x).
    { intros x Hx. pose proof (Permutation_in _ P Hx) as Hx'. rewrite Forall_forall in S1, Sf. auto. }
    unfold rsok. cbn [fetch]. split; [apply Permutation_map; exact P|]. split.
    + apply buffer_desc_start; [exact Hb| |exact D]. apply Forall_forall. intros x Hx.
      destruct (Hel x Hx) as [Wx Sx]. exact (proj2 (proj2 (buf_shift_ok before after x Hb Ha Wx Sx))).
    + destruct T as [M|L].
      * left. unfold mono_ends_desc in *. apply pairwiseP_map. revert M. apply pairwiseP_impl.
        intros x y _ Hy Hxy. apply buf_shift_fend_mono; [exact Ha| |exact Hxy].
        intros z Ez. destruct (Hel y Hy) as [_ [_ Sy]]. specialize (Sy z Ez). lia.
      * right. intros y Hy. apply in_map_iff in Hy as (x & <- & Hx). specialize (L x Hx).
        pose proof (wf_win_bounds a b Hwin) as [Ba Bb]. destruct Hwin as (_ & _ & Wl).
        destruct (en x) as [e1|] eqn:Ee.
        -- rewrite fend_buf_shift by congruence. rewrite (fend_some x e1 Ee) in *.
           destruct a as [z|]; cbn [addO bnd_lo] in *; lia.
        -- rewrite fend_buf_shift_none by exact Ee. lia.
  - (* Filt *)
    cbn [wins] in Hw. destruct Hw as [_ Hw1]. destruct (IH _ _ Hw1) as (P & D & T).
    unfold rsok. cbn [fetch]. split; [apply Permutation_filter'; exact P|]. split.
    + apply pairwiseP_filter. exact D.
    + destruct T as [M|L]; [left; apply pairwiseP_filter; exact M|right].
      intros x Hx. apply filter_In in Hx as [Hx _]. exact (L x Hx).
Qed.

(* the reverse slice on normalised bounds (non-intersection top node) *)
Theorem slice_r_ok2 env e a b :
  rtower env e -> (forall es, e <> Inter es) -> wins e a b ->
  Permutation (slice_r env e a b) (slice_n env e a b) /\ desc_start (slice_r env e a b).
Proof.
  intros Hr Hni Hw. pose proof (wins_wf_win _ a b Hw) as Hwin.
  destruct (rtower_rsok env e Hr a b Hw) as (P & D & T).
  assert (Hcl : Permutation (fetch env (and_ e Solid) a b true) (fetch env (and_ e Solid) a b false) /\
                desc_start (fetch env (and_ e Solid) a b true)).
  { destruct (and_solid_cases e) as [(es & E & _)| -> ]; [exfalso; exact (Hni es E)|].
    destruct (fetch_ok2 env e (rtower_good2 env e Hr) a b Hw) as (_ & _ & S3).
    destruct (emit_sel_masks (is_mask e)) as [H0 H1].
    rewrite fetch_clip_rev, fetch_clip, (clip_sweep_masks _ _ a b S3).
    rewrite (clip_sweep_reverse _ (fetch env e a b true) a b H0 H1).
    - split; [apply Permutation_flat_map; exact P|apply clip_desc; exact D].
    - destruct T as [M|L]; [left; exact M|right].
      intros x Hx. specialize (L x Hx). destruct Hwin as (_ & _ & Hlt). unfold before_win. lia. }
  unfold slice_r, slice_n. destruct a as [x|], b as [y|]; try exact Hcl. split; assumption.
Qed.

(* GOAL 4d: C03 (reverse): non-increasing starts, elements non-empty, inside the window,
   sentinel-free *)
Theorem C03_reverse_wf2 env e a b :
  rtower env e -> wins e (fst (norm_bounds a b)) (snd (norm_bounds a b)) ->
  stream_wf (fst (norm_bounds a b)) (snd (norm_bounds a b)) true (slice env e a b true) = true.
Proof.
  intros Hr Hw. pose proof (wins_wf_win _ _ _ Hw) as Hwin.
  assert (Hgen : (forall es, e <> Inter es) ->
                 stream_wf (fst (norm_bounds a b)) (snd (norm_bounds a b)) true (slice env e a b true) = true).
  { intro Hni. pose proof (C03_forward_wf2 env e a b (rtower_good2 env e Hr) Hw) as F.
    rewrite slice_unfold_rev. rewrite slice_unfold in F.
    destruct (slice_r_ok2 env e _ _ Hr Hni Hw) as [P D].
    unfold stream_wf in *. apply andb_true_iff in F as [F _].
    rewrite (desc_start_sorted_by _ D), andb_true_r. eapply forallb_perm; [exact P|exact F]. }
  destruct Hr as [e Hg'|s g Hs Hg|s before after Hs Hb Ha Hsafe|s f Hs].
  - apply Reverse2.C03_reverse_wf; [exact Hg'|exact Hwin].
  - apply Hgen. intros es E. discriminate E.
  - apply Hgen. intros es E. discriminate E.
  - apply Hgen. intros es E. discriminate E.
Qed.

(* ---------- more sufficient conditions for [buf_safe]: towers ---------- *)

Lemma shift_safe_shift b1 a1 b2 a2 x :
  shift_safe (b1 + b2) (a1 + a2) x -> shift_safe b2 a2 (buf_shift b1 a1 x).
Proof.
  intros [S1 S2]. split; intros z E.
  - rewrite buf_shift_st in E. destruct (st x) as [w|]; cbn [addO] in E; [|discriminate E].
    injection E as <-. specialize (S1 w eq_refl). lia.
  - rewrite buf_shift_en in E. destruct (en x) as [w|]; cbn [addO] in E; [|discriminate E].
    injection E as <-. specialize (S2 w eq_refl). lia.
Qed.

Lemma buf_safe_buf env s b1 a1 b2 a2 :
  buf_safe env s (b1 + b2) (a1 + a2) -> buf_safe env (Buf s b1 a1) b2 a2.
Proof.
  intros H a b Hw. apply wins_buf in Hw as [_ Hw1]. cbn [fetch].
  apply Forall_map_intro. eapply Forall_impl; [|exact (H _ _ Hw1)].
  intros x Hx. apply shift_safe_shift. exact Hx.
Qed.

Lemma max_end_attained l : forall x, exists y, In y (x :: l) /\ max_end l (fend x) = fend y.
Proof.
  induction l as [|z r IH]; intro x; [exists x; split; [left; reflexivity|reflexivity]|].
  rewrite max_end_cons. destruct (Z.max_spec (fend x) (fend z)) as [[_ E]|[_ E]]; rewrite E.
  - destruct (IH z) as (y & Hy & Ey). exists y. split; [right; exact Hy|exact Ey].
  - destruct (IH x) as (y & Hy & Ey). exists y. split; [|exact Ey].
    destruct Hy as [<-|Hy]; [left; reflexivity|right; right; exact Hy].
Qed.

Lemma buf_safe_mw env s g before after :
  good2 env s -> 0 <= g -> buf_safe env s before after -> buf_safe env (MergeW s g) before after.
Proof.
  intros Hs Hg H a b Hw. cbn [wins] in Hw. destruct Hw as [_ Hw1].
  destruct (fetch_ok2 env s Hs a b Hw1) as (S1 & S2 & S3). pose proof (H a b Hw1) as Sf.
  destruct (fetch_mergew env s g a b) as [E _]. rewrite E.
  set (src := fetch env s a b false) in *.
  destruct (mw_out_wf g src Hg S1 S2) as [_ Co].
  apply Forall_forall. intros o Ho.
  destruct (mw_group_shape g src o Hg S1 S2 S3 Ho) as (x & grp & Ef & So & _ & _ & Fo & _ & _).
  assert (Hin : forall y, In y (x :: grp) -> In y src).
  { intros y Hy. rewrite <- Ef in Hy. apply filter_In in Hy as [Hy _]. exact Hy. }
  rewrite Forall_forall in Sf. split; intros z Ez.
  - rewrite So in Ez. exact (proj1 (Sf x (Hin x (or_introl eq_refl))) z Ez).
  - destruct (max_end_attained grp x) as (y & Hy & Ey). rewrite <- Fo in Ey.
    rewrite (fend_some o z Ez) in Ey.
    destruct (en y) as [w|] eqn:Ew.
    + rewrite (fend_some y w Ew) in Ey. subst w. exact (proj2 (Sf y (Hin y Hy)) z Ew).
    + rewrite (fend_none y Ew) in Ey. subst z. exfalso.
      destruct (proj1 (Forall_forall _ _) Co o Ho) as [_ C2]. exact (C2 Ez).
Qed.

(* ------------------------------------------------------------------------------------ *)
(* non-vacuity: concrete expressions in the classes, concrete windows *)

Module Examples4.
  Definition ev (s e : Z) (id : N) : ivl := mkI (Some s) (Some e) (Rich id).
  Definition env0 : fenv := [].

  (* overlapping, nested and duplicated events, one unbounded to the right *)
  Definition A : list ivl := [ev 0 10 1; ev 2 5 2; ev 2 5 2; ev 20 30 3; mkI (Some 60) None (Rich 4)].
  Definition B : list ivl := [ev 8 12 5; mkI None (Some (-50)) (Rich 6)].
  Definition D1 : list ivl := [ev 15 18 7; ev 0 4 8; ev 4 9 9].
  Definition flt : filt := FCmp (PDur 1) Ge (VInt 3).

  Definition t1 : expr := MergeW (Buf (Stored A) 2 3) 5.
  Definition t2 : expr := Buf (MergeW (Filt (Stored A) flt) 4) 1 1.
  Definition e4 : expr := Union [t1; t2; Diff (Stored D1) [Stored A]].
  Definition e5 : expr := Inter [MergeW (Stored A) 0; Compl t1].
  Definition e6 : expr := Diff t1 [t2; Stored B; e5].

  Ltac safe_tac :=
    repeat (apply Forall_cons;
            [split; intros z E; cbn [ev st en] in E; try discriminate E; injection E as <-;
             unfold NEG_INF, POS_INF; lia|]);
    apply Forall_nil.

  Lemma A_good : Assembly.good env0 (Stored A). Proof. apply sgood_good. vm_compute. reflexivity. Qed.
  Lemma A_safe b a : 0 <= b <= 100 -> 0 <= a <= 100 -> Forall (shift_safe b a) A.
  Proof. intros Hb Ha. unfold A. safe_tac. Qed.

  Lemma t1_good2 : good2 env0 t1.
  Proof.
    apply g2_mw; [|lia]. apply g2_buf; [apply g2_good, A_good|lia|lia|].
    apply buf_safe_stored, A_safe; lia.
  Qed.
  Lemma fA_good2 : good2 env0 (Filt (Stored A) flt).
  Proof. apply g2_filt, g2_good, A_good. Qed.
  Lemma t2_good2 : good2 env0 t2.
  Proof.
    apply g2_buf; [apply g2_mw; [exact fA_good2|lia]|lia|lia|].
    apply buf_safe_mw; [exact fA_good2|lia|]. apply buf_safe_filt, buf_safe_stored, A_safe; lia.
  Qed.
  Lemma e4_good2 : good2 env0 e4.
  Proof.
    apply g2_union. constructor; [exact t1_good2|]. constructor; [exact t2_good2|].
    constructor; [|constructor]. apply g2_good, sgood_good. vm_compute. reflexivity.
  Qed.
  Lemma e5_good2 : good2 env0 e5.
  Proof.
    apply g2_inter; [discriminate| |].
    - constructor; [apply g2_mw; [apply g2_good, A_good|lia]|].
      constructor; [apply g2_compl, t1_good2|constructor].
    - constructor; [apply dj2_mw; [apply g2_good, A_good|lia]|].
      constructor; [apply dj2_compl, t1_good2|constructor].
  Qed.
  Lemma e6_good2 : good2 env0 e6.
  Proof.
    apply g2_diff; [exact t1_good2| |].
    - constructor; [exact t2_good2|]. constructor; [|constructor; [exact e5_good2|constructor]].
      apply g2_good, sgood_good. vm_compute. reflexivity.
    - apply dj2_mw; [|lia]. apply g2_buf; [apply g2_good, A_good|lia|lia|].
      apply buf_safe_stored, A_safe; lia.
  Qed.

  (* windows: any bounds further than [margin] from the sentinels, in any order *)
  Lemma wide_small m x y : 0 <= m <= 1000 -> -1000000 <= x < y -> y <= 1000000 ->
    wide m (Some x) (Some y) /\ wide m (Some x) None /\ wide m None (Some y) /\ wide m None None.
  Proof.
    intros Hm Hx Hy. unfold wide, wf_win. cbn [bnd_lo bnd_hi]. unfold NEG_INF, POS_INF.
    repeat split; intros; try discriminate;
      try match goal with H : Some _ = Some _ |- _ => injection H as <- end; lia.
  Qed.

  Example e4_C03 : stream_wf (Some 1) (Some 40) false (slice env0 e4 (Some 40) (Some 1) false) = true.
  Proof.
    pose proof (C03_forward_wf2_margin env0 e4 (Some 40) (Some 1) e4_good2) as H.
    change (fst (norm_bounds (Some 40) (Some 1))) with (Some 1) in H.
    change (snd (norm_bounds (Some 40) (Some 1))) with (Some 40) in H.
    apply H. apply (wide_small (margin e4) 1 40); vm_compute; repeat split; discriminate.
  Qed.

  Example e6_C03 : stream_wf (Some (-7)) None false (slice env0 e6 (Some (-7)) None false) = true.
  Proof.
    apply (C03_forward_wf2_margin env0 e6 (Some (-7)) None e6_good2).
    apply (wide_small (margin e6) (-7) 0); vm_compute; repeat split; discriminate.
  Qed.

  Example e6_C03_open : stream_wf None None false (slice env0 e6 None None false) = true.
  Proof.
    apply (C03_forward_wf2_margin env0 e6 None None e6_good2).
    apply (wide_small (margin e6) 0 1); vm_compute; repeat split; discriminate.
  Qed.

  (* what the streams look like *)
  Example t1_value :
    slice env0 t1 None None false =
    [mkI (Some (-2)) (Some 33) (Rich 1); mkI (Some 58) None (Rich 4)].
  Proof. vm_compute. reflexivity. Qed.

  (* reverse: a tower over merge_within, and a tower over a stored timeline *)
  Definition r1 : expr := Buf (Filt (MergeW (Union [Stored A; Stored B]) 3) flt) 2 2.
  Definition r2 : expr := Filt (Buf (Stored A) 1 1) flt.

  Lemma B_safe b a : 0 <= b <= 100 -> 0 <= a <= 100 -> Forall (shift_safe b a) B.
  Proof. intros Hb Ha. unfold B. safe_tac. Qed.

  Lemma AB_good2 : good2 env0 (Union [Stored A; Stored B]).
  Proof. apply g2_good, sgood_good. vm_compute. reflexivity. Qed.

  Lemma buf_safe_union_stored env evss before after :
    Forall (Forall (shift_safe before after)) evss -> buf_safe env (Union (map Stored evss)) before after.
  Proof.
    intros H a b Hw. pose proof (wins_wf_win _ a b Hw) as Hwin.
    rewrite fetch_union. apply Forall_merge. rewrite map_map.
    apply Forall_map_intro. eapply Forall_impl; [|exact H]. intros evs Hevs.
    exact (buf_safe_stored env evs before after Hevs a b (conj Hwin I)).
  Qed.

  Lemma r1_tower : rtower env0 r1.
  Proof.
    apply rt_buf; [apply rt_filt, rt_mw; [exact AB_good2|lia]|lia|lia|].
    apply buf_safe_filt, buf_safe_mw; [exact AB_good2|lia|].
    apply (buf_safe_union_stored env0 [A; B]). constructor; [apply A_safe; lia|].
    constructor; [apply B_safe; lia|constructor].
  Qed.

  Lemma r2_tower : rtower env0 r2.
  Proof.
    apply rt_filt, rt_buf; [apply rt_base, sgood'_sound; vm_compute; reflexivity|lia|lia|].
    apply buf_safe_stored, A_safe; lia.
  Qed.

  Example r1_C03_rev : stream_wf (Some 1) (Some 40) true (slice env0 r1 (Some 40) (Some 1) true) = true.
  Proof.
    pose proof (C03_reverse_wf2 env0 r1 (Some 40) (Some 1) r1_tower) as H.
    change (fst (norm_bounds (Some 40) (Some 1))) with (Some 1) in H.
    change (snd (norm_bounds (Some 40) (Some 1))) with (Some 40) in H.
    apply H. apply (wide_wins env0); [apply rtower_good2, r1_tower|].
    apply (wide_small (margin r1) 1 40); vm_compute; repeat split; discriminate.
  Qed.

  Example r2_C03_rev : stream_wf None (Some 25) true (slice env0 r2 None (Some 25) true) = true.
  Proof.
    apply (C03_reverse_wf2 env0 r2 None (Some 25) r2_tower).
    apply (wide_wins env0); [apply rtower_good2, r2_tower|].
    apply (wide_small (margin r2) 0 25); vm_compute; repeat split; discriminate.
  Qed.

  Example r2_value :
    slice env0 r2 None (Some 25) true =
    [mkI (Some 19) (Some 25) (Rich 3); mkI (Some 1) (Some 6) (Rich 2); mkI (Some 1) (Some 6) (Rich 2);
     mkI (Some (-1)) (Some 11) (Rich 1)].
  Proof. vm_compute. reflexivity. Qed.

  (* a buffer over a buffer, and an intersection whose operands are a difference with a
     merge_within source and a filtered merge_within *)
  Definition t3 : expr := Buf (Buf (Stored A) 1 1) 2 2.
  Definition e7 : expr := Inter [Diff t1 [Stored B]; Filt (MergeW (Stored A) 1) flt; t3].

  Lemma bA_good2 : good2 env0 (Buf (Stored A) 2 3).
  Proof. apply g2_buf; [apply g2_good, A_good|lia|lia|]. apply buf_safe_stored, A_safe; lia. Qed.
  Lemma t3_good2 : good2 env0 t3.
  Proof.
    apply g2_buf; [apply g2_buf; [apply g2_good, A_good|lia|lia|]|lia|lia|].
    - apply buf_safe_stored, A_safe; lia.
    - apply buf_safe_buf, buf_safe_stored, A_safe; lia.
  Qed.
  Lemma B_good2 : good2 env0 (Stored B).
  Proof. apply g2_good, sgood_good. vm_compute. reflexivity. Qed.

  (* t3 is not internally disjoint (A has nested events), so e7 is NOT in the class; the variant
     with a disjoint stored timeline in its place is *)
  Definition t3' : expr := Buf (Buf (Stored D1) 1 1) 2 2.
  Definition e7' : expr := Inter [Diff t1 [Stored B]; Filt (MergeW (Stored A) 1) flt; MergeW t3' 0].
  Lemma D1_good : Assembly.good env0 (Stored D1). Proof. apply sgood_good. vm_compute. reflexivity. Qed.
  Lemma D1_safe b a : 0 <= b <= 100 -> 0 <= a <= 100 -> Forall (shift_safe b a) D1.
  Proof. intros Hb Ha. unfold D1. safe_tac. Qed.
  Lemma t3'_good2 : good2 env0 t3'.
  Proof.
    apply g2_buf; [apply g2_buf; [apply g2_good, D1_good|lia|lia|]|lia|lia|].
    - apply buf_safe_stored, D1_safe; lia.
    - apply buf_safe_buf, buf_safe_stored, D1_safe; lia.
  Qed.
  Lemma e7'_good2 : good2 env0 e7'.
  Proof.
    apply g2_inter; [discriminate| |].
    - constructor; [apply g2_diff; [exact t1_good2|constructor; [exact B_good2|constructor]|]|].
      + apply dj2_mw; [exact bA_good2|lia].
      + constructor; [apply g2_filt, g2_mw; [apply g2_good, A_good|lia]|].
        constructor; [apply g2_mw; [exact t3'_good2|lia]|constructor].
    - constructor; [apply dj2_diff; [exact t1_good2|constructor; [exact B_good2|constructor]|]|].
      + apply dj2_mw; [exact bA_good2|lia].
      + constructor; [apply dj2_filt, dj2_mw; [apply g2_good, A_good|lia]|].
        constructor; [apply dj2_mw; [exact t3'_good2|lia]|constructor].
  Qed.
  Example e7'_C03 : stream_wf (Some 0) (Some 100) false (slice env0 e7' (Some 0) (Some 100) false) = true.
  Proof.
    apply (C03_forward_wf2_margin env0 e7' (Some 0) (Some 100) e7'_good2).
    apply (wide_small (margin e7') 0 100); vm_compute; repeat split; discriminate.
  Qed.
  Example e7'_value :
    slice env0 e7' (Some 0) (Some 100) false =
    [mkI (Some 0) (Some 8) (Rich 1); mkI (Some 0) (Some 8) (Rich 1); mkI (Some 0) (Some 8) (Rich 8);
     mkI (Some 20) (Some 21) (Rich 1); mkI (Some 20) (Some 21) (Rich 3); mkI (Some 20) (Some 21) (Rich 8)].
  Proof. vm_compute. reflexivity. Qed.

  (* the premises of (A) and (B) *)
  Example buffer_instance a b :
    sorted_start (fetch env0 (Buf (Stored A) 2 3) a b false).
  Proof.
    apply buffer_fetch_sorted; [lia| |].
    - rewrite fetch_stored. apply Forall_filter, Forall_forall. intros x Hx.
      apply (proj1 (sl_build_in _ _)) in Hx.
      destruct (proj1 (Forall_forall _ _) (A_safe 2 3 ltac:(lia) ltac:(lia)) x Hx) as [S1 _].
      intros z E. specialize (S1 z E). lia.
    - rewrite fetch_stored. apply sorted_start_filter, sorted_key_sorted_start, sl_build_sorted.
  Qed.

  Example buffer_rev_instance a b :
    desc_start (fetch env0 (Buf (Stored A) 2 3) a b true).
  Proof.
    apply buffer_fetch_sorted_rev; [lia| |].
    - rewrite (proj2 (fetch_stored_spec env0 A _ _)). apply Forall_forall. intros x Hx.
      apply in_rev in Hx. apply filter_In in Hx as [Hx _]. apply (proj1 (sl_build_in _ _)) in Hx.
      destruct (proj1 (Forall_forall _ _) (A_safe 2 3 ltac:(lia) ltac:(lia)) x Hx) as [S1 _].
      intros z E. specialize (S1 z E). lia.
    - rewrite (proj2 (fetch_stored_spec env0 A _ _)). unfold desc_start. apply pairwiseP_rev.
      apply sorted_start_pw. apply sorted_start_filter, sorted_key_sorted_start, sl_build_sorted.
  Qed.

  Example mw_instance a b : wf_win a b ->
    strict_start (fetch env0 (MergeW (Stored A) 5) a b false) /\
    strict_desc_start (fetch env0 (MergeW (Stored A) 5) a b true).
  Proof.
    intro Hw. destruct (fetch_ok env0 (Stored A) A_good a b Hw) as (S1 & S2 & S3 & _).
    destruct (mw_fetch_sorted env0 (Stored A) 5 a b ltac:(lia) S1 S2 S3) as (R1 & _ & _ & R4 & _).
    split; assumption.
  Qed.
End Examples4.

Print Assumptions buffer_sorted_opt.
Print Assumptions buffer_sorted_start.
Print Assumptions buffer_fetch_sorted.
Print Assumptions buffer_fetch_sorted_rev.
Print Assumptions buffer_fetch_sorted_opt.
Print Assumptions buffer_fetch_sorted_opt_rev.
Print Assumptions buffer_underflow_refuted.
Print Assumptions mw_fetch_sorted.
Print Assumptions fetch_ok2.
Print Assumptions slice_n_ok2.
Print Assumptions C03_forward_wf2.
Print Assumptions C03_forward_wf_good.
Print Assumptions wide_wins.
Print Assumptions C03_forward_wf2_margin.
Print Assumptions dj2_mw.
Print Assumptions dj2_compl.
Print Assumptions dj2_diff.
Print Assumptions buf_safe_mw.
Print Assumptions rtower_rsok.
Print Assumptions slice_r_ok2.
Print Assumptions C03_reverse_wf2.
Print Assumptions Examples4.e4_C03.
Print Assumptions Examples4.e6_C03.
Print Assumptions Examples4.r1_C03_rev.
Print Assumptions Examples4.r2_C03_rev.
