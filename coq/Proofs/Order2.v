(* Proofs/Order2.v — property C03, continued: ordering of the streams produced by the
   transforms buffer and merge_within (calgebra/transform.py), and whole expression trees that
   contain them.

   (A) buffer: shifting every start by the same amount keeps the order of the starts, None
       starts staying first; with the option order (None below every integer) this needs no
       hypothesis at all ([buffer_sorted_opt]); with the finite_start order the code sorts by
       ([sorted_start], NEG_INF standing for None) it needs that no shifted start falls below
       the sentinel ([no_underflow]); the boundary witness is [buffer_underflow_refuted].
       Forward and reverse fetch: [buffer_fetch_sorted], [buffer_fetch_sorted_rev].
   (B) merge_within: the forward fetch is STRICTLY increasing in start (and in end: outputs
       are more than g apart), the reverse fetch is its reversal, hence strictly decreasing
       ([mw_fetch_sorted]).
   (C) the class [good2]: every operator, with Buf and MergeW nodes anywhere (above [good]
       sub-expressions of Proofs/Assembly.v in particular); [fetch_ok2]: the stream invariant
       (well formed, canonically encoded, sorted by start) for every window that stays
       between the sentinels after the widening done by the buffers below it ([wins]);
       [C03_forward_wf2]: every forward slice is a well-formed stream.
   (D) reverse slices of towers of buffer / filter over merge_within or over a [good']
       expression of Proofs/Reverse2.v: [C03_reverse_wf2]. *)
From CG Require Import Proofs.Defs.
From CG Require Import Spec.TransformSpec Proofs.Stored Proofs.RefSpec Proofs.Merge Proofs.Compl
     Proofs.Canon Proofs.Diff Proofs.InterDisjoint Proofs.Clip Proofs.Negate Proofs.Transform
     Proofs.Reverse Proofs.Assembly Proofs.Assembly2 Proofs.Reverse2.

(* ------------------------------------------------------------------------------------ *)
(* (A) buffer *)

(* the order on optional starts: None (unbounded) below every integer *)
Definition ostart_le (a b : option Z) : Prop :=
  match a, b with
  | None, _ => True
  | Some _, None => False
  | Some x, Some y => x <= y
  end.

Lemma addO_ostart_le d a b : ostart_le a b -> ostart_le (addO a d) (addO b d).
Proof. destruct a as [x|], b as [y|]; cbn [addO ostart_le]; try tauto. lia. Qed.

(* no hypothesis: any amounts (even negative), any events *)
Theorem buffer_sorted_opt before after l :
  pairwiseP (fun x y => ostart_le (st x) (st y)) l ->
  pairwiseP (fun x y => ostart_le (st x) (st y)) (map (buf_shift before after) l).
Proof.
  intro H. apply pairwiseP_map. revert H. apply pairwiseP_impl.
  intros x y _ _ Hxy. rewrite !buf_shift_st. apply addO_ostart_le. exact Hxy.
Qed.

Theorem buffer_sorted_opt_rev before after l :
  pairwiseP (fun x y => ostart_le (st y) (st x)) l ->
  pairwiseP (fun x y => ostart_le (st y) (st x)) (map (buf_shift before after) l).
Proof.
  intro H. apply pairwiseP_map. revert H. apply pairwiseP_impl.
  intros x y _ _ Hxy. rewrite !buf_shift_st. apply addO_ostart_le. exact Hxy.
Qed.

(* for canonically encoded well-formed events the option order IS the finite_start order *)
Lemma ostart_le_fstart x y :
  NEG_INF <= fstart y -> st x <> Some NEG_INF -> NEG_INF <= fstart x ->
  (ostart_le (st x) (st y) <-> fstart x <= fstart y).
Proof.
  intros Hy Cx Hx. unfold fstart in *. destruct (st x) as [a|], (st y) as [b|]; cbn [ostart_le]; try tauto.
  split; [intros []|]. intro H. assert (a = NEG_INF) by lia. subst a. exfalso. apply Cx. reflexivity.
Qed.

(* the finite_start order: a shifted start must not fall below the sentinel *)
Definition no_underflow (before : Z) (x : ivl) : Prop :=
  forall z, st x = Some z -> NEG_INF <= z - before.

Lemma buf_shift_fstart_mono before after x y :
  0 <= before -> no_underflow before y ->
  fstart x <= fstart y -> fstart (buf_shift before after x) <= fstart (buf_shift before after y).
Proof.
  intros Hb Hy H. unfold fstart in *. rewrite !buf_shift_st.
  destruct (st x) as [a|] eqn:Ex, (st y) as [b|] eqn:Ey; cbn [addO]; try lia.
  specialize (Hy b Ey). lia.
Qed.

Theorem buffer_sorted_start before after l :
  0 <= before -> Forall (no_underflow before) l ->
  sorted_start l -> sorted_start (map (buf_shift before after) l).
Proof.
  intros Hb Hn H. apply sorted_start_pw, pairwiseP_map. apply sorted_start_pw in H.
  revert H. apply pairwiseP_impl. intros x y _ Hy Hxy.
  apply buf_shift_fstart_mono; [exact Hb| |exact Hxy]. exact (proj1 (Forall_forall _ _) Hn y Hy).
Qed.

Theorem buffer_desc_start before after l :
  0 <= before -> Forall (no_underflow before) l ->
  desc_start l -> desc_start (map (buf_shift before after) l).
Proof.
  intros Hb Hn H. unfold desc_start in *. apply pairwiseP_map. revert H. apply pairwiseP_impl.
  intros x y Hx _ Hxy.
  apply buf_shift_fstart_mono; [exact Hb| |exact Hxy]. exact (proj1 (Forall_forall _ _) Hn x Hx).
Qed.

(* GOAL 4a: the Buf case of fetch, both directions.  The source is queried on the widened
   window; whatever order its result has is kept. *)
Theorem buffer_fetch_sorted env s before after a b :
  0 <= before ->
  Forall (no_underflow before) (fetch env s (addO a (- after)) (addO b before) false) ->
  sorted_start (fetch env s (addO a (- after)) (addO b before) false) ->
  sorted_start (fetch env (Buf s before after) a b false).
Proof. intros Hb Hn H. cbn [fetch]. apply buffer_sorted_start; assumption. Qed.

Theorem buffer_fetch_sorted_rev env s before after a b :
  0 <= before ->
  Forall (no_underflow before) (fetch env s (addO a (- after)) (addO b before) true) ->
  desc_start (fetch env s (addO a (- after)) (addO b before) true) ->
  desc_start (fetch env (Buf s before after) a b true).
Proof. intros Hb Hn H. cbn [fetch]. apply buffer_desc_start; assumption. Qed.

(* without any hypothesis, in the option order *)
Theorem buffer_fetch_sorted_opt env s before after a b :
  pairwiseP (fun x y => ostart_le (st x) (st y)) (fetch env s (addO a (- after)) (addO b before) false) ->
  pairwiseP (fun x y => ostart_le (st x) (st y)) (fetch env (Buf s before after) a b false).
Proof. intro H. cbn [fetch]. apply buffer_sorted_opt. exact H. Qed.

Theorem buffer_fetch_sorted_opt_rev env s before after a b :
  pairwiseP (fun x y => ostart_le (st y) (st x)) (fetch env s (addO a (- after)) (addO b before) true) ->
  pairwiseP (fun x y => ostart_le (st y) (st x)) (fetch env (Buf s before after) a b true).
Proof. intro H. cbn [fetch]. apply buffer_sorted_opt_rev. exact H. Qed.

(* [no_underflow] is necessary for the finite_start order: an event starting within [before] of
   the sentinel overtakes an unbounded one.  (Academic: NEG_INF = -(2^63 - 2).) *)
Theorem buffer_underflow_refuted :
  exists l before,
    Forall wf_ivl l /\ Forall canon_ivl l /\ sorted_start l /\ 0 <= before /\
    ~ sorted_start (map (buf_shift before 0) l).
Proof.
  exists [mkI None (Some 0) Plain; mkI (Some (NEG_INF + 1)) (Some 0) Plain], 2.
  split; [|split; [|split; [|split]]].
  - repeat constructor; unfold fstart, fend, NEG_INF, POS_INF; cbn [st en]; lia.
  - repeat constructor; cbn [st en]; unfold NEG_INF, POS_INF; discriminate.
  - cbn [sorted_start]. split; [|split; [intros ? []|exact I]].
    intros z [<-|[]]. unfold fstart, NEG_INF. cbn [st]. lia.
  - lia.
  - intros [H _]. specialize (H _ (or_introl eq_refl)). unfold fstart, NEG_INF in H. cbn in H. lia.
Qed.

(* ------------------------------------------------------------------------------------ *)
(* (B) merge_within *)

Definition strict_start (l : list ivl) : Prop := pairwiseP (fun x y => fstart x < fstart y) l.
Definition strict_desc_start (l : list ivl) : Prop := pairwiseP (fun x y => fstart y < fstart x) l.

Lemma separated_strict l : Forall wf_ivl l -> separatedP l -> strict_start l.
Proof.
  intros Hw Hs. unfold strict_start. apply separatedP_pw in Hs. revert Hs. apply pairwiseP_impl.
  intros x y Hx _ H. destruct (proj1 (Forall_forall _ _) Hw x Hx) as (_ & W & _). lia.
Qed.

Lemma separated_rev_mono l : Forall wf_ivl l -> separatedP l -> mono_ends_desc (rev l).
Proof.
  intros Hw Hs. unfold mono_ends_desc. apply pairwiseP_rev. apply separatedP_pw in Hs.
  revert Hs. apply pairwiseP_impl. intros x y _ Hy H.
  destruct (proj1 (Forall_forall _ _) Hw y Hy) as (_ & W & _). lia.
Qed.

(* GOAL 4b *)
Theorem mw_fetch_sorted env s g a b :
  0 <= g ->
  Forall wf_ivl (fetch env s a b false) -> Forall canon_ivl (fetch env s a b false) ->
  sorted_start (fetch env s a b false) ->
  strict_start (fetch env (MergeW s g) a b false) /\
  sorted_start (fetch env (MergeW s g) a b false) /\
  fetch env (MergeW s g) a b true = rev (fetch env (MergeW s g) a b false) /\
  strict_desc_start (fetch env (MergeW s g) a b true) /\
  far_apartP g (fetch env (MergeW s g) a b false).
Proof.
  intros Hg Hw Hc Hs. destruct (fetch_mergew env s g a b) as [E1 E2]. rewrite E2, E1.
  destruct (mw_sorted g _ Hg Hw Hc Hs) as [S1 S2]. destruct (mw_out_wf g _ Hg Hw Hc) as [W _].
  pose proof (separated_strict _ W S2) as St.
  split; [exact St|]. split; [exact S1|]. split; [reflexivity|]. split.
  - unfold strict_desc_start. apply pairwiseP_rev. exact St.
  - apply mw_far_apart; assumption.
Qed.
