(* Proofs/Filter.v — filters (properties.py): T & f selects exactly the events satisfying f;
   comparisons on duration/start/end/fields, membership helpers and combinators evaluate as
   the corresponding Boolean expression; unbounded events count as infinitely long. *)
From CG Require Import Proofs.Defs.

Lemma filtered_exact env s f a b rv :
  fetch env (Filt s f) a b rv = filter (feval env f) (fetch env s a b rv).
Proof. reflexivity. Qed.

(* nothing else is returned, nothing satisfying f is dropped, order and payloads kept *)
Lemma filtered_in env s f a b rv x :
  In x (fetch env (Filt s f) a b rv) <-> In x (fetch env s a b rv) /\ feval env f x = true.
Proof. rewrite filtered_exact. apply filter_In. Qed.

Lemma feval_and env fs i : feval env (FAnd fs) i = forallb (fun g => feval env g i) fs.
Proof. reflexivity. Qed.
Lemma feval_or env fs i : feval env (FOr fs) i = existsb (fun g => feval env g i) fs.
Proof. reflexivity. Qed.
Lemma feval_and2 env f g i : feval env (FAnd [f; g]) i = feval env f i && feval env g i.
Proof. simpl. rewrite andb_true_r. reflexivity. Qed.
Lemma feval_or2 env f g i : feval env (FOr [f; g]) i = feval env f i || feval env g i.
Proof. simpl. rewrite orb_false_r. reflexivity. Qed.

(* duration thresholds: (end - start) / scale  OP  k   <->   end - start  OP  k * scale,
   as exact rationals, for scale > 0 *)
Definition dur_q_cmp (c : cmp) (d scale k : Z) : Prop :=
  match c with
  | Ge => k * scale <= d | Le => d <= k * scale | Gt => k * scale < d | Lt => d < k * scale
  | Eq => d = k * scale | Ne => d <> k * scale
  end.

Lemma duration_threshold env scale c k s e p :
  eval_cmp env (PDur scale) c (VInt k) (mkI (Some s) (Some e) p) = true <-> dur_q_cmp c (e - s) scale k.
Proof. destruct c; simpl; unfold dur_q_cmp; lia. Qed.

(* the rational reading: for scale > 0, d >= k*scale  <->  k <= d/scale as a rational, i.e.
   there is no integer-division rounding in the model *)
Lemma duration_threshold_ge_rational scale k d : 0 < scale ->
  (k * scale <= d <-> forall q, q * scale > d -> k < q).
Proof.
  intros Hs. split.
  - intros H q Hq. nia.
  - intros H. destruct (Z_le_gt_dec (k * scale) d) as [L|G]; [exact L|].
    specialize (H k). lia.
Qed.

(* unbounded events are infinitely long: >= and > and != hold, <=, <, == fail *)
Lemma duration_unbounded env scale c k i :
  st i = None \/ en i = None ->
  eval_cmp env (PDur scale) c (VInt k) i = match c with Ge | Gt | Ne => true | _ => false end.
Proof. intros [H|H]; unfold eval_cmp; rewrite H; destruct (st i); destruct c; reflexivity. Qed.

Lemma start_cmp env c k i : eval_cmp env PStart c (VInt k) i = cmpZ c (fstart i) k.
Proof. reflexivity. Qed.
Lemma end_cmp env c k i : eval_cmp env PEnd c (VInt k) i = cmpZ c (fend i) k.
Proof. reflexivity. Qed.

(* membership helpers, including empty collections *)
Lemma one_of_spec env p vs i :
  feval env (FOneOf p vs) i = existsb (fun v => eval_cmp env p Eq v i) vs.
Proof. reflexivity. Qed.
Lemma one_of_empty env p i : feval env (FOneOf p []) i = false.
Proof. reflexivity. Qed.
Lemma has_any_spec env name vs i :
  feval env (FHasAny name vs) i = true <->
  exists v, In v vs /\ memN v (set_of (field_of env i name)) = true.
Proof. simpl. apply existsb_exists. Qed.
Lemma has_any_empty env name i : feval env (FHasAny name []) i = false.
Proof. reflexivity. Qed.
Lemma has_all_spec env name vs i :
  feval env (FHasAll name vs) i = true <->
  forall v, In v vs -> memN v (set_of (field_of env i name)) = true.
Proof. simpl. apply forallb_forall. Qed.
Lemma has_all_empty env name i : feval env (FHasAll name []) i = true.
Proof. reflexivity. Qed.

(* a filter never alters an event: results are elements of the source stream, in order *)
Lemma filtered_sublist env s f a b rv :
  exists keep, fetch env (Filt s f) a b rv = filter keep (fetch env s a b rv).
Proof. exists (feval env f). reflexivity. Qed.
