(* Proofs/Clip.v — the slice lemma.  Timeline.__getitem__ evaluates (self & solid).fetch(a, b):
   the 2-operand Intersection._sweep of the operand's stream [xs] against the one-element
   stream [mkI a b Plain] (the query window), emitting from operand 0 only.

   Main results (no hypothesis on the bounds of the events or of the window: zero-length,
   reversed, sentinel-valued and empty-window inputs are all covered):
   - clip_sweep_exact : for EVERY xs, the sweep returns the clipped events of [seen a b xs], the
     prefix of xs that stops at the first event lying entirely beyond the window's end
     ([beyond]: it ends after the window end and starts at or after it, or the window is empty).
   - clip_sweep_iff   : hence the sweep equals [flat_map (clipW a b) xs] exactly when nothing
     after such an event would have survived clipping ([stop_ok], the weakest hypothesis).
   - clip_sweep       : in particular for every xs sorted by start.
   - clip_sweep_masks : the same for the selection [emit_sel [m; true]], m = true or false.
   - clip_sweep_covers: covered instants = covers xs t && inw a b t. *)
From CG Require Import Proofs.Defs Proofs.InterFuel.

(* ---------- the two states of the sweep ---------- *)

(* operand 0: current event x, remaining events r, exhausted flag, last_processed_cutoff *)
Definition S0 (x : ivl) (r : list ivl) (ex : bool) (lp : option Z) : sstate := mkS (Some x) r ex lp.
(* operand 1: the window; it is never selected for emission, so its lpc stays None *)
Definition SW (a b : option Z) (ew : bool) : sstate := mkS (Some (mkI a b Plain)) [] ew None.
Definition lp_is (lp : option Z) (c : Z) : bool := match lp with Some p => p =? c | None => false end.

(* the event at which the sweep gives up once the window operand is exhausted *)
Definition beyond (a b : option Z) (x : ivl) : bool :=
  (bnd_hi b <? fend x) && (bnd_hi b <=? Z.max (fstart x) (bnd_lo a)).

(* the events the sweep gets to look at *)
Fixpoint seen (a b : option Z) (xs : list ivl) : list ivl :=
  match xs with
  | [] => []
  | x :: r => if beyond a b x then [] else x :: seen a b r
  end.

(* the weakest hypothesis: whatever follows a [beyond] event clips to nothing *)
Fixpoint stop_ok (a b : option Z) (xs : list ivl) : Prop :=
  match xs with
  | [] => True
  | x :: r => (beyond a b x = true -> flat_map (clipW a b) r = []) /\ stop_ok a b r
  end.

(* ---------- one iteration of the loop on these two states ---------- *)

Lemma emit2 os oe sel x r ex lp a b ew : sel 0%nat = true -> sel 1%nat = false ->
  emit os oe sel 0 [S0 x r ex lp; SW a b ew] =
  if negb (lp_is lp oe)
  then ([S0 x r ex (Some oe); SW a b ew], [set_span x (unS os) (unE oe)])
  else ([S0 x r ex lp; SW a b ew], []).
Proof.
  intros Hs0 Hs1. unfold S0, SW. cbn [emit cur]. rewrite Hs0, Hs1. cbn [andb].
  unfold lpc_is. cbn [lpc cur rest exh]. reflexivity.
Qed.

Lemma ends2 oe x r ex lp a b ew :
  adv_first (ends_at oe) (fun _ => true) 0 [S0 x r ex lp; SW a b ew] =
  if (fend x =? oe) && negb ex then ([fst (advance (S0 x r false lp)); SW a b ew], true)
  else if (bnd_hi b =? oe) && negb ew then ([S0 x r ex lp; SW a b true], true)
  else ([S0 x r ex lp; SW a b ew], false).
Proof.
  unfold S0, SW. cbn [adv_first andb]. unfold ends_at. cbn [cur exh].
  change (fend (mkI a b Plain)) with (bnd_hi b).
  destruct ((fend x =? oe) && negb ex) eqn:E1.
  - apply andb_true_iff in E1 as [_ E1]. destruct ex; [discriminate|].
    unfold advance. cbn [exh rest]. destruct r; reflexivity.
  - destruct ((bnd_hi b =? oe) && negb ew) eqn:E2; [|reflexivity].
    apply andb_true_iff in E2 as [_ E2]. destruct ew; [discriminate|]. reflexivity.
Qed.

Lemma stall2 oe sel x r ex lp a b ew : sel 0%nat = true -> sel 1%nat = false ->
  adv_first (stalled oe) sel 0 [S0 x r ex lp; SW a b ew] =
  if negb ex && lp_is lp oe && negb (fend x =? oe)
  then ([fst (advance (S0 x r false lp)); SW a b ew], true)
  else ([S0 x r ex lp; SW a b ew], false).
Proof.
  intros Hs0 Hs1. unfold S0, SW. cbn [adv_first]. rewrite Hs0, Hs1. cbn [andb].
  unfold stalled, lpc_is. cbn [cur exh lpc]. fold (lp_is lp oe).
  destruct (negb ex && lp_is lp oe && negb (fend x =? oe)) eqn:E1; [|reflexivity].
  destruct ex; [discriminate|].
  unfold advance. cbn [exh rest]. destruct r; reflexivity.
Qed.

(* The loop body, specialised: emission from operand 0 guarded by lpc, then
   advance_if_ends_at on operand 0, else on the window, else advance_if_stalled on operand 0. *)
Lemma loop2_iter sel f x r ex lp a b ew : sel 0%nat = true -> sel 1%nat = false ->
  inter_loop (S f) sel [S0 x r ex lp; SW a b ew] =
  let os := Z.max (bnd_lo a) (fstart x) in
  let oe := Z.min (bnd_hi b) (fend x) in
  let em := (os <? oe) && negb (lp_is lp oe) in
  let lp' := if em then Some oe else lp in
  let out := if em then [set_span x (unS os) (unE oe)] else [] in
  let cont ss := match inter_loop f sel ss with Some o => Some (out ++ o) | None => None end in
  if (fend x =? oe) && negb ex then cont [fst (advance (S0 x r false lp')); SW a b ew]
  else if (bnd_hi b =? oe) && negb ew then cont [S0 x r ex lp'; SW a b true]
  else if negb ex && lp_is lp' oe && negb (fend x =? oe)
       then cont [fst (advance (S0 x r false lp')); SW a b ew]
  else Some out.
Proof.
  intros Hs0 Hs1.
  assert (Hac : all_cur [S0 x r ex lp; SW a b ew] = Some [x; mkI a b Plain]) by reflexivity.
  cbn [inter_loop]. rewrite Hac. cbn [max_start min_end map fold_right].
  change (fstart (mkI a b Plain)) with (bnd_lo a).
  change (fend (mkI a b Plain)) with (bnd_hi b).
  cbv zeta.
  generalize (Z.max (bnd_lo a) (fstart x)) as os. generalize (Z.min (bnd_hi b) (fend x)) as oe.
  intros oe os.
  rewrite (emit2 os oe sel x r ex lp a b ew Hs0 Hs1).
  set (em := (os <? oe) && negb (lp_is lp oe)).
  assert (Hem : (if os <? oe
                 then if negb (lp_is lp oe)
                      then ([S0 x r ex (Some oe); SW a b ew], [set_span x (unS os) (unE oe)])
                      else ([S0 x r ex lp; SW a b ew], [])
                 else ([S0 x r ex lp; SW a b ew], [])) =
                ([S0 x r ex (if em then Some oe else lp); SW a b ew],
                 if em then [set_span x (unS os) (unE oe)] else [])).
  { unfold em. destruct (os <? oe); destruct (lp_is lp oe); reflexivity. }
  rewrite Hem. clearbody em. clear Hem.
  rewrite ends2.
  destruct ((fend x =? oe) && negb ex) eqn:E1; [reflexivity|].
  destruct ((bnd_hi b =? oe) && negb ew) eqn:E2; [reflexivity|].
  rewrite (stall2 oe sel x r ex _ a b ew Hs0 Hs1).
  destruct (negb ex && lp_is (if em then Some oe else lp) oe && negb (fend x =? oe)); reflexivity.
Qed.

(* ---------- measures ---------- *)

Lemma measure2 x r ex lp a b ew :
  ss_measure [S0 x r ex lp; SW a b ew] =
  (length r + (if ex then 0 else 1) + (if ew then 0 else 1))%nat.
Proof. unfold ss_measure, st_measure, S0, SW. cbn [fold_right rest exh length]. lia. Qed.

Lemma measure2_adv x r lp a b ew :
  ss_measure [fst (advance (S0 x r false lp)); SW a b ew] =
  (length r + (if ew then 0 else 1))%nat.
Proof.
  unfold advance, S0. cbn [exh rest].
  destruct r as [|y r']; cbn [fst]; unfold ss_measure, st_measure, SW;
    cbn [fold_right rest exh length]; lia.
Qed.

(* ---------- clipping ---------- *)

Lemma clipW_sweep a b x :
  clipW a b x =
  if Z.max (bnd_lo a) (fstart x) <? Z.min (bnd_hi b) (fend x)
  then [set_span x (unS (Z.max (bnd_lo a) (fstart x))) (unE (Z.min (bnd_hi b) (fend x)))]
  else [].
Proof.
  unfold clipW. cbv zeta.
  rewrite (Z.max_comm (fstart x)), (Z.min_comm (fend x)). reflexivity.
Qed.

Lemma clipW_nil a b x :
  Z.min (bnd_hi b) (fend x) <= Z.max (bnd_lo a) (fstart x) -> clipW a b x = [].
Proof.
  intro H. rewrite clipW_sweep.
  destruct (Z.max (bnd_lo a) (fstart x) <? Z.min (bnd_hi b) (fend x)) eqn:E; [lia|reflexivity].
Qed.

Lemma beyond_clip a b x : beyond a b x = true -> clipW a b x = [].
Proof. unfold beyond. intro H. apply clipW_nil. lia. Qed.

Lemma flat_map_nil {A B} (f : A -> list B) l :
  (forall y, In y l -> f y = []) -> flat_map f l = [].
Proof.
  induction l as [|y l IH]; intro H; cbn [flat_map]; [reflexivity|].
  rewrite (H y (or_introl eq_refl)), IH; [reflexivity|].
  intros z Hz. apply H. right. exact Hz.
Qed.

(* ---------- the sweep, phase by phase ---------- *)

Section Sweep.
  Variable sel : nat -> bool.
  Variables a b : option Z.
  Hypothesis Hs0 : sel 0%nat = true.
  Hypothesis Hs1 : sel 1%nat = false.

  Let wa := bnd_lo a.
  Let wb := bnd_hi b.

  (* Phase 3: operand 0 exhausted (it keeps its last event as current).  Nothing is emitted
     any more: the last event was either emitted at this cutoff already or has no overlap. *)
  Lemma tail_phase x lp ew fuel :
    lp_is lp (Z.min wb (fend x)) = true \/ Z.min wb (fend x) <= Z.max wa (fstart x) ->
    (ss_measure [S0 x [] true lp; SW a b ew] < fuel)%nat ->
    inter_loop fuel sel [S0 x [] true lp; SW a b ew] = Some [].
  Proof.
    intros Hc Hm. rewrite measure2 in Hm. cbn [length] in Hm.
    assert (Hem : (Z.max wa (fstart x) <? Z.min wb (fend x)) &&
                  negb (lp_is lp (Z.min wb (fend x))) = false).
    { destruct Hc as [Hc|Hc]; [rewrite Hc; apply andb_false_r|].
      replace (Z.max wa (fstart x) <? Z.min wb (fend x)) with false by lia. reflexivity. }
    assert (Htrue : forall f, inter_loop (S f) sel [S0 x [] true lp; SW a b true] = Some []).
    { intro f. rewrite (loop2_iter sel f x [] true lp a b true Hs0 Hs1). cbv zeta.
      fold wa wb. rewrite Hem. cbn [negb andb]. rewrite !andb_false_r. reflexivity. }
    destruct fuel as [|f]; [lia|].
    destruct ew; [apply Htrue|].
    rewrite (loop2_iter sel f x [] true lp a b false Hs0 Hs1). cbv zeta.
    fold wa wb. rewrite Hem. cbn [negb andb]. rewrite !andb_false_r, !andb_true_r.
    destruct (wb =? Z.min wb (fend x)) eqn:E; [|reflexivity].
    destruct f as [|f']; [lia|]. rewrite Htrue. reflexivity.
  Qed.

  (* what the sweep returns from the moment operand 0 has just been advanced past (x, r) *)
  Definition Qstmt (r : list ivl) : Prop :=
    forall x lp ew fuel,
      (r = [] -> lp_is lp (Z.min wb (fend x)) = true \/ Z.min wb (fend x) <= Z.max wa (fstart x)) ->
      (ss_measure [fst (advance (S0 x r false lp)); SW a b ew] < fuel)%nat ->
      inter_loop fuel sel [fst (advance (S0 x r false lp)); SW a b ew] =
      Some (flat_map (clipW a b) (seen a b r)).

  (* what the sweep returns from the first visit of event x (lpc = None) *)
  Definition Pstmt (x : ivl) (r : list ivl) : Prop :=
    forall ew fuel,
      (ss_measure [S0 x r false None; SW a b ew] < fuel)%nat ->
      inter_loop fuel sel [S0 x r false None; SW a b ew] =
      Some (flat_map (clipW a b) (seen a b (x :: r))).

  Lemma Q_of_P r : (forall y r', r = y :: r' -> Pstmt y r') -> Qstmt r.
  Proof.
    intros HP x lp ew fuel Hc Hm. destruct r as [|y r'].
    - unfold advance in *. cbn [S0 exh rest fst] in *.
      apply (tail_phase x lp ew fuel (Hc eq_refl) Hm).
    - unfold advance in *. cbn [S0 exh rest fst] in *.
      apply (HP y r' eq_refl ew fuel Hm).
  Qed.

  (* Phase 1: the event ends inside the window (or at its end): one visit, then operand 0 is
     advanced by advance_if_ends_at. *)
  Lemma visit_inside r x ew fuel :
    Qstmt r -> fend x <= wb ->
    (ss_measure [S0 x r false None; SW a b ew] < fuel)%nat ->
    inter_loop fuel sel [S0 x r false None; SW a b ew] =
    Some (clipW a b x ++ flat_map (clipW a b) (seen a b r)).
  Proof.
    intros HQ Hle Hm. rewrite measure2 in Hm.
    destruct fuel as [|f]; [lia|].
    rewrite (loop2_iter sel f x r false None a b ew Hs0 Hs1). cbv zeta. fold wa wb.
    cbn [lp_is negb]. rewrite !andb_true_r.
    replace (fend x =? Z.min wb (fend x)) with true by lia.
    rewrite HQ.
    - rewrite clipW_sweep. fold wa wb. reflexivity.
    - intros _. destruct (Z.max wa (fstart x) <? Z.min wb (fend x)) eqn:E.
      + left. cbn [lp_is]. apply Z.eqb_refl.
      + right. lia.
    - rewrite measure2_adv. lia.
  Qed.

  (* Phase 2b: the event extends past the window end, was emitted at cutoff = window end, and
     the window operand is exhausted: advance_if_stalled moves operand 0 on. *)
  Lemma visit_stalled r x fuel :
    Qstmt r -> wb < fend x ->
    (ss_measure [S0 x r false (Some wb); SW a b true] < fuel)%nat ->
    inter_loop fuel sel [S0 x r false (Some wb); SW a b true] =
    Some (flat_map (clipW a b) (seen a b r)).
  Proof.
    intros HQ Hlt Hm. rewrite measure2 in Hm.
    destruct fuel as [|f]; [lia|].
    rewrite (loop2_iter sel f x r false (Some wb) a b true Hs0 Hs1). cbv zeta. fold wa wb.
    replace (Z.min wb (fend x)) with wb by lia.
    cbn [lp_is negb]. rewrite Z.eqb_refl. cbn [negb]. rewrite !andb_false_r.
    cbn [lp_is andb]. rewrite Z.eqb_refl.
    replace (fend x =? wb) with false by lia. cbn [negb andb].
    rewrite HQ.
    - reflexivity.
    - intros _. left. replace (Z.min wb (fend x)) with wb by lia. cbn [lp_is]. apply Z.eqb_refl.
    - rewrite measure2_adv. lia.
  Qed.

  (* Phase 2, window operand already exhausted: emit and move on through the stall rule, or
     stop at an event beyond the window. *)
  Lemma visit_past_exh r x fuel :
    Qstmt r -> wb < fend x ->
    (ss_measure [S0 x r false None; SW a b true] < fuel)%nat ->
    inter_loop fuel sel [S0 x r false None; SW a b true] =
    Some (flat_map (clipW a b) (seen a b (x :: r))).
  Proof.
    intros HQ Hlt Hm. rewrite measure2 in Hm.
    destruct fuel as [|f]; [lia|].
    rewrite (loop2_iter sel f x r false None a b true Hs0 Hs1). cbv zeta. fold wa wb.
    replace (Z.min wb (fend x)) with wb by lia.
    replace (fend x =? wb) with false by lia.
    cbn [lp_is negb andb]. rewrite !andb_false_r, !andb_true_r.
    cbn [seen]. unfold beyond. fold wa wb.
    replace (wb <? fend x) with true by lia. cbn [andb].
    rewrite (Z.max_comm (fstart x) wa).
    destruct (Z.max wa (fstart x) <? wb) eqn:E.
    - replace (wb <=? Z.max wa (fstart x)) with false by lia.
      cbn [lp_is]. rewrite Z.eqb_refl.
      rewrite HQ.
      + cbn [flat_map]. rewrite clipW_sweep. fold wa wb.
        replace (Z.min wb (fend x)) with wb by lia. rewrite E. reflexivity.
      + intros _. left. replace (Z.min wb (fend x)) with wb by lia. cbn [lp_is]. apply Z.eqb_refl.
      + rewrite measure2_adv. lia.
    - replace (wb <=? Z.max wa (fstart x)) with true by lia.
      cbn [lp_is]. reflexivity.
  Qed.

  (* Phase 2, window operand still live: it is advanced (exhausted) first; the same event is
     then visited a second time with the window operand exhausted. *)
  Lemma visit_past_live r x fuel :
    Qstmt r -> wb < fend x ->
    (ss_measure [S0 x r false None; SW a b false] < fuel)%nat ->
    inter_loop fuel sel [S0 x r false None; SW a b false] =
    Some (flat_map (clipW a b) (seen a b (x :: r))).
  Proof.
    intros HQ Hlt Hm. rewrite measure2 in Hm.
    destruct fuel as [|f]; [lia|].
    rewrite (loop2_iter sel f x r false None a b false Hs0 Hs1). cbv zeta. fold wa wb.
    replace (Z.min wb (fend x)) with wb by lia.
    replace (fend x =? wb) with false by lia.
    rewrite Z.eqb_refl.
    cbn [lp_is negb andb]. rewrite !andb_true_r.
    destruct (Z.max wa (fstart x) <? wb) eqn:E.
    - rewrite (visit_stalled r x f HQ Hlt); [|rewrite measure2; lia].
      cbn [seen]. unfold beyond. fold wa wb. rewrite (Z.max_comm (fstart x) wa).
      replace (wb <=? Z.max wa (fstart x)) with false by lia. rewrite andb_false_r.
      cbn [flat_map]. rewrite clipW_sweep. fold wa wb.
      replace (Z.min wb (fend x)) with wb by lia. rewrite E. reflexivity.
    - rewrite (visit_past_exh r x f HQ Hlt); [|rewrite measure2; lia].
      reflexivity.
  Qed.

  Lemma P_of_Q r x : Qstmt r -> Pstmt x r.
  Proof.
    intros HQ ew fuel Hm.
    destruct (Z_le_gt_dec (fend x) wb) as [Hle|Hgt].
    - rewrite (visit_inside r x ew fuel HQ Hle Hm).
      cbn [seen]. destruct (beyond a b x) eqn:Eb.
      + unfold beyond in Eb. fold wb in Eb. lia.
      + reflexivity.
    - destruct ew.
      + apply visit_past_exh; [exact HQ|lia|exact Hm].
      + apply visit_past_live; [exact HQ|lia|exact Hm].
  Qed.

  Lemma P_all : forall r x, Pstmt x r.
  Proof.
    induction r as [|y r' IH]; intro x; apply P_of_Q; apply Q_of_P.
    - intros y r' Hr. discriminate.
    - intros y0 r0 Hr. injection Hr as <- <-. apply IH.
  Qed.

  (* ---------- the sweep as called by Intersection.fetch ---------- *)

  Theorem clip_sweep_exact_sel : forall xs,
    inter_sweep [xs; [mkI a b Plain]] sel = flat_map (clipW a b) (seen a b xs).
  Proof.
    intro xs. unfold inter_sweep, inter_sweep_opt. cbn [map].
    change (init_state [mkI a b Plain]) with (SW a b false).
    destruct xs as [|x r].
    - reflexivity.
    - change (init_state (x :: r)) with (S0 x r false None).
      cbn [forallb S0 SW exh cur andb].
      fold (S0 x r false None). fold (SW a b false).
      rewrite (P_all r x false); [reflexivity|lia].
  Qed.
End Sweep.

(* ---------- consequences ---------- *)

Lemma seen_stop_ok a b : forall xs,
  stop_ok a b xs -> flat_map (clipW a b) (seen a b xs) = flat_map (clipW a b) xs.
Proof.
  induction xs as [|x r IH]; intro H; [reflexivity|].
  destruct H as [Hx Hr]. cbn [seen]. destruct (beyond a b x) eqn:Eb.
  - cbn [flat_map]. rewrite (beyond_clip a b x Eb), (Hx eq_refl). reflexivity.
  - cbn [flat_map]. rewrite (IH Hr). reflexivity.
Qed.

Lemma stop_ok_seen a b : forall xs,
  flat_map (clipW a b) (seen a b xs) = flat_map (clipW a b) xs -> stop_ok a b xs.
Proof.
  induction xs as [|x r IH]; intro H; [exact I|].
  cbn [seen] in H. cbn [stop_ok]. destruct (beyond a b x) eqn:Eb.
  - cbn [flat_map] in H. rewrite (beyond_clip a b x Eb) in H. cbn [app] in H.
    assert (Hr : flat_map (clipW a b) r = []) by (symmetry; exact H).
    split; [intros _; exact Hr|].
    clear -Hr. induction r as [|y r IHr]; [exact I|].
    cbn [flat_map] in Hr. apply app_eq_nil in Hr as [_ Hr].
    cbn [stop_ok]. split; [intros _; exact Hr|exact (IHr Hr)].
  - cbn [flat_map] in H. apply app_inv_head in H. split; [discriminate|exact (IH H)].
Qed.

Lemma sorted_stop_ok a b : forall xs, sorted_start xs -> stop_ok a b xs.
Proof.
  induction xs as [|x r IH]; intro H; [exact I|].
  destruct H as [Hx Hr]. split; [|exact (IH Hr)].
  intro Eb. apply flat_map_nil. intros y Hy. specialize (Hx y Hy).
  apply clipW_nil. unfold beyond in Eb. lia.
Qed.

(* the selection functions that occur: all-mask and (rich operand, mask window) *)
Lemma emit_sel_masks m : emit_sel [m; true] 0%nat = true /\ emit_sel [m; true] 1%nat = false.
Proof. destruct m; split; reflexivity. Qed.

(* The sweep on (operand, window) for an arbitrary operand stream. *)
Theorem clip_sweep_exact : forall xs a b,
  inter_sweep [xs; [mkI a b Plain]] (fun i => Nat.eqb i 0) = flat_map (clipW a b) (seen a b xs).
Proof. intros xs a b. apply clip_sweep_exact_sel; reflexivity. Qed.

(* It is per-event clipping exactly under stop_ok. *)
Theorem clip_sweep_iff : forall sel xs a b,
  sel 0%nat = true -> sel 1%nat = false ->
  (inter_sweep [xs; [mkI a b Plain]] sel = flat_map (clipW a b) xs <-> stop_ok a b xs).
Proof.
  intros sel xs a b Hs0 Hs1. rewrite (clip_sweep_exact_sel sel a b Hs0 Hs1 xs). split.
  - apply stop_ok_seen.
  - apply seen_stop_ok.
Qed.

Theorem clip_sweep_sel : forall sel xs a b,
  sel 0%nat = true -> sel 1%nat = false -> sorted_start xs ->
  inter_sweep [xs; [mkI a b Plain]] sel = flat_map (clipW a b) xs.
Proof.
  intros sel xs a b Hs0 Hs1 Hso. apply clip_sweep_iff; [exact Hs0|exact Hs1|].
  apply sorted_stop_ok. exact Hso.
Qed.

(* The slice lemma. *)
Theorem clip_sweep : forall xs a b,
  sorted_start xs ->
  inter_sweep [xs; [mkI a b Plain]] (fun i => Nat.eqb i 0) = flat_map (clipW a b) xs.
Proof. intros xs a b Hso. apply clip_sweep_sel; [reflexivity|reflexivity|exact Hso]. Qed.

(* The same with the selection computed by Intersection.fetch from the mask flags. *)
Theorem clip_sweep_masks : forall m xs a b,
  sorted_start xs ->
  inter_sweep [xs; [mkI a b Plain]] (emit_sel [m; true]) = flat_map (clipW a b) xs.
Proof.
  intros m xs a b Hso. destruct (emit_sel_masks m) as [H0 H1].
  apply clip_sweep_sel; [exact H0|exact H1|exact Hso].
Qed.

(* Only the values of [sel] at the two operand indices matter. *)
Corollary clip_sweep_sel_ext : forall sel sel' xs a b,
  sel 0%nat = true -> sel 1%nat = false -> sel' 0%nat = true -> sel' 1%nat = false ->
  inter_sweep [xs; [mkI a b Plain]] sel = inter_sweep [xs; [mkI a b Plain]] sel'.
Proof.
  intros sel sel' xs a b H0 H1 H0' H1'.
  rewrite (clip_sweep_exact_sel sel a b H0 H1 xs), (clip_sweep_exact_sel sel' a b H0' H1' xs).
  reflexivity.
Qed.

(* ---------- coverage ---------- *)

Lemma inside_clipW a b x t : covers (clipW a b x) t = inside x t && inw a b t.
Proof.
  unfold clipW. cbv zeta.
  destruct (Z.max (fstart x) (bnd_lo a) <? Z.min (fend x) (bnd_hi b)) eqn:E.
  - unfold covers. cbn [existsb]. rewrite orb_false_r.
    unfold inside, set_span. rewrite fstart_unS, fend_unE. unfold inw. lia.
  - unfold covers. cbn [existsb]. unfold inside, inw. lia.
Qed.

Lemma covers_clipW a b t : forall xs,
  covers (flat_map (clipW a b) xs) t = covers xs t && inw a b t.
Proof.
  induction xs as [|x r IH]; [reflexivity|].
  cbn [flat_map]. rewrite covers_app, covers_cons, IH, inside_clipW.
  destruct (inside x t); destruct (covers r t); destruct (inw a b t); reflexivity.
Qed.

Theorem clip_sweep_covers : forall m xs a b t,
  sorted_start xs ->
  covers (inter_sweep [xs; [mkI a b Plain]] (emit_sel [m; true])) t = covers xs t && inw a b t.
Proof. intros m xs a b t Hso. rewrite (clip_sweep_masks m xs a b Hso). apply covers_clipW. Qed.

Print Assumptions clip_sweep_exact.
Print Assumptions clip_sweep_iff.
Print Assumptions clip_sweep.
Print Assumptions clip_sweep_masks.
Print Assumptions clip_sweep_covers.
