(* Proofs/InterDisjoint.v — the intersection sweep (Model/Sweeps.v, inter_loop) on k >= 2
   operand streams:
   (A) every emission is the current event of a selected operand trimmed to the non-empty
       common part of one event of every operand (any streams);
   (C) the output is sorted by start (streams sorted by start); with the single emitter 0 the
       output is disjoint_sorted (streams disjoint_sorted);
   (B) on internally disjoint operands the output covers exactly the instants covered by every
       operand, whatever the (non-empty) emitter selection;
   (D) on internally disjoint operands the output is a permutation of the per-event reference
       inter_ref' (one trimmed copy per selected operand for every choice of one event per
       operand with a non-empty common part), and of Spec.inter_ref for the selections
       emit_sel derived from mask flags. *)
From CG Require Import Proofs.Defs.

(* ------------------------------------------------------------------------------------ *)
(* max_start / min_end *)

Lemma fold_max_spec z l :
  z <= fold_right Z.max z l /\ (forall y, In y l -> y <= fold_right Z.max z l) /\
  (fold_right Z.max z l = z \/ In (fold_right Z.max z l) l).
Proof.
  induction l as [|a l IH]; simpl.
  - split; [lia|]. split; [intros y []|left; reflexivity].
  - destruct IH as (I1 & I2 & I3). split; [lia|]. split.
    + intros y [<-|Hy]; [lia|]. specialize (I2 y Hy). lia.
    + destruct (Z.max_spec a (fold_right Z.max z l)) as [[_ E]|[_ E]]; rewrite E.
      * destruct I3 as [I3|I3]; [left; exact I3|right; right; exact I3].
      * right; left; reflexivity.
Qed.

Lemma fold_min_spec z l :
  fold_right Z.min z l <= z /\ (forall y, In y l -> fold_right Z.min z l <= y) /\
  (fold_right Z.min z l = z \/ In (fold_right Z.min z l) l).
Proof.
  induction l as [|a l IH]; simpl.
  - split; [lia|]. split; [intros y []|left; reflexivity].
  - destruct IH as (I1 & I2 & I3). split; [lia|]. split.
    + intros y [<-|Hy]; [lia|]. specialize (I2 y Hy). lia.
    + destruct (Z.min_spec a (fold_right Z.min z l)) as [[_ E]|[_ E]]; rewrite E.
      * right; left; reflexivity.
      * destruct I3 as [I3|I3]; [left; exact I3|right; right; exact I3].
Qed.

Lemma max_start_ge act c : In c act -> fstart c <= max_start act.
Proof.
  destruct act as [|a r]; [intros []|]. unfold max_start.
  destruct (fold_max_spec (fstart a) (map fstart r)) as (M1 & M2 & _).
  intros [<-|Hc]; [exact M1|]. apply M2. apply in_map. exact Hc.
Qed.

Lemma max_start_in act : act <> [] -> exists c, In c act /\ fstart c = max_start act.
Proof.
  destruct act as [|a r]; [congruence|]. intros _. unfold max_start.
  destruct (fold_max_spec (fstart a) (map fstart r)) as (_ & _ & [M|M]).
  - exists a. split; [left; reflexivity|symmetry; exact M].
  - apply in_map_iff in M as (c & Ec & Hc). exists c. split; [right; exact Hc|exact Ec].
Qed.

Lemma min_end_le act c : In c act -> min_end act <= fend c.
Proof.
  destruct act as [|a r]; [intros []|]. unfold min_end.
  destruct (fold_min_spec (fend a) (map fend r)) as (M1 & M2 & _).
  intros [<-|Hc]; [exact M1|]. apply M2. apply in_map. exact Hc.
Qed.

Lemma min_end_in act : act <> [] -> exists c, In c act /\ fend c = min_end act.
Proof.
  destruct act as [|a r]; [congruence|]. intros _. unfold min_end.
  destruct (fold_min_spec (fend a) (map fend r)) as (_ & _ & [M|M]).
  - exists a. split; [left; reflexivity|symmetry; exact M].
  - apply in_map_iff in M as (c & Ec & Hc). exists c. split; [right; exact Hc|exact Ec].
Qed.

Lemma fstart_set_span c a b : fstart (set_span c (unS a) b) = a.
Proof. unfold set_span. apply fstart_unS. Qed.

Lemma fend_set_span c a b : fend (set_span c a (unE b)) = b.
Proof. unfold set_span. apply fend_unE. Qed.

(* ------------------------------------------------------------------------------------ *)
(* all_cur *)

Lemma all_cur_cons s r :
  all_cur (s :: r) = match cur s, all_cur r with Some c, Some l => Some (c :: l) | _, _ => None end.
Proof. reflexivity. Qed.

Lemma all_cur_ext : forall ss ss', map cur ss = map cur ss' -> all_cur ss = all_cur ss'.
Proof.
  induction ss as [|s r IH]; intros [|s' r'] H; try discriminate; [reflexivity|].
  cbn [map] in H. injection H as H1 H2. rewrite !all_cur_cons, H1, (IH r' H2). reflexivity.
Qed.

Lemma all_cur_app : forall l1 s l2,
  all_cur (l1 ++ s :: l2) =
  match all_cur l1, cur s, all_cur l2 with
  | Some a1, Some c, Some a2 => Some (a1 ++ c :: a2)
  | _, _, _ => None
  end.
Proof.
  induction l1 as [|x l1 IH]; intros s l2.
  - cbn [app]. rewrite all_cur_cons. cbn [all_cur fold_right].
    destruct (cur s); [|reflexivity]. destruct (all_cur l2); reflexivity.
  - cbn [app]. rewrite !all_cur_cons, IH. destruct (cur x); [|reflexivity].
    destruct (all_cur l1); [|reflexivity]. destruct (cur s); [|reflexivity].
    destruct (all_cur l2); reflexivity.
Qed.

Lemma all_cur_length : forall ss act, all_cur ss = Some act -> length act = length ss.
Proof.
  induction ss as [|s r IH]; intros act H.
  - cbn in H. injection H as <-. reflexivity.
  - rewrite all_cur_cons in H. destruct (cur s) as [c|]; [|discriminate].
    destruct (all_cur r) as [l|]; [|discriminate]. injection H as <-.
    cbn [length]. rewrite (IH l eq_refl). reflexivity.
Qed.

Lemma all_cur_nth : forall ss act j s c,
  all_cur ss = Some act -> nth_error ss j = Some s -> cur s = Some c -> nth_error act j = Some c.
Proof.
  induction ss as [|x r IH]; intros act j s c H Hn Hc.
  - destruct j; discriminate.
  - rewrite all_cur_cons in H. destruct (cur x) as [cx|] eqn:Ex; [|discriminate].
    destruct (all_cur r) as [l|] eqn:El; [|discriminate]. injection H as <-.
    destruct j as [|j]; cbn [nth_error] in *.
    + injection Hn as ->. rewrite Ex in Hc. injection Hc as ->. reflexivity.
    + eapply IH; eauto.
Qed.

Lemma all_cur_In : forall ss act s,
  all_cur ss = Some act -> In s ss -> exists c, cur s = Some c /\ In c act.
Proof.
  induction ss as [|x r IH]; intros act s H Hs; [destruct Hs|].
  rewrite all_cur_cons in H. destruct (cur x) as [cx|] eqn:Ex; [|discriminate].
  destruct (all_cur r) as [l|] eqn:El; [|discriminate]. injection H as <-.
  destruct Hs as [<-|Hs].
  - exists cx. split; [exact Ex|left; reflexivity].
  - destruct (IH l s eq_refl Hs) as (c & Hc & Hi). exists c. split; [exact Hc|right; exact Hi].
Qed.

Lemma all_cur_In_inv : forall ss act c,
  all_cur ss = Some act -> In c act -> exists s, In s ss /\ cur s = Some c.
Proof.
  induction ss as [|x r IH]; intros act c H Hc.
  - cbn in H. injection H as <-. destruct Hc.
  - rewrite all_cur_cons in H. destruct (cur x) as [cx|] eqn:Ex; [|discriminate].
    destruct (all_cur r) as [l|] eqn:El; [|discriminate]. injection H as <-.
    destruct Hc as [<-|Hc].
    + exists x. split; [left; reflexivity|exact Ex].
    + destruct (IH l c eq_refl Hc) as (s & Hs & Hcs). exists s. split; [right; exact Hs|exact Hcs].
Qed.

(* ------------------------------------------------------------------------------------ *)
(* emit *)

Definition emit_rel (oe : Z) (s s1 : sstate) : Prop :=
  cur s1 = cur s /\ rest s1 = rest s /\ exh s1 = exh s /\ (lpc s1 = lpc s \/ lpc s1 = Some oe).

Lemma emit_rel_refl oe s : emit_rel oe s s.
Proof. unfold emit_rel. repeat split; try reflexivity. left; reflexivity. Qed.

Lemma emit_Forall2 os oe sel : forall ss i ss1 out,
  emit os oe sel i ss = (ss1, out) -> Forall2 (emit_rel oe) ss ss1.
Proof.
  induction ss as [|s r IH]; intros i ss1 out H; cbn [emit] in H.
  - injection H as <- <-. constructor.
  - destruct (emit os oe sel (S i) r) as [r' o] eqn:E. apply IH in E.
    destruct (cur s) as [c|] eqn:Ec.
    + destruct (sel i && negb (lpc_is s oe)) eqn:Eg; injection H as <- <-; constructor; auto.
      * unfold emit_rel. cbn [cur rest exh lpc]. rewrite Ec.
        repeat split; try reflexivity. right; reflexivity.
      * apply emit_rel_refl.
    + injection H as <- <-. constructor; [apply emit_rel_refl|exact E].
Qed.

Lemma emit_out os oe sel : forall ss i ss1 out x,
  emit os oe sel i ss = (ss1, out) -> In x out ->
  exists j s c, nth_error ss j = Some s /\ cur s = Some c /\ sel (i + j)%nat = true /\
                x = set_span c (unS os) (unE oe).
Proof.
  induction ss as [|s r IH]; intros i ss1 out x H Hx; cbn [emit] in H.
  - injection H as <- <-. destruct Hx.
  - destruct (emit os oe sel (S i) r) as [r' o] eqn:E.
    assert (Hrec : In x o -> exists j s0 c, nth_error (s :: r) j = Some s0 /\ cur s0 = Some c /\
                     sel (i + j)%nat = true /\ x = set_span c (unS os) (unE oe)).
    { intro Ho. destruct (IH (S i) r' o x E Ho) as (j & s0 & c & Hn & Hc & Hs & Hxx).
      exists (S j), s0, c. cbn [nth_error]. rewrite Nat.add_succ_r. auto. }
    destruct (cur s) as [c|] eqn:Ec.
    + destruct (sel i && negb (lpc_is s oe)) eqn:Eg; injection H as <- <-.
      * destruct Hx as [<-|Hx]; [|auto].
        exists O, s, c. cbn [nth_error]. rewrite Nat.add_0_r.
        apply andb_true_iff in Eg as [Eg _]. auto.
      * auto.
    + injection H as <- <-. auto.
Qed.

(* ------------------------------------------------------------------------------------ *)
(* adv_first *)

Lemma adv_first_shape p sel : forall ss i ss' b,
  adv_first p sel i ss = (ss', b) ->
  (b = false /\ ss' = ss) \/
  (b = true /\ exists l1 s l2, ss = l1 ++ s :: l2 /\ ss' = l1 ++ fst (advance s) :: l2 /\
                               p s = true /\ exh s = false /\ sel (i + length l1)%nat = true).
Proof.
  induction ss as [|s r IH]; intros i ss' b H; cbn [adv_first] in H.
  - injection H as <- <-. left. auto.
  - destruct (sel i && p s) eqn:Eg.
    + apply andb_true_iff in Eg as [Es Ep]. injection H as <- <-.
      unfold advance. destruct (exh s) eqn:Ee; cbn [fst snd].
      * left. auto.
      * right. split.
        { destruct (rest s); reflexivity. }
        exists [], s, r. cbn [app length]. rewrite Nat.add_0_r.
        split; [reflexivity|]. split; [|auto].
        unfold advance. rewrite Ee. reflexivity.
    + destruct (adv_first p sel (S i) r) as [r' b'] eqn:E. injection H as <- <-.
      destruct (IH (S i) r' b' E) as [[-> ->]|(-> & l1 & s0 & l2 & -> & -> & Hp & He & Hs)].
      * left. auto.
      * right. split; [reflexivity|]. exists (s :: l1), s0, l2. cbn [app length].
        rewrite Nat.add_succ_r. auto.
Qed.

Lemma adv_ends_false oe : forall ss i ss',
  adv_first (ends_at oe) (fun _ => true) i ss = (ss', false) ->
  forall s, In s ss -> ends_at oe s = false.
Proof.
  induction ss as [|s r IH]; intros i ss' H s0 Hs0; [destruct Hs0|].
  cbn [adv_first] in H. cbn [andb] in H. destruct (ends_at oe s) eqn:Ep.
  - exfalso. unfold ends_at in Ep. destruct (cur s) as [c|]; [|discriminate].
    apply andb_true_iff in Ep as [_ Ee]. unfold advance in H.
    destruct (exh s); [discriminate|]. destruct (rest s); discriminate.
  - destruct (adv_first (ends_at oe) (fun _ => true) (S i) r) as [r' b'] eqn:E.
    injection H as <- ->. destruct Hs0 as [<-|Hs0]; [exact Ep|]. eapply IH; eauto.
Qed.

(* one iteration, unfolded *)
Lemma inter_loop_S f sel ss :
  inter_loop (S f) sel ss =
  match all_cur ss with
  | None => Some []
  | Some act =>
    let os := max_start act in
    let oe := min_end act in
    let '(ss1, out) := if os <? oe then emit os oe sel 0 ss else (ss, []) in
    let '(ss2, adv) := adv_first (ends_at oe) (fun _ => true) 0 ss1 in
    let '(ss3, adv2) := if adv then (ss2, true) else adv_first (stalled oe) sel 0 ss2 in
    if adv2 then match inter_loop f sel ss3 with Some o => Some (out ++ o) | None => None end
    else Some out
  end.
Proof. reflexivity. Qed.

(* The shape of one iteration: the emission phase relates ss to ss1 by emit_rel; then either the
   loop stops, or exactly one non-exhausted state of ss1 is advanced. *)
Lemma loop_step f sel ss act out :
  all_cur ss = Some act -> inter_loop (S f) sel ss = Some out ->
  let os := max_start act in
  let oe := min_end act in
  exists ss1 out1,
    (if os <? oe then emit os oe sel 0 ss else (ss, [])) = (ss1, out1) /\
    ((out = out1 /\ forall s, In s ss1 -> ends_at oe s = false) \/
     (exists l1 s l2 o,
        ss1 = l1 ++ s :: l2 /\ exh s = false /\
        inter_loop f sel (l1 ++ fst (advance s) :: l2) = Some o /\ out = out1 ++ o /\
        (ends_at oe s = true \/
         (stalled oe s = true /\ forall s0, In s0 ss1 -> ends_at oe s0 = false)))).
Proof.
  intros Ha H os oe. rewrite inter_loop_S, Ha in H. cbv zeta in H. fold os oe in H.
  destruct (if os <? oe then emit os oe sel 0 ss else (ss, [])) as [ss1 out1] eqn:E1.
  exists ss1, out1. split; [reflexivity|].
  destruct (adv_first (ends_at oe) (fun _ => true) 0 ss1) as [ss2 adv] eqn:E2.
  destruct (adv_first_shape _ _ _ _ _ _ E2) as [[-> ->]|(-> & l1 & s & l2 & -> & -> & Hp & He & _)].
  - pose proof (adv_ends_false oe ss1 O ss1 E2) as Hno.
    destruct (adv_first (stalled oe) sel 0 ss1) as [ss3 adv2] eqn:E3.
    destruct (adv_first_shape _ _ _ _ _ _ E3) as [[-> ->]|(-> & l1 & s & l2 & -> & -> & Hp & He & _)].
    + left. injection H as <-. auto.
    + right. destruct (inter_loop f sel (l1 ++ fst (advance s) :: l2)) as [o|] eqn:El; [|discriminate].
      injection H as <-. exists l1, s, l2, o. auto 10.
  - right. destruct (inter_loop f sel (l1 ++ fst (advance s) :: l2)) as [o|] eqn:El; [|discriminate].
    injection H as <-. exists l1, s, l2, o. auto 10.
Qed.

(* ------------------------------------------------------------------------------------ *)
(* generic list facts *)

Lemma Forall2_compose {A B C} (R : A -> B -> Prop) (S : B -> C -> Prop) (T : A -> C -> Prop) :
  (forall a b c, R a b -> S b c -> T a c) ->
  forall la lb lc, Forall2 R la lb -> Forall2 S lb lc -> Forall2 T la lc.
Proof.
  intros HT la lb lc H. revert lc. induction H as [|a b la lb Hab Hl IH]; intros lc H2.
  - inversion H2; subst. constructor.
  - inversion H2 as [|b' c lb' lc' Hbc Hl2]; subst. constructor; [eapply HT; eauto|apply IH; exact Hl2].
Qed.

Lemma Forall2_replace {A B} (R : A -> B -> Prop) la l1 s l2 s' :
  Forall2 R la (l1 ++ s :: l2) -> (forall a, R a s -> R a s') -> Forall2 R la (l1 ++ s' :: l2).
Proof.
  intros H Hs. apply Forall2_app_inv_r in H as (a1 & a2 & H1 & H2 & ->).
  inversion H2 as [|a b la' lb' Hab Hl]; subst. apply Forall2_app; [exact H1|].
  constructor; [apply Hs; exact Hab|exact Hl].
Qed.

Lemma Forall2_In_right {A B} (R : A -> B -> Prop) la lb b :
  Forall2 R la lb -> In b lb -> exists a, In a la /\ R a b.
Proof.
  induction 1 as [|a0 b0 la lb Hab Hl IH]; intros Hb; [destruct Hb|].
  destruct Hb as [<-|Hb].
  - exists a0. split; [left; reflexivity|exact Hab].
  - destruct (IH Hb) as (a & Ha & Hr). exists a. split; [right; exact Ha|exact Hr].
Qed.

Lemma Forall2_len {A B} (R : A -> B -> Prop) la lb : Forall2 R la lb -> length la = length lb.
Proof. induction 1; cbn [length]; congruence. Qed.

Lemma Forall_replace {A} (P : A -> Prop) l1 s l2 s' :
  Forall P (l1 ++ s :: l2) -> P s' -> Forall P (l1 ++ s' :: l2).
Proof.
  intros H Hs. apply Forall_app in H as [H1 H2]. inversion H2; subst.
  apply Forall_app. split; [exact H1|]. constructor; assumption.
Qed.

(* ------------------------------------------------------------------------------------ *)
(* (A) soundness of emissions — holds for arbitrary operand streams *)

Definition st_in (l : list ivl) (s : sstate) : Prop :=
  (forall c, cur s = Some c -> In c l) /\ incl (rest s) l.

Lemma st_in_emit oe l s s1 : st_in l s -> emit_rel oe s s1 -> st_in l s1.
Proof. intros [H1 H2] (E1 & E2 & _). unfold st_in. rewrite E1, E2. auto. Qed.

Lemma st_in_advance l s : st_in l s -> st_in l (fst (advance s)).
Proof.
  intros [H1 H2]. unfold advance. destruct (exh s); [split; assumption|].
  destruct (rest s) as [|x r] eqn:Er; cbn [fst]; unfold st_in; cbn [cur rest].
  - split; [exact H1|intros y []].
  - split.
    + intros c Hc. injection Hc as <-. apply H2. left; reflexivity.
    + intros y Hy. apply H2. right; exact Hy.
Qed.

Lemma st_in_init l : st_in l (init_state l).
Proof.
  apply (st_in_advance l (mkS None l false None)). split; cbn [cur rest].
  - discriminate.
  - apply incl_refl.
Qed.

Lemma st_in_act : forall streams ss, Forall2 st_in streams ss ->
  forall act, all_cur ss = Some act -> Forall2 (fun c l => In c l) act streams.
Proof.
  induction 1 as [|l s streams ss Hls Hrest IH]; intros act Ha.
  - cbn in Ha. injection Ha as <-. constructor.
  - rewrite all_cur_cons in Ha. destruct (cur s) as [c|] eqn:Ec; [|discriminate].
    destruct (all_cur ss) as [a|] eqn:Ea; [|discriminate]. injection Ha as <-.
    constructor; [apply (proj1 Hls); exact Ec|apply IH; reflexivity].
Qed.

(* what an emission is: the current event [c] of a selected operand [i], trimmed to the
   non-empty common part [max_start cs, min_end cs) of one event [cs_j] of every operand *)
Definition emission_ok (streams : list (list ivl)) (sel : nat -> bool) (x : ivl) : Prop :=
  exists i cs c,
    (i < length streams)%nat /\ sel i = true /\
    Forall2 (fun c l => In c l) cs streams /\ nth_error cs i = Some c /\
    max_start cs < min_end cs /\
    x = set_span c (unS (max_start cs)) (unE (min_end cs)).

Lemma loop_sound sel streams : forall f ss out,
  Forall2 st_in streams ss -> inter_loop f sel ss = Some out ->
  forall x, In x out -> emission_ok streams sel x.
Proof.
  induction f as [|f IH]; intros ss out Hin H x Hx; [discriminate|].
  destruct (all_cur ss) as [act|] eqn:Ea.
  - destruct (loop_step f sel ss act out Ea H) as (ss1 & out1 & E1 & Hcase). cbv zeta in *.
    assert (Hact : Forall2 (fun c l => In c l) act streams) by (eapply st_in_act; eauto).
    assert (Hout1 : forall y, In y out1 -> emission_ok streams sel y).
    { intros y Hy. destruct (max_start act <? min_end act) eqn:Eo.
      - destruct (emit_out _ _ _ _ _ _ _ y E1 Hy) as (j & s & c & Hn & Hc & Hs & ->).
        cbn [Nat.add] in Hs. exists j, act, c.
        split. { rewrite (Forall2_len _ _ _ Hin). apply nth_error_Some. congruence. }
        split; [exact Hs|]. split; [exact Hact|]. split; [eapply all_cur_nth; eauto|].
        split; [lia|reflexivity].
      - injection E1 as <- <-. destruct Hy. }
    assert (Hin1 : Forall2 st_in streams ss1).
    { destruct (max_start act <? min_end act).
      - apply emit_Forall2 in E1. eapply Forall2_compose; [|exact Hin|exact E1].
        intros a b c Hab Hbc. eapply st_in_emit; eauto.
      - injection E1 as <- <-. exact Hin. }
    destruct Hcase as [[-> _]|(l1 & s & l2 & o & -> & He & Hl & -> & _)].
    + auto.
    + apply in_app_or in Hx as [Hx|Hx]; [auto|]. eapply IH; [|exact Hl|exact Hx].
      eapply Forall2_replace; [exact Hin1|]. intros a Ha. apply st_in_advance. exact Ha.
  - rewrite inter_loop_S, Ea in H. injection H as <-. destruct Hx.
Qed.

(* the k >= 2 branch of inter_sweep_opt *)
Lemma inter_sweep_opt_loop streams sel :
  (2 <= length streams)%nat ->
  inter_sweep_opt streams sel = Some [] \/
  inter_sweep_opt streams sel =
    inter_loop (S (ss_measure (map init_state streams))) sel (map init_state streams).
Proof.
  intro Hk. unfold inter_sweep_opt.
  destruct (forallb _ (map init_state streams)); [left; reflexivity|right].
  destruct streams as [|a [|b r]]; cbn [length] in Hk; try lia. reflexivity.
Qed.

Lemma init_st_in streams : Forall2 st_in streams (map init_state streams).
Proof. induction streams as [|l r IH]; cbn [map]; constructor; [apply st_in_init|exact IH]. Qed.

Theorem inter_sweep_sound streams sel x :
  (2 <= length streams)%nat -> In x (inter_sweep streams sel) -> emission_ok streams sel x.
Proof.
  intros Hk Hx. unfold inter_sweep in Hx.
  destruct (inter_sweep_opt_loop streams sel Hk) as [E|E]; rewrite E in Hx; [destruct Hx|].
  destruct (inter_loop _ sel (map init_state streams)) as [o|] eqn:El; [|destruct Hx].
  eapply loop_sound; [apply init_st_in|exact El|exact Hx].
Qed.

(* consequences of emission_ok: the span is [max_start cs, min_end cs), it is non-empty and lies
   inside one event of every operand *)
Lemma emission_ok_span streams sel x :
  emission_ok streams sel x ->
  fstart x < fend x /\ forall t, inside x t = true -> forallb (fun l => covers l t) streams = true.
Proof.
  intros (i & cs & c & Hi & Hs & Hcs & Hn & Hlt & ->).
  rewrite fstart_set_span. unfold set_span at 1. rewrite fend_unE. split; [exact Hlt|].
  intros t Ht. unfold inside in Ht. rewrite fstart_set_span in Ht. unfold set_span in Ht.
  rewrite fend_unE in Ht. apply forallb_forall. intros l Hl.
  destruct (Forall2_In_right _ _ _ _ Hcs Hl) as (c0 & Hc0 & Hc0l).
  apply covers_true_iff. exists c0. split; [exact Hc0l|]. unfold inside.
  pose proof (max_start_ge cs c0 Hc0). pose proof (min_end_le cs c0 Hc0). lia.
Qed.

(* ------------------------------------------------------------------------------------ *)
(* the fuel is sufficient (local version; Proofs/InterFuel.v has the general statement) *)

Lemma ss_measure_app l1 l2 : ss_measure (l1 ++ l2) = (ss_measure l1 + ss_measure l2)%nat.
Proof.
  induction l1 as [|s r IH]; [reflexivity|]. cbn [app ss_measure fold_right].
  fold (ss_measure (r ++ l2)). fold (ss_measure r). rewrite IH. lia.
Qed.

Lemma ss_measure_cons s l : ss_measure (s :: l) = (st_measure s + ss_measure l)%nat.
Proof. reflexivity. Qed.

Lemma advance_measure s : exh s = false -> S (st_measure (fst (advance s))) = st_measure s.
Proof.
  intro He. unfold advance, st_measure. rewrite He.
  destruct (rest s) as [|x r]; cbn [fst rest exh length]; lia.
Qed.

Lemma emit_rel_measure oe ss ss1 : Forall2 (emit_rel oe) ss ss1 -> ss_measure ss1 = ss_measure ss.
Proof.
  induction 1 as [|s s1 ss ss1 Hs Hr IH]; [reflexivity|].
  rewrite !ss_measure_cons, IH. destruct Hs as (_ & E2 & E3 & _).
  unfold st_measure. rewrite E2, E3. reflexivity.
Qed.

Lemma emit_phase os oe sel ss ss1 out1 :
  (if os <? oe then emit os oe sel 0 ss else (ss, [])) = (ss1, out1) ->
  Forall2 (emit_rel oe) ss ss1 /\
  (forall x, In x out1 -> fstart x = os /\ fend x = oe /\ os < oe).
Proof.
  intro E. destruct (os <? oe) eqn:Eo.
  - split; [eapply emit_Forall2; eauto|]. intros x Hx.
    destruct (emit_out _ _ _ _ _ _ _ x E Hx) as (j & s & c & _ & _ & _ & ->).
    rewrite fstart_set_span. unfold set_span. rewrite fend_unE. lia.
  - injection E as <- <-. split; [|intros x []].
    clear. induction ss; constructor; [apply emit_rel_refl|assumption].
Qed.

Lemma loop_total sel : forall f ss, (ss_measure ss < f)%nat -> exists out, inter_loop f sel ss = Some out.
Proof.
  induction f as [|f IH]; intros ss Hm; [lia|]. rewrite inter_loop_S.
  destruct (all_cur ss) as [act|]; [|eauto]. cbv zeta.
  destruct (if max_start act <? min_end act then _ else _) as [ss1 out1] eqn:E1.
  apply emit_phase in E1 as [E1 _]. apply emit_rel_measure in E1.
  assert (Hgo : forall l1 s l2, ss1 = l1 ++ s :: l2 -> exh s = false ->
                exists o, inter_loop f sel (l1 ++ fst (advance s) :: l2) = Some o).
  { intros l1 s l2 -> He. apply IH. rewrite ss_measure_app, ss_measure_cons in *.
    pose proof (advance_measure s He). lia. }
  destruct (adv_first (ends_at (min_end act)) (fun _ => true) 0 ss1) as [ss2 adv] eqn:E2.
  destruct (adv_first_shape _ _ _ _ _ _ E2) as [[-> ->]|(-> & l1 & s & l2 & Hs & -> & _ & He & _)].
  - destruct (adv_first (stalled (min_end act)) sel 0 ss1) as [ss3 adv2] eqn:E3.
    destruct (adv_first_shape _ _ _ _ _ _ E3) as [[-> ->]|(-> & l1 & s & l2 & Hs & -> & _ & He & _)].
    + eauto.
    + destruct (Hgo l1 s l2 Hs He) as [o Ho]. rewrite Ho. eauto.
  - destruct (Hgo l1 s l2 Hs He) as [o Ho]. rewrite Ho. eauto.
Qed.

Lemma loop_none sel f ss o : all_cur ss = None -> inter_loop f sel ss = Some o -> o = [].
Proof.
  intros Ha H. destruct f as [|f]; [discriminate|]. rewrite inter_loop_S, Ha in H. congruence.
Qed.

(* ------------------------------------------------------------------------------------ *)
(* advancing one non-exhausted state *)

Lemma advance_act l1 s l2 act :
  all_cur (l1 ++ s :: l2) = Some act -> exh s = false ->
  exists a1 c a2,
    act = a1 ++ c :: a2 /\ cur s = Some c /\ all_cur l1 = Some a1 /\ all_cur l2 = Some a2 /\
    ((rest s = [] /\ fst (advance s) = mkS (Some c) [] true (lpc s) /\
      all_cur (l1 ++ fst (advance s) :: l2) = Some act) \/
     (exists x r, rest s = x :: r /\ fst (advance s) = mkS (Some x) r false None /\
                  all_cur (l1 ++ fst (advance s) :: l2) = Some (a1 ++ x :: a2))).
Proof.
  intros Ha He. rewrite all_cur_app in Ha.
  destruct (all_cur l1) as [a1|] eqn:E1; [|discriminate].
  destruct (cur s) as [c|] eqn:Ec; [|discriminate].
  destruct (all_cur l2) as [a2|] eqn:E2; [|discriminate]. injection Ha as <-.
  exists a1, c, a2. repeat (split; [reflexivity|]).
  unfold advance. rewrite He. destruct (rest s) as [|x r] eqn:Er; cbn [fst].
  - left. rewrite Ec. split; [reflexivity|]. split; [reflexivity|].
    rewrite all_cur_app, E1, E2. reflexivity.
  - right. exists x, r. split; [reflexivity|]. split; [reflexivity|].
    rewrite all_cur_app, E1, E2. reflexivity.
Qed.

Lemma emit_rel_all_cur oe ss ss1 : Forall2 (emit_rel oe) ss ss1 -> all_cur ss1 = all_cur ss.
Proof.
  intro H. apply all_cur_ext. induction H as [|s s1 ss ss1 Hs Hr IH]; [reflexivity|].
  cbn [map]. rewrite IH. destruct Hs as (-> & _). reflexivity.
Qed.

Lemma max_start_replace a1 c x a2 :
  fstart c <= fstart x -> max_start (a1 ++ c :: a2) <= max_start (a1 ++ x :: a2).
Proof.
  intro Hcx. destruct (max_start_in (a1 ++ c :: a2)) as (y & Hy & <-).
  { destruct a1; discriminate. }
  apply in_app_or in Hy as [Hy|[<-|Hy]].
  - apply max_start_ge. apply in_or_app. left; exact Hy.
  - assert (Hx : In x (a1 ++ x :: a2)) by (apply in_or_app; right; left; reflexivity).
    pose proof (max_start_ge (a1 ++ x :: a2) x Hx). lia.
  - apply max_start_ge. apply in_or_app. right; right; exact Hy.
Qed.

Lemma min_end_replace a1 c x a2 :
  fend c <= fend x -> min_end (a1 ++ c :: a2) <= min_end (a1 ++ x :: a2).
Proof.
  intro Hcx. destruct (min_end_in (a1 ++ x :: a2)) as (y & Hy & <-).
  { destruct a1; discriminate. }
  apply in_app_or in Hy as [Hy|[<-|Hy]].
  - apply min_end_le. apply in_or_app. left; exact Hy.
  - assert (Hc : In c (a1 ++ c :: a2)) by (apply in_or_app; right; left; reflexivity).
    pose proof (min_end_le (a1 ++ c :: a2) c Hc). lia.
  - apply min_end_le. apply in_or_app. right; right; exact Hy.
Qed.

(* ------------------------------------------------------------------------------------ *)
(* (C1) the output is sorted by start — operand streams sorted by start *)

Definition st_sorted (s : sstate) : Prop := forall c, cur s = Some c -> sorted_start (c :: rest s).

Lemma sorted_start_app l1 l2 :
  sorted_start l1 -> sorted_start l2 ->
  (forall x y, In x l1 -> In y l2 -> fstart x <= fstart y) -> sorted_start (l1 ++ l2).
Proof.
  induction l1 as [|a l1 IH]; intros H1 H2 H12; [exact H2|]. cbn [app sorted_start].
  destruct H1 as [Ha Hl1]. split.
  - intros y Hy. apply in_app_or in Hy as [Hy|Hy]; [apply Ha; exact Hy|].
    apply H12; [left; reflexivity|exact Hy].
  - apply IH; [exact Hl1|exact H2|]. intros x y Hx Hy. apply H12; [right; exact Hx|exact Hy].
Qed.

Lemma sorted_start_const l z : (forall x, In x l -> fstart x = z) -> sorted_start l.
Proof.
  induction l as [|a l IH]; intro H; [exact I|]. split.
  - intros y Hy. rewrite (H a (or_introl eq_refl)), (H y (or_intror Hy)). lia.
  - apply IH. intros x Hx. apply H. right; exact Hx.
Qed.

Lemma loop_sorted sel : forall f ss out,
  Forall st_sorted ss -> inter_loop f sel ss = Some out ->
  sorted_start out /\
  forall act, all_cur ss = Some act -> forall x, In x out -> max_start act <= fstart x.
Proof.
  induction f as [|f IH]; intros ss out Hso H; [discriminate|].
  destruct (all_cur ss) as [act|] eqn:Ea.
  2:{ apply (loop_none _ _ _ _ Ea) in H. subst out. split; [exact I|intros ? ? ? []]. }
  destruct (loop_step f sel ss act out Ea H) as (ss1 & out1 & E1 & Hcase). cbv zeta in *.
  apply emit_phase in E1 as [E1 Hout1].
  assert (Hs1 : sorted_start out1).
  { apply sorted_start_const with (z := max_start act). intros x Hx. apply Hout1; exact Hx. }
  assert (Hso1 : Forall st_sorted ss1).
  { clear - E1 Hso. induction E1 as [|s s1 ss ss1 Hs Hr IHr]; [constructor|].
    inversion Hso; subst. constructor; [|auto]. destruct Hs as (C1 & C2 & _).
    unfold st_sorted. rewrite C1, C2. assumption. }
  assert (Ha1 : all_cur ss1 = Some act) by (rewrite (emit_rel_all_cur _ _ _ E1); exact Ea).
  destruct Hcase as [[-> _]|(l1 & s & l2 & o & -> & He & Hl & -> & _)].
  - split; [exact Hs1|]. intros act' Hact' x Hx. injection Hact' as <-.
    destruct (Hout1 x Hx) as (-> & _). lia.
  - destruct (advance_act l1 s l2 act Ha1 He) as (a1 & c & a2 & -> & Hc & _ & _ & Hadv).
    assert (Hso3 : Forall st_sorted (l1 ++ fst (advance s) :: l2)).
    { eapply Forall_replace; [exact Hso1|].
      apply Forall_app in Hso1 as [_ Hso1]. inversion Hso1 as [|? ? Hs ?]; subst.
      specialize (Hs c Hc).
      destruct Hadv as [(Hr & -> & _)|(x & r & Hr & -> & _)]; unfold st_sorted; cbn [cur rest].
      - intros c' Hc'. injection Hc' as <-. split; [intros y []|exact I].
      - intros c' Hc'. injection Hc' as <-. rewrite Hr in Hs. destruct Hs as [_ Hs]. exact Hs. }
    destruct (IH _ _ Hso3 Hl) as [So Bo].
    assert (Hbound : forall y, In y o -> max_start (a1 ++ c :: a2) <= fstart y).
    { intros y Hy. destruct Hadv as [(_ & _ & Ha3)|(x & r & Hr & _ & Ha3)].
      - apply (Bo _ Ha3 y Hy).
      - pose proof (Bo _ Ha3 y Hy) as Hb.
        apply Forall_app in Hso1 as [_ Hso1]. inversion Hso1 as [|? ? Hs ?]; subst.
        specialize (Hs c Hc). rewrite Hr in Hs. destruct Hs as [Hs _].
        specialize (Hs x (or_introl eq_refl)).
        pose proof (max_start_replace a1 c x a2 Hs). lia. }
    split.
    + apply sorted_start_app; [exact Hs1|exact So|]. intros x y Hx Hy.
      destruct (Hout1 x Hx) as (-> & _). apply Hbound; exact Hy.
    + intros act' Hact' x Hx. injection Hact' as <-. apply in_app_or in Hx as [Hx|Hx].
      * destruct (Hout1 x Hx) as (-> & _). lia.
      * apply Hbound; exact Hx.
Qed.

Lemma init_sorted l : sorted_start l -> st_sorted (init_state l).
Proof.
  intro H. unfold init_state, advance, st_sorted. cbn [exh rest].
  destruct l as [|x r]; cbn [fst cur rest]; [discriminate|].
  intros c Hc. injection Hc as <-. exact H.
Qed.

Theorem inter_sweep_sorted streams sel :
  (2 <= length streams)%nat -> Forall sorted_start streams ->
  sorted_start (inter_sweep streams sel).
Proof.
  intros Hk Hso. unfold inter_sweep.
  destruct (inter_sweep_opt_loop streams sel Hk) as [E|E]; rewrite E; [exact I|].
  destruct (inter_loop _ sel (map init_state streams)) as [o|] eqn:El; [|exact I].
  eapply loop_sorted; [|exact El].
  clear - Hso. induction Hso as [|l r Hl Hr IH]; cbn [map]; constructor; [apply init_sorted; exact Hl|exact IH].
Qed.

(* ------------------------------------------------------------------------------------ *)
(* the invariant on internally disjoint operands *)

Definition st_ok (s : sstate) : Prop :=
  exists c, cur s = Some c /\ Forall wf_ivl (c :: rest s) /\ disjoint_sorted (c :: rest s) /\
            (exh s = true -> rest s = []).

(* a remembered cutoff is at most the present cutoff, and if it is not the present cutoff then
   the present overlap region starts at or after it *)
Definition lpc_ok (os oe : Z) (s : sstate) : Prop :=
  forall p, lpc s = Some p -> p <= oe /\ (p <= os \/ p = oe).

Lemma Forall_emit_rel (P : sstate -> Prop) oe ss ss1 :
  (forall s s1, emit_rel oe s s1 -> P s -> P s1) ->
  Forall2 (emit_rel oe) ss ss1 -> Forall P ss -> Forall P ss1.
Proof.
  intros HP H. induction H as [|s s1 ss ss1 Hs Hr IH]; intro HF; [constructor|].
  inversion HF; subst. constructor; [eapply HP; eauto|auto].
Qed.

Lemma st_ok_emit oe s s1 : emit_rel oe s s1 -> st_ok s -> st_ok s1.
Proof. intros (E1 & E2 & E3 & _) H. unfold st_ok. rewrite E1, E2, E3. exact H. Qed.

Lemma lpc_ok_emit os oe s s1 : emit_rel oe s s1 -> lpc_ok os oe s -> lpc_ok os oe s1.
Proof.
  intros (_ & _ & _ & [E|E]) H p Hp; rewrite E in Hp.
  - apply H; exact Hp.
  - injection Hp as <-. split; [lia|right; reflexivity].
Qed.

Lemma lpc_ok_mono os oe os' oe' s :
  os <= os' -> oe <= oe' -> (oe <= os' \/ oe' = oe) -> lpc_ok os oe s -> lpc_ok os' oe' s.
Proof.
  intros H1 H2 H3 H p Hp. destruct (H p Hp) as [Hle Hor]. split; [lia|].
  destruct Hor as [Hor| ->]; [left; lia|]. destruct H3 as [H3|H3]; [left; lia|right; lia].
Qed.

Lemma adv_inv l1 s l2 act :
  Forall st_ok (l1 ++ s :: l2) -> all_cur (l1 ++ s :: l2) = Some act ->
  Forall (lpc_ok (max_start act) (min_end act)) (l1 ++ s :: l2) -> exh s = false ->
  exists act',
    all_cur (l1 ++ fst (advance s) :: l2) = Some act' /\
    Forall st_ok (l1 ++ fst (advance s) :: l2) /\
    Forall (lpc_ok (max_start act') (min_end act')) (l1 ++ fst (advance s) :: l2) /\
    max_start act <= max_start act' /\ min_end act <= min_end act' /\
    (rest s = [] -> act' = act /\ lpc (fst (advance s)) = lpc s) /\
    (rest s <> [] -> min_end act <= max_start act').
Proof.
  intros Hok Ha Hl He.
  destruct (advance_act l1 s l2 act Ha He) as (a1 & c & a2 & -> & Hc & _ & _ & Hadv).
  assert (Hs : st_ok s).
  { apply Forall_app in Hok as [_ Hok]. inversion Hok; subst; assumption. }
  destruct Hs as (c' & Hc' & Hwf & Hdj & Hex). rewrite Hc in Hc'. injection Hc' as <-.
  destruct Hadv as [(Hr & -> & Ha3)|(x & r & Hr & -> & Ha3)].
  - exists (a1 ++ c :: a2). split; [exact Ha3|]. split; [|split].
    + eapply Forall_replace; [exact Hok|]. exists c. cbn [cur rest exh].
      rewrite Hr in Hwf, Hdj. auto.
    + eapply Forall_replace; [exact Hl|].
      apply Forall_app in Hl as [_ Hl]. inversion Hl; subst. assumption.
    + split; [lia|]. split; [lia|]. split; [auto|]. intro Hn. congruence.
  - rewrite Hr in Hwf, Hdj. inversion Hwf as [|? ? Hwc Hwf']; subst.
    inversion Hwf' as [|? ? Hwx _]; subst. destruct Hdj as [Hcx Hdj'].
    specialize (Hcx x (or_introl eq_refl)).
    destruct Hwc as (_ & Wc & _). destruct Hwx as (_ & Wx & _).
    assert (Hc_in : In c (a1 ++ c :: a2)) by (apply in_or_app; right; left; reflexivity).
    assert (Hx_in : In x (a1 ++ x :: a2)) by (apply in_or_app; right; left; reflexivity).
    pose proof (min_end_le _ _ Hc_in) as M1. pose proof (max_start_ge _ _ Hx_in) as M2.
    pose proof (max_start_replace a1 c x a2) as M3. pose proof (min_end_replace a1 c x a2) as M4.
    exists (a1 ++ x :: a2). split; [exact Ha3|]. split; [|split].
    + eapply Forall_replace; [exact Hok|]. exists x. cbn [cur rest exh].
      split; [reflexivity|]. split; [exact Hwf'|]. split; [exact Hdj'|discriminate].
    + eapply Forall_replace.
      * eapply Forall_impl; [|exact Hl]. intros s0 Hs0.
        eapply lpc_ok_mono; [| |left|exact Hs0]; lia.
      * intros p Hp. discriminate.
    + split; [lia|]. split; [lia|]. split; [congruence|]. intros _. lia.
Qed.

Lemma st_ok_init l : l <> [] -> Forall wf_ivl l -> disjoint_sorted l -> st_ok (init_state l).
Proof.
  intros Hn Hwf Hdj. destruct l as [|x r]; [congruence|].
  exists x. unfold init_state, advance. cbn [exh rest fst cur].
  split; [reflexivity|]. split; [exact Hwf|]. split; [exact Hdj|discriminate].
Qed.

Lemma init_lpc l : lpc (init_state l) = None.
Proof. unfold init_state, advance. cbn [exh rest]. destruct l; reflexivity. Qed.

(* all streams non-empty: the initial states satisfy the invariant *)
Lemma init_inv streams :
  Forall (fun l => l <> []) streams ->
  Forall (Forall wf_ivl) streams -> Forall disjoint_sorted streams ->
  Forall st_ok (map init_state streams) /\
  (forall os oe, Forall (lpc_ok os oe) (map init_state streams)) /\
  exists act, all_cur (map init_state streams) = Some act.
Proof.
  induction streams as [|l r IH]; intros Hn Hwf Hdj.
  - split; [constructor|]. split; [constructor|]. exists []. reflexivity.
  - inversion Hn; subst. inversion Hwf; subst. inversion Hdj; subst.
    destruct IH as (I1 & I2 & act & I3); try assumption. cbn [map].
    assert (Hok : st_ok (init_state l)) by (apply st_ok_init; assumption).
    split; [constructor; assumption|]. split.
    + intros os oe. constructor; [|apply I2]. intros p Hp. rewrite init_lpc in Hp. discriminate.
    + destruct Hok as (c & Hc & _). exists (c :: act). rewrite all_cur_cons, Hc, I3. reflexivity.
Qed.

(* some stream empty: the loop stops at once *)
Lemma init_empty streams :
  Exists (fun l => l = []) streams -> all_cur (map init_state streams) = None.
Proof.
  induction 1 as [l r Hl|l r Hr IH]; cbn [map]; rewrite all_cur_cons.
  - subst l. reflexivity.
  - rewrite IH. destruct (cur (init_state l)); reflexivity.
Qed.

Lemma nonempty_dec (streams : list (list ivl)) :
  Forall (fun l => l <> []) streams \/ Exists (fun l => l = []) streams.
Proof.
  induction streams as [|l r IH]; [left; constructor|].
  destruct l as [|x l]; [right; left; reflexivity|].
  destruct IH as [IH|IH]; [left; constructor; [discriminate|exact IH]|right; right; exact IH].
Qed.

(* ------------------------------------------------------------------------------------ *)
(* (C2) single emitter (operand 0): the output is disjoint_sorted *)

Definition sel0 (i : nat) : bool := Nat.eqb i 0.
Definition lpc0 (ss : list sstate) : option Z := match ss with s :: _ => lpc s | [] => None end.

Lemma emit_nosel os oe sel : forall ss i,
  (forall j, sel (i + j)%nat = false) -> emit os oe sel i ss = (ss, []).
Proof.
  induction ss as [|s r IH]; intros i H; cbn [emit]; [reflexivity|].
  rewrite IH.
  - destruct (cur s); [|reflexivity]. specialize (H O). rewrite Nat.add_0_r in H. rewrite H.
    reflexivity.
  - intro j. specialize (H (S j)). rewrite Nat.add_succ_r in H. exact H.
Qed.

Lemma emit_sel0 os oe s r ss1 out1 :
  emit os oe sel0 0 (s :: r) = (ss1, out1) ->
  (ss1 = s :: r /\ out1 = []) \/
  (exists c, cur s = Some c /\ lpc_is s oe = false /\
             ss1 = mkS (cur s) (rest s) (exh s) (Some oe) :: r /\
             out1 = [set_span c (unS os) (unE oe)]).
Proof.
  cbn [emit]. rewrite emit_nosel by (intro j; reflexivity).
  destruct (cur s) as [c|].
  - destruct (sel0 0 && negb (lpc_is s oe)) eqn:Eg; intro H; injection H as <- <-.
    + right. exists c. cbn [sel0 Nat.eqb andb] in Eg. apply negb_true_iff in Eg. auto.
    + left. auto.
  - intro H; injection H as <- <-. left. auto.
Qed.

Lemma lpc0_replace l1 s s' l2 : lpc s' = lpc s -> lpc0 (l1 ++ s' :: l2) = lpc0 (l1 ++ s :: l2).
Proof. intro H. destruct l1; cbn [app lpc0]; [exact H|reflexivity]. Qed.

Lemma loop_disjoint0 : forall f ss out act,
  Forall st_ok ss -> all_cur ss = Some act ->
  Forall (lpc_ok (max_start act) (min_end act)) ss ->
  inter_loop f sel0 ss = Some out ->
  disjoint_sorted out /\
  forall x, In x out ->
    max_start act <= fstart x /\ forall p, lpc0 ss = Some p -> p <= fstart x.
Proof.
  induction f as [|f IH]; intros ss out act Hok Ha Hl H; [discriminate|].
  destruct (loop_step f sel0 ss act out Ha H) as (ss1 & out1 & E1 & Hcase). cbv zeta in *.
  set (os := max_start act) in *. set (oe := min_end act) in *.
  assert (Hph : (out1 = [] /\ lpc0 ss1 = lpc0 ss) \/
                (exists x1, out1 = [x1] /\ fstart x1 = os /\ fend x1 = oe /\
                            lpc0 ss1 = Some oe /\ forall p, lpc0 ss = Some p -> p <= os)).
  { destruct (os <? oe) eqn:Eo; [|injection E1 as <- <-; left; auto].
    destruct ss as [|s r]. { cbn in E1. injection E1 as <- <-. left; auto. }
    apply emit_sel0 in E1 as [[-> ->]|(c & Hc & Hlp & -> & ->)]; [left; auto|right].
    eexists. split; [reflexivity|]. rewrite fstart_set_span. unfold set_span. rewrite fend_unE.
    split; [reflexivity|]. split; [reflexivity|]. split; [reflexivity|].
    cbn [lpc0]. intros p Hp. inversion Hl as [|? ? Hls _]; subst.
    destruct (Hls p Hp) as [_ [Hle| ->]]; [exact Hle|].
    unfold lpc_is in Hlp. rewrite Hp in Hlp. lia. }
  apply emit_phase in E1 as [E1 _].
  assert (Hok1 : Forall st_ok ss1).
  { eapply Forall_emit_rel; [|exact E1|exact Hok]. intros; eapply st_ok_emit; eauto. }
  assert (Hl1 : Forall (lpc_ok os oe) ss1).
  { eapply Forall_emit_rel; [|exact E1|exact Hl]. intros; eapply lpc_ok_emit; eauto. }
  assert (Ha1 : all_cur ss1 = Some act) by (rewrite (emit_rel_all_cur _ _ _ E1); exact Ha).
  assert (Hfin : forall o : list ivl,
            disjoint_sorted o ->
            (forall y, In y o -> os <= fstart y /\ forall p, lpc0 ss1 = Some p -> p <= fstart y) ->
            disjoint_sorted (out1 ++ o) /\
            forall x, In x (out1 ++ o) -> os <= fstart x /\ forall p, lpc0 ss = Some p -> p <= fstart x).
  { intros o Hdo Hbo. destruct Hph as [[-> Hlp]|(x1 & -> & F1 & F2 & Hlp & Hp0)]; cbn [app].
    - rewrite <- Hlp. split; [exact Hdo|exact Hbo].
    - split.
      + split; [|exact Hdo]. intros y Hy. rewrite F2. apply (Hbo y Hy). exact Hlp.
      + intros x [<-|Hx].
        * split; [lia|]. rewrite F1. exact Hp0.
        * destruct (Hbo x Hx) as [B1 _]. split; [exact B1|].
          intros p Hp. specialize (Hp0 p Hp). lia. }
  destruct Hcase as [[-> _]|(l1 & s & l2 & o & -> & He & Hloop & -> & _)].
  - rewrite <- (app_nil_r out1). apply Hfin; [exact I|intros y []].
  - destruct (adv_inv l1 s l2 act Hok1 Ha1 Hl1 He) as (act' & Ha3 & Hok3 & Hl3 & M1 & M2 & Hnil & Hcons).
    destruct (IH _ _ _ Hok3 Ha3 Hl3 Hloop) as [Do Bo].
    apply Hfin; [exact Do|]. intros y Hy. destruct (Bo y Hy) as [B1 B2]. fold os in M1. fold oe in M2.
    split; [lia|]. intros p Hp.
    destruct (rest s) as [|x r] eqn:Er.
    + destruct (Hnil eq_refl) as [_ Hlpc]. apply B2.
      rewrite (lpc0_replace l1 s _ l2 Hlpc). exact Hp.
    + assert (Hne : x :: r <> []) by discriminate. specialize (Hcons Hne). fold oe in Hcons.
      assert (Hple : p <= oe).
      { destruct l1 as [|s0 l1']; cbn [app lpc0] in Hp; inversion Hl1 as [|? ? Hls _]; subst;
          apply (Hls p Hp). }
      lia.
Qed.

Theorem inter_sweep_single_disjoint streams :
  (2 <= length streams)%nat ->
  Forall (Forall wf_ivl) streams -> Forall disjoint_sorted streams ->
  disjoint_sorted (inter_sweep streams sel0).
Proof.
  intros Hk Hwf Hdj. unfold inter_sweep.
  destruct (inter_sweep_opt_loop streams sel0 Hk) as [E|E]; rewrite E; [exact I|].
  destruct (inter_loop _ sel0 (map init_state streams)) as [o|] eqn:El; [|exact I].
  destruct (nonempty_dec streams) as [Hne|Hex].
  - destruct (init_inv streams Hne Hwf Hdj) as (I1 & I2 & act & I3).
    eapply loop_disjoint0; [exact I1|exact I3|apply I2|exact El].
  -     rewrite (loop_none _ _ _ _ (init_empty _ Hex) El). exact I.
Qed.

(* ------------------------------------------------------------------------------------ *)
(* (B) coverage completeness on internally disjoint operands *)

(* what an operand can still contribute: its current event and the unread rest *)
Definition remaining (s : sstate) : list ivl :=
  match cur s with Some c => c :: rest s | None => [] end.
Definition inT (ss : list sstate) (t : Z) : bool := forallb (fun s => covers (remaining s) t) ss.

(* every selected operand has already been processed at cutoff [oe] *)
Fixpoint sel_done (oe : Z) (sel : nat -> bool) (i : nat) (ss : list sstate) : bool :=
  match ss with
  | [] => true
  | s :: r => (negb (sel i) || lpc_is s oe) && sel_done oe sel (S i) r
  end.

Definition has_sel (sel : nat -> bool) (n : nat) : Prop := exists i, (i < n)%nat /\ sel i = true.

Lemma sel_done_nth oe sel : forall ss i j s,
  sel_done oe sel i ss = true -> nth_error ss j = Some s -> sel (i + j)%nat = true ->
  lpc_is s oe = true.
Proof.
  induction ss as [|x r IH]; intros i j s H Hn Hs; [destruct j; discriminate|].
  cbn [sel_done] in H. apply andb_true_iff in H as [H1 H2]. destruct j as [|j]; cbn [nth_error] in Hn.
  - injection Hn as ->. rewrite Nat.add_0_r in Hs. rewrite Hs in H1. exact H1.
  - apply (IH (S i) j s H2 Hn). rewrite Nat.add_succ_r in Hs. exact Hs.
Qed.

Lemma sel_done_false oe' sel ss os oe :
  has_sel sel (length ss) -> Forall (lpc_ok os oe) ss -> oe < oe' -> sel_done oe' sel 0 ss = false.
Proof.
  intros (i & Hi & Hs) Hl Hlt. destruct (sel_done oe' sel 0 ss) eqn:E; [exfalso|reflexivity].
  destruct (nth_error ss i) as [s|] eqn:En; [|apply nth_error_None in En; lia].
  pose proof (sel_done_nth oe' sel ss O i s E En Hs) as Hlp.
  unfold lpc_is in Hlp. destruct (lpc s) as [p|] eqn:Ep; [|discriminate].
  apply nth_error_In in En. rewrite Forall_forall in Hl. destruct (Hl s En p Ep) as [Hle _]. lia.
Qed.

Lemma sel_done_replace oe sel s s' l2 : forall l1 i,
  lpc s' = lpc s -> sel_done oe sel i (l1 ++ s' :: l2) = sel_done oe sel i (l1 ++ s :: l2).
Proof.
  induction l1 as [|x l1 IH]; intros i H; cbn [app sel_done].
  - unfold lpc_is. rewrite H. reflexivity.
  - rewrite (IH (S i) H). reflexivity.
Qed.

Lemma emit_done os oe sel : forall ss i ss1 out1,
  (forall s, In s ss -> cur s <> None) ->
  emit os oe sel i ss = (ss1, out1) ->
  sel_done oe sel i ss1 = true /\
  (sel_done oe sel i ss = true -> out1 = []) /\
  (sel_done oe sel i ss = false -> out1 <> []).
Proof.
  induction ss as [|s r IH]; intros i ss1 out1 Hc H; cbn [emit] in H.
  - injection H as <- <-. cbn [sel_done]. split; [reflexivity|]. split; [reflexivity|discriminate].
  - destruct (emit os oe sel (S i) r) as [r' o] eqn:E.
    destruct (IH (S i) r' o (fun s0 Hs0 => Hc s0 (or_intror Hs0)) E) as (I1 & I2 & I3).
    destruct (cur s) as [c|] eqn:Ec; [|exfalso; apply (Hc s (or_introl eq_refl)); exact Ec].
    cbn [sel_done]. destruct (sel i) eqn:Es; destruct (lpc_is s oe) eqn:El; cbn [andb negb orb] in *;
      injection H as <- <-; cbn [sel_done]; rewrite ?Es, ?El; cbn [andb negb orb].
    + auto.
    + unfold lpc_is at 1. cbn [lpc]. rewrite Z.eqb_refl. cbn [andb].
      split; [exact I1|]. split; [discriminate|]. intros _. discriminate.
    + auto.
    + auto.
Qed.

Lemma covers_const l a b t :
  (forall x, In x l -> fstart x = a /\ fend x = b) -> l <> [] ->
  covers l t = (a <=? t) && (t <? b).
Proof.
  induction l as [|x l IH]; intros H Hn; [congruence|]. rewrite covers_cons.
  destruct (H x (or_introl eq_refl)) as [Hs He]. unfold inside at 1. rewrite Hs, He.
  destruct l as [|y l']; [rewrite covers_nil; apply orb_false_r|].
  rewrite IH; [apply orb_diag| |discriminate]. intros z Hz. apply H. right; exact Hz.
Qed.

Lemma all_cur_not_none ss act s : all_cur ss = Some act -> In s ss -> cur s <> None.
Proof. intros Ha Hs. destruct (all_cur_In ss act s Ha Hs) as (c & Hc & _). congruence. Qed.

Lemma emit_phase_cover os oe sel ss act ss1 out1 :
  all_cur ss = Some act ->
  (if os <? oe then emit os oe sel 0 ss else (ss, [])) = (ss1, out1) ->
  (forall t, covers out1 t = (os <=? t) && (t <? oe) && negb (sel_done oe sel 0 ss)) /\
  (os < oe -> sel_done oe sel 0 ss1 = true).
Proof.
  intros Ha E. pose proof (emit_phase _ _ _ _ _ _ E) as [_ Hout].
  destruct (os <? oe) eqn:Eo.
  - destruct (emit_done os oe sel ss O ss1 out1 (fun s0 => all_cur_not_none ss act s0 Ha) E) as (D1 & D2 & D3).
    split; [|intros _; exact D1]. intro t. destruct (sel_done oe sel 0 ss) eqn:Ed.
    + rewrite (D2 eq_refl). rewrite covers_nil, andb_false_r. reflexivity.
    + rewrite (covers_const out1 os oe t); [rewrite andb_true_r; reflexivity| |apply D3; reflexivity].
      intros x Hx. destruct (Hout x Hx) as (F1 & F2 & _). auto.
  - injection E as <- <-. split; [|lia]. intro t. rewrite covers_nil. lia.
Qed.

Lemma inT_app l1 l2 t : inT (l1 ++ l2) t = inT l1 t && inT l2 t.
Proof. unfold inT. apply forallb_app. Qed.

Lemma inT_cons s l t : inT (s :: l) t = covers (remaining s) t && inT l t.
Proof. reflexivity. Qed.

Lemma inT_emit oe ss ss1 t : Forall2 (emit_rel oe) ss ss1 -> inT ss1 t = inT ss t.
Proof.
  induction 1 as [|s s1 ss ss1 Hs Hr IH]; [reflexivity|]. rewrite !inT_cons, IH.
  destruct Hs as (E1 & E2 & _). unfold remaining. rewrite E1, E2. reflexivity.
Qed.

Lemma inT_In ss s t : inT ss t = true -> In s ss -> covers (remaining s) t = true.
Proof. unfold inT. rewrite forallb_forall. auto. Qed.

(* an instant before the end of the current event of a disjoint operand can only be covered by
   that current event *)
Lemma st_ok_before s c t :
  st_ok s -> cur s = Some c -> covers (remaining s) t = true -> t < fend c -> inside c t = true.
Proof.
  intros (c' & Hc' & _ & [Hd _] & _) Hc Hcov Ht. rewrite Hc in Hc'. injection Hc' as <-.
  unfold remaining in Hcov. rewrite Hc, covers_cons in Hcov.
  destruct (inside c t) eqn:Ei; [reflexivity|]. cbn [orb] in Hcov.
  apply covers_true_iff in Hcov as (y & Hy & Hin). specialize (Hd y Hy). unfold inside in Hin. lia.
Qed.

Lemma inT_before ss act t :
  Forall st_ok ss -> all_cur ss = Some act -> act <> [] ->
  inT ss t = true -> t < min_end act -> max_start act <= t.
Proof.
  intros Hok Ha Hn HT Ht. destruct (max_start_in act Hn) as (c & Hc & <-).
  destruct (all_cur_In_inv ss act c Ha Hc) as (s & Hs & Hcs).
  rewrite Forall_forall in Hok. pose proof (min_end_le act c Hc).
  assert (Hi : inside c t = true).
  { apply (st_ok_before s c t (Hok s Hs) Hcs (inT_In ss s t HT Hs)). lia. }
  unfold inside in Hi. lia.
Qed.

Lemma inT_region ss act t :
  all_cur ss = Some act -> max_start act <= t < min_end act -> inT ss t = true.
Proof.
  intros Ha Ht. apply forallb_forall. intros s Hs.
  destruct (all_cur_In ss act s Ha Hs) as (c & Hc & Hin). unfold remaining. rewrite Hc, covers_cons.
  pose proof (max_start_ge act c Hin). pose proof (min_end_le act c Hin).
  unfold inside. replace ((fstart c <=? t) && (t <? fend c)) with true by lia. reflexivity.
Qed.

(* an exhausted operand covers nothing from the end of its current event on *)
Lemma inT_exhausted ss m c t :
  Forall st_ok ss -> In m ss -> cur m = Some c -> exh m = true -> inT ss t = true -> t < fend c.
Proof.
  intros Hok Hm Hc He HT. rewrite Forall_forall in Hok.
  destruct (Hok m Hm) as (c' & Hc' & _ & _ & Hex). pose proof (inT_In ss m t HT Hm) as Hcov.
  unfold remaining in Hcov. rewrite Hc, (Hex He), covers_cons, covers_nil, orb_false_r in Hcov.
  unfold inside in Hcov. lia.
Qed.

(* if no state can be advanced by the ends-at rule, some exhausted state ends at the cutoff *)
Lemma exhausted_at_cutoff ss act :
  all_cur ss = Some act -> act <> [] ->
  (forall s, In s ss -> ends_at (min_end act) s = false) ->
  exists m c, In m ss /\ cur m = Some c /\ fend c = min_end act /\ exh m = true.
Proof.
  intros Ha Hn Hno. destruct (min_end_in act Hn) as (c & Hc & Hfe).
  destruct (all_cur_In_inv ss act c Ha Hc) as (m & Hm & Hcm). exists m, c.
  split; [exact Hm|]. split; [exact Hcm|]. split; [exact Hfe|].
  specialize (Hno m Hm). unfold ends_at in Hno. rewrite Hcm in Hno.
  destruct (exh m); [reflexivity|]. cbn [negb] in Hno. lia.
Qed.

Lemma covers_sorted_ge x r t :
  sorted_start (x :: r) -> covers (x :: r) t = true -> fstart x <= t.
Proof.
  intros [Hx _] Hc. apply covers_true_iff in Hc as (y & [<-|Hy] & Hin); unfold inside in Hin; [lia|].
  specialize (Hx y Hy). lia.
Qed.

Lemma loop_cover sel : forall f ss out act,
  has_sel sel (length ss) -> Forall st_ok ss -> all_cur ss = Some act ->
  Forall (lpc_ok (max_start act) (min_end act)) ss ->
  inter_loop f sel ss = Some out ->
  forall t, covers out t =
            inT ss t && negb ((max_start act <=? t) && (t <? min_end act) &&
                              sel_done (min_end act) sel 0 ss).
Proof.
  induction f as [|f IH]; intros ss out act Hsel Hok Ha Hl H t; [discriminate|].
  destruct (loop_step f sel ss act out Ha H) as (ss1 & out1 & E1 & Hcase). cbv zeta in *.
  set (os := max_start act) in *. set (oe := min_end act) in *.
  destruct (emit_phase_cover os oe sel ss act ss1 out1 Ha E1) as [Hc1 Hd1].
  apply emit_phase in E1 as [E1 _].
  assert (Hok1 : Forall st_ok ss1).
  { eapply Forall_emit_rel; [|exact E1|exact Hok]. intros; eapply st_ok_emit; eauto. }
  assert (Hl1 : Forall (lpc_ok os oe) ss1).
  { eapply Forall_emit_rel; [|exact E1|exact Hl]. intros; eapply lpc_ok_emit; eauto. }
  assert (Ha1 : all_cur ss1 = Some act) by (rewrite (emit_rel_all_cur _ _ _ E1); exact Ha).
  assert (Hlen1 : length ss1 = length ss) by (symmetry; eapply Forall2_len; exact E1).
  assert (Hn : act <> []).
  { intro Hnil. apply all_cur_length in Ha. rewrite Hnil in Ha. cbn [length] in Ha.
    destruct Hsel as (i & Hi & _). lia. }
  assert (Hred : forall R : bool,
            R = inT ss1 t && negb ((os <=? t) && (t <? oe)) ->
            covers out1 t || R = inT ss t && negb ((os <=? t) && (t <? oe) && sel_done oe sel 0 ss)).
  { intros R ->. rewrite Hc1, (inT_emit oe ss ss1 t E1).
    destruct ((os <=? t) && (t <? oe)) eqn:Er.
    - rewrite (inT_region ss act t Ha) by (fold os oe; lia).
      destruct (sel_done oe sel 0 ss); reflexivity.
    - cbn [andb negb orb]. rewrite andb_true_r. reflexivity. }
  (* an instant of the remaining common coverage that precedes the cutoff is in the region *)
  assert (Hin_reg : inT ss1 t = true -> t < oe -> (os <=? t) && (t <? oe) = true).
  { intros HT Ht. pose proof (inT_before ss1 act t Hok1 Ha1 Hn HT Ht) as Hbef. fold os in Hbef. lia. }
  assert (Hexh_reg : (forall s0, In s0 ss1 -> ends_at oe s0 = false) ->
                     inT ss1 t = true -> t < oe).
  { intros Hno HT. destruct (exhausted_at_cutoff ss1 act Ha1 Hn Hno) as (m & c & Hm & Hcm & Hfe & Hex).
    fold oe in Hfe. rewrite <- Hfe. eapply inT_exhausted; eauto. }
  destruct Hcase as [[-> Hno]|(l1 & s & l2 & o & -> & He & Hloop & -> & Hwhy)].
  - (* the loop stops *)
    rewrite <- (orb_false_r (covers out1 t)). apply Hred.
    destruct (inT ss1 t) eqn:HT; [|reflexivity].
    rewrite (Hin_reg eq_refl (Hexh_reg Hno eq_refl)). reflexivity.
  - (* one state is advanced *)
    destruct (adv_inv l1 s l2 act Hok1 Ha1 Hl1 He)
      as (act' & Ha3 & Hok3 & Hl3 & M1 & M2 & Hnil & Hcons).
    fold os in M1, Hcons. fold oe in M2, Hcons.
    assert (Hsel3 : has_sel sel (length (l1 ++ fst (advance s) :: l2))).
    { rewrite app_length in *. cbn [length] in *. rewrite <- Hlen1 in Hsel. exact Hsel. }
    rewrite covers_app. apply Hred.
    rewrite (IH _ _ _ Hsel3 Hok3 Ha3 Hl3 Hloop t).
    assert (Hs : st_ok s).
    { apply Forall_app in Hok1 as [_ Hok1]. inversion Hok1; subst; assumption. }
    destruct Hs as (c & Hc & Hwf & Hdj & _).
    destruct (rest s) as [|x r] eqn:Er.
    + (* the state becomes exhausted: same tuple of currents *)
      destruct (Hnil eq_refl) as [-> Hlpc]. fold os oe.
      rewrite (sel_done_replace oe sel s _ l2 l1 O Hlpc).
      assert (HT3 : inT (l1 ++ fst (advance s) :: l2) t = inT (l1 ++ s :: l2) t).
      { rewrite !inT_app, !inT_cons. unfold advance. rewrite He, Er. cbn [fst].
        unfold remaining. cbn [cur rest]. rewrite Hc, Er. reflexivity. }
      rewrite HT3. destruct ((os <=? t) && (t <? oe)) eqn:Erg; [|reflexivity].
      rewrite Hd1 by lia. reflexivity.
    + (* the state moves to its next event x *)
      assert (Hne : x :: r <> []) by discriminate. specialize (Hcons Hne).
      assert (Hadv : fst (advance s) = mkS (Some x) r false None).
      { unfold advance. rewrite He, Er. reflexivity. }
      assert (Hdone3 : (max_start act' <=? t) && (t <? min_end act') &&
                       sel_done (min_end act') sel 0 (l1 ++ fst (advance s) :: l2) = false).
      { destruct (Z.eq_dec (min_end act') oe) as [Heq|Hneq].
        - replace ((max_start act' <=? t) && (t <? min_end act')) with false by lia. reflexivity.
        - rewrite (sel_done_false (min_end act') sel _ os oe Hsel3); [apply andb_false_r| |lia].
          eapply Forall_replace; [exact Hl1|]. rewrite Hadv. intros p Hp. discriminate. }
      rewrite Hdone3. cbn [negb]. rewrite andb_true_r.
      pose proof Hwf as Hwf0. inversion Hwf as [|? ? Hwc Hwf']; subst.
      destruct Hdj as [Hcx Hdj']. specialize (Hcx x (or_introl eq_refl)).
      assert (Hc_in : In c act).
      { destruct (all_cur_In _ _ s Ha1) as (c0 & Hc0 & Hin0); [apply in_or_app; right; left; reflexivity|].
        rewrite Hc in Hc0. injection Hc0 as <-. exact Hin0. }
      pose proof (min_end_le act c Hc_in) as Hoe. fold oe in Hoe.
      rewrite !inT_app, !inT_cons. rewrite Hadv. unfold remaining. cbn [cur rest].
      rewrite Hc, Er. rewrite (covers_cons c (x :: r)).
      destruct (covers (x :: r) t) eqn:Ecx.
      * (* t is at or after the start of x, hence at or after the cutoff *)
        pose proof (covers_sorted_ge x r t (disjoint_sorted_sorted _ Hwf' Hdj') Ecx) as Hge.
        replace ((os <=? t) && (t <? oe)) with false by lia.
        rewrite orb_true_r. cbn [negb]. rewrite andb_true_r. reflexivity.
      * rewrite orb_false_r. cbn [andb]. rewrite andb_false_r.
        destruct (inT l1 t && (inside c t && inT l2 t)) eqn:E3; [|reflexivity].
        (* t is covered by c and by every other operand: it precedes the cutoff *)
        apply andb_true_iff in E3 as [T1 T23]. apply andb_true_iff in T23 as [Ti T2].
        assert (HT1 : inT (l1 ++ s :: l2) t = true).
        { rewrite inT_app, inT_cons, T1, T2. unfold remaining. rewrite Hc, covers_cons, Ti. reflexivity. }
        assert (Hlt : t < oe).
        { destruct Hwhy as [Hends|[_ Hno]].
          - unfold ends_at in Hends. rewrite Hc in Hends. unfold inside in Ti. lia.
          - apply (Hexh_reg Hno HT1). }
        rewrite (Hin_reg HT1 Hlt). reflexivity.
Qed.

Lemma remaining_init l : remaining (init_state l) = l.
Proof. unfold init_state, advance, remaining. cbn [exh rest]. destruct l; reflexivity. Qed.

Lemma inT_init streams t : inT (map init_state streams) t = forallb (fun l => covers l t) streams.
Proof.
  induction streams as [|l r IH]; [reflexivity|]. cbn [map forallb]. rewrite inT_cons, remaining_init, IH.
  reflexivity.
Qed.

Lemma inter_sweep_opt_nonempty streams sel :
  (2 <= length streams)%nat -> Forall (fun l => l <> []) streams ->
  inter_sweep_opt streams sel =
    inter_loop (S (ss_measure (map init_state streams))) sel (map init_state streams).
Proof.
  intros Hk Hne. unfold inter_sweep_opt.
  destruct streams as [|a [|b r]]; cbn [length] in Hk; try lia.
  inversion Hne as [|? ? Ha _]; subst. destruct a as [|x a']; [congruence|]. reflexivity.
Qed.

Theorem inter_sweep_cover streams sel :
  (2 <= length streams)%nat ->
  Forall (Forall wf_ivl) streams -> Forall disjoint_sorted streams ->
  (exists i, (i < length streams)%nat /\ sel i = true) ->
  forall t, covers (inter_sweep streams sel) t = forallb (fun l => covers l t) streams.
Proof.
  intros Hk Hwf Hdj Hsel t. unfold inter_sweep.
  destruct (loop_total sel (S (ss_measure (map init_state streams))) (map init_state streams))
    as [o Ho]; [lia|].
  destruct (nonempty_dec streams) as [Hne|Hex].
  - rewrite (inter_sweep_opt_nonempty streams sel Hk Hne), Ho.
    destruct (init_inv streams Hne Hwf Hdj) as (I1 & I2 & act & I3).
    assert (Hsel' : has_sel sel (length (map init_state streams))) by (rewrite map_length; exact Hsel).
    rewrite (loop_cover sel _ _ o act Hsel' I1 I3 (I2 _ _) Ho t).
    rewrite (sel_done_false (min_end act) sel _ 0 (min_end act - 1) Hsel' (I2 _ _)) by lia.
    rewrite andb_false_r. cbn [negb]. rewrite andb_true_r. apply inT_init.
  - assert (Hrhs : forallb (fun l => covers l t) streams = false).
    { clear - Hex. induction Hex as [l r Hl|l r Hr IH]; cbn [forallb].
      - subst l. reflexivity.
      - rewrite IH. apply andb_false_r. }
    rewrite Hrhs. destruct (inter_sweep_opt_loop streams sel Hk) as [E|E]; rewrite E; [reflexivity|].
    rewrite Ho. rewrite (loop_none _ _ _ _ (init_empty _ Hex) Ho). reflexivity.
Qed.

(* ------------------------------------------------------------------------------------ *)
(* (D) per-event exactness on internally disjoint operands: the output is a permutation of
   "for every choice of one event per operand with a non-empty common part, one trimmed copy
   of the chosen event of every selected operand" *)

Fixpoint tup_emit (os oe : Z) (sel : nat -> bool) (i : nat) (cs : list ivl) : list ivl :=
  match cs with
  | [] => []
  | c :: r => (if sel i then [set_span c (unS os) (unE oe)] else []) ++ tup_emit os oe sel (S i) r
  end.

Definition ref_tuple (sel : nat -> bool) (cs : list ivl) : list ivl :=
  if max_start cs <? min_end cs then tup_emit (max_start cs) (min_end cs) sel 0 cs else [].

Definition inter_ref' (sel : nat -> bool) (streams : list (list ivl)) : list ivl :=
  flat_map (ref_tuple sel) (choices streams).

(* ---- generic facts on flat_map over choices ---- *)

Definition G {A} (f : list ivl -> list A) (L : list (list ivl)) : list A := flat_map f (choices L).

Lemma flat_map_nil {A B} (g : A -> list B) l : (forall x, In x l -> g x = []) -> flat_map g l = [].
Proof.
  induction l as [|a l IH]; intro H; [reflexivity|]. cbn [flat_map].
  rewrite (H a (or_introl eq_refl)), IH; [reflexivity|]. intros x Hx. apply H. right; exact Hx.
Qed.

Lemma flat_map_map_cons {A} (f : list ivl -> list A) (x : ivl) l :
  flat_map f (map (cons x) l) = flat_map (fun cs => f (x :: cs)) l.
Proof. induction l as [|a l IH]; [reflexivity|]. cbn [map flat_map]. rewrite IH. reflexivity. Qed.

Lemma G_nil {A} (f : list ivl -> list A) : G f [] = f [].
Proof. unfold G. cbn [choices flat_map]. apply app_nil_r. Qed.

Lemma G_cons {A} (f : list ivl -> list A) l R :
  G f (l :: R) = flat_map (fun x => G (fun cs => f (x :: cs)) R) l.
Proof.
  unfold G. cbn [choices]. induction l as [|a l IH]; [reflexivity|].
  cbn [flat_map]. rewrite flat_map_app, IH, flat_map_map_cons. reflexivity.
Qed.

Definition tuple_in (cs : list ivl) (L : list (list ivl)) : Prop := Forall2 (fun y l => In y l) cs L.

Lemma G_all_nil {A} : forall L (f : list ivl -> list A),
  (forall cs, tuple_in cs L -> f cs = []) -> G f L = [].
Proof.
  induction L as [|l R IH]; intros f H.
  - rewrite G_nil. apply H. constructor.
  - rewrite G_cons. apply flat_map_nil. intros x Hx. apply IH. intros cs Hcs. apply H.
    constructor; assumption.
Qed.

Lemma G_empty {A} : forall L (f : list ivl -> list A), Exists (fun l => l = []) L -> G f L = [].
Proof.
  intros L f H. revert f. induction H as [l R Hl|l R HR IH]; intro f; rewrite G_cons.
  - subst l. reflexivity.
  - apply flat_map_nil. intros x _. apply IH.
Qed.

Fixpoint has_tail (cs : list ivl) (L : list (list ivl)) : Prop :=
  match cs, L with
  | y :: cs', l :: L' => In y (tl l) \/ has_tail cs' L'
  | _, _ => False
  end.

(* if every tuple that uses a non-head element contributes nothing, only the tuple of heads counts *)
Lemma G_heads {A} : forall act L (f : list ivl -> list A),
  Forall2 (fun c l => exists r, l = c :: r) act L ->
  (forall cs, tuple_in cs L -> has_tail cs L -> f cs = []) -> G f L = f act.
Proof.
  intros act L f H. revert f. induction H as [|c l act L [r ->] HR IH]; intros f Hf.
  - apply G_nil.
  - rewrite G_cons. cbn [flat_map]. rewrite (flat_map_nil _ r).
    + rewrite app_nil_r. apply IH. intros cs Hcs Ht. apply Hf.
      * constructor; [left; reflexivity|exact Hcs].
      * right. exact Ht.
    + intros x Hx. apply G_all_nil. intros cs Hcs. apply Hf.
      * constructor; [right; exact Hx|exact Hcs].
      * left. exact Hx.
Qed.

Lemma flat_map_perm_pointwise {A B} (g h : A -> list B) l :
  (forall x, In x l -> Permutation (g x) (h x)) -> Permutation (flat_map g l) (flat_map h l).
Proof.
  induction l as [|a l IH]; intro H; [constructor|]. cbn [flat_map]. apply Permutation_app.
  - apply H. left; reflexivity.
  - apply IH. intros x Hx. apply H. right; exact Hx.
Qed.

Lemma flat_map_app_perm {A B} (g h : A -> list B) l :
  Permutation (flat_map (fun x => g x ++ h x) l) (flat_map g l ++ flat_map h l).
Proof.
  induction l as [|a l IH]; [constructor|]. cbn [flat_map].
  rewrite <- !app_assoc. apply Permutation_app_head.
  eapply Permutation_trans; [apply Permutation_app_head; exact IH|].
  rewrite !app_assoc. apply Permutation_app_tail. apply Permutation_app_comm.
Qed.

(* splitting the choices at one operand: its first event, or one of the others *)
Lemma G_split {A} c l L2 : forall L1 (f : list ivl -> list A),
  Permutation (G f (L1 ++ (c :: l) :: L2)) (G f (L1 ++ [c] :: L2) ++ G f (L1 ++ l :: L2)).
Proof.
  induction L1 as [|a L1 IH]; intro f; cbn [app]; rewrite !G_cons.
  - cbn [flat_map]. rewrite app_nil_r. apply Permutation_refl.
  - eapply Permutation_trans; [|apply flat_map_app_perm].
    apply flat_map_perm_pointwise. intros x _. apply IH.
Qed.

(* ---- the emission phase, per operand ---- *)

(* emissions of the present region already made: the selected operands processed at [oe] *)
Fixpoint done_emit (os oe : Z) (sel : nat -> bool) (i : nat) (ss : list sstate) : list ivl :=
  match ss with
  | [] => []
  | s :: r =>
    (match cur s with
     | Some c => if sel i && lpc_is s oe then [set_span c (unS os) (unE oe)] else []
     | None => []
     end) ++ done_emit os oe sel (S i) r
  end.

Definition done_of (sel : nat -> bool) (ss : list sstate) (act : list ivl) : list ivl :=
  if max_start act <? min_end act then done_emit (max_start act) (min_end act) sel 0 ss else [].

Lemma emit_perm os oe sel : forall ss i act ss1 out1,
  all_cur ss = Some act -> emit os oe sel i ss = (ss1, out1) ->
  Permutation (done_emit os oe sel i ss ++ out1) (tup_emit os oe sel i act) /\
  done_emit os oe sel i ss1 = tup_emit os oe sel i act.
Proof.
  induction ss as [|s r IH]; intros i act ss1 out1 Ha H; cbn [emit] in H.
  - injection H as <- <-. cbn in Ha. injection Ha as <-. split; [constructor|reflexivity].
  - rewrite all_cur_cons in Ha. destruct (cur s) as [c|] eqn:Ec; [|discriminate].
    destruct (all_cur r) as [act'|] eqn:Ea; [|discriminate]. injection Ha as <-.
    destruct (emit os oe sel (S i) r) as [r' o] eqn:E.
    destruct (IH (S i) act' r' o eq_refl E) as [IP ID].
    cbn [done_emit tup_emit]. rewrite Ec.
    destruct (sel i) eqn:Es; destruct (lpc_is s oe) eqn:El; cbn [andb negb] in *;
      injection H as <- <-; cbn [done_emit]; rewrite ?Ec; cbn [cur]; rewrite ?Es, ?El; cbn [andb app].
    + split; [apply perm_skip; exact IP|rewrite ID; reflexivity].
    + unfold lpc_is. cbn [lpc]. rewrite Z.eqb_refl. split.
      * eapply Permutation_trans; [symmetry; apply Permutation_middle|apply perm_skip; exact IP].
      * cbn [app]. rewrite ID. reflexivity.
    + split; [exact IP|rewrite ID; reflexivity].
    + split; [exact IP|rewrite ID; reflexivity].
Qed.

Lemma done_emit_nil os oe sel : forall ss i,
  Forall (fun s => lpc_is s oe = false) ss -> done_emit os oe sel i ss = [].
Proof.
  induction ss as [|s r IH]; intros i H; [reflexivity|]. inversion H as [|? ? Hs Hr]; subst.
  cbn [done_emit]. rewrite (IH (S i) Hr), Hs, andb_false_r. destruct (cur s); reflexivity.
Qed.

Lemma done_emit_replace os oe sel s s' l2 : forall l1 i,
  cur s' = cur s -> lpc s' = lpc s ->
  done_emit os oe sel i (l1 ++ s' :: l2) = done_emit os oe sel i (l1 ++ s :: l2).
Proof.
  induction l1 as [|x l1 IH]; intros i Hc Hl; cbn [app done_emit].
  - unfold lpc_is. rewrite Hc, Hl. reflexivity.
  - rewrite (IH (S i) Hc Hl). reflexivity.
Qed.

Lemma remaining_emit oe ss ss1 : Forall2 (emit_rel oe) ss ss1 -> map remaining ss1 = map remaining ss.
Proof.
  induction 1 as [|s s1 ss ss1 Hs Hr IH]; [reflexivity|]. cbn [map]. rewrite IH.
  destruct Hs as (E1 & E2 & _). unfold remaining. rewrite E1, E2. reflexivity.
Qed.

(* ---- tuples that use a later event of some operand have an empty common part ---- *)

Definition heads_rel (c : ivl) (l : list ivl) : Prop :=
  exists r, l = c :: r /\ forall y, In y r -> fend c <= fstart y.

Lemma st_ok_heads : forall ss act,
  Forall st_ok ss -> all_cur ss = Some act -> Forall2 heads_rel act (map remaining ss).
Proof.
  induction ss as [|s r IH]; intros act Hok Ha.
  - cbn in Ha. injection Ha as <-. constructor.
  - rewrite all_cur_cons in Ha. destruct (cur s) as [c|] eqn:Ec; [|discriminate].
    destruct (all_cur r) as [act'|] eqn:Ea; [|discriminate]. injection Ha as <-.
    inversion Hok as [|? ? Hs Hr]; subst. cbn [map]. constructor; [|apply IH; auto].
    destruct Hs as (c' & Hc' & _ & [Hd _] & _). rewrite Ec in Hc'. injection Hc' as <-.
    exists (rest s). unfold remaining. rewrite Ec. auto.
Qed.

Lemma has_tail_late : forall act L, Forall2 heads_rel act L ->
  forall cs, has_tail cs L -> exists y c, In y cs /\ In c act /\ fend c <= fstart y.
Proof.
  induction 1 as [|c l act L (r & -> & Hr) HR IH]; intros cs Ht.
  - destruct cs; destruct Ht.
  - destruct cs as [|y cs]; [destruct Ht|]. cbn [has_tail tl] in Ht. destruct Ht as [Hy|Ht].
    + exists y, c. split; [left; reflexivity|]. split; [left; reflexivity|]. apply Hr; exact Hy.
    + destruct (IH cs Ht) as (y0 & c0 & H1 & H2 & H3). exists y0, c0.
      split; [right; exact H1|]. split; [right; exact H2|exact H3].
Qed.

Lemma tuple_in_single oe : forall cs L,
  tuple_in cs L -> Exists (fun l => exists c, l = [c] /\ fend c <= oe) L ->
  exists y, In y cs /\ fend y <= oe.
Proof.
  induction 1 as [|y l cs L Hy HR IH]; intro He; inversion He as [? ? (c & -> & Hc)|? ? He']; subst.
  - destruct Hy as [<-|[]]. exists c. split; [left; reflexivity|exact Hc].
  - destruct (IH He') as (y0 & H1 & H2). exists y0. split; [right; exact H1|exact H2].
Qed.

Lemma tail_tuple_empty sel act L cs :
  Forall2 heads_rel act L ->
  Exists (fun l => exists c, l = [c] /\ fend c <= min_end act) L ->
  tuple_in cs L -> has_tail cs L -> ref_tuple sel cs = [].
Proof.
  intros HL Hq Hin Ht. destruct (has_tail_late act L HL cs Ht) as (y & c & Hy & Hc & Hcy).
  destruct (tuple_in_single _ cs L Hin Hq) as (z & Hz & Hze).
  pose proof (max_start_ge cs y Hy). pose proof (min_end_le cs z Hz). pose proof (min_end_le act c Hc).
  unfold ref_tuple. replace (max_start cs <? min_end cs) with false by lia. reflexivity.
Qed.

Lemma heads_rel_weaken act L : Forall2 heads_rel act L -> Forall2 (fun c l => exists r, l = c :: r) act L.
Proof.
  induction 1 as [|c l act L (r & -> & _) HR IH]; constructor; [exists r; reflexivity|exact IH].
Qed.

Lemma loop_exact sel : forall f ss out act,
  Forall st_ok ss -> all_cur ss = Some act -> act <> [] ->
  Forall (lpc_ok (max_start act) (min_end act)) ss ->
  inter_loop f sel ss = Some out ->
  Permutation (done_of sel ss act ++ out) (G (ref_tuple sel) (map remaining ss)).
Proof.
  induction f as [|f IH]; intros ss out act Hok Ha Hn Hl H; [discriminate|].
  destruct (loop_step f sel ss act out Ha H) as (ss1 & out1 & E1 & Hcase). cbv zeta in *.
  set (os := max_start act) in *. set (oe := min_end act) in *.
  assert (Hph : Permutation (done_of sel ss act ++ out1) (done_of sel ss1 act) /\
                done_of sel ss1 act = ref_tuple sel act).
  { unfold done_of, ref_tuple. fold os oe. destruct (os <? oe) eqn:Eo.
    - destruct (emit_perm os oe sel ss O act ss1 out1 Ha E1) as [P1 P2].
      split; [rewrite P2; exact P1|exact P2].
    - injection E1 as <- <-. split; [constructor|reflexivity]. }
  destruct Hph as [Hperm Href].
  apply emit_phase in E1 as [E1 _].
  assert (Hok1 : Forall st_ok ss1).
  { eapply Forall_emit_rel; [|exact E1|exact Hok]. intros; eapply st_ok_emit; eauto. }
  assert (Hl1 : Forall (lpc_ok os oe) ss1).
  { eapply Forall_emit_rel; [|exact E1|exact Hl]. intros; eapply lpc_ok_emit; eauto. }
  assert (Ha1 : all_cur ss1 = Some act) by (rewrite (emit_rel_all_cur _ _ _ E1); exact Ha).
  rewrite <- (remaining_emit oe ss ss1 E1).
  pose proof (st_ok_heads ss1 act Hok1 Ha1) as HL.
  (* an exhausted state ending at the cutoff gives a singleton operand *)
  assert (Hsingle : forall m c, cur m = Some c -> fend c = oe -> exh m = true -> st_ok m ->
                    exists c0, remaining m = [c0] /\ fend c0 <= oe).
  { intros m c Hcm Hfe Hex (c' & Hc' & _ & _ & Hrest). exists c. unfold remaining.
    rewrite Hcm, (Hrest Hex). split; [reflexivity|lia]. }
  destruct Hcase as [[-> Hno]|(l1 & s & l2 & o & -> & He & Hloop & -> & Hwhy)].
  - (* the loop stops: every other tuple is empty *)
    eapply Permutation_trans; [exact Hperm|]. rewrite Href.
    rewrite (G_heads act _ (ref_tuple sel) (heads_rel_weaken _ _ HL)); [apply Permutation_refl|].
    intros cs Hin Ht. eapply tail_tuple_empty; [exact HL| |exact Hin|exact Ht].
    destruct (exhausted_at_cutoff ss1 act Ha1 Hn Hno) as (m & c & Hm & Hcm & Hfe & Hex).
    apply Exists_exists. exists (remaining m). split; [apply in_map; exact Hm|].
    rewrite Forall_forall in Hok1. apply (Hsingle m c Hcm Hfe Hex (Hok1 m Hm)).
  - destruct (adv_inv l1 s l2 act Hok1 Ha1 Hl1 He)
      as (act' & Ha3 & Hok3 & Hl3 & M1 & M2 & Hnil & Hcons).
    fold os in M1, Hcons. fold oe in M2, Hcons.
    assert (Hn3 : act' <> []).
    { intro Hnil'. apply all_cur_length in Ha3. rewrite Hnil', app_length in Ha3.
      cbn [length] in Ha3. lia. }
    pose proof (IH _ _ _ Hok3 Ha3 Hn3 Hl3 Hloop) as IHo.
    rewrite app_assoc. eapply Permutation_trans; [apply Permutation_app_tail; exact Hperm|].
    assert (Hs : st_ok s).
    { apply Forall_app in Hok1 as [_ Hok1']. inversion Hok1'; subst; assumption. }
    destruct Hs as (c & Hc & Hwf & Hdj & _).
    destruct (rest s) as [|x r] eqn:Er.
    + (* the state becomes exhausted: nothing else changes *)
      destruct (Hnil eq_refl) as [-> Hlpc].
      assert (Hadv : fst (advance s) = mkS (cur s) [] true (lpc s)).
      { unfold advance. rewrite He, Er. reflexivity. }
      assert (Hrem : map remaining (l1 ++ fst (advance s) :: l2) = map remaining (l1 ++ s :: l2)).
      { assert (Hr' : remaining (fst (advance s)) = remaining s).
        { rewrite Hadv. unfold remaining. cbn [cur rest]. rewrite Er. reflexivity. }
        rewrite !map_app. cbn [map]. rewrite Hr'. reflexivity. }
      assert (Hdone : done_of sel (l1 ++ fst (advance s) :: l2) act = done_of sel (l1 ++ s :: l2) act).
      { unfold done_of. destruct (max_start act <? min_end act); [|reflexivity].
        apply done_emit_replace; [rewrite Hadv; reflexivity|exact Hlpc]. }
      rewrite Hrem, Hdone in IHo. exact IHo.
    + (* the state moves to its next event x *)
      assert (Hne : x :: r <> []) by discriminate. specialize (Hcons Hne).
      assert (Hadv : fst (advance s) = mkS (Some x) r false None).
      { unfold advance. rewrite He, Er. reflexivity. }
      assert (Hdone3 : done_of sel (l1 ++ fst (advance s) :: l2) act' = []).
      { unfold done_of. destruct (max_start act' <? min_end act') eqn:Eo'; [|reflexivity].
        apply done_emit_nil.
        assert (Hl3' : Forall (lpc_ok os oe) (l1 ++ fst (advance s) :: l2)).
        { eapply Forall_replace; [exact Hl1|]. rewrite Hadv. intros p Hp. discriminate. }
        eapply Forall_impl; [|exact Hl3']. intros s0 Hs0. unfold lpc_is.
        destruct (lpc s0) as [p|] eqn:Ep; [|reflexivity]. destruct (Hs0 p Ep) as [Hle _]. lia. }
      rewrite Hdone3 in IHo. cbn [app] in IHo.
      assert (Hrem1 : map remaining (l1 ++ s :: l2) =
                      map remaining l1 ++ (c :: x :: r) :: map remaining l2).
      { assert (Hr' : remaining s = c :: x :: r) by (unfold remaining; rewrite Hc, Er; reflexivity).
        rewrite map_app. cbn [map]. rewrite Hr'. reflexivity. }
      assert (Hrem3 : map remaining (l1 ++ fst (advance s) :: l2) =
                      map remaining l1 ++ (x :: r) :: map remaining l2).
      { rewrite map_app. cbn [map]. rewrite Hadv. reflexivity. }
      rewrite Hrem1. rewrite Hrem3 in IHo.
      eapply Permutation_trans; [|symmetry; apply G_split].
      rewrite Hrem1 in HL.
      assert (HL' : Forall2 heads_rel act (map remaining l1 ++ [c] :: map remaining l2)).
      { eapply Forall2_replace; [exact HL|]. intros a (r0 & Er0 & _). injection Er0 as <- _.
        exists []. split; [reflexivity|intros y []]. }
      rewrite (G_heads act _ (ref_tuple sel) (heads_rel_weaken _ _ HL')).
      * rewrite Href. apply Permutation_app_head. exact IHo.
      * intros cs Hin Ht. eapply tail_tuple_empty; [exact HL'| |exact Hin|exact Ht].
        destruct Hwhy as [Hends|[_ Hno]].
        -- apply Exists_app. right. left. exists c. split; [reflexivity|].
           unfold ends_at in Hends. rewrite Hc in Hends. fold oe. lia.
        -- destruct (exhausted_at_cutoff _ act Ha1 Hn Hno) as (m & cm & Hm & Hcm & Hfe & Hex).
           rewrite Forall_forall in Hok1. pose proof (Hsingle m cm Hcm Hfe Hex (Hok1 m Hm)) as Hsm.
           apply Exists_exists. exists (remaining m). split; [|exact Hsm].
           apply in_app_or in Hm as [Hm|[Hm|Hm]].
           ++ apply in_or_app. left. apply in_map. exact Hm.
           ++ subst m. congruence.
           ++ apply in_or_app. right. right. apply in_map. exact Hm.
Qed.

Theorem inter_sweep_exact streams sel :
  (2 <= length streams)%nat ->
  Forall (Forall wf_ivl) streams -> Forall disjoint_sorted streams ->
  Permutation (inter_sweep streams sel) (inter_ref' sel streams).
Proof.
  intros Hk Hwf Hdj. unfold inter_sweep.
  destruct (loop_total sel (S (ss_measure (map init_state streams))) (map init_state streams))
    as [o Ho]; [lia|].
  destruct (nonempty_dec streams) as [Hne|Hex].
  - rewrite (inter_sweep_opt_nonempty streams sel Hk Hne), Ho.
    destruct (init_inv streams Hne Hwf Hdj) as (I1 & I2 & act & I3).
    assert (Hn : act <> []).
    { intro Hnil. apply all_cur_length in I3. rewrite Hnil, map_length in I3. cbn [length] in I3. lia. }
    pose proof (loop_exact sel _ _ o act I1 I3 Hn (I2 _ _) Ho) as HP.
    assert (Hd0 : done_of sel (map init_state streams) act = []).
    { unfold done_of. destruct (max_start act <? min_end act); [|reflexivity].
      apply done_emit_nil. apply Forall_forall. intros s Hs. apply in_map_iff in Hs as (l & <- & _).
      unfold lpc_is. rewrite init_lpc. reflexivity. }
    rewrite Hd0 in HP. cbn [app] in HP.
    assert (Hrem : map remaining (map init_state streams) = streams).
    { rewrite map_map. rewrite <- (map_id streams) at 2. apply map_ext. apply remaining_init. }
    rewrite Hrem in HP. exact HP.
  - unfold inter_ref'. fold (G (ref_tuple sel) streams). rewrite (G_empty streams _ Hex).
    destruct (inter_sweep_opt_loop streams sel Hk) as [E|E]; rewrite E; [constructor|].
    rewrite Ho. rewrite (loop_none _ _ _ _ (init_empty _ Hex) Ho). constructor.
Qed.

(* ------------------------------------------------------------------------------------ *)
(* (E) the reference of (D) is, up to order, the per-event reference semantics inter_ref of
   Spec/Sets.v (on internally disjoint operands, where its de-duplication of regions is void) *)

Lemma NoDup_app_intro {A} (l1 l2 : list A) :
  NoDup l1 -> NoDup l2 -> (forall x, In x l1 -> ~ In x l2) -> NoDup (l1 ++ l2).
Proof.
  induction l1 as [|a l1 IH]; intros H1 H2 H12; [exact H2|]. inversion H1 as [|? ? Ha Hl1]; subst.
  cbn [app]. constructor.
  - intro Hin. apply in_app_or in Hin as [Hin|Hin]; [exact (Ha Hin)|].
    exact (H12 a (or_introl eq_refl) Hin).
  - apply IH; [exact Hl1|exact H2|]. intros x Hx. apply H12. right; exact Hx.
Qed.

Lemma NoDup_flat_map_intro {A B} (g : A -> list B) l :
  NoDup l -> (forall a, In a l -> NoDup (g a)) ->
  (forall a b z, In a l -> In b l -> In z (g a) -> In z (g b) -> a = b) ->
  NoDup (flat_map g l).
Proof.
  induction l as [|a l IH]; intros Hl Hg Hinj; [constructor|]. inversion Hl as [|? ? Ha Hl']; subst.
  cbn [flat_map]. apply NoDup_app_intro.
  - apply Hg. left; reflexivity.
  - apply IH; [exact Hl'| |].
    + intros b Hb. apply Hg. right; exact Hb.
    + intros b c z Hb Hc. apply Hinj; right; assumption.
  - intros z Hz Hz'. apply in_flat_map in Hz' as (b & Hb & Hzb).
    assert (a = b) by (eapply Hinj; [left; reflexivity|right; exact Hb|exact Hz|exact Hzb]).
    subst b. exact (Ha Hb).
Qed.

Lemma NoDup_map_cons {A} (x : A) l : NoDup l -> NoDup (map (cons x) l).
Proof.
  induction 1 as [|a l Ha Hl IH]; cbn [map]; constructor; [|exact IH].
  intro Hin. apply in_map_iff in Hin as (b & Eb & Hb). injection Eb as ->. exact (Ha Hb).
Qed.

Lemma choices_in : forall L cs, In cs (choices L) -> tuple_in cs L.
Proof.
  induction L as [|l R IH]; intros cs H; cbn [choices] in H.
  - destruct H as [<-|[]]. constructor.
  - apply in_flat_map in H as (x & Hx & H). apply in_map_iff in H as (cs' & <- & Hcs').
    constructor; [exact Hx|apply IH; exact Hcs'].
Qed.

Lemma NoDup_choices : forall L, Forall (@NoDup ivl) L -> NoDup (choices L).
Proof.
  induction L as [|l R IH]; intro H; cbn [choices].
  - constructor; [intros []|constructor].
  - inversion H as [|? ? Hl HR]; subst. apply NoDup_flat_map_intro.
    + exact Hl.
    + intros a _. apply NoDup_map_cons. apply IH; exact HR.
    + intros a b z _ _ Ha Hb. apply in_map_iff in Ha as (ca & <- & _).
      apply in_map_iff in Hb as (cb & Eb & _). injection Eb as -> _. reflexivity.
Qed.

Lemma disjoint_NoDup l : Forall wf_ivl l -> disjoint_sorted l -> NoDup l.
Proof.
  induction l as [|x r IH]; intros Hwf Hd; [constructor|]. inversion Hwf as [|? ? Hx Hr]; subst.
  destruct Hd as [Hxr Hd]. constructor; [|apply IH; assumption].
  intro Hin. specialize (Hxr x Hin). destruct Hx as (_ & Hx & _). lia.
Qed.

Lemma disjoint_unique l : Forall wf_ivl l -> disjoint_sorted l ->
  forall a b t, In a l -> In b l -> inside a t = true -> inside b t = true -> a = b.
Proof.
  induction l as [|x r IH]; intros Hwf Hd a b t Ha Hb Ia Ib; [destruct Ha|].
  inversion Hwf as [|? ? Hwx Hwr]; subst. destruct Hd as [Hx Hr].
  destruct Ha as [<-|Ha]; destruct Hb as [<-|Hb].
  - reflexivity.
  - exfalso. specialize (Hx b Hb). unfold inside in *. lia.
  - exfalso. specialize (Hx a Ha). unfold inside in *. lia.
  - eapply IH; eauto.
Qed.

Lemma tuple_unique : forall L, Forall (Forall wf_ivl) L -> Forall disjoint_sorted L ->
  forall c c' t, tuple_in c L -> tuple_in c' L ->
  (forall y, In y c -> inside y t = true) -> (forall y, In y c' -> inside y t = true) -> c = c'.
Proof.
  intros L Hwf Hd c c' t Hc. revert c' Hwf Hd.
  induction Hc as [|y l c L Hy Hc IH]; intros c' Hwf Hd Hc' Hi Hi'; inversion Hc' as [|y' ? c'' ? Hy' Hc'']; subst.
  - reflexivity.
  - inversion Hwf; subst. inversion Hd; subst. f_equal.
    + eapply disjoint_unique with (l := l) (t := t); eauto; [apply Hi|apply Hi']; left; reflexivity.
    + apply IH; auto; intros z Hz; [apply Hi|apply Hi']; right; exact Hz.
Qed.

Lemma dedup_NoDup l : NoDup l -> dedup l = l.
Proof.
  induction 1 as [|p l Hp Hl IH]; [reflexivity|]. cbn [dedup]. rewrite IH.
  destruct (existsb (zz_eqb p) l) eqn:E; [exfalso|reflexivity].
  apply existsb_exists in E as (q & Hq & Hpq). unfold zz_eqb in Hpq.
  destruct p as [p1 p2], q as [q1 q2]. cbn [fst snd] in Hpq.
  apply andb_true_iff in Hpq as [H1 H2]. apply Z.eqb_eq in H1, H2. subst q1 q2. exact (Hp Hq).
Qed.

Definition gspan (x : ivl) (c : list ivl) : list (Z * Z) :=
  let os := max_start (x :: c) in let oe := min_end (x :: c) in if os <? oe then [(os, oe)] else [].

Lemma spans_for_disjoint x oth :
  Forall (Forall wf_ivl) oth -> Forall disjoint_sorted oth ->
  spans_for x oth = flat_map (gspan x) (choices oth).
Proof.
  intros Hwf Hd. unfold spans_for. fold (gspan x). apply dedup_NoDup.
  apply NoDup_flat_map_intro.
  - apply NoDup_choices. rewrite Forall_forall in *. intros l Hl. apply disjoint_NoDup; auto.
  - intros a _. unfold gspan. cbv zeta. destruct (_ <? _); [constructor; [intros []|constructor]|constructor].
  - intros a b z Ha Hb Hza Hzb. unfold gspan in Hza, Hzb. cbv zeta in Hza, Hzb.
    destruct (max_start (x :: a) <? min_end (x :: a)) eqn:Ea; [|destruct Hza].
    destruct (max_start (x :: b) <? min_end (x :: b)) eqn:Eb; [|destruct Hzb].
    destruct Hza as [<-|[]]. destruct Hzb as [Hzb|[]]. injection Hzb as E1 E2.
    change (max_start (x :: b) = max_start (x :: a)) in E1.
    change (min_end (x :: b) = min_end (x :: a)) in E2.
    apply (tuple_unique oth Hwf Hd a b (max_start (x :: a))); [apply choices_in; exact Ha|apply choices_in; exact Hb| |].
    + intros y Hy. pose proof (max_start_ge (x :: a) y (or_intror Hy)).
      pose proof (min_end_le (x :: a) y (or_intror Hy)). unfold inside. lia.
    + intros y Hy. pose proof (max_start_ge (x :: b) y (or_intror Hy)).
      pose proof (min_end_le (x :: b) y (or_intror Hy)). unfold inside. lia.
Qed.

(* ---- rearranging sums ---- *)

Lemma flat_map_swap {A B C} (F : A -> B -> list C) la lb :
  Permutation (flat_map (fun a => flat_map (F a) lb) la)
              (flat_map (fun b => flat_map (fun a => F a b) la) lb).
Proof.
  induction la as [|a la IH]; cbn [flat_map].
  - rewrite flat_map_nil; [constructor|reflexivity].
  - eapply Permutation_trans; [apply Permutation_app_head; exact IH|].
    symmetry. apply (flat_map_app_perm (F a) (fun b => flat_map (fun a0 => F a0 b) la)).
Qed.

Lemma flat_map_comp {A B C} (g : B -> list C) (h : A -> B) l :
  flat_map g (map h l) = flat_map (fun x => g (h x)) l.
Proof. induction l as [|a l IH]; [reflexivity|]. cbn [map flat_map]. rewrite IH. reflexivity. Qed.

Lemma map_flat_map {A B C} (h : B -> C) (g : A -> list B) l :
  map h (flat_map g l) = flat_map (fun x => map h (g x)) l.
Proof. induction l as [|a l IH]; [reflexivity|]. cbn [flat_map]. rewrite map_app, IH. reflexivity. Qed.

Lemma flat_map_ext_in {A B} (g h : A -> list B) l :
  (forall x, In x l -> g x = h x) -> flat_map g l = flat_map h l.
Proof.
  induction l as [|a l IH]; intro H; [reflexivity|]. cbn [flat_map].
  rewrite (H a (or_introl eq_refl)), IH; [reflexivity|]. intros x Hx. apply H. right; exact Hx.
Qed.

Lemma G_ext_in {A} (f f' : list ivl -> list A) L :
  (forall cs, tuple_in cs L -> f cs = f' cs) -> G f L = G f' L.
Proof. intro H. unfold G. apply flat_map_ext_in. intros cs Hcs. apply H. apply choices_in. exact Hcs. Qed.

(* pulling operand number [length L1] out of the choices *)
Lemma G_pull {A} l L2 : forall L1 (f : list ivl -> list A),
  Permutation (G f (L1 ++ l :: L2))
    (flat_map (fun x => G (fun c => f (firstn (length L1) c ++ x :: skipn (length L1) c)) (L1 ++ L2)) l).
Proof.
  induction L1 as [|a L1 IH]; intro f; cbn [app length].
  - rewrite G_cons. cbn [firstn skipn app]. apply Permutation_refl.
  - rewrite G_cons. eapply Permutation_trans.
    + apply flat_map_perm_pointwise. intros y _. apply IH.
    + eapply Permutation_trans; [apply flat_map_swap|].
      apply flat_map_perm_pointwise. intros x _. rewrite G_cons. cbn [firstn skipn app].
      apply Permutation_refl.
Qed.

Lemma tuple_in_length cs L : tuple_in cs L -> length cs = length L.
Proof. apply Forall2_len. Qed.

Lemma max_start_perm a b : Permutation a b -> max_start a = max_start b.
Proof.
  intro P. destruct a as [|x a].
  - apply Permutation_nil in P. subst b. reflexivity.
  - assert (Hb : b <> []). { intro E. subst b. apply Permutation_sym, Permutation_nil in P. discriminate. }
    destruct (max_start_in (x :: a)) as (c & Hc & Ec); [discriminate|].
    destruct (max_start_in b Hb) as (c' & Hc' & Ec').
    pose proof (max_start_ge b c (Permutation_in _ P Hc)).
    pose proof (max_start_ge (x :: a) c' (Permutation_in _ (Permutation_sym P) Hc')). lia.
Qed.

Lemma min_end_perm a b : Permutation a b -> min_end a = min_end b.
Proof.
  intro P. destruct a as [|x a].
  - apply Permutation_nil in P. subst b. reflexivity.
  - assert (Hb : b <> []). { intro E. subst b. apply Permutation_sym, Permutation_nil in P. discriminate. }
    destruct (min_end_in (x :: a)) as (c & Hc & Ec); [discriminate|].
    destruct (min_end_in b Hb) as (c' & Hc' & Ec').
    pose proof (min_end_le b c (Permutation_in _ P Hc)).
    pose proof (min_end_le (x :: a) c' (Permutation_in _ (Permutation_sym P) Hc')). lia.
Qed.

(* ---- the two references ---- *)

Definition dflt : ivl := mkI None None Plain.

(* the contribution of operand i to the tuple cs *)
Definition contrib (i : nat) (cs : list ivl) : list ivl :=
  if max_start cs <? min_end cs
  then [set_span (nth i cs dflt) (unS (max_start cs)) (unE (min_end cs))] else [].

Lemma tup_emit_seq os oe sel : forall cs i0,
  tup_emit os oe sel i0 cs =
  flat_map (fun j => if sel (i0 + j)%nat then [set_span (nth j cs dflt) (unS os) (unE oe)] else [])
           (seq 0 (length cs)).
Proof.
  induction cs as [|c r IH]; intro i0; [reflexivity|].
  cbn [tup_emit length seq flat_map nth]. rewrite Nat.add_0_r. f_equal.
  rewrite <- seq_shift, flat_map_comp, IH. apply flat_map_ext. intro j.
  rewrite Nat.add_succ_r. reflexivity.
Qed.

Lemma ref_tuple_seq sel cs :
  ref_tuple sel cs = flat_map (fun i => if sel i then contrib i cs else []) (seq 0 (length cs)).
Proof.
  unfold ref_tuple, contrib. destruct (max_start cs <? min_end cs).
  - rewrite tup_emit_seq. reflexivity.
  - symmetry. apply flat_map_nil. intros i _. destruct (sel i); reflexivity.
Qed.

Definition inter_ref_sel (sel : nat -> bool) (ls : list (list ivl)) : list ivl :=
  flat_map (fun i =>
              if sel i then
                flat_map (fun x => map (fun p => set_span x (unS (fst p)) (unE (snd p)))
                                       (spans_for x (others i ls)))
                         (nth i ls [])
              else [])
           (seq 0 (length ls)).

Lemma inter_ref_is_sel masks ls : inter_ref masks ls = inter_ref_sel (emit_sel masks) ls.
Proof. destruct ls; reflexivity. Qed.

Lemma others_app (L1 : list (list ivl)) l L2 : others (length L1) (L1 ++ l :: L2) = L1 ++ L2.
Proof.
  unfold others. induction L1 as [|a L1 IH]; [reflexivity|].
  cbn [length app firstn skipn] in *. rewrite IH. reflexivity.
Qed.

Lemma nth_app_mid {A} (L1 : list A) l L2 d : nth (length L1) (L1 ++ l :: L2) d = l.
Proof. induction L1 as [|a L1 IH]; [reflexivity|exact IH]. Qed.

Lemma operand_contrib L1 l L2 :
  Forall (Forall wf_ivl) (L1 ++ L2) -> Forall disjoint_sorted (L1 ++ L2) ->
  Permutation
    (G (contrib (length L1)) (L1 ++ l :: L2))
    (flat_map (fun x => map (fun p => set_span x (unS (fst p)) (unE (snd p))) (spans_for x (L1 ++ L2))) l).
Proof.
  intros Hwf Hd. eapply Permutation_trans; [apply G_pull|].
  apply flat_map_perm_pointwise. intros x _.
  rewrite (spans_for_disjoint x _ Hwf Hd), map_flat_map. fold (G (fun c => map (fun p => set_span x (unS (fst p)) (unE (snd p))) (gspan x c)) (L1 ++ L2)).
  rewrite (G_ext_in _ (fun c => map (fun p => set_span x (unS (fst p)) (unE (snd p))) (gspan x c)));
    [apply Permutation_refl|].
  intros c Hc. apply tuple_in_length in Hc. rewrite app_length in Hc.
  assert (HP : Permutation (firstn (length L1) c ++ x :: skipn (length L1) c) (x :: c)).
  { symmetry. rewrite <- (firstn_skipn (length L1) c) at 1. apply Permutation_middle. }
  unfold contrib, gspan. cbv zeta. rewrite (max_start_perm _ _ HP), (min_end_perm _ _ HP).
  destruct (max_start (x :: c) <? min_end (x :: c)); [|reflexivity]. cbn [map fst snd].
  assert (Hlen : length (firstn (length L1) c) = length L1) by (apply firstn_length_le; lia).
  rewrite <- Hlen at 1. rewrite nth_app_mid. reflexivity.
Qed.

Theorem inter_ref_perm sel ls :
  Forall (Forall wf_ivl) ls -> Forall disjoint_sorted ls ->
  Permutation (inter_ref' sel ls) (inter_ref_sel sel ls).
Proof.
  intros Hwf Hd. unfold inter_ref', inter_ref_sel.
  eapply Permutation_trans.
  { apply flat_map_perm_pointwise with
      (h := fun cs => flat_map (fun i => if sel i then contrib i cs else []) (seq 0 (length ls))).
    intros cs Hcs. rewrite ref_tuple_seq, (tuple_in_length cs ls (choices_in _ _ Hcs)).
    apply Permutation_refl. }
  eapply Permutation_trans; [apply flat_map_swap|].
  apply flat_map_perm_pointwise. intros i Hi. apply in_seq in Hi.
  destruct (sel i); [|rewrite flat_map_nil; [constructor|reflexivity]].
  destruct (nth_split ls [] (proj2 Hi)) as (L1 & L2 & Els & Hlen).
  revert Els. generalize (nth i ls []). intros l Els. subst ls i.
  rewrite others_app.
  apply Forall_app in Hwf as [W1 W2]. apply Forall_app in Hd as [D1 D2].
  inversion W2; subst. inversion D2; subst.
  apply operand_contrib; apply Forall_app; split; assumption.
Qed.

Theorem inter_sweep_is_ref masks streams :
  (2 <= length streams)%nat ->
  Forall (Forall wf_ivl) streams -> Forall disjoint_sorted streams ->
  Permutation (inter_sweep streams (emit_sel masks)) (inter_ref masks streams).
Proof.
  intros Hk Hwf Hd. rewrite inter_ref_is_sel.
  eapply Permutation_trans; [apply inter_sweep_exact; assumption|apply inter_ref_perm; assumption].
Qed.

(* ------------------------------------------------------------------------------------ *)
(* summary statements *)

(* (A) in the form asked for: every emission is the current event of a selected operand with
   its span replaced by a non-empty [os, oe) that lies inside the coverage of every operand *)
Corollary inter_sweep_sound_cover streams sel x :
  (2 <= length streams)%nat -> In x (inter_sweep streams sel) ->
  fstart x < fend x /\
  (exists i l c, nth_error streams i = Some l /\ sel i = true /\ In c l /\ pl x = pl c /\
                 fstart c <= fstart x /\ fend x <= fend c) /\
  forall t, inside x t = true -> forallb (fun l => covers l t) streams = true.
Proof.
  intros Hk Hx. pose proof (inter_sweep_sound streams sel x Hk Hx) as Hok.
  destruct (emission_ok_span streams sel x Hok) as [Hlt Hcov]. split; [exact Hlt|]. split; [|exact Hcov].
  destruct Hok as (i & cs & c & Hi & Hs & Hcs & Hn & _ & ->).
  destruct (nth_error streams i) as [l|] eqn:El; [|apply nth_error_None in El; lia].
  exists i, l, c. split; [exact El|]. split; [exact Hs|].
  assert (Hcl : In c l).
  { clear - Hcs Hn El. revert i Hn El. induction Hcs as [|c0 l0 cs streams Hc0 Hr IH]; intros i Hn El.
    - destruct i; discriminate.
    - destruct i as [|i]; cbn [nth_error] in *.
      + injection Hn as <-. injection El as <-. exact Hc0.
      + eapply IH; eauto. }
  split; [exact Hcl|]. split; [reflexivity|].
  rewrite fstart_set_span. unfold set_span. rewrite fend_unE.
  apply nth_error_In in Hn. split; [apply max_start_ge; exact Hn|apply min_end_le; exact Hn].
Qed.

Print Assumptions inter_sweep_sound.
Print Assumptions inter_sweep_sound_cover.
Print Assumptions inter_sweep_sorted.
Print Assumptions inter_sweep_single_disjoint.
Print Assumptions inter_sweep_cover.
Print Assumptions inter_sweep_exact.
Print Assumptions inter_sweep_is_ref.
