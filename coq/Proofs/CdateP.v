(* Proofs/CdateP.v — the incremental date enumeration used by Model/Recur.v and Spec/RecurSpec.v
   (cdates: one civil_from_days, then next_cdate steps) is the calendar conversion of each day;
   month and year indices are monotone in the day number. *)
From CG Require Import Model.Recur Proofs.CivilP.
From Coq Require Import Lia ZifyBool.
Ltac Zify.zify_post_hook ::= Z.to_euclidean_division_equations.

Definition civ_eqb (a b : Z * Z * Z) : bool :=
  let '(y, m, d) := a in let '(y', m', d') := b in (y =? y') && (m =? m') && (d =? d').
Lemma civ_eqb_eq a b : civ_eqb a b = true -> a = b.
Proof.
  destruct a as [[y m] d], b as [[y' m'] d']. unfold civ_eqb. intros H.
  apply andb_true_iff in H. destruct H as [H H3]. apply andb_true_iff in H. destruct H as [H1 H2].
  apply Z.eqb_eq in H1, H2, H3. subst. reflexivity.
Qed.

(* the calendar fields of the next day *)
Definition next_civ (c : Z * Z * Z) : Z * Z * Z :=
  let '(y, m, dd) := c in
  if dd <? dim y m then (y, m, dd + 1) else if m <? 12 then (y, m + 1, 1) else (y + 1, 1, 1).

Definition step_ok (z : Z) : bool := civ_eqb (civil_from_days (z + 1)) (next_civ (civil_from_days z)).

Lemma era_step_ok : check_range step_ok 146097 (-719468) = true.
Proof. vm_compute. reflexivity. Qed.

Lemma next_civ_shift c k :
  next_civ (let '(y, m, d) := c in (y + 400 * k, m, d)) = let '(y, m, d) := next_civ c in (y + 400 * k, m, d).
Proof.
  destruct c as [[y m] d]. unfold next_civ. rewrite dim_shift.
  destruct (d <? dim y m); [reflexivity|]. destruct (m <? 12); [reflexivity|].
  f_equal. f_equal. lia.
Qed.

Lemma civil_succ_era z0 k : -719468 <= z0 < -719468 + 146097 ->
  civil_from_days (z0 + 146097 * k + 1) = next_civ (civil_from_days (z0 + 146097 * k)).
Proof.
  intros Hz0.
  pose proof (check_range_spec _ _ _ era_step_ok z0 Hz0) as H. apply civ_eqb_eq in H.
  replace (z0 + 146097 * k + 1) with (z0 + 1 + 146097 * k) by ring.
  rewrite !cfd_shift, H. destruct (civil_from_days z0) as [[y m] d].
  symmetry. apply (next_civ_shift (y, m, d) k).
Qed.

Theorem civil_succ z : civil_from_days (z + 1) = next_civ (civil_from_days z).
Proof.
  pose proof (civil_succ_era (z - 146097 * ((z + 719468) / 146097)) ((z + 719468) / 146097)) as H.
  replace (z - 146097 * ((z + 719468) / 146097) + 146097 * ((z + 719468) / 146097)) with z in H by ring.
  apply H. lia.
Qed.

Lemma cdate_of_succ d : cdate_of (d + 1) = next_cdate (cdate_of d).
Proof.
  unfold cdate_of. rewrite civil_succ. destruct (civil_from_days d) as [[y m] dd].
  unfold next_civ, next_cdate.
  destruct (dd <? dim y m); [reflexivity|]. destruct (m <? 12); reflexivity.
Qed.

Lemma cdates_go_spec n : forall d, cdates_go n (cdate_of d) = map cdate_of (zseq_go n d).
Proof.
  induction n as [|n IH]; intros d; [reflexivity|].
  cbn [cdates_go zseq_go map]. rewrite <- cdate_of_succ, IH. reflexivity.
Qed.

(* the enumeration is the conversion of each day of the range *)
Theorem cdates_spec s n : cdates s n = map cdate_of (zseq s n).
Proof. unfold cdates, zseq. apply cdates_go_spec. Qed.

Lemma zseq_go_In n : forall s x, In x (zseq_go n s) <-> s <= x < s + Z.of_nat n.
Proof.
  induction n as [|n IH]; intros s x; cbn [zseq_go In].
  - lia.
  - rewrite IH. lia.
Qed.

Lemma zseq_In s n x : In x (zseq s n) <-> s <= x < s + Z.max 0 n.
Proof. unfold zseq. rewrite zseq_go_In. lia. Qed.

(* ---- month index and year are monotone in the day number ---- *)
Definition midx (d : Z) : Z := year_of d * 12 + month_of d - 1.

Lemma midx_succ d : midx d <= midx (d + 1) <= midx d + 1.
Proof.
  unfold midx, year_of, month_of. rewrite civil_succ.
  pose proof (civil_roundtrip d) as Hv.
  destruct (civil_from_days d) as [[y m] dd]. destruct Hv as [_ Hv].
  unfold valid_date in Hv.
  repeat (apply andb_true_iff in Hv; destruct Hv as [Hv ?]).
  repeat match goal with H : (_ <=? _) = true |- _ => apply Z.leb_le in H end.
  unfold next_civ. destruct (dd <? dim y m); cbn [fst snd]; [lia|].
  destruct (m <? 12) eqn:E; cbn [fst snd]; lia.
Qed.

Lemma year_succ d : year_of d <= year_of (d + 1) <= year_of d + 1.
Proof.
  unfold year_of. rewrite civil_succ.
  destruct (civil_from_days d) as [[y m] dd].
  unfold next_civ. destruct (dd <? dim y m); cbn [fst snd]; [lia|].
  destruct (m <? 12); cbn [fst snd]; lia.
Qed.

Lemma mono_of_succ (f : Z -> Z) :
  (forall d, f d <= f (d + 1)) -> forall x y, x <= y -> f x <= f y.
Proof.
  intros Hs x y Hxy.
  replace y with (x + Z.of_nat (Z.to_nat (y - x))) by lia.
  generalize (Z.to_nat (y - x)) as n. induction n as [|n IH].
  - rewrite Z.add_0_r. lia.
  - rewrite Nat2Z.inj_succ. replace (x + Z.succ (Z.of_nat n)) with (x + Z.of_nat n + 1) by lia.
    pose proof (Hs (x + Z.of_nat n)). lia.
Qed.

Theorem midx_mono x y : x <= y -> midx x <= midx y.
Proof. apply mono_of_succ. intros d. pose proof (midx_succ d). lia. Qed.

Theorem year_mono x y : x <= y -> year_of x <= year_of y.
Proof. apply mono_of_succ. intros d. pose proof (year_succ d). lia. Qed.

(* two days of the same month are less than 31 days apart *)
Lemma same_month_close x y : midx x = midx y -> x - y <= 30.
Proof.
  unfold midx. intros E.
  pose proof (days_from_civil_from_days x) as Hx. pose proof (days_from_civil_from_days y) as Hy.
  pose proof (civil_from_days_valid x) as Vx. pose proof (civil_from_days_valid y) as Vy.
  unfold valid_date in Vx, Vy.
  repeat (apply andb_true_iff in Vx; destruct Vx as [Vx ?]).
  repeat (apply andb_true_iff in Vy; destruct Vy as [Vy ?]).
  repeat match goal with H : (_ <=? _) = true |- _ => apply Z.leb_le in H end.
  assert (Hm : month_of x = month_of y /\ year_of x = year_of y) by lia.
  destruct Hm as [Hm Hyr].
  pose proof (dim_bounds (year_of x) (month_of x)).
  rewrite <- Hx, <- Hy, <- Hm, <- Hyr.
  replace (day_of x) with (day_of y + (day_of x - day_of y)) by lia.
  rewrite dfc_day_linear. lia.
Qed.

(* a day whose month index is not after another's is at most 30 days after it *)
Theorem midx_le_close a sd : midx a <= midx sd -> a <= sd + 30.
Proof.
  intros H. destruct (Z_le_gt_dec a sd) as [|Hgt]; [lia|].
  assert (midx sd <= midx a) by (apply midx_mono; lia).
  pose proof (same_month_close a sd). lia.
Qed.
