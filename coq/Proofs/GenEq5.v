(* Proofs/GenEq5.v — tie C for calgebra/core.py Difference._sweep: the definition generated from its
   source text (Gen/Source.v: the merged subtractor iterator with next()/StopIteration, the inlined
   closure advance_subtractor, the two nested `while` loops inside the `for`, the carving of holes
   with its `break`s) equals Model/Sweeps.v's diff_sweep (dskip / dcarve / dsweep), given fuel for
   one pass over the subtractors per inner loop. *)
From CG Require Import Model.Loop Gen.Source Model.Sweeps.
From Coq Require Import Lia.

(* (subtractor_iter, current_subtractor) when the merged subtractor stream still to be seen is [subs] *)
Definition enc2 (subs : list ivl) : list ivl * option ivl :=
  match subs with [] => ([], None) | s :: r => (r, Some s) end.
Definition enc3 (c : Z) (subs : list ivl) : Z * list ivl * option ivl :=
  match subs with [] => (c, [], None) | s :: r => (c, r, Some s) end.

(* the second inner loop alone: fragments before the final one, the cursor it ends with, the
   remaining subtractors *)
Fixpoint dloop (ev : ivl) (cursor ee : Z) (subs : list ivl) : list ivl * Z * list ivl :=
  match subs with
  | [] => ([], cursor, [])
  | s :: r =>
    if fstart s <=? ee then
      let os := Z.max cursor (fstart s) in
      let oe := Z.min ee (fend s) in
      if os <? oe then
        let pre := if cursor <? os then [set_span ev (unS cursor) (unS os)] else [] in
        if oe >=? ee then (pre, oe, subs)
        else if fend s <=? ee then let '(o, c, l) := dloop ev oe ee r in (pre ++ o, c, l)
        else (pre, oe, subs)
      else if fend s <=? ee then dloop ev cursor ee r
      else ([], cursor, subs)
    else ([], cursor, subs)
  end.

Lemma dcarve_dloop ev ee : forall subs cursor,
  dcarve ev cursor ee subs =
  let '(o, c, l) := dloop ev cursor ee subs in (o ++ dfinal ev c ee, l).
Proof.
  induction subs as [|s r IH]; intro cursor; cbn [dcarve dloop]; [reflexivity|].
  destruct (fstart s <=? ee); [|reflexivity].
  cbv zeta.
  destruct (Z.max cursor (fstart s) <? Z.min ee (fend s)).
  - destruct (Z.min ee (fend s) >=? ee); [reflexivity|].
    destruct (fend s <=? ee); [|reflexivity].
    rewrite IH. destruct (dloop ev (Z.min ee (fend s)) ee r) as [[o c] l].
    rewrite app_assoc. reflexivity.
  - destruct (fend s <=? ee); [|reflexivity]. apply IH.
Qed.

Lemma dskip_length cursor : forall subs, (length (dskip cursor subs) <= length subs)%nat.
Proof.
  induction subs as [|s r IH]; cbn [dskip length]; [lia|].
  destruct (fend s <? cursor); cbn [length]; lia.
Qed.

Lemma dloop_length ev ee : forall subs cursor,
  (length (snd (dloop ev cursor ee subs)) <= length subs)%nat.
Proof.
  induction subs as [|s r IH]; intro cursor; cbn [dloop length snd]; [lia|].
  destruct (fstart s <=? ee); [|cbn [snd length]; lia]. cbv zeta.
  destruct (Z.max cursor (fstart s) <? Z.min ee (fend s)).
  - destruct (Z.min ee (fend s) >=? ee); [cbn [snd length]; lia|].
    destruct (fend s <=? ee); [|cbn [snd length]; lia].
    specialize (IH (Z.min ee (fend s))).
    destruct (dloop ev (Z.min ee (fend s)) ee r) as [[o c] l]. cbn [snd] in *. lia.
  - destruct (fend s <=? ee); [|cbn [snd length]; lia]. specialize (IH cursor). lia.
Qed.

(* ---- the first inner loop: "while current_subtractor and current_subtractor.finite_end < cursor" ---- *)
Lemma skip_loop cursor (cond : list ivl * option ivl -> bool)
      (body : list ivl * option ivl -> list ivl * (list ivl * option ivl) * bool) :
  (forall subs, cond (enc2 subs) = match subs with [] => false | s :: _ => fend s <? cursor end) ->
  (forall s r, body (r, Some s) = ([], enc2 r, true)) ->
  forall subs fuel, (length subs < fuel)%nat ->
    sub_while fuel cond body (enc2 subs) = Some ([], enc2 (dskip cursor subs)).
Proof.
  intros Hc Hb. induction subs as [|s r IH]; intros fuel Hf.
  - destruct fuel; cbn [sub_while]; rewrite (Hc []); reflexivity.
  - destruct fuel as [|f]; [cbn in Hf; lia|]. cbn [sub_while dskip]. rewrite (Hc (s :: r)).
    destruct (fend s <? cursor); [|reflexivity].
    cbn [enc2]. rewrite Hb. rewrite IH by (cbn in Hf; lia). reflexivity.
Qed.

(* ---- the second inner loop ---- *)
Lemma carve_loop ev ee (cond : Z * list ivl * option ivl -> bool)
      (body : Z * list ivl * option ivl -> list ivl * (Z * list ivl * option ivl) * bool) :
  (forall c subs, cond (enc3 c subs) = match subs with [] => false | s :: _ => fstart s <=? ee end) ->
  (forall cursor s r,
      body (cursor, r, Some s) =
      let os := Z.max cursor (fstart s) in
      let oe := Z.min ee (fend s) in
      if os <? oe then
        let pre := if cursor <? os then [set_span ev (unS cursor) (unS os)] else [] in
        if oe >=? ee then (pre, enc3 oe (s :: r), false)
        else if fend s <=? ee then (pre, enc3 oe r, true)
        else (pre, enc3 oe (s :: r), false)
      else if fend s <=? ee then ([], enc3 cursor r, true)
      else ([], enc3 cursor (s :: r), false)) ->
  forall subs fuel cursor, (length subs < fuel)%nat ->
    sub_while fuel cond body (enc3 cursor subs) =
    let '(o, c, l) := dloop ev cursor ee subs in Some (o, enc3 c l).
Proof.
  intros Hc Hb. induction subs as [|s r IH]; intros fuel cursor Hf.
  - destruct fuel; cbn [sub_while dloop]; rewrite (Hc cursor []); reflexivity.
  - destruct fuel as [|f]; [cbn in Hf; lia|]. cbn [sub_while dloop]. rewrite (Hc cursor (s :: r)).
    destruct (fstart s <=? ee); [|reflexivity].
    change (enc3 cursor (s :: r)) with (cursor, r, Some s). rewrite Hb. cbv zeta.
    destruct (Z.max cursor (fstart s) <? Z.min ee (fend s)).
    + destruct (Z.min ee (fend s) >=? ee); [reflexivity|].
      destruct (fend s <=? ee); [|reflexivity].
      rewrite IH by (cbn in Hf; lia).
      destruct (dloop ev (Z.min ee (fend s)) ee r) as [[o c] l]. reflexivity.
    + destruct (fend s <=? ee); [|reflexivity].
      rewrite IH by (cbn in Hf; lia).
      destruct (dloop ev cursor ee r) as [[o c] l]. reflexivity.
Qed.

(* ---- the outer loop ---- *)
Definition step_of (ev : ivl) (subs : list ivl) : list ivl * list ivl :=
  match subs with
  | [] => ([ev], [])
  | _ => match dskip (fstart ev) subs with
         | [] => ([ev], [])
         | subs1 => dcarve ev (fstart ev) (fend ev) subs1
         end
  end.

Lemma dsweep_step ev r subs :
  dsweep (ev :: r) subs = fst (step_of ev subs) ++ dsweep r (snd (step_of ev subs)).
Proof.
  unfold step_of. cbn [dsweep]. destruct subs as [|s0 r0]; [reflexivity|].
  destruct (dskip (fstart ev) (s0 :: r0)) as [|s1 r1]; [reflexivity|].
  destruct (dcarve ev (fstart ev) (fend ev) (s1 :: r1)) as [o l]. reflexivity.
Qed.

Lemma step_of_length ev subs : (length (snd (step_of ev subs)) <= length subs)%nat.
Proof.
  unfold step_of. destruct subs as [|s0 r0]; [cbn; lia|].
  pose proof (dskip_length (fstart ev) (s0 :: r0)) as H1.
  destruct (dskip (fstart ev) (s0 :: r0)) as [|s1 r1]; [cbn; lia|].
  rewrite dcarve_dloop.
  pose proof (dloop_length ev (fend ev) (s1 :: r1) (fstart ev)) as H2.
  destruct (dloop ev (fstart ev) (fend ev) (s1 :: r1)) as [[o c] l]. cbn [snd] in *. lia.
Qed.

Lemma sweep_loop fuel (body : list ivl * option ivl -> ivl -> option (list ivl * (list ivl * option ivl) * ctl))
      (post : list ivl * option ivl -> list ivl) :
  (forall s, post s = []) ->
  (forall ev subs, (length subs < fuel)%nat ->
                   body (enc2 subs) ev = Some (fst (step_of ev subs), enc2 (snd (step_of ev subs)), Cont)) ->
  forall src subs, (length subs < fuel)%nat ->
    run_for_o body post (enc2 subs) src = RDone (dsweep src subs).
Proof.
  intros Hp Hb. induction src as [|ev r IH]; intros subs Hf.
  - cbn [run_for_o dsweep]. rewrite Hp. reflexivity.
  - cbn [run_for_o]. rewrite Hb by exact Hf.
    rewrite IH by (pose proof (step_of_length ev subs); lia).
    rewrite dsweep_step. reflexivity.
Qed.

Lemma unS_if z : (if negb (z =? NEG_INF) then Some z else None) = unS z.
Proof. unfold unS. destruct (z =? NEG_INF); reflexivity. Qed.

Lemma unE_if z : (if negb (z =? POS_INF) then Some z else None) = unE z.
Proof. unfold unE. destruct (z =? POS_INF); reflexivity. Qed.

(* HEADLINE *)
Theorem g_diff_sweep_eq (fuel : nat) (src : list ivl) (sub_streams : list (list ivl)) :
  (length (merge_by lt_fwd sub_streams) < fuel)%nat ->
  g_diff_sweep fuel src sub_streams = RDone (diff_sweep src sub_streams).
Proof.
  intro Hf. unfold g_diff_sweep, diff_sweep. cbv zeta.
  set (subs0 := merge_by lt_fwd sub_streams) in *. clearbody subs0.
  assert (Hinit : forall (R : Type) (k : list ivl -> option ivl -> R),
             (let '(a, b) := match subs0 with
                             | v_ :: it_ => (it_, Some v_)
                             | [] => (subs0, None)
                             end in k a b) = k (fst (enc2 subs0)) (snd (enc2 subs0))).
  { intros R k. destruct subs0; reflexivity. }
  rewrite Hinit. clear Hinit.
  replace (fst (enc2 subs0), snd (enc2 subs0)) with (enc2 subs0) by (destruct subs0; reflexivity).
  apply (sweep_loop fuel); [intros [? ?]; reflexivity| |exact Hf].
  clear subs0 Hf src. intros ev subs Hf.
  destruct subs as [|c it]; [reflexivity|].
  cbn [enc2]. cbv beta iota.
  change (it, Some c) with (enc2 (c :: it)).
  (* first inner loop = dskip *)
  match goal with
  | |- context [sub_while fuel ?C ?B (enc2 (c :: it))] =>
    rewrite (skip_loop (fstart ev) C B) by
        (first [ intros [|? ?]; reflexivity
               | intros ? [|? ?]; reflexivity
               | exact Hf ])
  end.
  unfold step_of.
  pose proof (dskip_length (fstart ev) (c :: it)) as Hlen1.
  destruct (dskip (fstart ev) (c :: it)) as [|s1 r1]; [reflexivity|].
  cbn [enc2]. cbv beta iota.
  change (fstart ev, r1, Some s1) with (enc3 (fstart ev) (s1 :: r1)).
  (* second inner loop = dloop; then the final fragment *)
  match goal with
  | |- context [sub_while fuel ?C ?B (enc3 (fstart ev) (s1 :: r1))] =>
    rewrite (carve_loop ev (fend ev) C B) with (subs := s1 :: r1)
  end.
  - rewrite dcarve_dloop.
    destruct (dloop ev (fstart ev) (fend ev) (s1 :: r1)) as [[o cfin] l].
    unfold dfinal. rewrite <- unS_if, <- unE_if.
    destruct l as [|l0 lr]; cbn [enc3 enc2 app fst snd];
      destruct (cfin <? fend ev); cbn [app]; rewrite ?app_nil_r; reflexivity.
  - intros cc [|? ?]; reflexivity.
  - intros cursor s r. cbv zeta. cbn [oivld is_none negb].
    rewrite !unS_if.
    destruct (Z.max cursor (fstart s) <? Z.min (fend ev) (fend s));
      [destruct (cursor <? Z.max cursor (fstart s))|];
      cbn [app];
      repeat match goal with |- context [if ?b then _ else _] => destruct b end;
      destruct r; reflexivity.
  - lia.
Qed.

(* non-vacuity and a concrete run *)
Example g_diff_sweep_example :
  g_diff_sweep 3 [mkI (Some 0) (Some 10) Plain] [[mkI (Some 2) (Some 4) Plain]; [mkI (Some 6) (Some 7) Plain]]
  = RDone [mkI (Some 0) (Some 2) Plain; mkI (Some 4) (Some 6) Plain; mkI (Some 7) (Some 10) Plain].
Proof. vm_compute. reflexivity. Qed.

(* with too little fuel the result is the explicit RFuel, never a truncated list *)
Example g_diff_sweep_fuel :
  g_diff_sweep 0 [mkI (Some 0) (Some 10) Plain] [[mkI (Some 2) (Some 4) Plain]] = RFuel.
Proof. vm_compute. reflexivity. Qed.

Print Assumptions g_diff_sweep_eq.

(* ------------------------------------------------------------------------------------------ *)
(* headline theorems of the property files restated on the GENERATED definitions              *)
From CG Require Import Proofs.Defs Proofs.Diff.

Theorem src_difference_cover : forall fuel src sub_streams,
  let subs := merge_by lt_fwd sub_streams in
  (length subs < fuel)%nat ->
  Forall wf_ivl src -> disjoint_sorted src -> Forall wf_ivl subs -> sorted_start subs ->
  exists l, g_diff_sweep fuel src sub_streams = RDone l /\
            forall t, covers l t = covers src t && negb (covers subs t).
Proof.
  intros fuel src ss subs Hf H1 H2 H3 H4. exists (diff_sweep src ss). split.
  - apply g_diff_sweep_eq. exact Hf.
  - apply dsweep_cover; assumption.
Qed.
Print Assumptions src_difference_cover.
