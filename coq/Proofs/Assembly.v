(* Proofs/Assembly.v — from the per-operator sweep theorems to whole expression trees.

   Domain [good env e]: | & - ~ and filters over stored timelines, where every operand of an
   Intersection and the source of every Difference produces an internally non-overlapping
   stream ([dj]).  Outside this domain the code is known to be wrong (Difference with an
   overlapping source; Intersection with an overlapping operand), see DESIGN / known findings.

   Main results
     fetch_ok          the stream invariant of [fetch] by structural induction
     C01_set_algebra   covered instants of a slice = window /\ pointwise denotation
     C03_forward_wf    a forward slice is a well-formed stream ([stream_wf])
   and syntactic sufficient conditions for [dj] (the domain is closed under nesting). *)
From CG Require Import Proofs.Defs Proofs.Stored Proofs.Merge Proofs.Compl Proofs.Canon
  Proofs.Diff Proofs.InterDisjoint Proofs.Clip Proofs.RefSpec Proofs.InterFuel.

(* ------------------------------------------------------------------------------------ *)
(* structural induction on [expr] (nested through [list expr]) *)

Section ExprInd.
  Variable P : expr -> Prop.
  Hypothesis H_stored : forall evs, P (Stored evs).
  Hypothesis H_solid : P Solid.
  Hypothesis H_union : forall es, Forall P es -> P (Union es).
  Hypothesis H_inter : forall es, Forall P es -> P (Inter es).
  Hypothesis H_diff : forall s subs, P s -> Forall P subs -> P (Diff s subs).
  Hypothesis H_compl : forall s, P s -> P (Compl s).
  Hypothesis H_filt : forall s f, P s -> P (Filt s f).
  Hypothesis H_buf : forall s x y, P s -> P (Buf s x y).
  Hypothesis H_mw : forall s g, P s -> P (MergeW s g).

  Fixpoint expr_ind' (e : expr) : P e :=
    let go := fix go (l : list expr) : Forall P l :=
      match l with
      | [] => Forall_nil P
      | x :: r => Forall_cons x (expr_ind' x) (go r)
      end in
    match e with
    | Stored evs => H_stored evs
    | Solid => H_solid
    | Union es => H_union es (go es)
    | Inter es => H_inter es (go es)
    | Diff s subs => H_diff s subs (expr_ind' s) (go subs)
    | Compl s => H_compl s (expr_ind' s)
    | Filt s f => H_filt s f (expr_ind' s)
    | Buf s x y => H_buf s x y (expr_ind' s)
    | MergeW s g => H_mw s g (expr_ind' s)
    end.
End ExprInd.

(* ------------------------------------------------------------------------------------ *)
(* unfolding lemmas for [fetch] (never [simpl] through it) *)

Lemma fetch_stored env evs a b :
  fetch env (Stored evs) a b false = filter (in_range a b) (sl_build evs).
Proof. exact (proj1 (fetch_stored_spec env evs a b)). Qed.

Lemma fetch_solid env a b : fetch env Solid a b false = [mkI a b Plain].
Proof. reflexivity. Qed.

Lemma fetch_union env es a b :
  fetch env (Union es) a b false = merge_by lt_fwd (map (fun s => fetch env s a b false) es).
Proof. reflexivity. Qed.

Lemma fetch_inter env e es a b :
  fetch env (Inter (e :: es)) a b false =
  inter_sweep (map (fun s => fetch env s a b false) (e :: es)) (emit_sel (map is_mask (e :: es))).
Proof. reflexivity. Qed.

Lemma fetch_diff_nil env s a b : fetch env (Diff s []) a b false = fetch env s a b false.
Proof. reflexivity. Qed.

Lemma fetch_diff env s u us a b :
  fetch env (Diff s (u :: us)) a b false =
  diff_sweep (fetch env s a b false) (map (fun v => fetch env v a b false) (u :: us)).
Proof. reflexivity. Qed.

Lemma fetch_compl env s a b :
  fetch env (Compl s) a b false = compl_sweep (fetch env s a b false) a b.
Proof. reflexivity. Qed.

Lemma fetch_filt env s f a b :
  fetch env (Filt s f) a b false = filter (feval env f) (fetch env s a b false).
Proof. reflexivity. Qed.

(* ------------------------------------------------------------------------------------ *)
(* the domain *)

(* the stream this operand produces is internally non-overlapping, for every window *)
Definition dj (env : fenv) (s : expr) : Prop :=
  forall a b, wf_win a b -> disjoint_sorted (fetch env s a b false).

Inductive good (env : fenv) : expr -> Prop :=
| g_stored evs : Forall wf_ivl evs -> Forall canon_ivl evs -> good env (Stored evs)
| g_solid : good env Solid
| g_union es : Forall (good env) es -> good env (Union es)
| g_inter es : es <> [] -> Forall (good env) es -> Forall (dj env) es -> good env (Inter es)
| g_diff s subs : good env s -> Forall (good env) subs -> dj env s -> good env (Diff s subs)
| g_compl s : good env s -> good env (Compl s)
| g_filt evs f : Forall wf_ivl evs -> Forall canon_ivl evs -> good env (Filt (Stored evs) f).

(* what every stream produced inside the domain satisfies *)
Definition stream_ok (env : fenv) (e : expr) (a b : option Z) (xs : list ivl) : Prop :=
  Forall wf_ivl xs /\ Forall canon_ivl xs /\ sorted_start xs /\
  forall t, inw a b t = true -> covers xs t = den env e t.

(* ------------------------------------------------------------------------------------ *)
(* small list / coverage facts *)

Lemma covers_ext_in l1 l2 t :
  (forall x, inside x t = true -> (In x l1 <-> In x l2)) -> covers l1 t = covers l2 t.
Proof.
  intro H. destruct (covers l2 t) eqn:E2.
  - apply covers_true_iff in E2 as [x [Hx Hi]]. apply covers_true_iff. exists x.
    split; [apply (H x Hi); exact Hx|exact Hi].
  - apply covers_false_iff. intros x Hx. destruct (inside x t) eqn:Hi; [|reflexivity].
    apply (H x Hi) in Hx. rewrite (proj1 (covers_false_iff l2 t) E2 x Hx) in Hi. discriminate Hi.
Qed.

Lemma existsb_map_ext {A B} (f : A -> B) (p : B -> bool) (q : A -> bool) l :
  Forall (fun x => p (f x) = q x) l -> existsb p (map f l) = existsb q l.
Proof. induction 1 as [|x r Hx _ IH]; [reflexivity|]. cbn [map existsb]. rewrite Hx, IH. reflexivity. Qed.

Lemma forallb_map_ext {A B} (f : A -> B) (p : B -> bool) (q : A -> bool) l :
  Forall (fun x => p (f x) = q x) l -> forallb p (map f l) = forallb q l.
Proof. induction 1 as [|x r Hx _ IH]; [reflexivity|]. cbn [map forallb]. rewrite Hx, IH. reflexivity. Qed.

Lemma Forall_map_intro {A B} (f : A -> B) (P : B -> Prop) l :
  Forall (fun x => P (f x)) l -> Forall P (map f l).
Proof. induction 1; cbn [map]; constructor; auto. Qed.

Lemma Forall_filter {A} (P : A -> Prop) (p : A -> bool) l : Forall P l -> Forall P (filter p l).
Proof.
  intro H. apply Forall_forall. intros x Hx. apply filter_In in Hx as [Hx _].
  exact (proj1 (Forall_forall P l) H x Hx).
Qed.

Lemma sorted_start_filter p l : sorted_start l -> sorted_start (filter p l).
Proof.
  induction l as [|x r IH]; [auto|]. intros [Hx Hr]. cbn [filter].
  destruct (p x) eqn:E; [|auto]. split; [|auto].
  intros y Hy. apply filter_In in Hy as [Hy _]. auto.
Qed.

Lemma disjoint_sorted_filter p l : disjoint_sorted l -> disjoint_sorted (filter p l).
Proof.
  induction l as [|x r IH]; [auto|]. intros [Hx Hr]. cbn [filter].
  destruct (p x) eqn:E; [|auto]. split; [|auto].
  intros y Hy. apply filter_In in Hy as [Hy _]. auto.
Qed.

Lemma wf_inside_range x t : wf_ivl x -> inside x t = true -> NEG_INF <= t < POS_INF.
Proof. intros (W1 & W2 & W3 & W4 & W5) Hi. unfold inside in Hi. lia. Qed.

Lemma inw_iff a b t : inw a b t = true <-> bnd_lo a <= t < bnd_hi b.
Proof. unfold inw. lia. Qed.

Lemma good_gap_wf lo hi g : NEG_INF <= lo -> hi <= POS_INF -> good_gap lo hi g -> wf_ivl g /\ canon_ivl g.
Proof.
  intros Hlo Hhi (G1 & G2 & G3 & G4 & G5 & G6). split.
  - unfold wf_ivl. lia.
  - split; intro E.
    + assert (F : fstart g = NEG_INF) by (unfold fstart; rewrite E; reflexivity).
      apply G5 in F. congruence.
    + assert (F : fend g = POS_INF) by (unfold fend; rewrite E; reflexivity).
      apply G6 in F. congruence.
Qed.

Lemma frag_of_wf x f : wf_ivl x -> frag_of x f -> wf_ivl f /\ canon_ivl f.
Proof.
  intros (W1 & W2 & W3 & W4 & W5) (F1 & (F2 & F3) & F4 & F5). split.
  - unfold wf_ivl. lia.
  - split; intro E.
    + assert (F : fstart f = NEG_INF) by (unfold fstart; rewrite E; reflexivity).
      apply F4 in F. congruence.
    + assert (F : fend f = POS_INF) by (unfold fend; rewrite E; reflexivity).
      apply F5 in F. congruence.
Qed.

Lemma unS_canon z : unS z <> Some NEG_INF.
Proof. unfold unS. destruct (z =? NEG_INF) eqn:E; [discriminate|]. intro H. injection H as H. lia. Qed.

Lemma unE_canon z : unE z <> Some POS_INF.
Proof. unfold unE. destruct (z =? POS_INF) eqn:E; [discriminate|]. intro H. injection H as H. lia. Qed.

(* ------------------------------------------------------------------------------------ *)
(* Union: heapq.merge by (start, end) of streams that are only sorted by start is sorted by
   start — the picked head has the least key among the live heads, hence the least start *)

Lemma sorted_start_tl l : sorted_start l -> sorted_start (tl l).
Proof. destruct l as [|x r]; cbn [tl]; [auto|]. intros [_ H]; exact H. Qed.

Lemma pop_at_sorted_start ss : forall k, Forall sorted_start ss -> Forall sorted_start (pop_at k ss).
Proof.
  induction ss as [|s r IH]; intros k H; [destruct k; exact H|].
  inversion H as [|? ? Hs Hr]; subst. destruct k as [|k]; cbn [pop_at].
  - constructor; [apply sorted_start_tl; exact Hs|exact Hr].
  - constructor; [exact Hs|apply IH; exact Hr].
Qed.

Lemma merge_fuel_key_sorted_start : forall n ss,
  Forall sorted_start ss -> sorted_start (merge_fuel n lt_fwd ss).
Proof.
  induction n as [|n IH]; intros ss Hs; cbn [merge_fuel]; [exact I|].
  destruct (pick_min lt_fwd None 0 ss) as [[j x]|] eqn:E; [|exact I].
  destruct (pick_min_spec lt_fwd fwd_total fwd_trans ss j x E) as (Hh & Hmin & _).
  cbn [sorted_start]. split.
  - intros y Hy. apply merge_fuel_in in Hy.
    destruct (head_at_pop ss j x Hh) as [P _].
    assert (Hy' : In y (concat ss)).
    { eapply Permutation_in; [apply Permutation_sym; exact P|]. right. exact Hy. }
    apply in_concat in Hy' as [s [Hin Hys]].
    pose proof (proj1 (Forall_forall _ _) Hs s Hin) as Hss.
    apply In_nth_error in Hin as [k Hk].
    destruct s as [|h t]; [contradiction|].
    assert (Hxh : le_of lt_fwd x h = true) by (apply (Hmin k h); exists t; exact Hk).
    rewrite le_of_fwd in Hxh. apply key_le_fstart in Hxh.
    destruct Hys as [<-|Hyt]; [exact Hxh|].
    destruct Hss as [Hh' _]. specialize (Hh' y Hyt). lia.
  - apply IH. apply pop_at_sorted_start. exact Hs.
Qed.

Theorem merge_key_sorted_start ss :
  Forall sorted_start ss -> sorted_start (merge_by lt_fwd ss).
Proof. intro H. unfold merge_by. apply merge_fuel_key_sorted_start. exact H. Qed.

Lemma Forall_merge (P : ivl -> Prop) lt ss : Forall (Forall P) ss -> Forall P (merge_by lt ss).
Proof.
  intro H. apply Forall_forall. intros x Hx. apply merge_in in Hx as [s [Hs Hxs]].
  exact (proj1 (Forall_forall P s) (proj1 (Forall_forall _ ss) H s Hs) x Hxs).
Qed.

Lemma merged_ok_intro ss : Forall (Forall wf_ivl) ss -> Forall sorted_start ss -> merged_ok ss.
Proof.
  intros Hw Hs. split; [apply Forall_merge; exact Hw|].
  split; [apply merge_key_sorted_start; exact Hs|]. intro t. apply covers_merge.
Qed.

(* ------------------------------------------------------------------------------------ *)
(* Intersection: the one-operand special case, facts about emissions, selected indices *)

Lemma inter_single_all : forall r x lp,
  inter_single (S (length r)) (mkS (Some x) r false lp) = x :: r.
Proof.
  induction r as [|y r IH]; intros x lp; [reflexivity|].
  cbn [length]. remember (S (length r)) as n eqn:En.
  cbn [inter_single cur advance exh rest fst]. subst n. rewrite IH. reflexivity.
Qed.

Lemma inter_sweep_one xs sel : inter_sweep [xs] sel = xs.
Proof.
  unfold inter_sweep, inter_sweep_opt. destruct xs as [|x r]; [reflexivity|].
  cbn [map init_state advance exh rest fst forallb cur andb].
  apply inter_single_all.
Qed.

Lemma inter_sweep_out streams sel x :
  (2 <= length streams)%nat -> In x (inter_sweep streams sel) ->
  fstart x < fend x /\ canon_ivl x /\
  forall l, In l streams -> exists c, In c l /\ fstart c <= fstart x /\ fend x <= fend c.
Proof.
  intros Hk Hx. destruct (inter_sweep_sound streams sel x Hk Hx)
    as (i & cs & c & Hi & Hs & Hcs & Hn & Hlt & ->).
  rewrite fstart_set_span, fend_set_span. split; [exact Hlt|]. split.
  - split; cbn [set_span st en]; [apply unS_canon|apply unE_canon].
  - intros l Hl. destruct (Forall2_In_right _ _ _ _ Hcs Hl) as (c0 & Hc0 & Hc0l).
    exists c0. split; [exact Hc0l|].
    pose proof (max_start_ge cs c0 Hc0). pose proof (min_end_le cs c0 Hc0). lia.
Qed.

Lemma forallb_id_false l : forallb (fun b : bool => b) l = false ->
  exists i, (i < length l)%nat /\ nth i l false = false.
Proof.
  induction l as [|m r IH]; [discriminate|]. cbn [forallb]. destruct m.
  - intro H. destruct (IH H) as (i & Hi & Hn). exists (S i). cbn [length nth]. split; [lia|exact Hn].
  - intros _. exists O. cbn [length nth]. split; [lia|reflexivity].
Qed.

Lemma emit_sel_has masks : masks <> [] -> has_sel (emit_sel masks) (length masks).
Proof.
  intro Hne. assert (Hpos : (0 < length masks)%nat) by (destruct masks; [congruence|cbn [length]; lia]).
  unfold has_sel, emit_sel. destruct (forallb (fun b => b) masks) eqn:Ea.
  - exists O. split; [exact Hpos|reflexivity].
  - destruct (existsb (fun b => b) masks) eqn:Ee.
    + destruct (forallb_id_false masks Ea) as (i & Hi & Hn). exists i. split; [exact Hi|].
      rewrite Hn. reflexivity.
    + exists O. split; [exact Hpos|reflexivity].
Qed.

Lemma inter_streams_ok streams sel :
  streams <> [] -> has_sel sel (length streams) ->
  Forall (Forall wf_ivl) streams -> Forall sorted_start streams -> Forall disjoint_sorted streams ->
  Forall (Forall canon_ivl) streams ->
  Forall wf_ivl (inter_sweep streams sel) /\ Forall canon_ivl (inter_sweep streams sel) /\
  sorted_start (inter_sweep streams sel) /\
  forall t, covers (inter_sweep streams sel) t = forallb (fun l => covers l t) streams.
Proof.
  intros Hne Hsel Hw Hs Hd Hc. destruct streams as [|xs [|ys r]]; [congruence| |].
  - rewrite inter_sweep_one. inversion Hw; inversion Hs; inversion Hc; subst.
    repeat split; auto. intro t. cbn [forallb]. rewrite andb_true_r. reflexivity.
  - set (streams := xs :: ys :: r) in *.
    assert (Hk : (2 <= length streams)%nat) by (unfold streams; cbn [length]; lia).
    assert (Hout : forall x, In x (inter_sweep streams sel) -> wf_ivl x /\ canon_ivl x).
    { intros x Hx. destruct (inter_sweep_out streams sel x Hk Hx) as (Hlt & Hcx & Hin).
      split; [|exact Hcx]. destruct (Hin xs (or_introl eq_refl)) as (c & Hcl & B1 & B2).
      assert (Wc : wf_ivl c).
      { inversion Hw as [|? ? Hwxs _]; subst. exact (proj1 (Forall_forall _ _) Hwxs c Hcl). }
      destruct Wc as (W1 & W2 & W3 & W4 & W5). unfold wf_ivl. lia. }
    split; [apply Forall_forall; intros x Hx; exact (proj1 (Hout x Hx))|].
    split; [apply Forall_forall; intros x Hx; exact (proj2 (Hout x Hx))|].
    split; [apply inter_sweep_sorted; assumption|].
    apply inter_sweep_cover; assumption.
Qed.

(* ------------------------------------------------------------------------------------ *)
(* 1. the stream invariant, by structural induction *)

Lemma Forall_mp {A} (P Q : A -> Prop) l : Forall (fun x => P x -> Q x) l -> Forall P l -> Forall Q l.
Proof. induction 1 as [|x r Hx _ IH]; intro H; [constructor|]. inversion H; subst. constructor; auto. Qed.

Lemma Forall_and_l {A} (P Q : A -> Prop) l : Forall (fun x => P x /\ Q x) l -> Forall P l.
Proof. apply Forall_impl. tauto. Qed.

Lemma covers_filter_range a b store t :
  inw a b t = true -> covers (filter (in_range a b) store) t = covers store t.
Proof.
  intro Hw. apply covers_ext_in. intros x Hi. rewrite filter_In. split; [tauto|].
  intro Hx. split; [exact Hx|]. unfold inside in Hi. unfold inw in Hw. unfold in_range.
  destruct a as [s|], b as [e|]; cbn [bnd_lo bnd_hi] in Hw; lia.
Qed.

Lemma stored_filter_ok evs p a b :
  Forall wf_ivl evs -> Forall canon_ivl evs ->
  let xs := filter p (filter (in_range a b) (sl_build evs)) in
  Forall wf_ivl xs /\ Forall canon_ivl xs /\ sorted_start xs /\
  forall t, inw a b t = true -> covers xs t = covers (filter p evs) t.
Proof.
  intros Hw Hc xs. assert (Hin : forall x, In x xs -> In x evs).
  { intros x Hx. unfold xs in Hx. apply filter_In in Hx as [Hx _]. apply filter_In in Hx as [Hx _].
    apply sl_build_in. exact Hx. }
  rewrite Forall_forall in Hw, Hc.
  split; [apply Forall_forall; intros x Hx; apply Hw, Hin, Hx|].
  split; [apply Forall_forall; intros x Hx; apply Hc, Hin, Hx|].
  split.
  - unfold xs. apply sorted_start_filter, sorted_start_filter, sorted_key_sorted_start, sl_build_sorted.
  - intros t Ht. unfold xs. apply covers_ext_in. intros x Hi. rewrite !filter_In, sl_build_in.
    split; [tauto|]. intros [Hx Hp]. split; [|exact Hp]. split; [exact Hx|].
    unfold inside in Hi. unfold inw in Ht. unfold in_range.
    destruct a as [s|], b as [e|]; cbn [bnd_lo bnd_hi] in Ht; lia.
Qed.

Lemma filter_true {A} (l : list A) : filter (fun _ => true) l = l.
Proof. induction l as [|x r IH]; [reflexivity|]. cbn [filter]. rewrite IH. reflexivity. Qed.

Ltac inv_good H :=
  inversion H as [? Hwf Hcn | | ? Hgs | ? Hne Hgs Hdj | ? ? Hgs Hgsubs Hdj | ? Hgs | ? ? Hwf Hcn]; subst.

Theorem fetch_ok env e :
  good env e -> forall a b, wf_win a b -> stream_ok env e a b (fetch env e a b false).
Proof.
  induction e as [evs| |es IH|es IH|s subs IHs IHsubs|s IHs|s f IHs|s x y IHs|s g IHs] using expr_ind';
    intros Hg a b Hw; inv_good Hg.
  - (* Stored *)
    rewrite fetch_stored. pose proof (stored_filter_ok evs (fun _ => true) a b Hwf Hcn) as S.
    cbv zeta in S. rewrite !filter_true in S. exact S.
  - (* Solid *)
    rewrite fetch_solid. destruct Hw as (Wa & Wb & Wl).
    assert (Fs : fstart (mkI a b Plain) = bnd_lo a) by reflexivity.
    assert (Fe : fend (mkI a b Plain) = bnd_hi b) by reflexivity.
    assert (Ba : NEG_INF <= bnd_lo a).
    { destruct a as [z|]; cbn [bnd_lo]; [specialize (Wa z eq_refl)|]; lia. }
    assert (Bb : bnd_hi b <= POS_INF).
    { destruct b as [z|]; cbn [bnd_hi]; [specialize (Wb z eq_refl)|]; lia. }
    split; [constructor; [|constructor]; unfold wf_ivl; rewrite Fs, Fe; lia|].
    split.
    { constructor; [|constructor]. split; cbn [st en]; intro E; subst.
      - specialize (Wa _ eq_refl). lia.
      - specialize (Wb _ eq_refl). lia. }
    split; [cbn [sorted_start]; split; [intros y []|exact I]|].
    intros t Ht. cbn [den]. rewrite covers_cons, covers_nil, orb_false_r.
    unfold inside. rewrite Fs, Fe. unfold inw in Ht. lia.
  - (* Union *)
    rewrite fetch_union.
    assert (Hall : Forall (fun s => stream_ok env s a b (fetch env s a b false)) es).
    { eapply Forall_mp; [|exact Hgs]. eapply Forall_impl; [|exact IH].
      intros s Hs Hgs'. exact (Hs Hgs' a b Hw). }
    split; [apply Forall_merge, Forall_map_intro; eapply Forall_impl; [|exact Hall];
            intros s Hs; exact (proj1 Hs)|].
    split; [apply Forall_merge, Forall_map_intro; eapply Forall_impl; [|exact Hall];
            intros s Hs; exact (proj1 (proj2 Hs))|].
    split; [apply merge_key_sorted_start, Forall_map_intro; eapply Forall_impl; [|exact Hall];
            intros s Hs; exact (proj1 (proj2 (proj2 Hs)))|].
    intros t Ht. rewrite covers_merge. cbn [den]. apply existsb_map_ext.
    eapply Forall_impl; [|exact Hall]. intros s Hs. exact (proj2 (proj2 (proj2 Hs)) t Ht).
  - (* Inter *)
    destruct es as [|e0 es]; [congruence|]. rewrite fetch_inter.
    assert (Hall : Forall (fun s => stream_ok env s a b (fetch env s a b false)) (e0 :: es)).
    { eapply Forall_mp; [|exact Hgs]. eapply Forall_impl; [|exact IH].
      intros s Hs Hgs'. exact (Hs Hgs' a b Hw). }
    set (streams := map (fun s => fetch env s a b false) (e0 :: es)).
    destruct (inter_streams_ok streams (emit_sel (map is_mask (e0 :: es)))) as (R1 & R2 & R3 & R4).
    + unfold streams. cbn [map]. discriminate.
    + unfold streams. rewrite map_length, <- (map_length is_mask). apply emit_sel_has.
      cbn [map]. discriminate.
    + apply Forall_map_intro. eapply Forall_impl; [|exact Hall]. intros s Hs; exact (proj1 Hs).
    + apply Forall_map_intro. eapply Forall_impl; [|exact Hall].
      intros s Hs; exact (proj1 (proj2 (proj2 Hs))).
    + apply Forall_map_intro. eapply Forall_impl; [|exact Hdj]. intros s Hs; exact (Hs a b Hw).
    + apply Forall_map_intro. eapply Forall_impl; [|exact Hall].
      intros s Hs; exact (proj1 (proj2 Hs)).
    + split; [exact R1|]. split; [exact R2|]. split; [exact R3|].
      intros t Ht. rewrite R4. unfold streams. cbn [den]. apply forallb_map_ext.
      eapply Forall_impl; [|exact Hall]. intros s Hs. exact (proj2 (proj2 (proj2 Hs)) t Ht).
  - (* Diff *)
    pose proof (IHs Hgs a b Hw) as (S1 & S2 & S3 & S4).
    destruct subs as [|u us].
    + rewrite fetch_diff_nil. split; [exact S1|]. split; [exact S2|]. split; [exact S3|].
      intros t Ht. cbn [den existsb negb]. rewrite andb_true_r. exact (S4 t Ht).
    + rewrite fetch_diff.
      assert (Hall : Forall (fun v => stream_ok env v a b (fetch env v a b false)) (u :: us)).
      { eapply Forall_mp; [|exact Hgsubs]. eapply Forall_impl; [|exact IHsubs].
        intros v Hv Hgv. exact (Hv Hgv a b Hw). }
      set (ss := map (fun v => fetch env v a b false) (u :: us)).
      assert (Hm : merged_ok ss).
      { apply merged_ok_intro; unfold ss; apply Forall_map_intro;
          (eapply Forall_impl; [|exact Hall]); intros v Hv;
          [exact (proj1 Hv)|exact (proj1 (proj2 (proj2 Hv)))]. }
      pose proof (Hdj a b Hw) as Hd.
      assert (Hfr : forall f, In f (diff_sweep (fetch env s a b false) ss) -> wf_ivl f /\ canon_ivl f).
      { intros f Hf. destruct (diff_sweep_fragments _ _ S1 S2 Hm f Hf) as (x & Hx & Hfx).
        eapply frag_of_wf; [|exact Hfx]. exact (proj1 (Forall_forall _ _) S1 x Hx). }
      split; [apply Forall_forall; intros f Hf; exact (proj1 (Hfr f Hf))|].
      split; [apply Forall_forall; intros f Hf; exact (proj2 (Hfr f Hf))|].
      split; [apply diff_sweep_sorted; assumption|].
      intros t Ht. rewrite (diff_sweep_cover _ _ S1 Hd Hm). cbn [den]. rewrite (S4 t Ht).
      f_equal. f_equal. unfold ss. apply existsb_map_ext.
      eapply Forall_impl; [|exact Hall]. intros v Hv. exact (proj2 (proj2 (proj2 Hv)) t Ht).
  - (* Compl *)
    pose proof (IHs Hgs a b Hw) as (S1 & S2 & S3 & S4). rewrite fetch_compl.
    destruct (compl_sweep_spec _ a b Hw S1 S3) as (C1 & C2 & C3).
    destruct (compl_out_wf_sorted _ a b Hw S1 S3) as (C4 & C5).
    pose proof (wf_win_bounds a b Hw) as [Ba Bb].
    split; [exact C4|].
    split; [apply Forall_forall; intros g Hgp; exact (proj2 (good_gap_wf _ _ g Ba Bb (C1 g Hgp)))|].
    split; [exact C5|].
    intros t Ht. cbn [den]. rewrite C3 by (apply inw_iff; exact Ht). rewrite (S4 t Ht). reflexivity.
  - (* Filt (Stored evs) *)
    rewrite fetch_filt, fetch_stored. cbn [den].
    exact (stored_filter_ok evs (feval env f) a b Hwf Hcn).
Qed.

(* ------------------------------------------------------------------------------------ *)
(* syntactic sufficient conditions for [dj]: the domain is non-empty and closed under nesting *)

Lemma dj_solid env : dj env Solid.
Proof. intros a b _. rewrite fetch_solid. cbn [disjoint_sorted]. split; [intros y []|exact I]. Qed.

(* a stored timeline whose events do not overlap each other *)
Lemma dj_stored env evs : disjoint_sorted (sl_build evs) -> dj env (Stored evs).
Proof. intros H a b _. rewrite fetch_stored. apply disjoint_sorted_filter. exact H. Qed.

(* gaps are strictly separated *)
Lemma dj_compl env s : good env s -> dj env (Compl s).
Proof.
  intros Hg a b Hw. rewrite fetch_compl.
  destruct (fetch_ok env s Hg a b Hw) as (S1 & _ & S3 & _).
  destruct (compl_sweep_spec _ a b Hw S1 S3) as (_ & C2 & _).
  apply Diff.separatedP_disjoint.
  - intros g Hgp. destruct (compl_out_wf_sorted _ a b Hw S1 S3) as (C4 & _).
    destruct (proj1 (Forall_forall _ _) C4 g Hgp) as (_ & W & _). lia.
  - exact C2.
Qed.

Lemma dj_diff env s subs : good env s -> Forall (good env) subs -> dj env s -> dj env (Diff s subs).
Proof.
  intros Hg Hgsubs Hd a b Hw. destruct subs as [|u us]; [rewrite fetch_diff_nil; exact (Hd a b Hw)|].
  rewrite fetch_diff. destruct (fetch_ok env s Hg a b Hw) as (S1 & _ & _ & _).
  apply diff_sweep_disjoint_sorted; [exact S1|exact (Hd a b Hw)|].
  apply merged_ok_intro; apply Forall_map_intro; (eapply Forall_impl; [|exact Hgsubs]);
    intros v Hv; destruct (fetch_ok env v Hv a b Hw) as (V1 & _ & V3 & _); assumption.
Qed.

Lemma dj_filt env s f : dj env s -> dj env (Filt s f).
Proof. intros Hd a b Hw. rewrite fetch_filt. apply disjoint_sorted_filter. exact (Hd a b Hw). Qed.

(* an intersection of masks has a single emitter *)
Lemma emit_sel_all_masks masks : forallb (fun b : bool => b) masks = true -> emit_sel masks = sel0.
Proof. intro H. unfold emit_sel. rewrite H. reflexivity. Qed.

Lemma forallb_map {A B} (f : A -> B) (p : B -> bool) l : forallb p (map f l) = forallb (fun x => p (f x)) l.
Proof. induction l as [|x r IH]; [reflexivity|]. cbn [map forallb]. rewrite IH. reflexivity. Qed.

Lemma dj_inter_masks env es :
  es <> [] -> forallb is_mask es = true -> Forall (good env) es -> Forall (dj env) es ->
  dj env (Inter es).
Proof.
  intros Hne Hm Hg Hd a b Hw. destruct es as [|e0 [|e1 es]]; [congruence| |].
  - rewrite fetch_inter. cbn [map]. rewrite inter_sweep_one.
    inversion Hd as [|? ? Hd0 _]; subst. exact (Hd0 a b Hw).
  - rewrite fetch_inter. rewrite emit_sel_all_masks by (rewrite forallb_map; exact Hm).
    apply inter_sweep_single_disjoint.
    + cbn [map length]. lia.
    + apply Forall_map_intro. eapply Forall_impl; [|exact Hg]. intros s Hs.
      exact (proj1 (fetch_ok env s Hs a b Hw)).
    + apply Forall_map_intro. eapply Forall_impl; [|exact Hd]. intros s Hs. exact (Hs a b Hw).
Qed.

(* ------------------------------------------------------------------------------------ *)
(* slices *)

(* the window after Timeline.__getitem__ has ordered the bounds: each given bound lies strictly
   between the sentinels and the window is not empty *)
Definition wf_win' (a b : option Z) : Prop :=
  wf_win (fst (norm_bounds a b)) (snd (norm_bounds a b)).

(* [slice] on normalised bounds *)
Definition slice_n (env : fenv) (e : expr) (a b : option Z) : list ivl :=
  match a, b with
  | None, None => fetch env e None None false
  | _, _ => fetch env (and_ e Solid) a b false
  end.

Lemma slice_unfold env e a b :
  slice env e a b false = slice_n env e (fst (norm_bounds a b)) (snd (norm_bounds a b)).
Proof. unfold slice, slice_n. destruct (norm_bounds a b) as [a' b']. reflexivity. Qed.

Lemma and_solid_cases e :
  (exists es, e = Inter es /\ and_ e Solid = Inter (es ++ [Solid])) \/ and_ e Solid = Inter [e; Solid].
Proof. destruct e; try (right; reflexivity). left. eexists. split; reflexivity. Qed.

Lemma fetch_clip env e a b :
  fetch env (Inter [e; Solid]) a b false =
  inter_sweep [fetch env e a b false; [mkI a b Plain]] (emit_sel [is_mask e; true]).
Proof. reflexivity. Qed.

Lemma good_inter_solid env es : good env (Inter es) -> good env (Inter (es ++ [Solid])).
Proof.
  intro Hg. inv_good Hg. apply g_inter.
  - destruct es; discriminate.
  - apply Forall_app. split; [exact Hgs|]. constructor; [apply g_solid|constructor].
  - apply Forall_app. split; [exact Hdj|]. constructor; [apply dj_solid|constructor].
Qed.

Lemma den_inter_solid env es t : den env (Inter (es ++ [Solid])) t = den env (Inter es) t.
Proof. cbn [den]. rewrite forallb_app. cbn [forallb den]. rewrite !andb_true_r. reflexivity. Qed.

(* what a window-restricted result satisfies *)
Definition in_win_all (a b : option Z) (xs : list ivl) : Prop :=
  forall x, In x xs -> bnd_lo a <= fstart x /\ fend x <= bnd_hi b.

Lemma sorted_start_clip a b : forall xs, sorted_start xs -> sorted_start (flat_map (clipW a b) xs).
Proof.
  induction xs as [|x r IH]; [auto|]. intros [Hx Hr]. cbn [flat_map].
  apply sorted_start_app; [|apply IH; exact Hr|].
  - unfold clipW. destruct (_ <? _); cbn [sorted_start]; [split; [intros y []|exact I]|exact I].
  - intros g y Hgx Hy. apply in_flat_map in Hy as (i & Hi & Hyi).
    apply clipW_shape in Hgx as (_ & Gs & _). apply clipW_shape in Hyi as (_ & Ys & _).
    specialize (Hx i Hi). lia.
Qed.

Lemma clip_stream_ok a b xs :
  wf_win a b -> let out := flat_map (clipW a b) xs in
  Forall wf_ivl out /\ Forall canon_ivl out /\ in_win_all a b out.
Proof.
  intros Hw out. pose proof (wf_win_bounds a b Hw) as [Ba Bb].
  assert (H : forall g, In g out -> wf_ivl g /\ canon_ivl g /\ bnd_lo a <= fstart g /\ fend g <= bnd_hi b).
  { intros g Hgo. apply in_flat_map in Hgo as (i & _ & Hgi).
    apply clipW_shape in Hgi as (_ & Gs & Ge & Glt & Geq).
    split; [unfold wf_ivl; lia|]. split; [|lia].
    rewrite Geq. split; cbn [st en]; [apply unS_canon|apply unE_canon]. }
  split; [apply Forall_forall; intros g Hgo; apply (H g Hgo)|].
  split; [apply Forall_forall; intros g Hgo; apply (H g Hgo)|].
  intros g Hgo. apply (H g Hgo).
Qed.

(* the normalised slice: stream invariant + inside the window *)
Theorem slice_n_ok env e a b :
  good env e -> wf_win a b ->
  stream_ok env e a b (slice_n env e a b) /\ in_win_all a b (slice_n env e a b).
Proof.
  intros Hg Hw.
  assert (Hopen : stream_ok env e a b (fetch env e a b false) ->
                  a = None -> b = None -> in_win_all a b (fetch env e a b false)).
  { intros (S1 & _) -> -> x Hx. cbn [bnd_lo bnd_hi].
    destruct (proj1 (Forall_forall _ _) S1 x Hx) as (W1 & W2 & W3 & W4 & W5). lia. }
  assert (Hcl : stream_ok env e a b (fetch env (and_ e Solid) a b false) /\
                in_win_all a b (fetch env (and_ e Solid) a b false)).
  { destruct (and_solid_cases e) as [(es & -> & ->)| -> ].
    - pose proof (good_inter_solid env es Hg) as Hg'.
      destruct (fetch_ok env _ Hg' a b Hw) as (S1 & S2 & S3 & S4). split.
      + split; [exact S1|]. split; [exact S2|]. split; [exact S3|].
        intros t Ht. rewrite (S4 t Ht). apply den_inter_solid.
      + intros x Hx. destruct es as [|e0 es]; [inv_good Hg; congruence|].
        cbn [app] in Hx. rewrite fetch_inter in Hx.
        apply inter_sweep_out in Hx as (_ & _ & Hin).
        * destruct (Hin [mkI a b Plain]) as (c & Hc & B1 & B2);
            [|destruct Hc as [<- | []]; exact (conj B1 B2)].
          change (e0 :: es ++ [Solid]) with ((e0 :: es) ++ [Solid]). rewrite map_app.
          apply in_or_app. right. left. reflexivity.
        * rewrite map_length. cbn [length]. rewrite app_length. cbn [length]. lia.
    - rewrite fetch_clip. destruct (fetch_ok env e Hg a b Hw) as (S1 & S2 & S3 & S4).
      rewrite (clip_sweep_masks _ _ a b S3).
      destruct (clip_stream_ok a b (fetch env e a b false) Hw) as (C1 & C2 & C3).
      split; [|exact C3]. split; [exact C1|]. split; [exact C2|].
      split; [apply sorted_start_clip; exact S3|].
      intros t Ht. rewrite clip_all_cover, Ht, andb_true_r. exact (S4 t Ht). }
  unfold slice_n. destruct a as [x|], b as [y|]; try exact Hcl.
  pose proof (fetch_ok env e Hg None None Hw) as Hs. split; [exact Hs|]. apply Hopen; auto.
Qed.

(* ------------------------------------------------------------------------------------ *)
(* 2. C01: the instants covered by a slice are the window intersected with the denotation *)

Lemma covers_outside a b xs t : in_win_all a b xs -> Forall wf_ivl xs -> inw a b t = false -> covers xs t = false.
Proof.
  intros Hin _ Ht. apply covers_false_iff. intros x Hx. destruct (Hin x Hx) as [B1 B2].
  unfold inside. unfold inw in Ht. lia.
Qed.

Theorem C01_set_algebra env e a b :
  good env e -> wf_win' a b ->
  forall t, covers (slice env e a b false) t =
            inw (fst (norm_bounds a b)) (snd (norm_bounds a b)) t && den env e t.
Proof.
  intros Hg Hw t. rewrite slice_unfold. unfold wf_win' in Hw.
  destruct (slice_n_ok env e _ _ Hg Hw) as ((S1 & S2 & S3 & S4) & Hin).
  destruct (inw (fst (norm_bounds a b)) (snd (norm_bounds a b)) t) eqn:Ht.
  - rewrite (S4 t Ht). reflexivity.
  - cbn [andb]. eapply covers_outside; eauto.
Qed.

(* ------------------------------------------------------------------------------------ *)
(* 3. C03: a forward slice is a well-formed stream *)

Lemma elem_ok_intro a b g :
  wf_ivl g -> canon_ivl g -> bnd_lo a <= fstart g -> fend g <= bnd_hi b ->
  pos_len g && in_window a b g && no_sentinel g = true.
Proof.
  intros (W1 & W2 & W3 & W4 & W5) (C1 & C2) B1 B2.
  assert (P : pos_len g = true) by (unfold pos_len; lia).
  assert (Wn : in_window a b g = true) by (unfold in_window; lia).
  rewrite P, Wn. cbn [andb]. unfold no_sentinel.
  assert (N1 : oZ_eqb (st g) (Some NEG_INF) = false).
  { destruct (oZ_eqb (st g) (Some NEG_INF)) eqn:E; [|reflexivity]. apply oZ_eqb_eq in E. congruence. }
  assert (N2 : oZ_eqb (en g) (Some POS_INF) = false).
  { destruct (oZ_eqb (en g) (Some POS_INF)) eqn:E; [|reflexivity]. apply oZ_eqb_eq in E. congruence. }
  assert (N3 : oZ_eqb (st g) (Some POS_INF) = false).
  { destruct (oZ_eqb (st g) (Some POS_INF)) eqn:E; [|reflexivity]. apply oZ_eqb_eq in E.
    unfold fstart in W4. rewrite E in W4. lia. }
  assert (N4 : oZ_eqb (en g) (Some NEG_INF) = false).
  { destruct (oZ_eqb (en g) (Some NEG_INF)) eqn:E; [|reflexivity]. apply oZ_eqb_eq in E.
    unfold fend in W5. rewrite E in W5. lia. }
  rewrite N1, N2, N3, N4. reflexivity.
Qed.

Lemma sorted_start_sorted_by : forall l, sorted_start l -> sorted_by Z.leb l = true.
Proof.
  induction l as [|x r IH]; [reflexivity|]. intros [Hx Hr]. destruct r as [|y r']; [reflexivity|].
  change (sorted_by Z.leb (x :: y :: r')) with ((fstart x <=? fstart y) && sorted_by Z.leb (y :: r')).
  rewrite (IH Hr), andb_true_r. specialize (Hx y (or_introl eq_refl)). lia.
Qed.

Lemma stream_wf_intro a b xs :
  Forall wf_ivl xs -> Forall canon_ivl xs -> sorted_start xs -> in_win_all a b xs ->
  stream_wf a b false xs = true.
Proof.
  intros Hw Hc Hs Hin. unfold stream_wf. rewrite (sorted_start_sorted_by xs Hs), andb_true_r.
  apply forallb_forall. intros g Hgx. rewrite Forall_forall in Hw, Hc.
  destruct (Hin g Hgx) as [B1 B2]. apply elem_ok_intro; auto.
Qed.

Theorem C03_forward_wf env e a b :
  good env e -> wf_win' a b ->
  stream_wf (fst (norm_bounds a b)) (snd (norm_bounds a b)) false (slice env e a b false) = true.
Proof.
  intros Hg Hw. rewrite slice_unfold. unfold wf_win' in Hw.
  destruct (slice_n_ok env e _ _ Hg Hw) as ((S1 & S2 & S3 & S4) & Hin).
  apply stream_wf_intro; assumption.
Qed.

(* ------------------------------------------------------------------------------------ *)
(* a decidable (purely syntactic) sufficient condition for the domain: [sgood e = true] can be
   checked by computation and implies [good env e] for every environment *)

Definition wf_ivlb (i : ivl) : bool :=
  (NEG_INF <=? fstart i) && (fstart i <? fend i) && (fend i <=? POS_INF) &&
  (fstart i <? POS_INF) && (NEG_INF <? fend i).
Definition canon_ivlb (i : ivl) : bool :=
  negb (oZ_eqb (st i) (Some NEG_INF)) && negb (oZ_eqb (en i) (Some POS_INF)).
Fixpoint disjoint_sortedb (l : list ivl) : bool :=
  match l with
  | [] => true
  | x :: r => forallb (fun y => fend x <=? fstart y) r && disjoint_sortedb r
  end.

Lemma wf_ivlb_ok i : wf_ivlb i = true -> wf_ivl i.
Proof. unfold wf_ivlb, wf_ivl. lia. Qed.

Lemma canon_ivlb_ok i : canon_ivlb i = true -> canon_ivl i.
Proof.
  unfold canon_ivlb. intro H. apply andb_true_iff in H as [H1 H2]. split; intro E; rewrite E in *.
  - rewrite (proj2 (oZ_eqb_eq _ _) eq_refl) in H1. discriminate H1.
  - rewrite (proj2 (oZ_eqb_eq _ _) eq_refl) in H2. discriminate H2.
Qed.

Lemma disjoint_sortedb_ok l : disjoint_sortedb l = true -> disjoint_sorted l.
Proof.
  induction l as [|x r IH]; [intros _; exact I|]. cbn [disjoint_sortedb disjoint_sorted].
  intro H. apply andb_true_iff in H as [H1 H2]. split; [|exact (IH H2)].
  intros y Hy. pose proof (proj1 (forallb_forall _ _) H1 y Hy) as Hxy. cbv beta in Hxy. lia.
Qed.

Lemma forallb_Forall {A} (p : A -> bool) (P : A -> Prop) l :
  (forall x, p x = true -> P x) -> forallb p l = true -> Forall P l.
Proof.
  intros Hp H. apply Forall_forall. intros x Hx. apply Hp.
  exact (proj1 (forallb_forall p l) H x Hx).
Qed.

(* streams that are internally non-overlapping for syntactic reasons *)
Fixpoint sdj (e : expr) : bool :=
  match e with
  | Stored evs => disjoint_sortedb (sl_build evs)
  | Solid => true
  | Compl _ => true
  | Diff s _ => sdj s
  | Filt s _ => sdj s
  | Inter es => match es with [] => false | _ => forallb is_mask es && forallb sdj es end
  | _ => false
  end.

Definition stored_ok (evs : list ivl) : bool := forallb wf_ivlb evs && forallb canon_ivlb evs.

Fixpoint sgood (e : expr) : bool :=
  match e with
  | Stored evs => stored_ok evs
  | Solid => true
  | Union es => forallb sgood es
  | Inter es => match es with [] => false | _ => forallb sgood es && forallb sdj es end
  | Diff s subs => sgood s && forallb sgood subs && sdj s
  | Compl s => sgood s
  | Filt s _ => match s with Stored evs => stored_ok evs | _ => false end
  | _ => false
  end.

Lemma stored_ok_ok evs : stored_ok evs = true -> Forall wf_ivl evs /\ Forall canon_ivl evs.
Proof.
  unfold stored_ok. intro H. apply andb_true_iff in H as [H1 H2]. split.
  - exact (forallb_Forall _ _ _ wf_ivlb_ok H1).
  - exact (forallb_Forall _ _ _ canon_ivlb_ok H2).
Qed.

Lemma Forall_forallb_mp {A} (p : A -> bool) (P : A -> Prop) l :
  Forall (fun x => p x = true -> P x) l -> forallb p l = true -> Forall P l.
Proof.
  induction 1 as [|x r Hx _ IH]; intro H; [constructor|]. cbn [forallb] in H.
  apply andb_true_iff in H as [H1 H2]. constructor; auto.
Qed.

Theorem sgood_sound env e : sgood e = true -> good env e /\ (sdj e = true -> dj env e).
Proof.
  induction e as [evs| |es IH|es IH|s subs IHs IHsubs|s IHs|s f IHs|s x y IHs|s g IHs] using expr_ind';
    cbn [sgood sdj]; intro H; try discriminate H.
  - destruct (stored_ok_ok evs H) as [Hw Hc]. split; [apply g_stored; assumption|].
    intro Hd. apply dj_stored, disjoint_sortedb_ok, Hd.
  - split; [apply g_solid|intros _; apply dj_solid].
  - split; [|intro Hd; discriminate Hd]. apply g_union.
    eapply Forall_forallb_mp; [|exact H]. eapply Forall_impl; [|exact IH]. intros s Hs Hsg. exact (proj1 (Hs Hsg)).
  - destruct es as [|e0 es]; [discriminate H|]. apply andb_true_iff in H as [H1 H2].
    assert (Hgs : Forall (good env) (e0 :: es)).
    { eapply Forall_forallb_mp; [|exact H1]. eapply Forall_impl; [|exact IH].
      intros s Hs Hsg. exact (proj1 (Hs Hsg)). }
    assert (Hboth : forallb (fun s => sgood s && sdj s) (e0 :: es) = true).
    { apply forallb_forall. intros s Hs.
      rewrite (proj1 (forallb_forall _ _) H1 s Hs), (proj1 (forallb_forall _ _) H2 s Hs). reflexivity. }
    assert (Hdj : Forall (dj env) (e0 :: es)).
    { eapply Forall_forallb_mp; [|exact Hboth]. eapply Forall_impl; [|exact IH].
      intros s Hs Hsg. apply andb_true_iff in Hsg as [Hsg Hsd]. exact (proj2 (Hs Hsg) Hsd). }
    split; [apply g_inter; [discriminate|exact Hgs|exact Hdj]|].
    intro Hd. apply andb_true_iff in Hd as [Hm _].
    apply dj_inter_masks; [discriminate|exact Hm|exact Hgs|exact Hdj].
  - apply andb_true_iff in H as [H Hsd]. apply andb_true_iff in H as [Hsg Hsubs].
    destruct (IHs Hsg) as [Hgs Hds].
    assert (Hgsubs : Forall (good env) subs).
    { eapply Forall_forallb_mp; [|exact Hsubs]. eapply Forall_impl; [|exact IHsubs].
      intros u Hu Hug. exact (proj1 (Hu Hug)). }
    split; [apply g_diff; auto|]. intros _. apply dj_diff; auto.
  - destruct (IHs H) as [Hgs _]. split; [apply g_compl; exact Hgs|]. intros _. apply dj_compl, Hgs.
  - destruct s; try discriminate H. destruct (stored_ok_ok evs H) as [Hw Hc].
    split; [apply g_filt; assumption|]. intro Hd. apply dj_filt. exact (proj2 (IHs H) Hd).
Qed.

Corollary sgood_good env e : sgood e = true -> good env e.
Proof. intro H. exact (proj1 (sgood_sound env e H)). Qed.

(* ------------------------------------------------------------------------------------ *)
(* the hypotheses are satisfiable: a concrete nested expression inside the domain *)

Module Examples.
  Definition ev (s e : Z) (id : N) : ivl := mkI (Some s) (Some e) (Rich id).

  (* A has a nested event and a duplicate, B overlaps A and is unbounded to the right *)
  Definition A : list ivl := [ev 0 10 1; ev 2 5 2; ev 2 5 2; ev 20 30 3].
  Definition B : list ivl := [ev 8 12 4; mkI (Some 25) None (Rich 5)].
  Definition C : list ivl := [ev 3 22 6].
  (* two internally disjoint timelines, inserted out of order *)
  Definition D1 : list ivl := [ev 15 18 7; ev 0 4 8; ev 4 9 9].
  Definition D2 : list ivl := [mkI None (Some 2) (Rich 10); ev 3 16 11].

  (* ~C - (A | B) : the source is a mask, the subtractor has nested and duplicate events *)
  Definition e1 : expr := Diff (Compl (Stored C)) [Union [Stored A; Stored B]].
  (* D1 & D2 & ~(A | B) *)
  Definition e2 : expr := Inter [Stored D1; Stored D2; Compl (Union [Stored A; Stored B])].
  (* everything together, with a filter and a nested difference as intersection operand *)
  Definition e3 : expr :=
    Union [e1; e2; Stored A;
           Inter [Diff (Stored D1) [Stored A]; Filt (Stored D2) (FCmp PStart Ge (VInt 0))];
           Filt (Stored A) (FCmp (PDur 1) Gt (VInt 3))].

  Definition env0 : fenv := [].

  Ltac wf_list :=
    repeat constructor;
    unfold wf_ivl, canon_ivl, fstart, fend, NEG_INF, POS_INF; cbn [st en ev]; try lia; try discriminate.

  Lemma A_ok : Forall wf_ivl A /\ Forall canon_ivl A. Proof. split; wf_list. Qed.
  Lemma B_ok : Forall wf_ivl B /\ Forall canon_ivl B. Proof. split; wf_list. Qed.
  Lemma C_ok : Forall wf_ivl C /\ Forall canon_ivl C. Proof. split; wf_list. Qed.
  Lemma D1_ok : Forall wf_ivl D1 /\ Forall canon_ivl D1. Proof. split; wf_list. Qed.
  Lemma D2_ok : Forall wf_ivl D2 /\ Forall canon_ivl D2. Proof. split; wf_list. Qed.

  Ltac dj_store :=
    apply dj_stored; vm_compute; repeat split;
    intros y Hy; repeat (destruct Hy as [<-|Hy]; [vm_compute; discriminate|]); destruct Hy.

  Lemma D1_dj : dj env0 (Stored D1). Proof. dj_store. Qed.
  Lemma D2_dj : dj env0 (Stored D2). Proof. dj_store. Qed.

  Lemma gA : good env0 (Stored A). Proof. apply g_stored; apply A_ok. Qed.
  Lemma gB : good env0 (Stored B). Proof. apply g_stored; apply B_ok. Qed.
  Lemma gC : good env0 (Stored C). Proof. apply g_stored; apply C_ok. Qed.
  Lemma gD1 : good env0 (Stored D1). Proof. apply g_stored; apply D1_ok. Qed.
  Lemma gD2 : good env0 (Stored D2). Proof. apply g_stored; apply D2_ok. Qed.
  Lemma gAB : good env0 (Union [Stored A; Stored B]).
  Proof. apply g_union. constructor; [exact gA|]. constructor; [exact gB|constructor]. Qed.

  Lemma e1_good : good env0 e1.
  Proof.
    apply g_diff.
    - apply g_compl, gC.
    - constructor; [exact gAB|constructor].
    - apply dj_compl, gC.
  Qed.

  Lemma e2_good : good env0 e2.
  Proof.
    apply g_inter; [discriminate| |].
    - constructor; [exact gD1|]. constructor; [exact gD2|]. constructor; [|constructor].
      apply g_compl, gAB.
    - constructor; [exact D1_dj|]. constructor; [exact D2_dj|]. constructor; [|constructor].
      apply dj_compl, gAB.
  Qed.

  Lemma e3_good : good env0 e3.
  Proof.
    apply g_union. constructor; [exact e1_good|]. constructor; [exact e2_good|].
    constructor; [exact gA|]. constructor; [|constructor; [|constructor]].
    - apply g_inter; [discriminate| |].
      + constructor; [|constructor; [|constructor]].
        * apply g_diff; [exact gD1|constructor; [exact gA|constructor]|exact D1_dj].
        * apply g_filt; apply D2_ok.
      + constructor; [|constructor; [|constructor]].
        * apply dj_diff; [exact gD1|constructor; [exact gA|constructor]|exact D1_dj].
        * apply dj_filt, D2_dj.
    - apply g_filt; apply A_ok.
  Qed.

  (* the same by computation *)
  Example e3_good' : good env0 e3.
  Proof. apply sgood_good. vm_compute. reflexivity. Qed.

  (* an intersection of masks is again usable as an operand / source *)
  Example masks_dj : dj env0 (Inter [Compl (Stored A); Compl (Stored C); Solid]).
  Proof.
    apply dj_inter_masks; [discriminate|reflexivity| |].
    - constructor; [apply g_compl, gA|]. constructor; [apply g_compl, gC|].
      constructor; [apply g_solid|constructor].
    - constructor; [apply dj_compl, gA|]. constructor; [apply dj_compl, gC|].
      constructor; [apply dj_solid|constructor].
  Qed.

  Lemma win_ok : wf_win' (Some 40) (Some 1).
  Proof. unfold wf_win', wf_win. cbn. unfold NEG_INF, POS_INF. repeat split; intros z E; injection E as <-; lia. Qed.

  Lemma win_open : wf_win' None None.
  Proof. unfold wf_win', wf_win. cbn. unfold NEG_INF, POS_INF. repeat split; try discriminate. Qed.

  (* the theorems, instantiated (bounds given in the wrong order on purpose) *)
  Example e3_C01 t : covers (slice env0 e3 (Some 40) (Some 1) false) t = inw (Some 1) (Some 40) t && den env0 e3 t.
  Proof. exact (C01_set_algebra env0 e3 (Some 40) (Some 1) e3_good win_ok t). Qed.

  Example e3_C03 : stream_wf (Some 1) (Some 40) false (slice env0 e3 (Some 40) (Some 1) false) = true.
  Proof. exact (C03_forward_wf env0 e3 (Some 40) (Some 1) e3_good win_ok). Qed.

  Example e3_C03_open : stream_wf None None false (slice env0 e3 None None false) = true.
  Proof. exact (C03_forward_wf env0 e3 None None e3_good win_open). Qed.
End Examples.

Print Assumptions fetch_ok.
Print Assumptions slice_n_ok.
Print Assumptions C01_set_algebra.
Print Assumptions C03_forward_wf.
Print Assumptions dj_stored.
Print Assumptions dj_compl.
Print Assumptions dj_diff.
Print Assumptions dj_filt.
Print Assumptions dj_inter_masks.
Print Assumptions sgood_sound.
Print Assumptions Examples.e3_good.
