(* Proofs/GenEq_small_cache.v — tie C, third extension (tag "small"), the part for C09:
   CachedTimeline.__init__ and CachedTimeline._get_key as generated from their source text
   (Gen/Source.v), against Model/Cache.v (cinit; the flag `masked`) and Model/Small.v (get_key). *)
From CG Require Import Model.Slice Model.Cache Model.Loop Model.Small Gen.Source.

(* ---- _is_mask: a cache is a mask exactly when its source is ---- *)
Theorem g_cached_is_mask_eq : forall (TL : Type) (ism : TL -> bool) (s : TL), g_cached_is_mask s ism = ism s.
Proof. reflexivity. Qed.
Print Assumptions g_cached_is_mask_eq.

(* ---- __init__ ---- *)
Theorem g_cached_init_eq : forall (TL : Type) (ism : TL -> bool) (s : TL) ttl k,
  g_cached_init ism s ttl k =
  mkCacheRec s ttl (if ism s then None else Some (keys_of k)) false [] [] [] 0%N.
Proof. intros. unfold g_cached_init. destruct (ism s); [reflexivity|]. destruct k; reflexivity. Qed.
Print Assumptions g_cached_init_eq.

(* a new cache starts in the model's initial state, masked exactly when its source is a mask, with the
   source and the ttl it was given, its keys not validated yet *)
Theorem g_cached_init_is_cinit : forall (TL : Type) (ism : TL -> bool) (s : TL) ttl k t0,
  let o := g_cached_init ism s ttl k in
  cache_state o t0 = cinit t0 /\ cache_masked o = ism s /\ cr_source o = s /\ cr_ttl o = ttl /\
  cr_key_validated o = false.
Proof.
  intros. subst o. rewrite g_cached_init_eq. unfold cache_state, cache_masked, cinit. cbn.
  repeat split. destruct (ism s); reflexivity.
Qed.
Print Assumptions g_cached_init_is_cinit.

(* the key argument: a single name is the one-field key; a sequence is taken as it is *)
Theorem g_cached_init_keys : forall (TL : Type) (ism : TL -> bool) (s : TL) ttl,
  ism s = false ->
  (forall n, cr_key_fields (g_cached_init ism s ttl (KStr n)) = Some [n]) /\
  (forall l, cr_key_fields (g_cached_init ism s ttl (KSeq l)) = Some l).
Proof. intros TL ism s ttl H. split; intros; rewrite g_cached_init_eq, H; reflexivity. Qed.

(* with the model's is_mask (proved equal to the generated _is_mask properties in GenEq_small_mask.v) *)
Example g_cached_init_examples :
  let ev := Stored [mkI (Some 1) (Some 2) (Rich 1)] in
  cache_masked (g_cached_init is_mask ev 60 (KStr 5%N)) = false /\
  cache_masked (g_cached_init is_mask (Compl ev) 60 (KStr 5%N)) = true /\
  cr_key_fields (g_cached_init is_mask ev 60 (KSeq [1%N; 2%N])) = Some [1%N; 2%N].
Proof. cbv zeta. repeat split. Qed.

(* ---- _get_key ---- *)
Theorem g_cache_get_key_eq : forall (FV : Type) kf (ga : ivl -> N -> option FV) i,
  g_cache_get_key kf ga i = get_key kf ga i.
Proof. intros FV [fs|] ga i; reflexivity. Qed.
Print Assumptions g_cache_get_key_eq.

(* a mask cache has no keys; otherwise the key is the tuple of ALL the key fields, in order, and one
   missing field is a TypeError *)
Lemma opt_all_some : forall (A : Type) (l : list (option A)) vs,
  opt_all l = Some vs <-> l = map Some vs.
Proof.
  intros A l. induction l as [|[v|] r IH]; intro vs; cbn [opt_all].
  - split; intro H; [injection H as <-; reflexivity|]. destruct vs; [reflexivity|discriminate].
  - destruct (opt_all r) as [ws|] eqn:E.
    + split; intro H.
      * injection H as <-. cbn [map]. f_equal. apply IH. reflexivity.
      * destruct vs as [|w ws']; [discriminate|]. cbn [map] in H. injection H as -> Hr.
        apply IH in Hr. injection Hr as ->. reflexivity.
    + split; intro H; [discriminate|].
      destruct vs as [|w ws']; [discriminate|]. cbn [map] in H. injection H as _ Hr.
      apply IH in Hr. discriminate.
  - split; intro H; [discriminate|]. destruct vs; discriminate.
Qed.

Lemma map_Some_inj : forall (A : Type) (a b : list A), map Some a = map Some b -> a = b.
Proof.
  intros A a. induction a as [|x r IH]; intros [|y s] H; try discriminate; [reflexivity|].
  cbn [map] in H. injection H as -> Hr. f_equal. apply IH. exact Hr.
Qed.

Theorem g_cache_get_key_spec : forall (FV : Type) kf (ga : ivl -> N -> option FV) i,
  match kf with
  | None => g_cache_get_key kf ga i = RDone None
  | Some fs =>
    (forall vs, g_cache_get_key kf ga i = RDone (Some vs) <-> map (ga i) fs = map Some vs) /\
    (g_cache_get_key kf ga i = RRaise TypeError <-> exists f, In f fs /\ ga i f = None)
  end.
Proof.
  intros FV [fs|] ga i; rewrite g_cache_get_key_eq; [|reflexivity].
  unfold get_key. split.
  - intro vs. destruct (opt_all (map (ga i) fs)) as [ws|] eqn:E.
    + apply opt_all_some in E. split; intro H.
      * injection H as <-. exact E.
      * rewrite E in H. f_equal. f_equal. apply map_Some_inj. exact H.
    + split; intro H; [discriminate|]. apply opt_all_some in H. congruence.
  - destruct (opt_all (map (ga i) fs)) as [ws|] eqn:E.
    + split; intro H; [discriminate|]. destruct H as [f [Hin Hf]].
      apply opt_all_some in E. exfalso.
      assert (Hm : In (ga i f) (map (ga i) fs)) by (apply in_map; exact Hin).
      rewrite E, Hf in Hm. apply in_map_iff in Hm. destruct Hm as [x [Hx _]]. discriminate.
    + split; intro H; [|reflexivity]. clear H.
      induction fs as [|f r IH]; [discriminate|]. cbn [map opt_all] in E.
      destruct (ga i f) as [v|] eqn:Ef.
      * destruct (opt_all (map (ga i) r)) eqn:Er; [discriminate|].
        destruct (IH eq_refl) as [f' [Hin Hf']]. exists f'. split; [right; exact Hin|exact Hf'].
      * exists f. split; [left; reflexivity|exact Ef].
Qed.
Print Assumptions g_cache_get_key_spec.

(* the model's key_of (Model/Cache.v: one key field, held in the payload id) is _get_key for the one-field
   key whose attribute the payload carries; a payload-less interval has no such attribute *)
Definition id_getattr (name : N) (i : ivl) (f : N) : option N :=
  if N.eqb f name then key_of i else None.
Theorem g_cache_get_key_model : forall name i,
  g_cache_get_key (Some [name]) (id_getattr name) i =
  match key_of i with Some k => RDone (Some [k]) | None => RRaise TypeError end.
Proof.
  intros name i. rewrite g_cache_get_key_eq. unfold get_key, id_getattr. cbn [map opt_all].
  rewrite N.eqb_refl. destruct (key_of i); reflexivity.
Qed.
Print Assumptions g_cache_get_key_model.

Example g_cache_get_key_examples :
  g_cache_get_key (@None (list N)) (id_getattr 5%N) (mkI (Some 1) (Some 2) Plain) = RDone None /\
  g_cache_get_key (Some [5%N]) (id_getattr 5%N) (mkI (Some 1) (Some 2) (Rich 7012)) = RDone (Some [7%N]) /\
  g_cache_get_key (Some [5%N]) (id_getattr 5%N) (mkI (Some 1) (Some 2) Plain) = RRaise TypeError /\
  g_cache_get_key (Some [5%N; 6%N]) (id_getattr 5%N) (mkI (Some 1) (Some 2) (Rich 7012)) = RRaise TypeError.
Proof. vm_compute. repeat split. Qed.
