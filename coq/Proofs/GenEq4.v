(* Proofs/GenEq4.v — tie C for calgebra/mutable/memory.py: the definition generated from the source
   text of MemoryTimeline._fetch_static (Gen/Source.v: the bisect_right on finite_start, the
   `for i in range(end_idx)` loop with its `continue`, `reversed`) equals Model/Expr.v's
   fetch_static on every store that is sorted by start — which every store built by sl_add is
   (Proofs/Stored.v: sl_build_sorted, sl_add_sorted).  bisect_right is the standard library's
   binary search as it runs on any list (Model/Loop.v); sortedness is what makes it agree with the
   model's "leading elements with finite_start <= end". *)
From CG Require Import Model.Loop Gen.Source Model.Expr Proofs.Defs.
From Coq Require Import Lia ZifyBool.

(* ---- the binary search ---- *)
Lemma take_le_start_prefix v l : exists rest, l = take_le_start v l ++ rest.
Proof.
  induction l as [|x r [rest IH]]; [exists []; reflexivity|]. cbn [take_le_start].
  destruct (fstart x <=? v); [exists rest; cbn [app]; f_equal; exact IH|exists (x :: r); reflexivity].
Qed.

Lemma take_le_start_length v l : (length (take_le_start v l) <= length l)%nat.
Proof.
  destruct (take_le_start_prefix v l) as [rest E]. rewrite E at 2. rewrite app_length. lia.
Qed.

Lemma sorted_nth_le v : forall l, sorted_start l ->
  forall i x, nth_error l i = Some x ->
    (fstart x <=? v) = (Nat.ltb i (length (take_le_start v l))).
Proof.
  induction l as [|x0 r IH]; intros Hs i x Hn; [destruct i; discriminate|].
  cbn [take_le_start]. destruct Hs as [Hhd Hs]. destruct i as [|j]; cbn [nth_error] in Hn.
  - injection Hn as <-. destruct (fstart x0 <=? v); reflexivity.
  - destruct (fstart x0 <=? v) eqn:E.
    + cbn [length]. rewrite (IH Hs j x Hn). reflexivity.
    + cbn [length]. apply nth_error_In in Hn. specialize (Hhd x Hn).
      apply Z.leb_gt in E. apply Z.leb_gt. lia.
Qed.

Lemma bisect_go_sorted v l : sorted_start l ->
  let cnt := Z.of_nat (length (take_le_start v l)) in
  forall fuel lo hi,
    0 <= lo <= cnt -> cnt <= hi <= Z.of_nat (length l) -> hi - lo < Z.of_nat fuel ->
    bisect_go fuel (fun i => fstart i) l v lo hi = cnt.
Proof.
  intros Hs cnt. induction fuel as [|f IH]; intros lo hi Hlo Hhi Hf; [lia|].
  cbn [bisect_go]. destruct (lo <? hi) eqn:E; [|apply Z.ltb_ge in E; lia].
  apply Z.ltb_lt in E.
  assert (Hmid : lo <= (lo + hi) / 2 < hi).
  { split; [apply Z.div_le_lower_bound; lia|apply Z.div_lt_upper_bound; lia]. }
  set (mid := (lo + hi) / 2) in *.
  destruct (nth_error l (Z.to_nat mid)) as [x|] eqn:En.
  2:{ apply nth_error_None in En. lia. }
  pose proof (sorted_nth_le v l Hs _ _ En) as Hx.
  destruct (v <? fstart x) eqn:Ev.
  - apply Z.ltb_lt in Ev. assert (Hf' : (fstart x <=? v) = false) by (apply Z.leb_gt; lia).
    rewrite Hf' in Hx. symmetry in Hx. apply Nat.ltb_ge in Hx. apply IH; unfold cnt; lia.
  - apply Z.ltb_ge in Ev. assert (Hf' : (fstart x <=? v) = true) by (apply Z.leb_le; lia).
    rewrite Hf' in Hx. symmetry in Hx. apply Nat.ltb_lt in Hx. apply IH; unfold cnt; lia.
Qed.

Lemma bisect_right_sorted v l : sorted_start l ->
  bisect_right (fun i => fstart i) l v = Z.of_nat (length (take_le_start v l)).
Proof.
  intro Hs. unfold bisect_right. apply bisect_go_sorted; [exact Hs| | |].
  - lia.
  - pose proof (take_le_start_length v l). lia.
  - rewrite Nat2Z.inj_succ. lia.
Qed.

(* ---- the index loop ---- *)
Lemma py_index_nth {A : Type} (d : A) l (i : nat) :
  (i < length l)%nat -> py_index d l (Z.of_nat i) = nth i l d.
Proof.
  intro H. unfold py_index.
  replace (Z.of_nat i <? 0) with false by (symmetry; apply Z.ltb_ge; lia).
  replace (0 <=? Z.of_nat i) with true by (symmetry; apply Z.leb_le; lia).
  replace (Z.of_nat i <? Z.of_nat (length l)) with true by (symmetry; apply Z.ltb_lt; lia).
  cbn [andb]. rewrite Nat2Z.id. reflexivity.
Qed.

Lemma skipn_nth_cons {A : Type} (d : A) : forall l off,
  (off < length l)%nat -> skipn off l = nth off l d :: skipn (S off) l.
Proof.
  induction l as [|x r IH]; intros off H; [cbn in H; lia|].
  destruct off as [|o]; [reflexivity|]. cbn [skipn nth]. apply IH. cbn in H. lia.
Qed.

Lemma index_loop (l : list ivl) (skip : ivl -> bool)
      (body : list ivl -> Z -> list ivl * list ivl * ctl) (post : list ivl -> list ivl) :
  (forall m i, body m i =
               let x := py_index (mkI None None Plain) l i in
               ([], (if skip x then m else m ++ [x]), Cont)) ->
  forall k off m, (off + k <= length l)%nat ->
    run_for body post m (map Z.of_nat (seq off k)) =
    post (m ++ filter (fun x => negb (skip x)) (firstn k (skipn off l))).
Proof.
  intros Hb. induction k as [|k IH]; intros off m H.
  - cbn [seq map run_for firstn filter]. rewrite app_nil_r. reflexivity.
  - cbn [seq map run_for]. rewrite Hb. cbv zeta. rewrite py_index_nth by lia.
    rewrite (skipn_nth_cons (mkI None None Plain) l off) by lia.
    cbn [firstn filter app]. rewrite IH by lia.
    destruct (skip (nth off l (mkI None None Plain))); cbn [negb].
    + reflexivity.
    + rewrite <- app_assoc. reflexivity.
Qed.

Lemma firstn_take v l : firstn (length (take_le_start v l)) l = take_le_start v l.
Proof.
  destruct (take_le_start_prefix v l) as [rest E]. rewrite E at 2.
  rewrite firstn_app, Nat.sub_diag, firstn_all. cbn [firstn]. apply app_nil_r.
Qed.

(* HEADLINE *)
Theorem g_mem_fetch_static_eq store a b rv :
  sorted_start store -> g_mem_fetch_static store a b rv = fetch_static store a b rv.
Proof.
  intro Hs. unfold g_mem_fetch_static, fetch_static. cbv zeta.
  destruct store as [|x0 r]; [destruct b, rv; reflexivity|].
  change (nonempty (x0 :: r)) with true. cbn [negb].
  set (store := x0 :: r) in *.
  set (skip := fun i : ivl => match a with Some s => fend i <=? s | None => false end).
  assert (Hfil : forall l, filter (fun i => match a with Some s => negb (fend i <=? s) | None => true end) l
                           = filter (fun x => negb (skip x)) l).
  { intro l. apply filter_ext. intro i. unfold skip. destruct a; reflexivity. }
  rewrite Hfil.
  match goal with
  | |- run_for ?body ?post _ (zrange ?n) = _ =>
    assert (Hn : exists k, n = Z.of_nat k /\ (k <= length store)%nat /\
                           firstn k store = match b with Some e => take_le_start e store | None => store end)
  end.
  { destruct b as [e|].
    - exists (length (take_le_start e store)). rewrite bisect_right_sorted by exact Hs.
      split; [reflexivity|]. split; [apply take_le_start_length|apply firstn_take].
    - exists (length store). split; [reflexivity|]. split; [lia|apply firstn_all]. }
  destruct Hn as (k & -> & Hk & Hfirst).
  unfold zrange. rewrite Nat2Z.id.
  rewrite (index_loop store skip) with (off := O); [| |lia].
  - cbn [skipn app]. rewrite Hfirst. destruct rv; reflexivity.
  - intros m i. cbv zeta. unfold skip, is_none, ozd.
    destruct a; cbn [negb andb]; [|reflexivity].
    destruct (fend (py_index (mkI None None Plain) store i) <=? z); reflexivity.
Qed.

(* the hypothesis is satisfiable, and holds of every store the library builds *)
Example g_mem_fetch_static_nonvacuous :
  sorted_start [mkI (Some 1) (Some 5) Plain; mkI (Some 3) (Some 4) Plain].
Proof. cbn. repeat split; intros; repeat match goal with H : _ \/ _ |- _ => destruct H end; subst; cbn; try lia; contradiction. Qed.

(* and without it the two differ: on an unsorted list the binary search and the linear scan part ways *)
Example fetch_static_unsorted_differs :
  let store := [mkI (Some 9) (Some 10) Plain; mkI (Some 1) (Some 2) Plain; mkI (Some 1) (Some 2) Plain] in
  g_mem_fetch_static store None (Some 5) false <> fetch_static store None (Some 5) false.
Proof. vm_compute. discriminate. Qed.

Print Assumptions g_mem_fetch_static_eq.

(* ------------------------------------------------------------------------------------------ *)
(* headline theorems of the property files restated on the GENERATED definitions              *)
From CG Require Import Proofs.Stored.

Theorem src_stored_complete : forall store a b rv x,
  sorted_key store = true -> In x store -> wf_ivl x -> overlaps_win a b x ->
  In x (g_mem_fetch_static store a b rv).
Proof.
  intros store a b rv x Hs Hx Hw Ho.
  rewrite g_mem_fetch_static_eq by (apply sorted_key_sorted_start; exact Hs).
  apply fetch_static_complete; assumption.
Qed.
Print Assumptions src_stored_complete.

Theorem src_stored_is_model_on_built_stores : forall evs a b rv,
  g_mem_fetch_static (sl_build evs) a b rv = fetch_static (sl_build evs) a b rv.
Proof.
  intros. apply g_mem_fetch_static_eq. apply sorted_key_sorted_start, sl_build_sorted.
Qed.
Print Assumptions src_stored_is_model_on_built_stores.
