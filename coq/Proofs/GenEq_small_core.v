(* Proofs/GenEq_small_core.v — tie C, third extension (tag "small"), the part for C01:
   the module constants, Interval.__post_init__ / duration / from_datetimes, _flatten_sources, the
   constructors of Union / Intersection / Filtered / Difference / Complement, the operator methods of
   Timeline (| & - ~) and flatten(), as generated from their source text (Gen/Source.v), against
   Model/Base.v, Model/Expr.v (or_, and_, sub_, inv_, flatten_), Model/Slice.v (or_kind, and_kind) and
   Model/Small.v.  The constructor a method calls (`Union(self, other)`) is a function parameter of its
   generated definition; the theorems instantiate it with the GENERATED __init__ of that class followed by
   the decoding of the built object into the model's expression. *)
From CG Require Import Model.Slice Model.Cache Model.Loop Model.Small Gen.Source.
From Coq Require Import Lia.

(* ---- util.py / interval.py: the constants (also the table GLOBAL_CONSTS of the translator) ---- *)
Theorem g_consts_eq :
  g_const_SECOND = 1 /\ g_const_MINUTE = 60 /\ g_const_HOUR = 3600 /\ g_const_DAY = 86400 /\
  g_const_WEEK = 604800 /\ g_const_MONTH = 2678400 /\ g_const_YEAR = 31536000 /\
  g_const_NEG_INF = NEG_INF /\ g_const_POS_INF = POS_INF.
Proof. repeat split; reflexivity. Qed.
Print Assumptions g_consts_eq.

(* ---- interval.py ---- *)
Theorem g_interval_post_init_eq : forall i, g_interval_post_init i = post_init i.
Proof.
  intro i. unfold g_interval_post_init, post_init, is_none, ozd.
  destruct (st i), (en i); cbn [negb andb]; reflexivity.
Qed.
Print Assumptions g_interval_post_init_eq.

(* what the validation accepts: exactly the intervals whose finite bounds are ordered *)
Theorem g_interval_post_init_ok : forall i,
  g_interval_post_init i = RDone tt <-> (forall s e, st i = Some s -> en i = Some e -> s <= e).
Proof.
  intro i. rewrite g_interval_post_init_eq. unfold post_init.
  destruct (st i) as [s|], (en i) as [e|]; try (split; [intros _ ? ? ?; congruence | reflexivity]).
  destruct (s >? e) eqn:E; split; intro H.
  - discriminate.
  - specialize (H s e eq_refl eq_refl). lia.
  - intros s0 e0 Hs He. injection Hs as <-. injection He as <-. lia.
  - reflexivity.
Qed.
Print Assumptions g_interval_post_init_ok.

(* and what it rejects is a ValueError *)
Theorem g_interval_post_init_rejects : forall i s e,
  st i = Some s -> en i = Some e -> e < s -> g_interval_post_init i = RRaise ValueError.
Proof.
  intros i s e Hs He Hlt. rewrite g_interval_post_init_eq. unfold post_init. rewrite Hs, He.
  destruct (s >? e) eqn:E; [reflexivity|lia].
Qed.

Theorem g_interval_duration_eq : forall i, g_interval_duration i = ivl_duration i.
Proof.
  intro i. unfold g_interval_duration, ivl_duration, is_none, ozd.
  destruct (st i), (en i); reflexivity.
Qed.
Print Assumptions g_interval_duration_eq.

(* the duration the filters of the model compare (Model/Expr.v, eval_cmp on PDur) is this one *)
Theorem eval_cmp_duration : forall env scale c k i,
  eval_cmp env (PDur scale) c (VInt k) i =
  match g_interval_duration i with
  | Some d => cmpZ c d (k * scale)
  | None => match c with Ge | Gt | Ne => true | _ => false end
  end.
Proof.
  intros. rewrite g_interval_duration_eq. unfold eval_cmp, ivl_duration.
  destruct (st i), (en i); reflexivity.
Qed.

(* from_datetimes: cls(..) is the dataclass constructor, i.e. the stores followed by the GENERATED
   __post_init__ *)
Theorem g_interval_from_datetimes_eq : forall p a b,
  g_interval_from_datetimes (new_interval g_interval_post_init p) a b = from_datetimes p a b.
Proof.
  intros p [s zs|] [e ze|]; cbn [g_interval_from_datetimes from_datetimes]; try reflexivity.
  unfold new_interval. rewrite g_interval_post_init_eq. unfold post_init. cbn [st en].
  destruct (s >? e); reflexivity.
Qed.
Print Assumptions g_interval_from_datetimes_eq.

Example from_datetimes_examples :
  from_datetimes (Rich 7) (DAware 10 0) (DAware 20 3) = RDone (mkI (Some 10) (Some 20) (Rich 7)) /\
  from_datetimes Plain (DAware 20 0) (DAware 10 0) = RRaise ValueError /\
  from_datetimes Plain DNaive (DAware 10 0) = RRaise ValueError /\
  from_datetimes Plain (DAware 5 1) (DAware 5 2) = RDone (mkI (Some 5) (Some 5) Plain).
Proof. repeat split. Qed.

(* ---- core.py: _flatten_sources ---- *)
Theorem g_flatten_sources_eq : forall (TL : Type) (is_cls : TL -> bool) (srcs : TL -> list TL) (l : list TL),
  g_flatten_sources is_cls srcs l = flatten_sources is_cls srcs l.
Proof.
  intros TL is_cls srcs l. unfold g_flatten_sources, flatten_sources. cbv zeta.
  match goal with
  | |- iter_for ?body ?post _ _ = _ =>
    assert (H : forall acc, iter_for body post acc l = acc ++ flat_map (fun s => if is_cls s then srcs s else [s]) l);
      [|apply H]
  end.
  induction l as [|x r IH]; intro acc; cbn [iter_for flat_map].
  - rewrite app_nil_r. reflexivity.
  - destruct (is_cls x); rewrite IH, <- app_assoc; reflexivity.
Qed.
Print Assumptions g_flatten_sources_eq.

(* ---- core.py: the constructors ---- *)
Theorem g_union_init_eq : forall (TL : Type) (isu : TL -> bool) (srcs : TL -> list TL) (l : list TL),
  g_union_init isu srcs l = mkSrcs (flatten_sources isu srcs l).
Proof. intros. unfold g_union_init. rewrite g_flatten_sources_eq. reflexivity. Qed.

Theorem g_intersection_init_eq : forall (TL : Type) (isi : TL -> bool) (srcs : TL -> list TL) (l : list TL),
  g_intersection_init isi srcs l = mkSrcs (flatten_sources isi srcs l).
Proof. intros. unfold g_intersection_init. rewrite g_flatten_sources_eq. reflexivity. Qed.

Theorem g_filtered_init_eq : forall (TL FT : Type) (s : TL) (f : FT), g_filtered_init s f = mkFilt s f.
Proof. reflexivity. Qed.
Theorem g_difference_init_eq : forall (TL : Type) (s : TL) (subs : list TL), g_difference_init s subs = mkDiff s subs.
Proof. reflexivity. Qed.
Theorem g_complement_init_eq : forall (TL : Type) (s : TL), g_complement_init s = mkCompl s.
Proof. reflexivity. Qed.

(* the objects `Union(a, b)` ... build, as expressions of the model *)
Definition mk_union_m (a b : expr) : expr := union_expr (g_union_init is_union expr_sources [a; b]).
Definition mk_inter_m (a b : expr) : expr := inter_expr (g_intersection_init is_inter expr_sources [a; b]).
Definition mk_filtered_m (a : expr) (f : filt) : expr := filt_expr (g_filtered_init a f).
Definition mk_difference_m (a b : expr) : expr := diff_expr (g_difference_init a [b]).
Definition mk_complement_m (a : expr) : expr := compl_expr (g_complement_init a).

(* Union(a, b) with the flattening of nested unions = the model's or_ *)
Theorem g_union_init_is_or : forall a b, mk_union_m a b = or_ a b.
Proof.
  intros a b. unfold mk_union_m, union_expr. rewrite g_union_init_eq. cbn [ss_sources].
  unfold flatten_sources, or_. cbn [flat_map]. rewrite app_nil_r.
  destruct a, b; reflexivity.
Qed.
Print Assumptions g_union_init_is_or.

Theorem g_intersection_init_is_and : forall a b, mk_inter_m a b = and_ a b.
Proof.
  intros a b. unfold mk_inter_m, inter_expr. rewrite g_intersection_init_eq. cbn [ss_sources].
  unfold flatten_sources, and_. cbn [flat_map]. rewrite app_nil_r.
  destruct a, b; reflexivity.
Qed.
Print Assumptions g_intersection_init_is_and.

(* n-ary: Union over the operands l keeps the operands in order, splicing in the sources of every operand that is itself a
   Union — and nothing else (an Intersection operand is kept whole) *)
Theorem g_union_init_nary : forall l,
  union_expr (g_union_init is_union expr_sources l) =
  Union (flat_map (fun e => match e with Union es => es | _ => [e] end) l).
Proof.
  intro l. unfold union_expr. rewrite g_union_init_eq. cbn [ss_sources]. unfold flatten_sources.
  f_equal. apply flat_map_ext. intros []; reflexivity.
Qed.

Theorem g_intersection_init_nary : forall l,
  inter_expr (g_intersection_init is_inter expr_sources l) =
  Inter (flat_map (fun e => match e with Inter es => es | _ => [e] end) l).
Proof.
  intro l. unfold inter_expr. rewrite g_intersection_init_eq. cbn [ss_sources]. unfold flatten_sources.
  f_equal. apply flat_map_ext. intros []; reflexivity.
Qed.

(* ---- core.py: Timeline.__or__ / __and__ / __sub__ / __invert__ and flatten() ---- *)
Definition okind_of {TL FT : Type} (o : operand TL FT) : okind :=
  match o with OTimeline _ => KTimeline | OFilter _ => KFilter end.

Theorem g_tl_or_eq : forall (a : expr) (o : operand expr filt),
  g_tl_or mk_union_m a o =
  match o with OTimeline b => RDone (or_ a b) | OFilter _ => RRaise TypeError end.
Proof. intros a [b|f]; cbn [g_tl_or]; [rewrite g_union_init_is_or|]; reflexivity. Qed.
Print Assumptions g_tl_or_eq.

(* the typing rule of | (Model/Slice.v, or_kind) is the one the code has *)
Theorem g_tl_or_kind : forall (a : expr) (o : operand expr filt),
  (exists e, g_tl_or mk_union_m a o = RDone e) <-> or_kind KTimeline (okind_of o) = inr KTimeline.
Proof.
  intros a [b|f]; rewrite g_tl_or_eq; cbn; split; intro H; try discriminate.
  - reflexivity.
  - eauto.
  - destruct H as [e H]. discriminate.
Qed.

Theorem g_tl_and_eq : forall (a : expr) (o : operand expr filt),
  g_tl_and mk_filtered_m mk_inter_m a o =
  match o with OTimeline b => and_ a b | OFilter f => Filt a f end.
Proof. intros a [b|f]; cbn [g_tl_and]; [apply g_intersection_init_is_and|reflexivity]. Qed.
Print Assumptions g_tl_and_eq.

Theorem g_tl_and_kind : forall (o : operand expr filt), and_kind KTimeline (okind_of o) = inr KTimeline.
Proof. intros [b|f]; reflexivity. Qed.

Theorem g_tl_sub_eq : forall a b : expr, g_tl_sub mk_difference_m a b = sub_ a b.
Proof. reflexivity. Qed.
Print Assumptions g_tl_sub_eq.

Theorem g_tl_invert_eq : forall a : expr, g_tl_invert mk_complement_m a = inv_ a.
Proof. reflexivity. Qed.
Print Assumptions g_tl_invert_eq.

(* flatten(t) = ~(~t), each ~ being Timeline.__invert__ as generated *)
Theorem g_flatten_eq : forall a : expr, g_flatten (g_tl_invert mk_complement_m) a = flatten_ a.
Proof. reflexivity. Qed.
Print Assumptions g_flatten_eq.

(* concrete: (a | b) | c is one three-way union, a & (b & c) one three-way intersection, a union inside an
   intersection is kept whole *)
Example ctor_examples :
  let a := Stored [mkI (Some 1) (Some 2) Plain] in let b := Solid in let c := Compl Solid in
  mk_union_m (mk_union_m a b) c = Union [a; b; c] /\
  mk_inter_m a (mk_inter_m b c) = Inter [a; b; c] /\
  mk_inter_m (mk_union_m a b) c = Inter [Union [a; b]; c] /\
  g_tl_or mk_union_m a (@OFilter expr filt (FAnd [])) = RRaise TypeError /\
  g_tl_and mk_filtered_m mk_inter_m a (OFilter (FAnd [])) = Filt a (FAnd []) /\
  g_flatten (g_tl_invert mk_complement_m) a = Compl (Compl a).
Proof. cbv zeta. repeat split. Qed.
