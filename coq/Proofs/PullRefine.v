(* Proofs/PullRefine.v — C14: the pull machines refine the list model.  A machine whose
   sources are finite, run until it stops, yields exactly what the list-level sweeps of
   Model/Sweeps.v (as composed by [lfetch], the mirror of Model/Expr.v [fetch]) compute.
   Proved here for leaves, Filtered, _Buffered, Complement, Union (k-way heapq.merge) and
   the clip of Timeline.__getitem__ ... see the end of the file for what is covered. *)
From Coq Require Import Lia.
From CG Require Import Model.Pull Proofs.PullP Proofs.Merge.

Section Runs.
Variable env : fenv.
Variable o : oenv.

(* one next() on m returns r, for every sufficiently large fuel *)
Definition steps_to (m : mach) (r : step) : Prop :=
  exists N, forall F, (N <= F)%nat -> run o (next F env m) = Some r.

(* m yields exactly the items of l and then stops *)
Inductive runs : mach -> list ivl -> Prop :=
| runs_nil : forall m m', steps_to m (None, m') -> runs m []
| runs_cons : forall m m' x l, steps_to m (Some x, m') -> runs m' l -> runs m (x :: l).

(* a step result r accounts for the list l *)
Definition good (r : step) (l : list ivl) : Prop :=
  match fst r with
  | None => l = []
  | Some x => exists rest, l = x :: rest /\ runs (snd r) rest
  end.

Lemma runs_of_good : forall m r l, steps_to m r -> good r l -> runs m l.
Proof.
  intros m [[x|] M] l Hs Hg; unfold good in Hg; simpl in Hg.
  - destruct Hg as [rest [-> Hr]]. eapply runs_cons; eauto.
  - subst. eapply runs_nil; eauto.
Qed.

Lemma good_of_runs : forall m l, runs m l -> exists r, steps_to m r /\ good r l.
Proof.
  intros m l H. inversion H; subst.
  - exists (None, m'). split; [assumption|reflexivity].
  - exists (Some x, m'). split; [assumption|]. exists l0. split; [reflexivity|assumption].
Qed.

(* ------------------------------------------------------------------------------------ *)
(* leaves: a finite oracle *)

Lemma leaf_step : forall id k, steps_to (MLeaf id k) (o id k, MLeaf id (S k)).
Proof. intros. exists 1%nat. intros F HF. destruct F as [|F]; [lia|]. reflexivity. Qed.

Lemma runs_leaf : forall id n k, o id (k + n)%nat = None -> runs (MLeaf id k) (enum n (o id) k).
Proof.
  intros id n. induction n as [|n IH]; intros k Hn.
  - simpl. rewrite Nat.add_0_r in Hn. eapply runs_nil. rewrite <- Hn. apply leaf_step.
  - simpl. destruct (o id k) as [x|] eqn:E.
    + eapply runs_cons; [rewrite <- E; apply leaf_step|].
      apply IH. replace (S k + n)%nat with (k + S n)%nat by lia. exact Hn.
    + eapply runs_nil. rewrite <- E. apply leaf_step.
Qed.

(* ------------------------------------------------------------------------------------ *)
(* _Buffered *)

Lemma buf_step : forall before after m x m',
  steps_to m (x, m') ->
  steps_to (MBuf before after m)
           (match x with Some i => Some (buf_shift before after i) | None => None end, MBuf before after m').
Proof.
  intros before after m x m' [N H]. exists (S N). intros F HF.
  destruct F as [|F]; [lia|]. simpl. rewrite run_bind, H by lia. reflexivity.
Qed.

Lemma runs_buf : forall before after m l,
  runs m l -> runs (MBuf before after m) (map (buf_shift before after) l).
Proof.
  intros before after m l H. induction H as [m m' Hs|m m' x l Hs Hr IH]; simpl.
  - eapply runs_nil. apply (buf_step before after m None m' Hs).
  - eapply runs_cons; [apply (buf_step before after m (Some x) m' Hs)|exact IH].
Qed.

(* ------------------------------------------------------------------------------------ *)
(* Filtered *)

Definition fl (keep : ivl -> bool) (f : filt) (m : mach) (r : step) : Prop :=
  exists N, forall G F, (N <= G)%nat -> (N <= F)%nat ->
    run o (floop G (next F env) keep f m) = Some r.

Lemma fl_good : forall f m l, runs m l ->
  exists r, fl (feval env f) f m r /\ good r (filter (feval env f) l).
Proof.
  intros f m l H. induction H as [m m' [N Hs]|m m' x l [N Hs] Hr IH].
  - exists (None, MFilt f m'). split; [|reflexivity].
    exists (S N). intros G F HG HF. destruct G as [|G]; [lia|]. simpl.
    rewrite run_bind, Hs by lia. reflexivity.
  - destruct IH as [r [[N2 Hfl] Hg]]. simpl. destruct (feval env f x) eqn:K.
    + exists (Some x, MFilt f m'). split.
      * exists (S N). intros G F HG HF. destruct G as [|G]; [lia|]. simpl.
        rewrite run_bind, Hs by lia. simpl. rewrite K. reflexivity.
      * exists (filter (feval env f) l). split; [reflexivity|]. simpl.
        eapply runs_of_good; [|exact Hg].
        exists (S N2). intros F HF. destruct F as [|F]; [lia|]. simpl. apply Hfl; lia.
    + exists r. split; [|assumption].
      exists (S (Nat.max N N2)). intros G F HG HF. destruct G as [|G]; [lia|]. simpl.
      rewrite run_bind, Hs by lia. simpl. rewrite K. apply Hfl; lia.
Qed.

Lemma runs_filt : forall f m l, runs m l -> runs (MFilt f m) (filter (feval env f) l).
Proof.
  intros f m l H. destruct (fl_good f m l H) as [r [[N Hfl] Hg]].
  eapply runs_of_good; [|exact Hg].
  exists (S N). intros F HF. destruct F as [|F]; [lia|]. simpl. apply Hfl; lia.
Qed.

(* ------------------------------------------------------------------------------------ *)
(* Complement._sweep *)

Definition cl (sb eb : Z) (e : option Z) (entry : option Z) (cursor : Z) (m : mach) (r : step) : Prop :=
  exists N, forall G F, (N <= G)%nat -> (N <= F)%nat ->
    run o (cloop G (next F env) sb eb e entry cursor m) = Some r.

Lemma cdone_runs : forall sb eb e cursor m, runs (MCompl sb eb e CDone cursor m) [].
Proof.
  intros. eapply runs_nil. exists 1%nat. intros F HF. destruct F as [|F]; [lia|]. reflexivity.
Qed.

Lemma cfinal_good : forall sb eb e cursor m, good (cfinal sb eb e cursor m) (final_gap cursor eb e).
Proof.
  intros. unfold cfinal, good, final_gap. simpl. destruct (cursor <? eb); simpl.
  - eexists. split; [reflexivity|]. apply cdone_runs.
  - reflexivity.
Qed.

Lemma crun_steps : forall sb eb e cursor m r,
  cl sb eb e None cursor m r -> steps_to (MCompl sb eb e CRun cursor m) r.
Proof.
  intros sb eb e cursor m r [N H]. exists (S N). intros F HF.
  destruct F as [|F]; [lia|]. simpl. apply H; lia.
Qed.

Lemma cgap_steps : forall sb eb e se cursor m r,
  cl sb eb e (Some se) cursor m r -> steps_to (MCompl sb eb e (CGap se) cursor m) r.
Proof.
  intros sb eb e se cursor m r [N H]. exists (S N). intros F HF.
  destruct F as [|F]; [lia|]. simpl. apply H; lia.
Qed.

(* resuming after a gap, given the loop-top statement for every cursor *)
Lemma cl_after : forall sb eb e m xs,
  (forall cursor, exists r, cl sb eb e None cursor m r /\ good r (csweep xs sb eb e cursor)) ->
  forall cursor se, exists r, cl sb eb e (Some se) cursor m r /\
    good r (let c := Z.max cursor se in if c >? eb then [] else csweep xs sb eb e c).
Proof.
  intros sb eb e m xs HA cursor se. cbv zeta. destruct (Z.max cursor se >? eb) eqn:E.
  - exists (None, MCompl sb eb e CDone (Z.max cursor se) m). split; [|reflexivity].
    exists 1%nat. intros G F HG HF. destruct G as [|G]; [lia|]. simpl. rewrite E. reflexivity.
  - destruct (HA (Z.max cursor se)) as [r [[N H] Hg]]. exists r. split; [|exact Hg].
    exists (S N). intros G F HG HF. destruct G as [|G]; [lia|]. simpl. rewrite E. apply H; lia.
Qed.

Lemma cl_good : forall sb eb e m xs, runs m xs ->
  forall cursor, exists r, cl sb eb e None cursor m r /\ good r (csweep xs sb eb e cursor).
Proof.
  intros sb eb e m xs H. induction H as [m m' [N Hs]|m m' x xs [N Hs] Hr IH]; intro cursor.
  - exists (cfinal sb eb e cursor m'). split; [|apply cfinal_good].
    exists (S N). intros G F HG HF. destruct G as [|G]; [lia|]. simpl.
    rewrite run_bind, Hs by lia. reflexivity.
  - pose proof (cl_after sb eb e m' xs IH) as HB. simpl.
    destruct (fend x <? sb) eqn:E1.
    { destruct (IH cursor) as [r [[N2 H2] Hg]]. exists r. split; [|exact Hg].
      exists (S (Nat.max N N2)). intros G F HG HF. destruct G as [|G]; [lia|]. simpl.
      rewrite run_bind, Hs by lia. simpl. rewrite E1. apply H2; lia. }
    destruct (fstart x >? eb) eqn:E2.
    { exists (cfinal sb eb e cursor m'). split; [|apply cfinal_good].
      exists (S N). intros G F HG HF. destruct G as [|G]; [lia|]. simpl.
      rewrite run_bind, Hs by lia. simpl. rewrite E1, E2. reflexivity. }
    destruct (Z.min (fend x) eb <=? cursor) eqn:E3.
    { destruct (IH cursor) as [r [[N2 H2] Hg]]. exists r. split; [|exact Hg].
      exists (S (Nat.max N N2)). intros G F HG HF. destruct G as [|G]; [lia|]. simpl.
      rewrite run_bind, Hs by lia. simpl. rewrite E1, E2, E3. apply H2; lia. }
    destruct (Z.max (fstart x) sb >? cursor) eqn:E4.
    { exists (Some (gap (unS cursor) (unS (Z.max (fstart x) sb))),
              MCompl sb eb e (CGap (Z.min (fend x) eb)) cursor m'). split.
      - exists (S N). intros G F HG HF. destruct G as [|G]; [lia|]. simpl.
        rewrite run_bind, Hs by lia. simpl. rewrite E1, E2, E3, E4. reflexivity.
      - simpl. eexists. split; [reflexivity|].
        destruct (HB cursor (Z.min (fend x) eb)) as [r [Hc Hg]].
        eapply runs_of_good; [apply cgap_steps; exact Hc|exact Hg]. }
    { destruct (HB cursor (Z.min (fend x) eb)) as [r [[N2 H2] Hg]]. exists r. split; [|exact Hg].
      exists (S (Nat.max N N2)). intros G F HG HF. destruct G as [|G]; [lia|]. simpl.
      rewrite run_bind, Hs by lia. simpl. rewrite E1, E2, E3, E4. apply H2; lia. }
Qed.

Lemma runs_compl : forall m xs a b, runs m xs ->
  runs (MCompl a (bnd_hi b) b CRun a m) (compl_sweep xs (Some a) b).
Proof.
  intros m xs a b H. unfold compl_sweep. simpl bnd_lo.
  destruct (cl_good a (bnd_hi b) b m xs H a) as [r [Hc Hg]].
  eapply runs_of_good; [apply crun_steps; exact Hc|exact Hg].
Qed.

(* ------------------------------------------------------------------------------------ *)
(* heapq.merge *)

(* a head slot (head, machine) stands for the remaining list L of its stream *)
Definition hrel (h : option ivl * mach) (L : list ivl) : Prop :=
  match fst h with
  | Some x => exists r, L = x :: r /\ runs (snd h) r
  | None => L = []
  end.

Lemma pick_min_heads : forall hs Ls, Forall2 hrel hs Ls ->
  forall best i, pick_min lt_fwd best i (heads hs) = pick_min lt_fwd best i Ls.
Proof.
  intros hs Ls H. induction H as [|[[x|] m] L hs Ls Hh HF IH]; intros best i; [reflexivity| |].
  - destruct Hh as [r [-> _]]. simpl. destruct best as [[j y]|]; [destruct (lt_fwd x y)|]; apply IH.
  - unfold hrel in Hh. simpl in Hh. subst L. simpl. apply IH.
Qed.

Lemma Forall2_upd_pop : forall hs Ls i h,
  Forall2 hrel hs Ls ->
  (forall L, nth_error Ls i = Some L -> hrel h (tl L)) ->
  Forall2 hrel (upd i h hs) (pop_at i Ls).
Proof.
  intros hs Ls i h H. revert i. induction H as [|h0 L hs Ls Hh HF IH]; intros i Hi.
  - destruct i; constructor.
  - destruct i as [|i]; simpl.
    + constructor; [apply Hi; reflexivity|exact HF].
    + constructor; [exact Hh|]. apply IH. intros L' HL. apply Hi. exact HL.
Qed.

Lemma Forall2_nth_hrel : forall hs Ls i L, Forall2 hrel hs Ls -> nth_error Ls i = Some L ->
  exists h, nth_error hs i = Some h /\ hrel h L.
Proof.
  intros hs Ls i L H. revert i. induction H as [|h0 L0 hs Ls Hh HF IH]; intros i Hi.
  - destruct i; discriminate.
  - destruct i as [|i]; simpl in *.
    + injection Hi as <-. eauto.
    + apply IH. exact Hi.
Qed.

Lemma merge_by_step : forall ss i x, pick_min lt_fwd None 0 ss = Some (i, x) ->
  merge_by lt_fwd ss = x :: merge_by lt_fwd (pop_at i ss).
Proof.
  intros ss i x E. unfold merge_by.
  destruct (head_at_pop ss i x (pick_min_some _ _ _ _ E)) as [_ L].
  rewrite L. simpl. rewrite E. reflexivity.
Qed.

Lemma merge_by_none : forall ss, pick_min lt_fwd None 0 ss = None -> merge_by lt_fwd ss = [].
Proof.
  intros ss E. unfold merge_by. destruct (total_len ss); simpl; [reflexivity|]. rewrite E. reflexivity.
Qed.

Lemma uyield_good : forall n Ls hs, total_len Ls = n -> Forall2 hrel hs Ls ->
  good (uyield hs) (merge_by lt_fwd Ls).
Proof.
  induction n as [n IHn] using lt_wf_ind. intros Ls hs Hn HF.
  unfold uyield. rewrite (pick_min_heads hs Ls HF None 0%nat).
  destruct (pick_min lt_fwd None 0 Ls) as [[i x]|] eqn:E.
  - rewrite (merge_by_step Ls i x E). unfold good; simpl. eexists. split; [reflexivity|].
    pose proof (pick_min_some _ _ _ _ E) as [s' Hnth].
    destruct (Forall2_nth_hrel hs Ls i _ HF Hnth) as [[hd m] [Hh Hrel]].
    destruct (head_at_pop Ls i x (ex_intro _ s' Hnth)) as [_ HL].
    assert (Hm : runs m s').
    { unfold hrel in Hrel. simpl in Hrel. destruct hd as [y|]; [|discriminate Hrel].
      destruct Hrel as [r [Heq Hr]]. injection Heq as _ <-. exact Hr. }
    destruct (good_of_runs m s' Hm) as [[y m'] [[N Hs] Hg]].
    eapply runs_of_good.
    + exists (S N). intros F HF'. destruct F as [|F]; [lia|]. simpl. rewrite Hh.
      rewrite run_bind, Hs by lia. reflexivity.
    + apply (IHn (total_len (pop_at i Ls))); [lia|reflexivity|].
      apply Forall2_upd_pop; [exact HF|]. intros L HL2. rewrite Hnth in HL2. injection HL2 as <-. simpl.
      unfold hrel, good in *. simpl in *. destruct y as [y|]; [exact Hg|exact Hg].
  - rewrite (merge_by_none Ls E). reflexivity.
Qed.

Lemma uinit_runs : forall ms Ls, Forall2 runs ms Ls ->
  exists hs N, Forall2 hrel hs Ls /\
    forall F, (N <= F)%nat -> run o (uinit (next F env) (map (fun m => (None, m)) ms)) = Some hs.
Proof.
  intros ms Ls H. induction H as [|m L ms Ls Hr HF IH].
  - exists [], O. split; [constructor|]. reflexivity.
  - destruct IH as [hs [N [Hh Hrun]]]. destruct (good_of_runs m L Hr) as [[y m'] [[N1 Hs] Hg]].
    exists ((y, m') :: hs), (Nat.max N N1). split.
    + constructor; [|exact Hh]. unfold hrel, good in *. simpl in *. destruct y; exact Hg.
    + intros F HF'. simpl. rewrite run_bind, Hs by lia. rewrite run_bind, Hrun by lia. reflexivity.
Qed.

Lemma runs_union : forall ms Ls, Forall2 runs ms Ls ->
  runs (MUnion UInit (map (fun m => (None, m)) ms)) (merge_by lt_fwd Ls).
Proof.
  intros ms Ls H. destruct (uinit_runs ms Ls H) as [hs [N [Hh Hrun]]].
  eapply runs_of_good; [|eapply uyield_good; [reflexivity|exact Hh]].
  exists (S N). intros F HF. destruct F as [|F]; [lia|]. simpl.
  rewrite run_bind, Hrun by lia. reflexivity.
Qed.


(* ------------------------------------------------------------------------------------ *)
(* leaves of expressions *)

Lemma enum_ext : forall n (f g : nat -> option ivl) k, (forall j, f j = g j) -> enum n f k = enum n g k.
Proof.
  induction n as [|n IH]; intros f g k H; simpl; [reflexivity|].
  rewrite H. destruct (g k); [|reflexivity]. f_equal. apply IH. exact H.
Qed.

Lemma enum_nth_error : forall (L : list ivl) pre, 
  enum (length L) (nth_error (pre ++ L)) (length pre) = L.
Proof.
  induction L as [|x L IH]; intros pre; simpl; [reflexivity|].
  rewrite nth_error_app2 by lia. rewrite Nat.sub_diag. simpl. f_equal.
  specialize (IH (pre ++ [x])). rewrite <- app_assoc in IH. simpl in IH.
  rewrite app_length in IH. simpl in IH. rewrite Nat.add_1_r in IH. exact IH.
Qed.

Lemma per_oracle_none : forall ph pe du a b,
  0 < pe -> per_oracle ph pe du a (Some b) (per_count pe du a b) = None.
Proof.
  intros ph pe du a b Hpe. unfold per_oracle, per_count.
  set (q1 := (a - du - ph) / pe). set (q2 := (b - a + du) / pe).
  assert (H1 : a - du - ph < pe * (q1 + 1)).
  { unfold q1. pose proof (Z.mul_succ_div_gt (a - du - ph) pe Hpe). lia. }
  assert (H2 : b - a + du < pe * (q2 + 1)).
  { unfold q2. pose proof (Z.mul_succ_div_gt (b - a + du) pe Hpe). lia. }
  match goal with |- (if ?c then _ else _) = _ => destruct c eqn:E end; [reflexivity|exfalso].
  rewrite Z.gtb_ltb in E. apply Z.ltb_ge in E.
  destruct (Z_lt_le_dec (q2 + 2) 0) as [Hn|Hn].
  - replace (Z.to_nat (q2 + 2)) with O in E by (destruct (q2 + 2); try reflexivity; lia).
    simpl in E. assert (b - a + du < 0) by nia. nia.
  - rewrite Z2Nat.id in E by lia. nia.
Qed.

End Runs.

(* ------------------------------------------------------------------------------------ *)
(* whole expressions *)

Section PexprInd.
Variable P : pexpr -> Prop.
Hypothesis HPer : forall id ph pe du, P (PPer id ph pe du).
Hypothesis HSto : forall id evs, P (PSto id evs).
Hypothesis HSolid : P PSolid.
Hypothesis HUnion : forall es, Forall P es -> P (PUnion es).
Hypothesis HInter : forall es, Forall P es -> P (PInter es).
Hypothesis HDiff : forall s subs, P s -> Forall P subs -> P (PDiff s subs).
Hypothesis HCompl : forall s, P s -> P (PCompl s).
Hypothesis HFilt : forall s f, P s -> P (PFilt s f).
Hypothesis HBuf : forall s x y, P s -> P (PBuf s x y).

Fixpoint pexpr_ind2 (e : pexpr) : P e :=
  let go := fix go (l : list pexpr) : Forall P l :=
              match l with
              | [] => Forall_nil P
              | x :: r => Forall_cons x (pexpr_ind2 x) (go r)
              end in
  match e with
  | PPer id ph pe du => HPer id ph pe du
  | PSto id evs => HSto id evs
  | PSolid => HSolid
  | PUnion es => HUnion es (go es)
  | PInter es => HInter es (go es)
  | PDiff s subs => HDiff s subs (pexpr_ind2 s) (go subs)
  | PCompl s => HCompl s (pexpr_ind2 s)
  | PFilt s f => HFilt s f (pexpr_ind2 s)
  | PBuf s x y => HBuf s x y (pexpr_ind2 s)
  end.
End PexprInd.

(* the oracle family o presents every leaf of e through the window that reaches it *)
Fixpoint leaves_ok (o : oenv) (e : pexpr) (a : Z) (b : option Z) {struct e} : Prop :=
  let all := fix all (l : list pexpr) : Prop :=
               match l with [] => True | s :: r => leaves_ok o s a b /\ all r end in
  match e with
  | PPer id ph pe du => forall k, o id k = per_oracle ph pe du a b k
  | PSto id evs => forall k, o id k = sto_oracle evs a b k
  | PSolid => True
  | PUnion es => all es
  | PInter es => all es
  | PDiff s subs => leaves_ok o s a b /\ all subs
  | PCompl s => leaves_ok o s a b
  | PFilt s _ => leaves_ok o s a b
  | PBuf s before after => leaves_ok o s (a - after) (addO b before)
  end.

(* recurring leaves have a positive period *)
Fixpoint pos_periods (e : pexpr) : bool :=
  match e with
  | PPer _ _ pe _ => 0 <? pe
  | PSto _ _ => true
  | PSolid => true
  | PUnion es => forallb pos_periods es
  | PInter es => forallb pos_periods es
  | PDiff s subs => pos_periods s && forallb pos_periods subs
  | PCompl s => pos_periods s
  | PFilt s _ => pos_periods s
  | PBuf s _ _ => pos_periods s
  end.

(* the operators covered by the refinement proof *)
Fixpoint frag (e : pexpr) : bool :=
  match e with
  | PPer _ _ _ _ => true
  | PSto _ _ => true
  | PSolid => false
  | PUnion es => forallb frag es
  | PInter _ => false
  | PDiff s subs => match subs with [] => frag s | _ => false end
  | PCompl s => frag s
  | PFilt s _ => frag s
  | PBuf s _ _ => frag s
  end.

Theorem pull_eq_list_frag : forall env o e a b,
  frag e = true -> pos_periods e = true -> leaves_ok o e a (Some b) ->
  runs env o (compile e a (Some b)) (lfetch env e a b).
Proof.
  intros env o e. induction e using pexpr_ind2; intros a b Hf Hp Hl; simpl in *; try discriminate.
  - (* recurring leaf *)
    apply Z.ltb_lt in Hp.
    rewrite <- (enum_ext _ (o id) _ 0 Hl).
    apply runs_leaf. simpl. rewrite Hl. apply per_oracle_none. exact Hp.
  - (* stored leaf *)
    set (L := fetch_static (sl_build evs) (Some a) (Some b) false) in *.
    assert (HL : enum (length L) (o id) 0 = L).
    { rewrite (enum_ext _ (o id) (nth_error L) 0 Hl). exact (enum_nth_error L []). }
    change (runs env o (MLeaf id 0) L). rewrite <- HL. apply runs_leaf. simpl. rewrite Hl. unfold sto_oracle. fold L.
    apply nth_error_None. lia.
  - (* union *)
    rewrite <- (map_map (fun s => compile s a (Some b)) (fun m => (None, m))).
    apply runs_union.
    induction H as [|x es Hx HF IH]; simpl in *; [constructor|].
    apply andb_prop in Hf as [Hf1 Hf2]. apply andb_prop in Hp as [Hp1 Hp2]. destruct Hl as [Hl1 Hl2].
    constructor; [apply Hx; assumption|apply IH; assumption].
  - (* difference without subtractors = its source *)
    destruct subs; [|discriminate]. apply andb_prop in Hp as [Hp _]. destruct Hl as [Hl _].
    apply IHe; assumption.
  - (* complement *)
    apply (runs_compl env o _ _ a (Some b)). apply IHe; assumption.
  - (* filter *)
    apply runs_filt. apply IHe; assumption.
  - (* buffer *)
    apply runs_buf. replace (b + x) with (b + x) by reflexivity.
    apply (IHe (a - y) (b + x)); assumption.
Qed.
