(* Proofs/GenEq_ical.v — tie C for calgebra/ical.py (third extension, tag ical), part 1: _parse_vevent's
   time logic.
     A. g_ical_dt_to_timestamp   _dt_to_timestamp                         = Model/Ical.v ts_of
     B. g_ical_phase_base        _phase_base                              = phase_base (as a date)
     C. g_ical_parse_times       _parse_vevent, DTSTART / DTEND / DURATION resolution, is_all_day,
                                 start_ts, the RFC 5545 3.3.6 end of a single event, duration_seconds
                                 = (ve_dtstart, is_date, ts_of, static_end_ts, duration_of)
     D. g_ical_parse_start       _parse_vevent, the start handed to RecurringPattern
                                 = the choice of_vevent makes between rp_init and rp_init_dt
   The generated definitions (Gen/Source.v) are parametric in the icalendar / datetime objects; each
   theorem shows the instantiation it is about (the library model of Model/IcalSrc.v).  *)
From CG Require Import Model.Loop Gen.Source Model.IcalSrc.
From CG Require Proofs.IcalP.
From Coq Require Import ZArith List Bool Lia ZifyBool.
Import ListNotations.
Local Open Scope Z_scope.
Ltac Zify.zify_post_hook ::= Z.to_euclidean_division_equations.

(* ========================================================================================== *)
(* A. _dt_to_timestamp                                                                          *)

Definition src_dt_to_timestamp (v : dtval) : Z :=
  g_ical_dt_to_timestamp lv_is_datetime lv_timestamp lv_midnight_utc v.

Theorem g_ical_dt_to_timestamp_eq (v : dtval) : src_dt_to_timestamp v = ts_of v.
Proof. destruct v; reflexivity. Qed.
Print Assumptions g_ical_dt_to_timestamp_eq.

Lemma ts_gen (v : dtval) : g_ical_dt_to_timestamp lv_is_datetime lv_timestamp lv_midnight_utc v = ts_of v.
Proof. exact (g_ical_dt_to_timestamp_eq v). Qed.

(* ========================================================================================== *)
(* B. _phase_base                                                                               *)

Definition src_phase_base (f : freq) : dtval := g_ical_phase_base lv_ymd f.

(* the date it returns is the model's base date: Monday 1969-12-29 (day -3) for weekly patterns,
   1970-01-01 (day 0) otherwise; it is a naive midnight *)
Theorem g_ical_phase_base_eq (f : freq) : src_phase_base f = DFloat (phase_base f * DAY).
Proof. destruct f; vm_compute; reflexivity. Qed.
Print Assumptions g_ical_phase_base_eq.

Corollary g_ical_phase_base_date (f : freq) : lv_date (src_phase_base f) = phase_base f.
Proof. destruct f; vm_compute; reflexivity. Qed.

(* ========================================================================================== *)
(* C. the time logic of _parse_vevent                                                           *)

Definition src_parse_times (r : rawve) : res (dtval * bool * Z * Z * Z) :=
  g_ical_parse_times rw_dtstart rw_dtend rw_duration (fun d : dtval => d) (fun s : Z => s)
    lv_is_datetime lv_timestamp lv_midnight_utc lv_add ltd_of_days lv_same_tzinfo lv_naive lv_sub
    ltd_days ltd_seconds ltd_geb ltd_sub ltd_total_seconds r.

Lemma split_day (x : Z) : x / DAY * 86400 + x mod DAY = x.
Proof. unfold DAY. lia. Qed.

Lemma rest_of_day (s : Z) : s - s / DAY * DAY = s mod DAY.
Proof. unfold DAY. lia. Qed.

(* for every VEVENT with a DTSTART — DTEND and DURATION each present or not — the code computes the
   model's values; when both DTEND and DURATION are present DTEND wins (endspec_of) *)
Theorem g_ical_parse_times_eq (s : dtval) (e : option dtval) (d : option Z)
        (rr : option vrecur) (ex : list dtval) (t1 t2 t3 t4 : option N) :
  src_parse_times (mkRaw (Some s) e d) = RDone (times_of (mkVE s (endspec_of e d) rr ex t1 t2 t3 t4)).
Proof.
  unfold src_parse_times, g_ical_parse_times, times_of, static_end_ts, duration_of, end_dt.
  cbn [rw_dtstart rw_dtend rw_duration ve_dtstart ve_end]. cbv beta zeta.
  rewrite !ts_gen.
  replace (negb (lv_is_datetime s)) with (is_date s)
    by (unfold lv_is_datetime; now rewrite negb_involutive).
  destruct e as [e|]; [|destruct d as [d|]]; cbn [endspec_of].
  - (* DTEND *)
    assert (Hd : (if lv_is_datetime s && lv_is_datetime e && lv_same_tzinfo s e
                  then ltd_days (lv_sub (lv_naive e) (lv_naive s)) * 86400 + ltd_seconds (lv_sub (lv_naive e) (lv_naive s))
                  else ts_of e - ts_of s)
                 = (if same_clock s e then wall_of e - wall_of s else ts_of e - ts_of s)).
    { unfold ltd_days, ltd_seconds, lv_sub, lv_naive, lv_same_tzinfo. cbn [wall_of].
      rewrite split_day.
      destruct s, e; cbn [lv_is_datetime is_date negb same_clock andb]; reflexivity. }
    destruct d; rewrite Hd; reflexivity.
  - (* DURATION, no DTEND *)
    unfold lv_add.
    unfold ltd_geb, ltd_of_days, ltd_days, ltd_sub, ltd_total_seconds, ltd_seconds, lv_sub, lv_naive,
      lv_same_tzinfo.
    cbn [wall_of]. rewrite split_day, rest_of_day.
    replace (0 * DAY <=? d) with (negb (d <? 0)) by lia.
    destruct s; cbn [lv_is_datetime is_date negb same_clock andb orb add_dur wall_of ts_of];
      try rewrite IcalP.zone_eqb_refl; destruct (d <? 0); cbn [negb]; try reflexivity.
  - (* neither *)
    destruct s; cbn [lv_is_datetime is_date negb andb lv_add add_dur]; unfold lv_same_tzinfo, ltd_of_days;
      cbn [same_clock andb]; try reflexivity;
      unfold ltd_days, ltd_seconds, lv_sub, lv_naive; cbn [wall_of]; rewrite split_day; reflexivity.
Qed.
Print Assumptions g_ical_parse_times_eq.

(* a VEVENT without DTSTART: "VEVENT missing DTSTART" *)
Theorem g_ical_parse_times_no_dtstart (e : option dtval) (d : option Z) :
  src_parse_times (mkRaw None e d) = RRaise ValueError.
Proof. reflexivity. Qed.

(* on the model's own VEVENTs *)
Corollary g_ical_parse_times_vevent (v : vevent) : src_parse_times (raw_of v) = RDone (times_of v).
Proof.
  destruct v as [s en rr ex t1 t2 t3 t4]. unfold raw_of. cbn [ve_dtstart ve_end].
  rewrite (g_ical_parse_times_eq s _ _ rr ex t1 t2 t3 t4). destruct en; reflexivity.
Qed.
Print Assumptions g_ical_parse_times_vevent.

(* a concrete instance: a UTC start with DURATION P1DT2H *)
Example g_ical_parse_times_ex :
  src_parse_times (mkRaw (Some (DUtc 1000000)) None (Some 93600))
  = RDone (DUtc 1000000, false, 1000000, 1093600, 93600).
Proof. vm_compute. reflexivity. Qed.

(* ========================================================================================== *)
(* D. the start handed to RecurringPattern                                                      *)

Definition src_parse_start (s : dtval) (f : freq) : pstart dtval :=
  g_ical_parse_start lv_is_datetime lv_midnight_naive lv_date Z.eqb lv_hour lv_minute lv_second lv_ymd s f.

Lemma hms_sod (w : Z) : wall_sod w / 3600 * 3600 + wall_sod w mod 3600 / 60 * 60 + wall_sod w mod 60 = wall_sod w.
Proof. unfold wall_sod, DAY. lia. Qed.

Theorem g_ical_parse_start_eq (s : dtval) (f : freq) : src_parse_start s f = pstart_of s f.
Proof.
  unfold src_parse_start, g_ical_parse_start, pstart_of. cbv beta zeta.
  fold (src_phase_base f). rewrite g_ical_phase_base_date.
  assert (Hw : wall_of (if lv_is_datetime s then s else lv_midnight_naive s) = wall_of s)
    by (destruct s; reflexivity).
  unfold lv_date, lv_hour, lv_minute, lv_second. rewrite Hw, hms_sod.
  destruct (wall_day (wall_of s) =? phase_base f); [reflexivity|].
  destruct s; reflexivity.
Qed.
Print Assumptions g_ical_parse_start_eq.

(* of_vevent's recurring branch, written with the two translated pieces: the start the code hands to
   RecurringPattern and the duration it computes are what the model's of_vevent uses *)
Theorem of_vevent_recurring_via_source (v : vevent) (vr : vrecur) :
  ve_rrule v = Some vr ->
  of_vevent v =
  match rp_init_ps (parts_of_vrecur vr) (src_parse_start (ve_dtstart v) (p_freq (parts_of_vrecur vr)))
                   (duration_of v) (zone_of_dt (ve_dtstart v)) (loaded_exdates (ve_exdate v)) with
  | Some x => Some (Pattern x (mkMeta (loaded_text (ve_summary v)) (loaded_text (ve_description v))
                                      (loaded_text (ve_uid v)) (loaded_text (ve_location v))
                                      (is_date (ve_dtstart v))))
  | None => None
  end.
Proof.
  intros Hr. unfold of_vevent. rewrite Hr, g_ical_parse_start_eq. unfold pstart_of.
  destruct (wall_day (wall_of (ve_dtstart v)) =? phase_base (p_freq (parts_of_vrecur vr))); cbn [rp_init_ps].
  - reflexivity.
  - destruct (ve_dtstart v); reflexivity.
Qed.
Print Assumptions of_vevent_recurring_via_source.

(* ========================================================================================== *)
(* E. the tz handed to RecurringPattern                                                         *)

Definition src_parse_tz (s : dtval) : res (option zone) :=
  g_ical_parse_tz lv_is_datetime lv_tzinfo (fun z : zone => z) utc_zone s.

(* a UTC or TZID date-time hands over its zone, a floating one and a DATE nothing *)
Theorem g_ical_parse_tz_eq (s : dtval) :
  src_parse_tz s = RDone (match s with DUtc _ => Some utc_zone | DTz z _ => Some z | _ => None end).
Proof. destruct s; reflexivity. Qed.
Print Assumptions g_ical_parse_tz_eq.

(* hence the zone RecurringPattern works in (ZoneInfo(tz), or UTC for None) is the model's zone_of_dt *)
Corollary g_ical_parse_tz_zone (s : dtval) :
  res_bind (src_parse_tz s) (fun tz => RDone (zone_of_tz tz)) = RDone (zone_of_dt s).
Proof. destruct s; reflexivity. Qed.
Print Assumptions g_ical_parse_tz_zone.

(* ========================================================================================== *)
(* F. the EXDATE collection                                                                     *)

(* a VEVENT's EXDATE entry: absent, one property, or a list of properties; a property is the list of
   its values *)
Definition src_parse_exdates (x : option (exv (list dtval))) : list Z :=
  g_ical_parse_exdates (fun c : option (exv (list dtval)) => negb (is_none c))
    (fun c => match c with Some e => e | None => ExList [] end)
    (fun p : list dtval => p) (fun v : dtval => v) lv_is_datetime lv_timestamp lv_midnight_utc x.

Definition exv_values (x : option (exv (list dtval))) : list dtval :=
  match x with None => [] | Some (ExOne p) => p | Some (ExList l) => concat l end.

Lemma iter_for_fold {S A R : Type} (f : S -> A -> S) (post : S -> R) : forall (l : list A) (s : S),
  iter_for (fun s x => SCont (f s x)) post s l = post (fold_left f l s).
Proof. induction l as [|x r IH]; intros s; cbn [iter_for fold_left]; [reflexivity|apply IH]. Qed.

Lemma fold_app_map {A B : Type} (g : A -> list B) : forall (l : list A) (acc : list B),
  fold_left (fun acc x => acc ++ g x) l acc = acc ++ concat (map g l).
Proof.
  induction l as [|x r IH]; intros acc; cbn [fold_left map concat].
  - now rewrite app_nil_r.
  - rewrite IH. now rewrite app_assoc.
Qed.

Lemma map_ts_gen (l : list dtval) :
  map (fun value => g_ical_dt_to_timestamp lv_is_datetime lv_timestamp lv_midnight_utc value) l = map ts_of l.
Proof. apply map_ext. intro v. apply ts_gen. Qed.

(* every value of every EXDATE property, in order, through _dt_to_timestamp: the model's loaded_exdates *)
Theorem g_ical_parse_exdates_eq (x : option (exv (list dtval))) :
  src_parse_exdates x = loaded_exdates (exv_values x).
Proof.
  unfold src_parse_exdates, g_ical_parse_exdates, loaded_exdates, exv_values.
  destruct x as [[p|l]|]; cbn [is_none negb]; cbv beta zeta.
  - rewrite (iter_for_fold (fun exdates prop => exdates ++ map _ prop)). cbn [fold_left app]. apply map_ts_gen.
  - rewrite (iter_for_fold (fun exdates prop => exdates ++ map _ prop)).
    rewrite (fold_app_map (fun prop : list dtval => map _ prop)). cbn [app].
    rewrite concat_map. f_equal. apply map_ext. intro prop. apply map_ts_gen.
  - reflexivity.
Qed.
Print Assumptions g_ical_parse_exdates_eq.
