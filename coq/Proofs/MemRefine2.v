(* Proofs/MemRefine2.v — C12, part 2: slices of the in-memory timeline in both directions, the
   history theorem (refinement of the abstract machine of Spec/MemSpec.v by Model/Mem.v for
   every sequence of operations), the metadata merge, and a worked history.

   Reverse slices need no extra hypothesis.  The time-negation trick hands the clip sweep a
   stream that is in general NOT sorted (nested or duplicated events, long occurrences: defect
   D3), but the sweep of a stream against ONE window only gives up at an event lying entirely
   beyond the window's end (Clip.clip_sweep_iff), and a fetched event never does: it ends after
   a, so its mirror image starts before -a.  [reverse_unsorted_but_exact] is the witness. *)
From CG Require Import Proofs.Defs Proofs.Stored Proofs.Merge Proofs.Clip Proofs.Negate.
From CG Require Import Proofs.RefSpec Proofs.Reverse Proofs.Assembly.
From CG Require Export Proofs.MemRefine.

(* ------------------------------------------------------------------------------------ *)
(* 1. Clipped occurrences: pat_fetch against the spec's enumeration *)

Definition hcl (p : pat) (a b : Z) (n : Z) : list ivl :=
  if negb (memZ (fstart (occ_n p n)) (p_ex p)) then clipW (Some a) (Some b) (occ_n p n) else [].

Lemma flat_map_filter_map {A B C} (f : B -> bool) (g : A -> B) (k : B -> list C) l :
  flat_map k (filter f (map g l)) = flat_map (fun n => if f (g n) then k (g n) else []) l.
Proof.
  induction l as [|x r IH]; [reflexivity|]. cbn [map filter flat_map].
  destruct (f (g x)); cbn [flat_map app]; rewrite IH; reflexivity.
Qed.

Lemma clip_pat_fetch p a b :
  flat_map (clipW (Some a) (Some b)) (pat_fetch p a b) =
  flat_map (hcl p a b) (zrange (p_nmin p a) (Z.to_nat (p_nmax p b - p_nmin p a + 1))).
Proof. rewrite pat_fetch_unfold, flat_map_filter_map. reflexivity. Qed.

Lemma aocc_in_unfold p a b :
  aocc_in (abs_pat p) a b =
  filter (fun o => is_occurrence (abs_pat p) (fstart o) && (Z.max (fstart o) a <? Z.min (fend o) b))
         (map (occ_n p) (zrange (p_nmin p a - 2) (Z.to_nat (p_nmax p b - p_nmin p a + 4)))).
Proof.
  unfold aocc_in, p_nmin, p_nmax, zrange. cbv zeta.
  change (a_dur (abs_pat p)) with (p_dur p). change (a_phase (abs_pat p)) with (p_phase p).
  change (a_period (abs_pat p)) with (p_period p).
  set (X := (a - p_dur p - p_phase p) / p_period p). set (Y := (b - p_phase p) / p_period p).
  rewrite map_map.
  replace (X + 1 - 2) with (X - 1) by lia.
  replace (Y - (X + 1) + 4) with (Y + 1 - (X - 1) + 1) by lia. reflexivity.
Qed.

Lemma is_occ_occ p n :
  is_occurrence (abs_pat p) (fstart (occ_n p n)) = negb (memZ (fstart (occ_n p n)) (p_ex p)).
Proof.
  unfold is_occurrence. change (a_phase (abs_pat p)) with (p_phase p).
  change (a_period (abs_pat p)) with (p_period p). change (a_removed (abs_pat p)) with (p_ex p).
  rewrite fstart_occ. replace (n * p_period p + p_phase p - p_phase p) with (n * p_period p) by lia.
  rewrite Z_mod_mult. reflexivity.
Qed.

Lemma clipW_test a b o :
  (Z.max (fstart o) a <? Z.min (fend o) b) = false -> clipW (Some a) (Some b) o = [].
Proof. intro E. unfold clipW. cbv zeta. cbn [bnd_lo bnd_hi]. rewrite E. reflexivity. Qed.

Lemma clip_aocc_in p a b :
  flat_map (clipW (Some a) (Some b)) (aocc_in (abs_pat p) a b) =
  flat_map (hcl p a b) (zrange (p_nmin p a - 2) (Z.to_nat (p_nmax p b - p_nmin p a + 4))).
Proof.
  rewrite aocc_in_unfold, flat_map_filter_map. apply flat_map_ext. intro n.
  rewrite is_occ_occ. unfold hcl.
  destruct (negb (memZ (fstart (occ_n p n)) (p_ex p))); cbn [andb]; [|reflexivity].
  destruct (Z.max (fstart (occ_n p n)) a <? Z.min (fend (occ_n p n)) b) eqn:E; [reflexivity|].
  symmetry. apply clipW_test. exact E.
Qed.

Lemma hcl_support p a b n :
  0 < p_period p -> ~ (p_nmin p a <= n <= p_nmax p b) -> hcl p a b n = [].
Proof.
  intros HP Hn. unfold hcl. destruct (negb _); [|reflexivity].
  apply clipW_nil. cbn [bnd_lo bnd_hi]. rewrite fstart_occ, fend_occ.
  destruct (Z.lt_ge_cases (a - p_dur p - p_phase p) (n * p_period p)) as [L1|G1];
  destruct (Z.le_gt_cases (n * p_period p) (b - p_phase p)) as [L2|G2]; try lia.
  exfalso. apply Hn. split; [apply (nmin_spec _ _ _ HP)|apply (nmax_spec _ _ _ HP)]; assumption.
Qed.

(* (i) the clipped occurrences the model fetches are the clipped occurrences of the spec *)
Theorem clip_pat_eq p a b :
  0 < p_period p ->
  flat_map (clipW (Some a) (Some b)) (pat_fetch p a b) =
  flat_map (clipW (Some a) (Some b)) (aocc_in (abs_pat p) a b).
Proof.
  intro HP. rewrite clip_pat_fetch, clip_aocc_in.
  set (lo := p_nmin p a). set (hi := p_nmax p b).
  destruct (Z_le_gt_dec lo hi) as [Hle|Hgt].
  - symmetry. apply flat_map_zrange_shrink; [lia|lia|].
    intros n Hn. apply (hcl_support p a b n HP). fold lo hi. lia.
  - rewrite !flat_map_all_nil; [reflexivity| |];
      intros n _; apply (hcl_support p a b n HP); fold lo hi; lia.
Qed.

(* ------------------------------------------------------------------------------------ *)
(* 2. The streams handed to heapq.merge are sorted *)

Lemma occ_le p n n' : 0 < p_period p -> n <= n' -> key_le (occ_n p n) (occ_n p n') = true.
Proof.
  intros HP Hn. unfold key_le. rewrite !fstart_occ, !fend_occ.
  assert (n * p_period p <= n' * p_period p) by nia. lia.
Qed.

Lemma occ_range_sorted p c : 0 < p_period p ->
  forall lo, sorted_le key_le (map (occ_n p) (zrange lo c)).
Proof.
  intro HP. induction c as [|c IH]; intro lo; [exact I|].
  rewrite zrange_S. cbn [map sorted_le]. split; [|apply IH].
  intros y Hy. apply in_map_iff in Hy as (n & <- & Hn). apply In_zrange in Hn.
  apply occ_le; [exact HP|lia].
Qed.

Lemma sorted_le_filter le f l : sorted_le le l -> sorted_le le (filter f l).
Proof.
  induction l as [|x r IH]; [tauto|]. intros [H1 H2]. cbn [filter].
  destruct (f x); [|exact (IH H2)]. split; [|exact (IH H2)].
  intros y Hy. apply filter_In in Hy as [Hy _]. exact (H1 y Hy).
Qed.

Theorem pat_fetch_sorted p a b : 0 < p_period p -> sorted_le key_le (pat_fetch p a b).
Proof.
  intro HP. rewrite pat_fetch_unfold. apply sorted_le_filter, occ_range_sorted. exact HP.
Qed.

Lemma static_fetch_sorted store a b :
  sorted_key store = true -> sorted_le key_le (fetch_static store a b false).
Proof.
  intro Hs. apply sortedP_sorted_le, sorted_key_P, fetch_static_sorted. exact Hs.
Qed.

(* ------------------------------------------------------------------------------------ *)
(* 3. MemoryTimeline.fetch *)

Definition fetched (m : mstate) (a b : Z) : list ivl :=
  flat_map (fun p => pat_fetch p a b) (m_pats m) ++
  filter (in_range (Some a) (Some b)) (m_static m).

Lemma concat_pat_streams (pats : list pat) a b (rv : bool) :
  Permutation (concat (map (fun p => let l := pat_fetch p a b in if rv then rev l else l) pats))
              (flat_map (fun p => pat_fetch p a b) pats).
Proof.
  induction pats as [|p r IH]; [reflexivity|]. cbn [map concat flat_map].
  apply Permutation_app; [|exact IH]. destruct rv; [symmetry; apply Permutation_rev|reflexivity].
Qed.

Theorem mfetch_perm m a b rv :
  sorted_key (m_static m) = true -> Permutation (mfetch m a b rv) (fetched m a b).
Proof.
  intro Hs. unfold mfetch, fetched. cbv zeta.
  etransitivity; [apply merge_perm|]. rewrite concat_app.
  apply Permutation_app; [apply concat_pat_streams|].
  destruct (fetch_static_spec (m_static m) (Some a) (Some b) Hs) as [E1 E2].
  destruct (m_static m) as [|x r] eqn:Est; [reflexivity|].
  cbn [concat]. rewrite app_nil_r. destruct rv.
  - rewrite E2, E1. symmetry. apply Permutation_rev.
  - rewrite E1. reflexivity.
Qed.

Lemma Forall_streams (P : list ivl -> Prop) (m : mstate) (f : pat -> list ivl) (g : list ivl) :
  Forall (fun p => P (f p)) (m_pats m) -> P g ->
  Forall P (map f (m_pats m) ++ match m_static m with [] => [] | _ => [g] end).
Proof.
  intros H1 H2. apply Forall_app. split.
  - apply Forall_map. exact H1.
  - destruct (m_static m); constructor; [exact H2|constructor].
Qed.

Theorem mfetch_fwd_sorted m a b bound :
  sorted_key (m_static m) = true -> Forall (pat_ok bound) (m_pats m) ->
  sorted_le key_le (mfetch m a b false).
Proof.
  intros Hs Hok. unfold mfetch. cbv zeta. apply merge_fwd_sorted. apply Forall_streams.
  - eapply Forall_impl; [|exact Hok]. intros p (_ & HP & _). cbv zeta.
    apply pat_fetch_sorted. exact HP.
  - apply static_fetch_sorted. exact Hs.
Qed.

Theorem mfetch_rev_sorted m a b bound :
  sorted_key (m_static m) = true -> Forall (pat_ok bound) (m_pats m) ->
  sorted_le key_ge (mfetch m a b true).
Proof.
  intros Hs Hok. unfold mfetch. cbv zeta. apply merge_rev_sorted. apply Forall_streams.
  - eapply Forall_impl; [|exact Hok]. intros p (_ & HP & _). cbv zeta.
    apply sorted_key_le_rev, pat_fetch_sorted. exact HP.
  - rewrite (proj2 (fetch_static_spec (m_static m) (Some a) (Some b) Hs)).
    apply sorted_key_le_rev, static_fetch_sorted. exact Hs.
Qed.

(* everything fetched ends after a and starts at or before b *)
Theorem mfetch_in m a b rv bound x :
  sorted_key (m_static m) = true -> Forall (pat_ok bound) (m_pats m) ->
  In x (mfetch m a b rv) -> a < fend x /\ fstart x <= b.
Proof.
  intros Hs Hok Hx. apply (Permutation_in x (mfetch_perm m a b rv Hs)) in Hx.
  unfold fetched in Hx. apply in_app_or in Hx as [Hx|Hx].
  - apply in_flat_map in Hx as (p & Hp & Hx).
    destruct (proj1 (Forall_forall _ _) Hok p Hp) as (_ & HP & _).
    apply (pat_fetch_in p a b x HP) in Hx as (n & _ & _ & H1 & H2). split; assumption.
  - apply filter_In in Hx as [_ Hr]. unfold in_range in Hr. lia.
Qed.

(* ------------------------------------------------------------------------------------ *)
(* 4. Clipping: order, events out of range, time negation *)

Lemma clip_filter_range a b l :
  flat_map (clipW (Some a) (Some b)) (filter (in_range (Some a) (Some b)) l) =
  flat_map (clipW (Some a) (Some b)) l.
Proof.
  induction l as [|x r IH]; [reflexivity|]. cbn [filter flat_map].
  destruct (in_range (Some a) (Some b) x) eqn:E; cbn [flat_map]; rewrite IH; [reflexivity|].
  rewrite (clipW_nil (Some a) (Some b) x); [reflexivity|].
  unfold in_range in E. cbn [bnd_lo bnd_hi]. lia.
Qed.

Lemma clip_pairwise (Q : Z -> Z -> Prop) a b xs :
  (forall u v lo, Q u v -> Q (Z.max u lo) (Z.max v lo)) ->
  pairwiseP (fun x y => Q (fstart x) (fstart y)) xs ->
  pairwiseP (fun x y => Q (fstart x) (fstart y)) (flat_map (clipW a b) xs).
Proof.
  intros HQ. induction xs as [|x r IH]; [tauto|]. intros [H1 H2]. cbn [flat_map].
  specialize (IH H2).
  destruct (clipW a b x) as [|g l] eqn:E; [exact IH|].
  assert (Hg : In g (clipW a b x)) by (rewrite E; left; reflexivity).
  assert (El : l = []).
  { revert E. unfold clipW. cbv zeta. destruct (_ <? _); [|discriminate]. intro E. injection E as _ <-. reflexivity. }
  subst l. cbn [app pairwiseP]. split; [|exact IH].
  intros y Hy. apply in_flat_map in Hy as (z & Hz & Hy).
  destruct (clipW_shape a b x g Hg) as (_ & -> & _). destruct (clipW_shape a b z y Hy) as (_ & -> & _).
  apply HQ. exact (H1 z Hz).
Qed.

Lemma sorted_by_pw (le : Z -> Z -> bool) l :
  pairwiseP (fun x y => le (fstart x) (fstart y) = true) l -> sorted_by le l = true.
Proof.
  induction l as [|x r IH]; [reflexivity|]. intros [H1 H2]. cbn [sorted_by].
  destruct r as [|y r']; [reflexivity|]. rewrite (H1 y (or_introl eq_refl)). exact (IH H2).
Qed.

Lemma clip_sorted_asc a b xs :
  sorted_start xs -> sorted_by Z.leb (flat_map (clipW a b) xs) = true.
Proof.
  intro H. apply sorted_by_pw. apply (clip_pairwise (fun u v => (u <=? v) = true)).
  - intros u v lo Huv. lia.
  - apply sorted_start_pw in H. eapply pairwiseP_impl; [|exact H]. intros x y _ _ Hxy. cbv beta in *. lia.
Qed.

Lemma clip_sorted_desc a b xs :
  sorted_le key_ge xs -> sorted_by Z.geb (flat_map (clipW a b) xs) = true.
Proof.
  intro H. apply sorted_by_pw. apply (clip_pairwise (fun u v => (u >=? v) = true)).
  - intros u v lo Huv. lia.
  - apply sorted_le_pw in H. eapply pairwiseP_impl; [|exact H]. intros x y _ _ Hxy. cbv beta.
    unfold key_ge in Hxy. apply key_le_fstart in Hxy. lia.
Qed.

(* clipping the mirror image in the mirrored window and mirroring back *)
Lemma neg_clip a b x :
  neg_stream (clipW (Some (- b)) (Some (- a)) (neg_ivl x)) = clipW (Some a) (Some b) x.
Proof.
  unfold clipW. cbv zeta. cbn [bnd_lo bnd_hi]. rewrite fstart_neg, fend_neg.
  replace (Z.max (- fend x) (- b)) with (- Z.min (fend x) b) by lia.
  replace (Z.min (- fstart x) (- a)) with (- Z.max (fstart x) a) by lia.
  set (S := Z.max (fstart x) a). set (E := Z.min (fend x) b).
  destruct (S <? E) eqn:C1; destruct (- E <? - S) eqn:C2; try lia; [|reflexivity].
  cbn [neg_stream map]. f_equal. unfold neg_ivl, set_span. cbn [st en pl].
  pose proof sentinels_opp as Hs.
  f_equal.
  - unfold unE, unS. destruct (- S =? POS_INF) eqn:C3; destruct (S =? NEG_INF) eqn:C4;
      cbn [negO]; try lia; [reflexivity|]. f_equal. lia.
  - unfold unE, unS. destruct (- E =? NEG_INF) eqn:C3; destruct (E =? POS_INF) eqn:C4;
      cbn [negO]; try lia; [reflexivity|]. f_equal. lia.
Qed.

Lemma neg_clip_all a b l :
  neg_stream (flat_map (clipW (Some (- b)) (Some (- a))) (neg_stream l)) =
  flat_map (clipW (Some a) (Some b)) l.
Proof.
  induction l as [|x r IH]; [reflexivity|]. cbn [neg_stream map flat_map].
  fold (neg_stream r). rewrite neg_stream_app, IH, neg_clip. reflexivity.
Qed.

(* the sweep never stops early when the only events that could stop it imply an empty window *)
Lemma stop_ok_no_beyond lo hi xs :
  (forall x, In x xs -> beyond lo hi x = true -> bnd_hi hi <= bnd_lo lo) -> stop_ok lo hi xs.
Proof.
  induction xs as [|x r IH]; [intros _; exact I|]. intro H. split.
  - intro Eb. specialize (H x (or_introl eq_refl) Eb).
    apply flat_map_nil. intros y _. apply clipW_nil. lia.
  - apply IH. intros y Hy. apply H. right. exact Hy.
Qed.

(* ------------------------------------------------------------------------------------ *)
(* 5. Slices *)

(* (iii) forward: the sweep against the window is per-event clipping of the merged stream *)
Theorem mslice_fwd m a b bound :
  sorted_key (m_static m) = true -> Forall (pat_ok bound) (m_pats m) ->
  mslice m a b false = flat_map (clipW (Some a) (Some b)) (mfetch m a b false).
Proof.
  intros Hs Hok. unfold mslice. cbv zeta. apply clip_sweep_masks.
  apply sorted_key_le_sorted_start. exact (mfetch_fwd_sorted m a b bound Hs Hok).
Qed.

(* (iv) reverse: the same, with no hypothesis on the ends *)
Theorem mslice_rev m a b bound :
  sorted_key (m_static m) = true -> Forall (pat_ok bound) (m_pats m) ->
  mslice m a b true = flat_map (clipW (Some a) (Some b)) (mfetch m a b true).
Proof.
  intros Hs Hok. unfold mslice. cbv zeta.
  change (neg_ivl (mkI (Some a) (Some b) Plain)) with (mkI (Some (- b)) (Some (- a)) Plain).
  destruct (emit_sel_masks false) as [S0 S1].
  rewrite (proj2 (clip_sweep_iff (emit_sel [false; true]) (neg_stream (mfetch m a b true))
                                 (Some (- b)) (Some (- a)) S0 S1)).
  - apply neg_clip_all.
  - apply stop_ok_no_beyond. intros x Hx Eb. unfold neg_stream in Hx.
    apply in_map_iff in Hx as (y & <- & Hy).
    destruct (mfetch_in m a b true bound y Hs Hok Hy) as [H1 _].
    unfold beyond in Eb. rewrite fstart_neg, fend_neg in Eb. cbn [bnd_lo bnd_hi] in *. lia.
Qed.

Theorem mslice_clip m a b rv bound :
  sorted_key (m_static m) = true -> Forall (pat_ok bound) (m_pats m) ->
  mslice m a b rv = flat_map (clipW (Some a) (Some b)) (mfetch m a b rv).
Proof. destruct rv; [apply mslice_rev|apply mslice_fwd]. Qed.

(* the clip of what is fetched is the expected slice, as a multiset *)
Lemma fetched_expected m s a b :
  R m s ->
  Permutation (flat_map (clipW (Some a) (Some b)) (fetched m a b)) (expected_slice s a b).
Proof.
  intros [H1 H2 H3 H4 H5 H6]. unfold fetched, expected_slice.
  rewrite !flat_map_app, clip_filter_range, H4. rewrite Permutation_app_comm.
  apply Permutation_app; [apply Permutation_flat_map; exact H2|].
  rewrite !flat_map_flat_map.
  clear H4 H5. induction (m_pats m) as [|p r IH]; [reflexivity|].
  inversion H6 as [|? ? Hp Hr]; subst. cbn [map flat_map].
  destruct Hp as (_ & HP & _). rewrite (clip_pat_eq p a b HP).
  apply Permutation_app; [reflexivity|exact (IH Hr)].
Qed.

Theorem slice_sim m s a b rv :
  R m s ->
  mset_eqb (mslice m a b rv) (expected_slice s a b) = true /\
  sorted_by (if rv then Z.geb else Z.leb) (mslice m a b rv) = true.
Proof.
  intro HR. pose proof HR as [H1 H2 H3 H4 H5 H6].
  rewrite (mslice_clip m a b rv (m_seq m) H1 H6). split.
  - apply perm_mset_eqb. etransitivity; [|exact (fetched_expected m s a b HR)].
    apply Permutation_flat_map. exact (mfetch_perm m a b rv H1).
  - destruct rv.
    + apply clip_sorted_desc. exact (mfetch_rev_sorted m a b (m_seq m) H1 H6).
    + apply clip_sorted_asc, sorted_key_le_sorted_start.
      exact (mfetch_fwd_sorted m a b (m_seq m) H1 H6).
Qed.

(* ------------------------------------------------------------------------------------ *)
(* 6. Histories *)

Lemma trace_step_write s o r flags res obs :
  is_slice o = false ->
  trace_ok s (o :: r) ((flags, res) :: obs) =
  let '(s', exp) := astep s o in
  (match exp with
   | Some f => list_eqb Bool.eqb flags [f] && match res with [] => true | _ => false end
   | None => false
   end) && trace_ok s' r obs.
Proof. destruct o; try discriminate; intros _; reflexivity. Qed.

Theorem C12_refinement : forall ops m s,
  R m s -> Forall op_ok ops -> trace_ok s ops (mrun m ops) = true.
Proof.
  induction ops as [|o r IH]; intros m s HR Hok; [reflexivity|].
  inversion Hok as [|? ? Ho Hr]; subst. cbn [mrun].
  destruct (mstep m o) as [m' [flags res]] eqn:Em. destruct (is_slice o) eqn:Es.
  - destruct o as [| | | |a b rv]; try discriminate. rewrite mstep_slice in Em.
    injection Em as <- <- <-. cbn [trace_ok astep].
    destruct (slice_sim m s a b rv HR) as [Q1 Q2]. rewrite Q1, Q2. cbn [andb].
    exact (IH m s HR Hr).
  - rewrite (trace_step_write s o r flags res _ Es).
    destruct (write_step_sim m s o HR Ho Es) as (f & Ha & Hm & HR').
    rewrite Em in Hm, HR'. cbn [fst snd] in Hm, HR'.
    destruct (astep s o) as [s' exp]. cbn [fst snd] in Ha, HR'. subst exp.
    injection Hm as -> ->. cbn [list_eqb]. rewrite Bool.eqb_reflx. cbn [andb].
    exact (IH m' s' HR' Hr).
Qed.

(* the relation holds after every history (an invariant of the reachable states) *)
Theorem R_reachable : forall ops m s,
  R m s -> Forall op_ok ops ->
  R (fold_left (fun m o => fst (mstep m o)) ops m) (fold_left (fun s o => fst (astep s o)) ops s).
Proof.
  induction ops as [|o r IH]; intros m s HR Hok; [exact HR|].
  inversion Hok as [|? ? Ho Hr]; subst. cbn [fold_left]. apply IH; [|exact Hr].
  destruct (is_slice o) eqn:Es.
  - destruct o; try discriminate. exact HR.
  - destruct (write_step_sim m s o HR Ho Es) as (_ & _ & _ & HR'). exact HR'.
Qed.

(* MAIN THEOREM: every history of the model is a history of the abstract machine: every slice
   (forward or reverse) is the multiset of the intervals added and not yet removed plus the
   occurrences of the stored series minus their removed instances, in the requested order, and
   every WriteResult carries the abstract machine's success flag *)
Theorem C12_history : forall ops,
  Forall op_wf ops -> trace_ok ainit ops (mrun minit ops) = true.
Proof.
  intros ops H. apply C12_refinement; [exact R_init|].
  eapply Forall_impl; [|exact H]. exact op_wf_ok.
Qed.

(* the same under the hypotheses the proof uses: positive period and duration of patterns *)
Theorem C12_history_gen : forall ops,
  Forall op_ok ops -> trace_ok ainit ops (mrun minit ops) = true.
Proof. intros ops H. apply C12_refinement; [exact R_init|exact H]. Qed.

(* "each WriteResult reports success precisely when the write took effect; an unsuccessful
   removal changes nothing": in every reachable state, a write reports the abstract machine's
   flag, and a reported failure leaves the model state literally unchanged *)
Theorem C12_flags : forall ops o,
  Forall op_ok ops -> op_ok o -> is_slice o = false ->
  let m := fold_left (fun m o => fst (mstep m o)) ops minit in
  let s := fold_left (fun s o => fst (astep s o)) ops ainit in
  exists f, snd (astep s o) = Some f /\ snd (mstep m o) = ([f], []) /\
            (f = false -> fst (mstep m o) = m /\ fst (astep s o) = s).
Proof.
  intros ops o Hops Ho Es m s.
  assert (HR : R m s) by (apply R_reachable; [exact R_init|exact Hops]).
  destruct (write_step_sim m s o HR Ho Es) as (f & Ha & Hm & _).
  exists f. split; [exact Ha|]. split; [exact Hm|]. intros ->. split.
  - apply mstep_failed_unchanged. rewrite Hm. reflexivity.
  - apply astep_failed_unchanged. exact Ha.
Qed.

(* ------------------------------------------------------------------------------------ *)
(* 7. The metadata merge of add(item, **kwargs) *)

Theorem meta_merge_spec : forall i k c, oracle_meta (mkMeta i k c (meta_merge i k c)) = true.
Proof.
  intros i k c. unfold oracle_meta, meta_merge. cbn [mt_item mt_kw mt_cont mt_out].
  destruct k as [[v|]|].
  - cbn [oN_eqb]. apply N.eqb_refl.
  - destruct c as [[d|]|]; cbn [oN_eqb]; try reflexivity. apply N.eqb_refl.
  - destruct i as [v|].
    + cbn [oN_eqb]. apply N.eqb_refl.
    + destruct c as [[d|]|]; cbn [oN_eqb]; try reflexivity. apply N.eqb_refl.
Qed.

(* ------------------------------------------------------------------------------------ *)
(* 8. Worked examples *)

Definition evt (a b : Z) (id : N) : ivl := mkI (Some a) (Some b) (Rich id).

(* two series, two static events (one nested in the other), removal of an instance, the same
   removal again (fails), a removal at a time that is no occurrence (fails), removal of a
   series, again (fails), removal of a static event, again (fails), slices both ways *)
Definition demo : list mop :=
  [ MAddPat 10 3 25 7; MAddPat 7 0 2 8; MAdd (evt 0 100 100); MAdd (evt 10 20 200);
    MSlice 0 40 false; MSlice 0 40 true;
    MRemove (evt 13 0 1); MRemove (evt 13 0 1); MRemove (evt 14 0 1);
    MRemoveSeries (evt 0 0 2); MRemoveSeries (evt 0 0 2);
    MRemove (evt 10 20 200); MRemove (evt 10 20 200);
    MSlice 0 40 false; MSlice 0 40 true ].

Example demo_wf : Forall op_wf demo.
Proof.
  unfold demo. repeat constructor; unfold wf_ivl, canon_ivl, NEG_INF, POS_INF; cbn; try lia;
    try discriminate.
Qed.

Example demo_flags :
  map fst (mrun minit demo) =
  [[true]; [true]; [true]; [true]; []; []; [true]; [false]; [false]; [true]; [false];
   [true]; [false]; []; []].
Proof. vm_compute. reflexivity. Qed.

Example demo_last_slices :
  map snd (skipn 13 (mrun minit demo)) =
  [ [evt 0 8 701; evt 0 18 701; evt 0 40 100; evt 3 28 701; evt 23 40 701; evt 33 40 701];
    [evt 33 40 701; evt 23 40 701; evt 3 28 701; evt 0 40 100; evt 0 18 701; evt 0 8 701] ].
Proof. vm_compute. reflexivity. Qed.

Example demo_ok : trace_ok ainit demo (mrun minit demo) = true.
Proof. exact (C12_history demo demo_wf). Qed.

(* the nested events of defect D3: the stream handed to the reverse sweep is not sorted, the
   reverse slice is exact all the same *)
Definition nested : list mop := [MAdd (evt 0 100 100); MAdd (evt 10 20 200)].

Example reverse_unsorted_but_exact :
  let m := fold_left (fun m o => fst (mstep m o)) nested minit in
  sorted_by Z.leb (neg_stream (mfetch m 0 200 true)) = false /\
  mslice m 0 200 true = [evt 10 20 200; evt 0 100 100] /\
  trace_ok ainit (nested ++ [MSlice 0 200 true]) (mrun minit (nested ++ [MSlice 0 200 true])) = true.
Proof. vm_compute. repeat split; reflexivity. Qed.

Print Assumptions clip_pat_eq.
Print Assumptions mslice_fwd.
Print Assumptions mslice_rev.
Print Assumptions slice_sim.
Print Assumptions C12_refinement.
Print Assumptions C12_history.
Print Assumptions C12_history_gen.
Print Assumptions C12_flags.
Print Assumptions meta_merge_spec.
Print Assumptions demo_ok.
