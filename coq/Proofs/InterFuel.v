(* Proofs/InterFuel.v — the fuel of the Intersection._sweep model never runs out: every
   iteration of the "while True" loop that continues has advanced exactly one state that was
   not exhausted, which decreases [ss_measure] by exactly one; the emission step changes
   neither [rest] nor [exh].  Also: more fuel never changes a [Some] result. *)
From CG Require Import Proofs.Defs.

(* ---------- advance ---------- *)

Lemma advance_live s :
  exh s = false ->
  snd (advance s) = true /\ S (st_measure (fst (advance s))) = st_measure s.
Proof.
  intro He. unfold advance, st_measure. rewrite He.
  destruct (rest s) as [|x r] eqn:Er; cbn [fst snd rest exh length]; split; try reflexivity; lia.
Qed.

Lemma ends_at_live c s : ends_at c s = true -> exh s = false.
Proof.
  unfold ends_at. destruct (cur s) as [x|]; [|discriminate].
  destruct (exh s); [|reflexivity]. rewrite andb_false_r. discriminate.
Qed.

Lemma stalled_live c s : stalled c s = true -> exh s = false.
Proof.
  unfold stalled. destruct (cur s) as [x|]; [|discriminate].
  destruct (exh s); [|reflexivity]. cbn [negb andb]. discriminate.
Qed.

(* ---------- emit keeps the measure ---------- *)

Lemma emit_measure os oe sel : forall ss i,
  ss_measure (fst (emit os oe sel i ss)) = ss_measure ss.
Proof.
  induction ss as [|s r IH]; intro i; cbn [emit]; [reflexivity|].
  specialize (IH (S i)). destruct (emit os oe sel (S i) r) as [r' out] eqn:Er.
  cbn [fst] in IH.
  destruct (cur s) as [c|] eqn:Ec.
  - destruct (sel i && negb (lpc_is s oe)) eqn:Eg; cbn [fst ss_measure fold_right].
    + fold (ss_measure r'). fold (ss_measure r). rewrite IH. reflexivity.
    + fold (ss_measure r'). fold (ss_measure r). rewrite IH. reflexivity.
  - cbn [fst ss_measure fold_right]. fold (ss_measure r'). fold (ss_measure r).
    rewrite IH. reflexivity.
Qed.

(* ---------- adv_first: true means the measure dropped by one ---------- *)

Lemma adv_first_measure p sel :
  (forall s, p s = true -> exh s = false) ->
  forall ss i,
    (snd (adv_first p sel i ss) = true ->
     S (ss_measure (fst (adv_first p sel i ss))) = ss_measure ss) /\
    (snd (adv_first p sel i ss) = false -> fst (adv_first p sel i ss) = ss).
Proof.
  intros Hp. induction ss as [|s r IH]; intro i; cbn [adv_first].
  - cbn [fst snd]. split; [discriminate|reflexivity].
  - destruct (sel i && p s) eqn:Eg.
    + apply andb_true_iff in Eg as [_ Eps]. apply Hp in Eps.
      destruct (advance_live s Eps) as [A1 A2]. cbn [fst snd]. split.
      * intros _. cbn [ss_measure fold_right]. fold (ss_measure r). lia.
      * rewrite A1. discriminate.
    + specialize (IH (S i)). destruct (adv_first p sel (S i) r) as [r' b] eqn:Er.
      cbn [fst snd] in *. destruct IH as [I1 I2]. split.
      * intro Hb. specialize (I1 Hb). cbn [ss_measure fold_right].
        fold (ss_measure r'). fold (ss_measure r). lia.
      * intro Hb. rewrite (I2 Hb). reflexivity.
Qed.

(* ---------- the loop ---------- *)

Lemma inter_loop_total sel : forall fuel ss,
  (ss_measure ss < fuel)%nat -> inter_loop fuel sel ss <> None.
Proof.
  induction fuel as [|f IH]; intros ss Hm; [lia|].
  cbn [inter_loop].
  destruct (all_cur ss) as [act|] eqn:Eact; [|discriminate].
  cbv zeta.
  set (os := max_start act). set (oe := min_end act).
  assert (Hem : exists ss1 out,
             (if os <? oe then emit os oe sel 0 ss else (ss, [])) = (ss1, out) /\
             ss_measure ss1 = ss_measure ss).
  { destruct (os <? oe) eqn:Elt.
    - pose proof (emit_measure os oe sel ss 0%nat) as Hme.
      destruct (emit os oe sel 0 ss) as [ss1 out] eqn:Ee. cbn [fst] in Hme.
      exists ss1, out. split; [reflexivity|exact Hme].
    - exists ss, []. split; reflexivity. }
  destruct Hem as (ss1 & out & -> & Hm1).
  destruct (adv_first_measure (ends_at oe) (fun _ => true) (ends_at_live oe) ss1 0%nat) as [A1 A2].
  destruct (adv_first (ends_at oe) (fun _ => true) 0 ss1) as [ss2 adv] eqn:Ea.
  cbn [fst snd] in A1, A2.
  destruct adv.
  - specialize (A1 eq_refl).
    assert (Hlt : (ss_measure ss2 < f)%nat) by lia.
    specialize (IH ss2 Hlt). destruct (inter_loop f sel ss2); [discriminate|congruence].
  - specialize (A2 eq_refl). subst ss2.
    destruct (adv_first_measure (stalled oe) sel (stalled_live oe) ss1 0%nat) as [B1 B2].
    destruct (adv_first (stalled oe) sel 0 ss1) as [ss3 adv2] eqn:Eb.
    cbn [fst snd] in B1, B2.
    destruct adv2; [|discriminate].
    specialize (B1 eq_refl).
    assert (Hlt : (ss_measure ss3 < f)%nat) by lia.
    specialize (IH ss3 Hlt). destruct (inter_loop f sel ss3); [discriminate|congruence].
Qed.

(* more fuel gives the same answer *)
Lemma inter_loop_fuel_mono sel : forall f1 f2 ss o,
  (f1 <= f2)%nat -> inter_loop f1 sel ss = Some o -> inter_loop f2 sel ss = Some o.
Proof.
  induction f1 as [|f1 IH]; intros f2 ss o Hle H1; [discriminate|].
  destruct f2 as [|f2]; [lia|].
  cbn [inter_loop] in *.
  destruct (all_cur ss) as [act|]; [|exact H1].
  cbv zeta in *.
  destruct (if max_start act <? min_end act then emit (max_start act) (min_end act) sel 0 ss
            else (ss, [])) as [ss1 out].
  destruct (adv_first (ends_at (min_end act)) (fun _ => true) 0 ss1) as [ss2 adv].
  destruct (if adv then (ss2, true) else adv_first (stalled (min_end act)) sel 0 ss2) as [ss3 adv2].
  destruct adv2; [|exact H1].
  destruct (inter_loop f1 sel ss3) as [o1|] eqn:E1; [|discriminate].
  rewrite (IH f2 ss3 o1); [exact H1|lia|exact E1].
Qed.

(* with enough fuel the result does not depend on the fuel *)
Lemma inter_loop_fuel_irrel sel f1 f2 ss :
  (ss_measure ss < f1)%nat -> (ss_measure ss < f2)%nat ->
  inter_loop f1 sel ss = inter_loop f2 sel ss.
Proof.
  intros H1 H2.
  destruct (inter_loop f1 sel ss) as [o|] eqn:E1;
    [|exfalso; exact (inter_loop_total sel f1 ss H1 E1)].
  destruct (Nat.le_ge_cases f1 f2) as [Hle|Hge].
  - symmetry. exact (inter_loop_fuel_mono sel f1 f2 ss o Hle E1).
  - destruct (inter_loop f2 sel ss) as [o2|] eqn:E2;
      [|exfalso; exact (inter_loop_total sel f2 ss H2 E2)].
    rewrite (inter_loop_fuel_mono sel f2 f1 ss o2 Hge E2) in E1. exact (eq_sym E1).
Qed.

(* ---------- the sweep ---------- *)

Theorem inter_sweep_opt_total : forall streams sel, inter_sweep_opt streams sel <> None.
Proof.
  intros streams sel. unfold inter_sweep_opt.
  destruct (forallb (fun s => exh s && match cur s with None => true | _ => false end)
                    (map init_state streams)); [discriminate|].
  destruct (map init_state streams) as [|s [|s' r]].
  - apply inter_loop_total. lia.
  - discriminate.
  - apply inter_loop_total. lia.
Qed.

Corollary inter_sweep_some : forall streams sel,
  inter_sweep_opt streams sel = Some (inter_sweep streams sel).
Proof.
  intros streams sel. unfold inter_sweep.
  destruct (inter_sweep_opt streams sel) eqn:E; [reflexivity|].
  exfalso. exact (inter_sweep_opt_total streams sel E).
Qed.

Print Assumptions inter_sweep_opt_total.
Print Assumptions inter_sweep_some.
Print Assumptions inter_loop_fuel_irrel.
