(* Spec/MemSpec.v — what C12 says an in-memory timeline is: the bag of intervals added and not
   yet removed, plus recurring series with their individually removed instances; every slice is
   the clip of all of that; a write succeeds precisely when it takes effect. *)
From CG Require Export Model.Mem Spec.Sets.

Record aseries := mkAS { a_ser : N; a_period : Z; a_phase : Z; a_dur : Z; a_tag : N; a_removed : list Z }.
Record astate := mkA { a_bag : list ivl; a_series : list aseries; a_count : N }.
Definition ainit : astate := mkA [] [] 0%N.

(* t is the start of an occurrence of the series that has not been removed *)
Definition is_occurrence (x : aseries) (t : Z) : bool :=
  ((t - a_phase x) mod a_period x =? 0) && negb (memZ t (a_removed x)).

Definition aocc (x : aseries) (n : Z) : ivl :=
  let s := n * a_period x + a_phase x in
  mkI (Some s) (Some (s + a_dur x)) (Rich (a_tag x * SER + a_ser x)).

(* the occurrences meeting the window, found by testing every candidate index in a range that
   is generous on both sides *)
Definition aocc_in (x : aseries) (a b : Z) : list ivl :=
  let lo := (a - a_dur x - a_phase x) / a_period x - 1 in
  let hi := (b - a_phase x) / a_period x + 1 in
  filter (fun o => is_occurrence x (fstart o) && (Z.max (fstart o) a <? Z.min (fend o) b))
         (map (fun k => aocc x (lo + Z.of_nat k)) (seq 0 (Z.to_nat (hi - lo + 1)))).

Fixpoint afind (k : N) (l : list aseries) : option aseries :=
  match l with [] => None | x :: r => if N.eqb (a_ser x) k then Some x else afind k r end.

Fixpoint bag_remove (x : ivl) (l : list ivl) : option (list ivl) :=
  match l with
  | [] => None
  | y :: r => if ivl_eqb x y then Some r
              else match bag_remove x r with Some r' => Some (y :: r') | None => None end
  end.

Definition expected_slice (s : astate) (a b : Z) : list ivl :=
  flat_map (clipW (Some a) (Some b)) (a_bag s ++ flat_map (fun x => aocc_in x a b) (a_series s)).

(* one step of the abstract machine: new state, expected success flags (None for a slice) *)
Definition astep (s : astate) (o : mop) : astate * option bool :=
  match o with
  | MAdd ev => (mkA (ev :: a_bag s) (a_series s) (a_count s), Some true)
  | MAddPat period phase dur tag =>
    let k := N.succ (a_count s) in
    (mkA (a_bag s) (a_series s ++ [mkAS k period phase dur tag []]) k, Some true)
  | MRemove ev =>
    match bag_remove ev (a_bag s) with
    | Some bag' => (mkA bag' (a_series s) (a_count s), Some true)     (* a stored interval *)
    | None =>
    if N.eqb (series_of ev) 0 then (s, Some false)            (* unsuccessful: nothing changes *)
    else
      match afind (series_of ev) (a_series s), st ev with
      | Some x, Some t =>
        if is_occurrence x t then
          (mkA (a_bag s)
               (map (fun y => if N.eqb (a_ser y) (a_ser x)
                              then mkAS (a_ser y) (a_period y) (a_phase y) (a_dur y) (a_tag y) (t :: a_removed y)
                              else y) (a_series s))
               (a_count s), Some true)
        else (s, Some false)
      | _, _ => (s, Some false)
      end
    end
  | MRemoveSeries ev =>
    if N.eqb (series_of ev) 0 then
      match bag_remove ev (a_bag s) with
      | Some bag' => (mkA bag' (a_series s) (a_count s), Some true)
      | None => (s, Some false)
      end
    else
      match afind (series_of ev) (a_series s) with
      | Some x => (mkA (a_bag s) (filter (fun y => negb (N.eqb (a_ser y) (a_ser x))) (a_series s)) (a_count s), Some true)
      | None => (s, Some false)
      end
  | MSlice _ _ _ => (s, None)
  end.

(* does an observed trace (success flags, slice results) agree with the abstract machine? *)
Fixpoint trace_ok (s : astate) (ops : list mop) (obs : list (list bool * list ivl)) : bool :=
  match ops, obs with
  | [], [] => true
  | o :: r, (flags, res) :: obs' =>
    let '(s', exp) := astep s o in
    (match o, exp with
     | MSlice a b rv, _ =>
       mset_eqb res (expected_slice s a b) && sorted_by (if rv then Z.geb else Z.leb) res &&
       match flags with [] => true | _ => false end
     | _, Some f => list_eqb Bool.eqb flags [f] && match res with [] => true | _ => false end
     | _, None => false
     end) && trace_ok s' r obs'
  | _, _ => false
  end.
