(* Spec/GcsaSpec.v — what C20 says, as an abstract machine and a trace oracle.

   The abstract state is the list of things the calendar holds, in the order the backend stores
   them: single events with their true instants, and series with their occurrences and the set
   of individually removed occurrence starts.  It knows nothing of pages, dates, presentations,
   RRULE/EXDATE strings or call counting:
     * a read of [lo, hi) returns exactly the items overlapping it (end > lo, start < hi), each once,
       ordered by start (stably), with id, summary, description, reminders, series link and span
       intact; reverse reads return the forward result reversed; all-day (date) items are flagged;
     * add(event) that reports success puts an item with the REQUESTED span under the returned id;
       add(pattern) puts a series whose occurrences are the pattern's own;
     * remove(instance) removes exactly that occurrence; remove/remove_series(single or series)
       removes the item; a write succeeds iff it took effect, must succeed when the request is
       valid and no backend call failed, and never raises;
     * a read may raise only when a backend call failed during it (or reverse without an end).
   Truth about the initial store comes from the simulated backend (Model/Gcsa.v: span_of, instances). *)
From CG Require Export Model.Gcsa.

Record aitem := mkAI {
  ai_id : N; ai_sum : N; ai_desc : option N; ai_rem : option (list reminder);
  ai_date : bool;                                  (* held as dates: reads must flag it all-day *)
  ai_occ : option (option Z -> option Z -> list (Z * Z));   (* series: occurrences meeting a window *)
  ai_s : Z; ai_e : Z;                              (* single event: its instants *)
  ai_removed : list Z }.                           (* series: removed occurrence starts *)

Definition spec_state := list aitem.

(* expected event and whether its all-day flag is prescribed *)
Definition xev := (aev * bool)%type.

Definition norm_rem (l : list reminder) (defrem : bool) : option (list reminder) :=
  if defrem then None else match l with [] => None | _ => Some l end.

Definition item_rows (lo hi : option Z) (x : aitem) : list xev :=
  match ai_occ x with
  | None =>
    if in_window lo hi (ai_s x) (ai_e x)
    then [(mkE (EId (ai_id x)) (ai_sum x) (ai_desc x) None (ai_date x) (ai_rem x) (ai_s x) (ai_e x), ai_date x)]
    else []
  | Some occ =>
    flat_map (fun p => let '(s, e) := p in
                       if in_window lo hi s e && negb (inZ s (ai_removed x))
                       then [(mkE (EInst (ai_id x) s) (ai_sum x) (ai_desc x) (Some (ai_id x)) (ai_date x)
                                  (ai_rem x) s e, ai_date x)]
                       else []) (occ lo hi)
  end.

Definition expected_fwd (s : spec_state) (lo hi : option Z) : list xev :=
  sort_by (fun x => e_s (fst x)) (flat_map (item_rows lo hi) s).

(* the documented default of reverse iteration: one year back from the end *)
Definition rev_lo (lo : option Z) (hi : Z) : option Z := match lo with Some l => Some l | None => Some (hi - 365 * DAY) end.

Definition oN_eq (a b : option N) : bool :=
  match a, b with Some x, Some y => N.eqb x y | None, None => true | _, _ => false end.
Definition rem_eqb (a b : reminder) : bool := Bool.eqb (fst a) (fst b) && (snd a =? snd b).
Definition orem_eq (a b : option (list reminder)) : bool :=
  match a, b with Some x, Some y => list_eqb rem_eqb x y | None, None => true | _, _ => false end.

Definition matches (x : xev) (g : aev) : bool :=
  let '(e, flagged) := x in
  eid_eqb (e_id e) (e_id g) && N.eqb (e_sum e) (e_sum g) && oN_eq (e_desc e) (e_desc g) &&
  oN_eq (e_rid e) (e_rid g) && orem_eq (e_rem e) (e_rem g) && (e_s e =? e_s g) && (e_e e =? e_e g) &&
  (negb flagged || Bool.eqb (e_allday e) (e_allday g)).

(* initial abstract state from the simulated backend's store *)
Definition item_of (b : bstate) (st : sev) : list aitem :=
  match s_id st, s_sum st, s_e st with
  | Some id, Some sm, Some _ =>
    match s_rec st with
    | None => let '(s, e) := span_of b st in
              [mkAI id sm (s_desc st) (norm_rem (s_rem st) (s_defrem st)) (s_allday st) None s (oget e s) []]
    | Some r =>
      [mkAI id sm (s_desc st) (norm_rem (s_rem st) (s_defrem st)) (s_allday st)
            (Some (fun lo hi => map (fun w => (w_s w, oget (w_e w) (w_s w))) (instances b st r lo hi))) 0 0 []]
    end
  | _, _, _ => []                 (* events without id / summary / end are not presented *)
  end.
Definition spec_init (b : bstate) : spec_state := flat_map (item_of b) (bs_store b).

Fixpoint find_item (n : N) (s : spec_state) : option aitem :=
  match s with [] => None | x :: r => if N.eqb (ai_id x) n then Some x else find_item n r end.
Definition del_item (n : N) (s : spec_state) : spec_state := filter (fun x => negb (N.eqb (ai_id x) n)) s.
Definition rm_occ (n : N) (t : Z) (s : spec_state) : spec_state :=
  map (fun x => if N.eqb (ai_id x) n
                then mkAI (ai_id x) (ai_sum x) (ai_desc x) (ai_rem x) (ai_date x) (ai_occ x) (ai_s x) (ai_e x)
                          (t :: ai_removed x)
                else x) s.

(* did a scheduled failure hit a call made during this operation? *)
Definition fired (fail : list nat) (c0 c1 : nat) : bool :=
  existsb (fun i => Nat.leb c0 i && Nat.ltb i c1) fail.

Definition id_n (i : eid) : option N := match i with EId n => Some n | EInst _ _ => None end.

(* one successful add result against the request *)
Definition add_ok (s : spec_state) (w : wev) (r : wres) (hit : bool) : option spec_state :=
  match r with
  | (true, Some (EId id, rs, re, ad)) =>
    if (rs =? v_s w) && (re =? v_e w) && match find_item id s with None => true | Some _ => false end
    then Some (s ++ [mkAI id (v_sum w) (v_desc w) (v_rem w) false None (v_s w) (v_e w) []])
    else None
  | (false, _) => if hit || negb (v_s w <? v_e w) then Some s else None
  | _ => None
  end.

Fixpoint adds_ok (s : spec_state) (ws : list wev) (rs : list wres) (hit : bool) : option spec_state :=
  match ws, rs with
  | [], [] => Some s
  | w :: ws', r :: rs' => match add_ok s w r hit with Some s' => adds_ok s' ws' rs' hit | None => None end
  | _, _ => None
  end.

Definition occ_fun (occ : list (Z * Z)) : option Z -> option Z -> list (Z * Z) :=
  fun lo hi => filter (fun p => in_window lo hi (fst p) (snd p)) occ.

Definition reads_ok (exp : list xev) (got : list aev) : bool :=
  (length exp =? length got)%nat && forallb (fun p => matches (fst p) (snd p)) (combine exp got).

(* the clip of a slice is the core's business (C01-C05): the expected slice is the core's own
   sweep applied to the expected stream *)
Definition expected_slice (s : spec_state) (lo hi : Z) (rv : bool) : list xev :=
  let fw := expected_fwd s (Some lo) (Some hi) in
  let l := if rv then rev fw else fw in
  let cl := slice_of (map fst l) lo hi rv in
  map (fun e => (e, match find_item (match e_id e with EId n => n | EInst n _ => n end) s with
                    | Some x => ai_date x | None => false end)) cl.

(* one step: new abstract state, or None if the observation contradicts the property *)
Definition spec_step (s : spec_state) (hist : list out) (fail : list nat) (c0 : nat) (o : op) (ob : out * nat)
  : option spec_state :=
  let '(x, c1) := ob in
  let hit := fired fail c0 c1 in
  match o, x with
  | OFetch lo hi rv, ORead None =>
    if hit || (rv && match hi with None => true | Some _ => false end) then Some s else None
  | OFetch lo hi rv, ORead (Some got) =>
    match rv, hi with
    | true, None => None
    | true, Some h => if reads_ok (rev (expected_fwd s (rev_lo lo h) hi)) got then Some s else None
    | false, _ => if reads_ok (expected_fwd s lo hi) got then Some s else None
    end
  | OSlice lo hi rv, ORead None => if hit then Some s else None
  | OSlice lo hi rv, ORead (Some got) => if reads_ok (expected_slice s lo hi rv) got then Some s else None
  | OAdd w, OWrite (Some [r]) => add_ok s w r hit
  | OAddMany ws, OWrite (Some rs) => adds_ok s ws rs hit
  | OAddRec p occ, OWrite (Some [r]) =>
    match r with
    | (true, Some (EId id, rs, re, ad)) =>
      (* the reported master is the first occurrence: it ends when the pattern's local clock has
         advanced by the duration (as every occurrence does, Spec/RecurSpec.v) *)
      if (rs =? p_anchor p) &&
         (re =? wall_to_utc (p_zone p) (utc_to_wall (p_zone p) (p_anchor p) + p_dur p) false) &&
         match find_item id s with None => true | Some _ => false end
      then Some (s ++ [mkAI id (p_sum p) None None false
                            (Some (occ_fun (filter (fun q => negb (inZ (fst q) (p_ex p))) occ))) 0 0 []])
      else None
    | (false, _) => if hit then Some s else None
    | _ => None
    end
  | ORemove ref k, _ =>
    match lookup hist ref k, x with
    | None, OSkip => Some s
    | Some ev, OWrite (Some [(ok, _)]) =>
      match e_rid ev with
      | Some m =>                                   (* one occurrence of series m *)
        match find_item m s with
        | Some it => match ai_occ it with
                     | Some _ => if ok then Some (rm_occ m (e_s ev) s) else if hit then Some s else None
                     | None => if ok then None else Some s
                     end
        | None => if ok then None else Some s
        end
      | None =>
        match id_n (e_id ev) with
        | Some n => match find_item n s with
                    | Some _ => if ok then Some (del_item n s) else if hit then Some s else None
                    | None => if ok then None else Some s
                    end
        | None => if ok then None else Some s
        end
      end
    | _, _ => None
    end
  | ORemoveSeries ref k, _ =>
    match lookup hist ref k, x with
    | None, OSkip => Some s
    | Some ev, OWrite (Some [(ok, _)]) =>
      match (match e_rid ev with Some m => Some m | None => id_n (e_id ev) end) with
      | Some n => match find_item n s with
                  | Some _ => if ok then Some (del_item n s) else if hit then Some s else None
                  | None => if ok then None else Some s
                  end
      | None => if ok then None else Some s
      end
    | _, _ => None
    end
  | _, _ => None                     (* in particular: OWrite None = a write raised *)
  end.

Fixpoint trace_ok (s : spec_state) (hist : list out) (fail : list nat) (c0 : nat)
         (ops : list op) (obs : list (out * nat)) : bool :=
  match ops, obs with
  | [], [] => true
  | o :: r, ob :: obs' =>
    match spec_step s hist fail c0 o ob with
    | Some s' => trace_ok s' (hist ++ [fst ob]) fail (snd ob) r obs'
    | None => false
    end
  | _, _ => false
  end.
