(* Spec/Sets.v — the abstract semantics the properties are stated against.  Short on purpose:
   instants covered, pointwise Boolean denotation, the per-event reference semantics
   ("unbounded evaluation"), canonical form, and the executable oracles built from them.
   Nothing here mentions cursors, heaps or sweeps. *)
From CG Require Export Model.Expr.

(* ---------- covered instants ---------- *)
Definition inside (i : ivl) (t : Z) : bool := (fstart i <=? t) && (t <? fend i).
Definition covers (l : list ivl) (t : Z) : bool := existsb (fun i => inside i t) l.
Definition inw (a b : option Z) (t : Z) : bool := (bnd_lo a <=? t) && (t <? bnd_hi b).
Definition pos_len (i : ivl) : bool := fstart i <? fend i.

(* ---------- pointwise denotation of set expressions (C01) ---------- *)
Fixpoint den (env : fenv) (e : expr) (t : Z) {struct e} : bool :=
  match e with
  | Stored evs => covers evs t
  | Solid => true
  | Union es => existsb (fun s => den env s t) es
  | Inter es => forallb (fun s => den env s t) es
  | Diff s subs => den env s t && negb (existsb (fun u => den env u t) subs)
  | Compl s => negb (den env s t)
  | Filt s f => match s with Stored evs => covers (filter (feval env f) evs) t | _ => false end
  | Buf _ _ _ => false
  | MergeW _ _ => false
  end.

(* the expressions den speaks about: | & - ~ flatten over stored timelines (and filters
   applied directly to stored events) *)
Fixpoint is_sexpr (e : expr) : bool :=
  match e with
  | Stored _ => true
  | Solid => true
  | Union es => forallb is_sexpr es
  | Inter es => match es with [] => false | _ => forallb is_sexpr es end
  | Diff s subs => is_sexpr s && forallb is_sexpr subs
  | Compl s => is_sexpr s
  | Filt s _ => match s with Stored _ => true | _ => false end
  | Buf _ _ _ => false
  | MergeW _ _ => false
  end.

(* ---------- per-event reference semantics (C02, C05, C16, C17, C18) ---------- *)

(* x minus one hole: at most a left and a right fragment, payload kept *)
Definition sub1 (f h : ivl) : list ivl :=
  if (fend h <=? fstart f) || (fend f <=? fstart h) || negb (pos_len h) then [f]
  else (if fstart f <? fstart h then [set_span f (st f) (Some (fstart h))] else []) ++
       (if fend h <? fend f then [set_span f (Some (fend h)) (en f)] else []).

(* maximal runs of x minus the union of the holes, in ascending order *)
Definition minus_runs (x : ivl) (holes : list ivl) : list ivl :=
  fold_left (fun frs h => flat_map (fun f => sub1 f h) frs) holes [x].

Definition full_line : ivl := mkI None None Plain.

(* all ways of choosing one event per operand *)
Fixpoint choices (ls : list (list ivl)) : list (list ivl) :=
  match ls with
  | [] => [[]]
  | l :: r => flat_map (fun x => map (cons x) (choices r)) l
  end.

(* Intersection, per event: an event x of an emitting operand is returned once for every
   distinct common part it has with one event chosen from each other operand ("per region
   where all operands overlap": two choices giving the same region count once). *)
Definition others (i : nat) (ls : list (list ivl)) : list (list ivl) := firstn i ls ++ skipn (S i) ls.

Definition zz_eqb (p q : Z * Z) : bool := (fst p =? fst q) && (snd p =? snd q).
Fixpoint dedup (l : list (Z * Z)) : list (Z * Z) :=
  match l with
  | [] => []
  | p :: r => if existsb (zz_eqb p) r then dedup r else p :: dedup r
  end.

Definition spans_for (x : ivl) (oth : list (list ivl)) : list (Z * Z) :=
  dedup (flat_map (fun c => let os := max_start (x :: c) in let oe := min_end (x :: c) in
                            if os <? oe then [(os, oe)] else [])
                  (choices oth)).

Definition inter_ref (masks : list bool) (ls : list (list ivl)) : list ivl :=
  match ls with
  | [] => []
  | _ =>
    flat_map (fun i =>
                if emit_sel masks i then
                  flat_map (fun x => map (fun p => set_span x (unS (fst p)) (unE (snd p)))
                                         (spans_for x (others i ls)))
                           (nth i ls [])
                else [])
             (seq 0 (length ls))
  end.

(* the window-independent ("unbounded") evaluation of an expression *)
Fixpoint ref (env : fenv) (e : expr) {struct e} : list ivl :=
  match e with
  | Stored evs => filter pos_len evs
  | Solid => [full_line]
  | Union es => flat_map (ref env) es
  | Inter es => inter_ref (map is_mask es) (map (ref env) es)
  | Diff s subs => flat_map (fun x => minus_runs x (flat_map (ref env) subs)) (ref env s)
  | Compl s => minus_runs full_line (ref env s)
  | Filt s f => filter (feval env f) (ref env s)
  | Buf s before after => map (buf_shift before after) (ref env s)
  | MergeW s g => []
  end.

Definition clipW (a b : option Z) (i : ivl) : list ivl :=
  let s := Z.max (fstart i) (bnd_lo a) in
  let e := Z.min (fend i) (bnd_hi b) in
  if s <? e then [set_span i (unS s) (unE e)] else [].

Definition expected (env : fenv) (e : expr) (a b : option Z) : list ivl :=
  flat_map (clipW a b) (ref env e).

(* multiset equality of event lists *)
Definition count_ivl (x : ivl) (l : list ivl) : nat := length (filter (ivl_eqb x) l).
Definition mset_eqb (l1 l2 : list ivl) : bool :=
  Nat.eqb (length l1) (length l2) && forallb (fun x => Nat.eqb (count_ivl x l1) (count_ivl x l2)) l1.

(* pairwise non-overlapping (touching allowed): the domain on which the sweeps that keep one
   current event per operand are exact *)
Definition overlap2 (x y : ivl) : bool := (Z.max (fstart x) (fstart y)) <? (Z.min (fend x) (fend y)).
Fixpoint disjoint_list (l : list ivl) : bool :=
  match l with [] => true | x :: r => forallb (fun y => negb (overlap2 x y)) r && disjoint_list r end.

(* every operand of an intersection and every source of a difference is internally disjoint *)
Fixpoint dom_exact (env : fenv) (e : expr) {struct e} : bool :=
  match e with
  | Stored _ => true
  | Solid => true
  | Union es => forallb (dom_exact env) es
  | Inter es => forallb (dom_exact env) es && forallb (fun s => disjoint_list (ref env s)) es
  | Diff s subs => dom_exact env s && forallb (dom_exact env) subs && disjoint_list (ref env s)
  | Compl s => dom_exact env s
  | Filt s _ => dom_exact env s
  | Buf s _ _ => dom_exact env s
  | MergeW s _ => false
  end.

(* ---------- well-formed result streams (C03) ---------- *)
Definition no_sentinel (i : ivl) : bool :=
  negb (oZ_eqb (st i) (Some NEG_INF)) && negb (oZ_eqb (en i) (Some POS_INF)) &&
  negb (oZ_eqb (st i) (Some POS_INF)) && negb (oZ_eqb (en i) (Some NEG_INF)).
Definition in_window (a b : option Z) (i : ivl) : bool :=
  (bnd_lo a <=? fstart i) && (fend i <=? bnd_hi b).
Fixpoint sorted_by (le : Z -> Z -> bool) (l : list ivl) : bool :=
  match l with
  | [] => true
  | x :: r => match r with [] => true | y :: _ => le (fstart x) (fstart y) && sorted_by le r end
  end.
Definition stream_wf (a b : option Z) (rv : bool) (out : list ivl) : bool :=
  forallb (fun i => pos_len i && in_window a b i && no_sentinel i) out &&
  sorted_by (if rv then Z.geb else Z.leb) out.

(* (start, end) order of stored timelines *)
Fixpoint sorted_key (l : list ivl) : bool :=
  match l with
  | [] => true
  | x :: r => match r with [] => true | y :: _ => key_le x y && sorted_key r end
  end.

(* ---------- canonical masks (C06) ---------- *)
Fixpoint separated (l : list ivl) : bool :=
  match l with
  | [] => true
  | x :: r => match r with [] => true | y :: _ => (fend x <? fstart y) && separated r end
  end.
Definition is_plain (i : ivl) : bool := match pl i with Plain => true | _ => false end.
Definition canonical (a b : option Z) (out : list ivl) : bool :=
  forallb (fun i => is_plain i && pos_len i && in_window a b i && no_sentinel i) out && separated out.

(* ---------- comparing two step functions on their breakpoints ---------- *)
Definition ends_of (l : list ivl) : list Z := flat_map (fun i => [fstart i; fend i]) l.
Fixpoint leaves (e : expr) {struct e} : list ivl :=
  match e with
  | Stored evs => evs
  | Solid => []
  | Union es => flat_map leaves es
  | Inter es => flat_map leaves es
  | Diff s subs => leaves s ++ flat_map leaves subs
  | Compl s => leaves s
  | Filt s _ => leaves s
  | Buf s _ _ => leaves s
  | MergeW s _ => leaves s
  end.
Definition minl (l : list Z) : Z := match l with [] => 0 | x :: r => fold_right Z.min x r end.
(* test points: every breakpoint and one instant below all of them *)
Definition test_points (pts : list Z) : list Z := (minl pts - 1) :: pts.
Definition agree_on (pts : list Z) (f g : Z -> bool) : bool :=
  forallb (fun t => Bool.eqb (f t) (g t)) (test_points pts).

(* C01 oracle: the covered instants of a slice result are den restricted to the window *)
Definition cover_ok (env : fenv) (e : expr) (a b : option Z) (out : list ivl) : bool :=
  let pts := bnd_lo a :: bnd_hi b :: ends_of (leaves e) ++ ends_of out in
  agree_on pts (covers out) (fun t => inw a b t && den env e t).

(* ---------- per-event survival (the reading of C02 that holds for every input) ----------
   [surv e id t]: instant t of the source event carrying payload [Rich id] survives in e and is
   attributed to that event.  Every returned copy of the event lies inside its surviving set,
   and the copies together cover exactly that set. *)
Fixpoint surv (env : fenv) (e : expr) (id : N) (t : Z) {struct e} : bool :=
  match e with
  | Stored evs => existsb (fun x => pl_eqb (pl x) (Rich id) && inside x t) evs
  | Solid => false
  | Union es => existsb (fun s => surv env s id t) es
  | Inter es =>
    let ss := map (fun s => surv env s id t) es in
    let ds := map (fun s => den env s t) es in
    let sel := emit_sel (map is_mask es) in
    let idx := seq 0 (length es) in
    existsb (fun i => sel i && nth i ss false &&
                      forallb (fun j => Nat.eqb i j || nth j ds false) idx) idx
  | Diff s subs => surv env s id t && negb (existsb (fun u => den env u t) subs)
  | Compl _ => false
  | Filt s f =>
    match s with
    | Stored evs => existsb (fun x => pl_eqb (pl x) (Rich id) && feval env f x && inside x t) evs
    | _ => false
    end
  | Buf _ _ _ => false
  | MergeW _ _ => false
  end.

Definition rich_ids (l : list ivl) : list N :=
  flat_map (fun x => match pl x with Rich id => [id] | Plain => [] end) l.
Definition copies (id : N) (out : list ivl) : list ivl :=
  filter (fun o => pl_eqb (pl o) (Rich id)) out.
Fixpoint nodup_rich (l : list ivl) : bool :=
  match l with
  | [] => true
  | x :: r => (is_plain x || negb (existsb (ivl_eqb x) r)) && nodup_rich r
  end.

(* no payload id occurs in two leaves / twice in a leaf (it does when the same timeline object is
   used twice in an expression: then a repeated (id, span) in a result is legitimate) *)
Fixpoint nodupN (l : list N) : bool :=
  match l with
  | [] => true
  | x :: r => negb (memN x r) && nodupN r
  end.

Definition events_weak_ok (env : fenv) (e : expr) (a b : option Z) (out : list ivl) : bool :=
  let ids := rich_ids (leaves e) in
  let pts := bnd_lo a :: bnd_hi b :: ends_of (leaves e) ++ ends_of out in
  forallb (fun o => match pl o with Rich id => memN id ids | Plain => true end) out &&
  forallb (fun id => agree_on pts (covers (copies id out)) (fun t => inw a b t && surv env e id t)) ids &&
  (nodup_rich out || negb (nodupN ids)).
