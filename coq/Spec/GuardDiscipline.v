(* Spec/GuardDiscipline.v — the exception-containment discipline of the write paths of
   calgebra/gcsa.py (C20), as a decidable predicate over structural facts extracted from the
   source on every run (Gen/GuardFacts.v, written by harness/translate/guardfacts.py), and the
   abstract semantics of "an exception escapes" those facts are about.
   The generic theorem (discipline => no write hook lets a backend failure escape, whatever
   the failure schedule) is Proofs/GcsaP.v. *)
From Coq Require Export String List Bool Arith.
Export ListNotations.
Open Scope string_scope.

Record bcall := mkBC { bc_name : string; bc_guarded : bool }.     (* a call through self.calendar *)
Record scall := mkSC { sc_name : string; sc_guarded : bool }.     (* self.<method>() / property read *)
(* guarded = lexically inside the body of a try with a handler for Exception that does not re-raise *)

Record gmethod := mkGM {
  gm_name : string;
  gm_entry : bool;            (* overrides a write hook of MutableTimeline *)
  gm_decorated : bool;        (* @_handle_write_errors *)
  gm_backend : list bcall;
  gm_self : list scall }.

Record gfacts := mkGF {
  gf_decorator_catches : bool;    (* _handle_write_errors = try: return func(...) except Exception: return ... *)
  gf_methods : list gmethod }.

Fixpoint find_gm (n : string) (l : list gmethod) : option gmethod :=
  match l with [] => None | m :: r => if String.eqb n (gm_name m) then Some m else find_gm n r end.

(* no backend failure can escape from method n *)
Fixpoint contained (fuel : nat) (ms : list gmethod) (n : string) : bool :=
  match fuel with
  | O => false
  | S f =>
    match find_gm n ms with
    | None => false                                  (* unknown callee: assume the worst *)
    | Some m =>
      gm_decorated m ||
      (forallb bc_guarded (gm_backend m) &&
       forallb (fun c => sc_guarded c || contained f ms (sc_name c)) (gm_self m))
    end
  end.

Definition write_hooks : list string :=
  ["_add_interval"; "_add_recurring"; "_add_many"; "_remove_interval"; "_remove_series"].

Definition guard_discipline (g : gfacts) : bool :=
  gf_decorator_catches g &&
  forallb (fun m => negb (gm_entry m) || contained (S (length (gf_methods g))) (gf_methods g) (gm_name m))
          (gf_methods g) &&
  (* every write hook the generic add/remove/remove_series dispatch to is overridden here *)
  forallb (fun n => existsb (fun m => String.eqb n (gm_name m) && gm_entry m) (gf_methods g)) write_hooks.

(* ---- what the facts mean: an abstract run of a method under a failure schedule ----
   A schedule says, for every backend call site (method, position), whether it raises.  All call
   sites are taken to be reachable (an over-approximation of the control flow). *)
Definition schedule := string -> nat -> bool.

Fixpoint escapes (fuel : nat) (dec_ok : bool) (ms : list gmethod) (sch : schedule) (n : string) : bool :=
  match fuel with
  | O => true                                        (* out of fuel: assume it escapes *)
  | S f =>
    match find_gm n ms with
    | None => true
    | Some m =>
      if gm_decorated m && dec_ok then false
      else
        existsb (fun p => negb (bc_guarded (snd p)) && sch n (fst p))
                (combine (seq 0 (length (gm_backend m))) (gm_backend m)) ||
        existsb (fun c => negb (sc_guarded c) && escapes f dec_ok ms sch (sc_name c)) (gm_self m)
    end
  end.
