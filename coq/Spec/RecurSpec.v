(* Spec/RecurSpec.v — reference semantics of C07/C08: the bi-infinite series of a recurrence
   rule, "one occurrence per matching local date".  Nothing here knows about rrule's DTSTART, the
   phase-aligned safe anchor, the look-back buffer or reverse paging: a local date either belongs
   to the series or not, whatever window is asked.
   Only the record types (rule, freq, zone) and the calendar / zone arithmetic are shared with
   the model. *)
From CG Require Export Model.Recur.

(* the date the series is phase-aligned to: the anchor's local date; 1970-01-01 when the rule
   only gives a time of day (Monday 1969-12-29 for weekly rules, so that weeks are Monday-based) *)
Definition s_base (r : rule) : Z :=
  match r_anchor r with
  | Some t => wall_day (utc_to_wall (r_zone r) t)
  | None => match r_freq r with Weekly => -3 | _ => 0 end
  end.

(* ---- periods: a numbering of the days / Monday-based weeks / months / years ---- *)
Definition period_of (f : freq) (d : Z) : Z :=
  match f with
  | Daily => d
  | Weekly => (d + 3) / 7                         (* day -3 is a Monday *)
  | Monthly => year_of d * 12 + month_of d - 1
  | Yearly => year_of d
  end.

(* the dates of the period containing d, ascending *)
Definition period_dates (f : freq) (d : Z) : list Z :=
  match f with
  | Daily => [d]
  | Weekly => zseq (d - weekday d) 7
  | Monthly => zseq (days_from_civil (year_of d) (month_of d) 1) (dim (year_of d) (month_of d))
  | Yearly => zseq (days_from_civil (year_of d) 1 1) (diy (year_of d))
  end.

(* INTERVAL: every interval-th period counted from the base date's period, in both directions *)
Definition in_phase (r : rule) (d : Z) : bool :=
  (period_of (r_freq r) d - period_of (r_freq r) (s_base r)) mod r_interval r =? 0.

(* ---- BYxxx parts, with RFC 5545's defaults taken from the base date ---- *)
Definition no_day_rule (r : rule) : bool := is_nil (r_byweekday r) && is_nil (r_bymonthday r).

Definition s_bymonth (r : rule) : list Z :=
  if no_day_rule r && freq_eqb (r_freq r) Yearly && is_nil (r_bymonth r)
  then [month_of (s_base r)] else r_bymonth r.
Definition s_bymonthday (r : rule) : list Z :=
  if no_day_rule r && (freq_eqb (r_freq r) Yearly || freq_eqb (r_freq r) Monthly)
  then [day_of (s_base r)] else r_bymonthday r.
Definition s_byday (r : rule) : list (Z * option Z) :=
  if no_day_rule r && freq_eqb (r_freq r) Weekly then [(weekday (s_base r), None)] else r_byweekday r.

(* d is the n-th (n > 0: from the start, n < 0: from the end) day of its weekday among the
   [len] days of which it is day number k (1-based) *)
Definition is_nth (k len n : Z) : bool :=
  if 0 <? n then (k - 1) / 7 + 1 =? n else (len - k) / 7 + 1 =? - n.

(* BYDAY entry (wd, n): n counts within the month (MONTHLY, or YEARLY with BYMONTH), within the
   year (YEARLY without BYMONTH); it has no meaning for WEEKLY / DAILY rules and is ignored *)
Definition byday_entry_ok (r : rule) (d : Z) (e : Z * option Z) : bool :=
  (weekday d =? fst e) &&
  match snd e with
  | None => true
  | Some n =>
    if n =? 0 then true else
    match r_freq r with
    | Daily | Weekly => true
    | Monthly => is_nth (day_of d) (dim (year_of d) (month_of d)) n
    | Yearly =>
      if is_nil (r_bymonth r)
      then is_nth (d - days_from_civil (year_of d) 1 1 + 1) (diy (year_of d)) n
      else is_nth (day_of d) (dim (year_of d) (month_of d)) n
    end
  end.

Definition monthday_entry_ok (d : Z) (e : Z) : bool :=
  if 0 <? e then day_of d =? e else day_of d =? dim (year_of d) (month_of d) + 1 + e.

Definition filters_ok (r : rule) (d : Z) : bool :=
  (is_nil (s_bymonth r) || zmem (month_of d) (s_bymonth r)) &&
  (is_nil (s_byday r) || existsb (byday_entry_ok r d) (s_byday r)) &&
  (is_nil (s_bymonthday r) || existsb (monthday_entry_ok d) (s_bymonthday r)).

(* BYSETPOS: d is the p-th (p > 0) / |p|-th last (p < 0) of its period's dates passing the filters *)
Definition setpos_ok (r : rule) (d : Z) : bool :=
  is_nil (r_bysetpos r) ||
  let cand := filter (filters_ok r) (period_dates (r_freq r) d) in
  let n := Z.of_nat (length cand) in
  existsb (fun p => let i := if 0 <? p then p - 1 else n + p in
                    (0 <=? i) && (nth (Z.to_nat i) cand (d - 1) =? d)) (r_bysetpos r).

Definition matches (r : rule) (d : Z) : bool := in_phase r d && filters_ok r d && setpos_ok r d.

(* ---- the occurrence of local date d ---- *)
(* starts when the local clock shows (d, start_seconds) — if a DST gap swallows that reading,
   at the instant it denotes under the offset in force before the gap — and ends when the local
   clock has advanced by the duration *)
Definition occurrence (r : rule) (d : Z) : ivl :=
  let z := r_zone r in
  let s := wall_to_utc z (mk_wall d (r_sod r)) false in
  let e := wall_to_utc z (utc_to_wall z s + r_dur r) false in
  mkI (Some s) (Some e) Plain.

(* what fetch(a, b) must return: the occurrences with end > a and start <= b (a slice clips them
   afterwards), except the excluded ones, ascending.  A date can only matter if it is at most
   duration (+2 days of slack for offsets) before a's local date or at most a day after b's. *)
Definition spec_occurrences (r : rule) (a b : Z) : list ivl :=
  let z := r_zone r in
  let lo := wall_day (utc_to_wall z a) - (r_dur r / DAY + 2) in
  let hi := wall_day (utc_to_wall z b) + 1 in
  filter (fun i => (a <? fend i) && (fstart i <=? b) && negb (zmem (fstart i) (r_exdates r)))
         (map (occurrence r) (filter (matches r) (zseq lo (hi - lo + 1)))).
