(* Spec/RecurSpec.v — reference semantics of C07/C08: the bi-infinite series of a recurrence
   rule, "one occurrence per matching local date".  Nothing here knows about rrule's DTSTART, the
   phase-aligned safe anchor, the look-back buffer or reverse paging: a local date either belongs
   to the series or not, whatever window is asked.
   Only the record types (rule, freq, zone) and the calendar / zone arithmetic are shared with
   the model. *)
From CG Require Export Model.Recur.

(* the date the series is phase-aligned to: the anchor's local date; 1970-01-01 when the rule
   only gives a time of day (Monday 1969-12-29 for weekly rules, so that weeks are Monday-based) *)
Definition s_base (r : rule) : Z :=
  match r_anchor r with
  | Some t => wall_day (utc_to_wall (r_zone r) t)
  | None => match r_freq r with Weekly => -3 | _ => 0 end
  end.

(* ---- periods: a numbering of the days / Monday-based weeks / months / years ----
   a date is handled together with its calendar fields: c = (day number, year, month, day) *)
Definition period_of (f : freq) (c : cdate) : Z :=
  let '(d, y, m, _) := c in
  match f with
  | Daily => d
  | Weekly => (d + 3) / 7                         (* day -3 is a Monday *)
  | Monthly => y * 12 + m - 1
  | Yearly => y
  end.

(* the dates of the period containing c, ascending *)
Definition period_dates (f : freq) (c : cdate) : list cdate :=
  let '(d, y, m, _) := c in
  match f with
  | Daily => [c]
  | Weekly => cdates (d - weekday d) 7
  | Monthly => cdates (days_from_civil y m 1) (dim y m)
  | Yearly => cdates (days_from_civil y 1 1) (diy y)
  end.

(* ---- the series of a rule: its parts with RFC 5545's defaults taken from the base date ---- *)
Record series := mkSeries {
  e_freq : freq;
  e_interval : Z;
  e_base_period : Z;                  (* period_of the base date *)
  e_bymonth : list Z;                 (* [] = any month *)
  e_bymonthday : list Z;              (* [] = any day of the month *)
  e_byday : list (Z * option Z);      (* [] = any weekday *)
  e_nth_in_year : bool;               (* an n-th weekday counts within the year, not the month *)
  e_bysetpos : list Z }.

Definition no_day_rule (r : rule) : bool := is_nil (r_byweekday r) && is_nil (r_bymonthday r).

(* the series of r phase-aligned to (and taking its defaults from) the date [base] *)
Definition series_from (r : rule) (base : Z) : series :=
  let f := r_freq r in
  mkSeries f (r_interval r) (period_of f (cdate_of base))
    (if no_day_rule r && freq_eqb f Yearly && is_nil (r_bymonth r) then [month_of base] else r_bymonth r)
    (if no_day_rule r && (freq_eqb f Yearly || freq_eqb f Monthly) then [day_of base] else r_bymonthday r)
    (if no_day_rule r && freq_eqb f Weekly then [(weekday base, None)] else r_byweekday r)
    (freq_eqb f Yearly && is_nil (r_bymonth r))
    (r_bysetpos r).

Definition series_of (r : rule) : series := series_from r (s_base r).

(* INTERVAL: every interval-th period counted from the base date's period, in both directions *)
Definition in_phase (s : series) (c : cdate) : bool :=
  (period_of (e_freq s) c - e_base_period s) mod e_interval s =? 0.

(* day number k (1-based) of [len] days is the n-th (n > 0: from the start, n < 0: from the end)
   of its weekday among them *)
Definition is_nth (k len n : Z) : bool :=
  if 0 <? n then (k - 1) / 7 + 1 =? n else (len - k) / 7 + 1 =? - n.

(* BYDAY entry (wd, n) for date d = (y, m, dd): n counts within the month (MONTHLY, or YEARLY with
   BYMONTH) or within the year (YEARLY without BYMONTH); it has no meaning for WEEKLY / DAILY rules
   and is ignored there *)
Definition byday_entry_ok (s : series) (d y m dd : Z) (e : Z * option Z) : bool :=
  (weekday d =? fst e) &&
  match snd e with
  | None => true
  | Some n =>
    if n =? 0 then true else
    match e_freq s with
    | Daily | Weekly => true
    | _ => if e_nth_in_year s then is_nth (d - days_from_civil y 1 1 + 1) (diy y) n
           else is_nth dd (dim y m) n
    end
  end.

(* BYMONTHDAY entry: e > 0 the e-th day, e < 0 the |e|-th last day of the month *)
Definition monthday_entry_ok (y m dd : Z) (e : Z) : bool :=
  if 0 <? e then dd =? e else dd =? dim y m + 1 + e.

(* a BYDAY list is a union of its entries, a BYMONTHDAY list of its *)
Definition filters_ok (s : series) (c : cdate) : bool :=
  let '(d, y, m, dd) := c in
  (is_nil (e_bymonth s) || zmem m (e_bymonth s)) &&
  (is_nil (e_byday s) || existsb (byday_entry_ok s d y m dd) (e_byday s)) &&
  (is_nil (e_bymonthday s) || existsb (monthday_entry_ok y m dd) (e_bymonthday s)).

(* BYSETPOS: d is the p-th (p > 0) / |p|-th last (p < 0) of its period's dates passing the filters *)
Definition setpos_ok (s : series) (c : cdate) : bool :=
  if is_nil (e_bysetpos s) then true else
  let d := cd_day c in
  let cand := map cd_day (filter (filters_ok s) (period_dates (e_freq s) c)) in
  let n := Z.of_nat (length cand) in
  existsb (fun p => let i := if 0 <? p then p - 1 else n + p in
                    (0 <=? i) && (nth (Z.to_nat i) cand (d - 1) =? d)) (e_bysetpos s).

(* (written with "if" rather than && so that evaluation stops at the first failing test) *)
Definition matches_s (s : series) (c : cdate) : bool :=
  if in_phase s c then (if filters_ok s c then setpos_ok s c else false) else false.

Definition matches (r : rule) (d : Z) : bool := matches_s (series_of r) (cdate_of d).

(* the matching dates among lo, lo+1, ..., lo+n-1 *)
Definition matching_dates (r : rule) (lo n : Z) : list Z :=
  let s := series_of r in map cd_day (filter (matches_s s) (cdates lo n)).

(* ---- the occurrence of local date d ---- *)
(* starts when the local clock shows (d, start_seconds) — if a DST gap swallows that reading,
   at the instant it denotes under the offset in force before the gap — and ends when the local
   clock has advanced by the duration *)
Definition occurrence (r : rule) (d : Z) : ivl :=
  let z := r_zone r in
  let s := wall_to_utc z (mk_wall d (r_sod r)) false in
  let e := wall_to_utc z (utc_to_wall z s + r_dur r) false in
  mkI (Some s) (Some e) Plain.

(* what fetch(a, b) must return: the occurrences with end > a and start <= b (a slice clips them
   afterwards), except the excluded ones, ascending.  A date can only matter if it is at most
   duration (+2 days of slack for offsets) before a's local date or at most a day after b's. *)
Definition spec_occurrences (r : rule) (a b : Z) : list ivl :=
  let z := r_zone r in
  let lo := wall_day (utc_to_wall z a) - (r_dur r / DAY + 2) in
  let hi := wall_day (utc_to_wall z b) + 1 in
  filter (fun i => (a <? fend i) && (fstart i <=? b) && negb (zmem (fstart i) (r_exdates r)))
         (map (occurrence r) (matching_dates r lo (hi - lo + 1))).
