(* Spec/IcalSpec.v — what C19 says, as executable predicates.
   (a) write -> load: what comes back denotes the same thing: equal spans, all-day flag,
       summary, uid, location, excluded instances, and EQUAL RULE PARAMETERS (so, by the
       recurrence theorems of C07, equal occurrence sets for every window);
   (b) the RRULE text emitted for a pattern, parsed back, gives the same rule parameters;
   (c) what a VEVENT denotes under RFC 5545 (for loading): the reference occurrences of a
       recurring VEVENT, built on the reference series of Spec/RecurSpec.v.
   Only record types and calendar / zone arithmetic are shared with the model. *)
From CG Require Export Model.Ical Spec.RecurSpec.

(* ---- equalities -------------------------------------------------------------------------- *)
Definition otext_eqb (a b : otext) : bool :=
  match a, b with Some x, Some y => N.eqb x y | None, None => true | _, _ => false end.

Definition oz_eqb (a b : option Z) : bool :=
  match a, b with Some x, Some y => x =? y | None, None => true | _, _ => false end.

Definition zlist_eqb (a b : list Z) : bool := list_eqb Z.eqb a b.

Definition day_eqb (a b : Z * option Z) : bool := (fst a =? fst b) && oz_eqb (snd a) (snd b).

(* excluded instances are a set *)
Definition same_set (a b : list Z) : bool :=
  forallb (fun x => zmem x b) a && forallb (fun x => zmem x a) b.

Definition rparts_eqb (a b : rparts) : bool :=
  freq_eqb (p_freq a) (p_freq b) && (p_interval a =? p_interval b) &&
  list_eqb day_eqb (p_byday a) (p_byday b) &&
  zlist_eqb (p_bymonth a) (p_bymonth b) && zlist_eqb (p_bymonthday a) (p_bymonthday b) &&
  zlist_eqb (p_byweekno a) (p_byweekno b) && zlist_eqb (p_byyearday a) (p_byyearday b) &&
  zlist_eqb (p_bysetpos a) (p_bysetpos b) && zlist_eqb (p_byhour a) (p_byhour b) &&
  zlist_eqb (p_byminute a) (p_byminute b) && zlist_eqb (p_bysecond a) (p_bysecond b) &&
  oz_eqb (p_wkst a) (p_wkst b).

(* two patterns with the same parameters: rule parts, anchor, time of day, duration, zone, and
   the same set of excluded instances *)
Definition same_pattern (a b : xrule) : bool :=
  rparts_eqb (parts_of a) (parts_of b) &&
  oz_eqb (r_anchor (x_rule a)) (r_anchor (x_rule b)) &&
  (r_sod (x_rule a) =? r_sod (x_rule b)) && (r_dur (x_rule a) =? r_dur (x_rule b)) &&
  zone_eqb (r_zone (x_rule a)) (r_zone (x_rule b)) &&
  same_set (r_exdates (x_rule a)) (r_exdates (x_rule b)).

(* the fields the property names *)
Definition same_meta (a b : meta) : bool :=
  otext_eqb (m_summary a) (m_summary b) && otext_eqb (m_uid a) (m_uid b) &&
  otext_eqb (m_location a) (m_location b) && Bool.eqb (m_allday a) (m_allday b).

Definition same_item (a b : item) : bool :=
  match a, b with
  | Static s e m, Static s' e' m' => oz_eqb s s' && oz_eqb e e' && same_meta m m'
  | Pattern x m, Pattern y n => same_pattern x y && same_meta m n
  | _, _ => false
  end.

(* ---- (a) the round trip of one item -------------------------------------------------------- *)
Definition roundtrip_ok (it : item) : bool :=
  match roundtrip it with Some it' => same_item it it' | None => false end.

(* ---- (b) the text of a rule ---------------------------------------------------------------- *)
Definition text_ok (p : rparts) : bool :=
  match parse_rrule (rrule_text p) with Some q => rparts_eqb p q | None => false end.

(* the property's rule list: frequency, interval, weekdays and n-th weekdays, month-days, months,
   set-positions (exclusion dates and the anchor / time of day live outside the RRULE value) *)
Definition in_range (lo hi : Z) (x : Z) : bool := (lo <=? x) && (x <=? hi).
Definition nz_range (n : Z) (x : Z) : bool := in_range (- n) n x && negb (x =? 0).

Definition supported (p : rparts) : bool :=
  (1 <=? p_interval p) &&
  forallb (fun e => in_range 0 6 (fst e) &&
                    match snd e with None => true | Some n => nz_range 53 n end) (p_byday p) &&
  forallb (nz_range 31) (p_bymonthday p) &&
  forallb (in_range 1 12) (p_bymonth p) &&
  forallb (nz_range 366) (p_bysetpos p) &&
  is_nil (p_byweekno p) && is_nil (p_byyearday p) && is_nil (p_byhour p) &&
  is_nil (p_byminute p) && is_nil (p_bysecond p) &&
  match p_wkst p with None => true | Some _ => false end.

(* what the text round trip itself needs: no ordinal 0 (which the writer prints as a plain day) *)
Definition text_wf (p : rparts) : bool :=
  forallb (fun e => match snd e with Some n => negb (n =? 0) | None => true end) (p_byday p).

(* ---- slices -------------------------------------------------------------------------------- *)
(* an event of a slice: span, all-day flag, summary, uid, location *)
Record ev := mkEv { ev_s : option Z; ev_e : option Z; ev_allday : bool;
                    ev_summary : otext; ev_uid : otext; ev_location : otext }.

Definition ev_eqb (a b : ev) : bool :=
  oz_eqb (ev_s a) (ev_s b) && oz_eqb (ev_e a) (ev_e b) && Bool.eqb (ev_allday a) (ev_allday b) &&
  otext_eqb (ev_summary a) (ev_summary b) && otext_eqb (ev_uid a) (ev_uid b) &&
  otext_eqb (ev_location a) (ev_location b).

Definition slices_equal (a b : list ev) : bool := list_eqb ev_eqb a b.

(* ---- (c) what a VEVENT denotes ------------------------------------------------------------- *)
(* the clock a value is expressed on, and its reading *)
Definition s_wall (v : dtval) : Z :=
  match v with DDate d => d * DAY | DUtc t => t | DTz _ w => w | DFloat w => w end.
Definition s_zone (v : dtval) : zone := match v with DTz z _ => z | _ => utc_zone end.
(* the instant it denotes (DATE and floating values are read in UTC) *)
Definition s_instant (v : dtval) : Z :=
  match v with DTz z w => wall_to_utc z w false | _ => s_wall v end.

(* nominal duration: DURATION as given; DTEND - DTSTART on the clock both are expressed on;
   neither: a day for a DATE start, nothing for a date-time *)
Definition s_duration (v : vevent) : Z :=
  match ve_end v with
  | EDuration s => match ve_dtstart v with DDate _ => (s / DAY) * DAY | _ => s end
  | EDtend e => s_wall e - s_wall (ve_dtstart v)
  | ENone => match ve_dtstart v with DDate _ => DAY | _ => 0 end
  end.

(* the rule of a recurring VEVENT: anchored at DTSTART, in DTSTART's zone, at DTSTART's time of
   day, the EXDATE instants excluded *)
Definition rfc_rule (v : vevent) : option rule :=
  match ve_rrule v with
  | None => None
  | Some vr =>
    let f := match v_freq vr with Some f => f | None => Daily end in
    let k := match v_interval vr with Some n => n | None => 1 end in
    Some (mkRule f k (v_byday vr) (v_bymonthday vr) (v_bymonth vr) (v_bysetpos vr)
                 (map s_instant (ve_exdate v)) (Some (s_instant (ve_dtstart v)))
                 (wall_sod (s_wall (ve_dtstart v))) (s_duration v) (s_zone (ve_dtstart v)))
  end.

(* the occurrences a reference expansion yields for fetch(a, b): those of the series from
   DTSTART on *)
Definition rfc_occurrences (v : vevent) (a b : Z) : list ivl :=
  match rfc_rule v with
  | Some r => filter (fun i => s_instant (ve_dtstart v) <=? fstart i) (spec_occurrences r a b)
  | None =>
    let s := s_instant (ve_dtstart v) in
    let e := match ve_end v, ve_dtstart v with
             | EDtend x, _ => s_instant x
             | EDuration d, DTz z w =>
               (* RFC 5545 3.3.6: days are nominal (the same wall-clock time d / DAY days later),
                  hours, minutes and seconds exact *)
               if 0 <=? d then wall_to_utc z (w + (d / DAY) * DAY) false + d mod DAY else s + d
             | _, _ => s + s_duration v
             end in
    if (a <? e) && (s <=? b) then [mkI (Some s) (Some e) Plain] else []
  end.
