(* Spec/Purity.v — the purity discipline of the read paths (C15), as a decidable predicate over
   facts extracted from the SOURCE on every run (Gen/PurityFacts.v, written by
   harness/translate/purityfacts.py): no method on a read path (fetch, sweeps, __getitem__,
   overlapping, filter apply, ...) of the core, transform, recurrence, in-memory and filter
   classes stores to an attribute of self or of another object, mutates a container held in an
   attribute, or rebinds a module global.  (The cache is the stated exception: C09/C11.) *)
From Coq Require Export String List Bool Arith.
Export ListNotations.
Open Scope string_scope.

Record pfact := mkPF {
  pf_class : string; pf_method : string;
  pf_attr_stores : nat;       (* self.x = ..., obj.x = ..., del obj.x, augmented assignments *)
  pf_mutating_calls : nat;    (* self.x.append(...)/add/remove/pop/clear/update/sort/... *)
  pf_globals : nat;           (* global / nonlocal rebinding of names outside the function *)
}.

Definition pure_fact (f : pfact) : bool :=
  Nat.eqb (pf_attr_stores f) 0 && Nat.eqb (pf_mutating_calls f) 0 && Nat.eqb (pf_globals f) 0.

(* the classes whose read paths the property is about must all have been seen by the extractor *)
Definition required : list (string * string) :=
  [("Timeline", "__getitem__"); ("Timeline", "overlapping"); ("Union", "fetch");
   ("Intersection", "fetch"); ("Intersection", "_sweep"); ("Difference", "fetch");
   ("Difference", "_sweep"); ("Complement", "fetch"); ("Complement", "_sweep");
   ("Filtered", "fetch"); ("_Buffered", "fetch"); ("_MergedWithin", "fetch");
   ("RecurringPattern", "fetch"); ("RecurringPattern", "_fetch_forward");
   ("MemoryTimeline", "fetch"); ("MemoryTimeline", "_fetch_static"); ("Operator", "apply")].

Definition seen (fs : list pfact) (cm : string * string) : bool :=
  existsb (fun f => String.eqb (pf_class f) (fst cm) && String.eqb (pf_method f) (snd cm)) fs.

Definition purity_discipline (fs : list pfact) : bool :=
  forallb pure_fact fs && forallb (seen fs) required.
