(* Spec/MetricsSpec.v — what property C13 says, without stepping loops, sweeps or folds of the code.
     count_in f a b        the number of integer instants t in [a,b) with f t           (the definition)
     measure evs a b       the same number for f = covers evs, computed by inclusion-exclusion over the
                           events (Proofs/MetricsP.v: measure_is_count)
     windows_ok            period windows: contiguous, each a local calendar period of the zone,
                           together covering the query range
     *_ok                  the values the five public functions must return for given windows
   Only Model/Zone.v's utc_to_wall (offset in force at an instant) and Model/Civil.v's calendar are
   used; the enumerations period/groupby/fn come from Model/Metrics.v. *)
From CG Require Export Model.Metrics Spec.Sets.

(* ---------- measure ---------- *)
Fixpoint cnt_n (f : Z -> bool) (a : Z) (n : nat) : Z :=
  match n with
  | O => 0
  | S k => (if f a then 1 else 0) + cnt_n f (a + 1) k
  end.
(* number of integer instants t, a <= t < b, with f t = true *)
Definition count_in (f : Z -> bool) (a b : Z) : Z := cnt_n f a (Z.to_nat (b - a)).

(* length of i inside [a,b) *)
Definition clip_len (a b : Z) (i : ivl) : Z := Z.max 0 (Z.min (fend i) b - Z.max (fstart i) a).

(* |X u R| = |X| + |R| - |X n R| inside [a,b); X n [a,b) is itself a window *)
Fixpoint measure (evs : list ivl) (a b : Z) : Z :=
  match evs with
  | [] => 0
  | x :: r =>
    if b <=? a then 0          (* an empty window: nothing to count (keeps the recursion from branching) *)
    else clip_len a b x + measure r a b - measure r (Z.max a (fstart x)) (Z.min b (fend x))
  end.

(* ---------- local calendar periods ---------- *)
(* [L] (wall clock seconds) is the beginning of a local period *)
Definition is_boundary (p : period) (L : Z) : bool :=
  match p with
  | PHour => L mod 3600 =? 0                                              (* minute = second = 0 *)
  | PDay => L mod DAY =? 0                                                (* local midnight *)
  | PWeek => (L mod DAY =? 0) && (weekday (L / DAY) =? 0)                 (* Monday 00:00 *)
  | PMonth => (L mod DAY =? 0) && (day_of (L / DAY) =? 1)                 (* the 1st, 00:00 *)
  | PYear => (L mod DAY =? 0) && (day_of (L / DAY) =? 1) && (month_of (L / DAY) =? 1)
  | PFull => true
  end.

(* wall clock length of the period beginning at L *)
Definition plen (p : period) (L : Z) : Z :=
  match p with
  | PHour => 3600
  | PDay => DAY
  | PWeek => 7 * DAY
  | PMonth => dim (year_of (L / DAY)) (month_of (L / DAY)) * DAY
  | PYear => diy (year_of (L / DAY)) * DAY
  | PFull => 0
  end.

(* t is an instant at which the local clock of z reaches L: it shows less than L one second
   earlier and at least L at t (exactly L, or more when L falls into a skipped stretch) *)
Definition reaches (z : zone) (L t : Z) : bool :=
  (utc_to_wall z (t - 1) <? L) && (L <=? utc_to_wall z t).

(* (label, start, end) is the local period beginning at wall clock L: it begins when the clock
   reaches L and ends when the clock reaches the next period; an empty window is allowed only for a
   period the local clock skips entirely *)
Definition window_ok (z : zone) (p : period) (w : win) : bool :=
  let '(L, s, e) := w in
  is_boundary p L && reaches z L s && reaches z (L + plen p L) e && (s <=? e) &&
  (if s <? e then utc_to_wall z s <? L + plen p L else L + plen p L <=? utc_to_wall z s).

Fixpoint contiguous (p : period) (ws : list win) : bool :=
  match ws with
  | [] => true
  | (L, s, e) :: r =>
    match r with
    | [] => true
    | (L', s', _) :: _ => (e =? s') && (L' =? L + plen p L) && contiguous p r
    end
  end.

Definition first_start (ws : list win) : Z := match ws with (_, s, _) :: _ => s | [] => 0 end.
Definition last_end (ws : list win) : Z := match rev ws with (_, _, e) :: _ => e | [] => 0 end.

(* every window is empty (a skipped period) or meets the range *)
Definition meets (a b : Z) (w : win) : bool :=
  let '(_, s, e) := w in (s =? e) || ((s <? b) && (a <? e)).

Definition windows_ok (z : zone) (p : period) (a b : Z) (ws : list win) : bool :=
  if a >=? b then match ws with [] => true | _ => false end else
  match p with
  | PFull => match ws with
             | [(L, s, e)] => (L =? utc_to_wall z a) && (s =? a) && (e =? b)
             | _ => false
             end
  | _ =>
    match ws with
    | [] => false
    | _ => forallb (window_ok z p) ws && contiguous p ws &&
           (first_start ws <=? a) && (b <=? last_end ws) && forallb (meets a b) ws
    end
  end.

(* a date bound: the instant the local clock reaches midnight of that date *)
Definition bound_ok (z : zone) (bd : bound) (t : Z) : bool :=
  match bd with
  | BInt t' => t =? t'
  | BDate y m d =>
    let L := days_from_civil y m d * DAY in
    reaches z L t && (utc_to_wall z t <? L + DAY)
  end.

(* ---------- labels and group keys ---------- *)
Definition spec_label (p : period) (L : Z) : Z := match p with PHour => L | _ => L / DAY end.

(* ISO 8601 week number by the 4-January rule: week 1 is the week (Monday..Sunday) containing 4 January *)
Definition monday_of (d : Z) : Z := d - weekday d.
Definition week1 (y : Z) : Z := monday_of (days_from_civil y 1 4).
Definition iso_week_jan4 (d : Z) : Z :=
  let y := year_of d in
  let m := monday_of d in
  let w1 := if m <? week1 y then week1 (y - 1) else if week1 (y + 1) <=? m then week1 (y + 1) else week1 y in
  (m - w1) / 7 + 1.

Definition spec_key (g : groupby) (L : Z) : Z :=
  match g with
  | GHourOfDay => (L mod DAY) / 3600
  | GDayOfWeek => weekday (L / DAY)
  | GDayOfMonth => day_of (L / DAY)
  | GWeekOfYear => iso_week_jan4 (L / DAY)
  | GMonthOfYear => month_of (L / DAY)
  end.

(* ---------- values per window ---------- *)
(* the part of window (s,e) inside the query range [a,b) *)
Definition wlo (a : Z) (w : win) : Z := let '(_, s, _) := w in Z.max a s.
Definition whi (b : Z) (w : win) : Z := let '(_, _, e) := w in Z.min b e.
Definition wspan (w : win) : Z := let '(_, s, e) := w in e - s.
Definition wlabel (w : win) : Z := let '(L, _, _) := w in L.

Definition hits (lo hi : Z) (i : ivl) : bool := Z.max (fstart i) lo <? Z.min (fend i) hi.
Definition spec_total (evs : list ivl) (a b : Z) (w : win) : Z := measure evs (wlo a w) (whi b w).
Definition spec_count (evs : list ivl) (a b : Z) (w : win) : Z :=
  Z.of_nat (length (filter (hits (wlo a w) (whi b w)) evs)).

(* exact rationals n/d (d > 0) *)
Definition rat_in_unit (q : Z * Z) : bool := (0 <=? fst q) && (fst q <=? snd q) && (0 <? snd q).
(* a binary64 value given as the exact fraction fp/fq is within relative error 2^-53 of n/d (what a
   correctly rounded division returns) *)
Definition rat_close (n d fp fq : Z) : bool :=
  (0 <? d) && (0 <? fq) && (0 <=? n) && (Z.abs (n * fq - fp * d) * 9007199254740992 <=? n * fq).

(* the clipped copy of x in [lo,hi) *)
Definition clip_of (lo hi : Z) (x : ivl) : ivl :=
  mkI (Some (Z.max (fstart x) lo)) (Some (Z.min (fend x) hi)) (pl x).

(* r is an interval of extreme clipped length among the events meeting [lo,hi) *)
Definition extremum_ok (find_max : bool) (evs : list ivl) (lo hi : Z) (r : option ivl) : bool :=
  let live := filter (hits lo hi) evs in
  match r with
  | None => match live with [] => true | _ => false end
  | Some i =>
    existsb (fun x => ivl_eqb i (clip_of lo hi x)) live &&
    forallb (fun y => if find_max then clip_len lo hi y <=? clip_len lo hi i
                      else clip_len lo hi i <=? clip_len lo hi y) live
  end.

Fixpoint zip_ok {A B} (f : A -> B -> bool) (l1 : list A) (l2 : list B) : bool :=
  match l1, l2 with
  | [], [] => true
  | x :: r, y :: s => f x y && zip_ok f r s
  | _, _ => false
  end.

Definition sumZ (l : list Z) : Z := fold_right Z.add 0 l.

(* per-period results: one row per window, labelled by the period's local date (hour: wall clock) *)
Definition rows_int_ok (p : period) (val : win -> Z) (ws : list win) (out : list (Z * Z)) : bool :=
  zip_ok (fun w o => (fst o =? spec_label p (wlabel w)) && (snd o =? val w)) ws out.

(* group_by buckets: keys strictly ascending, exactly the keys of the windows, each bucket the sum over
   its windows *)
Fixpoint strictly_asc (l : list Z) : bool :=
  match l with
  | x :: r => match r with y :: _ => (x <? y) && strictly_asc r | [] => true end
  | [] => true
  end.
Definition bucket_sum (g : groupby) (val : win -> Z) (ws : list win) (k : Z) : Z :=
  sumZ (map val (filter (fun w => spec_key g (wlabel w) =? k) ws)).
Definition keys_ok (g : groupby) (ws : list win) (keys : list Z) : bool :=
  strictly_asc keys &&
  forallb (fun w => existsb (Z.eqb (spec_key g (wlabel w))) keys) ws &&
  forallb (fun k => existsb (fun w => spec_key g (wlabel w) =? k) ws) keys.
Definition buckets_int_ok (g : groupby) (val : win -> Z) (ws : list win) (out : list (Z * Z)) : bool :=
  keys_ok g ws (map fst out) &&
  forallb (fun o => snd o =? bucket_sum g val ws (fst o)) out.

(* totals add up: over the periods, and over the buckets, to the measure of the whole range *)
Definition additive_ok (evs : list ivl) (a b : Z) (out : list (Z * Z)) : bool :=
  sumZ (map snd out) =? (if a <? b then measure evs a b else 0).

(* coverage ratio rows: (label, exact fraction of the float returned) *)
Definition ratio_of (evs : list ivl) (a b : Z) (w : win) : Z * Z :=
  if wspan w <=? 0 then (0, 1) else (spec_total evs a b w, wspan w).
Definition rows_rat_ok (p : period) (evs : list ivl) (a b : Z) (ws : list win) (out : list (Z * (Z * Z))) : bool :=
  zip_ok (fun w o => let q := ratio_of evs a b w in
                     (fst o =? spec_label p (wlabel w)) && rat_in_unit q &&
                     rat_close (fst q) (snd q) (fst (snd o)) (snd (snd o)) &&
                     (0 <=? fst (snd o)) && (fst (snd o) <=? snd (snd o))) ws out.
Definition buckets_rat_ok (g : groupby) (evs : list ivl) (a b : Z) (ws : list win) (out : list (Z * (Z * Z))) : bool :=
  keys_ok g ws (map fst out) &&
  forallb (fun o =>
             let n := bucket_sum g (spec_total evs a b) ws (fst o) in
             let d := bucket_sum g wspan ws (fst o) in
             let q := if 0 <? d then (n, d) else (0, 1) in
             rat_in_unit q && rat_close (fst q) (snd q) (fst (snd o)) (snd (snd o)) &&
             (0 <=? fst (snd o)) && (fst (snd o) <=? snd (snd o))) out.

Definition rows_ivl_ok (p : period) (find_max : bool) (evs : list ivl) (a b : Z) (ws : list win)
           (out : list (Z * option ivl)) : bool :=
  zip_ok (fun w o => (fst o =? spec_label p (wlabel w)) &&
                     extremum_ok find_max evs (wlo a w) (whi b w) (snd o)) ws out.
