(* Spec/TransformSpec.v — declarative specifications of merge_within, buffer and
   overlapping(point), as executable oracles. *)
From CG Require Export Spec.Sets.

(* ---------- merge_within(T, gap): connected components of "within gap" ---------- *)
(* [src] is what the source returns for the window (ordered by start), [out] the result. *)

Definition inside_ivl (o x : ivl) : bool := (fstart o <=? fstart x) && (fend x <=? fend o).

(* successive outputs are more than gap apart (so no event of one could chain to the next) *)
Fixpoint far_apart (g : Z) (out : list ivl) : bool :=
  match out with
  | [] => true
  | o :: r => match r with
              | [] => true
              | o' :: _ => (g <? fstart o' - fend o) && far_apart g r
              end
  end.

(* scanning a group in source order: every next event starts within gap of the furthest end
   seen so far; returns the furthest end *)
Fixpoint chain_ok (g : Z) (reach : Z) (grp : list ivl) : bool :=
  match grp with
  | [] => true
  | x :: r => (fstart x - reach <=? g) && chain_ok g (Z.max reach (fend x)) r
  end.
Definition max_end (l : list ivl) (d : Z) : Z := fold_left (fun m x => Z.max m (fend x)) l d.

Definition group_ok (g : Z) (src : list ivl) (o : ivl) : bool :=
  let grp := filter (inside_ivl o) src in
  match grp with
  | [] => false                                   (* no output without events *)
  | x :: r =>
    (fstart o =? fstart x) && pl_eqb (pl o) (pl x) && oZ_eqb (st o) (st x) &&   (* first event's start and metadata *)
    (fend o =? max_end r (fend x)) &&                                          (* furthest end *)
    chain_ok g (fend x) r                                                      (* linked by a chain *)
  end.

Definition mw_spec_ok (g : Z) (src out : list ivl) : bool :=
  far_apart g out &&
  forallb (group_ok g src) out &&
  forallb (fun x => Nat.eqb (length (filter (fun o => inside_ivl o x) out)) 1) src &&
  forallb no_sentinel out.

(* ---------- buffer(T, before, after) ---------- *)
(* every source event extended by exactly those amounts, metadata intact: this is the Buf case
   of [ref] in Spec/Sets.v, so a sliced buffer is checked against [expected] (clip of the
   shifted events: an event lying outside the window that reaches into it only after
   extension has a non-empty clip and must therefore be returned). *)

(* ---------- overlapping(p) ---------- *)
(* members of the unbounded evaluation whose span contains p, unclipped *)
Definition ov_expected (env : fenv) (e : expr) (p : Z) : list ivl :=
  filter (contains p) (ref env e).
