(* Spec/LockDiscipline.v — the lock discipline that makes CachedTimeline's critical sections
   atomic (C11), as a decidable predicate over structural facts extracted from the source of
   calgebra/cache.py on every run (Gen/LockFacts.v, written by harness/translate/lockfacts.py).
   The generic theorem that this discipline gives serializability is Proofs/ConcP.v. *)
From Coq Require Export String List Bool Arith.
Export ListNotations.
Open Scope string_scope.

Record mfact := mkMF {
  mf_name : string;
  mf_entry : bool;              (* callable from outside the class: public method / property / fetch *)
  mf_acc_out : nat;             (* accesses to shared fields lexically outside `with self._lock` *)
  mf_acc_in : nat;              (* ... inside *)
  mf_calls_out : list string;   (* self.<method>() calls outside the lock *)
  mf_calls_in : list string;    (* ... inside *)
  mf_yields_in : nat;           (* yield / yield from inside the lock *)
  mf_acquires : nat;            (* number of `with self._lock` blocks *)
}.

Record cfacts := mkCF {
  cf_lock_assignments : nat;    (* assignments to self._lock in the whole class *)
  cf_lock_in_init : bool;       (* ... the one assignment is `threading.Lock()` in __init__ *)
  cf_other_lock_uses : nat;     (* explicit acquire()/release() or the lock escaping *)
  cf_methods : list mfact;
}.

Fixpoint find_m (n : string) (l : list mfact) : option mfact :=
  match l with [] => None | m :: r => if String.eqb n (mf_name m) then Some m else find_m n r end.

(* does running method n touch shared state (directly or through the methods it calls)? *)
Fixpoint touches (fuel : nat) (ms : list mfact) (n : string) : bool :=
  match fuel with
  | O => true      (* out of fuel: assume the worst *)
  | S f =>
    match find_m n ms with
    | None => true                   (* unknown method: assume the worst *)
    | Some m => negb (Nat.eqb (mf_acc_out m + mf_acc_in m) 0) ||
                existsb (touches f ms) (mf_calls_out m ++ mf_calls_in m)
    end
  end.

Definition entry_ok (ms : list mfact) (m : mfact) : bool :=
  Nat.eqb (mf_acc_out m) 0 &&                                   (* no unprotected access *)
  negb (existsb (touches (S (length ms)) ms) (mf_calls_out m)) &&   (* no unprotected call that touches *)
  Nat.eqb (mf_yields_in m) 0 &&                                 (* never suspends while holding the lock *)
  Nat.leb (mf_acquires m) 1.

Definition helper_ok (m : mfact) : bool :=
  Nat.eqb (mf_acquires m) 0 && Nat.eqb (mf_yields_in m) 0.      (* no nested acquisition *)

Definition lock_discipline (c : cfacts) : bool :=
  Nat.eqb (cf_lock_assignments c) 1 && cf_lock_in_init c && Nat.eqb (cf_other_lock_uses c) 0 &&
  forallb (fun m => if mf_entry m then entry_ok (cf_methods c) m else helper_ok m) (cf_methods c) &&
  (* the critical section exists: some entry point acquires the lock and touches shared state inside *)
  existsb (fun m => mf_entry m && Nat.eqb (mf_acquires m) 1 &&
                    (negb (Nat.eqb (mf_acc_in m) 0) || existsb (touches (S (length (cf_methods c))) (cf_methods c)) (mf_calls_in m)))
          (cf_methods c).
