(* Model/Sweeps.v — the four sweep state machines of calgebra/core.py, statement by statement:
   heapq.merge (as used by Union.fetch, Difference._sweep, MemoryTimeline.fetch),
   Intersection._sweep (with _SourceState), Difference._sweep, Complement._sweep.
   Streams are finite lists.  No proofs here. *)
From CG Require Export Model.Base.

(* ------------------------------------------------------------------------------------ *)
(* heapq.merge over several streams with a key: repeatedly yield the head with the least key, ties to
   the lowest stream index.  [lt a b] is "key a < key b".  This is what heapq.merge does
   on unsorted inputs too (its heap holds exactly one entry per live stream). *)

Fixpoint pick_min (lt : ivl -> ivl -> bool) (best : option (nat * ivl)) (i : nat)
         (ss : list (list ivl)) : option (nat * ivl) :=
  match ss with
  | [] => best
  | [] :: r => pick_min lt best (S i) r
  | (x :: _) :: r =>
    match best with
    | None => pick_min lt (Some (i, x)) (S i) r
    | Some (_, y) => if lt x y then pick_min lt (Some (i, x)) (S i) r
                     else pick_min lt best (S i) r
    end
  end.

Fixpoint pop_at (i : nat) (ss : list (list ivl)) : list (list ivl) :=
  match ss, i with
  | [], _ => []
  | s :: r, O => tl s :: r
  | s :: r, S k => s :: pop_at k r
  end.

Fixpoint merge_fuel (fuel : nat) (lt : ivl -> ivl -> bool) (ss : list (list ivl)) : list ivl :=
  match fuel with
  | O => []
  | S f => match pick_min lt None 0 ss with
           | None => []
           | Some (i, x) => x :: merge_fuel f lt (pop_at i ss)
           end
  end.

Definition total_len (ss : list (list ivl)) : nat := fold_right (fun l a => (length l + a)%nat) O ss.

Definition merge_by (lt : ivl -> ivl -> bool) (ss : list (list ivl)) : list ivl :=
  merge_fuel (total_len ss) lt ss.

(* the three keys that occur in the code *)
Definition lt_fwd (a b : ivl) : bool := key_lt a b.                        (* (start, end) *)
Definition lt_rev (a b : ivl) : bool :=                                    (* (-start, -end) *)
  (fstart b <? fstart a) || ((fstart a =? fstart b) && (fend b <? fend a)).
Definition lt_start (a b : ivl) : bool := fstart a <? fstart b.            (* start only *)

(* ------------------------------------------------------------------------------------ *)
(* Intersection._sweep *)

Record sstate := mkS { cur : option ivl; rest : list ivl; exh : bool; lpc : option Z }.

(* _SourceState.advance *)
Definition advance (s : sstate) : sstate * bool :=
  if exh s then (s, false) else
  match rest s with
  | x :: r => (mkS (Some x) r false None, true)
  | [] => (mkS (cur s) [] true (lpc s), true)
  end.

Definition init_state (l : list ivl) : sstate := fst (advance (mkS None l false None)).

Definition lpc_is (s : sstate) (c : Z) : bool :=
  match lpc s with Some p => p =? c | None => false end.

(* advance_if_ends_at: the guard *)
Definition ends_at (cutoff : Z) (s : sstate) : bool :=
  match cur s with Some c => (fend c =? cutoff) && negb (exh s) | None => false end.

(* advance_if_stalled: the guard *)
Definition stalled (cutoff : Z) (s : sstate) : bool :=
  match cur s with
  | Some c => negb (exh s) && lpc_is s cutoff && negb (fend c =? cutoff)
  | None => false
  end.

(* any(s.advance_if_X(cutoff) for ...): short circuit — advance the first state (restricted
   to indices selected by [sel]) whose guard holds; advance() on a non-exhausted state always
   returns True, so the scan stops there. *)
Fixpoint adv_first (p : sstate -> bool) (sel : nat -> bool) (i : nat) (ss : list sstate)
  : list sstate * bool :=
  match ss with
  | [] => ([], false)
  | s :: r => if sel i && p s then (fst (advance s) :: r, snd (advance s))
              else let '(r', b) := adv_first p sel (S i) r in (s :: r', b)
  end.

(* the emission loop "for idx in emit_indices" (ascending index order) *)
Fixpoint emit (os oe : Z) (sel : nat -> bool) (i : nat) (ss : list sstate)
  : list sstate * list ivl :=
  match ss with
  | [] => ([], [])
  | s :: r =>
    let '(r', out) := emit os oe sel (S i) r in
    match cur s with
    | Some c =>
      if sel i && negb (lpc_is s oe)
      then (mkS (cur s) (rest s) (exh s) (Some oe) :: r', set_span c (unS os) (unE oe) :: out)
      else (s :: r', out)
    | None => (s :: r', out)
    end
  end.

Definition all_cur (ss : list sstate) : option (list ivl) :=
  fold_right (fun s acc => match cur s, acc with Some c, Some l => Some (c :: l) | _, _ => None end)
             (Some []) ss.

Definition max_start (act : list ivl) : Z :=
  match act with [] => 0 | a :: r => fold_right Z.max (fstart a) (map fstart r) end.
Definition min_end (act : list ivl) : Z :=
  match act with [] => 0 | a :: r => fold_right Z.min (fend a) (map fend r) end.

(* the "while True" loop; None = out of fuel (excluded by Proofs/InterFuel.v) *)
Fixpoint inter_loop (fuel : nat) (sel : nat -> bool) (ss : list sstate) : option (list ivl) :=
  match fuel with
  | O => None
  | S f =>
    match all_cur ss with
    | None => Some []
    | Some act =>
      let os := max_start act in
      let oe := min_end act in
      let '(ss1, out) := if os <? oe then emit os oe sel 0 ss else (ss, []) in
      let '(ss2, adv) := adv_first (ends_at oe) (fun _ => true) 0 ss1 in
      let '(ss3, adv2) := if adv then (ss2, true) else adv_first (stalled oe) sel 0 ss2 in
      if adv2 then match inter_loop f sel ss3 with Some o => Some (out ++ o) | None => None end
      else Some out
    end
  end.

(* len(states) == 1 special case *)
Fixpoint inter_single (fuel : nat) (s : sstate) : list ivl :=
  match fuel with
  | O => []
  | S f => match cur s with
           | None => []
           | Some c => let s' := fst (advance s) in
                       c :: (if exh s' then [] else inter_single f s')
           end
  end.

(* progress measure of the loop: every iteration that continues advances exactly one state *)
Definition st_measure (s : sstate) : nat := (length (rest s) + (if exh s then 0 else 1))%nat.
Definition ss_measure (ss : list sstate) : nat := fold_right (fun s a => (st_measure s + a)%nat) O ss.

(* emit_indices from the mask flags *)
Definition emit_sel (masks : list bool) : nat -> bool :=
  if forallb (fun b => b) masks then (fun i => Nat.eqb i 0)
  else if existsb (fun b => b) masks then (fun i => negb (nth i masks false))
  else (fun _ => true).

Definition inter_sweep_opt (streams : list (list ivl)) (sel : nat -> bool) : option (list ivl) :=
  let ss := map init_state streams in
  if forallb (fun s => exh s && match cur s with None => true | _ => false end) ss then Some [] else
  match ss with
  | [s] => Some (inter_single (S (length (rest s))) s)
  | _ => inter_loop (S (ss_measure ss)) sel ss
  end.

(* The None branch is dead: Proofs/InterFuel.v proves inter_sweep_opt never returns None. *)
Definition inter_sweep (streams : list (list ivl)) (sel : nat -> bool) : list ivl :=
  match inter_sweep_opt streams sel with Some o => o | None => [] end.

(* ------------------------------------------------------------------------------------ *)
(* Difference._sweep.  [subs] is the merged subtractor stream; its head is
   current_subtractor, [] is current_subtractor = None. *)

(* "while current_subtractor and current_subtractor.finite_end < cursor: advance" *)
Fixpoint dskip (cursor : Z) (subs : list ivl) : list ivl :=
  match subs with
  | s :: r => if fend s <? cursor then dskip cursor r else subs
  | [] => []
  end.

(* final fragment "if cursor < event_end" *)
Definition dfinal (ev : ivl) (cursor ee : Z) : list ivl :=
  if cursor <? ee then [set_span ev (unS cursor) (unE ee)] else [].

(* "while current_subtractor and current_subtractor.finite_start <= event_end" followed by
   the final fragment; returns the emitted fragments and the remaining subtractor stream *)
Fixpoint dcarve (ev : ivl) (cursor ee : Z) (subs : list ivl) : list ivl * list ivl :=
  match subs with
  | [] => (dfinal ev cursor ee, [])
  | s :: r =>
    if fstart s <=? ee then
      let os := Z.max cursor (fstart s) in
      let oe := Z.min ee (fend s) in
      if os <? oe then
        let pre := if cursor <? os then [set_span ev (unS cursor) (unS os)] else [] in
        if oe >=? ee then (pre ++ dfinal ev oe ee, subs)                 (* break *)
        else if fend s <=? ee then
          let '(o, l) := dcarve ev oe ee r in (pre ++ o, l)
        else (pre ++ dfinal ev oe ee, subs)                              (* break *)
      else if fend s <=? ee then dcarve ev cursor ee r
      else (dfinal ev cursor ee, subs)                                   (* break *)
    else (dfinal ev cursor ee, subs)
  end.

Fixpoint dsweep (src : list ivl) (subs : list ivl) : list ivl :=
  match src with
  | [] => []
  | ev :: r =>
    match subs with
    | [] => ev :: dsweep r []
    | _ =>
      let subs1 := dskip (fstart ev) subs in
      match subs1 with
      | [] => ev :: dsweep r []
      | _ => let '(o, subs2) := dcarve ev (fstart ev) (fend ev) subs1 in o ++ dsweep r subs2
      end
    end
  end.

Definition diff_sweep (src : list ivl) (sub_streams : list (list ivl)) : list ivl :=
  dsweep src (merge_by lt_fwd sub_streams).

(* ------------------------------------------------------------------------------------ *)
(* Complement._sweep *)

Definition gap (a b : option Z) : ivl := mkI a b Plain.

Definition final_gap (cursor eb : Z) (e : option Z) : list ivl :=
  if cursor <? eb then [gap (unS cursor) (if eb =? POS_INF then None else e)] else [].

Fixpoint csweep (xs : list ivl) (sb eb : Z) (e : option Z) (cursor : Z) : list ivl :=
  match xs with
  | [] => final_gap cursor eb e
  | x :: r =>
    if fend x <? sb then csweep r sb eb e cursor
    else if fstart x >? eb then final_gap cursor eb e
    else let ss := Z.max (fstart x) sb in
         let se := Z.min (fend x) eb in
         if se <=? cursor then csweep r sb eb e cursor
         else (if ss >? cursor then [gap (unS cursor) (unS ss)] else []) ++
              (let c := Z.max cursor se in
               if c >? eb then [] else csweep r sb eb e c)
  end.

Definition compl_sweep (xs : list ivl) (a b : option Z) : list ivl :=
  csweep xs (bnd_lo a) (bnd_hi b) b (bnd_lo a).
