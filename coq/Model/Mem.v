(* Model/Mem.v — calgebra/mutable/memory.py (MemoryTimeline) and the dispatch of
   calgebra/mutable/__init__.py as a state machine over operation histories:
   add(interval), add(recurring pattern), remove, remove_series, slices in both directions,
   the WriteResult success flags, and the metadata merge of _add_interval.
   A stored recurring pattern is abstracted to what the operations need: an arithmetic
   progression of occurrences (daily patterns in UTC, every k days), an exclusion set and a
   payload; the agreement of that abstraction with RecurringPattern is part of the
   correspondence.  No proofs here. *)
From CG Require Export Model.Expr.

(* Event payload ids encode (tag, series): id = tag * SER + series; series = 0 means the event
   has no recurring_event_id; series k > 0 is the id of the k-th series added.  A static event
   may carry a series id too (a copy of an occurrence, an event of another calendar). *)
Definition SER : N := 100.
Definition series_of (i : ivl) : N := match pl i with Rich id => N.modulo id SER | Plain => 0%N end.
Definition tag_of (i : ivl) : N := match pl i with Rich id => N.div id SER | Plain => 0%N end.

Record pat := mkP {
  p_ser : N;            (* recurring_event_id (sequence number of the series) *)
  p_period : Z;         (* seconds between occurrences (interval * 86400) *)
  p_phase : Z;          (* start of one occurrence *)
  p_dur : Z;            (* duration *)
  p_ex : list Z;        (* exdates: excluded occurrence starts *)
  p_tag : N }.

(* occurrences n*period + phase overlapping [a, b] the way _fetch_forward selects them:
   skipped when end <= a, stop when start > b, excluded starts dropped *)
Definition occ_n (p : pat) (n : Z) : ivl :=
  let s := n * p_period p + p_phase p in
  mkI (Some s) (Some (s + p_dur p)) (Rich (p_tag p * SER + p_ser p)).

Fixpoint occ_from (p : pat) (n : Z) (count : nat) : list ivl :=
  match count with
  | O => []
  | S c => occ_n p n :: occ_from p (n + 1) c
  end.

Definition memZ (x : Z) (l : list Z) : bool := existsb (Z.eqb x) l.

Definition pat_fetch (p : pat) (a b : Z) : list ivl :=
  (* smallest n with n*period + phase + dur > a ; largest n with n*period + phase <= b *)
  let nmin := (a - p_dur p - p_phase p) / p_period p + 1 in
  let nmax := (b - p_phase p) / p_period p in
  filter (fun o => negb (memZ (fstart o) (p_ex p))) (occ_from p nmin (Z.to_nat (nmax - nmin + 1))).

Record mstate := mkM { m_static : list ivl; m_pats : list pat; m_seq : N }.
Definition minit : mstate := mkM [] [] 0%N.

(* MemoryTimeline.fetch for finite bounds: heapq.merge of the pattern streams (in storage order)
   and the static stream, keyed (start, end); descending keys in reverse *)
Definition mfetch (s : mstate) (a b : Z) (rv : bool) : list ivl :=
  let pats := map (fun p => let l := pat_fetch p a b in if rv then rev l else l) (m_pats s) in
  let st := match m_static s with
            | [] => []
            | _ => [fetch_static (m_static s) (Some a) (Some b) rv]
            end in
  merge_by (if rv then lt_rev else lt_fwd) (pats ++ st).

(* timeline[a:b:step]: (self & solid).fetch — MemoryTimeline is not a mask *)
Definition mslice (s : mstate) (a b : Z) (rv : bool) : list ivl :=
  let sel := emit_sel [false; true] in
  let w := mkI (Some a) (Some b) Plain in
  if rv then neg_stream (inter_sweep [neg_stream (mfetch s a b true); [neg_ivl w]] sel)
  else inter_sweep [mfetch s a b false; [w]] sel.

(* results of the write operations: one success flag per WriteResult *)
Inductive mop :=
| MAdd (ev : ivl)                        (* add(Interval) *)
| MAddPat (period phase dur : Z) (tag : N)   (* add(RecurringPattern) *)
| MRemove (ev : ivl)                     (* remove(Interval) *)
| MRemoveSeries (ev : ivl)               (* remove_series(Interval) *)
| MSlice (a b : Z) (rv : bool).

Fixpoint find_pat (k : N) (l : list pat) : option pat :=
  match l with [] => None | p :: r => if N.eqb (p_ser p) k then Some p else find_pat k r end.
Fixpoint upd_pat (q : pat) (l : list pat) : list pat :=
  match l with [] => [] | p :: r => if N.eqb (p_ser p) (p_ser q) then q :: r else p :: upd_pat q r end.
Fixpoint del_pat (k : N) (l : list pat) : list pat :=
  match l with [] => [] | p :: r => if N.eqb (p_ser p) k then r else p :: del_pat k r end.

Definition in_list (x : ivl) (l : list ivl) : bool := existsb (ivl_eqb x) l.
Fixpoint sl_remove1 (x : ivl) (l : list ivl) : list ivl :=
  match l with [] => [] | y :: r => if ivl_eqb x y then r else y :: sl_remove1 x r end.

(* _remove_interval: removal from the static store *)
Definition remove_static (s : mstate) (ev : ivl) : mstate * bool :=
  if in_list ev (m_static s)
  then (mkM (sl_remove1 ev (m_static s)) (m_pats s) (m_seq s), true)
  else (s, false).

(* _remove_recurring_instance (repaired: succeeds only if an occurrence starts there) *)
Definition remove_instance (s : mstate) (ev : ivl) : mstate * bool :=
  match find_pat (series_of ev) (m_pats s) with
  | None => (s, false)
  | Some p =>
    match st ev with
    | None => (s, false)
    | Some t =>
      if existsb (fun o => fstart o =? t) (pat_fetch p t (t + 1))
      then (mkM (m_static s) (upd_pat (mkP (p_ser p) (p_period p) (p_phase p) (p_dur p) (t :: p_ex p) (p_tag p))
                                       (m_pats s)) (m_seq s), true)
      else (s, false)
    end
  end.

Definition mstep (s : mstate) (o : mop) : mstate * (list bool * list ivl) :=
  match o with
  | MAdd ev => (mkM (sl_add ev (m_static s)) (m_pats s) (m_seq s), ([true], []))
  | MAddPat period phase dur tag =>
    let k := N.succ (m_seq s) in
    (mkM (m_static s) (m_pats s ++ [mkP k period phase dur [] tag]) k, ([true], []))
  | MRemove ev =>
    (* _remove_interval: a stored interval is removed as such, whatever fields it carries; only an
       interval that is not stored and has a recurring_event_id is treated as an occurrence *)
    let '(s1, ok1) := remove_static s ev in
    let '(s', ok) := if ok1 then (s1, true)
                     else if N.eqb (series_of ev) 0 then (s, false) else remove_instance s ev in
    (s', ([ok], []))
  | MRemoveSeries ev =>
    if N.eqb (series_of ev) 0 then let '(s', ok) := remove_static s ev in (s', ([ok], []))
    else match find_pat (series_of ev) (m_pats s) with
         | Some _ => (mkM (m_static s) (del_pat (series_of ev) (m_pats s)) (m_seq s), ([true], []))
         | None => (s, ([false], []))
         end
  | MSlice a b rv => (s, ([], mslice s a b rv))
  end.

Fixpoint mrun (s : mstate) (ops : list mop) : list (list bool * list ivl) :=
  match ops with
  | [] => []
  | o :: r => let '(s', out) := mstep s o in out :: mrun s' r
  end.

(* final state, for invariants *)
Definition mfinal (ops : list mop) : mstate := fold_left (fun s o => fst (mstep s o)) ops minit.

(* ---- metadata merge of add(item, **kwargs) on a timeline with container metadata ----
   item field value, keyword argument (absent / given, possibly None), container default *)
Definition meta_merge (item : option N) (kw : option (option N)) (container : option (option N)) : option N :=
  let merged := match kw with Some v => v | None => item end in
  match merged with
  | Some v => Some v
  | None => match container with Some c => c | None => None end
  end.
