(* Model/Pull.v — the operators of calgebra/core.py and transform.py as deterministic PULL
   MACHINES: an operational model of the generator chain behind a forward slice, in which the
   number of items read from every source is observable.  No proofs here.

   A source (leaf timeline seen through the window its fetch() received) is an oracle
   [nat -> option ivl]: its k-th item, [None] = exhausted (StopIteration).  Infinite sources
   never return None.  A stored (MemoryTimeline) leaf is a finite oracle over the list
   _fetch_static hands over; its items are counted one by one exactly like those of a
   recurring leaf (the counting wrapper of the harness sits downstream of the leaf's fetch()).

   The machines never see an oracle.  One step of a machine is a PROGRAM (type [prog]) whose
   only effect is [Pull id k]: "call next() on the iterator of leaf id, which has been called
   k times before" (a leaf machine [MLeaf id k] holds its own position k).  The interpreter
   [exec] answers with [o id k] and keeps, per leaf, how far it has been read: counter c of
   a leaf means indices 0..c-1 were read (the next() that raised StopIteration counts too).
   [run] is the same interpreter without the counters.

   A machine state mirrors the suspension points of the Python generators:
     heapq.merge          UInit (not started) / URun i (suspended at the yield of stream i's head)
     Intersection._sweep  IInit / IEmit os oe i (suspended at the yield for emit index i)
     Difference._sweep    DInit / DNext (at "yield event" or the final fragment) / DHole (at
                          the fragment before a hole)
     Complement._sweep    CRun / CGap se (at the yield of a gap) / CDone
   Filtered and _Buffered are stateless.  A step that may iterate internally before it yields
   (the while-loops of the sweeps, a filter rejecting items) consumes fuel; out of fuel = [Fail].
   Intersection with exactly one source (a shape the operators never build: a & b has two,
   tl[a:b] adds solid) is not modelled separately. *)
From CG Require Export Model.Expr.

(* ------------------------------------------------------------------------------------ *)
(* programs over the single effect Pull *)

Inductive prog (A : Type) : Type :=
| Ret (a : A)
| Fail
| Pull (id k : nat) (cont : option ivl -> prog A).
Arguments Ret {A} a.
Arguments Fail {A}.
Arguments Pull {A} id k cont.

Fixpoint bind {A B} (p : prog A) (f : A -> prog B) : prog B :=
  match p with
  | Ret a => f a
  | Fail => Fail
  | Pull id k cont => Pull id k (fun x => bind (cont x) f)
  end.

Definition oenv := nat -> nat -> option ivl.     (* leaf id -> index -> item *)
Definition cnts := list nat.                     (* pulls per leaf id *)

Definition cget (c : cnts) (id : nat) : nat := nth id c O.
(* leaf id has now been read up to (excluding) index v *)
Fixpoint craise (c : cnts) (id v : nat) : cnts :=
  match c, id with
  | [], O => [v]
  | [], S i => O :: craise [] i v
  | x :: r, O => Nat.max x v :: r
  | x :: r, S i => x :: craise r i v
  end.

Fixpoint exec {A} (o : oenv) (c : cnts) (p : prog A) : option (A * cnts) :=
  match p with
  | Ret a => Some (a, c)
  | Fail => None
  | Pull id k cont => exec o (craise c id (S k)) (cont (o id k))
  end.

Fixpoint run {A} (o : oenv) (p : prog A) : option A :=
  match p with
  | Ret a => Some a
  | Fail => None
  | Pull id k cont => run o (cont (o id k))
  end.

(* ------------------------------------------------------------------------------------ *)
(* machine states *)

Inductive uctl := UInit | URun (last : nat) | UDone.
Inductive ictl := IInit | IEmit (os oe : Z) (i : nat) | IDone.
Inductive dctl := DInit | DNext | DHole (ev : ivl) (oe : Z) | DDone.
Inductive cctl := CRun | CGap (se : Z) | CDone.

Inductive mach :=
| MLeaf (id k : nat)                                       (* k = next() calls made so far *)
| MOnce (x : option ivl)                                   (* _SolidTimeline.fetch *)
| MUnion (c : uctl) (hs : list (option ivl * mach))        (* heapq.merge: one head per stream *)
| MInter (masks : list bool) (c : ictl) (ss : list (sstate * mach))   (* [rest] of sstate unused *)
| MDiff (c : dctl) (cs : option ivl) (src sub : mach)      (* cs = current_subtractor *)
| MCompl (sb eb : Z) (e : option Z) (c : cctl) (cursor : Z) (m : mach)
| MFilt (f : filt) (m : mach)
| MBuf (before after : Z) (m : mach).

Definition step := (option ivl * mach)%type.     (* None = StopIteration *)

Fixpoint upd {A} (i : nat) (x : A) (l : list A) : list A :=
  match l, i with
  | [], _ => []
  | _ :: r, O => x :: r
  | y :: r, S k => y :: upd k x r
  end.

(* ---- heapq.merge *)

Fixpoint uinit (nx : mach -> prog step) (hs : list (option ivl * mach))
  : prog (list (option ivl * mach)) :=
  match hs with
  | [] => Ret []
  | (_, m) :: r => bind (nx m) (fun xm => bind (uinit nx r) (fun r' => Ret (xm :: r')))
  end.

Definition heads (hs : list (option ivl * mach)) : list (list ivl) :=
  map (fun h => match fst h with Some x => [x] | None => [] end) hs.

Definition uyield (hs : list (option ivl * mach)) : step :=
  match pick_min lt_fwd None 0 (heads hs) with
  | None => (None, MUnion UDone hs)
  | Some (i, x) => (Some x, MUnion (URun i) hs)
  end.

Definition unext (nx : mach -> prog step) (c : uctl) (hs : list (option ivl * mach)) : prog step :=
  match c with
  | UInit => bind (uinit nx hs) (fun hs' => Ret (uyield hs'))
  | URun i => match nth_error hs i with
              | Some (_, m) => bind (nx m) (fun xm => Ret (uyield (upd i xm hs)))
              | None => Ret (None, MUnion UDone hs)
              end
  | UDone => Ret (None, MUnion UDone hs)
  end.

(* ---- Intersection._sweep *)

(* _SourceState.advance *)
Definition padv (nx : mach -> prog step) (sm : sstate * mach) : prog ((sstate * mach) * bool) :=
  if exh (fst sm) then Ret (sm, false) else
  bind (nx (snd sm)) (fun xm =>
    match fst xm with
    | Some i => Ret ((mkS (Some i) [] false None, snd xm), true)
    | None => Ret ((mkS (cur (fst sm)) [] true (lpc (fst sm)), snd xm), true)
    end).

Fixpoint iinit (nx : mach -> prog step) (ss : list (sstate * mach)) : prog (list (sstate * mach)) :=
  match ss with
  | [] => Ret []
  | sm :: r => bind (padv nx sm) (fun smb => bind (iinit nx r) (fun r' => Ret (fst smb :: r')))
  end.

Fixpoint padv_first (nx : mach -> prog step) (p : sstate -> bool) (sel : nat -> bool) (i : nat)
         (ss : list (sstate * mach)) : prog (list (sstate * mach) * bool) :=
  match ss with
  | [] => Ret ([], false)
  | sm :: r => if sel i && p (fst sm)
               then bind (padv nx sm) (fun smb => Ret (fst smb :: r, snd smb))
               else bind (padv_first nx p sel (S i) r) (fun rb => Ret (sm :: fst rb, snd rb))
  end.

(* the next emit index >= j that "for idx in emit_indices" does not skip *)
Fixpoint efind (oe : Z) (sel : nat -> bool) (i j : nat) (ss : list (sstate * mach))
  : option (nat * ivl) :=
  match ss with
  | [] => None
  | sm :: r =>
    match cur (fst sm) with
    | Some c => if (j <=? i)%nat && sel i && negb (lpc_is (fst sm) oe) then Some (i, c)
                else efind oe sel (S i) j r
    | None => efind oe sel (S i) j r
    end
  end.

Definition set_lpc (i : nat) (oe : Z) (ss : list (sstate * mach)) : list (sstate * mach) :=
  match nth_error ss i with
  | Some (s, m) => upd i (mkS (cur s) (rest s) (exh s) (Some oe), m) ss
  | None => ss
  end.

(* the "while True" loop, entered at its top (entry = None) or inside the emit loop *)
Fixpoint iloop (fuel : nat) (nx : mach -> prog step) (masks : list bool)
         (entry : option (Z * Z * nat)) (ss : list (sstate * mach)) : prog step :=
  match fuel with
  | O => Fail
  | S f =>
    let sel := emit_sel masks in
    let pos := match entry with
               | Some e => Some e
               | None => match all_cur (map fst ss) with
                         | None => None
                         | Some act => Some (max_start act, min_end act, O)
                         end
               end in
    match pos with
    | None => Ret (None, MInter masks IDone ss)
    | Some (os, oe, j) =>
      match (if os <? oe then efind oe sel 0 j ss else None) with
      | Some (i, c) => Ret (Some (set_span c (unS os) (unE oe)), MInter masks (IEmit os oe i) ss)
      | None =>
        bind (padv_first nx (ends_at oe) (fun _ => true) 0 ss) (fun r1 =>
        bind (if snd r1 then Ret r1 else padv_first nx (stalled oe) sel 0 (fst r1)) (fun r2 =>
        if snd r2 then iloop f nx masks None (fst r2)
        else Ret (None, MInter masks IDone (fst r2))))
      end
    end
  end.

Definition inext (fuel : nat) (nx : mach -> prog step) (masks : list bool) (c : ictl)
           (ss : list (sstate * mach)) : prog step :=
  match c with
  | IInit =>
    bind (iinit nx ss) (fun ss' =>
      if forallb (fun sm => exh (fst sm) && match cur (fst sm) with None => true | _ => false end) ss'
      then Ret (None, MInter masks IDone ss')
      else iloop fuel nx masks None ss')
  | IEmit os oe i => iloop fuel nx masks (Some (os, oe, S i)) (set_lpc i oe ss)
  | IDone => Ret (None, MInter masks IDone ss)
  end.

(* ---- Difference._sweep *)

Fixpoint dskipM (fuel : nat) (nx : mach -> prog step) (cursor : Z) (cs : option ivl) (sub : mach)
  : prog (option ivl * mach) :=
  match fuel with
  | O => Fail
  | S f => match cs with
           | Some s => if fend s <? cursor
                       then bind (nx sub) (fun xm => dskipM f nx cursor (fst xm) (snd xm))
                       else Ret (cs, sub)
           | None => Ret (None, sub)
           end
  end.

Inductive dmode :=
| DmNext                               (* "for event in source_stream": fetch the next event *)
| DmCarve (ev : ivl) (cursor : Z)      (* top of the carving while-loop *)
| DmAfter (ev : ivl) (oe : Z)          (* "cursor = overlap_end; if cursor >= event_end: break" *)
| DmTail (ev : ivl) (cursor : Z)       (* "if current_subtractor.finite_end <= event_end" *)
| DmFinal (ev : ivl) (cursor : Z).     (* the final fragment *)

Fixpoint dloop (fuel : nat) (nx : mach -> prog step) (md : dmode) (cs : option ivl)
         (src sub : mach) : prog step :=
  match fuel with
  | O => Fail
  | S f =>
    match md with
    | DmNext =>
      bind (nx src) (fun xm =>
        let src' := snd xm in
        match fst xm with
        | None => Ret (None, MDiff DDone cs src' sub)
        | Some ev =>
          match cs with
          | None => Ret (Some ev, MDiff DNext None src' sub)
          | Some _ =>
            bind (dskipM f nx (fstart ev) cs sub) (fun cm =>
              match fst cm with
              | None => Ret (Some ev, MDiff DNext None src' (snd cm))
              | Some _ => dloop f nx (DmCarve ev (fstart ev)) (fst cm) src' (snd cm)
              end)
          end
        end)
    | DmCarve ev cursor =>
      let ee := fend ev in
      match cs with
      | None => dloop f nx (DmFinal ev cursor) cs src sub
      | Some s =>
        if fstart s <=? ee then
          let os := Z.max cursor (fstart s) in
          let oe := Z.min ee (fend s) in
          if os <? oe then
            if cursor <? os
            then Ret (Some (set_span ev (unS cursor) (unS os)), MDiff (DHole ev oe) cs src sub)
            else dloop f nx (DmAfter ev oe) cs src sub
          else dloop f nx (DmTail ev cursor) cs src sub
        else dloop f nx (DmFinal ev cursor) cs src sub
      end
    | DmAfter ev oe =>
      if oe >=? fend ev then dloop f nx (DmFinal ev oe) cs src sub
      else dloop f nx (DmTail ev oe) cs src sub
    | DmTail ev cursor =>
      match cs with
      | None => dloop f nx (DmFinal ev cursor) cs src sub
      | Some s =>
        if fend s <=? fend ev
        then bind (nx sub) (fun xm => dloop f nx (DmCarve ev cursor) (fst xm) src (snd xm))
        else dloop f nx (DmFinal ev cursor) cs src sub
      end
    | DmFinal ev cursor =>
      if cursor <? fend ev
      then Ret (Some (set_span ev (unS cursor) (unE (fend ev))), MDiff DNext cs src sub)
      else dloop f nx DmNext cs src sub
    end
  end.

Definition dnext (fuel : nat) (nx : mach -> prog step) (c : dctl) (cs : option ivl)
           (src sub : mach) : prog step :=
  match c with
  | DInit => bind (nx sub) (fun xm => dloop fuel nx DmNext (fst xm) src (snd xm))
  | DNext => dloop fuel nx DmNext cs src sub
  | DHole ev oe => dloop fuel nx (DmAfter ev oe) cs src sub
  | DDone => Ret (None, MDiff DDone cs src sub)
  end.

(* ---- Complement._sweep *)

Definition cfinal (sb eb : Z) (e : option Z) (cursor : Z) (m : mach) : step :=
  (match final_gap cursor eb e with g :: _ => Some g | [] => None end,
   MCompl sb eb e CDone cursor m).

(* entry = Some se: resumed after the yield of a gap ("cursor = max(cursor, segment_end)") *)
Fixpoint cloop (fuel : nat) (nx : mach -> prog step) (sb eb : Z) (e : option Z)
         (entry : option Z) (cursor : Z) (m : mach) : prog step :=
  match fuel with
  | O => Fail
  | S f =>
    match entry with
    | Some se =>
      let c := Z.max cursor se in
      if c >? eb then Ret (None, MCompl sb eb e CDone c m) else cloop f nx sb eb e None c m
    | None =>
      bind (nx m) (fun xm =>
        let m' := snd xm in
        match fst xm with
        | None => Ret (cfinal sb eb e cursor m')
        | Some x =>
          if fend x <? sb then cloop f nx sb eb e None cursor m'
          else if fstart x >? eb then Ret (cfinal sb eb e cursor m')
          else
            let ss := Z.max (fstart x) sb in
            let se := Z.min (fend x) eb in
            if se <=? cursor then cloop f nx sb eb e None cursor m'
            else if ss >? cursor
                 then Ret (Some (gap (unS cursor) (unS ss)), MCompl sb eb e (CGap se) cursor m')
                 else cloop f nx sb eb e (Some se) cursor m'
        end)
    end
  end.

(* ---- Filtered (generator expression) *)

Fixpoint floop (fuel : nat) (nx : mach -> prog step) (keep : ivl -> bool) (f : filt) (m : mach)
  : prog step :=
  match fuel with
  | O => Fail
  | S fu =>
    bind (nx m) (fun xm =>
      match fst xm with
      | None => Ret (None, MFilt f (snd xm))
      | Some x => if keep x then Ret (Some x, MFilt f (snd xm)) else floop fu nx keep f (snd xm)
      end)
  end.

(* ---- one next() on a machine *)

Fixpoint next (fuel : nat) (env : fenv) (m : mach) : prog step :=
  match fuel with
  | O => Fail
  | S f =>
    let nx := next f env in
    match m with
    | MLeaf id k => Pull id k (fun x => Ret (x, MLeaf id (S k)))
    | MOnce x => Ret (x, MOnce None)
    | MUnion c hs => unext nx c hs
    | MInter masks c ss => inext f nx masks c ss
    | MDiff c cs src sub => dnext f nx c cs src sub
    | MCompl sb eb e c cursor s =>
      match c with
      | CRun => cloop f nx sb eb e None cursor s
      | CGap se => cloop f nx sb eb e (Some se) cursor s
      | CDone => Ret (None, m)
      end
    | MFilt fl s => floop f nx (feval env fl) fl s
    | MBuf before after s =>
      bind (nx s) (fun xm => Ret (match fst xm with Some x => Some (buf_shift before after x) | None => None end,
                                  MBuf before after (snd xm)))
    end
  end.

(* ------------------------------------------------------------------------------------ *)
(* first n outputs.  [ptake] is the program, [take] its execution: the outputs, whether the
   stream ended before n items, the final machine and the final pull counters.
   [trace] additionally records the counters right after each yielded item (and the final
   counters, after the next() that ended the stream if it ended). *)

Fixpoint ptake (fuel : nat) (env : fenv) (n : nat) (m : mach) : prog (list ivl * bool * mach) :=
  match n with
  | O => Ret ([], false, m)
  | S n' => bind (next fuel env m) (fun xm =>
              match fst xm with
              | None => Ret ([], true, snd xm)
              | Some x => bind (ptake fuel env n' (snd xm)) (fun r =>
                            Ret (x :: fst (fst r), snd (fst r), snd r))
              end)
  end.

Definition take (fuel : nat) (env : fenv) (o : oenv) (n : nat) (m : mach) (c : cnts)
  : option (list ivl * bool * mach * cnts) :=
  exec o c (ptake fuel env n m).

Fixpoint trace (fuel : nat) (env : fenv) (o : oenv) (n : nat) (m : mach) (c : cnts)
  : option (list (ivl * cnts) * bool * cnts) :=
  match n with
  | O => Some ([], false, c)
  | S n' => match exec o c (next fuel env m) with
            | None => None
            | Some ((None, _), c') => Some ([], true, c')
            | Some ((Some x, m'), c') =>
              match trace fuel env o n' m' c' with
              | Some (l, fin, cf) => Some ((x, c') :: l, fin, cf)
              | None => None
              end
            end
  end.

(* ------------------------------------------------------------------------------------ *)
(* expressions over pull sources, their machines and their oracles *)

Inductive pexpr :=
| PPer (id : nat) (phase period dur : Z)     (* RecurringPattern daily/weekly, UTC: occurrences
                                                [phase + j*period, +dur), j in Z; a mask *)
| PSto (id : nat) (evs : list ivl)           (* timeline of evs: MemoryTimeline, static part *)
| PSolid
| PUnion (es : list pexpr)
| PInter (es : list pexpr)
| PDiff (s : pexpr) (subs : list pexpr)
| PCompl (s : pexpr)
| PFilt (s : pexpr) (f : filt)
| PBuf (s : pexpr) (before after : Z).

Fixpoint pis_mask (e : pexpr) : bool :=
  match e with
  | PPer _ _ _ _ => true
  | PSto _ _ => false
  | PSolid => true
  | PUnion es => forallb pis_mask es
  | PInter es => forallb pis_mask es
  | PDiff s _ => pis_mask s
  | PCompl _ => true
  | PFilt s _ => pis_mask s
  | PBuf _ _ _ => false
  end.

Definition por (a b : pexpr) : pexpr :=
  PUnion ((match a with PUnion l => l | _ => [a] end) ++ (match b with PUnion l => l | _ => [b] end)).
Definition pand (a b : pexpr) : pexpr :=
  PInter ((match a with PInter l => l | _ => [a] end) ++ (match b with PInter l => l | _ => [b] end)).
Definition psub (a b : pexpr) : pexpr := PDiff a [b].
Definition pflatten (a : pexpr) : pexpr := PCompl (PCompl a).

Definition s0 : sstate := mkS None [] false None.

(* X.fetch(a, b): builds the generator chain; nothing runs.  Forward queries on recurring
   leaves need a finite start, so the window start is a Z. *)
Fixpoint compile (e : pexpr) (a : Z) (b : option Z) {struct e} : mach :=
  match e with
  | PPer id _ _ _ => MLeaf id 0
  | PSto id _ => MLeaf id 0
  | PSolid => MOnce (Some (mkI (Some a) b Plain))
  | PUnion es => MUnion UInit (map (fun s => (None, compile s a b)) es)
  | PInter es => MInter (map pis_mask es) IInit (map (fun s => (s0, compile s a b)) es)
  | PDiff s subs =>
    match subs with
    | [] => compile s a b
    | _ => MDiff DInit None (compile s a b) (MUnion UInit (map (fun u => (None, compile u a b)) subs))
    end
  | PCompl s => MCompl a (bnd_hi b) b CRun a (compile s a b)
  | PFilt s f => MFilt f (compile s a b)
  | PBuf s before after => MBuf before after (compile s (a - after) (addO b before))
  end.

(* Timeline.__getitem__ for tl[a:b] / tl[a:], a finite, a <= b *)
Definition pslice (e : pexpr) (a : Z) (b : option Z) : mach := compile (pand e PSolid) a b.

(* k-th item of RecurringPattern.fetch(a, b): first occurrence that ends after a, stop at
   the first one that starts after b *)
Definition per_oracle (phase period dur a : Z) (b : option Z) (k : nat) : option ivl :=
  let j := (a - dur - phase) / period + 1 + Z.of_nat k in
  let s := phase + j * period in
  if (match b with Some e => s >? e | None => false end) then None
  else Some (mkI (Some s) (Some (s + dur)) Plain).

Definition sto_oracle (evs : list ivl) (a : Z) (b : option Z) (k : nat) : option ivl :=
  nth_error (fetch_static (sl_build evs) (Some a) b false) k.

(* the oracle of leaf [id] as seen through the window that reaches it *)
Fixpoint oracle_of (e : pexpr) (a : Z) (b : option Z) (id : nat) {struct e}
  : option (nat -> option ivl) :=
  let first := fix first (l : list pexpr) : option (nat -> option ivl) :=
                 match l with
                 | [] => None
                 | s :: r => match oracle_of s a b id with Some o => Some o | None => first r end
                 end in
  match e with
  | PPer i phase period dur => if Nat.eqb i id then Some (per_oracle phase period dur a b) else None
  | PSto i evs => if Nat.eqb i id then Some (sto_oracle evs a b) else None
  | PSolid => None
  | PUnion es => first es
  | PInter es => first es
  | PDiff s subs => match oracle_of s a b id with Some o => Some o | None => first subs end
  | PCompl s => oracle_of s a b id
  | PFilt s _ => oracle_of s a b id
  | PBuf s before after => oracle_of s (a - after) (addO b before) id
  end.

Definition oenv_of (e : pexpr) (a : Z) (b : option Z) : oenv :=
  fun id k => match oracle_of e a b id with Some o => o k | None => None end.

(* ------------------------------------------------------------------------------------ *)
(* the LIST model of the same expressions (Model/Sweeps.v functions, exactly as
   Model/Expr.v [fetch] composes them), for windows in which every leaf is finite *)

Fixpoint enum (n : nat) (o : nat -> option ivl) (k : nat) : list ivl :=
  match n with
  | O => []
  | S n' => match o k with Some x => x :: enum n' o (S k) | None => [] end
  end.

(* upper bound on the number of occurrences in [a, b] *)
Definition per_count (period dur a b : Z) : nat := Z.to_nat ((b - a + dur) / period + 2).

Fixpoint lfetch (env : fenv) (e : pexpr) (a b : Z) {struct e} : list ivl :=
  match e with
  | PPer _ phase period dur => enum (per_count period dur a b) (per_oracle phase period dur a (Some b)) 0
  | PSto _ evs => fetch_static (sl_build evs) (Some a) (Some b) false
  | PSolid => [mkI (Some a) (Some b) Plain]
  | PUnion es => merge_by lt_fwd (map (fun s => lfetch env s a b) es)
  | PInter es =>
    match es with
    | [] => []
    | _ => inter_sweep (map (fun s => lfetch env s a b) es) (emit_sel (map pis_mask es))
    end
  | PDiff s subs =>
    match subs with
    | [] => lfetch env s a b
    | _ => diff_sweep (lfetch env s a b) (map (fun u => lfetch env u a b) subs)
    end
  | PCompl s => compl_sweep (lfetch env s a b) (Some a) (Some b)
  | PFilt s f => filter (feval env f) (lfetch env s a b)
  | PBuf s before after => map (buf_shift before after) (lfetch env s (a - after) (b + before))
  end.

Definition lslice (env : fenv) (e : pexpr) (a b : Z) : list ivl := lfetch env (pand e PSolid) a b.

(* pexpr without recurring leaves = an expr of Model/Expr.v *)
Fixpoint to_expr (e : pexpr) : expr :=
  match e with
  | PPer _ _ _ _ => Stored []
  | PSto _ evs => Stored evs
  | PSolid => Solid
  | PUnion es => Union (map to_expr es)
  | PInter es => Inter (map to_expr es)
  | PDiff s subs => Diff (to_expr s) (map to_expr subs)
  | PCompl s => Compl (to_expr s)
  | PFilt s f => Filt (to_expr s) f
  | PBuf s before after => Buf (to_expr s) before after
  end.

Fixpoint no_per (e : pexpr) : bool :=
  match e with
  | PPer _ _ _ _ => false
  | PSto _ _ => true
  | PSolid => true
  | PUnion es => forallb no_per es
  | PInter es => forallb no_per es
  | PDiff s subs => no_per s && forallb no_per subs
  | PCompl s => no_per s
  | PFilt s _ => no_per s
  | PBuf s _ _ => no_per s
  end.
