(* Model/Base.v — intervals, sentinels, payloads, time negation.
   Mirrors calgebra/interval.py and the helpers at the top of calgebra/core.py.
   No proofs in Model/ files: the models must keep running when a proof breaks. *)
From Coq Require Export ZArith List Bool.
Export ListNotations.
Open Scope Z_scope.

(* interval.py: NEG_INF = -(sys.maxsize - 1), POS_INF = sys.maxsize - 1 *)
Definition NEG_INF : Z := -9223372036854775806.
Definition POS_INF : Z := 9223372036854775806.

(* Plain = base Interval (no metadata).  Rich id = any dataclass subclass; [id] stands for
   all its non-time fields at once (distinguishable payloads). *)
Inductive payload := Plain | Rich (id : N).

Record ivl := mkI { st : option Z; en : option Z; pl : payload }.

(* Interval.finite_start / finite_end *)
Definition fstart (i : ivl) : Z := match st i with Some z => z | None => NEG_INF end.
Definition fend (i : ivl) : Z := match en i with Some z => z | None => POS_INF end.

(* "x if x != NEG_INF else None" and "x if x != POS_INF else None" *)
Definition unS (z : Z) : option Z := if z =? NEG_INF then None else Some z.
Definition unE (z : Z) : option Z := if z =? POS_INF then None else Some z.

(* dataclasses.replace(ivl, start=a, end=b) *)
Definition set_span (i : ivl) (a b : option Z) : ivl := mkI a b (pl i).

(* core._neg, _negate_interval, _negate_stream *)
Definition negO (v : option Z) : option Z := match v with Some z => Some (- z) | None => None end.
Definition neg_ivl (i : ivl) : ivl := mkI (negO (en i)) (negO (st i)) (pl i).
Definition neg_stream (l : list ivl) : list ivl := map neg_ivl l.

(* window bounds with None *)
Definition bnd_lo (a : option Z) : Z := match a with Some z => z | None => NEG_INF end.
Definition bnd_hi (b : option Z) : Z := match b with Some z => z | None => POS_INF end.

(* decidable equalities used by stores, canonicalisers and the harness *)
Definition oZ_eqb (a b : option Z) : bool :=
  match a, b with Some x, Some y => x =? y | None, None => true | _, _ => false end.
Definition pl_eqb (a b : payload) : bool :=
  match a, b with Plain, Plain => true | Rich x, Rich y => N.eqb x y | _, _ => false end.
Definition ivl_eqb (a b : ivl) : bool :=
  oZ_eqb (st a) (st b) && oZ_eqb (en a) (en b) && pl_eqb (pl a) (pl b).
Fixpoint list_eqb {A} (eqb : A -> A -> bool) (a b : list A) : bool :=
  match a, b with
  | [], [] => true
  | x :: r, y :: s => eqb x y && list_eqb eqb r s
  | _, _ => false
  end.

(* lexicographic key comparison (start, end) used by heapq.merge and SortedList *)
Definition key_le (a b : ivl) : bool :=
  (fstart a <? fstart b) || ((fstart a =? fstart b) && (fend a <=? fend b)).
Definition key_lt (a b : ivl) : bool :=
  (fstart a <? fstart b) || ((fstart a =? fstart b) && (fend a <? fend b)).
