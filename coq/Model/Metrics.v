(* Model/Metrics.v — calgebra/metrics.py, statement by statement.
   An aware datetime whose tzinfo is the query zone is represented by its wall clock (local seconds
   since the local epoch, Model/Zone.v); the fold attribute is tracked only where the code can see
   it: datetime(y,m,d,...,tzinfo=zone) and dt + timedelta(...) have fold = 0, so every
   .timestamp() taken by the code is [wall_to_utc z w false]; comparisons between two datetimes
   carrying the same tzinfo object compare wall clocks (fold ignored).
   No proofs here (Proofs/MetricsP.v). *)
From CG Require Export Model.Expr Model.Zone.

Inductive period := PHour | PDay | PWeek | PMonth | PYear | PFull.
Inductive groupby := GHourOfDay | GDayOfWeek | GDayOfMonth | GWeekOfYear | GMonthOfYear.

(* start / end arguments: int (Unix timestamp) or datetime.date *)
Inductive bound := BInt (t : Z) | BDate (y m d : Z).

(* ---- datetime fields of a wall clock value ---- *)
Definition w_year (w : Z) : Z := year_of (wall_day w).
Definition w_month (w : Z) : Z := month_of (wall_day w).
Definition w_day (w : Z) : Z := day_of (wall_day w).
Definition w_hour (w : Z) : Z := wall_sod w / 3600.

(* datetime(y, m, d, tzinfo=zone) and datetime(y, m, d, h, tzinfo=zone) *)
Definition dt_ymd (y m d : Z) : Z := mk_wall (days_from_civil y m d) 0.
Definition dt_ymdh (y m d h : Z) : Z := mk_wall (days_from_civil y m d) (h * 3600).

(* int(dt.timestamp()) for dt built by the constructor or by + timedelta (fold = 0) *)
Definition ts0 (z : zone) (w : Z) : Z := wall_to_utc z w false.

(* ---- _coerce_bound ---- *)
Definition coerce_bound (z : zone) (b : bound) : Z :=
  match b with
  | BInt t => t
  | BDate y m d => ts0 z (dt_ymd y m d)     (* datetime.combine(bound, time.min, tzinfo=zone) *)
  end.

(* ---- ISO calendar: dt.isocalendar()[1] ---- *)
Definition iso_week (days : Z) : Z :=
  let th := days - weekday days + 3 in              (* Thursday of this ISO week *)
  (th - days_from_civil (year_of th) 1 1) / 7 + 1.

(* ---- _extract_group_key ---- *)
Definition group_key (g : groupby) (w : Z) : Z :=
  match g with
  | GHourOfDay => w_hour w
  | GDayOfWeek => weekday (wall_day w)
  | GDayOfMonth => w_day w
  | GWeekOfYear => iso_week (wall_day w)
  | GMonthOfYear => w_month w
  end.

(* ---- _validate_period_group_by ---- *)
Definition valid_group_by (p : period) (g : option groupby) : bool :=
  match g with
  | None => true
  | Some g' =>
    match p, g' with
    | PHour, GHourOfDay => true
    | PDay, GDayOfWeek => true
    | PDay, GDayOfMonth => true
    | PWeek, GWeekOfYear => true
    | PMonth, GMonthOfYear => true
    | _, _ => false
    end
  end.

(* ---- _period_windows_with_dt ---- *)
(* (label datetime as wall clock, win_start, win_end) *)
Definition win := (Z * Z * Z)%type.

(* "while current < end_dt: next = step(current); append (current, ts(current), ts(next)); current = next".
   None = out of fuel. *)
Fixpoint win_loop (fuel : nat) (z : zone) (next : Z -> Z) (current end_w : Z) : option (list win) :=
  match fuel with
  | O => if current <? end_w then None else Some []
  | S f =>
    if current <? end_w then
      let nx := next current in
      match win_loop f z next nx end_w with
      | Some r => Some ((current, ts0 z current, ts0 z nx) :: r)
      | None => None
      end
    else Some []
  end.

Definition next_hour (w : Z) : Z := w + 3600.          (* current + timedelta(hours=1) *)
Definition next_day (w : Z) : Z := w + DAY.            (* current + timedelta(days=1) *)
Definition next_week (w : Z) : Z := w + 7 * DAY.       (* current + timedelta(weeks=1) *)
Definition next_month (w : Z) : Z :=
  if w_month w =? 12 then dt_ymd (w_year w + 1) 1 1 else dt_ymd (w_year w) (w_month w + 1) 1.
Definition next_year (w : Z) : Z := dt_ymd (w_year w + 1) 1 1.

(* iterations needed: every step advances the wall clock by at least [u] *)
Definition loop_fuel (u current end_w : Z) : nat := Z.to_nat ((end_w - current) / u + 3).

Definition period_windows_dt (z : zone) (start_ts end_ts : Z) (p : period) : option (list win) :=
  if start_ts >=? end_ts then Some [] else
  let start_dt := utc_to_wall z start_ts in          (* datetime.fromtimestamp(start_ts, tz=zone) *)
  let end_dt := utc_to_wall z end_ts in              (* fold of end_dt is never looked at *)
  match p with
  | PFull => Some [(start_dt, start_ts, end_ts)]
  | PHour =>
    let current := dt_ymdh (w_year start_dt) (w_month start_dt) (w_day start_dt) (w_hour start_dt) in
    win_loop (loop_fuel 3600 current end_dt) z next_hour current end_dt
  | PDay =>
    let current := dt_ymd (w_year start_dt) (w_month start_dt) (w_day start_dt) in
    win_loop (loop_fuel DAY current end_dt) z next_day current end_dt
  | PWeek =>
    let days_since_monday := weekday (wall_day start_dt) in
    let week_start := dt_ymd (w_year start_dt) (w_month start_dt) (w_day start_dt) - days_since_monday * DAY in
    win_loop (loop_fuel (7 * DAY) week_start end_dt) z next_week week_start end_dt
  | PMonth =>
    let current := dt_ymd (w_year start_dt) (w_month start_dt) 1 in
    win_loop (loop_fuel (28 * DAY) current end_dt) z next_month current end_dt
  | PYear =>
    let current := dt_ymd (w_year start_dt) 1 1 in
    win_loop (loop_fuel (365 * DAY) current end_dt) z next_year current end_dt
  end.

(* _period_windows: hourly labels stay datetimes (wall seconds), the others become dates (day numbers) *)
Definition label_of (p : period) (w : Z) : Z :=
  match p with PHour => w | _ => wall_day w end.

(* ---- slices of timelines: tl[a:b] ---- *)
Definition tslice (tl : expr) (a b : Z) : list ivl := slice [] tl (Some a) (Some b) false.

(* ---- _total_duration ---- *)
Definition total_step (ws we : Z) (total : Z) (i : ivl) : Z :=
  match st i, en i with
  | Some s, Some e =>
    let cs := Z.max s ws in
    let ce := Z.min e we in
    if cs <? ce then total + (ce - cs) else total
  | _, _ => total                                    (* continue *)
  end.
Definition total_duration_ (tl : expr) (ws we : Z) : Z :=
  fold_left (total_step ws we) (tslice (flatten_ tl) ws we) 0.

(* ---- _extremum_duration ---- *)
Definition ext_step (find_max : bool) (acc : option ivl * option Z) (i : ivl) : option ivl * option Z :=
  match st i, en i with
  | Some s, Some e =>
    let d := e - s in
    match snd acc with
    | None => (Some i, Some d)
    | Some l =>
      if find_max && (d >? l) then (Some i, Some d)
      else if negb find_max && (d <? l) then (Some i, Some d)
      else acc
    end
  | _, _ => acc
  end.
Definition extremum_duration (tl : expr) (ws we : Z) (find_max : bool) : option ivl :=
  fst (fold_left (ext_step find_max) (tslice tl ws we) (None, None)).

(* ---- count_intervals._agg ---- *)
Definition count_ (tl : expr) (ws we : Z) : Z := Z.of_nat (length (tslice tl ws we)).

(* ---- coverage_ratio: exact rationals (numerator, denominator > 0); 0.0 is (0, 1) ---- *)
Definition ratio_win (tl : expr) (ws we : Z) : Z * Z :=
  let span := we - ws in
  if span <=? 0 then (0, 1) else (total_duration_ tl ws we, span).
Definition ratio_tuple (tl : expr) (ws we : Z) : Z * Z := (total_duration_ tl ws we, we - ws).
Definition zsum (l : list Z) : Z := fold_left Z.add l 0.
Definition combine_ratios (ts : list (Z * Z)) : Z * Z :=
  let n := zsum (map fst ts) in
  let d := zsum (map snd ts) in
  if d >? 0 then (n, d) else (0, 1).

(* ---- _windowed_agg ---- *)
(* make_timeline( *tl[start_ts:end_ts] ): the slice is materialised into a new stored timeline *)
Definition cached_timeline (tl : expr) (start_ts end_ts : Z) : expr := Stored (tslice tl start_ts end_ts).

Definition windowed_agg {A} (z : zone) (tl : expr) (s e : bound) (p : period)
           (agg : expr -> Z -> Z -> A) : option (list (Z * A)) :=
  let start_ts := coerce_bound z s in
  let end_ts := coerce_bound z e in
  let c := cached_timeline tl start_ts end_ts in
  match period_windows_dt z start_ts end_ts p with
  | Some ws => Some (map (fun w : win => let '(l, a, b) := w in (label_of p l, agg c a b)) ws)
  | None => None
  end.

(* ---- _grouped_agg ---- *)
(* buckets[key].append(value), kept sorted by key (the final sorted(...): keys are unique) *)
Fixpoint bucket_add {A} (k : Z) (v : A) (bs : list (Z * list A)) : list (Z * list A) :=
  match bs with
  | [] => [(k, [v])]
  | (k', vs) :: r =>
    if k =? k' then (k', vs ++ [v]) :: r
    else if k <? k' then (k, [v]) :: bs
    else (k', vs) :: bucket_add k v r
  end.

Definition grouped_agg {A B} (z : zone) (tl : expr) (s e : bound) (p : period) (g : groupby)
           (agg : expr -> Z -> Z -> A) (combiner : list A -> B) : option (list (Z * B)) :=
  let start_ts := coerce_bound z s in
  let end_ts := coerce_bound z e in
  let c := cached_timeline tl start_ts end_ts in
  match period_windows_dt z start_ts end_ts p with
  | Some ws =>
    let buckets := fold_left (fun bs (w : win) => let '(l, a, b) := w in
                                                  bucket_add (group_key g l) (agg c a b) bs) ws [] in
    Some (map (fun kv : Z * list A => (fst kv, combiner (snd kv))) buckets)
  | None => None
  end.

(* ---- public functions ---- *)
Inductive fn := FTotal | FCount | FRatio | FMax | FMin.

Inductive mres :=
| RInts (l : list (Z * Z))                 (* total_duration / count_intervals *)
| RRats (l : list (Z * (Z * Z)))           (* coverage_ratio: label, (numerator, denominator) *)
| RIvls (l : list (Z * option ivl))        (* max_duration / min_duration *)
| RValueError                              (* _validate_period_group_by *)
| RFuel.                                   (* a stepping loop ran out of fuel *)

Definition lift {A} (f : list (Z * A) -> mres) (o : option (list (Z * A))) : mres :=
  match o with Some l => f l | None => RFuel end.

Definition total_duration (z : zone) (tl : expr) (s e : bound) (p : period) (g : option groupby) : mres :=
  if negb (valid_group_by p g) then RValueError else
  match g with
  | Some g' => lift RInts (grouped_agg z tl s e p g' total_duration_ zsum)
  | None => lift RInts (windowed_agg z tl s e p total_duration_)
  end.

Definition count_intervals (z : zone) (tl : expr) (s e : bound) (p : period) (g : option groupby) : mres :=
  if negb (valid_group_by p g) then RValueError else
  match g with
  | Some g' => lift RInts (grouped_agg z tl s e p g' count_ zsum)
  | None => lift RInts (windowed_agg z tl s e p count_)
  end.

Definition coverage_ratio (z : zone) (tl : expr) (s e : bound) (p : period) (g : option groupby) : mres :=
  if negb (valid_group_by p g) then RValueError else
  match g with
  | Some g' => lift RRats (grouped_agg z tl s e p g' ratio_tuple combine_ratios)
  | None => lift RRats (windowed_agg z tl s e p ratio_win)
  end.

Definition max_duration (z : zone) (tl : expr) (s e : bound) (p : period) : mres :=
  lift RIvls (windowed_agg z tl s e p (fun c a b => extremum_duration c a b true)).
Definition min_duration (z : zone) (tl : expr) (s e : bound) (p : period) : mres :=
  lift RIvls (windowed_agg z tl s e p (fun c a b => extremum_duration c a b false)).

Definition metrics_run (z : zone) (tl : expr) (f : fn) (s e : bound) (p : period) (g : option groupby) : mres :=
  match f with
  | FTotal => total_duration z tl s e p g
  | FCount => count_intervals z tl s e p g
  | FRatio => coverage_ratio z tl s e p g
  | FMax => max_duration z tl s e p
  | FMin => min_duration z tl s e p
  end.
