(* Model/IcalSrc.v — tie C for calgebra/ical.py (third extension, tag ical): the library model the
   generated definitions of Gen/Source.v (the g_ical definitions) are instantiated with.
   The generated definitions are parametric in the icalendar / datetime objects they touch; here is what
   each parameter is taken to be (TRUSTED readings I1 - I8 at the top of
   harness/translate/srcspecs_ical.py): a DATE / DATE-TIME value is the [dtval] of Model/Ical.v, a
   timedelta a whole number of seconds, a VEVENT as _parse_vevent reads it the record [rawve].
   No proofs here (Proofs/GenEq_ical.v). *)
From CG Require Export Model.Ical.
From CG Require Import Model.Loop.

(* what _parse_vevent hands to RecurringPattern as `start`: a datetime (an anchor) or an int (a time
   of day) *)
Inductive pstart (DV : Type) := PsDt (d : DV) | PsInt (n : Z).
Arguments PsDt {DV} d.
Arguments PsInt {DV} n.

(* ------------------------------------------------------------------------------------------ *)
(* datetime values (I1)                                                                        *)

(* isinstance(x, datetime): everything but a DATE *)
Definition lv_is_datetime (v : dtval) : bool := negb (is_date v).
(* int(x.timestamp()) of a date-time *)
Definition lv_timestamp (v : dtval) : Z := ts_of v.
(* datetime.combine(d, datetime.min.time(), tzinfo=timezone.utc): midnight UTC of that day *)
Definition lv_midnight_utc (v : dtval) : dtval := DUtc (wall_of v).
(* datetime.combine(d, datetime.min.time()): naive midnight of that day *)
Definition lv_midnight_naive (v : dtval) : dtval := DFloat (wall_of v).
(* x + timedelta *)
Definition lv_add (v : dtval) (s : Z) : dtval := add_dur v s.
(* a.tzinfo is b.tzinfo (only evaluated on two date-times) *)
Definition lv_same_tzinfo (a b : dtval) : bool := same_clock a b.
(* x.replace(tzinfo=None): the same wall clock, naive *)
Definition lv_naive (v : dtval) : dtval := DFloat (wall_of v).
(* a - b of two naive datetimes: the difference of their wall clocks *)
Definition lv_sub (a b : dtval) : Z := wall_of a - wall_of b.
(* x.date() as a day number; == on dates *)
Definition lv_date (v : dtval) : Z := wall_day (wall_of v).
Definition lv_hour (v : dtval) : Z := wall_sod (wall_of v) / 3600.
Definition lv_minute (v : dtval) : Z := (wall_sod (wall_of v) mod 3600) / 60.
Definition lv_second (v : dtval) : Z := wall_sod (wall_of v) mod 60.
(* datetime(y, m, d): naive midnight of that civil date *)
Definition lv_ymd (y m d : Z) : dtval := DFloat (days_from_civil y m d * DAY).
(* datetime.fromtimestamp(t, tz=zone) *)
Definition lv_fromtimestamp (t : Z) (z : zone) : dtval := stamp z t.

(* ------------------------------------------------------------------------------------------ *)
(* timedeltas (I2): whole seconds                                                              *)
Definition ltd_of_days (n : Z) : Z := n * DAY.
Definition ltd_of_seconds (n : Z) : Z := n.
Definition ltd_days (s : Z) : Z := s / DAY.
Definition ltd_seconds (s : Z) : Z := s mod DAY.
Definition ltd_geb (a b : Z) : bool := b <=? a.
Definition ltd_sub (a b : Z) : Z := a - b.
Definition ltd_total_seconds (s : Z) : Z := s.

(* ------------------------------------------------------------------------------------------ *)
(* the VEVENT as _parse_vevent reads its times (I3): each of DTSTART / DTEND / DURATION present or
   not — more than the model's [vevent] can say (it has a DTSTART and at most one of DTEND / DURATION) *)
Record rawve := mkRaw { rw_dtstart : option dtval; rw_dtend : option dtval; rw_duration : option Z }.

(* DTEND wins over DURATION when both are present (RFC 5545 forbids both) *)
Definition endspec_of (e : option dtval) (d : option Z) : endspec :=
  match e with
  | Some x => EDtend x
  | None => match d with Some s => EDuration s | None => ENone end
  end.

Definition raw_of (v : vevent) : rawve :=
  mkRaw (Some (ve_dtstart v))
        (match ve_end v with EDtend e => Some e | _ => None end)
        (match ve_end v with EDuration s => Some s | _ => None end).

(* what the time logic of _parse_vevent computes:
   (start_dt, is_all_day, start_ts, end_ts, duration_seconds) *)
Definition times_of (v : vevent) : dtval * bool * Z * Z * Z :=
  (ve_dtstart v, is_date (ve_dtstart v), ts_of (ve_dtstart v), static_end_ts v, duration_of v).

(* the `start` argument of RecurringPattern in the model's terms (of_vevent): a DTSTART on the base
   date of the frequency is the time of day, any other the datetime (a DATE as naive midnight) *)
Definition pstart_of (s : dtval) (f : freq) : pstart dtval :=
  let w := wall_of s in
  if wall_day w =? phase_base f then PsInt (wall_sod w)
  else PsDt (if is_date s then DFloat w else s).

(* RecurringPattern.__init__ on that argument (rp_init / rp_init_dt of Model/Ical.v) *)
Definition rp_init_ps (p : rparts) (ps : pstart dtval) (dur : Z) (z : zone) (ex : list Z) : option xrule :=
  match ps with
  | PsInt n => rp_init p n dur z ex
  | PsDt d => rp_init_dt p (wall_of d) (ts_of d) dur z ex
  end.

(* ------------------------------------------------------------------------------------------ *)
(* the tz handed to RecurringPattern: x.tzinfo of a date-time (a zone's table stands for its name,
   as in Model/Ical.v: str(tzinfo) is that zone) *)
Definition lv_tzinfo (v : dtval) : option zone :=
  match v with DUtc _ => Some utc_zone | DTz z _ => Some z | _ => None end.

(* RecurringPattern: ZoneInfo(tz) if tz is not None else ZoneInfo("UTC") *)
Definition zone_of_tz (tz : option zone) : zone := match tz with Some z => z | None => utc_zone end.

(* ------------------------------------------------------------------------------------------ *)
(* component.get("EXDATE"): one property or a list of properties; a property holds several values *)
Inductive exv (P : Type) := ExOne (p : P) | ExList (l : list P).
Arguments ExOne {P} p.
Arguments ExList {P} l.

(* ------------------------------------------------------------------------------------------ *)
(* _interval_to_vevent (I7)                                                                    *)

(* the Event under construction: the properties added so far *)
Record pev := mkPev {
  pv_dtstart : option dtval; pv_end : endspec; pv_rrule : option vrecur; pv_exdate : list dtval;
  pv_summary : option N; pv_description : option N; pv_uid : option N; pv_location : option N }.

Definition pev_empty : pev := mkPev None ENone None [] None None None None.
Definition pev_add_dtstart (v : dtval) (e : pev) : pev :=
  mkPev (Some v) (pv_end e) (pv_rrule e) (pv_exdate e) (pv_summary e) (pv_description e) (pv_uid e) (pv_location e).
Definition pev_add_dtend (v : dtval) (e : pev) : pev :=
  mkPev (pv_dtstart e) (EDtend v) (pv_rrule e) (pv_exdate e) (pv_summary e) (pv_description e) (pv_uid e) (pv_location e).
Definition pev_add_duration (s : Z) (e : pev) : pev :=
  mkPev (pv_dtstart e) (EDuration s) (pv_rrule e) (pv_exdate e) (pv_summary e) (pv_description e) (pv_uid e) (pv_location e).
Definition pev_add_rrule (r : vrecur) (e : pev) : pev :=
  mkPev (pv_dtstart e) (pv_end e) (Some r) (pv_exdate e) (pv_summary e) (pv_description e) (pv_uid e) (pv_location e).
Definition pev_add_exdate (v : dtval) (e : pev) : pev :=
  mkPev (pv_dtstart e) (pv_end e) (pv_rrule e) (pv_exdate e ++ [v]) (pv_summary e) (pv_description e) (pv_uid e) (pv_location e).
(* the four text properties, numbered in the order of the source's list: summary, description, uid, location *)
Definition pev_add_text (k : Z) (t : N) (e : pev) : pev :=
  mkPev (pv_dtstart e) (pv_end e) (pv_rrule e) (pv_exdate e)
        (if k =? 0 then Some t else pv_summary e) (if k =? 1 then Some t else pv_description e)
        (if k =? 2 then Some t else pv_uid e) (if k =? 3 then Some t else pv_location e).

(* a complete VEVENT as the collection of its properties *)
Definition pev_of (v : vevent) : pev :=
  mkPev (Some (ve_dtstart v)) (ve_end v) (ve_rrule v) (ve_exdate v)
        (ve_summary v) (ve_description v) (ve_uid v) (ve_location v).

(* the item's attributes; `cast(T, item)` is item itself, so a pattern, an interval and an item are one type *)
Definition it_is_pattern (it : item) : bool := match it with Pattern _ _ => true | Static _ _ _ => false end.
Definition it_meta (it : item) : meta := match it with Pattern _ m => m | Static _ _ m => m end.
Definition r_default : rule := mkRule Daily 1 [] [] [] [] [] None 0 0 utc_zone.
Definition it_rule (it : item) : rule := match it with Pattern x _ => x_rule x | Static _ _ _ => r_default end.
Definition it_rrule_text (it : item) : list token :=
  match it with Pattern x _ => rrule_text (parts_of x) | Static _ _ _ => [] end.
Definition it_start (it : item) : option Z := match it with Static s _ _ => s | Pattern _ _ => None end.
Definition it_end (it : item) : option Z := match it with Static _ e _ => e | Pattern _ _ => None end.
Definition md_text_of (m : meta) (k : Z) : option N :=
  if k =? 0 then m_summary m else if k =? 1 then m_description m else if k =? 2 then m_uid m
  else if k =? 3 then m_location m else None.
(* vRecur.from_ical: ValueError on a malformed text *)
Definition lv_vrecur_from_ical (l : list token) : res vrecur :=
  match parse_vrecur l with Some v => RDone v | None => RRaise ValueError end.
(* x.replace(tzinfo=zone) of a naive datetime: that wall clock in the zone, as icalendar prints it *)
Definition lv_with_zone (v : dtval) (z : zone) : dtval := stamp_w z (wall_of v).
(* recurrence._anchor_wall_clock *)
Definition lv_anchor_wall_clock (a sod : Z) (z : zone) : dtval := stamp_w z (own_wall z a sod).
(* x.date() as a DATE value *)
Definition lv_to_date (v : dtval) : dtval :=
  match v with DUtc t => DDate (t / DAY) | DTz _ w => DDate (w / DAY) | DFloat w => DDate (w / DAY) | DDate d => DDate d end.
