(* Model/FiltLoop.v — helpers the text generated for calgebra/properties.py and the Filter classes of
   calgebra/core.py uses (tie C, third extension, tag "filt").  No proofs here.

   A filter's apply() may raise (op.ge(None, 3) raises TypeError; _normalize_collection raises TypeError
   for a scalar): its result is a [res bool].  Python's all(..) / any(..) over a generator of such
   calls evaluate the calls in order and stop at the first False / True — or at the first call that
   raises, whose exception is the result. *)
From CG Require Export Model.Loop.

(* all(f.apply(event) for f in filters) *)
(* (f is a parameter of the definition, not of the fixpoint, so that a filter tree's evaluation can
   recurse through it, as with forallb) *)
Definition all_r {A : Type} (f : A -> res bool) : list A -> res bool :=
  fix go (l : list A) : res bool :=
  match l with
  | [] => RDone true
  | x :: r =>
    match f x with
    | RDone true => go r
    | other => other            (* RDone false: short circuit; RRaise / RFuel / RSkip: propagated *)
    end
  end.

(* any(f.apply(event) for f in filters) *)
Definition any_r {A : Type} (f : A -> res bool) : list A -> res bool :=
  fix go (l : list A) : res bool :=
  match l with
  | [] => RDone false
  | x :: r =>
    match f x with
    | RDone false => go r
    | other => other
    end
  end.

(* the unit of a Duration property: Literal["seconds", "minutes", "hours", "days"] *)
Inductive dunit := USeconds | UMinutes | UHours | UDays.
