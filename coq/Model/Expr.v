(* Model/Expr.v — timeline expressions: the operator classes of calgebra/core.py, the filters
   of calgebra/properties.py, calgebra/transform.py, the static part of MemoryTimeline.fetch,
   Timeline.__getitem__ and the overlapping() family.  No proofs here. *)
From CG Require Export Model.Sweeps.

(* ------------------------------------------------------------------------------------ *)
(* Field values and filters (properties.py) *)

Inductive fval := VInt (z : Z) | VStr (s : N) | VSet (l : list N) | VNone.

(* event id -> field name -> value *)
Definition fenv := list (N * list (N * fval)).

Fixpoint assocN {A} (k : N) (l : list (N * A)) : option A :=
  match l with [] => None | (k', v) :: r => if N.eqb k k' then Some v else assocN k r end.

Definition field_of (env : fenv) (i : ivl) (name : N) : fval :=
  match pl i with
  | Plain => VNone
  | Rich id => match assocN id env with
               | Some fs => match assocN name fs with Some v => v | None => VNone end
               | None => VNone
               end
  end.

Inductive prop := PDur (scale : Z) | PStart | PEnd | PField (name : N).
Inductive cmp := Ge | Le | Gt | Lt | Eq | Ne.

Inductive filt :=
| FCmp (p : prop) (c : cmp) (k : fval)
| FCmpP (p : prop) (c : cmp) (q : prop)          (* a property compared with another property *)
| FOneOf (p : prop) (vs : list fval)
| FHasAny (name : N) (vs : list N)
| FHasAll (name : N) (vs : list N)
| FAnd (fs : list filt)
| FOr (fs : list filt).

Definition cmpZ (c : cmp) (x y : Z) : bool :=
  match c with
  | Ge => x >=? y | Le => x <=? y | Gt => x >? y | Lt => x <? y
  | Eq => x =? y | Ne => negb (x =? y)
  end.

Definition memN (x : N) (l : list N) : bool := existsb (N.eqb x) l.

Definition fval_eqb (a b : fval) : bool :=
  match a, b with
  | VInt x, VInt y => x =? y
  | VStr x, VStr y => N.eqb x y
  | VNone, VNone => true
  | VSet x, VSet y => forallb (fun e => memN e y) x && forallb (fun e => memN e x) y
  | _, _ => false
  end.

(* Operator.apply for "property <op> constant".  A duration is the exact rational
   (end-start)/scale, or +inf for an unbounded event; it is compared with an integer k by
   cross-multiplication (the float division of the code is trusted, see DESIGN 5/C18). *)
Definition eval_cmp (env : fenv) (p : prop) (c : cmp) (k : fval) (i : ivl) : bool :=
  match p with
  | PDur scale =>
    match k with
    | VInt kz =>
      match st i, en i with
      | Some s, Some e => cmpZ c (e - s) (kz * scale)
      | _, _ => match c with Ge | Gt | Ne => true | _ => false end
      end
    | _ => match c with Ne => true | _ => false end
    end
  | PStart => match k with VInt kz => cmpZ c (fstart i) kz
                         | _ => match c with Ne => true | _ => false end end
  | PEnd => match k with VInt kz => cmpZ c (fend i) kz
                       | _ => match c with Ne => true | _ => false end end
  | PField name =>
    match field_of env i name, k with
    | VInt x, VInt y => cmpZ c x y
    | v, k' => match c with Eq => fval_eqb v k' | Ne => negb (fval_eqb v k') | _ => false end
    end
  end.

(* "property <op> property" for the time-valued properties: start / end are integers, a duration
   is the exact rational (end-start)/scale or +inf; values are (numerator, denominator > 0),
   None = +inf; compared by cross-multiplication (inf = inf, as for floats).  A custom field on
   either side is outside this model (the comparison is then False here; the generators never
   produce it). *)
Definition prop_num (p : prop) (i : ivl) : option (option (Z * Z)) :=
  match p with
  | PStart => Some (Some (fstart i, 1))
  | PEnd => Some (Some (fend i, 1))
  | PDur scale => match st i, en i with
                  | Some s, Some e => Some (Some (e - s, scale))
                  | _, _ => Some None
                  end
  | PField _ => None
  end.
Definition eval_cmpp (p : prop) (c : cmp) (q : prop) (i : ivl) : bool :=
  match prop_num p i, prop_num q i with
  | Some (Some (x, dx)), Some (Some (y, dy)) => cmpZ c (x * dy) (y * dx)
  | Some None, Some (Some _) => match c with Ge | Gt | Ne => true | _ => false end
  | Some (Some _), Some None => match c with Le | Lt | Ne => true | _ => false end
  | Some None, Some None => match c with Ge | Le | Eq => true | _ => false end
  | _, _ => false
  end.

Definition set_of (v : fval) : list N := match v with VSet l => l | _ => [] end.

Fixpoint feval (env : fenv) (f : filt) (i : ivl) : bool :=
  match f with
  | FCmp p c k => eval_cmp env p c k i
  | FCmpP p c q => eval_cmpp p c q i
  | FOneOf p vs => existsb (fun v => eval_cmp env p Eq v i) vs
  | FHasAny name vs => existsb (fun v => memN v (set_of (field_of env i name))) vs
  | FHasAll name vs => forallb (fun v => memN v (set_of (field_of env i name))) vs
  | FAnd fs => forallb (fun g => feval env g i) fs
  | FOr fs => existsb (fun g => feval env g i) fs
  end.

(* ------------------------------------------------------------------------------------ *)
(* Static storage of MemoryTimeline: SortedList keyed by (finite_start, finite_end);
   SortedList.add inserts after the elements with an equal key (bisect_right). *)

Fixpoint sl_add (x : ivl) (l : list ivl) : list ivl :=
  match l with
  | [] => [x]
  | y :: r => if key_le y x then y :: sl_add x r else x :: l
  end.

Definition sl_build (evs : list ivl) : list ivl := fold_left (fun l x => sl_add x l) evs [].

(* bisect.bisect_right(list, end, key=finite_start) on a list sorted by finite_start:
   number of leading elements with finite_start <= end *)
Fixpoint take_le_start (e : Z) (l : list ivl) : list ivl :=
  match l with
  | x :: r => if fstart x <=? e then x :: take_le_start e r else []
  | [] => []
  end.

(* MemoryTimeline._fetch_static *)
Definition fetch_static (store : list ivl) (a b : option Z) (rv : bool) : list ivl :=
  let upto := match b with Some e => take_le_start e store | None => store end in
  let matching := filter (fun i => match a with Some s => negb (fend i <=? s) | None => true end) upto in
  if rv then rev matching else matching.

(* ------------------------------------------------------------------------------------ *)
(* transform.py *)

Definition addO (v : option Z) (d : Z) : option Z := match v with Some z => Some (z + d) | None => None end.

Definition buf_shift (before after : Z) (i : ivl) : ivl :=
  set_span i (addO (st i) (- before)) (addO (en i) after).

Fixpoint mw_go (g : Z) (c : ivl) (l : list ivl) : list ivl :=
  match l with
  | [] => [c]
  | x :: r =>
    let can := match en c, st x with Some ce, Some xs => xs - ce <=? g | _, _ => true end in
    if can then
      let ne := match en c, en x with Some ce, Some xe => Some (Z.max ce xe) | _, _ => None end in
      mw_go g (set_span c (st c) ne) r
    else c :: mw_go g x r
  end.
Definition mw (g : Z) (l : list ivl) : list ivl := match l with [] => [] | x :: r => mw_go g x r end.

(* ------------------------------------------------------------------------------------ *)
(* expressions *)

Inductive expr :=
| Stored (evs : list ivl)            (* timeline of evs: static MemoryTimeline, insertion order *)
| Solid                              (* core.solid *)
| Union (es : list expr)
| Inter (es : list expr)
| Diff (s : expr) (subs : list expr)
| Compl (s : expr)
| Filt (s : expr) (f : filt)
| Buf (s : expr) (before after : Z)
| MergeW (s : expr) (g : Z).

Fixpoint is_mask (e : expr) : bool :=
  match e with
  | Stored _ => false
  | Solid => true
  | Union es => forallb is_mask es
  | Inter es => forallb is_mask es
  | Diff s _ => is_mask s
  | Compl _ => true
  | Filt s _ => is_mask s
  | Buf _ _ _ => false
  | MergeW _ _ => false
  end.

(* Timeline.__or__/__and__/__sub__/__invert__, with _flatten_sources *)
Definition or_ (a b : expr) : expr :=
  Union ((match a with Union l => l | _ => [a] end) ++ (match b with Union l => l | _ => [b] end)).
Definition and_ (a b : expr) : expr :=
  Inter ((match a with Inter l => l | _ => [a] end) ++ (match b with Inter l => l | _ => [b] end)).
Definition sub_ (a b : expr) : expr := Diff a [b].
Definition inv_ (a : expr) : expr := Compl a.
Definition flatten_ (a : expr) : expr := Compl (Compl a).

Fixpoint fetch (env : fenv) (e : expr) (a b : option Z) (rv : bool) {struct e} : list ivl :=
  match e with
  | Stored evs => fetch_static (sl_build evs) a b rv
  | Solid => [mkI a b Plain]
  | Union es =>
    merge_by (if rv then lt_rev else lt_fwd) (map (fun s => fetch env s a b rv) es)
  | Inter es =>
    match es with
    | [] => []
    | _ =>
      let sel := emit_sel (map is_mask es) in
      if rv then neg_stream (inter_sweep (map (fun s => neg_stream (fetch env s a b true)) es) sel)
      else inter_sweep (map (fun s => fetch env s a b false) es) sel
    end
  | Diff s subs =>
    match subs with
    | [] => fetch env s a b rv
    | _ =>
      if rv then
        neg_stream (diff_sweep (neg_stream (fetch env s a b true))
                               (map (fun u => neg_stream (fetch env u a b true)) subs))
      else diff_sweep (fetch env s a b false) (map (fun u => fetch env u a b false) subs)
    end
  | Compl s =>
    if rv then neg_stream (compl_sweep (neg_stream (fetch env s a b true)) (negO b) (negO a))
    else compl_sweep (fetch env s a b false) a b
  | Filt s f => filter (feval env f) (fetch env s a b rv)
  | Buf s before after =>
    map (buf_shift before after) (fetch env s (addO a (- after)) (addO b before) rv)
  | MergeW s g =>
    if rv then rev (mw g (fetch env s a b false)) else mw g (fetch env s a b false)
  end.

(* Timeline.__getitem__ after bound coercion and step validation (those are in Model/Slice.v) *)
Definition norm_bounds (a b : option Z) : option Z * option Z :=
  match a, b with
  | Some x, Some y => if x >? y then (Some y, Some x) else (a, b)
  | _, _ => (a, b)
  end.

Definition slice (env : fenv) (e : expr) (a b : option Z) (rv : bool) : list ivl :=
  let '(a', b') := norm_bounds a b in
  match a', b' with
  | None, None => fetch env e None None rv
  | _, _ => fetch env (and_ e Solid) a' b' rv
  end.

(* ------------------------------------------------------------------------------------ *)
(* overlapping(point) *)

Definition contains (p : Z) (i : ivl) : bool := (fstart i <=? p) && (p <? fend i).

Fixpoint first_some {A} (f : ivl -> bool) (g : ivl -> A) (l : list ivl) : option A :=
  match l with [] => None | x :: r => if f x then Some (g x) else first_some f g r end.

Definition join {A} (o : option (option A)) : option A := match o with Some v => v | None => None end.

Fixpoint overlapping (env : fenv) (e : expr) (p : Z) {struct e} : list ivl :=
  match e with
  | Diff s subs =>
    match subs with
    | [] => overlapping env s p
    | _ =>
      flat_map (fun src =>
                  filter (contains p)
                         (diff_sweep [src] (map (fun u => fetch env u (st src) (en src) false) subs)))
               (overlapping env s p)
    end
  | Compl s =>
    if existsb (contains p) (fetch env s (Some p) (Some (p + 1)) false) then []
    else
      let right := join (first_some (fun i => fstart i >? p) st (fetch env s (Some p) None false)) in
      let left := join (first_some (contains p) st
                                   (fetch env (Compl s) None (Some (p + 1)) true)) in
      [mkI left right Plain]
  | _ => filter (contains p) (fetch env e (Some p) (Some (p + 1)) false)
  end.
