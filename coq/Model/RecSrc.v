(* Model/RecSrc.v — library models used by the source translation (tie C) of the text and the
   constructor of calgebra/recurrence.py: strings as token lists (the representation of
   Model/Ical.v), the module-level tables of recurrence.py, and the value shapes the constructor
   arguments may take.  No proofs here (Proofs/GenEq_rec.v). *)
From CG Require Export Model.Ical.

(* ------------------------------------------------------------------------------------------ *)
(* Text.  A Python str that rrule_kwargs_to_rrule_string builds is the list of its tokens.     *)

Definition text := list token.

(* str(n) / f"{n}" for an int *)
Definition tok_int (n : Z) : text := [TInt n].

(* _FREQ_TO_STRING[_FREQ_MAP[name]]: "DAILY" | "WEEKLY" | "MONTHLY" | "YEARLY" *)
Definition tok_freq (f : freq) : text := [TFreqV f].

(* _WEEKDAY_INT_TO_STRING[w]: "MO" .. "SU" *)
Definition tok_wd (w : Z) : text := [TDay w None].

(* _WEEKDAY_INT_TO_STRING.get(w): None outside 0..6 *)
Definition wd_text (w : Z) : option text :=
  if (0 <=? w) && (w <? 7) then Some (tok_wd w) else None.

(* concatenation of two strings, on their tokens: the digits of an integer directly followed by a
   weekday code are ONE token ("1" + "MO" = "1MO"); nothing else the function concatenates fuses *)
Definition tok_cat (a b : text) : text :=
  match rev a, b with
  | TInt n :: ra, TDay wd None :: b' => rev ra ++ TDay wd (Some n) :: b'
  | _, _ => a ++ b
  end.

(* sep.join(items) *)
Fixpoint tok_join (sep : text) (l : list text) : text :=
  match l with
  | [] => []
  | [x] => x
  | x :: r => x ++ sep ++ tok_join sep r
  end.

(* truthiness of a str | None *)
Definition otext_true (o : option text) : bool :=
  match o with Some t => negb (is_nil t) | None => false end.

(* ------------------------------------------------------------------------------------------ *)
(* RecurringPattern.rrule_kwargs as __init__ builds it: a dict with these keys, each present or
   not.  byweekday holds dateutil weekday objects (weekday 0..6, n or None); the list fields hold
   what _to_int_list returns; wkst holds a weekday object or an int. *)

Inductive wkst_v := WkObj (w : Z) | WkInt (z : Z).

Record kwargs := mkKW {
  kw_freq : option freq;
  kw_interval : option Z;
  kw_byweekday : option (list (Z * option Z));
  kw_bymonth : option (list Z);
  kw_bymonthday : option (list Z);
  kw_byweekno : option (list Z);
  kw_byyearday : option (list Z);
  kw_bysetpos : option (list Z);
  kw_byhour : option (list Z);
  kw_byminute : option (list Z);
  kw_bysecond : option (list Z);
  kw_wkst : option wkst_v }.

(* the kwargs that stand for the parts of Model/Ical.v ([] = key absent there) *)
Definition olist {A} (l : list A) : option (list A) := match l with [] => None | _ => Some l end.

Definition kw_of (p : rparts) : kwargs :=
  mkKW (Some (p_freq p)) (Some (p_interval p)) (olist (p_byday p))
       (olist (p_bymonth p)) (olist (p_bymonthday p)) (olist (p_byweekno p)) (olist (p_byyearday p))
       (olist (p_bysetpos p)) (olist (p_byhour p)) (olist (p_byminute p)) (olist (p_bysecond p))
       (match p_wkst p with Some w => Some (WkObj w) | None => None end).

(* and back: an absent key and an empty list are the same part *)
Definition olist_get {A} (o : option (list A)) : list A := match o with Some l => l | None => [] end.

Definition parts_of_kw (k : kwargs) : option rparts :=
  match kw_freq k with
  | None => None
  | Some f =>
    Some (mkP f (match kw_interval k with Some n => n | None => 1 end) (olist_get (kw_byweekday k))
              (olist_get (kw_bymonth k)) (olist_get (kw_bymonthday k)) (olist_get (kw_byweekno k))
              (olist_get (kw_byyearday k)) (olist_get (kw_bysetpos k)) (olist_get (kw_byhour k))
              (olist_get (kw_byminute k)) (olist_get (kw_bysecond k))
              (match kw_wkst k with
               | Some (WkObj w) | Some (WkInt w) => if (0 <=? w) && (w <? 7) then Some w else None
               | None => None
               end))
  end.

(* ------------------------------------------------------------------------------------------ *)
(* RecurringPattern.__init__: the shapes its arguments may take (the readings are listed in
   harness/translate/srcspecs_rec.py).  DT = an aware-or-naive datetime object, DS = a str.     *)

(* start: an int, a datetime with a tzinfo, a datetime without *)
Inductive start_arg (DT : Type) := StInt (z : Z) | StAware (dt : DT) | StNaive (dt : DT).
Arguments StInt {DT} z.
Arguments StAware {DT} dt.
Arguments StNaive {DT} dt.

(* day: one str, or a list of str *)
Inductive dayarg (DS : Type) := DayStr (s : DS) | DayList (l : list DS).
Arguments DayStr {DS} s.
Arguments DayList {DS} l.

(* day_of_month, month, bysetpos, ...: one int, or a list of ints *)
Inductive intarg := IOne (z : Z) | IList (l : list Z).

(* wkst: a dateutil weekday object, a str, an int *)
Inductive wkarg (DS : Type) := WaObj (w : Z) | WaStr (s : DS) | WaInt (z : Z).
Arguments WaObj {DS} w.
Arguments WaStr {DS} s.
Arguments WaInt {DS} z.

(* dateutil: weekday.__call__(n) — "Can't create weekday with n==0" (ValueError), else the same
   weekday with that n *)
Definition wd_call (wd : Z * option Z) (n : Z) : option (Z * option Z) :=
  if n =? 0 then None else Some (fst wd, Some n).
