(* Model/RecSrc.v — library models used by the source translation (tie C) of the text and the
   constructor of calgebra/recurrence.py: strings as token lists (the representation of
   Model/Ical.v), the module-level tables of recurrence.py, and the value shapes the constructor
   arguments may take.  No proofs here (Proofs/GenEq_rec.v). *)
From CG Require Export Model.Ical.
From CG Require Import Model.Loop.      (* fs_of_list *)

(* ------------------------------------------------------------------------------------------ *)
(* Text.  A Python str that rrule_kwargs_to_rrule_string builds is the list of its tokens.     *)

Definition text := list token.

(* str(n) / f"{n}" for an int *)
Definition tok_int (n : Z) : text := [TInt n].

(* _FREQ_TO_STRING[_FREQ_MAP[name]]: "DAILY" | "WEEKLY" | "MONTHLY" | "YEARLY" *)
Definition tok_freq (f : freq) : text := [TFreqV f].

(* _WEEKDAY_INT_TO_STRING[w]: "MO" .. "SU" *)
Definition tok_wd (w : Z) : text := [TDay w None].

(* _WEEKDAY_INT_TO_STRING.get(w): None outside 0..6 *)
Definition wd_text (w : Z) : option text :=
  if (0 <=? w) && (w <? 7) then Some (tok_wd w) else None.

(* concatenation of two strings, on their tokens: the digits of an integer directly followed by a
   weekday code are ONE token ("1" + "MO" = "1MO"); nothing else the function concatenates fuses *)
Definition tok_cat (a b : text) : text :=
  match rev a, b with
  | TInt n :: ra, TDay wd None :: b' => rev ra ++ TDay wd (Some n) :: b'
  | _, _ => a ++ b
  end.

(* sep.join(items) *)
Fixpoint tok_join (sep : text) (l : list text) : text :=
  match l with
  | [] => []
  | [x] => x
  | x :: r => x ++ sep ++ tok_join sep r
  end.

(* truthiness of a str | None *)
Definition otext_true (o : option text) : bool :=
  match o with Some t => negb (is_nil t) | None => false end.

(* ------------------------------------------------------------------------------------------ *)
(* RecurringPattern.rrule_kwargs as __init__ builds it: a dict with these keys, each present or
   not.  byweekday holds dateutil weekday objects (weekday 0..6, n or None); the list fields hold
   what _to_int_list returns; wkst holds a weekday object or an int. *)

Inductive wkst_v := WkObj (w : Z) | WkInt (z : Z).

Record kwargs := mkKW {
  kw_freq : option freq;
  kw_interval : option Z;
  kw_byweekday : option (list (Z * option Z));
  kw_bymonth : option (list Z);
  kw_bymonthday : option (list Z);
  kw_byweekno : option (list Z);
  kw_byyearday : option (list Z);
  kw_bysetpos : option (list Z);
  kw_byhour : option (list Z);
  kw_byminute : option (list Z);
  kw_bysecond : option (list Z);
  kw_wkst : option wkst_v }.

(* rrule_kwargs[key] = x *)
Definition set_byweekday k x := mkKW (kw_freq k) (kw_interval k) x (kw_bymonth k) (kw_bymonthday k) (kw_byweekno k) (kw_byyearday k) (kw_bysetpos k) (kw_byhour k) (kw_byminute k) (kw_bysecond k) (kw_wkst k).
Definition set_bymonth k x := mkKW (kw_freq k) (kw_interval k) (kw_byweekday k) x (kw_bymonthday k) (kw_byweekno k) (kw_byyearday k) (kw_bysetpos k) (kw_byhour k) (kw_byminute k) (kw_bysecond k) (kw_wkst k).
Definition set_bymonthday k x := mkKW (kw_freq k) (kw_interval k) (kw_byweekday k) (kw_bymonth k) x (kw_byweekno k) (kw_byyearday k) (kw_bysetpos k) (kw_byhour k) (kw_byminute k) (kw_bysecond k) (kw_wkst k).
Definition set_byweekno k x := mkKW (kw_freq k) (kw_interval k) (kw_byweekday k) (kw_bymonth k) (kw_bymonthday k) x (kw_byyearday k) (kw_bysetpos k) (kw_byhour k) (kw_byminute k) (kw_bysecond k) (kw_wkst k).
Definition set_byyearday k x := mkKW (kw_freq k) (kw_interval k) (kw_byweekday k) (kw_bymonth k) (kw_bymonthday k) (kw_byweekno k) x (kw_bysetpos k) (kw_byhour k) (kw_byminute k) (kw_bysecond k) (kw_wkst k).
Definition set_bysetpos k x := mkKW (kw_freq k) (kw_interval k) (kw_byweekday k) (kw_bymonth k) (kw_bymonthday k) (kw_byweekno k) (kw_byyearday k) x (kw_byhour k) (kw_byminute k) (kw_bysecond k) (kw_wkst k).
Definition set_byhour k x := mkKW (kw_freq k) (kw_interval k) (kw_byweekday k) (kw_bymonth k) (kw_bymonthday k) (kw_byweekno k) (kw_byyearday k) (kw_bysetpos k) x (kw_byminute k) (kw_bysecond k) (kw_wkst k).
Definition set_byminute k x := mkKW (kw_freq k) (kw_interval k) (kw_byweekday k) (kw_bymonth k) (kw_bymonthday k) (kw_byweekno k) (kw_byyearday k) (kw_bysetpos k) (kw_byhour k) x (kw_bysecond k) (kw_wkst k).
Definition set_bysecond k x := mkKW (kw_freq k) (kw_interval k) (kw_byweekday k) (kw_bymonth k) (kw_bymonthday k) (kw_byweekno k) (kw_byyearday k) (kw_bysetpos k) (kw_byhour k) (kw_byminute k) x (kw_wkst k).
Definition set_wkst k x := mkKW (kw_freq k) (kw_interval k) (kw_byweekday k) (kw_bymonth k) (kw_bymonthday k) (kw_byweekno k) (kw_byyearday k) (kw_bysetpos k) (kw_byhour k) (kw_byminute k) (kw_bysecond k) x.

(* the kwargs that stand for the parts of Model/Ical.v ([] = key absent there) *)
Definition olist {A} (l : list A) : option (list A) := match l with [] => None | _ => Some l end.

Definition kw_of (p : rparts) : kwargs :=
  mkKW (Some (p_freq p)) (Some (p_interval p)) (olist (p_byday p))
       (olist (p_bymonth p)) (olist (p_bymonthday p)) (olist (p_byweekno p)) (olist (p_byyearday p))
       (olist (p_bysetpos p)) (olist (p_byhour p)) (olist (p_byminute p)) (olist (p_bysecond p))
       (match p_wkst p with Some w => Some (WkObj w) | None => None end).

(* and back: an absent key and an empty list are the same part *)
Definition olist_get {A} (o : option (list A)) : list A := match o with Some l => l | None => [] end.

Definition parts_of_kw (k : kwargs) : option rparts :=
  match kw_freq k with
  | None => None
  | Some f =>
    Some (mkP f (match kw_interval k with Some n => n | None => 1 end) (olist_get (kw_byweekday k))
              (olist_get (kw_bymonth k)) (olist_get (kw_bymonthday k)) (olist_get (kw_byweekno k))
              (olist_get (kw_byyearday k)) (olist_get (kw_bysetpos k)) (olist_get (kw_byhour k))
              (olist_get (kw_byminute k)) (olist_get (kw_bysecond k))
              (match kw_wkst k with
               | Some (WkObj w) | Some (WkInt w) => if (0 <=? w) && (w <? 7) then Some w else None
               | None => None
               end))
  end.

(* ------------------------------------------------------------------------------------------ *)
(* RecurringPattern.__init__: the shapes its arguments may take (the readings are listed in
   harness/translate/srcspecs_rec.py).  DT = an aware-or-naive datetime object, DS = a str.     *)

(* start: an int, a datetime with a tzinfo, a datetime without *)
Inductive start_arg (DT : Type) := StInt (z : Z) | StAware (dt : DT) | StNaive (dt : DT).
Arguments StInt {DT} z.
Arguments StAware {DT} dt.
Arguments StNaive {DT} dt.

(* day: one str, or a list of str *)
Inductive dayarg (DS : Type) := DayStr (s : DS) | DayList (l : list DS).
Arguments DayStr {DS} s.
Arguments DayList {DS} l.

(* day_of_month, month, bysetpos, ...: one int, or a list of ints *)
Inductive intarg := IOne (z : Z) | IList (l : list Z).

(* wkst: a dateutil weekday object, a str, an int *)
Inductive wkarg (DS : Type) := WaObj (w : Z) | WaStr (s : DS) | WaInt (z : Z).
Arguments WaObj {DS} w.
Arguments WaStr {DS} s.
Arguments WaInt {DS} z.

(* dateutil: weekday.__call__(n) — "Can't create weekday with n==0" (ValueError), else the same
   weekday with that n *)
Definition wd_call (wd : Z * option Z) (n : Z) : option (Z * option Z) :=
  if n =? 0 then None else Some (fst wd, Some n).

(* ------------------------------------------------------------------------------------------ *)
(* RecurringPattern.__init__ in direct style, over the same abstract libraries as the generated
   text: strings of day specs (DS) and datetime / zone values (DT, ZONE, TZ).                   *)

Record dslib (DS : Type) := mkDsLib {
  l_upper : DS -> DS;                    (* s.upper() *)
  l_lower : DS -> DS;                    (* s.lower() *)
  l_len : DS -> Z;                       (* len(s) *)
  l_suffix : DS -> Z -> DS;              (* s[-k:] *)
  l_drop_suffix : DS -> Z -> DS;         (* s[:-k] *)
  l_int : DS -> option Z;                (* int(s); None = ValueError *)
  l_has : DS -> bool;                    (* s in _DAY_MAP *)
  l_get : DS -> Z }.                     (* _DAY_MAP[s].weekday *)
Arguments l_upper {DS} _ _.
Arguments l_lower {DS} _ _.
Arguments l_len {DS} _ _.
Arguments l_suffix {DS} _ _ _.
Arguments l_drop_suffix {DS} _ _ _.
Arguments l_int {DS} _ _.
Arguments l_has {DS} _ _.
Arguments l_get {DS} _ _.

Record dtlib (DT ZONE TZ : Type) := mkDtLib {
  t_zoneinfo : TZ -> ZONE;               (* ZoneInfo(name) *)
  t_utc : ZONE;                          (* ZoneInfo("UTC") *)
  t_tzinfo : DT -> ZONE;                 (* x.tzinfo of an aware datetime *)
  t_with_zone : DT -> ZONE -> DT;        (* x.replace(tzinfo=z) of a naive datetime *)
  t_timestamp : DT -> Z;                 (* int(x.timestamp()) *)
  t_fromtimestamp : Z -> ZONE -> DT;     (* datetime.fromtimestamp(t, tz=z) *)
  t_hour : DT -> Z; t_minute : DT -> Z; t_second : DT -> Z;
  t_weekday : DT -> Z;                   (* x.weekday() *)
  t_make : Z -> Z -> Z -> ZONE -> DT }.  (* datetime(y, m, d, tzinfo=z) *)
Arguments t_zoneinfo {DT ZONE TZ} _ _.
Arguments t_utc {DT ZONE TZ} _.
Arguments t_tzinfo {DT ZONE TZ} _ _.
Arguments t_with_zone {DT ZONE TZ} _ _ _.
Arguments t_timestamp {DT ZONE TZ} _ _.
Arguments t_fromtimestamp {DT ZONE TZ} _ _ _.
Arguments t_hour {DT ZONE TZ} _ _.
Arguments t_minute {DT ZONE TZ} _ _.
Arguments t_second {DT ZONE TZ} _ _.
Arguments t_weekday {DT ZONE TZ} _ _.
Arguments t_make {DT ZONE TZ} _ _ _ _ _.

(* the object after __init__: the fields the fetch functions, to_rrule_string and MemoryTimeline's
   re-creation read *)
Record rp_obj (DT ZONE DS : Type) := mkObj {
  o_freq : freq; o_interval : Z; o_duration : Z;
  o_exdates : list Z;                    (* frozenset: ascending distinct members *)
  o_zone : ZONE;
  o_anchor : option Z;                   (* anchor_timestamp *)
  o_sod : Z;                             (* start_seconds *)
  o_day : option (dayarg DS); o_week : option Z;
  o_day_of_month : option intarg; o_month : option intarg; o_bysetpos : option intarg;
  o_byweekno : option intarg; o_byyearday : option intarg; o_byhour : option intarg;
  o_byminute : option intarg; o_bysecond : option intarg;
  o_wkst : option (wkarg DS);
  o_kwargs : kwargs;                     (* rrule_kwargs *)
  o_epoch : DT }.                        (* _epoch *)
Arguments mkObj {DT ZONE DS}.
Arguments o_freq {DT ZONE DS} _.
Arguments o_interval {DT ZONE DS} _.
Arguments o_duration {DT ZONE DS} _.
Arguments o_exdates {DT ZONE DS} _.
Arguments o_zone {DT ZONE DS} _.
Arguments o_anchor {DT ZONE DS} _.
Arguments o_sod {DT ZONE DS} _.
Arguments o_kwargs {DT ZONE DS} _.
Arguments o_epoch {DT ZONE DS} _.

(* the constructor's arguments *)
Record rp_args (DT TZ DS : Type) := mkArgs {
  a_freq : freq; a_interval : Z;
  a_day : option (dayarg DS); a_week : option Z;
  a_day_of_month : option intarg; a_month : option intarg;
  a_start : start_arg DT; a_duration : Z; a_tz : option TZ;
  a_exdates : option (list Z);
  a_bysetpos : option intarg; a_byweekno : option intarg; a_byyearday : option intarg;
  a_byhour : option intarg; a_byminute : option intarg; a_bysecond : option intarg;
  a_wkst : option (wkarg DS) }.
Arguments mkArgs {DT TZ DS}.
Arguments a_freq {DT TZ DS} _.
Arguments a_interval {DT TZ DS} _.
Arguments a_day {DT TZ DS} _.
Arguments a_week {DT TZ DS} _.
Arguments a_day_of_month {DT TZ DS} _.
Arguments a_month {DT TZ DS} _.
Arguments a_start {DT TZ DS} _.
Arguments a_duration {DT TZ DS} _.
Arguments a_tz {DT TZ DS} _.
Arguments a_exdates {DT TZ DS} _.
Arguments a_bysetpos {DT TZ DS} _.
Arguments a_byweekno {DT TZ DS} _.
Arguments a_byyearday {DT TZ DS} _.
Arguments a_byhour {DT TZ DS} _.
Arguments a_byminute {DT TZ DS} _.
Arguments a_bysecond {DT TZ DS} _.
Arguments a_wkst {DT TZ DS} _.

Section RpNew.
  Context {DT ZONE TZ DS : Type}.
  Variable T : dtlib DT ZONE TZ.
  Variable L : dslib DS.

  Definition day_list (d : dayarg DS) : list DS := match d with DayStr s => [s] | DayList l => l end.
  Definition int_list (a : intarg) : list Z := match a with IOne z => [z] | IList l => l end.

  (* "Infer timezone: explicit tz > start's tzinfo > UTC" *)
  Definition init_zone (tz : option TZ) (start : start_arg DT) : ZONE :=
    match tz with
    | Some name => t_zoneinfo T name
    | None => match start with StAware d => t_tzinfo T d | _ => t_utc T end
    end.

  Definition dt_sod (d : DT) : Z := t_hour T d * 3600 + t_minute T d * 60 + t_second T d.

  (* "Interpret start": (anchor_dt, anchor_timestamp, start_seconds); None = ValueError *)
  Definition init_start (start : start_arg DT) (z : ZONE) : option (option DT * option Z * Z) :=
    match start with
    | StAware d => Some (Some d, Some (t_timestamp T d), dt_sod d)
    | StNaive d => let a := t_with_zone T d z in Some (Some a, Some (t_timestamp T a), dt_sod a)
    | StInt s =>
      if s >? DAY then let a := t_fromtimestamp T s z in Some (Some a, Some s, dt_sod a)
      else if (0 <=? s) && (s <? DAY) then Some (None, None, s)
      else None
    end.

  (* valid_weekdays: the weekdays of the day specs that are plain names *)
  Definition valid_weekdays (d : dayarg DS) : list Z :=
    flat_map (fun s => if l_has L (l_lower L s) then [l_get L (l_lower L s)] else []) (day_list d).

  (* "the start date should fall on one of the specified days": true = accepted *)
  Definition init_check (day : option (dayarg DS)) (anchor_dt : option DT) : bool :=
    match day, anchor_dt with
    | Some d, Some a =>
      let valid := valid_weekdays d in
      negb (negb (is_nil valid) && negb (zmem (t_weekday T a) valid))
    | _, _ => true
    end.

  (* one day spec: the weekday object it stands for; None = ValueError (invalid day name, or an
     ordinal / week of 0) *)
  Definition parse_day (week : option Z) (d : DS) : option (Z * option Z) :=
    if l_has L (l_lower L d) then
      match week with
      | Some k => wd_call (l_get L (l_lower L d), None) k
      | None => Some (l_get L (l_lower L d), None)
      end
    else
      let s := l_upper L d in
      if l_len L s >? 2 then
        let code := l_suffix L s 2 in
        if l_has L (l_lower L code) then
          match l_int L (l_drop_suffix L s 2) with
          | Some n => wd_call (l_get L (l_lower L code), None) n
          | None => None
          end
        else None
      else None.

  Fixpoint parse_days (week : option Z) (l : list DS) : option (list (Z * option Z)) :=
    match l with
    | [] => Some []
    | d :: r =>
      match parse_day week d with
      | Some w => match parse_days week r with Some ws => Some (w :: ws) | None => None end
      | None => None
      end
    end.

  Definition wkst_value (w : wkarg DS) : option wkst_v :=
    match w with
    | WaObj w => Some (WkObj w)
    | WaStr s => if l_has L (l_lower L s) then Some (WkObj (l_get L (l_lower L s))) else None
    | WaInt z => if (0 <=? z) && (z <? 7) then Some (WkInt z) else None
    end.

  (* rrule_kwargs; None = ValueError *)
  Definition init_kwargs (a : rp_args DT TZ DS) : option kwargs :=
    match (match a_day a with
           | Some d => match parse_days (a_week a) (day_list d) with Some ws => Some (Some ws) | None => None end
           | None => Some None
           end) with
    | None => None
    | Some bwd =>
      Some (mkKW (Some (a_freq a)) (Some (a_interval a)) bwd
                 (option_map int_list (a_month a)) (option_map int_list (a_day_of_month a))
                 (option_map int_list (a_byweekno a)) (option_map int_list (a_byyearday a))
                 (option_map int_list (a_bysetpos a)) (option_map int_list (a_byhour a))
                 (option_map int_list (a_byminute a)) (option_map int_list (a_bysecond a))
                 (match a_wkst a with Some w => wkst_value w | None => None end))
    end.

  (* RecurringPattern.__init__; None = ValueError *)
  Definition rp_new (a : rp_args DT TZ DS) : option (rp_obj DT ZONE DS) :=
    let z := init_zone (a_tz a) (a_start a) in
    match init_start (a_start a) z with
    | None => None
    | Some (anchor_dt, anchor, sod) =>
      if init_check (a_day a) anchor_dt then
        match init_kwargs a with
        | None => None
        | Some kw =>
          Some (mkObj (a_freq a) (a_interval a) (a_duration a)
                      (match a_exdates a with Some l => fs_of_list l | None => [] end)
                      z anchor sod
                      (a_day a) (a_week a) (a_day_of_month a) (a_month a) (a_bysetpos a) (a_byweekno a)
                      (a_byyearday a) (a_byhour a) (a_byminute a) (a_bysecond a) (a_wkst a)
                      kw (t_make T 1970 1 1 z))
        end
      else None
    end.
End RpNew.
