(* Model/Conc.v — n threads sharing one state protected by ONE non-reentrant lock
   (threading.Lock), as an executable small-step semantics.  Generic in the shared state [St]
   and the result type [R]; instantiated with the cache in Proofs/ConcP.v
   (CachedTimeline.fetch: `with self._lock: evict; fill gaps; result = list(...)`).

   A thread runs a program: a list of instructions, each either a [Local] step (touches no
   shared state: argument checks, building the generator, `yield from result`, ...) or a
   critical section [Crit k].  A critical section k is executed as
        acquire the lock ; the micro-steps [c_steps k] one at a time (each a statement
        St -> St executed while holding the lock) ; the read-out [c_read k] (the result is
        materialised while still holding the lock) together with the release.
   Every one of these is a separate step of the interleaving semantics: the scheduler may
   switch threads between any two of them.  No proofs here. *)
From Coq Require Import List Arith.
Import ListNotations.

(* l[i] := x *)
Fixpoint upd {A : Type} (i : nat) (x : A) (l : list A) : list A :=
  match l, i with
  | [], _ => []
  | _ :: r, O => x :: r
  | y :: r, S j => y :: upd j x r
  end.

Section Conc.
Variables (St R : Type).

Record crit := mkCrit { c_steps : list (St -> St); c_read : St -> R }.
Inductive instr := Local | Crit (k : crit).
Definition prog := list instr.

(* Thread status.
     Outside []            finished
     Outside (Local :: p)  about to do a local step
     Outside (Crit k :: p) waiting for the lock (about to acquire it for k)
     Inside todo rd p      inside a critical section: micro-steps [todo] remain, then the
                           read-out [rd] and the release; afterwards the program continues with p *)
Inductive status :=
| Outside (p : prog)
| Inside (todo : list (St -> St)) (rd : St -> R) (p : prog).

(* a thread: its status and the results it has collected so far (oldest first) *)
Record thread := mkT { t_st : status; t_res : list R }.

(* Configuration: the shared state, the lock holder, the threads, and two ghost logs:
     acq : (thread id, critical section) in order of lock ACQUISITION,
     rel : (thread id, result)           in order of lock RELEASE.
   The ghost logs are never read by [step]. *)
Record config := mkCfg {
  sh : St; holder : option nat; threads : list thread;
  acq : list (nat * crit); rel : list (nat * R) }.

Definition init (s0 : St) (ps : list prog) : config :=
  mkCfg s0 None (map (fun p => mkT (Outside p) []) ps) [] [].

(* thread i takes its next step; None: no such thread, finished, or blocked on the lock *)
Definition step (c : config) (i : nat) : option config :=
  match nth_error (threads c) i with
  | None => None
  | Some t =>
    let set st res := upd i (mkT st res) (threads c) in
    match t_st t with
    | Outside [] => None
    | Outside (Local :: p) =>
        Some (mkCfg (sh c) (holder c) (set (Outside p) (t_res t)) (acq c) (rel c))
    | Outside (Crit k :: p) =>
        match holder c with
        | Some _ => None                                                      (* blocked *)
        | None => Some (mkCfg (sh c) (Some i) (set (Inside (c_steps k) (c_read k) p) (t_res t))
                              (acq c ++ [(i, k)]) (rel c))                    (* acquire *)
        end
    | Inside (f :: todo) rd p =>                                              (* one statement *)
        Some (mkCfg (f (sh c)) (holder c) (set (Inside todo rd p) (t_res t)) (acq c) (rel c))
    | Inside [] rd p =>                                                       (* read out, release *)
        let r := rd (sh c) in
        Some (mkCfg (sh c) None (set (Outside p) (t_res t ++ [r])) (acq c) (rel c ++ [(i, r)]))
    end
  end.

(* a schedule is a list of thread ids; a pick that cannot step is skipped *)
Fixpoint run (c : config) (sch : list nat) : config :=
  match sch with
  | [] => c
  | i :: sch' => run (match step c i with Some c' => c' | None => c end) sch'
  end.

Definition finished (t : thread) : bool :=
  match t_st t with Outside [] => true | _ => false end.
Definition all_done (c : config) : bool := forallb finished (threads c).

(* The serial reference: the critical sections executed atomically, one after another. *)
Definition exec (fs : list (St -> St)) (s : St) : St := fold_left (fun s0 f => f s0) fs s.
Definition run_crit (k : crit) (s : St) : St * R :=
  let s' := exec (c_steps k) s in (s', c_read k s').
Fixpoint serial (s : St) (l : list (nat * crit)) : St * list (nat * R) :=
  match l with
  | [] => (s, [])
  | (i, k) :: l' =>
    let '(s1, r) := run_crit k s in
    let '(s2, rs) := serial s1 l' in (s2, (i, r) :: rs)
  end.

End Conc.

Arguments mkCrit {St R}. Arguments c_steps {St R}. Arguments c_read {St R}.
Arguments Local {St R}. Arguments Crit {St R}.
Arguments Outside {St R}. Arguments Inside {St R}.
Arguments mkT {St R}. Arguments t_st {St R}. Arguments t_res {St R}.
Arguments mkCfg {St R}. Arguments sh {St R}. Arguments holder {St R}. Arguments threads {St R}.
Arguments acq {St R}. Arguments rel {St R}.
Arguments init {St R}. Arguments step {St R}. Arguments run {St R}.
Arguments finished {St R}. Arguments all_done {St R}.
Arguments exec {St}. Arguments run_crit {St R}. Arguments serial {St R}.
