(* Model/Ical.v — calgebra/ical.py (_interval_to_vevent, _parse_vevent, timeline_to_file,
   file_to_timeline), rrule_kwargs_to_rrule_string / RecurringPattern.to_rrule_string
   (calgebra/recurrence.py), the integer-start path of RecurringPattern.__init__, and the
   re-creation of stored patterns (calgebra/mutable/memory.py: _add_recurring,
   _get_recurrence_params), as executable Gallina over an ABSTRACT VEVENT record.
   The text layer (the icalendar package: folding, escaping, parameter syntax, the order in
   which vRecur prints its keys) is not modelled: a VEVENT is the record of its property
   values.  The code is followed statement by statement, as it is in /repo now (with the repairs of this round: I1-I7, M1: EXDATE loading, wall-clock duration, DATE start for all-day UTC patterns,
   1970-01-01 local DTSTART for time-of-day patterns, absent texts load as None).
   No proofs here (Proofs/IcalP.v). *)
From CG Require Export Model.Recur.

(* ------------------------------------------------------------------------------------------ *)
(* Text values and metadata                                                                    *)

(* A text value is named by a number; 0 names the empty string "" (the only text Python's
   truth test "if val:" rejects).  None = Python None. *)
Definition otext := option N.

Record meta := mkMeta {
  m_summary : otext; m_description : otext; m_uid : otext; m_location : otext;
  m_allday : bool }.                       (* bool(meta.get("is_all_day")) *)

(* ------------------------------------------------------------------------------------------ *)
(* Rule parameters                                                                             *)

(* the parts an RRULE value carries = RecurringPattern.rrule_kwargs *)
Record rparts := mkP {
  p_freq : freq;
  p_interval : Z;
  p_byday : list (Z * option Z);        (* byweekday: weekday 0=MO..6=SU, optional ordinal *)
  p_bymonth : list Z;                   (* [] = key absent, as in Model/Recur.v *)
  p_bymonthday : list Z;
  p_byweekno : list Z;
  p_byyearday : list Z;
  p_bysetpos : list Z;
  p_byhour : list Z;
  p_byminute : list Z;
  p_bysecond : list Z;
  p_wkst : option Z }.

(* a RecurringPattern: build-recur's [rule] (what C07/C08 are about) plus the rule parts that
   are carried along but lie outside the property's rule list *)
Record xrule := mkX {
  x_rule : rule;
  x_byweekno : list Z; x_byyearday : list Z;
  x_byhour : list Z; x_byminute : list Z; x_bysecond : list Z;
  x_wkst : option Z }.

Definition parts_of (x : xrule) : rparts :=
  let r := x_rule x in
  mkP (r_freq r) (r_interval r) (r_byweekday r) (r_bymonth r) (r_bymonthday r)
      (x_byweekno x) (x_byyearday x) (r_bysetpos r) (x_byhour x) (x_byminute x) (x_bysecond x)
      (x_wkst x).

Definition mk_xrule (p : rparts) (ex : list Z) (anchor : option Z) (sod dur : Z) (z : zone) : xrule :=
  mkX (mkRule (p_freq p) (p_interval p) (p_byday p) (p_bymonthday p) (p_bymonth p) (p_bysetpos p)
              ex anchor sod dur z)
      (p_byweekno p) (p_byyearday p) (p_byhour p) (p_byminute p) (p_bysecond p) (p_wkst p).

(* ------------------------------------------------------------------------------------------ *)
(* rrule_kwargs_to_rrule_string: the RRULE text as a token list                                *)

Inductive key :=
| KFreq | KInterval | KByDay | KByMonth | KByMonthDay | KByWeekNo | KByYearDay | KBySetPos
| KByHour | KByMinute | KBySecond | KWkst.

Inductive token :=
| TKey (k : key)                       (* "FREQ=" ... "WKST=" *)
| TFreqV (f : freq)                    (* DAILY | WEEKLY | MONTHLY | YEARLY *)
| TInt (n : Z)                         (* a decimal integer *)
| TDay (wd : Z) (n : option Z)         (* MO, 1MO, -1FR *)
| TComma | TSemi.

(* ','.join(values) *)
Fixpoint commas (l : list token) : list token :=
  match l with
  | [] => []
  | [v] => [v]
  | v :: r => v :: TComma :: commas r
  end.

Definition part_text (p : key * list token) : list token := TKey (fst p) :: commas (snd p).

(* ";".join(parts) *)
Fixpoint join_parts (ps : list (key * list token)) : list token :=
  match ps with
  | [] => []
  | [p] => part_text p
  | p :: r => part_text p ++ TSemi :: join_parts r
  end.

(* "if wd.n is not None and wd.n != 0: f'{wd.n}{weekday_str}' else: weekday_str" *)
Definition day_token (e : Z * option Z) : token :=
  match snd e with
  | Some n => if n =? 0 then TDay (fst e) None else TDay (fst e) (Some n)
  | None => TDay (fst e) None
  end.

(* the parts in the order the function appends them: FREQ, INTERVAL (only if != 1), BYDAY,
   then _RRULE_LIST_FIELDS in dict order (BYMONTH, BYMONTHDAY, BYWEEKNO, BYYEARDAY, BYSETPOS,
   BYHOUR, BYMINUTE, BYSECOND), WKST; a part with no value is not appended *)
Definition all_parts (p : rparts) : list (key * list token) :=
  [ (KFreq, [TFreqV (p_freq p)]);
    (KInterval, if p_interval p =? 1 then [] else [TInt (p_interval p)]);
    (KByDay, map day_token (p_byday p));
    (KByMonth, map TInt (p_bymonth p));
    (KByMonthDay, map TInt (p_bymonthday p));
    (KByWeekNo, map TInt (p_byweekno p));
    (KByYearDay, map TInt (p_byyearday p));
    (KBySetPos, map TInt (p_bysetpos p));
    (KByHour, map TInt (p_byhour p));
    (KByMinute, map TInt (p_byminute p));
    (KBySecond, map TInt (p_bysecond p));
    (KWkst, match p_wkst p with Some w => [TDay w None] | None => [] end) ].

Definition has_vals (q : key * list token) : bool := negb (is_nil (snd q)).

Definition rrule_text (p : rparts) : list token := join_parts (filter has_vals (all_parts p)).

(* ------------------------------------------------------------------------------------------ *)
(* reading an RRULE value: vRecur.from_ical (a dict key -> list of values), then the defaults  *)
(* _parse_vevent applies (FREQ default DAILY, INTERVAL default 1)                              *)

Record vrecur := mkVR {
  v_freq : option freq;
  v_interval : option Z;
  v_byday : list (Z * option Z);
  v_bymonth : list Z; v_bymonthday : list Z; v_byweekno : list Z; v_byyearday : list Z;
  v_bysetpos : list Z; v_byhour : list Z; v_byminute : list Z; v_bysecond : list Z;
  v_wkst : option Z }.

Definition vr_empty : vrecur := mkVR None None [] [] [] [] [] [] [] [] [] None.

(* one value of key k *)
Definition add_value (k : key) (t : token) (a : vrecur) : option vrecur :=
  let '(mkVR f i bd bm bmd bwn byd bsp bh bmi bs wk) := a in
  match k, t with
  | KFreq, TFreqV f' => Some (mkVR (Some f') i bd bm bmd bwn byd bsp bh bmi bs wk)
  | KInterval, TInt n => Some (mkVR f (Some n) bd bm bmd bwn byd bsp bh bmi bs wk)
  | KByDay, TDay wd n => Some (mkVR f i (bd ++ [(wd, n)]) bm bmd bwn byd bsp bh bmi bs wk)
  | KByMonth, TInt n => Some (mkVR f i bd (bm ++ [n]) bmd bwn byd bsp bh bmi bs wk)
  | KByMonthDay, TInt n => Some (mkVR f i bd bm (bmd ++ [n]) bwn byd bsp bh bmi bs wk)
  | KByWeekNo, TInt n => Some (mkVR f i bd bm bmd (bwn ++ [n]) byd bsp bh bmi bs wk)
  | KByYearDay, TInt n => Some (mkVR f i bd bm bmd bwn (byd ++ [n]) bsp bh bmi bs wk)
  | KBySetPos, TInt n => Some (mkVR f i bd bm bmd bwn byd (bsp ++ [n]) bh bmi bs wk)
  | KByHour, TInt n => Some (mkVR f i bd bm bmd bwn byd bsp (bh ++ [n]) bmi bs wk)
  | KByMinute, TInt n => Some (mkVR f i bd bm bmd bwn byd bsp bh (bmi ++ [n]) bs wk)
  | KBySecond, TInt n => Some (mkVR f i bd bm bmd bwn byd bsp bh bmi (bs ++ [n]) wk)
  | KWkst, TDay wd None => Some (mkVR f i bd bm bmd bwn byd bsp bh bmi bs (Some wd))
  | _, _ => None
  end.

Definition is_val (t : token) : bool :=
  match t with TFreqV _ | TInt _ | TDay _ _ => true | _ => false end.

(* what was read last *)
Inductive pstate' := SStart | SKey (k : key) | SVal (k : key) | SComma (k : key).

(* KEY=v(,v)*(;KEY=v(,v)* )* ; None = malformed (vRecur.from_ical raises ValueError) *)
Fixpoint run (st : pstate') (a : vrecur) (l : list token) : option vrecur :=
  match l with
  | [] => match st with SVal _ => Some a | _ => None end
  | t :: r =>
    match st with
    | SStart => match t with TKey k => run (SKey k) a r | _ => None end
    | SKey k | SComma k =>
      if is_val t then
        match add_value k t a with Some a' => run (SVal k) a' r | None => None end
      else None
    | SVal k =>
      match t with
      | TComma => run (SComma k) a r
      | TSemi => run SStart a r
      | _ => None
      end
    end
  end.

Definition parse_vrecur (l : list token) : option vrecur := run SStart vr_empty l.

(* rrule_prop.get("FREQ", ["DAILY"])[0]; int(rrule_prop.get("INTERVAL", [1])[0]); the other
   keys are handed to RecurringPattern as they are *)
Definition parts_of_vrecur (v : vrecur) : rparts :=
  mkP (match v_freq v with Some f => f | None => Daily end)
      (match v_interval v with Some n => n | None => 1 end)
      (v_byday v) (v_bymonth v) (v_bymonthday v) (v_byweekno v) (v_byyearday v) (v_bysetpos v)
      (v_byhour v) (v_byminute v) (v_bysecond v) (v_wkst v).

Definition parse_rrule (l : list token) : option rparts :=
  match parse_vrecur l with Some v => Some (parts_of_vrecur v) | None => None end.

(* ------------------------------------------------------------------------------------------ *)
(* The abstract VEVENT                                                                         *)

Inductive dtval :=
| DDate (d : Z)                 (* VALUE=DATE: a day number *)
| DUtc (t : Z)                  (* ...Z: an instant *)
| DTz (z : zone) (w : Z)        (* TZID=...: a wall-clock reading in that zone (the zone's table
                                   stands for its name) *)
| DFloat (w : Z).               (* neither: a floating wall-clock reading *)

Inductive endspec := EDtend (v : dtval) | EDuration (secs : Z) | ENone.

Record vevent := mkVE {
  ve_dtstart : dtval;
  ve_end : endspec;
  ve_rrule : option vrecur;
  ve_exdate : list dtval;
  ve_summary : option N; ve_description : option N; ve_uid : option N; ve_location : option N }.

(* items of a MemoryTimeline *)
Inductive item :=
| Static (s e : option Z) (m : meta)
| Pattern (x : xrule) (m : meta).

Definition zone_eqb (a b : zone) : bool :=
  (off0 a =? off0 b) &&
  list_eqb (fun p q => (fst p =? fst q) && (snd p =? snd q)) (trans a) (trans b).

(* datetime.fromtimestamp(t, tz=zone) as icalendar prints it: "...Z" for UTC, else the wall
   clock with TZID (the fold attribute is not printed) *)
Definition stamp (z : zone) (t : Z) : dtval :=
  if zone_eqb z utc_zone then DUtc t else DTz z (utc_to_wall z t).

(* "if val is not None: event.add(prop, val)" *)
Definition present (t : otext) : option N := t.

(* the datetime an anchored pattern hands over as its start: fromtimestamp(anchor, zone) with the
   hour / minute / second replaced by start_seconds (the pattern's own wall-clock time), kept only
   if that still denotes the anchor ("int(wall.timestamp()) == anchor_timestamp": it does unless
   start_seconds disagrees with the anchor's reading other than by a DST gap); as a wall-clock
   reading.  replace() keeps the fold attribute of fromtimestamp's result. *)
Definition own_wall (z : zone) (a sod : Z) : Z :=
  let w0 := utc_to_wall z a in
  let w1 := mk_wall (wall_day w0) sod in
  if wall_to_utc z w1 (fold_of z a) =? a then w1 else
  (* recurrence._anchor_wall_clock: ... or on the day before (a gap that runs up to midnight moves
     the anchor's reading to the next local day); datetime - timedelta has fold 0 *)
  let w2 := mk_wall (wall_day w0 - 1) sod in
  if wall_to_utc z w2 false =? a then w2 else w0.

(* a wall-clock reading as icalendar prints it *)
Definition stamp_w (z : zone) (w : Z) : dtval := if zone_eqb z utc_zone then DUtc w else DTz z w.

(* ------------------------------------------------------------------------------------------ *)
(* _interval_to_vevent; None = ValueError (timeline_to_file then skips the item)               *)

(* _phase_base: the date a time-of-day pattern is phase-aligned to (_get_safe_anchor): Monday
   1969-12-29 for weekly patterns, else 1970-01-01 *)
Definition phase_base (f : freq) : Z := match f with Weekly => -3 | _ => 0 end.

(* "is_all_day and str(zone) == 'UTC' and start_seconds == 0 and duration_seconds % 86400 == 0":
   an all-day pattern that a DATE start can express (a DATE is read back as midnight UTC) *)
Definition writes_date (r : rule) (m : meta) : bool :=
  m_allday m && zone_eqb (r_zone r) utc_zone && (r_sod r =? 0) && (r_dur r mod DAY =? 0).

Definition to_vevent (it : item) : option vevent :=
  match it with
  | Pattern x m =>
    let r := x_rule x in
    let z := r_zone r in
    let ad := writes_date r m in
    (* the anchor, or for a time-of-day pattern that time of day on its base date in its zone:
       _phase_base(freq).replace(tzinfo=zone) + timedelta(seconds=start_seconds) *)
    let w0 := phase_base (r_freq r) * DAY + r_sod r in
    let dtstart := match r_anchor r with
                   | Some a => stamp_w z (own_wall z a (r_sod r))
                   | None => stamp_w z w0
                   end in
    (* dtstart.date() / mdt.date() when all-day *)
    let dated (v : dtval) : dtval :=
        if ad then match v with DUtc t => DDate (t / DAY) | DTz _ w => DDate (w / DAY)
                              | DFloat w => DDate (w / DAY) | DDate d => DDate d end
        else v in
    match parse_vrecur (rrule_text (parts_of x)) with       (* vRecur.from_ical(rp.to_rrule_string()) *)
    | None => None
    | Some vr =>
      Some (mkVE (dated dtstart) (EDuration (r_dur r)) (Some vr)
                 (map (fun t => dated (stamp z t)) (r_exdates r))
                 (present (m_summary m)) (present (m_description m)) (present (m_uid m))
                 (present (m_location m)))
    end
  | Static None _ _ => None                                  (* "Cannot serialize unbounded interval" *)
  | Static (Some s) e m =>
    let dv (t : Z) := if m_allday m then DDate (t / DAY) else DUtc t in
    Some (mkVE (dv s) (match e with Some t => EDtend (dv t) | None => ENone end) None []
               (present (m_summary m)) (present (m_description m)) (present (m_uid m))
               (present (m_location m)))
  end.

(* ------------------------------------------------------------------------------------------ *)
(* RecurringPattern.__init__                                                                  *)

(* valid_weekdays: only day strings found in _DAY_MAP count ("1MO".lower() is not a key), so
   numbered days take no part in the check *)
Definition plain_days (bd : list (Z * option Z)) : list Z :=
  map fst (filter (fun e => match snd e with None => true | Some _ => false end) bd).

(* the part common to all kinds of start: [aday] is anchor_dt.date() when there is an anchor;
   None = ValueError "start date (...) is a ..., but day=... specifies different day(s)" *)
Definition rp_make (p : rparts) (anchor : option Z) (aday sod dur : Z) (z : zone) (ex : list Z)
  : option xrule :=
  let valid := plain_days (p_byday p) in
  let bad := match anchor with
             | Some _ => negb (is_nil valid) && negb (zmem (weekday aday) valid)
             | None => false
             end in
  if bad then None else Some (mk_xrule p ex anchor sod dur z).

(* start is an int: a timestamp when > DAY (anchor_dt = fromtimestamp(start, zone)), else the
   seconds from midnight, which must lie in [0, DAY) (ValueError otherwise) *)
Definition rp_init (p : rparts) (start dur : Z) (z : zone) (ex : list Z) : option xrule :=
  if DAY <? start
  then rp_make p (Some start) (local_day z start) (wall_sod (utc_to_wall z start)) dur z ex
  else if (0 <=? start) && (start <? DAY) then rp_make p None 0 start dur z ex
  else None.

(* start is a datetime showing wall clock [w] in zone z, denoting instant [ts]:
   anchor_timestamp = int(start.timestamp()), start_seconds = its hour/minute/second *)
Definition rp_init_dt (p : rparts) (w ts dur : Z) (z : zone) (ex : list Z) : option xrule :=
  rp_make p (Some ts) (wall_day w) (wall_sod w) dur z ex.

(* ------------------------------------------------------------------------------------------ *)
(* _parse_vevent; None = an exception (file_to_timeline prints a warning and drops the event) *)

(* _dt_to_timestamp (a DATE is midnight UTC; a floating time is read in the process's zone,
   UTC in the harness) *)
Definition ts_of (v : dtval) : Z :=
  match v with
  | DDate d => d * DAY
  | DUtc t => t
  | DTz z w => wall_to_utc z w false
  | DFloat w => w
  end.

(* start_dt + timedelta(seconds=secs): date + timedelta uses the days only; an aware datetime
   moves on its wall clock *)
Definition add_dur (v : dtval) (secs : Z) : dtval :=
  match v with
  | DDate d => DDate (d + secs / DAY)
  | DUtc t => DUtc (t + secs)
  | DTz z w => DTz z (w + secs)
  | DFloat w => DFloat (w + secs)
  end.

Definition is_date (v : dtval) : bool := match v with DDate _ => true | _ => false end.

(* str(start_dt.tzinfo) when it is an aware datetime, else None -> ZoneInfo("UTC") *)
Definition zone_of_dt (v : dtval) : zone := match v with DTz z _ => z | _ => utc_zone end.

(* "str(value) if value is not None else None" *)
Definition loaded_text (t : option N) : otext := t.

(* the EXDATE loop: every value of every EXDATE property, through _dt_to_timestamp *)
Definition loaded_exdates (l : list dtval) : list Z := map ts_of l.

Definition end_dt (v : vevent) : dtval :=
  match ve_end v with
  | EDtend e => e
  | EDuration s => add_dur (ve_dtstart v) s
  | ENone => if is_date (ve_dtstart v) then add_dur (ve_dtstart v) DAY else ve_dtstart v
  end.

(* the wall-clock reading a value shows (a DATE: midnight) *)
Definition wall_of (v : dtval) : Z :=
  match v with DDate d => d * DAY | DUtc t => t | DTz _ w => w | DFloat w => w end.

(* "isinstance(start_dt, datetime) and isinstance(end_dt, datetime) and
    start_dt.tzinfo is end_dt.tzinfo" *)
Definition same_clock (a b : dtval) : bool :=
  match a, b with
  | DUtc _, DUtc _ => true
  | DTz z1 _, DTz z2 _ => zone_eqb z1 z2
  | DFloat _, DFloat _ => true
  | _, _ => false
  end.

(* duration_seconds: read off the wall clock when both ends are date-times of one zone, else
   the difference of the timestamps *)
Definition duration_of (v : vevent) : Z :=
  let s := ve_dtstart v in
  let e := end_dt v in
  if same_clock s e then wall_of e - wall_of s else ts_of e - ts_of s.

(* the end of a single event given by DURATION on a date-time start (RFC 5545 3.3.6): the days are
   nominal (start_dt + timedelta(days) moves on the wall clock), the rest is exact elapsed time *)
Definition static_end_ts (v : vevent) : Z :=
  match ve_end v with
  | EDuration s =>
    if is_date (ve_dtstart v) || (s <? 0) then ts_of (end_dt v)
    else ts_of (add_dur (ve_dtstart v) ((s / DAY) * DAY)) + s mod DAY
  | _ => ts_of (end_dt v)
  end.

Definition of_vevent (v : vevent) : option item :=
  let start_ts := ts_of (ve_dtstart v) in
  let end_ts := static_end_ts v in
  let m := mkMeta (loaded_text (ve_summary v)) (loaded_text (ve_description v))
                  (loaded_text (ve_uid v)) (loaded_text (ve_location v)) (is_date (ve_dtstart v)) in
  match ve_rrule v with
  | None =>
    if end_ts <? start_ts then None                          (* Interval.__post_init__ raises *)
    else Some (Static (Some start_ts) (Some end_ts) m)
  | Some vr =>
    let p := parts_of_vrecur vr in
    let z := zone_of_dt (ve_dtstart v) in
    let ex := loaded_exdates (ve_exdate v) in
    let w := wall_of (ve_dtstart v) in
    (* a DTSTART on the base date (local date) is a time-of-day pattern: its hour/minute/second
       are passed as an int; any other DTSTART is passed as a datetime (a DATE as naive
       midnight, read in UTC) *)
    match (if wall_day w =? phase_base (p_freq p) then rp_init p (wall_sod w) (duration_of v) z ex
           else rp_init_dt p w start_ts (duration_of v) z ex) with
    | Some x => Some (Pattern x m)
    | None => None
    end
  end.

(* ------------------------------------------------------------------------------------------ *)
(* MemoryTimeline.add: _add_interval keeps a static event (no container metadata here);        *)
(* _add_recurring re-creates the pattern from _get_recurrence_params: an anchored one from a   *)
(* datetime in its own tzinfo at its own wall-clock time, a time-of-day one from the int and   *)
(* tz = str(pattern.zone)                                                                      *)

Definition readd (it : item) : option item :=
  match it with
  | Static s e m => Some (Static s e m)
  | Pattern x m =>
    let r := x_rule x in
    match (match r_anchor r with
           | Some a =>
             (* start = own_wall as a datetime in the pattern's tzinfo, tz = None;
                replace(hour=start_seconds // 3600, ...) raises outside [0, DAY) *)
             if (0 <=? r_sod r) && (r_sod r <? DAY)
             then rp_init_dt (parts_of x) (own_wall (r_zone r) a (r_sod r)) a (r_dur r) (r_zone r)
                             (r_exdates r)
             else None
           | None => rp_init (parts_of x) (r_sod r) (r_dur r) (r_zone r) (r_exdates r)
           end) with
    | Some x' => Some (Pattern x' m)
    | None => None
    end
  end.

(* file_to_timeline on one VEVENT: parse, then timeline.add *)
Definition load_vevent (v : vevent) : option item :=
  match of_vevent v with Some it => readd it | None => None end.

(* timeline_to_file then file_to_timeline, item by item (an item that cannot be written is
   skipped, one that cannot be read is dropped) *)
Definition roundtrip (it : item) : option item :=
  match to_vevent it with Some v => load_vevent v | None => None end.
