(* Model/Cache.v — calgebra/cache.py (CachedTimeline) as a state machine over histories of
   queries, clock advances and source mutations.  Statement by statement: _evict_expired,
   _purge_sink, the gap computation (query - cover), _fill_gap, _stitch_at, _fetch_sink.
   The two MemoryTimelines (sink, cover) are the sorted-list store of Model/Expr.v.
   time.monotonic is an integer clock that advances by [tick] at every reading (tick may be 0:
   equal consecutive readings).  No proofs here. *)
From CG Require Export Model.Expr.

(* A payload id encodes (key, version): key = id / KEYMOD identifies the source event (the
   cache's key field), version = id mod KEYMOD stands for its mutable non-time fields. *)
Definition KEYMOD : N := 1000.
Definition key_of (i : ivl) : option N :=
  match pl i with Rich id => Some (N.div id KEYMOD) | Plain => None end.

(* CoverInterval(start, end, created) *)
Record cov := mkCov { cv_s : Z; cv_e : Z; cv_t : Z }.
Definition cov_eqb (x y : cov) : bool := (cv_s x =? cv_s y) && (cv_e x =? cv_e y) && (cv_t x =? cv_t y).
Definition cov_key_le (x y : cov) : bool :=
  (cv_s x <? cv_s y) || ((cv_s x =? cv_s y) && (cv_e x <=? cv_e y)).
Fixpoint cov_add (c : cov) (l : list cov) : list cov :=
  match l with
  | [] => [c]
  | y :: r => if cov_key_le y c then y :: cov_add c r else c :: l
  end.
Fixpoint cov_remove (c : cov) (l : list cov) : list cov :=
  match l with
  | [] => []
  | y :: r => if cov_eqb c y then r else y :: cov_remove c r
  end.
Definition cov_ivl (c : cov) : ivl := mkI (Some (cv_s c)) (Some (cv_e c)) Plain.

(* SortedList.remove: the first structurally equal element *)
Fixpoint sl_remove (x : ivl) (l : list ivl) : list ivl :=
  match l with
  | [] => []
  | y :: r => if ivl_eqb x y then r else y :: sl_remove x r
  end.

(* expiry heap entries (expires_at, sequence, cover); popped in (expires_at, sequence) order,
   so the heap is modelled as a list kept sorted by that key *)
Definition hent := (Z * N * cov)%type.
Definition hent_le (x y : hent) : bool :=
  let '(ex, sx, _) := x in let '(ey, sy, _) := y in (ex <? ey) || ((ex =? ey) && (N.leb sx sy)).
Fixpoint heap_push (h : hent) (l : list hent) : list hent :=
  match l with
  | [] => [h]
  | y :: r => if hent_le y h then y :: heap_push h r else h :: l
  end.

Record cstate := mkC {
  sink : list ivl;           (* _sink: stored fragments, sorted by (start, end) *)
  cover : list cov;          (* _cover: cached ranges, sorted by (start, end) *)
  heap : list hent;          (* _expiry_heap *)
  hseq : N;                  (* _expiry_seq *)
  now : Z;                   (* the clock *)
}.

Definition cinit (t0 : Z) : cstate := mkC [] [] [] 0%N t0.

(* _purge_sink(start, end) *)
Definition purge_sink (sk : list ivl) (s e : Z) : list ivl :=
  let affected := fetch_static sk (Some s) (Some e) false in
  fold_left
    (fun sk0 i =>
       let sk1 := sl_remove i sk0 in
       let sk2 := match st i with
                  | Some x => if x <? s then sl_add (set_span i (st i) (Some s)) sk1 else sk1
                  | None => sk1
                  end in
       match en i with
       | Some y => if y >? e then sl_add (set_span i (Some e) (en i)) sk2 else sk2
       | None => sk2
       end)
    affected sk.

(* _evict_expired with the clock reading [t] *)
Fixpoint evict_go (t : Z) (h : list hent) (cv : list cov) (sk : list ivl)
  : list hent * list cov * list ivl :=
  match h with
  | (ex, _, c) :: r =>
    if ex <=? t then evict_go t r (cov_remove c cv) (purge_sink sk (cv_s c) (cv_e c))
    else (h, cv, sk)
  | [] => ([], cv, sk)
  end.

(* Timeline.overlapping on the sink *)
Definition sink_overlapping (sk : list ivl) (p : Z) : list ivl :=
  filter (contains p) (fetch_static sk (Some p) (Some (p + 1)) false).

(* {key: ivl for ivl in l}: the last interval wins for a repeated key *)
Fixpoint by_key (l : list ivl) (acc : list (option N * ivl)) : list (option N * ivl) :=
  match l with
  | [] => acc
  | i :: r =>
    let k := key_of i in
    let fix upd (a : list (option N * ivl)) : list (option N * ivl) :=
        match a with
        | [] => [(k, i)]
        | (k', j) :: a' => if (match k, k' with Some x, Some y => N.eqb x y | None, None => true | _, _ => false end)
                           then (k', i) :: a' else (k', j) :: upd a'
        end in
    by_key r (upd acc)
  end.

Definition okey_eqb (k k' : option N) : bool :=
  match k, k' with Some x, Some y => N.eqb x y | None, None => true | _, _ => false end.
Fixpoint lookup_key (k : option N) (a : list (option N * ivl)) : option ivl :=
  match a with [] => None | (k', j) :: r => if okey_eqb k k' then Some j else lookup_key k r end.

(* _stitch_at(point, fresh_side); fresh_left = true takes the fields of the left fragment *)
Definition stitch_at (masked : bool) (p : Z) (fresh_left : bool) (sk : list ivl) : list ivl :=
  if masked then sk else
  let left := filter (fun i => oZ_eqb (en i) (Some p)) (sink_overlapping sk (p - 1)) in
  let right := filter (fun i => oZ_eqb (st i) (Some p)) (sink_overlapping sk p) in
  match left, right with
  | [], _ => sk
  | _, [] => sk
  | _, _ =>
    let lk := by_key left [] in
    let rk := by_key right [] in
    fold_left
      (fun sk0 kl =>
         let '(k, l) := kl in
         match k with
         | None => sk0
         | Some _ =>
           match lookup_key k rk with
           | None => sk0
           | Some r =>
             let fresh := if fresh_left then l else r in
             let merged := mkI (st l) (en r) (pl fresh) in
             sl_add merged (sl_remove r (sl_remove l sk0))
           end
         end)
      lk sk
  end.

(* the clipping loop of _fill_gap *)
Definition clip_to_gap (gs ge : Z) (i : ivl) : option ivl :=
  let cs := match st i with None => gs | Some x => if x <? gs then gs else x end in
  let ce := match en i with None => ge | Some y => if y >? ge then ge else y end in
  if cs >=? ce then None else Some (set_span i (Some cs) (Some ce)).

(* _fill_gap(gap_start, gap_end): [evs] is what source.fetch(gap_start, gap_end) returned *)
Definition fill_gap (masked : bool) (ttl tick : Z) (evs : list ivl) (gs ge : Z) (s : cstate) : cstate :=
  let sk1 := fold_left (fun sk i => match clip_to_gap gs ge i with Some j => sl_add j sk | None => sk end)
                       evs (sink s) in
  let t := now s in
  let c := mkCov gs ge t in
  let sq := N.succ (hseq s) in
  let sk2 := stitch_at masked gs false sk1 in
  let sk3 := stitch_at masked ge true sk2 in
  mkC sk3 (cov_add c (cover s)) (heap_push (t + ttl, sq, c) (heap s)) sq (t + tick).

(* the gaps: (timeline(Interval(start, end)) - self._cover).fetch(start, end) *)
Definition gaps_of (cv : list cov) (a b : Z) : list ivl :=
  diff_sweep [mkI (Some a) (Some b) Plain]
             [fetch_static (map cov_ivl cv) (Some a) (Some b) false].

(* CachedTimeline.fetch(start, end, reverse) with both bounds finite.
   [src gs ge] is the source's fetch.  Returns the new state, the result and the log of
   source fetches. *)
Definition cquery (masked : bool) (ttl tick : Z) (src : Z -> Z -> list ivl)
           (s : cstate) (a b : Z) (rv : bool) : cstate * list ivl * list (Z * Z * Z) :=
  let t := now s in
  let '(h1, cv1, sk1) := evict_go t (heap s) (cover s) (sink s) in
  let s1 := mkC sk1 cv1 h1 (hseq s) (t + tick) in
  let gaps := gaps_of cv1 a b in
  let '(s2, log) :=
      fold_left (fun acc g =>
                   let '(s0, lg) := acc in
                   let gs := fstart g in let ge := fend g in
                   (fill_gap masked ttl tick (src gs ge) gs ge s0, lg ++ [(now s0, gs, ge)]))
                gaps (s1, []) in
  (s2, fetch_static (sink s2) (Some a) (Some b) rv, log).

(* histories *)
Inductive cop :=
| CQuery (a b : Z) (rv : bool)       (* list(cached.fetch(a, b, reverse=rv)) *)
| CAdvance (d : Z)                   (* the clock moves on by d >= 0 *)
| CMutate.                           (* the source switches to its next version *)

(* source versions: version v of the event list re-tags every event id as key*KEYMOD + v *)
Definition retag (v : N) (i : ivl) : ivl :=
  match pl i with Rich id => mkI (st i) (en i) (Rich (N.div id KEYMOD * KEYMOD + v)) | Plain => i end.
Definition src_of (evs : list ivl) (v : N) (gs ge : Z) : list ivl :=
  fetch_static (sl_build (map (retag v) evs)) (Some gs) (Some ge) false.

(* r_logs: per query, the source fetches it made as (clock reading, start, end);
   r_evt: per query, the clock reading its eviction pass used; r_vers: the source version *)
Record crun := mkR { r_state : cstate; r_ver : N; r_outs : list (list ivl);
                     r_logs : list (list (Z * Z * Z)); r_evt : list Z; r_vers : list N }.

Definition cstep (masked : bool) (ttl tick : Z) (evs : list ivl) (r : crun) (o : cop) : crun :=
  match o with
  | CQuery a b rv =>
    let '(s', out, lg) := cquery masked ttl tick (src_of evs (r_ver r)) (r_state r) a b rv in
    mkR s' (r_ver r) (r_outs r ++ [out]) (r_logs r ++ [lg]) (r_evt r ++ [now (r_state r)]) (r_vers r ++ [r_ver r])
  | CAdvance d =>
    let s := r_state r in
    mkR (mkC (sink s) (cover s) (heap s) (hseq s) (now s + d)) (r_ver r) (r_outs r) (r_logs r) (r_evt r) (r_vers r)
  | CMutate => mkR (r_state r) (N.succ (r_ver r)) (r_outs r) (r_logs r) (r_evt r) (r_vers r)
  end.

Definition crun_all (masked : bool) (ttl tick t0 : Z) (evs : list ivl) (ops : list cop) : crun :=
  fold_left (cstep masked ttl tick evs) ops (mkR (cinit t0) 0%N [] [] [] []).
