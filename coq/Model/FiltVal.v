(* Model/FiltVal.v — a value-level model of calgebra/properties.py and of the Filter classes of
   calgebra/core.py: what the OBJECTS are (an Operator holds two operands and a binary function; Or / And
   hold a list of filters) and what their apply() computes, exceptions included.  Model/Expr.v's
   [filt] / [feval] is the total, Boolean reading of the same filters; [pf_of] is how the public API
   (prop >= k, one_of, has_any, has_all, f & g, f | g) builds each of them, and Proofs/GenEq_filt.v proves
   (1) the definitions generated from the source text equal the functions below, and
   (2) whenever the value-level evaluation completes (no TypeError, nothing outside the model),
       its result is feval's.
   No proofs here. *)
From CG Require Export Model.Expr Model.FiltLoop.

(* Python values that reach a filter: a field value or constant (fval: int, str, None, a tuple of strs read
   as an unordered collection), a float n/d (TRUSTED float reading: the exact rational, see Expr.v and
   DESIGN 5/C18), float('inf'), and a set of hashable constants (set(values) of one_of / has_any / has_all) *)
Inductive pyv := PyF (v : fval) | PyRat (n d : Z) | PyInf | PyVals (vs : list fval).

(* an operand of an Operator: a Property (inl) or any other value (inr) *)
Definition operand := (prop + pyv)%type.

(* Property.apply: Duration / Start / End / field(name) *)
Definition papply (env : fenv) (p : prop) (i : ivl) : pyv :=
  match p with
  | PDur scale => match st i, en i with
                  | Some s, Some e => PyRat (e - s) scale
                  | _, _ => PyInf
                  end
  | PStart => PyF (VInt (fstart i))
  | PEnd => PyF (VInt (fend i))
  | PField name => PyF (field_of env i name)
  end.

(* numbers: Some (Some (n, d)) = n/d, Some None = +inf, None = not a number *)
Definition pynum (v : pyv) : option (option (Z * Z)) :=
  match v with
  | PyF (VInt z) => Some (Some (z, 1))
  | PyRat n d => Some (Some (n, d))
  | PyInf => Some None
  | _ => None
  end.

(* comparison of two numbers by cross-multiplication (denominators are positive: scales) *)
Definition py_num_cmp (c : cmp) (a b : option (Z * Z)) : bool :=
  match a, b with
  | Some (x, dx), Some (y, dy) => cmpZ c (x * dy) (y * dx)
  | None, Some _ => match c with Ge | Gt | Ne => true | _ => false end
  | Some _, None => match c with Le | Lt | Ne => true | _ => false end
  | None, None => match c with Ge | Le | Eq => true | _ => false end
  end.

(* == on values of which at least one is not a number; never raises.  RSkip = outside the model:
   two collections (the model's VSet is unordered, the Python field is a tuple; set == set likewise) *)
Definition py_eq_r (a b : pyv) : res bool :=
  match a, b with
  | PyF (VSet _), PyF (VSet _) => RSkip
  | PyVals _, PyVals _ => RSkip
  | PyF x, PyF y => RDone (fval_eqb x y)
  | _, _ => RDone false
  end.

(* op.ge / le / gt / lt / eq / ne *)
Definition py_cmp_r (c : cmp) (a b : pyv) : res bool :=
  match pynum a, pynum b with
  | Some x, Some y => RDone (py_num_cmp c x y)
  | _, _ =>
    match c with
    | Eq => py_eq_r a b
    | Ne => match py_eq_r a b with RDone r => RDone (negb r) | other => other end
    | _ =>
      match a, b with
      | PyF (VStr _), PyF (VStr _) => RSkip         (* lexicographic order of two strings: not carried *)
      | PyF (VSet _), PyF (VSet _) => RSkip         (* order of two tuples *)
      | PyVals _, PyVals _ => RSkip                 (* subset order of two sets *)
      | _, _ => RRaise TypeError                    (* None, or values of two different kinds *)
      end
    end
  end.

(* op.contains(a, b) = `b in a` for a set a: some member == b *)
Definition py_contains_r (a b : pyv) : res bool :=
  match a with
  | PyVals vs => any_r (fun v => py_cmp_r Eq b (PyF v)) vs
  | _ => RSkip
  end.

(* _normalize_collection: a str is rejected, anything iterable becomes the set of its items *)
Definition py_is_strlike (v : pyv) : bool := match v with PyF (VStr _) => true | _ => false end.
Definition py_set_of_iterable (v : pyv) : option (list fval) :=
  match v with
  | PyF (VSet l) => Some (map VStr l)
  | PyVals vs => Some vs
  | _ => None
  end.
Definition normalize_collection (v : pyv) : res (list fval) :=
  if py_is_strlike v then RRaise TypeError
  else match py_set_of_iterable v with Some s => RDone s | None => RRaise TypeError end.

Definition fset_mem (x : fval) (s : list fval) : bool := existsb (fval_eqb x) s.
Definition fset_inter (a b : list fval) : list fval := filter (fun x => fset_mem x b) a.
Definition fset_issubset (a b : list fval) : bool := forallb (fun x => fset_mem x b) a.

(* the closures `check` of has_any / has_all *)
Definition has_any_op (vs : list fval) (a _b : pyv) : res bool :=
  res_bind (normalize_collection a) (fun c => RDone (nonempty (fset_inter vs c))).
Definition has_all_op (vs : list fval) (a _b : pyv) : res bool :=
  res_bind (normalize_collection a) (fun c => RDone (fset_issubset vs c)).

(* filter objects *)
Inductive pfilt :=
| PFOp (l r : operand) (o : pyv -> pyv -> res bool)        (* properties.Operator *)
| PFAnd (fs : list pfilt)                                   (* core.And *)
| PFOr (fs : list pfilt).                                   (* core.Or *)

Definition opnd_val (env : fenv) (x : operand) (i : ivl) : pyv :=
  match x with inl p => papply env p i | inr v => v end.

(* Filter.apply *)
Fixpoint pfeval (env : fenv) (f : pfilt) (i : ivl) : res bool :=
  match f with
  | PFOp l r o => o (opnd_val env l i) (opnd_val env r i)
  | PFAnd fs => all_r (fun g => pfeval env g i) fs
  | PFOr fs => any_r (fun g => pfeval env g i) fs
  end.

(* the objects the public API builds for the filters of Model/Expr.v:
     prop OP k, prop OP prop   Property.__ge__ ..           Operator(prop, other, op.OP)
     one_of(prop, vs)                                        Operator(set(vs), prop, op.contains)
     has_any(field(name), vs) / has_all                      Operator(field, None, check)
     f & g & .., f | g | ..    Filter.__and__ / __or__       And / Or (nested pairwise by the operators;
                                                              evaluation is the same as for the flat list) *)
Fixpoint pf_of (f : filt) : pfilt :=
  match f with
  | FCmp p c k => PFOp (inl p) (inr (PyF k)) (py_cmp_r c)
  | FCmpP p c q => PFOp (inl p) (inl q) (py_cmp_r c)
  | FOneOf p vs => PFOp (inr (PyVals vs)) (inl p) py_contains_r
  | FHasAny name vs => PFOp (inl (PField name)) (inr (PyF VNone)) (has_any_op (map VStr vs))
  | FHasAll name vs => PFOp (inl (PField name)) (inr (PyF VNone)) (has_all_op (map VStr vs))
  | FAnd fs => PFAnd (map pf_of fs)
  | FOr fs => PFOr (map pf_of fs)
  end.

(* Duration(unit).scale = SCALES[unit] *)
Definition scale_of_unit (u : dunit) : Z :=
  match u with USeconds => 1 | UMinutes => 60 | UHours => 3600 | UDays => 86400 end.
