(* Model/Recur.v — calgebra/recurrence.py (RecurringPattern) and the part of dateutil.rrule it
   drives, as executable Gallina.  The code is followed statement by statement; the repairs
   present in /repo (safe-anchor step-back loop, DST-gap normalisation, exdates matched on the
   interval start, per-chunk filter of the reverse pager) are modelled as they are now.
   No proofs here (Proofs/RecurP.v). *)
From CG Require Export Model.Base Model.Zone.

(* ------------------------------------------------------------------------------------------ *)
(* The rule: the arguments of RecurringPattern.__init__ after its own normalisation            *)

Inductive freq := Daily | Weekly | Monthly | Yearly.

Record rule := mkRule {
  r_freq : freq;
  r_interval : Z;
  r_byweekday : list (Z * option Z);  (* day=/week=: weekday 0=MO..6=SU, optional ordinal n   *)
  r_bymonthday : list Z;              (* day_of_month= (negative = from the end); [] = absent  *)
  r_bymonth : list Z;                 (* month=; [] = absent                                   *)
  r_bysetpos : list Z;                (* bysetpos=; [] = absent                                *)
  r_exdates : list Z;                 (* exdates= (start timestamps of excluded occurrences)   *)
  r_anchor : option Z;                (* self.anchor_timestamp                                 *)
  r_sod : Z;                          (* self.start_seconds                                    *)
  r_dur : Z;                          (* self.duration_seconds                                 *)
  r_zone : zone }.                    (* self.zone                                             *)

Definition freq_eqb (a b : freq) : bool :=
  match a, b with
  | Daily, Daily | Weekly, Weekly | Monthly, Monthly | Yearly, Yearly => true
  | _, _ => false
  end.

Definition is_nil {A} (l : list A) : bool := match l with [] => true | _ => false end.
Definition zmem (x : Z) (l : list Z) : bool := existsb (Z.eqb x) l.

(* [s; s+1; ...; s+n-1] *)
Fixpoint zseq_go (n : nat) (s : Z) : list Z :=
  match n with O => [] | S n' => s :: zseq_go n' (s + 1) end.
Definition zseq (s n : Z) : list Z := zseq_go (Z.to_nat n) s.

(* consecutive dates with their calendar fields, (day number, year, month, day): one conversion
   for the first, then a step to the next day (what dateutil's mmask / mdaymask tables are) *)
Definition cdate := (Z * Z * Z * Z)%type.
Definition cd_day (c : cdate) : Z := fst (fst (fst c)).
Definition cdate_of (d : Z) : cdate := let '(y, m, dd) := civil_from_days d in (d, y, m, dd).
Definition next_cdate (c : cdate) : cdate :=
  let '(d, y, m, dd) := c in
  if dd <? dim y m then (d + 1, y, m, dd + 1)
  else if m <? 12 then (d + 1, y, m + 1, 1)
  else (d + 1, y + 1, 1, 1).
Fixpoint cdates_go (n : nat) (c : cdate) : list cdate :=
  match n with O => [] | S n' => c :: cdates_go n' (next_cdate c) end.
Definition cdates (s n : Z) : list cdate := cdates_go (Z.to_nat n) (cdate_of s).

(* ------------------------------------------------------------------------------------------ *)
(* dateutil.rrule restricted to freq in {YEARLY..DAILY}, interval, bymonth, bymonthday,        *)
(* byweekday (plain and n-th), bysetpos; wkst = MO; dtstart = a local date at midnight.        *)

(* rrule.__init__: the rule with the defaults taken from dtstart and the weekdays split into
   plain ones and (weekday, n) pairs *)
Record rr := mkRR {
  q_freq : freq; q_interval : Z; q_dtstart : Z;     (* dtstart as a day number *)
  q_bymonth : list Z;
  q_bymonthday : list Z;                            (* the positive ones *)
  q_bynmonthday : list Z;                           (* the negative ones *)
  q_byweekday : list Z;
  q_bynweekday : list (Z * Z);
  q_bysetpos : list Z }.

Definition rr_init (f : freq) (interval : Z) (byweekday : list (Z * option Z))
           (bymonthday bymonth bysetpos : list Z) (dtstart : Z) : rr :=
  let '(_, m, d) := civil_from_days dtstart in
  (* "if byweekno is None and byyearday is None and bymonthday is None and byweekday is None" *)
  let nodr := is_nil byweekday && is_nil bymonthday in
  let bymonth' := if nodr && freq_eqb f Yearly && is_nil bymonth then [m] else bymonth in
  let bymonthday' := if nodr && (freq_eqb f Yearly || freq_eqb f Monthly) then [d] else bymonthday in
  let byweekday' := if nodr && freq_eqb f Weekly then [(weekday dtstart, None)] else byweekday in
  (* "elif not wday.n or freq > MONTHLY: plain, else (weekday, n)" *)
  let plain (e : Z * option Z) : bool :=
      match snd e with
      | None => true
      | Some n => (n =? 0) || freq_eqb f Weekly || freq_eqb f Daily
      end in
  mkRR f interval dtstart bymonth'
       (filter (fun x => 0 <? x) bymonthday') (filter (fun x => x <? 0) bymonthday')
       (map fst (filter plain byweekday'))
       (flat_map (fun e => if plain e then [] else
                             match snd e with Some n => [(fst e, n)] | None => [] end) byweekday')
       bysetpos.

(* the loop variable of rrule._iter: (year, month, day), kept in the normal form of the period
   it designates *)
Inductive pstate :=
| PDay (d : Z)          (* DAILY: the day *)
| PWeek (s : Z)         (* WEEKLY: first day of the (possibly truncated first) week *)
| PMonth (am : Z)       (* MONTHLY: year*12 + month-1 *)
| PYear (y : Z).        (* YEARLY *)

Definition init_state (q : rr) : pstate :=
  let '(y, m, _) := civil_from_days (q_dtstart q) in
  match q_freq q with
  | Daily => PDay (q_dtstart q)
  | Weekly => PWeek (q_dtstart q)
  | Monthly => PMonth (y * 12 + m - 1)
  | Yearly => PYear y
  end.

(* "Handle frequency and interval" (wkst = 0: day += -(weekday - wkst) + interval*7) *)
Definition next_state (q : rr) (st : pstate) : pstate :=
  match st with
  | PDay d => PDay (d + q_interval q)
  | PWeek s => PWeek (s - weekday s + 7 * q_interval q)
  | PMonth am => PMonth (am + q_interval q)
  | PYear y => PYear (y + q_interval q)
  end.

Definition month_first (y m : Z) : Z := days_from_civil y m 1.
Definition month_last (y m : Z) : Z := days_from_civil y m 1 + dim y m - 1.

(* ydayset / mdayset / wdayset / ddayset: first day and number of days of the period *)
Definition period_span (st : pstate) : Z * Z :=
  match st with
  | PDay d => (d, 1)
  | PWeek s => (s, 7 - weekday s)                 (* up to, not including, the next Monday *)
  | PMonth am => let y := am / 12 in let m := am mod 12 + 1 in (month_first y m, dim y m)
  | PYear y => (days_from_civil y 1 1, diy y)
  end.

(* _iterinfo.rebuild, nwdaymask: the n-th weekday wd inside [first, last] *)
Definition nth_in_range (first last wd n : Z) : list Z :=
  let i :=
      if n <? 0 then
        let i0 := last + (n + 1) * 7 in i0 - (weekday i0 - wd) mod 7
      else
        let i0 := first + (n - 1) * 7 in i0 + (7 - weekday i0 + wd) mod 7 in
  if (first <=? i) && (i <=? last) then [i] else [].

Definition nw_ranges (q : rr) (st : pstate) : list (Z * Z) :=
  match st with
  | PYear y =>
    if is_nil (q_bymonth q) then [(days_from_civil y 1 1, days_from_civil y 1 1 + diy y - 1)]
    else map (fun m => (month_first y m, month_last y m)) (q_bymonth q)
  | PMonth am => let y := am / 12 in let m := am mod 12 + 1 in [(month_first y m, month_last y m)]
  | _ => []
  end.

Definition nwdays (q : rr) (st : pstate) : list Z :=
  flat_map (fun r => flat_map (fun e => nth_in_range (fst r) (snd r) (fst e) (snd e))
                              (q_bynweekday q))
           (nw_ranges q st).

(* the big "if" of _iter that sets dayset[i] = None *)
Definition day_ok (q : rr) (nwd : list Z) (c : cdate) : bool :=
  let '(d, y, m, dd) := c in
  (is_nil (q_bymonth q) || zmem m (q_bymonth q)) &&
  (is_nil (q_byweekday q) || zmem (weekday d) (q_byweekday q)) &&
  (is_nil (q_bynweekday q) || zmem d nwd) &&
  ((is_nil (q_bymonthday q) && is_nil (q_bynmonthday q)) ||
   zmem dd (q_bymonthday q) || zmem (dd - dim y m - 1) (q_bynmonthday q)).

(* "if bysetpos and timeset": one time per day, so daypos = pos (pos < 0) or pos - 1; Python
   list indexing with a negative index; IndexError = no result; duplicates dropped, sorted *)
Definition setpos_select (cand : list Z) (pos : list Z) : list Z :=
  let len := Z.of_nat (length cand) in
  let idxs := map (fun p => if p <? 0 then len + p else p - 1) pos in
  map snd (filter (fun x => zmem (fst x) idxs) (combine (zseq 0 len) cand)).

(* the occurrences (day numbers, ascending) one pass of the "while True" yields *)
Definition period_occ (q : rr) (st : pstate) : list Z :=
  let '(s, n) := period_span st in
  let nwd := nwdays q st in
  let cand := map cd_day (filter (day_ok q nwd) (cdates s n)) in
  let sel := if is_nil (q_bysetpos q) then cand else setpos_select cand (q_bysetpos q) in
  filter (fun d => q_dtstart q <=? d) sel.                        (* res >= self._dtstart *)

(* the first [n] periods' occurrences: list(itertools.islice(rrule(...), k)) is a prefix of it *)
Fixpoint rrule_periods (q : rr) (st : pstate) (n : nat) : list Z :=
  match n with
  | O => []
  | S n' => period_occ q st ++ rrule_periods q (next_state q st) n'
  end.

Definition rrule_model (q : rr) (nperiods : nat) : list Z := rrule_periods q (init_state q) nperiods.

(* ------------------------------------------------------------------------------------------ *)
(* RecurringPattern                                                                            *)

Definition rr_of (r : rule) (dtstart : Z) : rr :=
  rr_init (r_freq r) (r_interval r) (r_byweekday r) (r_bymonthday r) (r_bymonth r) (r_bysetpos r)
          dtstart.

(* datetime.fromtimestamp(ts, tz=self.zone).date() *)
Definition local_day (z : zone) (t : Z) : Z := wall_day (utc_to_wall z t).

(* base_anchor.date(): the anchor's local date, else 1970-01-01, else Monday 1969-12-29 *)
Definition base_day (r : rule) : Z :=
  match r_anchor r with
  | Some t => local_day (r_zone r) t
  | None => match r_freq r with Weekly => -3 | _ => 0 end
  end.

(* the "while True: try: return base_anchor.replace(...) except ValueError" loops; None = the
   ValueError is re-raised (year < 1) or the explicit fuel is used up *)
Fixpoint month_back (fuel : nat) (interval bd abs : Z) : option Z :=
  let year := abs / 12 in
  let month := abs mod 12 + 1 in
  if (1 <=? year) && (bd <=? dim year month) then Some (days_from_civil year month bd)
  else if year <? 1 then None
  else match fuel with
       | O => None
       | S f => month_back f interval bd (abs - interval)
       end.

Fixpoint year_back (fuel : nat) (interval bm bd year : Z) : option Z :=
  if (1 <=? year) && (bd <=? dim year bm) then Some (days_from_civil year bm bd)
  else if year <? 1 then None
  else match fuel with
       | O => None
       | S f => year_back f interval bm bd (year - interval)
       end.

Definition BACK_FUEL : nat := 2000.

(* _get_safe_anchor(start_dt), then .replace(hour=0, ...): the rrule's dtstart as a day number;
   [sd] is start_dt.date() *)
Definition safe_anchor (r : rule) (sd : Z) : option Z :=
  let base := base_day r in
  let k := r_interval r in
  match r_freq r with
  | Daily =>
    let delta_days := sd - base in
    let offset := delta_days mod k in
    Some (base + (delta_days - offset))
  | Weekly =>
    let delta_days := sd - base in
    let weeks := delta_days / 7 in
    let offset := weeks mod k in
    Some (base + 7 * (weeks - offset))
  | Monthly =>
    let '(by_, bm, bd) := civil_from_days base in
    let '(sy, sm, _) := civil_from_days sd in
    let total_months := (sy - by_) * 12 + (sm - bm) in
    let offset := total_months mod k in
    let target_total := total_months - offset in
    let abs_total := (by_ * 12 + bm - 1) + target_total in
    month_back BACK_FUEL k bd abs_total
  | Yearly =>
    let '(by_, bm, bd) := civil_from_days base in
    let '(sy, _, _) := civil_from_days sd in
    let delta_years := sy - by_ in
    let offset := delta_years mod k in
    year_back BACK_FUEL k bm bd (sy - offset)
  end.

Definition period_secs (f : freq) : Z :=
  match f with Daily => DAY | Weekly => 7 * DAY | Monthly => 32 * DAY | Yearly => 366 * DAY end.

Definition lookback_buffer (r : rule) : Z := r_dur r + r_interval r * period_secs (r_freq r).

(* _occurrence_to_interval; None = occurrence.replace(hour=...) raises ValueError (start_seconds
   outside 0..86399 — not reachable from an accepted pattern: __init__ takes start_seconds from a
   datetime's h:m:s or rejects an int time of day outside [0, 86400), see rule_accepted) *)
Definition occurrence_to_interval (r : rule) (d : Z) : option ivl :=
  if (r_sod r <? 0) || (DAY <=? r_sod r) then None
  else
    let z := r_zone r in
    let ws := mk_wall d (r_sod r) in                       (* occurrence.replace(h, m, s), fold=0 *)
    let ts := wall_to_utc z ws false in                    (* window_start.timestamp() *)
    let ws' := utc_to_wall z ts in                         (* datetime.fromtimestamp(ts, tz) *)
    let te := wall_to_utc z (ws' + r_dur r) false in       (* (window_start + timedelta).timestamp() *)
    Some (mkI (Some ts) (Some te) Plain).

(* what __init__ guarantees about the fields the fetch code relies on *)
Definition rule_accepted (r : rule) : Prop := 0 <= r_sod r < DAY.

(* what is assumed of a zone table (checked on every exported table by the harness, part "zones"):
   any two of its UTC offsets differ by at most half a day — true of all of tzdata except the
   date-line jumps (Pacific/Apia 2011, Kwajalein 1993, ...) *)
Definition zone_offsets (z : zone) : list Z := off0 z :: map snd (trans z).
Definition zone_spread_ok (z : zone) : bool :=
  forallb (fun o => forallb (fun o' => 2 * (o - o') <=? DAY) (zone_offsets z)) (zone_offsets z).

(* results of a fetch *)
Inductive fres := Ok (l : list ivl) | Raised | OutOfFuel.

(* the body of "for occurrence in rules" over one period's occurrences:
   (yielded so far in this period, true = break reached, None = raised) *)
Fixpoint stream_period (r : rule) (a b : Z) (occ : list Z) : option (list ivl * bool) :=
  match occ with
  | [] => Some ([], false)
  | d :: rest =>
    match occurrence_to_interval r d with
    | None => None
    | Some i =>
      if zmem (fstart i) (r_exdates r) then stream_period r a b rest        (* continue *)
      else if fend i <=? a then stream_period r a b rest                    (* continue *)
      else if b <? fstart i then Some ([], true)                            (* break *)
      else match stream_period r a b rest with
           | Some (l, stop) => Some (i :: l, stop)
           | None => None
           end
    end
  end.

Fixpoint stream_go (fuel : nat) (r : rule) (q : rr) (a b : Z) (st : pstate) : fres :=
  match fuel with
  | O => OutOfFuel
  | S f =>
    match stream_period r a b (period_occ q st) with
    | None => Raised
    | Some (l, true) => Ok l
    | Some (l, false) =>
      match stream_go f r q a b (next_state q st) with
      | Ok l' => Ok (l ++ l')
      | x => x
      end
    end
  end.

(* number of periods to visit: those between the dtstart and the end of the window, plus what a
   sparse rule may need to produce the first occurrence beyond the window (SLACK_DAYS of
   calendar) *)
Definition SLACK_DAYS : Z := 16000.
Definition period_min_days (f : freq) : Z :=
  match f with Daily => 1 | Weekly => 7 | Monthly => 28 | Yearly => 365 end.
Definition fuel_for (r : rule) (dtstart : Z) (b : Z) : nat :=
  let span := Z.max 0 (local_day (r_zone r) b - dtstart) + SLACK_DAYS in
  Z.to_nat (span / (r_interval r * period_min_days (r_freq r)) + 3).

(* _fetch_forward(start=a, end=b), both finite *)
Definition fetch_forward (r : rule) (a b : Z) : fres :=
  let lookback_start_ts := a - lookback_buffer r in
  let sd := local_day (r_zone r) lookback_start_ts in
  match safe_anchor r sd with
  | None => Raised
  | Some dtstart =>
    let q := rr_of r dtstart in
    stream_go (fuel_for r dtstart b) r q a b (init_state q)
  end.

(* _fetch_reverse(start=a, end=b) *)
Definition chunk_size (f : freq) : Z :=
  match f with Daily => 30 * DAY | Weekly => 12 * 7 * DAY | Monthly => 365 * DAY | Yearly => 5 * 365 * DAY end.

Fixpoint reverse_go (fuel : nat) (r : rule) (effective_start : Z) (start : option Z) (end_ : Z)
         (current_end : Z) : fres :=
  if current_end <=? effective_start then Ok []                     (* while current_end > effective_start *)
  else
    match fuel with
    | O => OutOfFuel
    | S f =>
      let chunk_start := Z.max effective_start (current_end - chunk_size (r_freq r)) in
      match fetch_forward r chunk_start current_end with
      | Ok l =>
        let chunk :=
            filter (fun i => ((fstart i <? current_end) || (current_end =? end_)) &&
                             ((chunk_start <=? fstart i) || (chunk_start =? effective_start))) l in
        let current_end' := chunk_start in
        let stop := match start with Some s => current_end' <=? s | None => false end in
        if stop then Ok (rev chunk)
        else match reverse_go f r effective_start start end_ current_end' with
             | Ok l' => Ok (rev chunk ++ l')
             | x => x
             end
      | x => x
      end
    end.

Definition fetch_reverse_opt (r : rule) (start : option Z) (end_ : Z) : fres :=
  let effective_start := match start with Some s => s | None => end_ - 10 * 365 * DAY end in
  let nchunks := Z.max 0 (end_ - effective_start) / chunk_size (r_freq r) + 2 in
  reverse_go (Z.to_nat nchunks) r effective_start start end_ end_.

Definition fetch_reverse (r : rule) (a b : Z) : fres := fetch_reverse_opt r (Some a) b.

(* fetch(start, end, reverse=...) with finite bounds *)
Definition fetch_rec (r : rule) (a b : Z) (reverse : bool) : fres :=
  if reverse then fetch_reverse r a b else fetch_forward r a b.
