(* Model/Small.v — the small pieces of calgebra the third extension of tie C covers (tag "small"):
   Interval.__post_init__ / duration / from_datetimes (interval.py); the objects the constructors
   of core.py / transform.py / cache.py build (records of the stored fields) and their decoding
   into the expressions of Model/Expr.v; the operand kinds of | and &; _get_key.  No proofs here.
   (Imported, not exported: Gen/Source.v imports this file last, and only these names.) *)
From CG Require Import Model.Slice Model.Cache Model.Loop.

(* ------------------------------------------------------------------------------------ *)
(* interval.py *)

(* Interval.__post_init__: both bounds finite and start > end is a ValueError *)
Definition post_init (i : ivl) : res unit :=
  match st i, en i with
  | Some s, Some e => if s >? e then RRaise ValueError else RDone tt
  | _, _ => RDone tt
  end.

(* Interval.duration *)
Definition ivl_duration (i : ivl) : option Z :=
  match st i, en i with Some s, Some e => Some (e - s) | _, _ => None end.

(* a datetime argument: aware, denoting the instant t = int(x.timestamp()), or naive *)
Inductive dtarg := DAware (t : Z) (zone : N) | DNaive.

(* the dataclass constructor cls(start=s, end=e, **kwargs): the fields are stored, then
   __post_init__ runs ([p] stands for the keyword arguments: the payload) *)
Definition new_interval (check : ivl -> res unit) (p : payload) (s e : Z) : res ivl :=
  res_bind (check (mkI (Some s) (Some e) p)) (fun _ => RDone (mkI (Some s) (Some e) p)).

(* Interval.from_datetimes *)
Definition from_datetimes (p : payload) (a b : dtarg) : res ivl :=
  match a, b with
  | DAware s _, DAware e _ => if s >? e then RRaise ValueError else RDone (mkI (Some s) (Some e) p)
  | _, _ => RRaise ValueError
  end.

(* ------------------------------------------------------------------------------------ *)
(* the objects the constructors build: one record per class, a field per stored attribute;
   TL is the type of timelines, FT of filters *)

Record bufrec (TL : Type) := mkBuf { bf_source : TL; bf_before : Z; bf_after : Z }.
Arguments mkBuf {TL}. Arguments bf_source {TL}. Arguments bf_before {TL}. Arguments bf_after {TL}.
Record mwrec (TL : Type) := mkMW { mw_source : TL; mw_gap : Z }.
Arguments mkMW {TL}. Arguments mw_source {TL}. Arguments mw_gap {TL}.
(* Union and Intersection: self.sources *)
Record srcsrec (TL : Type) := mkSrcs { ss_sources : list TL }.
Arguments mkSrcs {TL}. Arguments ss_sources {TL}.
Record filtrec (TL FT : Type) := mkFilt { fl_source : TL; fl_filter : FT }.
Arguments mkFilt {TL FT}. Arguments fl_source {TL FT}. Arguments fl_filter {TL FT}.
Record diffrec (TL : Type) := mkDiff { df_source : TL; df_subtractors : list TL }.
Arguments mkDiff {TL}. Arguments df_source {TL}. Arguments df_subtractors {TL}.
Record complrec (TL : Type) := mkCompl { cp_source : TL }.
Arguments mkCompl {TL}. Arguments cp_source {TL}.

(* the operand of | and &: a timeline or a filter *)
Inductive operand (TL FT : Type) := OTimeline (tl : TL) | OFilter (f : FT).
Arguments OTimeline {TL FT}. Arguments OFilter {TL FT}.

(* decoding into the expressions of Model/Expr.v *)
Definition buf_expr (r : bufrec expr) : expr := Buf (bf_source r) (bf_before r) (bf_after r).
Definition mw_expr (r : mwrec expr) : expr := MergeW (mw_source r) (mw_gap r).
Definition union_expr (r : srcsrec expr) : expr := Union (ss_sources r).
Definition inter_expr (r : srcsrec expr) : expr := Inter (ss_sources r).
Definition filt_expr (r : filtrec expr filt) : expr := Filt (fl_source r) (fl_filter r).
Definition diff_expr (r : diffrec expr) : expr := Diff (df_source r) (df_subtractors r).
Definition compl_expr (r : complrec expr) : expr := Compl (cp_source r).

(* isinstance(x, Union) / isinstance(x, Intersection) / x.sources on expressions *)
Definition is_union (e : expr) : bool := match e with Union _ => true | _ => false end.
Definition is_inter (e : expr) : bool := match e with Inter _ => true | _ => false end.
Definition expr_sources (e : expr) : list expr := match e with Union l => l | Inter l => l | _ => [] end.

(* _flatten_sources *)
Definition flatten_sources {TL : Type} (is_cls : TL -> bool) (srcs : TL -> list TL) (l : list TL) : list TL :=
  flat_map (fun s => if is_cls s then srcs s else [s]) l.

(* ------------------------------------------------------------------------------------ *)
(* cache.py *)

(* the `key` argument of CachedTimeline: one field name or a sequence of them (names are numbers) *)
Inductive keyarg := KStr (s : N) | KSeq (l : list N).
Definition keys_of (k : keyarg) : list N := match k with KStr s => [s] | KSeq l => l end.

(* the object CachedTimeline.__init__ builds (the lock is not part of the modelled state) *)
Record cacherec (TL : Type) := mkCacheRec {
  cr_source : TL; cr_ttl : Z; cr_key_fields : option (list N); cr_key_validated : bool;
  cr_sink : list ivl; cr_cover : list cov; cr_heap : list hent; cr_seq : N }.
Arguments mkCacheRec {TL}. Arguments cr_source {TL}. Arguments cr_ttl {TL}. Arguments cr_key_fields {TL}.
Arguments cr_key_validated {TL}. Arguments cr_sink {TL}. Arguments cr_cover {TL}. Arguments cr_heap {TL}.
Arguments cr_seq {TL}.

(* the cache state of Model/Cache.v held by such an object, at clock reading t *)
Definition cache_state {TL : Type} (r : cacherec TL) (t : Z) : cstate :=
  mkC (cr_sink r) (cr_cover r) (cr_heap r) (cr_seq r) t.
(* the flag `masked` of Model/Cache.v: the key fields are None *)
Definition cache_masked {TL : Type} (r : cacherec TL) : bool := is_none (cr_key_fields r).

(* all the values, or None when one is missing (a generator consumed left to right by tuple()) *)
Fixpoint opt_all {A : Type} (l : list (option A)) : option (list A) :=
  match l with
  | [] => Some []
  | None :: _ => None
  | Some v :: r => match opt_all r with Some vs => Some (v :: vs) | None => None end
  end.

(* CachedTimeline._get_key: None for a mask cache, else the tuple of the key fields' values;
   a missing field is a TypeError *)
Definition get_key {FV : Type} (kf : option (list N)) (getattr : ivl -> N -> option FV) (i : ivl)
  : res (option (list FV)) :=
  match kf with
  | None => RDone None
  | Some fs => match opt_all (map (getattr i) fs) with
               | Some vs => RDone (Some vs)
               | None => RRaise TypeError
               end
  end.
