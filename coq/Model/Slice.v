(* Model/Slice.v — Timeline.__getitem__ in full: bound coercion (_coerce_bound), step
   validation, then the slice of Model/Expr.v; and the operator typing rules of
   Timeline.__or__/__and__ and Filter.__or__/__and__.  No proofs here. *)
From CG Require Export Model.Expr.

Inductive pyerr := TypeError | ValueError.

(* what a slice bound can be *)
Inductive bound :=
| BNone                              (* None *)
| BInt (z : Z)                       (* int: Unix seconds *)
| BAware (t : Z) (zone : N)          (* timezone-aware datetime denoting the whole-second instant t, in any zone *)
| BNaive                             (* naive datetime *)
| BOther.                            (* anything else: float, str, date, ... *)

Definition coerce_bound (b : bound) : pyerr + option Z :=
  match b with
  | BNone => inr None
  | BInt z => inr (Some z)
  | BAware t _ => inr (Some t)        (* int(bound.timestamp()) *)
  | BNaive => inl TypeError
  | BOther => inl TypeError
  end.

Inductive stepv := SNone | SInt (z : Z) | SOther.

(* returns the reverse flag *)
Definition check_step (s : stepv) : pyerr + bool :=
  match s with
  | SNone => inr false
  | SInt z => if z =? 1 then inr false else if z =? -1 then inr true else inl ValueError
  | SOther => inl ValueError
  end.

Definition getitem (env : fenv) (e : expr) (a b : bound) (s : stepv) : pyerr + list ivl :=
  match coerce_bound a with
  | inl x => inl x
  | inr a' =>
    match coerce_bound b with
    | inl x => inl x
    | inr b' =>
      match check_step s with
      | inl x => inl x
      | inr rv => inr (slice env e a' b' rv)
      end
    end
  end.

(* operand kinds for | and & *)
Inductive okind := KTimeline | KFilter.
Definition or_kind (l r : okind) : pyerr + okind :=
  match l, r with
  | KTimeline, KTimeline => inr KTimeline
  | KFilter, KFilter => inr KFilter
  | _, _ => inl TypeError
  end.
Definition and_kind (l r : okind) : pyerr + okind :=
  match l, r with
  | KFilter, KFilter => inr KFilter
  | _, _ => inr KTimeline            (* timeline & filter, filter & timeline: a filtered timeline *)
  end.

(* transform.buffer(timeline, before=.., after=..): negative amounts are rejected with
   ValueError when the buffer is BUILT, whatever the operand is (a buffered timeline included) *)
Definition buffer_ (e : expr) (before after : Z) : pyerr + expr :=
  if (before <? 0) || (after <? 0) then inl ValueError else inr (Buf e before after).

(* buffer(buffer(... buffer(e, b1, a1) ..., b2, a2) ...): innermost amounts first *)
Fixpoint buffer_chain (e : expr) (amts : list (Z * Z)) : pyerr + expr :=
  match amts with
  | [] => inr e
  | (b, a) :: r => match buffer_ e b a with inl x => inl x | inr e' => buffer_chain e' r end
  end.
