(* Model/Civil.v — proleptic Gregorian calendar arithmetic (what datetime.date does):
   day number <-> (year, month, day), weekday, month length.  Day 0 = 1970-01-01.
   No proofs here (Proofs/CivilP.v). *)
From Coq Require Export ZArith List Bool.
Export ListNotations.
Open Scope Z_scope.

Definition is_leap (y : Z) : bool :=
  ((y mod 4 =? 0) && negb (y mod 100 =? 0)) || (y mod 400 =? 0).

(* days in month *)
Definition dim (y m : Z) : Z :=
  if m =? 2 then (if is_leap y then 29 else 28)
  else if (m =? 4) || (m =? 6) || (m =? 9) || (m =? 11) then 30 else 31.

Definition diy (y : Z) : Z := if is_leap y then 366 else 365.

Definition days_from_civil (y m d : Z) : Z :=
  let y' := if m <=? 2 then y - 1 else y in
  let era := y' / 400 in
  let yoe := y' - era * 400 in
  let mp := if m >? 2 then m - 3 else m + 9 in
  let doy := (153 * mp + 2) / 5 + d - 1 in
  let doe := yoe * 365 + yoe / 4 - yoe / 100 + doy in
  era * 146097 + doe - 719468.

Definition civil_from_days (z0 : Z) : Z * Z * Z :=
  let z := z0 + 719468 in
  let era := z / 146097 in
  let doe := z - era * 146097 in
  let yoe := (doe - doe / 1460 + doe / 36524 - doe / 146096) / 365 in
  let y := yoe + era * 400 in
  let doy := doe - (365 * yoe + yoe / 4 - yoe / 100) in
  let mp := (5 * doy + 2) / 153 in
  let d := doy - (153 * mp + 2) / 5 + 1 in
  let m := if mp <? 10 then mp + 3 else mp - 9 in
  (if m <=? 2 then y + 1 else y, m, d).

(* date.weekday(): Monday = 0 ... Sunday = 6; 1970-01-01 was a Thursday *)
Definition weekday (days : Z) : Z := (days + 3) mod 7.

Definition year_of (days : Z) : Z := fst (fst (civil_from_days days)).
Definition month_of (days : Z) : Z := snd (fst (civil_from_days days)).
Definition day_of (days : Z) : Z := snd (civil_from_days days).

(* a valid calendar date *)
Definition valid_date (y m d : Z) : bool := (1 <=? m) && (m <=? 12) && (1 <=? d) && (d <=? dim y m).

Definition DAY : Z := 86400.
