(* Model/MemSrc.v — the model side of tie C for calgebra/mutable/memory.py and the dispatch of
   calgebra/mutable/__init__.py (Proofs/GenEq_mem.v): how Model/Mem.v's representation instantiates the
   abstract operations of the generated definitions (Gen/Source.v), and the model functions Model/Mem.v
   did not have: the WriteResult lists, the batch operations (_remove_many, _remove_many_series, _add_many),
   the dispatch of add / remove / remove_series on the kind of argument, the metadata dictionaries of
   _add_interval / _add_recurring.  Existing model functions are not changed.  No proofs here. *)
From CG Require Export Model.Mem Model.LoopMem.

(* ---- the abstract operations on stored patterns, at the model's representation (pat, N, list Z) ---- *)
(* getattr(interval, "recurring_event_id", None): series 0 stands for "no id" *)
Definition m_rid (ev : ivl) : option N := if N.eqb (series_of ev) 0 then None else Some (series_of ev).
(* truthiness of an id: the model's ids are non-empty strings *)
Definition m_truthy (_ : N) : bool := true.
(* pattern.fetch(a, b, reverse=rv), used with finite bounds only *)
Definition m_pfetch (p : pat) (a b : option Z) (rv : bool) : list ivl :=
  let l := pat_fetch p (ozd a) (ozd b) in if rv then rev l else l.
Definition m_exdates (p : pat) : list Z := p_ex p.
Definition m_exs_add (l : list Z) (t : Z) : list Z := t :: l.
Definition m_set_exdates (p : pat) (l : list Z) : pat :=
  mkP (p_ser p) (p_period p) (p_phase p) (p_dur p) l (p_tag p).
(* self._recurring_patterns: the (id, pattern) pairs *)
Definition ents (l : list pat) : list (N * pat) := map (fun p => (p_ser p, p)) l.

(* ---- WriteResults ---- *)
(* of _remove_interval / _remove_recurring_instance: the event is handed back either way *)
Definition wr_rm (ev : ivl) (ok : bool) : wres := mkWR ok (Some ev) (if ok then None else Some ValueError).
(* of the series branch of _remove_series, and of _add_recurring: no event *)
Definition wr_noev (ok : bool) : wres := mkWR ok None (if ok then None else Some ValueError).

Definition flag_of (r : mstate * (list bool * list ivl)) : bool := hd false (fst (snd r)).

(* remove(interval) / remove_series(interval) with their WriteResults, from Model/Mem.v's mstep *)
Definition mremove (s : mstate) (ev : ivl) : mstate * list wres :=
  let r := mstep s (MRemove ev) in (fst r, [wr_rm ev (flag_of r)]).
Definition mremove_series (s : mstate) (ev : ivl) : mstate * list wres :=
  let r := mstep s (MRemoveSeries ev) in
  (fst r, [if N.eqb (series_of ev) 0 then wr_rm ev (flag_of r) else wr_noev (flag_of r)]).

(* the batch forms: one item after the other, the results concatenated *)
Fixpoint mfold {S A W : Type} (f : S -> A -> S * list W) (s : S) (xs : list A) : S * list W :=
  match xs with
  | [] => (s, [])
  | x :: r => let '(s1, w1) := f s x in let '(s2, w2) := mfold f s1 r in (s2, w1 ++ w2)
  end.
Definition mremove_many : mstate -> list ivl -> mstate * list wres := mfold mremove.
Definition mremove_many_series : mstate -> list ivl -> mstate * list wres := mfold mremove_series.

(* ---- the dispatch of MutableTimeline.remove / remove_series / add on the kind of argument ---- *)
Definition mremove_any (s : mstate) (x : remitem) : mstate * list wres :=
  match x with RIvl i => mremove s i | RMany l => mremove_many s l end.
Definition mremove_series_any (s : mstate) (x : remitem) : mstate * list wres :=
  match x with RIvl i => mremove_series s i | RMany l => mremove_many_series s l end.

(* the default batch forms of MutableTimeline over any backend state are [mfold] of the single operation;
   _add_many merges each interval's own fields under the keyword arguments first *)
Definition madd_many {ST K V : Type} (eqb : K -> K -> bool) (vars_of : ivl -> list (K * option V))
           (add_interval : ST -> ivl -> list (K * option V) -> ST * list wres)
           (st0 : ST) (evs : list ivl) (kw : list (K * option V)) : ST * list wres :=
  mfold (fun s i => add_interval s i (dict_update eqb (vars_of i) kw)) st0 evs.

(* add(item, **kw): dispatch on the kind of item; a Timeline that is not a RecurringPattern is refused *)
Definition madd_dispatch {ST PAT K V : Type} (eqb : K -> K -> bool) (vars_of : ivl -> list (K * option V))
           (add_interval : ST -> ivl -> list (K * option V) -> ST * list wres)
           (add_recurring : ST -> PAT -> list (K * option V) -> ST * list wres)
           (add_many : ST -> list ivl -> list (K * option V) -> ST * list wres)
           (st0 : ST) (item : additem PAT) (kw : list (K * option V)) : res (ST * list wres) :=
  match item with
  | AIvl i => RDone (add_interval st0 i (dict_update eqb (vars_of i) kw))
  | APat p => RDone (add_recurring st0 p kw)
  | ATimeline => RRaise ValueError
  | AMany l => RDone (add_many st0 l kw)
  end.

(* ---- metadata ---- *)
(* container-level metadata fills in the fields that are missing or None (in the container's order) *)
Definition fill_defaults {K V : Type} (eqb : K -> K -> bool) (container d : list (K * option V)) : list (K * option V) :=
  fold_left (fun m kv => if is_none (dict_get_opt eqb (fst kv) m) then dict_set eqb (fst kv) (snd kv) m else m)
            container d.

(* MemoryTimeline._add_interval: the event that is stored, the store afterwards, the WriteResult *)
Definition stored_event {K V : Type} (eqb : K -> K -> bool) (replace_fields : ivl -> list (K * option V) -> ivl)
           (container : list (K * option V)) (i : ivl) (md : list (K * option V)) : ivl :=
  let merged := fill_defaults eqb container md in
  if nonempty merged then replace_fields i merged else i.
Definition madd_interval {K V : Type} (eqb : K -> K -> bool) (replace_fields : ivl -> list (K * option V) -> ivl)
           (container : list (K * option V)) (static : list ivl) (i : ivl) (md : list (K * option V)) : list ivl * list wres :=
  let ev := stored_event eqb replace_fields container i md in
  (sl_add ev static, [mkWR true (Some ev) None]).

(* MemoryTimeline._add_recurring: the metadata of the stored pattern — the pattern's own, container defaults
   for what is missing or None, then the keyword arguments, then (if the event class has that field) the new
   recurring_event_id — and the new entry *)
Definition recurring_metadata {ID PAT K V : Type} (eqb : K -> K -> bool) (pattern_metadata : PAT -> list (K * option V))
           (class_has_annotations : PAT -> bool) (class_annotations : PAT -> list K) (krid : K) (val_of_id : ID -> V)
           (container : list (K * option V)) (p : PAT) (kw : list (K * option V)) (id : ID) : list (K * option V) :=
  let m := dict_update eqb (fill_defaults eqb container (pattern_metadata p)) kw in
  if class_has_annotations p && existsb (eqb krid) (class_annotations p)
  then dict_set eqb krid (Some (val_of_id id)) m else m.
Definition madd_recurring {ID PAT K V START TZ : Type} (eqb : K -> K -> bool) (make_id : PAT -> N -> ID)
           (pattern_metadata : PAT -> list (K * option V))
           (class_has_annotations : PAT -> bool) (class_annotations : PAT -> list K) (krid : K) (val_of_id : ID -> V)
           (anchor_start : PAT -> START) (anchor_tz : PAT -> TZ)
           (make_pattern : PAT -> START -> TZ -> list (K * option V) -> PAT)
           (container : list (K * option V)) (pats : list (ID * PAT)) (sq : N) (p : PAT) (kw : list (K * option V))
  : list (ID * PAT) * N * list wres :=
  let sq' := N.succ sq in
  let id := make_id p sq' in
  let md := recurring_metadata eqb pattern_metadata class_has_annotations class_annotations krid val_of_id container p kw id in
  (pats ++ [(id, make_pattern p (anchor_start p) (anchor_tz p) md)], sq', [wr_noev true]).

(* at the model's representation: field names and values are numbers, an id is its sequence number, the
   pattern handed to add() is a [pat] whose p_ser is not used, and the stored pattern names its series by the
   recurring_event_id found in its metadata (0 = none) *)
Definition m_make_id (_ : pat) (n : N) : N := n.
Definition m_make_pattern (krid : N) (p : pat) (_ _ : unit) (md : list (N * option N)) : pat :=
  mkP (match dict_get_opt N.eqb krid md with Some v => v | None => 0%N end)
      (p_period p) (p_phase p) (p_dur p) (p_ex p) (p_tag p).
