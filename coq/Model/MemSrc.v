(* Model/MemSrc.v — the model side of tie C for calgebra/mutable/memory.py and the dispatch of
   calgebra/mutable/__init__.py (Proofs/GenEq_mem.v): how Model/Mem.v's representation instantiates the
   abstract operations of the generated definitions (Gen/Source.v), and the model functions Model/Mem.v
   did not have: the WriteResult lists, the batch operations (_remove_many, _remove_many_series, _add_many),
   the dispatch of add / remove / remove_series on the kind of argument, the metadata dictionaries of
   _add_interval / _add_recurring.  Existing model functions are not changed.  No proofs here. *)
From CG Require Export Model.Mem Model.LoopMem.

(* ---- the abstract operations on stored patterns, at the model's representation (pat, N, list Z) ---- *)
(* getattr(interval, "recurring_event_id", None): series 0 stands for "no id" *)
Definition m_rid (ev : ivl) : option N := if N.eqb (series_of ev) 0 then None else Some (series_of ev).
(* truthiness of an id: the model's ids are non-empty strings *)
Definition m_truthy (_ : N) : bool := true.
(* pattern.fetch(a, b, reverse=rv), used with finite bounds only *)
Definition m_pfetch (p : pat) (a b : option Z) (rv : bool) : list ivl :=
  let l := pat_fetch p (ozd a) (ozd b) in if rv then rev l else l.
Definition m_exdates (p : pat) : list Z := p_ex p.
Definition m_exs_add (l : list Z) (t : Z) : list Z := t :: l.
Definition m_set_exdates (p : pat) (l : list Z) : pat :=
  mkP (p_ser p) (p_period p) (p_phase p) (p_dur p) l (p_tag p).
(* self._recurring_patterns: the (id, pattern) pairs *)
Definition ents (l : list pat) : list (N * pat) := map (fun p => (p_ser p, p)) l.

(* ---- WriteResults ---- *)
(* of _remove_interval / _remove_recurring_instance: the event is handed back either way *)
Definition wr_rm (ev : ivl) (ok : bool) : wres := mkWR ok (Some ev) (if ok then None else Some ValueError).
(* of the series branch of _remove_series, and of _add_recurring: no event *)
Definition wr_noev (ok : bool) : wres := mkWR ok None (if ok then None else Some ValueError).

Definition flag_of (r : mstate * (list bool * list ivl)) : bool := hd false (fst (snd r)).

(* remove(interval) / remove_series(interval) with their WriteResults, from Model/Mem.v's mstep *)
Definition mremove (s : mstate) (ev : ivl) : mstate * list wres :=
  let r := mstep s (MRemove ev) in (fst r, [wr_rm ev (flag_of r)]).
Definition mremove_series (s : mstate) (ev : ivl) : mstate * list wres :=
  let r := mstep s (MRemoveSeries ev) in
  (fst r, [if N.eqb (series_of ev) 0 then wr_rm ev (flag_of r) else wr_noev (flag_of r)]).

(* the batch forms: one item after the other, the results concatenated *)
Fixpoint mfold {S A W : Type} (f : S -> A -> S * list W) (s : S) (xs : list A) : S * list W :=
  match xs with
  | [] => (s, [])
  | x :: r => let '(s1, w1) := f s x in let '(s2, w2) := mfold f s1 r in (s2, w1 ++ w2)
  end.
Definition mremove_many : mstate -> list ivl -> mstate * list wres := mfold mremove.
Definition mremove_many_series : mstate -> list ivl -> mstate * list wres := mfold mremove_series.

(* ---- the dispatch of MutableTimeline.remove / remove_series / add on the kind of argument ---- *)
Definition mremove_any (s : mstate) (x : remitem) : mstate * list wres :=
  match x with RIvl i => mremove s i | RMany l => mremove_many s l end.
Definition mremove_series_any (s : mstate) (x : remitem) : mstate * list wres :=
  match x with RIvl i => mremove_series s i | RMany l => mremove_many_series s l end.
