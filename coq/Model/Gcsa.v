(* Model/Gcsa.v — calgebra/gcsa.py (class Calendar over the gcsa client) as an executable model,
   together with the SIMULATED backend it talks to (the mirror image of harness/gcsa_fake.py).
   The model follows the code as repaired for D8 (reverse pager), D16 (all-day dates in the
   calendar's zone), D18 (batch add contained), N1 (failed zone lookup not cached), N2 (all-day
   test of recurring patterns), N3 (other recurrence lines kept when an instance is removed) and
   N5 (empty events on a page edge).  No proofs here. *)
From CG Require Export Model.Zone Model.Expr.

Definition HOUR : Z := 3600.
Definition WINDOW : Z := 30 * DAY.

Definition inZ (x : Z) (l : list Z) : bool := existsb (Z.eqb x) l.
Definition oget (o : option Z) (d : Z) : Z := match o with Some x => x | None => d end.

(* ------------------------------------------------------------------------------------------ *)
(* identifiers, reminders, EXDATE strings                                                      *)

(* "e<n>" | "e<n>_<YYYYMMDDTHHMMSSZ of t>" (instance of the recurring master e<n>) *)
Inductive eid := EId (n : N) | EInst (n : N) (t : Z).
Definition eid_eqb (a b : eid) : bool :=
  match a, b with
  | EId x, EId y => N.eqb x y
  | EInst x s, EInst y t => N.eqb x y && (s =? t)
  | _, _ => false
  end.

Definition reminder := (bool * Z)%type.      (* true = email, false = popup; minutes before start *)

(* _format_exdate: strftime("%Y%m%dT%H%M%SZ") of the UTC datetime = its six fields *)
Definition exd := (Z * Z * Z * Z * Z * Z)%type.
Definition format_exdate (t : Z) : exd :=
  let '(y, m, d) := civil_from_days (t / DAY) in
  let sod := t mod DAY in
  (y, m, d, sod / HOUR, (sod mod HOUR) / 60, sod mod 60).
Definition parse_exd (x : exd) : Z :=
  let '(y, m, d, hh, mm, ss) := x in days_from_civil y m d * DAY + hh * HOUR + mm * 60 + ss.
Definition exd_eqb (a b : exd) : bool :=
  let '(y, m, d, hh, mm, ss) := a in let '(y', m', d', hh', mm', ss') := b in
  (y =? y') && (m =? m') && (d =? d') && (hh =? hh') && (mm =? mm') && (ss =? ss').
Definition in_exd (x : exd) (l : list exd) : bool := existsb (exd_eqb x) l.

(* an RRULE line split at ';' : rule parts (FREQ=.., INTERVAL=.., BYDAY=.. — their meaning is
   carried by the structured fields of srec), the bounds UNTIL=YYYYMMDDTHHMMSSZ, UNTIL=YYYYMMDD
   (a day number) and COUNT=n — their meaning is read off the line itself (rec_until_t,
   rec_until_d, rec_count below), so a bound lost or altered by a rewrite of the line changes
   the series — and EXDATE parts.  To the adapter every part but an EXDATE part is opaque text. *)
Inductive tok := TRule | TEx (l : list exd) | TUntil (x : exd) | TUntilD (d : Z) | TCount (n : Z).
Definition is_ex (t : tok) : bool := match t with TEx _ => true | _ => false end.

(* _parse_exdates_from_rrule: re.search finds the FIRST EXDATE part; re.sub(";EXDATE[:=][^;]+")
   deletes EVERY EXDATE part that follows a ';' (i.e. all but one in first position) *)
Fixpoint first_ex (l : list tok) : list exd :=
  match l with [] => [] | TEx e :: _ => e | _ :: r => first_ex r end.
Definition has_ex (l : list tok) : bool := existsb is_ex l.
Definition strip_ex (l : list tok) : list tok :=
  match l with [] => [] | t :: r => t :: filter (fun x => negb (is_ex x)) r end.
Definition parse_exdates (l : list tok) : list tok * list exd :=
  if has_ex l then (strip_ex l, first_ex l) else (l, []).
(* _add_exdate_to_rrule *)
Definition add_exdate (l : list tok) (x : exd) : list tok :=
  let '(base, ex) := parse_exdates l in
  base ++ [TEx (if in_exd x ex then ex else ex ++ [x])].

(* ------------------------------------------------------------------------------------------ *)
(* the simulated backend                                                                       *)

Record srec := mkR {
  r_weekly : bool; r_interval : Z; r_byday : list Z;
  r_line : list tok;            (* recurrence[0] *)
  r_extra : list exd }.         (* EXDATE lines of their own: recurrence[1:] *)

Inductive pkind := KZone | KFixed | KNaive.

Record sev := mkSev {
  s_id : option N; s_sum : option N; s_desc : option N; s_tz : option zone;
  s_rem : list reminder; s_defrem : bool;
  s_allday : bool; s_s : Z; s_e : option Z;      (* instants, or day numbers when all-day *)
  s_pres : pkind; s_rec : option srec }.

Record bstate := mkBS { bs_zone : zone; bs_store : list sev; bs_next : N; bs_calls : nat; bs_fail : list nat }.

(* one backend call: takes the next call index; fails iff that index is scheduled to fail *)
Definition tick (b : bstate) : bstate * bool :=
  (mkBS (bs_zone b) (bs_store b) (bs_next b) (S (bs_calls b)) (bs_fail b),
   negb (existsb (Nat.eqb (bs_calls b)) (bs_fail b))).

Definition midnight (z : zone) (day : Z) : Z := wall_to_utc z (day * DAY) false.
Definition ev_zone (b : bstate) (st : sev) : zone := match s_tz st with Some z => z | None => bs_zone b end.

(* true instants of a stored single event *)
Definition span_of (b : bstate) (st : sev) : Z * option Z :=
  if s_allday st then (midnight (bs_zone b) (s_s st), option_map (midnight (bs_zone b)) (s_e st))
  else (s_s st, s_e st).

Definition rec_ex (r : srec) : list Z :=
  map parse_exd (flat_map (fun t => match t with TEx l => l | _ => [] end) (r_line r) ++ r_extra r).

(* the bounds of a series, read off its RRULE line (the simulation rejects a line with more than
   one of them, so "the first" is "the" one) *)
Fixpoint find_tok {A} (f : tok -> option A) (l : list tok) : option A :=
  match l with [] => None | t :: r => match f t with Some x => Some x | None => find_tok f r end end.
Definition rec_until_t (r : srec) : option Z :=
  find_tok (fun t => match t with TUntil x => Some (parse_exd x) | _ => None end) (r_line r).
Definition rec_until_d (r : srec) : option Z :=
  find_tok (fun t => match t with TUntilD d => Some d | _ => None end) (r_line r).
Definition rec_count (r : srec) : option Z :=
  find_tok (fun t => match t with TCount n => Some n | _ => None end) (r_line r).
Definition bounded_by (o : option Z) (x : Z) : bool := match o with Some u => x <=? u | None => true end.

(* the days d, d+1, .., d+n-1 on which the rule fires, each with the number of earlier firing
   days of the list plus k (its 0-based occurrence number when the list starts at the master) *)
Fixpoint number_on (on : Z -> bool) (d : Z) (n : nat) (k : Z) : list (Z * Z) :=
  match n with
  | O => []
  | S n' => if on d then (d, k) :: number_on on (d + 1) n' (k + 1) else number_on on (d + 1) n' k
  end.

(* what get_events hands out: a stored event or an instance, with its true instants (w_s, w_e)
   and what is presented (w_k0, w_k1: instants of a timed event, day numbers of an all-day one) *)
Record row := mkRow { w_ev : sev; w_id : option eid; w_rid : option N;
                      w_s : Z; w_e : option Z; w_k0 : Z; w_k1 : option Z }.

Definition in_window (lo hi : option Z) (s e : Z) : bool :=
  (match lo with None => true | Some l => l <? e end) && (match hi with None => true | Some h => s <? h end).

Definition instances (b : bstate) (st : sev) (r : srec) (lo hi : option Z) : list row :=
  let z := ev_zone b st in
  let e0 := oget (s_e st) (s_s st) in
  let w0 := utc_to_wall z (s_s st) in
  let day0 := if s_allday st then s_s st else w0 / DAY in
  let sod := w0 mod DAY in
  let dur := e0 - s_s st in
  let wdur := utc_to_wall z e0 - w0 in              (* duration on the wall clock of the event's zone *)
  let dur_days := if s_allday st then dur else dur / DAY + 2 in
  let hi' := match hi with
             | Some h => h
             | None => (if s_allday st then midnight (bs_zone b) day0 else s_s st) + 800 * DAY
             end in
  let cnt := rec_count r in
  let until_t := rec_until_t r in
  let until_d := rec_until_d r in
  (* COUNT counts the occurrences of the rule from the master on: no skipping ahead to the window *)
  let first := match lo, cnt with
               | Some l, None => Z.max day0 (l / DAY - dur_days - 2)
               | _, _ => day0
               end in
  let last := hi' / DAY + 2 in
  let mon0 := day0 - (day0 + 3) mod 7 in
  let byday := match r_byday r with [] => [(day0 + 3) mod 7] | l => l end in
  let ex := rec_ex r in
  let on := fun d =>
    let wd := (d + 3) mod 7 in
    if r_weekly r then inZ wd byday && (((d - wd - mon0) / 7) mod r_interval r =? 0)
    else ((d - day0) mod r_interval r =? 0) in
  flat_map (fun dk =>
    let d := fst dk in
    let s := if s_allday st then midnight (bs_zone b) d else wall_to_utc z (d * DAY + sod) false in
    let e := if s_allday st then midnight (bs_zone b) (d + dur)
             else wall_to_utc z (d * DAY + sod + wdur) false in
    (* UNTIL is inclusive: an occurrence starting exactly at UNTIL belongs to the series;
       COUNT and UNTIL bound the rule BEFORE the exclusions are taken out *)
    if (match cnt with Some c => snd dk <? c | None => true end) && bounded_by until_d d && bounded_by until_t s
    then
      if inZ s ex then []
      else if in_window lo (Some hi') s e
           then [mkRow st (match s_id st with Some n => Some (EInst n s) | None => None end) (s_id st)
                       s (Some e) (if s_allday st then d else s) (Some (if s_allday st then d + dur else e))]
           else []
    else []) (number_on on first (Z.to_nat (last - first + 1)) 0).

Definition rows_of_ev (b : bstate) (lo hi : option Z) (st : sev) : list row :=
  match s_rec st with
  | Some r => instances b st r lo hi
  | None =>
    let '(s, e) := span_of b st in
    if in_window lo hi s (oget e (s + HOUR))
    then [mkRow st (option_map EId (s_id st)) None s e (s_s st) (s_e st)] else []
  end.

(* stable sort by start instant (Python's sorted) *)
Fixpoint ins_by {A} (key : A -> Z) (x : A) (l : list A) : list A :=
  match l with [] => [x] | y :: r => if key x <=? key y then x :: l else y :: ins_by key x r end.
Definition sort_by {A} (key : A -> Z) (l : list A) : list A := fold_right (ins_by key) [] l.

Definition rows_of (b : bstate) (lo hi : option Z) : list row :=
  sort_by w_s (flat_map (rows_of_ev b lo hi) (bs_store b)).

(* gcsa Event objects.  A timed endpoint is an aware datetime with a fixed offset (what gcsa
   parses from the API), an aware datetime in a zoneinfo zone, or a naive wall clock (stubs). *)
Inductive pres := PFixed (w off : Z) | PZone (z : zone) (w : Z) (fold : bool) | PNaive (w : Z) (fold : bool).
Inductive btime := BTimed (ps : pres) (pe : option pres) | BDate (d0 : Z) (d1 : option Z).
Record bev := mkB { b_id : option eid; b_sum : option N; b_desc : option N; b_tz : option zone;
                    b_rid : option N; b_rem : list reminder; b_defrem : bool; b_time : btime;
                    b_rec : option srec }.

Definition present_t (b : bstate) (st : sev) (t : Z) : pres :=
  match s_pres st with
  | KFixed => let off := offset_at (ev_zone b st) t in PFixed (t + off) off
  | KNaive => let z := match s_tz st with Some z => z | None => utc_zone end in
              PNaive (utc_to_wall z t) (fold_of z t)
  | KZone => let z := ev_zone b st in PZone z (utc_to_wall z t) (fold_of z t)
  end.

Definition present (b : bstate) (w : row) : bev :=
  let st := w_ev w in
  mkB (w_id w) (s_sum st) (s_desc st) (s_tz st) (w_rid w) (s_rem st) (s_defrem st)
      (if s_allday st then BDate (w_k0 w) (w_k1 w)
       else BTimed (present_t b st (w_k0 w)) (option_map (present_t b st) (w_k1 w)))
      None.

Definition get_events (b : bstate) (lo hi : option Z) : list bev := map (present b) (rows_of b lo hi).

Fixpoint find_ev (n : N) (l : list sev) : option sev :=
  match l with
  | [] => None
  | st :: r => if (match s_id st with Some m => N.eqb m n | None => false end) then Some st else find_ev n r
  end.
Fixpoint del_ev (n : N) (l : list sev) : list sev :=
  match l with
  | [] => []
  | st :: r => if (match s_id st with Some m => N.eqb m n | None => false end) then r else st :: del_ev n r
  end.
Fixpoint upd_rec (n : N) (rc : option srec) (l : list sev) : list sev :=
  match l with
  | [] => []
  | st :: r =>
    if (match s_id st with Some m => N.eqb m n | None => false end)
    then mkSev (s_id st) (s_sum st) (s_desc st) (s_tz st) (s_rem st) (s_defrem st) (s_allday st) (s_s st) (s_e st)
             (s_pres st) rc :: r
    else st :: upd_rec n rc r
  end.
Definition set_store (b : bstate) (l : list sev) : bstate := mkBS (bs_zone b) l (bs_next b) (bs_calls b) (bs_fail b).

(* what add_event / events().insert() receive *)
Record wreq := mkQ { q_sum : option N; q_desc : option N; q_tz : option zone; q_rem : list reminder;
                     q_allday : bool; q_s : Z; q_e : Z; q_rec : option srec }.

(* storing a new event: empty ranges are rejected; ids are handed out in sequence *)
Definition b_store (b : bstate) (q : wreq) : bstate * option N :=
  if (if q_allday q then q_e q <=? q_s q else q_e q <? q_s q) then (b, None)
  else let id := bs_next b in
       (mkBS (bs_zone b)
             (bs_store b ++ [mkSev (Some id) (q_sum q) (q_desc q) (q_tz q) (q_rem q) false (q_allday q) (q_s q)
                                 (Some (q_e q)) KZone (q_rec q)])
             (N.succ id) (bs_calls b) (bs_fail b), Some id).

(* ------------------------------------------------------------------------------------------ *)
(* the adapter: read path                                                                      *)

Record aev := mkE { e_id : eid; e_sum : N; e_desc : option N; e_rid : option N; e_allday : bool;
                    e_rem : option (list reminder); e_s : Z; e_e : Z }.

(* _normalize_datetime / _to_timestamp *)
Definition pres_ts (p : pres) (zone_for : zone) : Z :=
  match p with
  | PFixed w off => w - off
  | PZone z w f => wall_to_utc z w f
  | PNaive w f => wall_to_utc zone_for w f
  end.
Definition date_ts (zone_for : zone) (d : Z) : Z := wall_to_utc zone_for (d * DAY) false.

(* wall clock of an endpoint in the event's zone (astimezone / replace(tzinfo=...)) *)
Definition pres_local (p : pres) (etz : zone) : Z :=
  match p with PNaive w _ => w | _ => utc_to_wall etz (pres_ts p etz) end.

Definition tz_or_utc (o : option zone) : zone := match o with Some z => z | None => utc_zone end.

(* _is_all_day_event: dates, or (fallback) a timed event from local midnight lasting whole days
   up to one hour, measured on the wall clock of the event's zone *)
Definition is_all_day_event (e : bev) : bool :=
  match b_time e with
  | BDate _ (Some _) => true
  | BDate _ None => false
  | BTimed _ None => false
  | BTimed ps (Some pe) =>
    let etz := tz_or_utc (b_tz e) in
    let ws := pres_local ps etz in
    let we := pres_local pe etz in
    if negb (ws mod DAY =? 0) then false
    else let dur := we - ws in
         let days := dur / DAY in
         (1 <=? days) && (dur - days * DAY <=? HOUR)
  end.

(* _extract_reminders *)
Definition extract_reminders (e : bev) : option (list reminder) :=
  if b_defrem e then None else match b_rem e with [] => None | l => Some l end.

(* the adapter object: the client plus the lazily fetched calendar zone
   (None = not fetched yet; Some None = fetched, calendar reports no zone) *)
Record astate := mkA { a_b : bstate; a_tz : option (option zone) }.

(* Calendar._calendar_timezone (repaired): a failing lookup raises and is not cached.
   Result None = raised. *)
Definition cal_tz (a : astate) : astate * option (option zone) :=
  match a_tz a with
  | Some v => (a, Some v)
  | None =>
    let '(b', ok) := tick (a_b a) in
    if ok then (mkA b' (Some (Some (bs_zone b'))), Some (Some (bs_zone b')))
    else (mkA b' None, None)
  end.

Definition has_end (e : bev) : bool :=
  match b_time e with BTimed _ (Some _) => true | BDate _ (Some _) => true | _ => false end.

(* one iteration of the loop of _fetch_forward: None = raised, Some None = skipped *)
Definition convert (a : astate) (e : bev) : astate * option (option aev) :=
  match b_id e, b_sum e, has_end e with
  | Some id, Some sm, true =>
    let etz := tz_or_utc (b_tz e) in
    let ad := is_all_day_event e in
    let '(a', zr) := if ad then cal_tz a else (a, Some None) in
    match zr with
    | None => (a', None)
    | Some ctz =>
      let zf := if ad then (match ctz with Some z => z | None => etz end) else etz in
      let '(s, en) := match b_time e with
                      | BTimed ps (Some pe) => (pres_ts ps zf, pres_ts pe zf)
                      | BDate d0 (Some d1) => (date_ts zf d0, date_ts zf d1)
                      | _ => (0, 0)
                      end in
      (a', Some (Some (mkE id sm (b_desc e) (b_rid e) ad (extract_reminders e) s en)))
    end
  | _, _, _ => (a, Some None)
  end.

Fixpoint convert_all (a : astate) (l : list bev) (acc : list aev) : astate * option (list aev) :=
  match l with
  | [] => (a, Some (rev acc))
  | e :: r =>
    match convert a e with
    | (a', None) => (a', None)
    | (a', Some None) => convert_all a' r acc
    | (a', Some (Some x)) => convert_all a' r (x :: acc)
    end
  end.

(* Calendar._fetch_forward: None = an exception escaped *)
Definition fetch_forward (a : astate) (lo hi : option Z) : astate * option (list aev) :=
  let '(b', ok) := tick (a_b a) in
  let a' := mkA b' (a_tz a) in
  if ok then convert_all a' (get_events b' lo hi) [] else (a', None).

(* Calendar._fetch_reverse (repaired): an event belongs to the page that contains its start; the
   oldest page also keeps the ones that began earlier *)
Definition keep_in_page (start end_ ws cur : Z) (s : Z) : bool :=
  ((s <? cur) || (cur =? end_)) && ((ws <=? s) || (ws =? start)).

Fixpoint rev_pages (fuel : nat) (a : astate) (start end_ cur : Z) (acc : list aev)
  : astate * option (list aev) :=
  match fuel with
  | O => (a, Some acc)
  | S f =>
    if start <? cur then
      let ws := Z.max start (cur - WINDOW) in
      (* inner pages are asked from one second earlier: an empty event [t, t) on the edge t
         overlaps neither neighbouring page (the lower bound is exclusive on the end) *)
      let from := if ws =? start then ws else ws - 1 in
      match fetch_forward a (Some from) (Some cur) with
      | (a', None) => (a', None)
      | (a', Some l) =>
        rev_pages f a' start end_ ws (acc ++ rev (filter (fun e => keep_in_page start end_ ws cur (e_s e)) l))
      end
    else (a, Some acc)
  end.

Definition fetch_reverse (a : astate) (lo hi : option Z) : astate * option (list aev) :=
  match hi with
  | None => (a, None)                      (* ValueError: reverse needs a finite end *)
  | Some e =>
    let s := match lo with Some s => s | None => e - 365 * DAY end in
    rev_pages (Z.to_nat ((e - s) / WINDOW + 2)) a s e e []
  end.

Definition fetch (a : astate) (lo hi : option Z) (rv : bool) : astate * option (list aev) :=
  if rv then fetch_reverse a lo hi else fetch_forward a lo hi.

(* The pager by itself, over any list of items with a start and an end and any page size:
   one page = the items overlapping it (what the forward routine returns), filtered as above. *)
Section Pager.
  Context {A : Type} (sA eA : A -> Z).
  Definition overlaps (lo hi : Z) (x : A) : bool := (lo <? eA x) && (sA x <? hi).
  Fixpoint pager (fuel : nat) (W : Z) (evs : list A) (start end_ cur : Z) : list A :=
    match fuel with
    | O => []
    | S f =>
      if start <? cur then
        let ws := Z.max start (cur - W) in
        let from := if ws =? start then ws else ws - 1 in
        rev (filter (fun x => keep_in_page start end_ ws cur (sA x)) (filter (overlaps from cur) evs))
        ++ pager f W evs start end_ ws
      else []
    end.
End Pager.

(* timeline[a:b] / [a:b:-1]: (self & solid).fetch — the sweep of core.py over the fetched stream *)
Definition slice_of (l : list aev) (lo hi : Z) (rv : bool) : list aev :=
  let ivs := map (fun p => mkI (Some (e_s (snd p))) (Some (e_e (snd p))) (Rich (N.of_nat (fst p))))
                 (combine (seq 0 (length l)) l) in
  let w := mkI (Some lo) (Some hi) Plain in
  let sel := emit_sel [false; true] in
  let res := if rv then neg_stream (inter_sweep [neg_stream ivs; [neg_ivl w]] sel)
             else inter_sweep [ivs; [w]] sel in
  flat_map (fun i => match pl i, st i, en i with
                     | Rich k, Some s, Some e =>
                       match nth_error l (N.to_nat k) with
                       | Some x => [mkE (e_id x) (e_sum x) (e_desc x) (e_rid x) (e_allday x) (e_rem x) s e]
                       | None => []
                       end
                     | _, _, _ => []
                     end) res.

(* ------------------------------------------------------------------------------------------ *)
(* the adapter: write path                                                                     *)

(* an Event handed to add() *)
Record wev := mkW { v_sum : N; v_desc : option N; v_rem : option (list reminder); v_allday : option bool;
                    v_s : Z; v_e : Z }.

(* zone identity: the harness gives distinct names distinct tables, so equality of tables is
   equality of names (str(ZoneInfo) is its key; str(timezone.utc) = "UTC") *)
Definition zone_eqb (z1 z2 : zone) : bool :=
  (off0 z1 =? off0 z2) &&
  (fix go (l1 l2 : list (Z * Z)) : bool :=
     match l1, l2 with
     | [], [] => true
     | (t1, o1) :: r1, (t2, o2) :: r2 => (t1 =? t2) && (o1 =? o2) && go r1 r2
     | _, _ => false
     end) (trans z1) (trans z2).

(* _infer_is_all_day *)
Definition infer_all_day (s e : Z) (tz : option zone) : bool :=
  let z := tz_or_utc tz in
  if negb ((utc_to_wall z s mod DAY =? 0) && (utc_to_wall z e mod DAY =? 0)) then false
  else let dur := e - s in dur - (dur / DAY) * DAY <=? HOUR.

(* _convert_timestamps_to_datetime (repaired): the date of a timestamp is its local date in the
   calendar's zone *)
Definition local_date (tz : option zone) (t : Z) : Z := utc_to_wall (tz_or_utc tz) t / DAY.

(* _prepare_event_for_add + _build_gcsa_event / _build_event_body *)
Definition prepare (ctz : option zone) (w : wev) : wreq :=
  let ad := match v_allday w with Some x => x | None => infer_all_day (v_s w) (v_e w) ctz end in
  let rems := match v_rem w with Some l => l | None => [] end in
  if ad then mkQ (Some (v_sum w)) (v_desc w) None rems true (local_date ctz (v_s w)) (local_date ctz (v_e w)) None
  else mkQ (Some (v_sum w)) (v_desc w) (Some utc_zone) rems false (v_s w) (v_e w) None.

(* a WriteResult: success flag and, when successful, the returned event (id, span, all-day) *)
Definition wres := (bool * option (eid * Z * Z * bool))%type.
Definition failed : wres := (false, None).

Definition with_b (a : astate) (b : bstate) : astate := mkA b (a_tz a).

(* Calendar._add_interval under @_handle_write_errors *)
Definition add_interval (a : astate) (w : wev) : astate * list wres :=
  let '(a1, r) := cal_tz a in
  match r with
  | None => (a1, [failed])
  | Some ctz =>
    let q := prepare ctz w in
    let '(b2, ok) := tick (a_b a1) in
    if ok then
      match b_store b2 q with
      | (b3, Some id) => (with_b a1 b3, [(true, Some (EId id, v_s w, v_e w, q_allday q))])
      | (_, None) => (with_b a1 b2, [failed])
      end
    else (with_b a1 b2, [failed])
  end.

(* building the batch: per event _calendar_timezone, service.events(), insert(), batch.add() *)
Fixpoint build_batch (a : astate) (l : list wev) (acc : list (wev * wreq)) : astate * option (list (wev * wreq)) :=
  match l with
  | [] => (a, Some (rev acc))
  | w :: r =>
    let '(a1, z) := cal_tz a in
    match z with
    | None => (a1, None)
    | Some ctz =>
      let '(b2, ok2) := tick (a_b a1) in
      if negb ok2 then (with_b a1 b2, None) else
      let '(b3, ok3) := tick b2 in
      if negb ok3 then (with_b a1 b3, None) else
      let '(b4, ok4) := tick b3 in
      if negb ok4 then (with_b a1 b4, None) else
      build_batch (with_b a1 b4) r ((w, prepare ctz w) :: acc)
    end
  end.

(* batch.execute(): every request is one more backend call; a failing one reaches the callback *)
Fixpoint exec_batch (b : bstate) (l : list (wev * wreq)) : bstate * list wres :=
  match l with
  | [] => (b, [])
  | (w, q) :: r =>
    let '(b1, ok) := tick b in
    let '(b2, res) := if ok then match b_store b1 q with
                                 | (b', Some id) => (b', (true, Some (EId id, v_s w, v_e w, q_allday q)))
                                 | (_, None) => (b1, failed)
                                 end
                      else (b1, failed) in
    let '(b3, rest) := exec_batch b2 r in (b3, res :: rest)
  end.

(* Calendar._add_many (repaired): any failure while building or executing = one failed result per event *)
Definition add_many (a : astate) (l : list wev) : astate * list wres :=
  match l with
  | [] => (a, [])
  | _ =>
    let all_failed := map (fun _ => failed) l in
    let '(b1, ok1) := tick (a_b a) in                         (* new_batch_http_request *)
    if negb ok1 then (with_b a b1, all_failed) else
    match build_batch (with_b a b1) l [] with
    | (a2, None) => (a2, all_failed)
    | (a2, Some reqs) =>
      let '(b3, ok3) := tick (a_b a2) in                      (* batch.execute *)
      if negb ok3 then (with_b a2 b3, all_failed) else
      let '(b4, res) := exec_batch b3 reqs in (with_b a2 b4, res)
    end
  end.

(* a RecurringPattern handed to add(): daily / weekly, anchored, with exdates *)
Record wpat := mkP { p_weekly : bool; p_interval : Z; p_byday : list Z; p_anchor : Z; p_dur : Z;
                     p_zone : zone; p_sum : N; p_ex : list Z }.

Definition sort_uniq (l : list Z) : list Z :=
  fold_right (fun x acc => if inZ x acc then acc else ins_by (fun z => z) x acc) [] l.

(* Calendar._add_recurring (repaired) under @_handle_write_errors *)
Definition add_recurring (a : astate) (p : wpat) : astate * list wres :=
  let line := fold_left (fun l t => add_exdate l (format_exdate t)) (sort_uniq (p_ex p))
                        (TRule :: (if p_interval p =? 1 then [] else [TRule]) ++
                         (match p_byday p with [] => [] | _ => [TRule] end)) in
  let s := p_anchor p in
  (* the duration runs on the pattern's local clock (wall-clock addition, fold = 0) *)
  let e := wall_to_utc (p_zone p) (utc_to_wall (p_zone p) s + p_dur p) false in
  let '(a1, zr) := if p_dur p =? DAY then cal_tz a else (a, Some None) in
  match zr with
  | None => (a1, [failed])
  | Some ctz =>
    (* all-day only on the calendar's own local clock: str(pattern.zone) == str(calendar zone) *)
    let ad := (p_dur p =? DAY) && zone_eqb (p_zone p) (tz_or_utc ctz) && infer_all_day s e ctz in
    let rc := mkR (p_weekly p) (p_interval p) (p_byday p) line [] in
    let q := if ad then mkQ (Some (p_sum p)) None None [] true (local_date ctz s) (local_date ctz e) (Some rc)
             else mkQ (Some (p_sum p)) None (Some (p_zone p)) [] false s e (Some rc) in
    let '(b2, ok) := tick (a_b a1) in
    if ok then
      match b_store b2 q with
      | (b3, Some id) => (with_b a1 b3, [(true, Some (EId id, s, e, ad))])
      | (_, None) => (with_b a1 b2, [failed])
      end
    else (with_b a1 b2, [failed])
  end.

(* delete_event by id *)
Definition delete_by (a : astate) (n : option N) : astate * list wres :=
  let '(b1, ok) := tick (a_b a) in
  if negb ok then (with_b a b1, [failed]) else
  match n with
  | Some k => match find_ev k (bs_store b1) with
              | Some _ => (with_b a (set_store b1 (del_ev k (bs_store b1))), [(true, None)])
              | None => (with_b a b1, [failed])
              end
  | None => (with_b a b1, [failed])
  end.

(* Calendar._remove_recurring_instance *)
Definition remove_instance (a : astate) (ev : aev) (m : N) : astate * list wres :=
  let '(b1, ok1) := tick (a_b a) in                            (* get_event *)
  if negb ok1 then (with_b a b1, [failed]) else
  match find_ev m (bs_store b1) with
  | None => (with_b a b1, [failed])
  | Some st =>
    match s_rec st with
    | None => (with_b a b1, [failed])                          (* master has no recurrence *)
    | Some r =>
      let x := format_exdate (e_s ev) in
      let '(_, existing) := parse_exdates (r_line r) in
      if in_exd x existing then (with_b a b1, [(true, None)])
      else
        let r' := mkR (r_weekly r) (r_interval r) (r_byday r) (add_exdate (r_line r) x) (r_extra r) in
        let '(b2, ok2) := tick b1 in                           (* update_event *)
        if negb ok2 then (with_b a b2, [failed])
        else (with_b a (set_store b2 (upd_rec m (Some r') (bs_store b2))), [(true, None)])
    end
  end.

(* Calendar._remove_interval / _remove_series under @_handle_write_errors *)
Definition remove_interval (a : astate) (ev : aev) : astate * list wres :=
  match e_rid ev with
  | Some m => remove_instance a ev m
  | None => delete_by a (match e_id ev with EId n => Some n | EInst _ _ => None end)
  end.
Definition remove_series (a : astate) (ev : aev) : astate * list wres :=
  delete_by a (match e_rid ev with
               | Some m => Some m
               | None => match e_id ev with EId n => Some n | EInst _ _ => None end
               end).

(* ------------------------------------------------------------------------------------------ *)
(* histories                                                                                   *)

Inductive op :=
| OFetch (lo hi : option Z) (rv : bool)          (* list(cal.fetch(lo, hi, reverse=rv)) *)
| OSlice (lo hi : Z) (rv : bool)                 (* list(cal[lo:hi]) / list(cal[lo:hi:-1]) *)
| OAdd (w : wev)
| OAddMany (l : list wev)                        (* cal.add(iter([...])) *)
| OAddRec (p : wpat) (occ : list (Z * Z))        (* occ: the pattern's own occurrences (for the spec) *)
| ORemove (ref k : nat)                          (* cal.remove(k-th event of the output of op #ref) *)
| ORemoveSeries (ref k : nat).

Inductive out :=
| ORead (r : option (list aev))                  (* None = an exception escaped *)
| OWrite (r : option (list wres))
| OSkip.                                         (* the referenced event does not exist *)

Definition ev_of_wres (r : wres) : option aev :=
  match r with
  | (true, Some (id, s, e, ad)) => Some (mkE id 0%N None None ad None s e)
  | _ => None
  end.

Definition lookup (outs : list out) (ref k : nat) : option aev :=
  match nth_error outs ref with
  | Some (ORead (Some l)) => nth_error l k
  | Some (OWrite (Some l)) => match nth_error l k with Some r => ev_of_wres r | None => None end
  | _ => None
  end.

Definition step (a : astate) (outs : list out) (o : op) : astate * out :=
  match o with
  | OFetch lo hi rv => let '(a', r) := fetch a lo hi rv in (a', ORead r)
  | OSlice lo hi rv =>
    let '(a', r) := fetch a (Some lo) (Some hi) rv in
    (a', ORead (option_map (fun l => slice_of l lo hi rv) r))
  | OAdd w => let '(a', r) := add_interval a w in (a', OWrite (Some r))
  | OAddMany l => let '(a', r) := add_many a l in (a', OWrite (Some r))
  | OAddRec p _ => let '(a', r) := add_recurring a p in (a', OWrite (Some r))
  | ORemove ref k =>
    match lookup outs ref k with
    | Some ev => let '(a', r) := remove_interval a ev in (a', OWrite (Some r))
    | None => (a, OSkip)
    end
  | ORemoveSeries ref k =>
    match lookup outs ref k with
    | Some ev => let '(a', r) := remove_series a ev in (a', OWrite (Some r))
    | None => (a, OSkip)
    end
  end.

(* every output comes with the number of backend calls made so far *)
Fixpoint run (a : astate) (outs : list out) (ops : list op) : list (out * nat) :=
  match ops with
  | [] => []
  | o :: r => let '(a', x) := step a outs o in (x, bs_calls (a_b a')) :: run a' (outs ++ [x]) r
  end.

Definition init (z : zone) (store : list sev) (next : N) (fail : list nat) : astate :=
  mkA (mkBS z store next 0 fail) None.
