(* Model/MetricsSrc.v — additions to the metrics model (Model/Metrics.v is left as it is: the
   differential checks evaluate it) for the functions of calgebra/metrics.py that tie C translates
   (third extension):
     - the start / end bounds as the source sees them (ints, dates, aware / naive datetimes, anything
       else) and _coerce_bound with its TypeError;
     - _period_windows (date labels) as a function of its own;
     - _windowed_agg / _grouped_agg / the five public functions with those bounds, results in [res].
   Proofs/GenEq_met.v connects them to Model/Metrics.v (on the bounds Model/Metrics.v has they agree)
   and to the generated definitions.  No proofs here. *)
From CG Require Import Model.Metrics Model.Loop.

(* start / end as metrics._coerce_bound classifies them *)
Inductive mbound :=
| MBInt (t : Z)            (* an int (bool included) *)
| MBDate (y m d : Z)       (* a datetime.date that is not a datetime *)
| MBAware (t : Z)          (* an aware datetime; t = int(bound.timestamp()) *)
| MBNaive                  (* a datetime whose tzinfo is None: TypeError *)
| MBOther.                 (* any other object: TypeError *)

Definition mb_of_bound (b : bound) : mbound :=
  match b with BInt t => MBInt t | BDate y m d => MBDate y m d end.

(* ---- _coerce_bound ---- *)
Definition coerce_mbound (z : zone) (b : mbound) : res Z :=
  match b with
  | MBInt t => RDone t
  | MBDate y m d => RDone (ts0 z (dt_ymd y m d))
  | MBAware t => RDone t
  | MBNaive | MBOther => RRaise TypeError
  end.

(* a fuelled model result as a res *)
Definition opt_res {A} (o : option A) : res A := match o with Some a => RDone a | None => RFuel end.

(* ---- _period_windows: (label, win_start, win_end), the label a date except for hourly periods ---- *)
Definition relabel (p : period) (w : win) : win := let '(l, a, b) := w in (label_of p l, a, b).
Definition period_windows (z : zone) (a b : Z) (p : period) : option (list win) :=
  match period_windows_dt z a b p with Some ws => Some (map (relabel p) ws) | None => None end.

(* ---- _windowed_agg ---- *)
Definition windowed_agg_m {A} (z : zone) (tl : expr) (s e : mbound) (p : period)
           (agg : expr -> Z -> Z -> A) : res (list (Z * A)) :=
  res_bind (coerce_mbound z s) (fun start_ts =>
  res_bind (coerce_mbound z e) (fun end_ts =>
  let c := cached_timeline tl start_ts end_ts in
  res_bind (opt_res (period_windows z start_ts end_ts p)) (fun ws =>
  RDone (map (fun w : win => let '(l, a, b) := w in (l, agg c a b)) ws)))).

(* ---- _grouped_agg ---- *)
Definition grouped_agg_m {A B} (z : zone) (tl : expr) (s e : mbound) (p : period) (g : groupby)
           (agg : expr -> Z -> Z -> A) (combiner : list A -> B) : res (list (Z * B)) :=
  res_bind (coerce_mbound z s) (fun start_ts =>
  res_bind (coerce_mbound z e) (fun end_ts =>
  let c := cached_timeline tl start_ts end_ts in
  res_bind (opt_res (period_windows_dt z start_ts end_ts p)) (fun ws =>
  let buckets := fold_left (fun bs (w : win) => let '(l, a, b) := w in
                                                bucket_add (group_key g l) (agg c a b) bs) ws [] in
  RDone (map (fun kv : Z * list A => (fst kv, combiner (snd kv))) buckets)))).

(* ---- _validate_period_group_by ---- *)
Definition validate_m (p : period) (g : option groupby) : res unit :=
  if valid_group_by p g then RDone tt else RRaise ValueError.

(* ---- the public functions: per-period rows (inl) or per-group rows (inr) ---- *)
Definition by_group {V W} (p : period) (g : option groupby)
           (grouped : groupby -> res (list (Z * W))) (windowed : res (list (Z * V)))
  : res (list (Z * V) + list (Z * W)) :=
  res_bind (validate_m p g) (fun _ =>
  match g with
  | Some g' => res_bind (grouped g') (fun r => RDone (inr r))
  | None => res_bind windowed (fun r => RDone (inl r))
  end).

Definition total_duration_m (z : zone) (tl : expr) (s e : mbound) (p : period) (g : option groupby) :=
  by_group p g (fun g' => grouped_agg_m z tl s e p g' total_duration_ zsum)
               (windowed_agg_m z tl s e p total_duration_).
Definition count_intervals_m (z : zone) (tl : expr) (s e : mbound) (p : period) (g : option groupby) :=
  by_group p g (fun g' => grouped_agg_m z tl s e p g' count_ zsum)
               (windowed_agg_m z tl s e p count_).
Definition coverage_ratio_m (z : zone) (tl : expr) (s e : mbound) (p : period) (g : option groupby) :=
  by_group p g (fun g' => grouped_agg_m z tl s e p g' ratio_tuple combine_ratios)
               (windowed_agg_m z tl s e p ratio_win).
Definition max_duration_m (z : zone) (tl : expr) (s e : mbound) (p : period) :=
  windowed_agg_m z tl s e p (fun c a b => extremum_duration c a b true).
Definition min_duration_m (z : zone) (tl : expr) (s e : mbound) (p : period) :=
  windowed_agg_m z tl s e p (fun c a b => extremum_duration c a b false).

(* Model/Metrics.v's results ([mres]) in these terms: what the public function of Model/Metrics.v
   returned, told apart by whether a group_by was given *)
Definition res_of_ints (g : option groupby) (m : mres) : res (list (Z * Z) + list (Z * Z)) :=
  match m with
  | RInts l => RDone (match g with Some _ => inr l | None => inl l end)
  | RValueError => RRaise ValueError
  | Metrics.RFuel => RFuel
  | _ => RSkip
  end.
Definition res_of_rats (g : option groupby) (m : mres) : res (list (Z * (Z * Z)) + list (Z * (Z * Z))) :=
  match m with
  | RRats l => RDone (match g with Some _ => inr l | None => inl l end)
  | RValueError => RRaise ValueError
  | Metrics.RFuel => RFuel
  | _ => RSkip
  end.
Definition res_of_ivls (m : mres) : res (list (Z * option ivl)) :=
  match m with
  | RIvls l => RDone l
  | RValueError => RRaise ValueError
  | Metrics.RFuel => RFuel
  | _ => RSkip
  end.
