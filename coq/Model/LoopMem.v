(* Model/LoopMem.v — what the source translator (tie C) needs for calgebra/mutable/memory.py and
   calgebra/mutable/__init__.py on top of Model/Loop.v: the WriteResult record, list.pop(i),
   `str == (str | None)`, dictionaries whose values may be None ({**a, **b}, dict(d), d.get(k),
   d.update(e)), and the argument of add / remove / remove_series as a sum.  No proofs here. *)
From CG Require Export Model.Loop.

(* WriteResult(success, event, error): the error is kept as its exception class *)
Record wres := mkWR { wr_ok : bool; wr_ev : option ivl; wr_err : option exn }.

(* xs.pop(i), the list afterwards (the popped item is not used); Python's negative indices; an
   index out of range (IndexError) leaves the list as it is: see py_index *)
Fixpoint list_del_nat {A : Type} (l : list A) (n : nat) : list A :=
  match l, n with
  | [], _ => []
  | _ :: r, O => r
  | y :: r, Datatypes.S k => y :: list_del_nat r k
  end.
Definition py_pop {A : Type} (l : list A) (i : Z) : list A :=
  let n := Z.of_nat (length l) in
  let j := if i <? 0 then n + i else i in
  if (0 <=? j) && (j <? n) then list_del_nat l (Z.to_nat j) else l.

(* a == b where b may be None (a value of another class is never equal to None) *)
Definition eq_opt {A : Type} (eqb : A -> A -> bool) (a : A) (b : option A) : bool :=
  match b with Some v => eqb a v | None => false end.

(* truthiness of `x` for x : T | None, given the truthiness of a T *)
Definition truthy_opt {A : Type} (truthy : A -> bool) (o : option A) : bool :=
  match o with Some v => truthy v | None => false end.

(* Dictionaries (Model/Loop.v: the list of (key, value) pairs in insertion order) whose values are
   arbitrary Python objects: a value is an [option V], None being Python's None.
     d.get(k)          the value, or None when the key is missing
     {**a, **b} / a.update(b) / dict(a)
                       the pairs of a, then every pair of b set in turn (a present key keeps its
                       place and takes the new value: dict_set) *)
Definition dict_get_opt {K V : Type} (eqb : K -> K -> bool) (k : K) (d : list (K * option V)) : option V :=
  dict_get eqb None k d.
Definition dict_update {K V : Type} (eqb : K -> K -> bool) (a b : list (K * V)) : list (K * V) :=
  fold_left (fun d kv => dict_set eqb (fst kv) (snd kv) d) b a.

(* the argument of MutableTimeline.add: an Interval, a RecurringPattern, another Timeline, or anything
   else — then it is iterated as a collection of Intervals (the list of what it yields) *)
Inductive additem (PAT : Type) :=
| AIvl (i : ivl) | APat (p : PAT) | ATimeline | AMany (l : list ivl).
Arguments AIvl {PAT} i.
Arguments APat {PAT} p.
Arguments ATimeline {PAT}.
Arguments AMany {PAT} l.

(* the argument of remove / remove_series: an Interval, or anything else — iterated likewise *)
Inductive remitem := RIvl (i : ivl) | RMany (l : list ivl).
