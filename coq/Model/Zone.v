(* Model/Zone.v — IANA time zones as explicit transition tables, and the datetime operations
   calgebra relies on, following zoneinfo / PEP 495:
     utc_to_wall        datetime.fromtimestamp(ts, tz)       (wall clock seconds since 1970-01-01 local)
     wall_to_utc w f    aware_datetime.timestamp() for wall clock w with fold = f
   A wall clock value is "local seconds since the local epoch": day*86400 + second-of-day.
   No proofs here. *)
From CG Require Export Model.Civil.

(* off0: UTC offset before the first transition; trans: (UTC instant, offset after), ascending *)
Record zone := mkZone { off0 : Z; trans : list (Z * Z) }.

Definition utc_zone : zone := mkZone 0 [].

(* offset in force at UTC instant t: that of the last transition at or before t *)
Fixpoint offset_at_go (cur : Z) (tr : list (Z * Z)) (t : Z) : Z :=
  match tr with
  | [] => cur
  | (T, o) :: r => if T <=? t then offset_at_go o r t else cur
  end.
Definition offset_at (z : zone) (t : Z) : Z := offset_at_go (off0 z) (trans z) t.

Definition utc_to_wall (z : zone) (t : Z) : Z := t + offset_at z t.

(* zoneinfo._find_trans on trans_list_wall[fold]: the wall-clock threshold of a transition at
   T from offset o1 to o2 is T + max(o1,o2) for fold=0 and T + min(o1,o2) for fold=1; the
   offset used is that after the last transition whose threshold is <= w. *)
Fixpoint wall_offset_go (cur : Z) (tr : list (Z * Z)) (w : Z) (fold : bool) : Z :=
  match tr with
  | [] => cur
  | (T, o) :: r =>
    let thr := T + (if fold then Z.min cur o else Z.max cur o) in
    if thr <=? w then wall_offset_go o r w fold else cur
  end.
Definition wall_offset (z : zone) (w : Z) (fold : bool) : Z := wall_offset_go (off0 z) (trans z) w fold.

Definition wall_to_utc (z : zone) (w : Z) (fold : bool) : Z := w - wall_offset z w fold.

(* fold attribute that fromtimestamp sets: 1 iff t is the second occurrence of its wall time *)
Definition fold_of (z : zone) (t : Z) : bool :=
  negb (wall_to_utc z (utc_to_wall z t) false =? t).

(* wall clock helpers *)
Definition wall_day (w : Z) : Z := w / DAY.               (* local date as a day number *)
Definition wall_sod (w : Z) : Z := w mod DAY.             (* second of day *)
Definition mk_wall (day sod : Z) : Z := day * DAY + sod.
