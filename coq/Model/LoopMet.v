(* Model/LoopMet.v — combinators the source translator (harness/translate/pysrc.py, tie C) emits for
   calgebra/metrics.py (third extension).  Same role as Model/Loop.v; no proofs here. *)
From CG Require Import Model.Loop.

(* a `for` of a value-returning function with a res result whose body calls generated functions that
   return a res: the body says how it left, or is an abnormal result — which is then the result of
   the function *)
Fixpoint pym_iter_for_r {S A R : Type} (body : S -> A -> res (step S (res R))) (post : S -> res R)
         (s : S) (xs : list A) : res R :=
  match xs with
  | [] => post s
  | x :: r =>
    match body s x with
    | RDone (SCont s') => pym_iter_for_r body post s' r
    | RDone (SBrk s') => post s'
    | RDone (SRet v) => v
    | RRaise e => RRaise e
    | RFuel => RFuel
    | RSkip => RSkip
    end
  end.

(* d[k].append(v) on a collections.defaultdict(list): a missing key is inserted — at the end of the
   insertion order — with the value [v]; a present key keeps its position and gets v appended *)
Definition pym_dd_append {K V : Type} (eqb : K -> K -> bool) (k : K) (v : V) (d : list (K * list V))
  : list (K * list V) :=
  dict_set eqb k (dict_get eqb [] k d ++ [v]) d.

(* sorted(pairs) for pairs whose first components are pairwise different ints (the keys of a
   dictionary): ascending first components; the second components are never compared.  (A stable
   insertion sort on the first component: for equal first components — which do not occur — it
   would keep the input order, whereas Python would compare the second components.) *)
Fixpoint pym_ins_fst {B : Type} (x : Z * B) (l : list (Z * B)) : list (Z * B) :=
  match l with
  | [] => [x]
  | y :: r => if fst x <? fst y then x :: l else y :: pym_ins_fst x r
  end.
Definition pym_sort_fst {B : Type} (l : list (Z * B)) : list (Z * B) :=
  fold_left (fun acc x => pym_ins_fst x acc) l [].
