(* Model/Loop.v — the target of the source translator (harness/translate/pysrc.py, tie C):
   a Python `for x in stream:` loop whose body may `yield`, `continue`, `break` or `return`
   becomes [run_for body post state stream]; [body] returns what it yielded, the new values of
   the loop-carried variables and how it left; [post] is the code after the loop (skipped by
   `return`).  Plus the few helpers the generated text uses.  No proofs here. *)
From CG Require Export Model.Base.

Inductive ctl := Cont | Brk | Ret.

Fixpoint run_for {S A B : Type} (body : S -> A -> list B * S * ctl) (post : S -> list B)
         (s : S) (xs : list A) : list B :=
  match xs with
  | [] => post s
  | x :: r =>
    let '(out, s', c) := body s x in
    match c with
    | Cont => out ++ run_for body post s' r
    | Brk => out ++ post s'
    | Ret => out
    end
  end.

(* `x is None` *)
Definition is_none {A : Type} (o : option A) : bool := match o with None => true | Some _ => false end.

(* an Optional[int] used as an int after the source tested it against None *)
Definition ozd (o : option Z) : Z := match o with Some z => z | None => 0 end.

(* ------------------------------------------------------------------------------------------ *)
(* Results of functions that may raise, loop on fuel, or reach a branch the spec leaves
   untranslated: an abnormal exit is never a normal-looking value. *)
Inductive exn := ValueError | TypeError | KeyError | IndexError.

Inductive res (A : Type) :=
| RDone (a : A)          (* normal completion *)
| RRaise (e : exn)       (* `raise E(...)` *)
| RFuel                  (* a fuelled `while` ran out of fuel *)
| RSkip.                 (* a branch declared untranslated (spec "skip_branches") was reached *)
Arguments RDone {A} a.
Arguments RRaise {A} e.
Arguments RFuel {A}.
Arguments RSkip {A}.

(* `while cond: body` in a generator; [post] is the code after the loop *)
Fixpoint run_while {S B : Type} (fuel : nat) (cond : S -> bool) (body : S -> list B * S * ctl)
         (post : S -> list B) (s : S) : res (list B) :=
  if cond s then
    match fuel with
    | O => RFuel
    | Datatypes.S f =>
      let '(out, s', c) := body s in
      match c with
      | Cont => match run_while f cond body post s' with
                | RDone l => RDone (out ++ l)
                | x => x
                end
      | Brk => RDone (out ++ post s')
      | Ret => RDone out
      end
    end
  else RDone (post s).

(* loops of value-returning functions and of procedures (no yields): the body says how it left *)
Inductive step (S R : Type) := SCont (s : S) | SBrk (s : S) | SRet (r : R).
Arguments SCont {S R} s.
Arguments SBrk {S R} s.
Arguments SRet {S R} r.

Fixpoint iter_for {S A R : Type} (body : S -> A -> step S R) (post : S -> R) (s : S) (xs : list A) : R :=
  match xs with
  | [] => post s
  | x :: r =>
    match body s x with
    | SCont s' => iter_for body post s' r
    | SBrk s' => post s'
    | SRet v => v
    end
  end.

Fixpoint iter_while {S R : Type} (fuel : nat) (cond : S -> bool) (body : S -> step S (res R))
         (post : S -> res R) (s : S) : res R :=
  if cond s then
    match fuel with
    | O => RFuel
    | Datatypes.S f =>
      match body s with
      | SCont s' => iter_while f cond body post s'
      | SBrk s' => post s'
      | SRet v => v
      end
    end
  else post s.

(* truthiness of a list *)
Definition nonempty {A : Type} (l : list A) : bool := match l with [] => false | _ => true end.

(* range(n) *)
Definition zrange (n : Z) : list Z := map Z.of_nat (seq 0 (Z.to_nat n)).

(* xs[i] with Python's negative indices; an index out of range (IndexError) gives the default:
   the generated definitions describe the executions that do not raise *)
Definition py_index {A : Type} (d : A) (l : list A) (i : Z) : A :=
  let n := Z.of_nat (length l) in
  let j := if i <? 0 then n + i else i in
  if (0 <=? j) && (j <? n) then nth (Z.to_nat j) l d else d.

(* bisect.bisect_right(xs, v, key=key): the binary search of the standard library, as it runs
   on ANY list (sorted or not):  lo, hi = 0, len(xs);  while lo < hi: mid = (lo + hi) // 2;
   if v < key(xs[mid]): hi = mid  else: lo = mid + 1;  return lo *)
Fixpoint bisect_go {A : Type} (fuel : nat) (key : A -> Z) (l : list A) (v : Z) (lo hi : Z) : Z :=
  match fuel with
  | O => lo
  | Datatypes.S f =>
    if lo <? hi then
      let mid := (lo + hi) / 2 in
      match nth_error l (Z.to_nat mid) with
      | Some x => if v <? key x then bisect_go f key l v lo mid else bisect_go f key l v (mid + 1) hi
      | None => lo
      end
    else lo
  end.
Definition bisect_right {A : Type} (key : A -> Z) (l : list A) (v : Z) : Z :=
  bisect_go (S (length l)) key l v 0 (Z.of_nat (length l)).

(* an Optional[Interval] used as an Interval after the source tested it against None *)
Definition oivld (o : option ivl) : ivl := match o with Some i => i | None => mkI None None Plain end.

(* a `while` nested in the body of a generator's `for`: what it yielded and the final values of
   its variables; None = out of fuel.  The body says whether to go on (false = `break`). *)
Fixpoint sub_while {S B : Type} (fuel : nat) (cond : S -> bool) (body : S -> list B * S * bool) (s : S)
  : option (list B * S) :=
  if cond s then
    match fuel with
    | O => None
    | Datatypes.S f =>
      let '(out, s', go) := body s in
      if go then
        match sub_while f cond body s' with
        | Some (l, s'') => Some (out ++ l, s'')
        | None => None
        end
      else Some (out, s')
    end
  else Some ([], s).

(* a generator's `for` whose body contains such loops: the body may run out of fuel (None) *)
Fixpoint run_for_o {S A B : Type} (body : S -> A -> option (list B * S * ctl)) (post : S -> list B)
         (s : S) (xs : list A) : res (list B) :=
  match xs with
  | [] => RDone (post s)
  | x :: r =>
    match body s x with
    | None => RFuel
    | Some (out, s', c) =>
      match c with
      | Cont => match run_for_o body post s' r with
                | RDone l => RDone (out ++ l)
                | e => e
                end
      | Brk => RDone (out ++ post s')
      | Ret => RDone out
      end
    end
  end.

(* ------------------------------------------------------------------------------------------ *)
(* Second extension of tie C (classes as records, any()/all() over mutable objects, frozenset,
   nested `for`, calls of generated functions that return a res). *)

(* `x = f(..) ; rest` where f is a generated function with a res result *)
Definition res_bind {A B : Type} (r : res A) (k : A -> res B) : res B :=
  match r with
  | RDone a => k a
  | RRaise e => RRaise e
  | RFuel => RFuel
  | RSkip => RSkip
  end.

(* a `for` nested in the body of a generator's loop: what it yielded and the final values of its
   variables.  The body says whether to go on (false = `break`). *)
Fixpoint sub_for {S A B : Type} (body : S -> A -> list B * S * bool) (s : S) (xs : list A)
  : list B * S :=
  match xs with
  | [] => ([], s)
  | x :: r =>
    let '(out, s', go) := body s x in
    if go then let '(l, s'') := sub_for body s' r in (out ++ l, s'') else (out, s')
  end.

(* xs[i] = x  (an index out of range leaves the list as it is: see py_index) *)
Fixpoint list_set_nat {A : Type} (l : list A) (n : nat) (x : A) : list A :=
  match l, n with
  | [], _ => []
  | _ :: r, O => x :: r
  | y :: r, Datatypes.S k => y :: list_set_nat r k x
  end.
Definition py_set_index {A : Type} (l : list A) (i : Z) (x : A) : list A :=
  let n := Z.of_nat (length l) in
  let j := if i <? 0 then n + i else i in
  if (0 <=? j) && (j <? n) then list_set_nat l (Z.to_nat j) x else l.

(* any(x.m(..) for x in xs) where the method m updates x and returns a bool: m runs on the items in
   order, up to and including the first one for which it returns True (short circuit) *)
Fixpoint any_mut {S : Type} (m : S -> S * bool) (xs : list S) : list S * bool :=
  match xs with
  | [] => ([], false)
  | x :: r =>
    let '(x', b) := m x in
    if b then (x' :: r, true) else let '(r', b') := any_mut m r in (x' :: r', b')
  end.

(* any(xs[i].m(..) for i in idxs) *)
Fixpoint any_mut_at {S : Type} (d : S) (m : S -> S * bool) (xs : list S) (idxs : list Z) : list S * bool :=
  match idxs with
  | [] => (xs, false)
  | i :: r =>
    let '(x', b) := m (py_index d xs i) in
    let xs' := py_set_index xs i x' in
    if b then (xs', true) else any_mut_at d m xs' r
  end.

(* max(..) / min(..) of a non-empty sequence of ints, left to right; on an empty sequence Python
   raises ValueError: the value 0 stands for that (the generated definitions describe the
   executions that do not raise, as for py_index) *)
Definition py_max (l : list Z) : Z := match l with [] => 0 | a :: r => fold_left Z.max r a end.
Definition py_min (l : list Z) : Z := match l with [] => 0 | a :: r => fold_left Z.min r a end.

(* enumerate(xs) *)
Definition py_enumerate {A : Type} (l : list A) : list (Z * A) := combine (zrange (Z.of_nat (length l))) l.

(* frozenset[int]: TRUSTED READING — a frozenset of ints is the ascending list of its distinct
   members, and iterating it visits them in that order.  (CPython iterates the hash table in slot
   order; for non-negative ints all smaller than the table size — in particular whenever every
   member is < 8, or the set is range(n) — that is ascending order.) *)
Fixpoint fs_insert (x : Z) (l : list Z) : list Z :=
  match l with
  | [] => [x]
  | y :: r => if x <? y then x :: l else if x =? y then l else y :: fs_insert x r
  end.
Definition fs_of_list (l : list Z) : list Z := fold_left (fun acc x => fs_insert x acc) l [].

(* ------------------------------------------------------------------------------------------ *)
(* Dictionaries: a dict is the list of its (key, value) pairs in insertion order; assigning to a
   key that is present keeps the key object and its position and replaces the value.  [eqb] is
   `==` on keys (hashing is not modelled). *)
Definition opt_eqb {A : Type} (eqb : A -> A -> bool) (a b : option A) : bool :=
  match a, b with Some x, Some y => eqb x y | None, None => true | _, _ => false end.

Fixpoint dict_set {K V : Type} (eqb : K -> K -> bool) (k : K) (v : V) (d : list (K * V)) : list (K * V) :=
  match d with
  | [] => [(k, v)]
  | (k', v') :: r => if eqb k k' then (k', v) :: r else (k', v') :: dict_set eqb k v r
  end.

(* {fk x: fv x for x in l} *)
Definition dict_of {K V A : Type} (eqb : K -> K -> bool) (fk : A -> K) (fv : A -> V) (l : list A) : list (K * V) :=
  fold_left (fun d x => dict_set eqb (fk x) (fv x) d) l [].

(* d[k]; a missing key (KeyError) gives the default: see py_index *)
Fixpoint dict_get {K V : Type} (eqb : K -> K -> bool) (dflt : V) (k : K) (d : list (K * V)) : V :=
  match d with
  | [] => dflt
  | (k', v) :: r => if eqb k k' then v else dict_get eqb dflt k r
  end.

Definition dict_has {K V : Type} (eqb : K -> K -> bool) (k : K) (d : list (K * V)) : bool :=
  existsb (fun kv => eqb k (fst kv)) d.

(* d1.keys() & d2.keys(): a SET; iterating it visits the common keys in an order Python does not
   specify.  TRUSTED READING: the insertion order of d1 (the order the models use). *)
Definition keys_inter {K V W : Type} (eqb : K -> K -> bool) (d1 : list (K * V)) (d2 : list (K * W)) : list K :=
  filter (fun k => dict_has eqb k d2) (map fst d1).

(* a non-negative counter held as N, incremented by an int *)
Definition N_plus_Z (n : N) (z : Z) : N := Z.to_N (Z.of_N n + z).

(* a generator's `for` whose body calls a generated function with a res result: an abnormal result
   of the body is the result of the loop *)
Fixpoint run_for_r {S A B : Type} (body : S -> A -> res (list B * S * ctl)) (post : S -> list B)
         (s : S) (xs : list A) : res (list B) :=
  match xs with
  | [] => RDone (post s)
  | x :: r =>
    match body s x with
    | RDone (out, s', c) =>
      match c with
      | Cont => match run_for_r body post s' r with
                | RDone l => RDone (out ++ l)
                | e => e
                end
      | Brk => RDone (out ++ post s')
      | Ret => RDone out
      end
    | RRaise e => RRaise e
    | RFuel => RFuel
    | RSkip => RSkip
    end
  end.
