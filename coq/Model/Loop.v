(* Model/Loop.v — the target of the source translator (harness/translate/pysrc.py, tie C):
   a Python `for x in stream:` loop whose body may `yield`, `continue`, `break` or `return`
   becomes [run_for body post state stream]; [body] returns what it yielded, the new values of
   the loop-carried variables and how it left; [post] is the code after the loop (skipped by
   `return`).  Plus the few helpers the generated text uses.  No proofs here. *)
From CG Require Export Model.Base.

Inductive ctl := Cont | Brk | Ret.

Fixpoint run_for {S A B : Type} (body : S -> A -> list B * S * ctl) (post : S -> list B)
         (s : S) (xs : list A) : list B :=
  match xs with
  | [] => post s
  | x :: r =>
    let '(out, s', c) := body s x in
    match c with
    | Cont => out ++ run_for body post s' r
    | Brk => out ++ post s'
    | Ret => out
    end
  end.

(* `x is None` *)
Definition is_none {A : Type} (o : option A) : bool := match o with None => true | Some _ => false end.

(* an Optional[int] used as an int after the source tested it against None *)
Definition ozd (o : option Z) : Z := match o with Some z => z | None => 0 end.
