(* Model/DiffNew.v — the REPAIRED Difference._sweep (fix for defect D1): subtractors already
   pulled that may still overlap this or a later source event are kept in [active]; fragments
   wait in a heap [pending], keyed (start, sequence number), until no later source event can
   start before them, so the output stays ordered by start.  No proofs here. *)
From CG Require Export Model.Sweeps.

Definition pent := (Z * N * ivl)%type.            (* (cursor, seq, fragment) *)
Definition pent_le (x y : pent) : bool :=
  let '(cx, sx, _) := x in let '(cy, sy, _) := y in (cx <? cy) || ((cx =? cy) && (N.leb sx sy)).
(* heapq.heappush / heappop on entries with distinct (cursor, seq): a list kept sorted *)
Fixpoint hpush (p : pent) (l : list pent) : list pent :=
  match l with
  | [] => [p]
  | y :: r => if pent_le y p then y :: hpush p r else p :: l
  end.
(* "while pending and pending[0][0] <= event_start: yield heappop(pending)[2]" *)
Fixpoint pop_le (es : Z) (l : list pent) : list ivl * list pent :=
  match l with
  | (c, s, f) :: r => if c <=? es then let '(o, l') := pop_le es r in (f :: o, l') else ([], l)
  | [] => ([], [])
  end.

(* "while next_subtractor is not None and next_subtractor.finite_start < event_end" *)
Fixpoint pull_subs (es ee : Z) (nxt active : list ivl) : list ivl * list ivl :=
  match nxt with
  | s :: r => if fstart s <? ee
              then pull_subs es ee r (if fend s >? es then active ++ [s] else active)
              else (nxt, active)
  | [] => ([], active)
  end.

(* "for sub in active": returns the final cursor, the sequence counter and the heap *)
Fixpoint carve_new (ev : ivl) (cursor ee : Z) (active : list ivl) (sq : N) (pend : list pent)
  : Z * N * list pent :=
  match active with
  | [] => (cursor, sq, pend)
  | s :: r =>
    if (cursor >=? ee) || (fstart s >=? ee) then (cursor, sq, pend)          (* break *)
    else if fend s <=? cursor then carve_new ev cursor ee r sq pend           (* continue *)
    else
      let '(sq', pend') :=
          if fstart s >? cursor
          then (N.succ sq, hpush (cursor, sq, set_span ev (unS cursor) (Some (fstart s))) pend)
          else (sq, pend) in
      carve_new ev (fend s) ee r sq' pend'
  end.

Fixpoint dloop (src nxt active : list ivl) (pend : list pent) (sq : N) : list ivl :=
  match src with
  | [] => map (fun p => snd p) pend                                          (* drain the heap *)
  | ev :: r =>
    let es := fstart ev in
    let ee := fend ev in
    let '(out, pend1) := pop_le es pend in
    let active1 := filter (fun s => fend s >? es) active in
    let '(nxt1, active2) := pull_subs es ee nxt active1 in
    let '(cur_sq, pend2) := carve_new ev es ee active2 sq pend1 in
    let '(cursor, sq1) := cur_sq in
    let '(sq2, pend3) :=
        if cursor <? ee
        then (N.succ sq1, hpush (cursor, sq1, if cursor =? es then ev else set_span ev (Some cursor) (unE ee)) pend2)
        else (sq1, pend2) in
    out ++ dloop r nxt1 active2 pend3 sq2
  end.

Definition dsweep_new (src subs : list ivl) : list ivl := dloop src subs [] [] 0%N.
Definition diff_sweep_new (src : list ivl) (sub_streams : list (list ivl)) : list ivl :=
  dsweep_new src (merge_by lt_fwd sub_streams).
