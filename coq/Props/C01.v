(* Props/C01.v — C01: set operators compute exact pointwise set algebra on covered time.
   Statements only; each is closed by a lemma of Proofs/ and followed by Print Assumptions.
   Operator level (the sweeps); the lift to whole expression trees is Proofs/Assembly.v. *)
From CG Require Import Proofs.Defs Proofs.Compl Proofs.Merge Proofs.Diff Proofs.InterDisjoint
     Proofs.Clip Proofs.Stored Proofs.Assembly Proofs.InterCover.

(* union ( | ): heapq.merge yields every event of every operand exactly once; covered time is
   the union — for ANY operand streams (overlapping, nested, duplicated, unbounded, unsorted) *)
Theorem C01_union_cover : forall lt ss t,
  covers (merge_by lt ss) t = existsb (fun s => covers s t) ss.
Proof. exact covers_merge. Qed.
Print Assumptions C01_union_cover.

(* complement ( ~ ): any sorted source, overlapping/nested/duplicated/unbounded events *)
Theorem C01_complement_cover : forall xs a b,
  wf_win a b -> Forall wf_ivl xs -> sorted_start xs ->
  forall t, bnd_lo a <= t < bnd_hi b -> covers (compl_sweep xs a b) t = negb (covers xs t).
Proof. intros xs a b Hw Hf Hs. exact (proj2 (proj2 (compl_sweep_spec xs a b Hw Hf Hs))). Qed.
Print Assumptions C01_complement_cover.

(* difference ( - ): ARBITRARY subtractors (overlapping, nested, duplicated, unbounded);
   the source stream must be internally non-overlapping — the boundary of known finding KF-D1 *)
Theorem C01_difference_cover_partial : forall src subs,
  Forall wf_ivl src -> disjoint_sorted src -> Forall wf_ivl subs -> sorted_start subs ->
  forall t, covers (dsweep src subs) t = covers src t && negb (covers subs t).
Proof. exact dsweep_cover. Qed.
Print Assumptions C01_difference_cover_partial.

(* ... and the hypothesis is necessary: the faithful model (and the code) leak subtracted time
   as soon as the source holds two overlapping events *)
Theorem C01_difference_overlap_refuted :
  let src := [mkI (Some 0) (Some 10) Plain; mkI (Some 1) (Some 5) Plain] in
  let subs := [mkI (Some 2) (Some 3) Plain] in
  covers (dsweep src subs) 2 = true /\ covers src 2 && negb (covers subs 2) = false.
Proof. exact overlapping_source_defect. Qed.
Print Assumptions C01_difference_overlap_refuted.

(* intersection ( & ), any number k >= 2 of operands, any emitter selection: covered time is the
   intersection — operands internally non-overlapping (boundary of KF-D2 for events; for
   coverage alone the check's oracle finds no failure on overlapping operands either) *)
Theorem C01_intersection_cover_partial : forall streams sel,
  (2 <= length streams)%nat ->
  Forall (Forall wf_ivl) streams -> Forall disjoint_sorted streams ->
  (exists i, (i < length streams)%nat /\ sel i = true) ->
  forall t, covers (inter_sweep streams sel) t = forallb (fun l => covers l t) streams.
Proof. exact inter_sweep_cover. Qed.
Print Assumptions C01_intersection_cover_partial.

(* ... and in fact for ARBITRARY sorted operands — overlapping, nested, duplicated events inside an
   operand included: although the sweep keeps one current event per operand and may lose EVENTS
   there (KF-D2), it never loses covered TIME *)
Theorem C01_intersection_cover : forall streams sel,
  (2 <= length streams)%nat -> Forall (Forall wf_ivl) streams -> Forall sorted_start streams ->
  (exists i, (i < length streams)%nat /\ sel i = true) ->
  forall t, covers (inter_sweep streams sel) t = forallb (fun l => covers l t) streams.
Proof. exact inter_sweep_cover_sorted. Qed.
Print Assumptions C01_intersection_cover.

(* the window: expr[a:b] = (expr & solid).fetch(a,b) clips every event of a sorted stream —
   no hypothesis on the events (overlapping, nested, zero-length, unbounded) nor on the window *)
Theorem C01_slice_clips : forall m xs a b t,
  sorted_start xs ->
  covers (inter_sweep [xs; [mkI a b Plain]] (emit_sel [m; true])) t = covers xs t && inw a b t.
Proof. exact clip_sweep_covers. Qed.
Print Assumptions C01_slice_clips.

(* stored timelines hand every event meeting the window to the operators *)
Theorem C01_stored_complete : forall store a b rv x,
  sorted_key store = true -> In x store -> wf_ivl x -> overlaps_win a b x ->
  In x (fetch_static store a b rv).
Proof. exact fetch_static_complete. Qed.
Print Assumptions C01_stored_complete.

(* ---- whole expression trees ----
   [good env e] (Proofs/Assembly.v): stored leaves with well-formed events of ANY shape
   (overlapping, nested, adjacent, duplicated, unbounded), arbitrarily nested | & - ~ flatten and
   leaf filters, where every operand of an intersection and every source of a difference produces
   an internally non-overlapping stream ([dj]: the boundary of known findings KF-D1/KF-D2;
   complements, flattened timelines, differences of such and all-mask intersections always do).
   For every window (bounded, open-ended, fully open, bounds in either order): the instants
   covered by the slice are exactly the pointwise Boolean denotation restricted to the window. *)
Theorem C01_set_algebra : forall env e a b,
  good env e -> wf_win' a b ->
  forall t, covers (slice env e a b false) t =
            inw (fst (norm_bounds a b)) (snd (norm_bounds a b)) t && den env e t.
Proof. exact Assembly.C01_set_algebra. Qed.
Print Assumptions C01_set_algebra.

(* the domain is decidable and non-empty: a nested expression with nested/duplicate/unbounded
   events, evaluated *)
Theorem C01_domain_decidable : forall env e, sgood e = true -> good env e.
Proof. exact sgood_good. Qed.
Print Assumptions C01_domain_decidable.

Example C01_instance : forall t,
  covers (slice Examples.env0 Examples.e3 (Some 40) (Some 1) false) t =
  inw (Some 1) (Some 40) t && den Examples.env0 Examples.e3 t.
Proof. exact Examples.e3_C01. Qed.

(* non-vacuity: nested, duplicated, touching, unbounded events satisfy the hypotheses *)
Example C01_hypotheses_satisfiable :
  let subs := [mkI None (Some 3) Plain; mkI (Some 1) (Some 9) (Rich 1); mkI (Some 2) (Some 4) (Rich 2);
               mkI (Some 2) (Some 4) (Rich 2); mkI (Some 9) None Plain] in
  let src := [mkI (Some 0) (Some 5) (Rich 7); mkI (Some 5) (Some 8) (Rich 8); mkI (Some 10) None (Rich 9)] in
  Forall wf_ivl src /\ disjoint_sorted src /\ Forall wf_ivl subs /\ sorted_start subs.
Proof.
  cbv zeta. split; [|split; [|split]].
  - repeat constructor; unfold wf_ivl, fstart, fend, NEG_INF, POS_INF; simpl; lia.
  - simpl. unfold fstart, fend, POS_INF; simpl. repeat split; intros y Hy;
      repeat (destruct Hy as [<-|Hy]; [simpl; lia|]); try contradiction.
  - repeat constructor; unfold wf_ivl, fstart, fend, NEG_INF, POS_INF; simpl; lia.
  - simpl. unfold fstart, NEG_INF; simpl. repeat split; intros y Hy;
      repeat (destruct Hy as [<-|Hy]; [simpl; lia|]); try contradiction.
Qed.

(* ---- tie C: the complement sweep and the clipping mask as the code has them (translations of
   the source text of Complement._sweep, Complement.fetch and _SolidTimeline.fetch, regenerated
   from /repo on every run) ---- *)
From CG Require Import Gen.Source Proofs.GenEq.

Theorem C01_source_complement_is_model : forall xs a b, g_compl_sweep xs a b = compl_sweep xs a b.
Proof. exact g_compl_sweep_eq. Qed.
Print Assumptions C01_source_complement_is_model.

Theorem C01_source_solid_is_model : forall a b rv, g_solid_fetch a b rv = [mkI a b Plain].
Proof. exact g_solid_fetch_eq. Qed.
Print Assumptions C01_source_solid_is_model.

Theorem C01_source_finite_bounds_are_model :
  (forall i, g_finite_start i = fstart i) /\ (forall i, g_finite_end i = fend i).
Proof. exact (conj g_finite_start_eq g_finite_end_eq). Qed.
Print Assumptions C01_source_finite_bounds_are_model.

(* Difference._sweep and MemoryTimeline._fetch_static as the code has them (tie C, extended) *)
From CG Require Import Model.Loop Proofs.GenEq4 Proofs.GenEq5.

Theorem C01_source_difference_is_model : forall fuel src sub_streams,
  (length (merge_by lt_fwd sub_streams) < fuel)%nat ->
  g_diff_sweep fuel src sub_streams = RDone (diff_sweep src sub_streams).
Proof. exact g_diff_sweep_eq. Qed.
Print Assumptions C01_source_difference_is_model.

(* coverage of the difference, stated of the code text: source AND NOT subtractors *)
Theorem C01_source_difference_cover : forall fuel src sub_streams,
  let subs := merge_by lt_fwd sub_streams in
  (length subs < fuel)%nat -> Forall wf_ivl src -> disjoint_sorted src -> Forall wf_ivl subs -> sorted_start subs ->
  exists l, g_diff_sweep fuel src sub_streams = RDone l /\
            forall t, covers l t = covers src t && negb (covers subs t).
Proof. exact src_difference_cover. Qed.
Print Assumptions C01_source_difference_cover.

Theorem C01_source_stored_complete : forall store a b rv x,
  sorted_key store = true -> In x store -> wf_ivl x -> Stored.overlaps_win a b x ->
  In x (g_mem_fetch_static store a b rv).
Proof. exact src_stored_complete. Qed.
Print Assumptions C01_source_stored_complete.

(* ---- tie C (second extension): Intersection._sweep, Union.fetch, Difference.fetch as the code has them ---- *)
From CG Require Import Proofs.GenEq6 Proofs.GenEq9.

Theorem C01_source_intersection_cover : forall fuel streams idxs,
  fs_ok (length streams) idxs -> (total_len streams < fuel)%nat -> (2 <= length streams)%nat -> idxs <> nil ->
  Forall (Forall wf_ivl) streams -> Forall sorted_start streams ->
  exists l, g_inter_sweep fuel streams idxs = RDone l /\ sorted_start l /\
            forall t, covers l t = forallb (fun s => covers s t) streams.
Proof. exact src_inter_cover_sorted. Qed.
Print Assumptions C01_source_intersection_cover.

Theorem C01_source_union_is_model : forall env es a b rv,
  g_union_fetch es (fetch env) a b rv = fetch env (Union es) a b rv.
Proof. exact g_union_fetch_is_model. Qed.
Print Assumptions C01_source_union_is_model.

Theorem C01_source_difference_fetch_is_model : forall env s subs a b rv fuel,
  (total_len (map (fun u => fetch env u a b rv) subs) < fuel)%nat ->
  g_diff_fetch fuel (fetch env s) subs (fetch env) a b rv = RDone (fetch env (Diff s subs) a b rv).
Proof. exact g_diff_fetch_is_model. Qed.
Print Assumptions C01_source_difference_fetch_is_model.

(* ---- tie C (third extension, "small"): the constructors and operators that BUILD the expressions, the
   Interval class and the module constants, as the code has them (Gen/Source.v is regenerated from the
   source text on every run; Proofs/GenEq_small_core.v).  The constructor a method calls is instantiated
   with the generated __init__ of that class. ---- *)
From CG Require Import Proofs.GenEq_small_core.

(* SECOND .. YEAR of util.py, NEG_INF / POS_INF of interval.py *)
Example C01_source_constants : _ := g_consts_eq.
Print Assumptions C01_source_constants.
(* Interval.__post_init__ accepts exactly the intervals whose finite bounds are ordered *)
Example C01_source_interval_validation_is_model : _ := g_interval_post_init_eq.
Print Assumptions C01_source_interval_validation_is_model.
Example C01_source_interval_validation : _ := g_interval_post_init_ok.
Print Assumptions C01_source_interval_validation.
Example C01_source_interval_duration_is_model : _ := g_interval_duration_eq.
Print Assumptions C01_source_interval_duration_is_model.
Example C01_source_from_datetimes_is_model : _ := g_interval_from_datetimes_eq.
Print Assumptions C01_source_from_datetimes_is_model.
(* _flatten_sources, Union(a, b) = or_ a b, Intersection(a, b) = and_ a b *)
Example C01_source_flatten_sources_is_model : _ := g_flatten_sources_eq.
Print Assumptions C01_source_flatten_sources_is_model.
Example C01_source_union_ctor_is_or : _ := g_union_init_is_or.
Print Assumptions C01_source_union_ctor_is_or.
Example C01_source_intersection_ctor_is_and : _ := g_intersection_init_is_and.
Print Assumptions C01_source_intersection_ctor_is_and.
(* a | b, a & b, a - b, ~a, flatten(a) build the model's expressions *)
Example C01_source_or_is_model : _ := g_tl_or_eq.
Print Assumptions C01_source_or_is_model.
Example C01_source_and_is_model : _ := g_tl_and_eq.
Print Assumptions C01_source_and_is_model.
Example C01_source_sub_is_model : _ := g_tl_sub_eq.
Print Assumptions C01_source_sub_is_model.
Example C01_source_invert_is_model : _ := g_tl_invert_eq.
Print Assumptions C01_source_invert_is_model.
Example C01_source_flatten_is_model : _ := g_flatten_eq.
Print Assumptions C01_source_flatten_is_model.
(* ---- tie C (third extension, tag filt): the operator dispatch of Timeline as the code has it — which node
   class `a | b`, `a & b`, `a & f`, `a - b`, `~a` build (constructors and _flatten_sources translated), and
   the mask flags the intersection's emit selection reads ---- *)
From CG Require Import Proofs.GenEq_filt2.

Theorem C01_source_or_and_dispatch : forall a (other : expr + filt),
  g_timeline_or ctor_union a other = match other with inl b => RDone (or_ a b) | inr _ => RRaise Loop.TypeError end /\
  g_timeline_and ctor_filtered ctor_inter a other = match other with inl b => and_ a b | inr f => Filt a f end.
Proof. intros a other. split; [apply g_timeline_or_eq | apply g_timeline_and_eq]. Qed.
Print Assumptions C01_source_or_and_dispatch.

Theorem C01_source_sub_invert_dispatch : forall a b,
  g_timeline_sub ctor_diff a b = sub_ a b /\ g_timeline_invert ctor_compl a = inv_ a.
Proof. intros a b. split; [apply g_timeline_sub_eq | apply g_timeline_invert_eq]. Qed.
Print Assumptions C01_source_sub_invert_dispatch.

Theorem C01_source_is_mask : forall e, is_mask e = src_is_mask e.
Proof. exact is_mask_is_source. Qed.
Print Assumptions C01_source_is_mask.
