(* Props/C09.v — C09: a cached timeline is observationally identical to its source.
   Statements only (Proofs/CacheInv.v, Proofs/CacheInv2.v).  The model is Model/Cache.v:
   CachedTimeline as a state machine over histories of queries and clock advances. *)
From CG Require Import Proofs.Defs Proofs.Merge Model.Cache Proofs.CacheInv Proofs.CacheInv2.

(* For EVERY history of bounded queries and clock advances (any ttl > 0, any clock granularity
   tick >= 0 — tick = 0 gives equal consecutive readings), from the empty cache, over ANY keyed
   source with unique keys (overlapping, nested, touching segment edges, unbounded events):
   the next query returns, after clipping to its window, exactly the source's events clipped to
   the window — each event overlapping the window whole and once — in (start,end) order,
   newest first when reversed. *)
Theorem C09_observational : forall evs ttl tick t0 ops a b rv s' out log,
  src_ok evs -> ttl > 0 -> tick >= 0 -> Forall static_op ops ->
  NEG_INF < a -> a < b -> b < POS_INF ->
  cquery false ttl tick (src_of evs 0) (r_state (crun_all false ttl tick t0 evs ops)) a b rv = (s', out, log) ->
  Permutation (flat_map (clipW (Some a) (Some b)) out)
              (flat_map (clipW (Some a) (Some b)) (filter pos_len evs)) /\
  sorted_le (if rv then key_ge else key_le) out.
Proof. exact CacheInv2.C09_observational. Qed.
Print Assumptions C09_observational.

(* ... hence every output of every history *)
Theorem C09_all_outputs : forall evs ttl tick t0 ops,
  src_ok evs -> ttl > 0 -> tick >= 0 -> Forall static_op ops ->
  Forall2 (c09_result evs) (queries ops) (r_outs (crun_all false ttl tick t0 evs ops)).
Proof. exact CacheInv2.C09_all_outputs. Qed.
Print Assumptions C09_all_outputs.

(* the invariant behind it, for every reachable state: the sink is sorted and holds, per source
   event and per maximal run of cached segments, exactly one fragment (stitched across touching
   segments, cut at expired ones); it determines the sink as a multiset *)
Theorem C09_sink_invariant : forall evs ttl tick t0 ops,
  src_ok evs -> ttl > 0 -> tick >= 0 -> Forall static_op ops ->
  sink_inv evs (r_state (crun_all false ttl tick t0 evs ops)).
Proof. exact sink_inv_reachable. Qed.
Print Assumptions C09_sink_invariant.

Theorem C09_sink_determined : forall evs sk sk' cv,
  src_ok evs -> sink_sem evs noX sk cv -> sink_sem evs noX sk' cv -> Permutation sk sk'.
Proof. exact sink_sem_unique. Qed.
Print Assumptions C09_sink_determined.

(* ---------- mask sources: cached(T) for T a mask (~x, flatten, plain patterns) — the covered
   time is identical (Proofs/CacheMask.v) ---------- *)
From CG Require Import Proofs.CacheMask.

(* For EVERY history (queries, clock advances, source mutations), ANY source events — overlapping,
   nested, duplicated, unbounded, even empty or reversed — every bounded query of a masked cache
   covers, inside its window, exactly the time the source covers; every returned fragment is a
   positive-length finite interval meeting the window and lying inside source coverage; the
   result is ordered (either direction). *)
Theorem C09_mask_observational : forall evs ttl tick t0 ops v a b rv s' out log,
  ttl > 0 -> tick >= 0 -> Forall op_ok ops ->
  NEG_INF < a -> a < b -> b < POS_INF ->
  let s := r_state (crun_all true ttl tick t0 evs ops) in
  cquery true ttl tick (src_of evs v) s a b rv = (s', out, log) ->
  (forall t, a <= t < b -> covers out t = covers evs t) /\
  (forall f, In f out -> mfrag_ok f /\ fstart f <= b /\ a < fend f /\
                         forall t, inside f t = true -> covers evs t = true) /\
  sorted_le (if rv then key_ge else key_le) out.
Proof. exact CacheMask.C09_mask_observational. Qed.
Print Assumptions C09_mask_observational.

(* ... every output of every history *)
Theorem C09_mask_all_outputs : forall evs ttl tick t0 ops,
  ttl > 0 -> tick >= 0 -> Forall op_ok ops ->
  Forall2 (c09m_result (covers evs)) (queries ops) (r_outs (crun_all true ttl tick t0 evs ops)).
Proof. exact CacheMask.C09_mask_all_outputs. Qed.
Print Assumptions C09_mask_all_outputs.

(* the invariant behind it: the sink covers exactly source AND cached segments, each fragment
   inside one segment (masks are never stitched) *)
Theorem C09_mask_invariant : forall evs ttl tick t0 ops,
  ttl > 0 -> tick >= 0 -> Forall op_ok ops ->
  mask_inv (covers evs) (r_state (crun_all true ttl tick t0 evs ops)).
Proof. exact mask_inv_reachable. Qed.
Print Assumptions C09_mask_invariant.

(* the sink is exactly the source clipped to each cached segment separately *)
Theorem C09_mask_sink_exact : forall evs ttl tick t0 ops,
  ttl > 0 -> tick >= 0 -> Forall op_ok ops ->
  let r := crun_all true ttl tick t0 evs ops in
  sorted_key (sink (r_state r)) = true /\
  exists ver, (forall c, In c (cover (r_state r)) -> (ver c <= r_ver r)%N) /\
    Permutation (sink (r_state r)) (flat_map (seg_of evs ver) (cover (r_state r))).
Proof. exact mask_sink_exact. Qed.
Print Assumptions C09_mask_sink_exact.

(* the oracle the check applies to the implementation's masked-cache outputs is a theorem of
   the model *)
Theorem C09_mask_oracle_holds_of_model : forall evs ttl tick t0 ops v a b rv s' out log,
  ttl > 0 -> tick >= 0 -> Forall op_ok ops ->
  NEG_INF < a -> a < b -> b < POS_INF ->
  cquery true ttl tick (src_of evs v) (r_state (crun_all true ttl tick t0 evs ops)) a b rv = (s', out, log) ->
  CacheChk.c09_one true evs (a, b, rv, v) out = true.
Proof. exact CacheMask.C09_mask_oracle. Qed.
Print Assumptions C09_mask_oracle_holds_of_model.

(* cached(~T): the complement of a well-formed source through a masked cache *)
Theorem C09_mask_complement : forall evs ttl tick t0 ops a b rv s' out log,
  Forall wf_ivl evs -> ttl > 0 -> tick >= 0 -> Forall op_ok ops ->
  NEG_INF < a -> a < b -> b < POS_INF ->
  cquery true ttl tick (src_compl evs) (grun ttl tick t0 (src_compl evs) ops) a b rv = (s', out, log) ->
  forall t, a <= t < b -> covers out t = negb (covers evs t).
Proof. exact CacheMask.C09_mask_complement. Qed.
Print Assumptions C09_mask_complement.

(* what is NOT true of masked caches (and is not claimed by the property): fragments are served
   unclipped from the sink (the slice clips them afterwards), and events are fractured at
   segment edges *)
Theorem C09_mask_clipped_refuted :
  exists evs ttl tick t0 ops a b rv s' out log,
    ttl > 0 /\ tick >= 0 /\ Forall op_ok ops /\ NEG_INF < a /\ a < b /\ b < POS_INF /\
    cquery true ttl tick (src_of evs 0) (r_state (crun_all true ttl tick t0 evs ops)) a b rv = (s', out, log) /\
    exists f, In f out /\ ~ (a <= fstart f /\ fend f <= b).
Proof. exact CacheMask.C09_mask_clipped_refuted. Qed.
Print Assumptions C09_mask_clipped_refuted.

Example C09_mask_nonvacuous : _ := CacheMask.mx_c09.

(* ---- tie C (extended): statements about the Gallina translation of the SOURCE TEXT, regenerated from
   /repo on every run (Gen/Source.v); external calls are function parameters of the generated definitions ---- *)
From CG Require Import Model.Loop Gen.Source Proofs.GenEq3.

(* CachedTimeline._purge_sink, for all inputs *)
Theorem C09_source_purge_is_model : forall sk s e, g_cache_purge_sink sk s e = purge_sink sk s e.
Proof. exact g_cache_purge_sink_eq. Qed.
Print Assumptions C09_source_purge_is_model.

(* the clipping loop of CachedTimeline._fill_gap, over any source *)
Theorem C09_source_clip_is_model : forall (sk : list ivl) (kv : bool) (kf : option unit)
    (src : option Z -> option Z -> bool -> list ivl) (gs ge : Z),
  fst (g_cache_fill_gap_clip sk kv kf src gs ge) =
  fold_left (fun sk0 i => match clip_to_gap gs ge i with Some j => sl_add j sk0 | None => sk0 end)
            (src (Some gs) (Some ge) false) sk.
Proof. exact (@g_cache_fill_gap_clip_eq unit). Qed.
Print Assumptions C09_source_clip_is_model.

(* ---- tie C: CachedTimeline.fetch itself (evict, gaps, fill, stitch, serve) as the code has it: on every
   state meeting the invariants the GENERATED fetch keeps them and returns the source's slice ---- *)
From CG Require Import Proofs.GenEq8.
Example C09_source_fetch_observational : _ := @src_cache_fetch_c09 unit.
Print Assumptions C09_source_fetch_observational.
Example C09_source_histories_are_model : _ := @g_crun_all_eq unit.
Print Assumptions C09_source_histories_are_model.

(* ---- tie C (third extension, "small"): CachedTimeline.__init__ (a new cache is the model's initial state,
   masked exactly when its source is a mask), _get_key and _is_mask as the code has them
   (Proofs/GenEq_small_cache.v) ---- *)
From CG Require Import Proofs.GenEq_small_cache.
Example C09_source_init_is_model : _ := g_cached_init_eq.
Print Assumptions C09_source_init_is_model.
Example C09_source_init_is_cinit : _ := g_cached_init_is_cinit.
Print Assumptions C09_source_init_is_cinit.
Example C09_source_get_key_is_model : _ := g_cache_get_key_eq.
Print Assumptions C09_source_get_key_is_model.
Example C09_source_get_key_spec : _ := g_cache_get_key_spec.
Print Assumptions C09_source_get_key_spec.
Example C09_source_get_key_is_key_of : _ := g_cache_get_key_model.
Print Assumptions C09_source_get_key_is_key_of.
Example C09_source_cached_is_mask : _ := g_cached_is_mask_eq.
Print Assumptions C09_source_cached_is_mask.
