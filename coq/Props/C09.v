From CG Require Import Spec.Sets.
