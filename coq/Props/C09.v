(* Props/C09.v — C09: a cached timeline is observationally identical to its source.
   Statements only (Proofs/CacheInv.v, Proofs/CacheInv2.v).  The model is Model/Cache.v:
   CachedTimeline as a state machine over histories of queries and clock advances. *)
From CG Require Import Proofs.Defs Proofs.Merge Model.Cache Proofs.CacheInv Proofs.CacheInv2.

(* For EVERY history of bounded queries and clock advances (any ttl > 0, any clock granularity
   tick >= 0 — tick = 0 gives equal consecutive readings), from the empty cache, over ANY keyed
   source with unique keys (overlapping, nested, touching segment edges, unbounded events):
   the next query returns, after clipping to its window, exactly the source's events clipped to
   the window — each event overlapping the window whole and once — in (start,end) order,
   newest first when reversed. *)
Theorem C09_observational : forall evs ttl tick t0 ops a b rv s' out log,
  src_ok evs -> ttl > 0 -> tick >= 0 -> Forall static_op ops ->
  NEG_INF < a -> a < b -> b < POS_INF ->
  cquery false ttl tick (src_of evs 0) (r_state (crun_all false ttl tick t0 evs ops)) a b rv = (s', out, log) ->
  Permutation (flat_map (clipW (Some a) (Some b)) out)
              (flat_map (clipW (Some a) (Some b)) (filter pos_len evs)) /\
  sorted_le (if rv then key_ge else key_le) out.
Proof. exact CacheInv2.C09_observational. Qed.
Print Assumptions C09_observational.

(* ... hence every output of every history *)
Theorem C09_all_outputs : forall evs ttl tick t0 ops,
  src_ok evs -> ttl > 0 -> tick >= 0 -> Forall static_op ops ->
  Forall2 (c09_result evs) (queries ops) (r_outs (crun_all false ttl tick t0 evs ops)).
Proof. exact CacheInv2.C09_all_outputs. Qed.
Print Assumptions C09_all_outputs.

(* the invariant behind it, for every reachable state: the sink is sorted and holds, per source
   event and per maximal run of cached segments, exactly one fragment (stitched across touching
   segments, cut at expired ones); it determines the sink as a multiset *)
Theorem C09_sink_invariant : forall evs ttl tick t0 ops,
  src_ok evs -> ttl > 0 -> tick >= 0 -> Forall static_op ops ->
  sink_inv evs (r_state (crun_all false ttl tick t0 evs ops)).
Proof. exact sink_inv_reachable. Qed.
Print Assumptions C09_sink_invariant.

Theorem C09_sink_determined : forall evs sk sk' cv,
  src_ok evs -> sink_sem evs noX sk cv -> sink_sem evs noX sk' cv -> Permutation sk sk'.
Proof. exact sink_sem_unique. Qed.
Print Assumptions C09_sink_determined.
