(* Props/C11.v — C11: concurrent queries on one cached timeline behave as if run one at a time.
   Statements only.  (1) the lock discipline holds of the CURRENT source of calgebra/cache.py:
   Gen/LockFacts.v is regenerated from its AST on every run, so this obligation is re-proved
   against what the code says now; (2) the generic theorem: under that discipline every
   interleaving is equivalent to running the critical sections one at a time (Proofs/ConcP.v). *)
From CG Require Import Spec.LockDiscipline Gen.LockFacts.

Theorem C11_lock_discipline_holds : lock_discipline facts = true.
Proof. vm_compute. reflexivity. Qed.
Print Assumptions C11_lock_discipline_holds.

(* ---- the generic theorems (Model/Conc.v: n threads, one lock, critical sections made of
   micro-steps at statement granularity; Proofs/ConcP.v), for ALL thread counts, programs and
   schedules ---- *)
From CG Require Import Model.Conc Proofs.ConcP Proofs.CacheInv Proofs.CacheInv2 Model.Cache Proofs.Defs.


(* at most one thread is inside a critical section, and it holds the lock *)
Theorem C11_mutual_exclusion : forall (St R : Type) (s0 : St) (ps : list (prog St R)) sch,
  let c := run (init s0 ps) sch in
  (forall i j ti tj,
     nth_error (threads c) i = Some ti -> nth_error (threads c) j = Some tj ->
     in_crit ti -> in_crit tj -> i = j /\ holder c = Some i) /\
  (forall h, holder c = Some h -> exists t, nth_error (threads c) h = Some t /\ in_crit t).
Proof. exact mutual_exclusion. Qed.
Print Assumptions C11_mutual_exclusion.

(* every complete execution, under every interleaving, has the final shared state and the
   per-thread results of the serial execution of the critical sections in lock-acquisition order *)
Theorem C11_serializable_all_schedules : forall (St R : Type) (s0 : St) (ps : list (prog St R)) sch,
  let c := run (init s0 ps) sch in
  all_done c = true ->
  holder c = None /\
  sh c = fst (serial s0 (acq c)) /\
  rel c = snd (serial s0 (acq c)) /\
  (forall i t, nth_error (threads c) i = Some t ->
     t_res t = by_thread i (snd (serial s0 (acq c)))) /\
  (forall i p, nth_error ps i = Some p -> by_thread i (acq c) = crits_of p).
Proof. exact C11_serializable. Qed.
Print Assumptions C11_serializable_all_schedules.

(* no deadlock: while not everybody is done some thread can step, and from every reachable
   configuration a completing schedule exists *)
Theorem C11_no_deadlock : forall (St R : Type) (s0 : St) (ps : list (prog St R)) sch,
  let c := run (init s0 ps) sch in
  all_done c = false ->
  match holder c with
  | Some h => step c h <> None
  | None => forall i t, nth_error (threads c) i = Some t -> finished t = false -> step c i <> None
  end /\
  exists i, (i < length ps)%nat /\ step c i <> None.
Proof. exact no_deadlock. Qed.
Print Assumptions C11_no_deadlock.

(* instantiated with the cache (keyed static source with unique keys): under every
   interleaving every thread's every result is the source's slice, and afterwards the cache
   still answers every bounded query with the source's slice *)
Theorem C11_cache_results_eq_source : forall evs ttl tick t0,
  src_ok evs -> ttl > 0 -> tick >= 0 ->
  forall qps sch, Forall (Forall (qwf evs ttl tick)) qps ->
  let c := run (cinit_cfg t0 qps) sch in
  all_done c = true ->
  forall i qp t, nth_error qps i = Some qp -> nth_error (threads c) i = Some t ->
    Forall2 (c09_result evs) (fetches qp) (t_res t).
Proof. exact C11_results_eq_source. Qed.
Print Assumptions C11_cache_results_eq_source.

Theorem C11_cache_afterwards_correct : forall evs ttl tick t0,
  src_ok evs -> ttl > 0 -> tick >= 0 ->
  forall qps sch, Forall (Forall (qwf evs ttl tick)) qps ->
  let c := run (cinit_cfg t0 qps) sch in
  all_done c = true ->
  forall a b rv s' out log,
    NEG_INF < a -> a < b -> b < POS_INF ->
    cquery false ttl tick (src_of evs 0) (sh c) a b rv = (s', out, log) ->
    c09_result evs (a, b, rv) out.
Proof. exact C11_afterwards_correct. Qed.
Print Assumptions C11_cache_afterwards_correct.

(* ---- the same for MASK caches (cached(T) with T a mask: never stitched), any source events, any
   monotone clock (time may pass while waiting for the lock, between eviction and gap computation,
   before each gap fill) and a source that may have changed between fetches (Proofs/ConcMask.v) ---- *)
From CG Require Import Proofs.CacheMask Proofs.ConcMask.

Theorem C11_mask_results_eq_source : forall evs ttl tick t0 qps sch,
  tick >= 0 ->
  Forall (Forall (mqwf (covers evs) ttl tick)) qps ->
  let c := run (cinit_cfg t0 qps) sch in
  all_done c = true ->
  forall i qp t, nth_error qps i = Some qp -> nth_error (threads c) i = Some t ->
    Forall2 (c09m_result (covers evs)) (fetches qp) (t_res t).
Proof. exact ConcMask.C11_mask_results_eq_source. Qed.
Print Assumptions C11_mask_results_eq_source.

Theorem C11_mask_afterwards_correct : forall evs ttl tick t0 qps sch,
  tick >= 0 ->
  Forall (Forall (mqwf (covers evs) ttl tick)) qps ->
  let c := run (cinit_cfg t0 qps) sch in
  all_done c = true ->
  forall v a b rv s' out log,
    NEG_INF < a -> a < b -> b < POS_INF ->
    cquery true ttl tick (src_of evs v) (sh c) a b rv = (s', out, log) ->
    c09m_result (covers evs) (a, b, rv) out.
Proof. exact ConcMask.C11_mask_afterwards_correct. Qed.
Print Assumptions C11_mask_afterwards_correct.

(* whenever nobody holds the lock, the shared state meets the cache invariants: no duplicated or
   missing coverage *)
Theorem C11_mask_state_invariant : forall evs ttl tick t0 qps sch,
  tick >= 0 ->
  Forall (Forall (mqwf (covers evs) ttl tick)) qps ->
  let c := run (cinit_cfg t0 qps) sch in
  holder c = None ->
  heap_inv ttl (sh c) /\ mask_inv (covers evs) (sh c).
Proof. exact ConcMask.C11_mask_state_inv. Qed.
Print Assumptions C11_mask_state_invariant.

(* non-vacuity: two threads of two fetches each with different waits and source versions; the
   conclusion checked on ALL 165 complete interleavings by computation *)
Example C11_mask_nonvacuous : _ := ConcMask.ex_mask_thm.
Example C11_mask_every_schedule : _ := ConcMask.ex_mask_every_schedule.
