(* Props/C11.v — C11: concurrent queries on one cached timeline behave as if run one at a time.
   Statements only.  (1) the lock discipline holds of the CURRENT source of calgebra/cache.py:
   Gen/LockFacts.v is regenerated from its AST on every run, so this obligation is re-proved
   against what the code says now; (2) the generic theorem: under that discipline every
   interleaving is equivalent to running the critical sections one at a time (Proofs/ConcP.v). *)
From CG Require Import Spec.LockDiscipline Gen.LockFacts.

Theorem C11_lock_discipline_holds : lock_discipline facts = true.
Proof. vm_compute. reflexivity. Qed.
Print Assumptions C11_lock_discipline_holds.
