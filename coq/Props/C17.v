(* Props/C17.v — C17: buffer and merge_within transform each event exactly.
   Statements only (Proofs/Transform.v). *)
From CG Require Import Proofs.Defs Spec.TransformSpec Proofs.Stored Proofs.Transform.

(* merge_within: for every source stream sorted by start (overlapping, nested, unbounded
   events) and every gap >= 0 the result meets the declarative spec of Spec/TransformSpec.v:
   outputs pairwise more than gap apart, every source event inside exactly one output, each
   output = [first start, furthest end] of a chain linked by gaps <= gap, first event's metadata *)
Theorem C17_merge_within_spec : forall g src,
  0 <= g -> Forall wf_ivl src -> Forall canon_ivl src -> sorted_start src ->
  mw_spec_ok g src (mw g src) = true.
Proof. exact mw_spec. Qed.
Print Assumptions C17_merge_within_spec.

Theorem C17_merge_within_never_joins_far_events : forall g src,
  0 <= g -> Forall wf_ivl src -> Forall canon_ivl src -> sorted_start src ->
  far_apartP g (mw g src).
Proof. exact mw_far_apart. Qed.
Print Assumptions C17_merge_within_never_joins_far_events.

Theorem C17_merge_within_groups : forall g src o,
  0 <= g -> Forall wf_ivl src -> Forall canon_ivl src -> sorted_start src -> In o (mw g src) ->
  exists x grp, filter (inside_ivl o) src = x :: grp /\ st o = st x /\ fstart o = fstart x /\ pl o = pl x /\
    fend o = max_end grp (fend x) /\ (forall y, In y grp -> fend y <= fend o) /\
    (forall l1 y l2, grp = l1 ++ y :: l2 -> fstart y - max_end l1 (fend x) <= g).
Proof. exact mw_group_shape. Qed.
Print Assumptions C17_merge_within_groups.

(* a window containing all events yields the exact global merge; reverse = reversed *)
Theorem C17_merge_within_global : forall env evs g a b,
  (forall x, In x evs -> in_range a b x = true) ->
  fetch env (MergeW (Stored evs) g) a b false = mw g (sl_build evs).
Proof. exact mw_window_global_stored. Qed.
Print Assumptions C17_merge_within_global.

Theorem C17_merge_within_reverse : forall env s g a b,
  fetch env (MergeW s g) a b false = mw g (fetch env s a b false) /\
  fetch env (MergeW s g) a b true = rev (mw g (fetch env s a b false)).
Proof. exact fetch_mergew. Qed.
Print Assumptions C17_merge_within_reverse.

(* buffer: every stored event whose EXTENDED span meets the window is returned, extended by
   exactly the amounts, metadata intact — including events lying outside the window *)
Theorem C17_buffer_reaches_in : forall env evs before after a b rv x,
  0 <= before -> 0 <= after -> In x evs -> wf_ivl x -> overlaps_win a b (buf_shift before after x) ->
  In (buf_shift before after x) (fetch env (Buf (Stored evs) before after) a b rv).
Proof. exact buf_reach_in. Qed.
Print Assumptions C17_buffer_reaches_in.

Theorem C17_buffer_sound : forall env evs before after a b rv y,
  In y (fetch env (Buf (Stored evs) before after) a b rv) -> exists x, In x evs /\ y = buf_shift before after x.
Proof. exact buf_fetch_sound. Qed.
Print Assumptions C17_buffer_sound.

Theorem C17_buffer_exact : forall env evs before after a b,
  0 <= before -> 0 <= after ->
  flat_map (clipW a b) (fetch env (Buf (Stored evs) before after) a b false) =
  flat_map (clipW a b) (map (buf_shift before after) (sl_build evs)).
Proof. exact buf_clip_exact. Qed.
Print Assumptions C17_buffer_exact.

Example C17_nonvacuous :
  let src := [mkI (Some 0) (Some 10) (Rich 1); mkI (Some 2) (Some 4) (Rich 2); mkI (Some 12) (Some 13) (Rich 3);
              mkI (Some 20) None (Rich 4); mkI (Some 50) (Some 60) (Rich 5)] in
  Forall wf_ivl src /\ Forall canon_ivl src /\ sorted_start src /\
  mw 2 src = [mkI (Some 0) (Some 13) (Rich 1); mkI (Some 20) None (Rich 4)].
Proof.
  cbv zeta. split; [|split; [|split]].
  - repeat constructor; unfold wf_ivl, fstart, fend, NEG_INF, POS_INF; simpl; lia.
  - repeat (apply Forall_cons; [unfold canon_ivl, NEG_INF, POS_INF; simpl; split; congruence|]); apply Forall_nil.
  - simpl. unfold fstart; simpl. repeat split; intros y Hy;
      repeat (destruct Hy as [<-|Hy]; [simpl; lia|]); try contradiction.
  - vm_compute. reflexivity.
Qed.

(* ---- tie C: the statements about the code itself ----
   g_merged_fetch_forward / g_buffered_fetch are the Gallina translations of the SOURCE TEXT of
   _MergedWithin._fetch_forward and _Buffered.fetch, regenerated from /repo on every run
   (Gen/Source.v); [src] is the source timeline's fetch, arbitrary. *)
From CG Require Import Gen.Source Proofs.GenEq.

Theorem C17_source_merge_is_model : forall src g a b,
  g_merged_fetch_forward src g a b = mw g (src a b false).
Proof. exact g_merged_fetch_forward_eq. Qed.
Print Assumptions C17_source_merge_is_model.

Theorem C17_source_buffer_is_model : forall src before after a b rv,
  g_buffered_fetch src before after a b rv =
  map (buf_shift before after) (src (addO a (- after)) (addO b before) rv).
Proof. exact g_buffered_fetch_eq. Qed.
Print Assumptions C17_source_buffer_is_model.

(* so the merge_within spec holds of what the code says now, for any source answering with a
   well-formed stream sorted by start *)
Theorem C17_source_merge_within_spec : forall src g a b,
  0 <= g -> Forall wf_ivl (src a b false) -> Forall canon_ivl (src a b false) -> sorted_start (src a b false) ->
  mw_spec_ok g (src a b false) (g_merged_fetch_forward src g a b) = true.
Proof. intros src g a b Hg H1 H2 H3. rewrite g_merged_fetch_forward_eq. apply mw_spec; assumption. Qed.
Print Assumptions C17_source_merge_within_spec.

(* ---- buffer() rejects negative amounts, at every level of a composition ---- *)
From CG Require Import Model.Slice Proofs.SliceP.

Theorem C17_buffer_rejects_negative : forall e b a, b < 0 \/ a < 0 -> buffer_ e b a = inl ValueError.
Proof. exact buffer_rejects_negative. Qed.
Print Assumptions C17_buffer_rejects_negative.

Theorem C17_buffer_accepts_nonnegative : forall e b a, 0 <= b -> 0 <= a -> buffer_ e b a = inr (Buf e b a).
Proof. exact buffer_accepts_nonnegative. Qed.
Print Assumptions C17_buffer_accepts_nonnegative.

Theorem C17_buffer_chain_rejects : forall amts e,
  (exists p, In p amts /\ (fst p < 0 \/ snd p < 0)) <-> buffer_chain e amts = inl ValueError.
Proof. exact buffer_chain_rejects. Qed.
Print Assumptions C17_buffer_chain_rejects.

(* ---- tie C (third extension, "small"): buffer() / merge_within() themselves, the constructors of the
   two classes and _MergedWithin.fetch, as the code has them (Proofs/GenEq_small_tr.v) ---- *)
From CG Require Import Proofs.GenEq_small_tr.
Example C17_source_buffer_call_is_model : _ := g_buffer_eq.
Print Assumptions C17_source_buffer_call_is_model.
Example C17_source_buffer_rejects_negative : _ := g_buffer_rejects_negative.
Print Assumptions C17_source_buffer_rejects_negative.
Example C17_source_buffer_accepts_nonnegative : _ := g_buffer_accepts.
Print Assumptions C17_source_buffer_accepts_nonnegative.
Example C17_source_buffer_chain_is_model : _ := g_buffer_chain_eq.
Print Assumptions C17_source_buffer_chain_is_model.
Example C17_source_merge_within_is_model : _ := g_merge_within_eq.
Print Assumptions C17_source_merge_within_is_model.
Example C17_source_merged_fetch_is_model : _ := g_merged_fetch_eq.
Print Assumptions C17_source_merged_fetch_is_model.
Example C17_source_merge_within_fetch_is_model : _ := g_merge_within_fetch_is_model.
Print Assumptions C17_source_merge_within_fetch_is_model.
Example C17_source_buffer_fetch_is_model : _ := g_buffer_fetch_is_model.
Print Assumptions C17_source_buffer_fetch_is_model.
