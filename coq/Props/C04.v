(* Props/C04.v — C04: reverse iteration returns exactly the forward result, newest first.
   Statements only (Proofs/Reverse.v, Proofs/Negate.v). *)
From CG Require Import Proofs.Defs Proofs.Compl Proofs.Merge Proofs.Negate Proofs.Reverse
     Proofs.Assembly Proofs.Reverse2.

(* writing the two bounds in either order gives the same slice, for every expression *)
Theorem C04_bounds_swap : forall env e x y rv,
  slice env e (Some x) (Some y) rv = slice env e (Some y) (Some x) rv.
Proof. exact bounds_swap. Qed.
Print Assumptions C04_bounds_swap.

Theorem C04_stored_reverse : forall env evs a b,
  fetch env (Stored evs) a b true = rev (fetch env (Stored evs) a b false).
Proof. exact stored_reverse. Qed.
Print Assumptions C04_stored_reverse.

(* time negation is an involution and mirrors covered instants (t |-> -t-1) *)
Theorem C04_negate_involutive : forall l, neg_stream (neg_stream l) = l.
Proof. exact neg_stream_involutive. Qed.
Print Assumptions C04_negate_involutive.

(* THE boundary of the time-negation trick: the negated stream is sorted by start iff the
   ends of the stream are monotone — nested events break every negated sweep (KF-D3) *)
Theorem C04_negate_sorted_iff_monotone_ends : forall l,
  sorted_start (neg_stream l) <-> mono_ends_desc l.
Proof. exact negate_sorted_iff_monotone_ends_gen. Qed.
Print Assumptions C04_negate_sorted_iff_monotone_ends.

(* union: same multiset, newest first *)
Theorem C04_union_reverse : forall fs,
  Forall (sorted_le key_le) fs ->
  Permutation (merge_by lt_rev (map (@rev ivl) fs)) (merge_by lt_fwd fs) /\
  sorted_le key_ge (merge_by lt_rev (map (@rev ivl) fs)).
Proof. exact union_reverse_perm. Qed.
Print Assumptions C04_union_reverse.

(* complement: the negated sweep returns exactly the reversed forward gaps when the source's
   ends are monotone (in particular for non-overlapping sources) *)
Theorem C04_complement_reverse_partial : forall xs a b,
  wf_win a b -> Forall wf_ivl xs -> sorted_start xs -> sorted_start (neg_stream (rev xs)) ->
  neg_stream (compl_sweep (neg_stream (rev xs)) (negO b) (negO a)) = rev (compl_sweep xs a b).
Proof. exact compl_reverse_mono. Qed.
Print Assumptions C04_complement_reverse_partial.

(* difference: list equality with the reversed forward result; subtractors need monotone ends *)
Theorem C04_difference_reverse_partial : forall src subs,
  Forall wf_ivl src -> Forall canon_ivl src -> disjoint_sorted src ->
  Forall wf_ivl subs -> sorted_start subs -> sorted_start (neg_stream (rev subs)) ->
  neg_stream (dsweep (neg_stream (rev src)) (neg_stream (rev subs))) = rev (dsweep src subs).
Proof. exact dsweep_reverse_mono. Qed.
Print Assumptions C04_difference_reverse_partial.

(* hence: first n of the reverse slice = last n of the forward slice *)
Theorem C04_last_n : forall (r f : list ivl) n, r = rev f -> firstn n r = rev (skipn (length f - n) f).
Proof. exact last_n. Qed.
Print Assumptions C04_last_n.

(* KF-D3 witness: ~[(0,10),(2,4)] over (0,20): forward [(10,20)], reverse [(4,20)] *)
Theorem C04_nested_refuted :
  let e := Compl (Stored [mkI (Some 0) (Some 10) (Rich 1); mkI (Some 2) (Some 4) (Rich 2)]) in
  slice [] e (Some 0) (Some 20) false = [mkI (Some 10) (Some 20) Plain] /\
  slice [] e (Some 0) (Some 20) true = [mkI (Some 4) (Some 20) Plain].
Proof. exact Reverse.C04_nested_refuted. Qed.
Print Assumptions C04_nested_refuted.

(* ---- whole expression trees ----
   [good'] (Proofs/Reverse2.v; decidable sufficient condition [sgood']): the forward domain [good]
   plus "every stream handed to a negated sweep has monotone ends" — the boundary of KF-D3.
   For every window: the reverse slice is the same multiset as the forward slice, newest first. *)
Theorem C04_rev_eq_fwd : forall env e a b, good' env e -> wf_win' a b ->
  Permutation (slice env e a b true) (slice env e a b false) /\
  sorted_by Z.geb (slice env e a b true) = true.
Proof. exact Reverse2.C04_rev_eq_fwd. Qed.
Print Assumptions C04_rev_eq_fwd.

Theorem C04_domain_decidable : forall env e a b, sgood' e = true -> wf_win' a b ->
  Permutation (slice env e a b true) (slice env e a b false) /\
  sorted_by Z.geb (slice env e a b true) = true.
Proof. exact C04_syntactic. Qed.
Print Assumptions C04_domain_decidable.

(* k-way intersection run in negated time: same multiset, newest first; exactly the reversed
   forward result for a single emitter *)
Theorem C04_intersection_reverse : forall masks ss,
  (2 <= length ss)%nat -> Forall (Forall wf_ivl) ss -> Forall disjoint_sorted ss ->
  let r := neg_stream (inter_sweep (map (fun s => neg_stream (rev s)) ss) (emit_sel masks)) in
  Permutation r (inter_sweep ss (emit_sel masks)) /\ pairwiseP same_or_after r /\ sorted_by Z.geb r = true.
Proof. exact inter_sweep_reverse. Qed.
Print Assumptions C04_intersection_reverse.

(* where the forward slice is non-overlapping the reverse slice IS its reverse, hence last-n *)
Theorem C04_rev_is_rev : forall env e a b, good' env e -> wf_win' a b ->
  disjoint_sorted (slice env e a b false) -> slice env e a b true = rev (slice env e a b false).
Proof. exact Reverse2.C04_rev_is_rev. Qed.
Print Assumptions C04_rev_is_rev.

(* ---- tie C: time negation as the code has it ----
   g_neg / g_negate_interval / g_negate_stream are the Gallina translations of the SOURCE TEXT of
   core._neg, _negate_interval, _negate_stream, regenerated from /repo on every run *)
From CG Require Import Gen.Source Proofs.GenEq.

Theorem C04_source_negation_is_model :
  (forall v, g_neg v = negO v) /\ (forall i, g_negate_interval i = neg_ivl i) /\
  (forall l, g_negate_stream l = neg_stream l).
Proof. exact (conj g_neg_eq (conj g_negate_interval_eq g_negate_stream_eq)). Qed.
Print Assumptions C04_source_negation_is_model.

Theorem C04_source_negate_involutive : forall l, g_negate_stream (g_negate_stream l) = l.
Proof. intro l. rewrite !g_negate_stream_eq. apply C04_negate_involutive. Qed.
Print Assumptions C04_source_negate_involutive.

(* the reverse complement is computed by the forward sweep in negated time, as the model says *)
Theorem C04_source_complement_reverse_is_model : forall src a b,
  g_compl_fetch src a b true = neg_stream (compl_sweep (neg_stream (src a b true)) (negO b) (negO a)).
Proof. intros. apply (g_compl_fetch_eq src a b true). Qed.
Print Assumptions C04_source_complement_reverse_is_model.

(* RecurringPattern._fetch_reverse as the code has it (tie C) *)
From CG Require Import Model.Loop Proofs.GenEq2 Model.Recur.
Theorem C04_source_recurring_reverse_is_model : forall r start e l,
  fetch_reverse_opt r start e = Recur.Ok l ->
  g_recur_fetch_reverse (reverse_fuel r start e) (r_freq r) (gen_fwd r) start (Some e) = RDone l.
Proof. exact g_recur_fetch_reverse_composed_eq. Qed.
Print Assumptions C04_source_recurring_reverse_is_model.
